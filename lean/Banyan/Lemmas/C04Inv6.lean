/-
C04 — the protocol invariant, part 6: building a complete part directory (`flushPart`, `mergeOut`).
-/
import Banyan.Lemmas.C04Inv5

namespace Banyan.C04
open Banyan.FS

/-! ### the block writer: all files are created first, written and fsynced at close -/

theorem merge_creates {G : Ghost} {ps : PartS} (hps : ps ∈ G.parts) :
    ∀ (fs : List PFile) (s : St), Inv G s → fs.Nodup → (∀ f ∈ fs, f ≠ .metadata) →
      (∀ f ∈ fs, ps.ino f = s.next + fs.idxOf f) →
      Along (Inv G) s (fs.map (fun f => Step.create (pfile ps.id f))) ∧
      (let s' := run s (fs.map (fun f => Step.create (pfile ps.id f)))
       s'.vol = applyOps (addOps ps fs) s.vol ∧ s'.dur = s.dur ∧ s'.pend = s.pend ++ addOps ps fs ∧
       s'.next = s.next + fs.length ∧ (∀ j, s'.vdataOf j = s.vdataOf j) ∧ (∀ j, s'.ddataOf j = s.ddataOf j)) := by
  intro fs
  induction fs with
  | nil =>
    intro s h _ _ _
    exact ⟨along_nil h, rfl, rfl, by simp [addOps, run_nil], rfl, fun _ => rfl, fun _ => rfl⟩
  | cons f fs ih =>
    intro s h hnd hnm hino
    have hf0 : ps.ino f = s.next := by
      have := hino f List.mem_cons_self; simpa using this
    obtain ⟨h1, hv1, hd1⟩ := inv_create h (pfile ps.id f)
      (by rw [← hf0]; exact .addFile ps.id f ps hps rfl (hnm f List.mem_cons_self))
    rw [List.nodup_cons] at hnd
    obtain ⟨hA', hv, hd, hp, hn, hvd, hdd⟩ := ih _ h1 hnd.2 (fun g hg => hnm g (List.mem_cons_of_mem _ hg))
      (by
        intro g hg
        have hne : g ≠ f := by intro hh; subst hh; exact hnd.1 hg
        rw [hino g (List.mem_cons_of_mem _ hg), idxOf_cons_ne hne, exec_create_next]; omega)
    rw [List.map_cons]
    refine ⟨along_cons h hA', ?_⟩
    simp only [run_cons]
    refine ⟨?_, ?_, ?_, ?_, ?_, ?_⟩
    · rw [hv, exec_create_vol, ← hf0]; simp [addOps, applyOps_cons]
    · rw [hd, exec_create_dur]
    · rw [hp, exec_create_pend, ← hf0]; simp [addOps]
    · rw [hn, exec_create_next]; simp; omega
    · intro j; rw [hvd, hv1]
    · intro j; rw [hdd, hd1]

theorem merge_writes {G : Ghost} {ps : PartS} (c : PFile → Content) :
    ∀ (fs : List PFile) (s : St), Inv G s → (fs.map ps.ino).Nodup → (∀ f ∈ fs, c f ≠ []) →
      (∀ f ∈ fs, Map.get s.vol (pfile ps.id f) = some (.file (ps.ino f)) ∧ s.vdataOf (ps.ino f) = [] ∧
        ps.ino f < s.next) →
      Along (Inv G) s (fs.flatMap (fun f => [Step.write (pfile ps.id f) (c f), .fsync (pfile ps.id f),
        .close (pfile ps.id f)])) ∧
      (let s' := run s (fs.flatMap (fun f => [Step.write (pfile ps.id f) (c f), .fsync (pfile ps.id f),
        .close (pfile ps.id f)]))
       s'.vol = s.vol ∧ s'.dur = s.dur ∧ s'.pend = s.pend ∧ s'.next = s.next ∧
       (∀ f ∈ fs, Stable s' (ps.ino f) (c f)) ∧ (∀ j c', c' ≠ [] → Stable s j c' → Stable s' j c')) := by
  intro fs
  induction fs with
  | nil =>
    intro s h _ _ _
    exact ⟨along_nil h, rfl, rfl, rfl, rfl, by simp, fun _ _ _ hs => hs⟩
  | cons f fs ih =>
    intro s h hnd hne hpre
    obtain ⟨hp, hempty, hlt⟩ := hpre f List.mem_cons_self
    obtain ⟨hA, hD⟩ := wfc_steps h (pfile ps.id f) (c f) (ps.ino f) hp hempty hlt
    obtain ⟨s1, hs1⟩ : ∃ s1, s1 = run s [.write (pfile ps.id f) (c f), .fsync (pfile ps.id f),
      .close (pfile ps.id f)] := ⟨_, rfl⟩
    rw [← hs1] at hD
    have h1 : Inv G s1 := by rw [hs1]; exact along_end hA
    rw [List.map_cons, List.nodup_cons] at hnd
    obtain ⟨hA', hv, hd, hpd, hn, hst, hk⟩ := ih s1 h1 hnd.2 (fun g hg => hne g (List.mem_cons_of_mem _ hg))
      (by
        intro g hg
        obtain ⟨hpg, heg, hlg⟩ := hpre g (List.mem_cons_of_mem _ hg)
        have hneq : ps.ino g ≠ ps.ino f := by
          intro hh; apply hnd.1; rw [← hh]; exact List.mem_map.2 ⟨g, hg, rfl⟩
        exact ⟨by rw [hD.vol]; exact hpg, by rw [hD.vdata _ hneq]; exact heg, by rw [hD.next]; exact hlg⟩)
    rw [List.flatMap_cons]
    refine ⟨along_append hA (by rw [← hs1]; exact hA'), ?_⟩
    simp only [run_append, ← hs1]
    refine ⟨by rw [hv, hD.vol], by rw [hd, hD.dur], by rw [hpd, hD.pend], by rw [hn, hD.next], ?_, ?_⟩
    · intro g hg
      rcases List.mem_cons.1 hg with rfl | hg
      · exact hk _ _ (hne g List.mem_cons_self) hD.stable
      · exact hst g hg
    · intro j c' hne' hs
      exact hk _ _ hne' (hD.keep _ _ hne' hs)

/-! ### the state of the part directory after the data files -/

theorem get_applyOps_addOps (ps : PartS) (fs : List PFile) (m : NS Name) (f : PFile) (hf : f ∈ fs) :
    Map.get (applyOps (addOps ps fs) m) (pfile ps.id f) = some (.file (ps.ino f)) := by
  apply get_applyOps_adds
  · intro o ho
    obtain ⟨g, _, rfl⟩ := List.mem_map.1 ho
    exact ⟨_, _, rfl, fun hpq => by rw [(pfile_inj hpq).2]⟩
  · right; exact List.mem_map.2 ⟨f, hf, rfl⟩

theorem get_applyOps_addOps_other (ps : PartS) (fs : List PFile) (m : NS Name) (q : Path)
    (hq : ∀ f, q ≠ pfile ps.id f) : Map.get (applyOps (addOps ps fs) m) q = Map.get m q := by
  apply get_applyOps_of_not_affects
  intro o ho
  obtain ⟨g, _, rfl⟩ := List.mem_map.1 ho
  simp only [Affects]
  exact fun hh => hq g hh.symm

/-- inode numbering of a part built by `flushPart` / `mergeOut`, starting at `base` -/
def flushIno (base : Nat) : PFile → Nat
  | .mt => base | .primary => base + 1 | .timestamps => base + 2 | .fv => base + 3
  | .tf => base + 4 | .tfm => base + 5 | .tagType => base + 6 | .metadata => base + 7

def mergeIno (base : Nat) : PFile → Nat
  | .mt => base | .primary => base + 1 | .timestamps => base + 2 | .fv => base + 3
  | .tfm => base + 4 | .tf => base + 5 | .tagType => base + 6 | .metadata => base + 7

def flushOrder : List PFile := [.mt, .primary, .timestamps, .fv, .tf, .tfm]
def mergeOrder : List PFile := [.mt, .primary, .timestamps, .fv, .tfm, .tf]

theorem mem_flushOrder (f : PFile) : f ∈ flushOrder ↔ f ∈ dataFiles := by cases f <;> simp [flushOrder, dataFiles]
theorem mem_mergeOrder (f : PFile) : f ∈ mergeOrder ↔ f ∈ dataFiles := by cases f <;> simp [mergeOrder, dataFiles]

/-- what `mkdirSync [part id]` establishes -/
theorem mkdir_part {G : Ghost} {s : St} (h : Inv G s) (id : Nat) :
    Along (Inv G) s (mkdirSync [.part id]) ∧
    (let s' := run s (mkdirSync [.part id])
     Map.get s'.vol [.part id] = some .dir ∧ Map.get s'.dur [.part id] = some .dir ∧
     s'.pend = s.pend.filter (fun o => !decide (o.dir = ([] : Path))) ∧ s'.next = s.next ∧
     (∀ j c, Stable s j c → Stable s' j c)) := by
  have h1 : Inv G (exec s (.mkdir [.part id])) := inv_dirop h (.mkPart id)
  have h2 := inv_fsyncdir h1 ([] : Path)
  refine ⟨along_cons h (along_cons h1 (along_nil h2)), ?_⟩
  simp only [mkdirSync, run_cons, run_nil]
  refine ⟨?_, ?_, ?_, rfl, fun _ _ hs => hs⟩
  · rw [exec_fsyncdir_vol, exec_mkdir_vol, get_apply_add]; simp
  · rw [exec_fsyncdir_dur, exec_mkdir_pend, List.filter_append, applyOps_append]
    simp [applyOps_cons, applyOps_nil, get_apply_add, List.dropLast]
  · rw [exec_fsyncdir_pend, exec_mkdir_pend, List.filter_append]
    simp [List.dropLast]
    apply List.filter_congr
    intro o _
    congr

end Banyan.C04
