/-
C04 — the protocol invariant, part 7: `flushPart` and `mergeOut` as a whole.
-/
import Banyan.Lemmas.C04Inv6

namespace Banyan.C04
open Banyan.FS

theorem fileContent_data (f : PFile) (bs : List Nat) (hf : f ∈ dataFiles) : fileContent f bs = dataContent f bs := by
  cases f <;> simp [dataFiles] at hf <;> rfl

theorem dataContent_ne_nil (f : PFile) (bs : List Nat) : dataContent f bs ≠ [] := by simp [dataContent]

/-- the ghost after a part was built completely -/
def Ghost.withPart (G : Ghost) (ps : PartS) : Ghost :=
  (({ G with parts := G.parts ++ [ps] } : Ghost).ready ps.id).durable ps.id

/-- common tail of `flushPart` / `mergeOut`: from the state after `mkdirSync` and the data files -/
theorem built_of_data {G : Ghost} {s s2 s8 : St} {ps : PartS} (order : List PFile)
    (horder : ∀ f, f ∈ order ↔ f ∈ dataFiles)
    (h0 : Inv G s) (hfresh : ps.id ∉ G.parts.map (·.id))
    (h8 : Inv { G with parts := G.parts ++ [ps] } s8)
    (hvolDir : Map.get s2.vol [.part ps.id] = some .dir) (hdurDir : Map.get s2.dur [.part ps.id] = some .dir)
    (hpend2 : s2.pend = s.pend.filter (fun o => !decide (o.dir = ([] : Path))))
    (hvol : s8.vol = applyOps (addOps ps order) s2.vol) (hdur : s8.dur = s2.dur)
    (hpend : s8.pend = s2.pend ++ addOps ps order)
    (hstable : ∀ f ∈ order, Stable s8 (ps.ino f) (dataContent f ps.bat))
    (hnext : s8.next = ps.ino .tagType) (hmeta : ps.ino .metadata = ps.ino .tagType + 1) :
    Built { G with parts := G.parts ++ [ps] } s8 ps := by
  refine ⟨h8, by simp, ?_, ?_, ?_, ?_, ?_, ?_, hnext, hmeta⟩
  · intro f hf
    rw [hvol]; exact get_applyOps_addOps ps order _ f ((horder f).2 hf)
  · rw [hvol, get_applyOps_addOps_other ps order _ _ (by intro f; simp [pfile])]; exact hvolDir
  · rw [hdur]; exact hdurDir
  · intro o ho hd
    rw [hpend, List.mem_append] at ho
    rcases ho with ho | ho
    · exfalso
      rw [hpend2] at ho
      obtain ⟨p', hp', hid'⟩ := allowed_dir_part (h0.pend o (List.mem_filter.1 ho).1) ps.id hd
      exact hfresh (List.mem_map.2 ⟨p', hp', hid'⟩)
    · obtain ⟨f, hf, rfl⟩ := List.mem_map.1 ho
      exact ⟨f, (horder f).1 hf, rfl⟩
  · intro f hf
    rw [hpend]
    exact List.mem_append_right _ (List.mem_map.2 ⟨f, (horder f).2 hf, rfl⟩)
  · intro f hf
    rw [fileContent_data f ps.bat hf]
    exact hstable f ((horder f).2 hf)

/-- `memPart.mustFlush`: at every prefix the invariant holds (for some ghost); at the end the part is complete. -/
theorem flushPart_along {G : Ghost} {s : St} (h : Inv G s) (id : Nat) (bs : List Nat)
    (hfresh : id ∉ G.parts.map (·.id)) (Q : Ghost → Prop)
    (hq : ∀ ps : PartS, ps.id = id → ps.bat = bs → ps.ready = false → ps.durable = false → ps.dying = false →
      Q { G with parts := G.parts ++ [ps] } ∧ Q (({ G with parts := G.parts ++ [ps] } : Ghost).ready ps.id) ∧
        Q (G.withPart ps)) :
    Along (InvQ Q) s (flushPart id bs) ∧
    Inv (G.withPart ⟨id, bs, flushIno s.next, false, false, false⟩) (run s (flushPart id bs)) := by
  obtain ⟨ps, hps⟩ : ∃ ps : PartS, ps = ⟨id, bs, flushIno s.next, false, false, false⟩ := ⟨_, rfl⟩
  have hid : ps.id = id := by rw [hps]
  have hbat : ps.bat = bs := by rw [hps]
  have hino : ps.ino = flushIno s.next := by rw [hps]
  rw [← hps]
  obtain ⟨q0, q1, q2⟩ := hq ps hid hbat (by rw [hps]) (by rw [hps]) (by rw [hps])
  have h1 : Inv { G with parts := G.parts ++ [ps] } s :=
    inv_addPart h ps (by rw [hid]; exact hfresh) (by rw [hps]) (by rw [hps]) (by rw [hps])
  obtain ⟨hA1, hvd, hdd, hp2, hn2, hk2⟩ := mkdir_part h1 id
  obtain ⟨s2, hs2⟩ : ∃ s2, s2 = run s (mkdirSync [.part id]) := ⟨_, rfl⟩
  rw [← hs2] at hvd hdd hp2 hn2 hk2
  have h2 : Inv { G with parts := G.parts ++ [ps] } s2 := by rw [hs2]; exact along_end hA1
  have hmem : ps ∈ ({ G with parts := G.parts ++ [ps] } : Ghost).parts := by simp
  obtain ⟨hA2, hv8, hd8, hp8, hn8, hst8, hk8⟩ := flush_files hmem (fun f => dataContent f bs) flushOrder s2 h2
    (by decide)
    (by intro f hf; exact ⟨by intro hh; subst hh; simp [flushOrder] at hf, dataContent_ne_nil _ _⟩)
    (by
      intro f hf
      rw [hino, hn2]
      simp only [flushOrder, List.mem_cons, List.mem_singleton, List.not_mem_nil, or_false] at hf
      rcases hf with rfl | rfl | rfl | rfl | rfl | rfl <;> rfl)
  rw [hid] at hA2 hv8 hd8 hp8 hn8 hst8 hk8
  obtain ⟨s8, hs8⟩ : ∃ s8, s8 = run s2 (flushOrder.flatMap (fun f => writeSync (pfile id f) (dataContent f bs))) :=
    ⟨_, rfl⟩
  rw [← hs8] at hv8 hd8 hp8 hn8 hst8 hk8
  have h8 : Inv { G with parts := G.parts ++ [ps] } s8 := by rw [hs8]; exact along_end hA2
  have hB : Built { G with parts := G.parts ++ [ps] } s8 ps := by
    apply built_of_data flushOrder mem_flushOrder h (by rw [hid]; exact hfresh) h8
      (by rw [hid]; exact hvd) (by rw [hid]; exact hdd) hp2 hv8 hd8
      hp8 (by rw [hbat]; exact hst8)
    · rw [hn8, hn2, hino]; rfl
    · rw [hino]; rfl
  obtain ⟨hA3, hfin⟩ := seal_part hB Q q0 q1 q2
  rw [hid, hbat] at hA3 hfin
  have hsplit : flushPart id bs = mkdirSync [.part id] ++
      (flushOrder.flatMap (fun f => writeSync (pfile id f) (dataContent f bs)) ++
        (writeAtomic (pfile id .tagType) tagTypeContent ++ writeAtomic (pfile id .metadata) (encList bs))) := by
    simp [flushPart, flushOrder, List.append_assoc]
  rw [hsplit]
  constructor
  · refine along_append (P := InvQ Q) (along_mono (fun _ hh => ⟨_, hh, q0⟩) hA1) ?_
    rw [← hs2]
    refine along_append (P := InvQ Q) (along_mono (fun _ hh => ⟨_, hh, q0⟩) hA2) ?_
    rw [← hs8]
    exact hA3
  · rw [run_append, ← hs2, run_append, ← hs8]
    unfold Ghost.withPart
    rw [hid]
    exact hfin

/-- `mergeParts`' output: the block writer's files, then `tag.type` and `metadata.json`. -/
theorem mergeOut_along {G : Ghost} {s : St} (h : Inv G s) (id : Nat) (bs : List Nat)
    (hfresh : id ∉ G.parts.map (·.id)) (Q : Ghost → Prop)
    (hq : ∀ ps : PartS, ps.id = id → ps.bat = bs → ps.ready = false → ps.durable = false → ps.dying = false →
      Q { G with parts := G.parts ++ [ps] } ∧ Q (({ G with parts := G.parts ++ [ps] } : Ghost).ready ps.id) ∧
        Q (G.withPart ps)) :
    Along (InvQ Q) s (mergeOut id bs) ∧
    Inv (G.withPart ⟨id, bs, mergeIno s.next, false, false, false⟩) (run s (mergeOut id bs)) := by
  obtain ⟨ps, hps⟩ : ∃ ps : PartS, ps = ⟨id, bs, mergeIno s.next, false, false, false⟩ := ⟨_, rfl⟩
  have hid : ps.id = id := by rw [hps]
  have hbat : ps.bat = bs := by rw [hps]
  have hino : ps.ino = mergeIno s.next := by rw [hps]
  rw [← hps]
  obtain ⟨q0, q1, q2⟩ := hq ps hid hbat (by rw [hps]) (by rw [hps]) (by rw [hps])
  have h1 : Inv { G with parts := G.parts ++ [ps] } s :=
    inv_addPart h ps (by rw [hid]; exact hfresh) (by rw [hps]) (by rw [hps]) (by rw [hps])
  obtain ⟨hA1, hvd, hdd, hp2, hn2, hk2⟩ := mkdir_part h1 id
  obtain ⟨s2, hs2⟩ : ∃ s2, s2 = run s (mkdirSync [.part id]) := ⟨_, rfl⟩
  rw [← hs2] at hvd hdd hp2 hn2 hk2
  have h2 : Inv { G with parts := G.parts ++ [ps] } s2 := by rw [hs2]; exact along_end hA1
  have hmem : ps ∈ ({ G with parts := G.parts ++ [ps] } : Ghost).parts := by simp
  have hinoIdx : ∀ f ∈ mergeOrder, ps.ino f = s2.next + mergeOrder.idxOf f := by
    intro f hf
    rw [hino, hn2]
    simp only [mergeOrder, List.mem_cons, List.mem_singleton, List.not_mem_nil, or_false] at hf
    rcases hf with rfl | rfl | rfl | rfl | rfl | rfl <;> rfl
  -- the creates
  obtain ⟨hA2, hv5, hd5, hp5, hn5, hvd5, hdd5⟩ := merge_creates hmem mergeOrder s2 h2 (by decide)
    (by intro f hf hh; subst hh; simp [mergeOrder] at hf) hinoIdx
  rw [hid] at hA2 hv5 hd5 hp5 hn5 hvd5 hdd5
  obtain ⟨s5, hs5⟩ : ∃ s5, s5 = run s2 (mergeOrder.map (fun f => Step.create (pfile id f))) := ⟨_, rfl⟩
  rw [← hs5] at hv5 hd5 hp5 hn5 hvd5 hdd5
  have h5 : Inv { G with parts := G.parts ++ [ps] } s5 := by rw [hs5]; exact along_end hA2
  -- the writes
  have hlt : ∀ f ∈ mergeOrder, s2.next ≤ ps.ino f ∧ ps.ino f < s2.next + 6 := by
    intro f hf
    rw [hinoIdx f hf]
    simp only [mergeOrder, List.mem_cons, List.mem_singleton, List.not_mem_nil, or_false] at hf
    rcases hf with rfl | rfl | rfl | rfl | rfl | rfl <;>
      exact ⟨Nat.le_add_right _ _, Nat.add_lt_add_left (by decide) _⟩
  obtain ⟨hA3, hv8, hd8, hp8, hn8, hst8, hk8⟩ := merge_writes (ps := ps) (fun f => dataContent f bs) mergeOrder s5 h5
    (by rw [hino]; simp [mergeOrder, mergeIno])
    (fun f _ => dataContent_ne_nil _ _)
    (by
      intro f hf
      refine ⟨?_, ?_, ?_⟩
      · rw [hv5]; exact get_applyOps_addOps ps mergeOrder _ f hf
      · rw [hvd5]; exact (h2.dataFresh _ (hlt f hf).1).1
      · rw [hn5]; simp [mergeOrder]; exact (hlt f hf).2)
  rw [hid] at hA3 hv8 hd8 hp8 hn8 hst8 hk8
  obtain ⟨s8, hs8⟩ : ∃ s8, s8 = run s5 (mergeOrder.flatMap (fun f => [Step.write (pfile id f) (dataContent f bs),
    .fsync (pfile id f), .close (pfile id f)])) := ⟨_, rfl⟩
  rw [← hs8] at hv8 hd8 hp8 hn8 hst8 hk8
  have h8 : Inv { G with parts := G.parts ++ [ps] } s8 := by rw [hs8]; exact along_end hA3
  have hB : Built { G with parts := G.parts ++ [ps] } s8 ps := by
    apply built_of_data mergeOrder mem_mergeOrder h (by rw [hid]; exact hfresh) h8
      (by rw [hid]; exact hvd) (by rw [hid]; exact hdd) hp2 (by rw [hv8]; exact hv5) (by rw [hd8, hd5])
      (by rw [hp8]; exact hp5) (by rw [hbat]; exact hst8)
    · rw [hn8, hn5, hn2, hino]; rfl
    · rw [hino]; rfl
  obtain ⟨hA4, hfin⟩ := seal_part hB Q q0 q1 q2
  rw [hid, hbat] at hA4 hfin
  have hsplit : mergeOut id bs = mkdirSync [.part id] ++
      (mergeOrder.map (fun f => Step.create (pfile id f)) ++
       (mergeOrder.flatMap (fun f => [Step.write (pfile id f) (dataContent f bs), .fsync (pfile id f),
          .close (pfile id f)]) ++
        (writeAtomic (pfile id .tagType) tagTypeContent ++ writeAtomic (pfile id .metadata) (encList bs)))) := by
    simp [mergeOut, mergeOrder, List.append_assoc]
  rw [hsplit]
  constructor
  · refine along_append (P := InvQ Q) (along_mono (fun _ hh => ⟨_, hh, q0⟩) hA1) ?_
    rw [← hs2]
    refine along_append (P := InvQ Q) (along_mono (fun _ hh => ⟨_, hh, q0⟩) hA2) ?_
    rw [← hs5]
    refine along_append (P := InvQ Q) (along_mono (fun _ hh => ⟨_, hh, q0⟩) hA3) ?_
    rw [← hs8]
    exact hA4
  · rw [run_append, ← hs2, run_append, ← hs5, run_append, ← hs8]
    unfold Ghost.withPart
    rw [hid]
    exact hfin

end Banyan.C04
