/-
C04 — the protocol invariant, part 8: publishing a manifest (`persist`), `gc.clean`, and part removal.
-/
import Banyan.Lemmas.C04Inv7

namespace Banyan.C04
open Banyan.FS

def Ghost.manReady (G : Ghost) (e : Nat) : Ghost := G.updMan e (fun x => { x with ready := true })

/-- the ghost after manifest `ms` was published -/
def Ghost.withMan (G : Ghost) (ms : ManS) : Ghost :=
  { (({ G with mans := G.mans ++ [ms] } : Ghost).manReady ms.epoch) with floor := some ms.epoch }

theorem persist_eq (e : Nat) (ids : List Nat) :
    persist e ids = [.create [.tmp (.snp e)], .write [.tmp (.snp e)] (encList ids), .fsync [.tmp (.snp e)],
      .close [.tmp (.snp e)]] ++ [.rename [.tmp (.snp e)] [.snp e], .fsyncdir []] := rfl

/-- `mustWriteSnapshot`: the new manifest becomes the floor with the final directory fsync. -/
theorem persist_along {G : Ghost} {s : St} (h : Inv G s) (e : Nat) (ids : List Nat)
    (hfresh : e ∉ G.mans.map (·.epoch)) (hge : G.aboveFloor e)
    (halive : ∀ id ∈ ids, ∀ ps ∈ G.parts, ps.id = id → ps.dying = false) (Q : Ghost → Prop)
    (hq : ∀ ms : ManS, ms.epoch = e → ms.ids = ids → ms.ready = false →
      Q { G with mans := G.mans ++ [ms] } ∧ Q (({ G with mans := G.mans ++ [ms] } : Ghost).manReady ms.epoch) ∧
        Q (G.withMan ms)) :
    Along (InvQ Q) s (persist e ids) ∧
    Inv (G.withMan ⟨e, ids, s.next, false⟩) (run s (persist e ids)) := by
  obtain ⟨ms, hms⟩ : ∃ ms : ManS, ms = ⟨e, ids, s.next, false⟩ := ⟨_, rfl⟩
  have he : ms.epoch = e := by rw [hms]
  have hids : ms.ids = ids := by rw [hms]
  have hino : ms.ino = s.next := by rw [hms]
  rw [← hms]
  obtain ⟨q0, q1, q2⟩ := hq ms he hids (by rw [hms])
  have h1 : Inv { G with mans := G.mans ++ [ms] } s :=
    inv_addMan h ms (by rw [he]; exact hfresh) (by rw [hms]) (by rw [hids]; exact halive)
  have hmem : ms ∈ ({ G with mans := G.mans ++ [ms] } : Ghost).mans := by simp
  obtain ⟨hA1, hF1⟩ := file_steps h1 [.tmp (.snp e)] (encList ids)
    (by rw [← hino, ← he]; exact .addSnpTmp ms hmem)
  obtain ⟨s4, hs4⟩ : ∃ s4, s4 = run s [.create [.tmp (.snp e)], .write [.tmp (.snp e)] (encList ids),
    .fsync [.tmp (.snp e)], .close [.tmp (.snp e)]] := ⟨_, rfl⟩
  rw [← hs4] at hF1
  have h4 : Inv { G with mans := G.mans ++ [ms] } s4 := by rw [hs4]; exact along_end hA1
  -- the manifest becomes ready
  have h4r : Inv (({ G with mans := G.mans ++ [ms] } : Ghost).manReady ms.epoch) s4 :=
    inv_setManReady h4 ms hmem (by rw [hino, hids]; exact hF1.stable)
  have hmem' : ({ ms with ready := true } : ManS) ∈ (({ G with mans := G.mans ++ [ms] } : Ghost).manReady ms.epoch).mans :=
    mem_updMan.2 ⟨ms, hmem, by simp⟩
  have h5 : Inv (({ G with mans := G.mans ++ [ms] } : Ghost).manReady ms.epoch)
      (exec s4 (.rename [.tmp (.snp e)] [.snp e])) := by
    have := inv_dirop h4r (.renSnp { ms with ready := true } hmem' rfl)
    have he' : ({ ms with ready := true } : ManS).epoch = e := he
    rw [he'] at this
    rw [he]
    exact this
  obtain ⟨s5, hs5⟩ : ∃ s5, s5 = exec s4 (.rename [.tmp (.snp e)] [.snp e]) := ⟨_, rfl⟩
  rw [← hs5] at h5
  have h6 := inv_fsyncdir h5 ([] : Path)
  obtain ⟨s6, hs6⟩ : ∃ s6, s6 = exec s5 (.fsyncdir []) := ⟨_, rfl⟩
  rw [← hs6] at h6
  -- the manifest is in the durable and the volatile name space
  have hvol5 : s5.vol = (DOp.ren [.tmp (.snp e)] [.snp e]).apply ((DOp.add [.tmp (.snp e)] (.file s.next)).apply s.vol) := by
    rw [hs5, exec_rename_vol, hF1.vol]
  have hpend5 : s5.pend = s.pend ++ [.add [.tmp (.snp e)] (.file s.next), .ren [.tmp (.snp e)] [.snp e]] := by
    rw [hs5, exec_rename_pend, hF1.pend]; simp
  have hdur6 : s6.dur = applyOps [.add [.tmp (.snp e)] (.file s.next), .ren [.tmp (.snp e)] [.snp e]]
      (applyOps (s.pend.filter (fun o => decide (o.dir = ([] : Path)))) s.dur) := by
    rw [hs6, exec_fsyncdir_dur, hpend5, List.filter_append, applyOps_append]
    have hd5 : s5.dur = s.dur := by rw [hs5, exec_rename_dur, hF1.dur]
    rw [hd5]; simp
  have h6f : Inv { (({ G with mans := G.mans ++ [ms] } : Ghost).manReady ms.epoch) with floor := some ({ ms with ready := true } : ManS).epoch } s6 := by
    apply inv_setFloor h6 { ms with ready := true } hmem'
    · intro e0 hf
      have : G.floor = some e0 := hf
      rw [show ({ ms with ready := true } : ManS).epoch = e from he]
      exact hge e0 this
    · refine ⟨s.next, ?_⟩
      rw [show ({ ms with ready := true } : ManS).epoch = e from he, hdur6, applyOps_cons, applyOps_cons,
        applyOps_nil, get_apply_ren, get_apply_add]
      simp
    · refine ⟨s.next, ?_⟩
      have hv6 : s6.vol = s5.vol := by rw [hs6, exec_fsyncdir_vol]
      rw [show ({ ms with ready := true } : ManS).epoch = e from he, hv6, hvol5, get_apply_ren, get_apply_add]
      simp
  rw [persist_eq]
  constructor
  · refine along_append (P := InvQ Q) (along_mono (fun _ hh => ⟨_, hh, q0⟩) hA1) ?_
    rw [← hs4]
    refine along_cons ⟨_, h4r, q1⟩ ?_
    rw [← hs5]
    refine along_cons ⟨_, h5, q1⟩ ?_
    rw [← hs6]
    exact along_nil ⟨_, h6f, q2⟩
  · rw [run_append, ← hs4]
    simp only [run_cons, run_nil]
    rw [← hs5, ← hs6]
    exact h6f

/-- `gc.clean`: unlink manifests older than the floor -/
theorem clean_along {G : Ghost} (e0 : Nat) (hf : G.floor = some e0) :
    ∀ (ds : List Nat) (s : St), Inv G s → (∀ d ∈ ds, d < e0) →
      Along (Inv G) s (cleanSteps ds) ∧ Inv G (run s (cleanSteps ds)) := by
  intro ds
  induction ds with
  | nil => intro s h _; exact ⟨along_nil h, h⟩
  | cons d ds ih =>
    intro s h hlt
    have h1 : Inv G (exec s (.unlink [.snp d])) := inv_dirop h (.delSnp d e0 hf (hlt d List.mem_cons_self))
    obtain ⟨hA, hE⟩ := ih _ h1 (fun d' hd' => hlt d' (List.mem_cons_of_mem _ hd'))
    exact ⟨along_cons h hA, hE⟩

def Ghost.dyingPart (G : Ghost) (id : Nat) : Ghost := G.updPart id (fun p => { p with dying := true })

/-- unlink a list of files of a dying part -/
theorem unlinks_along {G : Ghost} (id : Nat) (ps : PartS) (hps : ps ∈ G.parts) (hid : ps.id = id)
    (hd : ps.dying = true) :
    ∀ (fs : List PFile) (s : St), Inv G s →
      Along (Inv G) s (fs.map (fun f => Step.unlink (pfile id f))) ∧
      Inv G (run s (fs.map (fun f => Step.unlink (pfile id f)))) := by
  intro fs
  induction fs with
  | nil => intro s h; exact ⟨along_nil h, h⟩
  | cons f fs ih =>
    intro s h
    have h1 : Inv G (exec s (.unlink (pfile id f))) := inv_dirop h (.delPartFile id (.pf f) ps hps hid hd)
    obtain ⟨hA, hE⟩ := ih _ h1
    exact ⟨along_cons h hA, hE⟩

/-- `MustRMAll(part)`: the part is marked dying first; nothing at or above the floor lists it -/
theorem rmPart_along {G : Ghost} {s : St} (h : Inv G s) (id : Nat)
    (hknown : ∃ ps ∈ G.parts, ps.id = id)
    (hfree : ∀ ms ∈ G.mans, G.aboveFloor ms.epoch → id ∉ ms.ids) (Q : Ghost → Prop) (hq : Q (G.dyingPart id)) :
    Along (InvQ Q) s (rmPart id) ∧ Inv (G.dyingPart id) (run s (rmPart id)) := by
  have h1 : Inv (G.dyingPart id) s := inv_setDying h id hfree
  obtain ⟨ps, hps, hid⟩ := hknown
  have hps' : ({ ps with dying := true } : PartS) ∈ (G.dyingPart id).parts :=
    mem_updPart.2 ⟨ps, hps, by simp [hid]⟩
  obtain ⟨hA, hE⟩ := unlinks_along id _ hps' hid rfl partFiles s h1
  have h2 : Inv (G.dyingPart id) (exec (run s (partFiles.map (fun f => Step.unlink (pfile id f)))) (.rmdir [.part id])) :=
    inv_dirop hE (.delPart id _ hps' hid rfl)
  unfold rmPart
  constructor
  · refine along_append (P := InvQ Q) (along_mono (fun _ hh => ⟨_, hh, hq⟩) hA) ?_
    exact along_cons ⟨_, hE, hq⟩ (along_nil ⟨_, h2, hq⟩)
  · rw [run_append]; exact h2

end Banyan.C04
