/-
C04 — the protocol invariant, part 9: how the composite ghosts look, flushing several parts, removing several
parts, publishing (persist + gc.clean).
-/
import Banyan.Lemmas.C04Inv8

namespace Banyan.C04
open Banyan.FS

/-! ### the composite ghosts -/

theorem withPart_mans (G : Ghost) (ps : PartS) : (G.withPart ps).mans = G.mans := rfl
theorem withPart_floor (G : Ghost) (ps : PartS) : (G.withPart ps).floor = G.floor := rfl

theorem mem_withPart {G : Ghost} {ps : PartS} (hfresh : ps.id ∉ G.parts.map (·.id)) {p' : PartS} :
    p' ∈ (G.withPart ps).parts ↔ p' ∈ G.parts ∨ p' = { ps with ready := true, durable := true } := by
  unfold Ghost.withPart Ghost.durable Ghost.ready
  rw [mem_updPart]
  constructor
  · rintro ⟨p1, hp1, rfl⟩
    obtain ⟨p0, hp0, rfl⟩ := mem_updPart.1 hp1
    have hp0' : p0 ∈ G.parts ∨ p0 = ps := by simpa using hp0
    rcases hp0' with hp0' | rfl
    · left
      have hne : p0.id ≠ ps.id := by
        intro hh; apply hfresh; rw [← hh]; exact List.mem_map.2 ⟨p0, hp0', rfl⟩
      simp [hne, hp0']
    · right; simp
  · rintro (hp | rfl)
    · have hne : p'.id ≠ ps.id := by
        intro hh; apply hfresh; rw [← hh]; exact List.mem_map.2 ⟨p', hp, rfl⟩
      refine ⟨p', mem_updPart.2 ⟨p', by simp [hp], by simp [hne]⟩, by simp [hne]⟩
    · refine ⟨{ ps with ready := true }, mem_updPart.2 ⟨ps, by simp, by simp⟩, by simp⟩

theorem withMan_parts (G : Ghost) (ms : ManS) : (G.withMan ms).parts = G.parts := rfl
theorem withMan_floor (G : Ghost) (ms : ManS) : (G.withMan ms).floor = some ms.epoch := rfl

theorem mem_withMan {G : Ghost} {ms : ManS} (hfresh : ms.epoch ∉ G.mans.map (·.epoch)) {x' : ManS} :
    x' ∈ (G.withMan ms).mans ↔ x' ∈ G.mans ∨ x' = { ms with ready := true } := by
  unfold Ghost.withMan Ghost.manReady
  show x' ∈ (({ G with mans := G.mans ++ [ms] } : Ghost).updMan ms.epoch _).mans ↔ _
  rw [mem_updMan]
  constructor
  · rintro ⟨x0, hx0, rfl⟩
    have hx0' : x0 ∈ G.mans ∨ x0 = ms := by simpa using hx0
    rcases hx0' with hx0' | rfl
    · left
      have hne : x0.epoch ≠ ms.epoch := by
        intro hh; apply hfresh; rw [← hh]; exact List.mem_map.2 ⟨x0, hx0', rfl⟩
      simp [hne, hx0']
    · right; simp
  · rintro (hx | rfl)
    · have hne : x'.epoch ≠ ms.epoch := by
        intro hh; apply hfresh; rw [← hh]; exact List.mem_map.2 ⟨x', hx, rfl⟩
      exact ⟨x', by simp [hx], by simp [hne]⟩
    · exact ⟨ms, by simp, by simp⟩

theorem dyingPart_mans (G : Ghost) (id : Nat) : (G.dyingPart id).mans = G.mans := rfl
theorem dyingPart_floor (G : Ghost) (id : Nat) : (G.dyingPart id).floor = G.floor := rfl

theorem mem_dyingPart {G : Ghost} {id : Nat} {p' : PartS} :
    p' ∈ (G.dyingPart id).parts ↔ ∃ p ∈ G.parts, p' = if p.id = id then { p with dying := true } else p :=
  mem_updPart

theorem aboveFloor_congr {G G' : Ghost} (h : G'.floor = G.floor) (e : Nat) : G'.aboveFloor e ↔ G.aboveFloor e := by
  unfold Ghost.aboveFloor; rw [h]

/-! ### flushing several memory parts -/

/-- `G'` is `G` plus complete parts for the given (id, batches) list; old parts untouched -/
structure PartsAdded (G G' : Ghost) (new : List (Nat × List Nat)) : Prop where
  mans : G'.mans = G.mans
  floor : G'.floor = G.floor
  old : ∀ p ∈ G.parts, p ∈ G'.parts
  cases : ∀ p' ∈ G'.parts, p' ∈ G.parts ∨
    (∃ x ∈ new, p'.id = x.1 ∧ p'.bat = x.2 ∧ p'.ready = true ∧ p'.durable = true ∧ p'.dying = false)
  added : ∀ x ∈ new, ∃ p' ∈ G'.parts, p'.id = x.1 ∧ p'.bat = x.2 ∧ p'.ready = true ∧ p'.durable = true ∧
    p'.dying = false

theorem partsAdded_refl (G : Ghost) : PartsAdded G G [] :=
  ⟨rfl, rfl, fun _ h => h, fun _ h => Or.inl h, by intro x hx; simp at hx⟩

theorem partsAdded_snoc {G G1 : Ghost} {d : List (Nat × List Nat)} (hPA : PartsAdded G G1 d) (ps : PartS)
    (hfresh : ps.id ∉ G1.parts.map (·.id)) (hdy : ps.dying = false) :
    PartsAdded G (G1.withPart ps) (d ++ [(ps.id, ps.bat)]) := by
  have hmw := @mem_withPart G1 ps hfresh
  refine ⟨by rw [withPart_mans, hPA.mans], by rw [withPart_floor, hPA.floor], ?_, ?_, ?_⟩
  · intro q hq; exact hmw.2 (Or.inl (hPA.old q hq))
  · intro q' hq'
    rcases hmw.1 hq' with hq' | rfl
    · rcases hPA.cases q' hq' with hq' | ⟨x, hx, hh⟩
      · left; exact hq'
      · right; exact ⟨x, List.mem_append_left _ hx, hh⟩
    · right; exact ⟨(ps.id, ps.bat), by simp, rfl, rfl, rfl, rfl, hdy⟩
  · intro x hx
    rcases List.mem_append.1 hx with hx | hx
    · obtain ⟨p', hp', hh⟩ := hPA.added x hx
      exact ⟨p', hmw.2 (Or.inl hp'), hh⟩
    · simp at hx; subst hx
      exact ⟨_, hmw.2 (Or.inr rfl), rfl, rfl, rfl, rfl, hdy⟩

/-- flushing the memory parts `mems0` one after the other.  `Qd done G` is the caller's description of the ghost
    after the parts `done` were flushed, `Qm` what holds for every intermediate ghost. -/
theorem flushMany_along (Qm : Ghost → Prop) (Qd : List PartG → Ghost → Prop) (mems0 : List PartG)
    (hQm : ∀ d G1, Qd d G1 → Qm G1)
    (hstep : ∀ d p rest G1, mems0 = d ++ p :: rest → Qd d G1 → (G1.parts.map (·.id)).Nodup →
      p.id ∉ G1.parts.map (·.id) → ∀ ps : PartS, ps.id = p.id → ps.bat = p.batches → ps.ready = false → ps.durable = false → ps.dying = false →
        Qm { G1 with parts := G1.parts ++ [ps] } ∧ Qm (({ G1 with parts := G1.parts ++ [ps] } : Ghost).ready ps.id) ∧
          Qd (d ++ [p]) (G1.withPart ps)) :
    ∀ (mems done : List PartG) (G : Ghost) (s : St), mems0 = done ++ mems → Inv G s → Qd done G →
      (mems.map (·.id)).Nodup → (∀ p ∈ mems, p.id ∉ G.parts.map (·.id)) →
      Along (InvQ Qm) s (mems.flatMap (fun p => flushPart p.id p.batches)) ∧
      ∃ G', Inv G' (run s (mems.flatMap (fun p => flushPart p.id p.batches))) ∧ Qd mems0 G' := by
  intro mems
  induction mems with
  | nil =>
    intro done G s h0 h hQ _ _
    have : mems0 = done := by rw [h0]; simp
    exact ⟨along_nil ⟨G, h, hQm _ _ hQ⟩, G, h, by rw [this]; exact hQ⟩
  | cons p mems ih =>
    intro done G s h0 h hQ hnd hfresh
    rw [List.map_cons, List.nodup_cons] at hnd
    have hf0 := hfresh p List.mem_cons_self
    obtain ⟨hA, hE⟩ := flushPart_along h p.id p.batches hf0 Qm
      (by
        intro ps h1 h2 h3 h4 h5
        obtain ⟨a, b, c⟩ := hstep done p mems G h0 hQ h.gwf.partIds hf0 ps h1 h2 h3 h4 h5
        exact ⟨a, b, hQm _ _ c⟩)
    obtain ⟨ps, hps⟩ : ∃ ps : PartS, ps = ⟨p.id, p.batches, flushIno s.next, false, false, false⟩ := ⟨_, rfl⟩
    rw [← hps] at hE
    have hpsid : ps.id = p.id := by rw [hps]
    have hQ1 : Qd (done ++ [p]) (G.withPart ps) :=
      (hstep done p mems G h0 hQ h.gwf.partIds hf0 ps hpsid (by rw [hps]) (by rw [hps]) (by rw [hps]) (by rw [hps])).2.2
    have hfresh1 : ∀ q ∈ mems, q.id ∉ (G.withPart ps).parts.map (·.id) := by
      intro q hq hmem
      obtain ⟨p', hp', hid'⟩ := List.mem_map.1 hmem
      rcases (mem_withPart (by rw [hpsid]; exact hf0)).1 hp' with hp' | rfl
      · exact hfresh q (List.mem_cons_of_mem _ hq) (List.mem_map.2 ⟨p', hp', hid'⟩)
      · apply hnd.1
        have : p.id = q.id := by rw [← hid', ← hpsid]
        rw [this]; exact List.mem_map.2 ⟨q, hq, rfl⟩
    obtain ⟨hA', G', hE', hQ'⟩ := ih (done ++ [p]) (G.withPart ps) _ (by rw [h0]; simp) hE hQ1 hnd.2 hfresh1
    rw [List.flatMap_cons]
    exact ⟨along_append hA hA', G', by rw [run_append]; exact hE', hQ'⟩

/-! ### removing several parts -/

/-- `G'` is `G` with the listed parts marked dying -/
structure PartsDying (G G' : Ghost) (dead : List Nat) : Prop where
  mans : G'.mans = G.mans
  floor : G'.floor = G.floor
  cases : ∀ p' ∈ G'.parts, ∃ p ∈ G.parts, p'.id = p.id ∧ p'.bat = p.bat ∧
    ((p' = p ∧ p.id ∉ dead) ∨ (p'.dying = true ∧ p.id ∈ dead))
  keep : ∀ p ∈ G.parts, ∃ p' ∈ G'.parts, p'.id = p.id ∧ (p.id ∉ dead → p' = p)

theorem reapMany_along (Q : Ghost → Prop)
    (hstep : ∀ G1 id, Q G1 → (∀ ms ∈ G1.mans, G1.aboveFloor ms.epoch → id ∉ ms.ids) → Q (G1.dyingPart id)) :
    ∀ (dead : List Nat) (G : Ghost) (s : St), Inv G s →
      (∀ id ∈ dead, ∃ ps ∈ G.parts, ps.id = id) →
      (∀ id ∈ dead, ∀ ms ∈ G.mans, G.aboveFloor ms.epoch → id ∉ ms.ids) → Q G →
      Along (InvQ Q) s (dead.flatMap rmPart) ∧
      ∃ G', Inv G' (run s (dead.flatMap rmPart)) ∧ PartsDying G G' dead ∧ Q G' := by
  intro dead
  induction dead with
  | nil =>
    intro G s h _ _ hQ
    refine ⟨along_nil ⟨G, h, hQ⟩, G, h, ⟨rfl, rfl, ?_, ?_⟩, hQ⟩
    · intro p' hp'; exact ⟨p', hp', rfl, rfl, Or.inl ⟨rfl, by simp⟩⟩
    · intro p hp; exact ⟨p, hp, rfl, fun _ => rfl⟩
  | cons id dead ih =>
    intro G s h hknown hfree hQ
    have hQ1 : Q (G.dyingPart id) := hstep G id hQ (hfree id List.mem_cons_self)
    obtain ⟨hA, hE⟩ := rmPart_along h id (hknown id List.mem_cons_self) (hfree id List.mem_cons_self) Q hQ1
    have hknown1 : ∀ id' ∈ dead, ∃ ps ∈ (G.dyingPart id).parts, ps.id = id' := by
      intro id' hid'
      obtain ⟨ps, hps, hpid⟩ := hknown id' (List.mem_cons_of_mem _ hid')
      refine ⟨_, mem_dyingPart.2 ⟨ps, hps, rfl⟩, ?_⟩
      by_cases hh : ps.id = id
      · rw [if_pos hh]; exact hpid
      · rw [if_neg hh]; exact hpid
    have hfree1 : ∀ id' ∈ dead, ∀ ms ∈ (G.dyingPart id).mans, (G.dyingPart id).aboveFloor ms.epoch → id' ∉ ms.ids := by
      intro id' hid' ms hms hab
      exact hfree id' (List.mem_cons_of_mem _ hid') ms hms ((aboveFloor_congr (dyingPart_floor G id) _).1 hab)
    obtain ⟨hA', G', hE', hPD, hQ'⟩ := ih (G.dyingPart id) _ hE hknown1 hfree1 hQ1
    rw [List.flatMap_cons]
    refine ⟨along_append hA hA', G', by rw [run_append]; exact hE', ?_, hQ'⟩
    refine ⟨by rw [hPD.mans, dyingPart_mans], by rw [hPD.floor, dyingPart_floor], ?_, ?_⟩
    · intro p' hp'
      obtain ⟨p1, hp1, hid1, hbat1, hc⟩ := hPD.cases p' hp'
      obtain ⟨p0, hp0, rfl⟩ := mem_dyingPart.1 hp1
      by_cases hh : p0.id = id
      · simp only [hh, if_true] at hid1 hbat1 hc
        refine ⟨p0, hp0, by rw [hid1, hh], by rw [hbat1], Or.inr ⟨?_, by rw [hh]; simp⟩⟩
        rcases hc with ⟨rfl, _⟩ | ⟨hd, _⟩
        · rfl
        · exact hd
      · simp only [hh, if_false] at hid1 hbat1 hc
        refine ⟨p0, hp0, hid1, hbat1, ?_⟩
        rcases hc with ⟨rfl, hnd⟩ | ⟨hd, hin⟩
        · left; exact ⟨rfl, by simp [hh, hnd]⟩
        · right; exact ⟨hd, List.mem_cons_of_mem _ hin⟩
    · intro p hp
      obtain ⟨p', hp', hid', hk⟩ := hPD.keep _ (mem_dyingPart.2 ⟨p, hp, rfl⟩)
      refine ⟨p', hp', ?_, ?_⟩
      · rw [hid']; by_cases hh : p.id = id <;> simp [hh]
      · intro hnd
        have hne : p.id ≠ id := fun hh => hnd (by rw [hh]; simp)
        have hnd' : p.id ∉ dead := fun hh => hnd (List.mem_cons_of_mem _ hh)
        have := hk (by simp [hne]; exact hnd')
        rw [this]; simp [hne]

end Banyan.C04
