/-
C04 — the link between the ghost state and the table's control state between two operations.
-/
import Banyan.Lemmas.C04Acc
import Banyan.Lemmas.C04Tbl

namespace Banyan.C04
open Banyan.FS

/-- how the ghost relates to the table's control state between operations -/
structure Link (G : Ghost) (tb : Tbl) : Prop where
  partBound : ∀ ps ∈ G.parts, ps.id ≤ tb.curPartID
  idsBound : ∀ p ∈ tb.parts, p.id ≤ tb.curPartID
  idsNodup : (tb.parts.map (·.id)).Nodup
  memFresh : ∀ p ∈ tb.parts, p.mem = true → p.id ∉ G.parts.map (·.id)
  fileKnown : ∀ p ∈ tb.parts, p.mem = false → ∃ ps ∈ G.parts, ps.id = p.id ∧ ps.dying = false
  zombKnown : ∀ id ∈ tb.zombies, (∃ ps ∈ G.parts, ps.id = id ∧ ps.dying = false) ∧ id ∉ tb.parts.map (·.id)
  dyingGone : ∀ ps ∈ G.parts, ps.dying = true → ps.id ∉ tb.parts.map (·.id) ∧ ps.id ∉ tb.zombies
  epochBound : ∀ ms ∈ G.mans, ms.epoch ≤ tb.epoch
  floorLink : (tb.liveEpoch = 0 ∧ G.floor = none) ∨ (0 < tb.liveEpoch ∧ G.floor = some tb.liveEpoch)
  liveBound : tb.liveEpoch ≤ tb.epoch
  deletableNil : tb.deletable = []
  aboveIds : ∀ ms ∈ G.mans, G.aboveFloor ms.epoch → ∀ id ∈ ms.ids, id ∈ tb.parts.map (·.id)
  /-- the ghost of a file part of the snapshot is complete and covers the same batches -/
  fileFull : ∀ p ∈ tb.parts, p.mem = false → ∀ ps ∈ G.parts, ps.id = p.id →
    ps.ready = true ∧ ps.durable = true ∧ ps.bat = p.batches
  /-- a manifest at or above the floor lists every file part of the snapshot … -/
  listsFile : ∀ ms ∈ G.mans, G.aboveFloor ms.epoch → ∀ p ∈ tb.parts, p.mem = false → p.id ∈ ms.ids
  /-- … and the memory parts that existed when it was written, which are the oldest ones -/
  listedPrefix : ∀ ms ∈ G.mans, G.aboveFloor ms.epoch → ∃ pre suf, tb.parts.filter (·.mem) = pre ++ suf ∧
    (∀ p ∈ pre, p.id ∈ ms.ids) ∧ (∀ p ∈ suf, p.id ∉ ms.ids)
  /-- batch bookkeeping of the table -/
  tbl : TB tb

theorem link_init (e : Nat) : Link {} ({ epoch := e } : Tbl) := by
  refine ⟨?_, ?_, by simp, ?_, ?_, ?_, ?_, ?_, Or.inl ⟨rfl, rfl⟩, Nat.zero_le _, rfl, ?_, ?_, ?_, ?_, tb_init e⟩ <;>
    intros <;> simp_all

theorem aboveFloor_of_floorLink {G : Ghost} {tb : Tbl} (hL : Link G tb) (e : Nat) (he : tb.epoch < e) :
    G.aboveFloor e := by
  intro e0 hf
  rcases hL.floorLink with ⟨_, hn⟩ | ⟨_, hs⟩
  · rw [hn] at hf; cases hf
  · rw [hs] at hf; cases hf
    have := hL.liveBound; omega

/-- `Link` does not look at `held` -/
theorem link_congr {G : Ghost} {t t' : Tbl} (hL : Link G t)
    (h1 : t'.parts = t.parts) (h2 : t'.curPartID = t.curPartID) (h3 : t'.epoch = t.epoch)
    (h4 : t'.liveEpoch = t.liveEpoch) (h5 : t'.deletable = t.deletable) (h6 : t'.zombies = t.zombies)
    (h7 : t'.acked = t.acked) : Link G t' := by
  refine ⟨?_, ?_, ?_, ?_, ?_, ?_, ?_, ?_, ?_, ?_, ?_, ?_, ?_, ?_, ?_, tb_congr hL.tbl h1 h7 h4⟩
  · rw [h2]; exact hL.partBound
  · rw [h1, h2]; exact hL.idsBound
  · rw [h1]; exact hL.idsNodup
  · rw [h1]; exact hL.memFresh
  · rw [h1]; exact hL.fileKnown
  · rw [h1, h6]; exact hL.zombKnown
  · rw [h1, h6]; exact hL.dyingGone
  · rw [h3]; exact hL.epochBound
  · rw [h4]; exact hL.floorLink
  · rw [h3, h4]; exact hL.liveBound
  · rw [h5]; exact hL.deletableNil
  · rw [h1]; exact hL.aboveIds
  · rw [h1]; exact hL.fileFull
  · rw [h1]; exact hL.listsFile
  · rw [h1]; exact hL.listedPrefix

/-- a listed id the ghost knows belongs to a file part of the snapshot -/
theorem Link.listed_known_file {G : Ghost} {tb : Tbl} (hL : Link G tb) {ms : ManS} (hms : ms ∈ G.mans)
    (hab : G.aboveFloor ms.epoch) {id : Nat} (hid : id ∈ ms.ids) {ps : PartS} (hps : ps ∈ G.parts) (hpid : ps.id = id) :
    id ∈ (tb.parts.filter (fun p => !p.mem)).map (·.id) := by
  obtain ⟨p, hp, hpi⟩ := List.mem_map.1 (hL.aboveIds ms hms hab id hid)
  have hm : p.mem = false := by
    apply bool_eq_false_of_ne_true
    intro hm
    exact hL.memFresh p hp hm (List.mem_map.2 ⟨ps, hps, by rw [hpid, hpi]⟩)
  exact List.mem_map.2 ⟨p, List.mem_filter.2 ⟨hp, by simp [hm]⟩, hpi⟩

/-- the ghost of a file part of the snapshot -/
theorem Link.file_ghost {G : Ghost} {tb : Tbl} (hL : Link G tb) {p : PartG} (hp : p ∈ tb.parts) (hm : p.mem = false) :
    ∃ ps ∈ G.parts, ps.id = p.id ∧ ps.bat = p.batches ∧ ps.durable = true ∧ ps.dying = false := by
  obtain ⟨ps, hps, hid, hnd⟩ := hL.fileKnown p hp hm
  obtain ⟨_, hdur, hbat⟩ := hL.fileFull p hp hm ps hps hid
  exact ⟨ps, hps, hid, hbat, hdur, hnd⟩

/-- between two operations the accounting holds with the cover of the snapshot's file parts -/
theorem acc_of_link {G : Ghost} {tb : Tbl} (hG : (G.parts.map (·.id)).Nodup) (hL : Link G tb) :
    AccAt tb.acked (fileBatches tb).length G := by
  constructor
  · intro ms hms hab S hS
    refine ⟨(fileBatches tb).length, Nat.le_refl _, hL.tbl.len_le, ?_⟩
    refine (admissible_exact (L := tb.parts.filter (fun p => !p.mem)) hG
      (nodup_map_filter _ _ _ hL.idsNodup) ?_ ?_ hS).trans hL.tbl.file
    · intro id hid ps hps hpid _ _
      exact hL.listed_known_file hms hab hid hps hpid
    · intro p hp
      obtain ⟨hp1, hp2⟩ := List.mem_filter.1 hp
      have hm : p.mem = false := by simpa using hp2
      exact ⟨hL.listsFile ms hms hab p hp1 hm, hL.file_ghost hp1 hm⟩
  · intro hf
    rcases hL.floorLink with ⟨hl, _⟩ | ⟨_, hs⟩
    · have hall := hL.tbl.nofile hl
      have : tb.parts.filter (fun p => !p.mem) = [] := by
        rw [List.filter_eq_nil_iff]; intro p hp; simp [hall p hp]
      unfold fileBatches; rw [this]; rfl
    · rw [hs] at hf; cases hf

end Banyan.C04
