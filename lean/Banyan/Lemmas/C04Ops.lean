/-
C04 — equations for the history operations of the model (`opSteps`), and the split of an operation's system
calls into the part up to and including the manifest publication (`opPre`) and the clean-up after it (`opPost`).
Pure facts about `Model/C04.lean`; no file system involved.
-/
import Banyan.Model.C04

namespace Banyan.C04
open Banyan.FS

/-! ### small list facts -/

theorem nodup_map_filter {α β : Type} (f : α → β) (p : α → Bool) (l : List α) (h : (l.map f).Nodup) :
    ((l.filter p).map f).Nodup := by
  induction l with
  | nil => simp
  | cons a l ih =>
    simp only [List.map_cons, List.nodup_cons] at h
    by_cases hp : p a = true
    · rw [List.filter_cons_of_pos hp, List.map_cons, List.nodup_cons]
      refine ⟨?_, ih h.2⟩
      intro hm
      obtain ⟨b, hb, hfb⟩ := List.mem_map.1 hm
      exact h.1 (List.mem_map.2 ⟨b, (List.mem_filter.1 hb).1, hfb⟩)
    · rw [List.filter_cons_of_neg hp]; exact ih h.2

theorem bool_eq_false_of_ne_true {b : Bool} (h : b = true → False) : b = false := by
  cases b <;> simp at h ⊢

theorem mem_selectParts {fileParts : List PartG} {sel : List Nat} {p : PartG}
    (h : p ∈ selectParts fileParts sel) : p ∈ fileParts := by
  unfold selectParts at h
  rw [List.mem_eraseDups, List.mem_filterMap] at h
  obtain ⟨i, _, hi⟩ := h
  exact List.mem_of_getElem? hi

/-! ### publishing -/

/-- `persistSnapshot`: through the rename of the manifest and the fsync of the root directory -/
def publishPre (t : Tbl) : List Step := persist t.epoch t.ids

/-- `gc.clean` after it -/
def publishPost (t : Tbl) : List Step :=
  cleanSteps (if t.liveEpoch > 0 then t.deletable ++ [t.liveEpoch] else t.deletable)

theorem publish_steps (t : Tbl) : (publish t).1 = publishPre t ++ publishPost t := rfl

theorem publish_parts (t : Tbl) : (publish t).2.parts = t.parts := rfl
theorem publish_acked (t : Tbl) : (publish t).2.acked = t.acked := rfl
theorem publish_live (t : Tbl) : (publish t).2.liveEpoch = t.epoch := rfl
theorem reap_parts (t : Tbl) : (reap t).2.parts = t.parts := rfl
theorem reap_acked (t : Tbl) : (reap t).2.acked = t.acked := rfl
theorem reap_live (t : Tbl) : (reap t).2.liveEpoch = t.liveEpoch := rfl

/-! ### equations for `opSteps` -/

def flushT1 (t : Tbl) : Tbl := { t with parts := t.parts.map (fun p => { p with mem := false }), epoch := t.epoch + 1 }

theorem opSteps_flush (t : Tbl) :
    opSteps t .flush = if (t.parts.filter (·.mem)).isEmpty then ([], t) else
      ((t.parts.filter (·.mem)).flatMap (fun p => flushPart p.id p.batches) ++ (publish (flushT1 t)).1,
       (publish (flushT1 t)).2) := by
  unfold opSteps
  by_cases h : (t.parts.filter (·.mem)).isEmpty <;> simp [h, flushT1, publish]

theorem flushT1_ids (t : Tbl) : (flushT1 t).parts.map (·.id) = t.parts.map (·.id) := by
  simp [flushT1, List.map_map, Function.comp_def]

theorem mem_flushT1_parts (t : Tbl) (p : PartG) :
    p ∈ (flushT1 t).parts ↔ ∃ p0 ∈ t.parts, p = { p0 with mem := false } := by
  simp only [flushT1, List.mem_map]
  constructor
  · rintro ⟨p0, h, rfl⟩; exact ⟨p0, h, rfl⟩
  · rintro ⟨p0, h, rfl⟩; exact ⟨p0, h, rfl⟩

def mergeMemT1 (t : Tbl) : Tbl :=
  { t with parts := t.parts.filter (fun p => !p.mem) ++ [⟨t.curPartID + 1, (t.parts.filter (·.mem)).flatMap (·.batches), false⟩],
           curPartID := t.curPartID + 1, epoch := t.epoch + 1 }

theorem opSteps_mergeMem (t : Tbl) :
    opSteps t .mergeMem = if (t.parts.filter (·.mem)).length < 2 then ([], t) else
      (mergeOut (t.curPartID + 1) ((t.parts.filter (·.mem)).flatMap (·.batches)) ++ (publish (mergeMemT1 t)).1,
       (publish (mergeMemT1 t)).2) := by
  unfold opSteps
  by_cases h : (t.parts.filter (·.mem)).length < 2 <;> simp [h, mergeMemT1, publish]

def mergeT1 (t : Tbl) (sel : List Nat) (hold : Bool) : Tbl :=
  let chosen := selectParts (t.parts.filter (fun p => !p.mem)) sel
  let gone := chosen.map (·.id)
  { t with parts := t.parts.filter (fun p => !gone.contains p.id) ++ [⟨t.curPartID + 1, chosen.flatMap (·.batches), false⟩],
           curPartID := t.curPartID + 1, epoch := t.epoch + 1,
           held := if hold then t.held ++ [(t.parts.filter (fun p => !p.mem)).map (·.id)] else t.held,
           zombies := t.zombies ++ gone }

theorem opSteps_merge (t : Tbl) (sel : List Nat) (hold : Bool) :
    opSteps t (.merge sel hold) =
      if (selectParts (t.parts.filter (fun p => !p.mem)) sel).length < 2 then ([], t) else
      (mergeOut (t.curPartID + 1) ((selectParts (t.parts.filter (fun p => !p.mem)) sel).flatMap (·.batches)) ++
         (publish (mergeT1 t sel hold)).1 ++ (reap (publish (mergeT1 t sel hold)).2).1,
       (reap (publish (mergeT1 t sel hold)).2).2) := by
  unfold opSteps
  by_cases h : (selectParts (t.parts.filter (fun p => !p.mem)) sel).length < 2 <;> simp [h, mergeT1, publish, reap]

theorem opSteps_release (t : Tbl) : opSteps t .release = reap { t with held := [] } := rfl

def batchT (t : Tbl) (b : Nat) : Tbl := (opSteps t (.batch b)).2

theorem batchT_parts (t : Tbl) (b : Nat) : (batchT t b).parts = t.parts ++ [⟨t.curPartID + 1, [b], true⟩] := rfl
theorem batchT_cur (t : Tbl) (b : Nat) : (batchT t b).curPartID = t.curPartID + 1 := rfl
theorem batchT_epoch (t : Tbl) (b : Nat) : (batchT t b).epoch = t.epoch + 1 := rfl
theorem batchT_live (t : Tbl) (b : Nat) : (batchT t b).liveEpoch = t.liveEpoch := rfl
theorem batchT_del (t : Tbl) (b : Nat) : (batchT t b).deletable = t.deletable := rfl
theorem batchT_zomb (t : Tbl) (b : Nat) : (batchT t b).zombies = t.zombies := rfl
theorem batchT_acked (t : Tbl) (b : Nat) : (batchT t b).acked = t.acked ++ [b] := rfl

/-- an operation only appends to the acknowledged batches -/
theorem opSteps_acked (t : Tbl) (o : Op) : ∃ x, (opSteps t o).2.acked = t.acked ++ x := by
  cases o with
  | batch b => exact ⟨[b], rfl⟩
  | release => exact ⟨[], by rw [opSteps_release, List.append_nil]; rfl⟩
  | flush =>
    rw [opSteps_flush]
    by_cases hc : (t.parts.filter (·.mem)).isEmpty = true
    · rw [if_pos hc]; exact ⟨[], by simp⟩
    · rw [if_neg hc]; exact ⟨[], by rw [List.append_nil]; rfl⟩
  | mergeMem =>
    rw [opSteps_mergeMem]
    by_cases hc : (t.parts.filter (·.mem)).length < 2
    · rw [if_pos hc]; exact ⟨[], by simp⟩
    · rw [if_neg hc]; exact ⟨[], by rw [List.append_nil]; rfl⟩
  | merge sel hold =>
    rw [opSteps_merge]
    by_cases hc : (selectParts (t.parts.filter (fun p => !p.mem)) sel).length < 2
    · rw [if_pos hc]; exact ⟨[], by simp⟩
    · rw [if_neg hc]; exact ⟨[], by rw [List.append_nil]; rfl⟩

/-! ### the system calls of an operation up to the manifest publication, and after it -/

/-- the system calls of `o` through the rename of the new manifest and the fsync of the root directory
    (empty when `o` does not publish a manifest) -/
def opPre (t : Tbl) : Op → List Step
  | .batch _ => []
  | .flush =>
    if (t.parts.filter (·.mem)).isEmpty then [] else
      (t.parts.filter (·.mem)).flatMap (fun p => flushPart p.id p.batches) ++ publishPre (flushT1 t)
  | .mergeMem =>
    if (t.parts.filter (·.mem)).length < 2 then [] else
      mergeOut (t.curPartID + 1) ((t.parts.filter (·.mem)).flatMap (·.batches)) ++ publishPre (mergeMemT1 t)
  | .merge sel hold =>
    if (selectParts (t.parts.filter (fun p => !p.mem)) sel).length < 2 then [] else
      mergeOut (t.curPartID + 1) ((selectParts (t.parts.filter (fun p => !p.mem)) sel).flatMap (·.batches)) ++
        publishPre (mergeT1 t sel hold)
  | .release => []

/-- the rest: `gc.clean` and the removal of parts -/
def opPost (t : Tbl) : Op → List Step
  | .batch _ => []
  | .flush => if (t.parts.filter (·.mem)).isEmpty then [] else publishPost (flushT1 t)
  | .mergeMem => if (t.parts.filter (·.mem)).length < 2 then [] else publishPost (mergeMemT1 t)
  | .merge sel hold =>
    if (selectParts (t.parts.filter (fun p => !p.mem)) sel).length < 2 then [] else
      publishPost (mergeT1 t sel hold) ++ (reap (publish (mergeT1 t sel hold)).2).1
  | .release => (reap { t with held := [] }).1

theorem opPre_flush (t : Tbl) : opPre t .flush =
    if (t.parts.filter (·.mem)).isEmpty then [] else
      (t.parts.filter (·.mem)).flatMap (fun p => flushPart p.id p.batches) ++ publishPre (flushT1 t) := rfl
theorem opPost_flush (t : Tbl) : opPost t .flush =
    if (t.parts.filter (·.mem)).isEmpty then [] else publishPost (flushT1 t) := rfl
theorem opPre_mergeMem (t : Tbl) : opPre t .mergeMem =
    if (t.parts.filter (·.mem)).length < 2 then [] else
      mergeOut (t.curPartID + 1) ((t.parts.filter (·.mem)).flatMap (·.batches)) ++ publishPre (mergeMemT1 t) := rfl
theorem opPost_mergeMem (t : Tbl) : opPost t .mergeMem =
    if (t.parts.filter (·.mem)).length < 2 then [] else publishPost (mergeMemT1 t) := rfl
theorem opPre_merge (t : Tbl) (sel : List Nat) (hold : Bool) : opPre t (.merge sel hold) =
    if (selectParts (t.parts.filter (fun p => !p.mem)) sel).length < 2 then [] else
      mergeOut (t.curPartID + 1) ((selectParts (t.parts.filter (fun p => !p.mem)) sel).flatMap (·.batches)) ++
        publishPre (mergeT1 t sel hold) := rfl
theorem opPost_merge (t : Tbl) (sel : List Nat) (hold : Bool) : opPost t (.merge sel hold) =
    if (selectParts (t.parts.filter (fun p => !p.mem)) sel).length < 2 then [] else
      publishPost (mergeT1 t sel hold) ++ (reap (publish (mergeT1 t sel hold)).2).1 := rfl

theorem opSteps_split (t : Tbl) (o : Op) : (opSteps t o).1 = opPre t o ++ opPost t o := by
  cases o with
  | batch b => rfl
  | flush =>
    rw [opSteps_flush]; unfold opPre opPost
    by_cases h : (t.parts.filter (·.mem)).isEmpty = true
    · simp [h]
    · simp only [h, if_false, Bool.false_eq_true]; rw [publish_steps, List.append_assoc]
  | mergeMem =>
    rw [opSteps_mergeMem]; unfold opPre opPost
    by_cases h : (t.parts.filter (·.mem)).length < 2
    · simp [h]
    · simp only [h, if_false]; rw [publish_steps, List.append_assoc]
  | merge sel hold =>
    rw [opSteps_merge]; unfold opPre opPost
    by_cases h : (selectParts (t.parts.filter (fun p => !p.mem)) sel).length < 2
    · simp [h]
    · simp only [h, if_false]; rw [publish_steps]; simp only [List.append_assoc]
  | release => rfl

/-- a non-empty `opPre` ends with the publication of the new table's manifest: `persist` is
    `create, write, fsync, close` of `<epoch>.snp.tmp`, `rename(<epoch>.snp.tmp, <epoch>.snp)`, `fsyncdir(root)` -/
theorem opPre_ends_with_publication (t : Tbl) (o : Op) (h : opPre t o ≠ []) :
    ∃ front, opPre t o = front ++ persist (t.epoch + 1) (opSteps t o).2.ids := by
  cases o with
  | batch b => exact absurd rfl h
  | release => exact absurd rfl h
  | flush =>
    unfold opPre at h ⊢
    rw [opSteps_flush]
    by_cases hc : (t.parts.filter (·.mem)).isEmpty = true
    · rw [if_pos hc] at h; exact absurd rfl h
    · rw [if_neg hc, if_neg hc]; exact ⟨_, rfl⟩
  | mergeMem =>
    unfold opPre at h ⊢
    rw [opSteps_mergeMem]
    by_cases hc : (t.parts.filter (·.mem)).length < 2
    · rw [if_pos hc] at h; exact absurd rfl h
    · rw [if_neg hc, if_neg hc]; exact ⟨_, rfl⟩
  | merge sel hold =>
    simp only [opPre] at h ⊢
    rw [opSteps_merge]
    by_cases hc : (selectParts (t.parts.filter (fun p => !p.mem)) sel).length < 2
    · rw [if_pos hc] at h; exact absurd rfl h
    · rw [if_neg hc, if_neg hc]; exact ⟨_, rfl⟩

end Banyan.C04
