/-
C04 — recognising the manifest publication in a list of system calls: `pubDone l` says that `l` contains
`rename(<epoch>.snp.tmp, <epoch>.snp)` followed (later) by `fsync(root)`.  For the system calls of one history
operation this happens exactly when the prefix `opPre` is complete.
-/
import Banyan.Lemmas.C04Ops

namespace Banyan.C04
open Banyan.FS

/-- is this system call the rename of a temporary manifest onto its final name? -/
def isSnpRen : Step → Bool
  | .rename [.tmp (.snp _)] [.snp _] => true
  | _ => false

/-- has a manifest publication completed within these system calls (rename, then the root fsync)? -/
def pubDone : List Step → Bool
  | [] => false
  | st :: rest => (isSnpRen st && rest.contains (.fsyncdir [])) || pubDone rest

theorem pubDone_append_no {a : List Step} (h : ∀ st ∈ a, isSnpRen st = false) (b : List Step) :
    pubDone (a ++ b) = pubDone b := by
  induction a with
  | nil => rfl
  | cons st a ih =>
    have h1 := h st List.mem_cons_self
    show ((isSnpRen st && (a ++ b).contains (.fsyncdir [])) || pubDone (a ++ b)) = pubDone b
    rw [h1, ih (fun x hx => h x (List.mem_cons_of_mem _ hx))]
    rfl

theorem pubDone_no {a : List Step} (h : ∀ st ∈ a, isSnpRen st = false) : pubDone a = false := by
  have := pubDone_append_no h []
  rw [List.append_nil] at this
  exact this

theorem all_noSnp {l : List Step} (h : l.all (fun st => !isSnpRen st) = true) : ∀ st ∈ l, isSnpRen st = false := by
  intro st hst
  have := List.all_eq_true.1 h st hst
  simpa using this

theorem flushPart_noSnp (id : Nat) (bs : List Nat) : ∀ st ∈ flushPart id bs, isSnpRen st = false :=
  all_noSnp rfl

theorem mergeOut_noSnp (id : Nat) (bs : List Nat) : ∀ st ∈ mergeOut id bs, isSnpRen st = false :=
  all_noSnp rfl

/-- no proper prefix of `persist` contains a completed publication -/
theorem pubDone_persist_take (e : Nat) (ids : List Nat) (j : Nat) (hj : j < (persist e ids).length) :
    pubDone ((persist e ids).take j) = false := by
  have hlen : (persist e ids).length = 6 := rfl
  rw [hlen] at hj
  rcases j with _ | _ | _ | _ | _ | _ | j
  · rfl
  · rfl
  · rfl
  · rfl
  · rfl
  · rfl
  · omega

/-- and the whole of it does -/
theorem pubDone_persist (e : Nat) (ids : List Nat) : pubDone (persist e ids) = true := rfl

/-- `front ++ persist`, where `front` renames no manifest: a prefix contains a completed publication only if it
    is the whole list -/
theorem pubDone_front_persist {front : List Step} (hf : ∀ st ∈ front, isSnpRen st = false) (e : Nat) (ids : List Nat)
    (k : Nat) (hk : k < (front ++ persist e ids).length) : pubDone ((front ++ persist e ids).take k) = false := by
  rw [List.take_append]
  rw [pubDone_append_no (fun st hst => hf st (List.mem_of_mem_take hst))]
  apply pubDone_persist_take
  rw [List.length_append] at hk
  have : (persist e ids).length = 6 := rfl
  omega

theorem flatMap_noSnp {α : Type} (l : List α) (f : α → List Step) (h : ∀ a ∈ l, ∀ st ∈ f a, isSnpRen st = false) :
    ∀ st ∈ l.flatMap f, isSnpRen st = false := by
  intro st hst
  obtain ⟨a, ha, hsa⟩ := List.mem_flatMap.1 hst
  exact h a ha st hsa

/-- Within the system calls of one operation, a completed manifest publication means that `opPre` is complete. -/
theorem pubDone_take_opPre (t : Tbl) (o : Op) (k : Nat) (h : pubDone (((opSteps t o).1).take k) = true) :
    (opPre t o).length ≤ k := by
  apply Classical.byContradiction
  intro hlt
  have hlt : k < (opPre t o).length := by omega
  have htake : ((opSteps t o).1).take k = (opPre t o).take k := by
    rw [opSteps_split, List.take_append_of_le_length (by omega)]
  rw [htake] at h
  have key : pubDone ((opPre t o).take k) = false := by
    cases o with
    | batch b => simp [opPre] at hlt
    | release => simp [opPre] at hlt
    | flush =>
      rw [opPre_flush] at hlt ⊢
      by_cases hc : (t.parts.filter (·.mem)).isEmpty = true
      · rw [if_pos hc] at hlt; simp at hlt
      · rw [if_neg hc] at hlt ⊢
        exact pubDone_front_persist (flatMap_noSnp _ _ (fun p _ => flushPart_noSnp p.id p.batches)) _ _ k hlt
    | mergeMem =>
      rw [opPre_mergeMem] at hlt ⊢
      by_cases hc : (t.parts.filter (·.mem)).length < 2
      · rw [if_pos hc] at hlt; simp at hlt
      · rw [if_neg hc] at hlt ⊢
        exact pubDone_front_persist (mergeOut_noSnp _ _) _ _ k hlt
    | merge sel hold =>
      rw [opPre_merge] at hlt ⊢
      by_cases hc : (selectParts (t.parts.filter (fun p => !p.mem)) sel).length < 2
      · rw [if_pos hc] at hlt; simp at hlt
      · rw [if_neg hc] at hlt ⊢
        exact pubDone_front_persist (mergeOut_noSnp _ _) _ _ k hlt
  rw [key] at h
  cases h

/-- conversely, a non-empty `opPre` does contain the completed publication -/
theorem pubDone_opPre (t : Tbl) (o : Op) (h : opPre t o ≠ []) : pubDone (opPre t o) = true := by
  cases o with
  | batch b => exact absurd rfl h
  | release => exact absurd rfl h
  | flush =>
    rw [opPre_flush] at h ⊢
    by_cases hc : (t.parts.filter (·.mem)).isEmpty = true
    · rw [if_pos hc] at h; exact absurd rfl h
    · rw [if_neg hc]
      unfold publishPre
      rw [pubDone_append_no (flatMap_noSnp _ _ (fun p _ => flushPart_noSnp p.id p.batches))]
      rfl
  | mergeMem =>
    rw [opPre_mergeMem] at h ⊢
    by_cases hc : (t.parts.filter (·.mem)).length < 2
    · rw [if_pos hc] at h; exact absurd rfl h
    · rw [if_neg hc]
      unfold publishPre
      rw [pubDone_append_no (mergeOut_noSnp _ _)]
      rfl
  | merge sel hold =>
    rw [opPre_merge] at h ⊢
    by_cases hc : (selectParts (t.parts.filter (fun p => !p.mem)) sel).length < 2
    · rw [if_pos hc] at h; exact absurd rfl h
    · rw [if_neg hc]
      unfold publishPre
      rw [pubDone_append_no (mergeOut_noSnp _ _)]
      rfl

end Banyan.C04
