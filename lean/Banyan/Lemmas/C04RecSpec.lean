/-
C04 — `recovery_spec`: what `initTSTable` guarantees on ANY directory tree (when it does not panic).
-/
import Banyan.Lemmas.C04Recover

namespace Banyan.C04
open Banyan.FS

/-- inversion of a successful `loadSnapshot` -/
theorem loadSnapshot_inv {t1 : Tree} {e : Nat} {loaded : List Nat} {r0 : Rec}
    (h : loadSnapshot t1 e loaded = some (.ok r0)) :
    ∃ ids, (readFile t1 [.snp e]).bind decList = some ids ∧ r0.tree = afterLoad t1 ids loaded ∧
      (∀ p ∈ r0.parts, p.1 ∈ loaded ∧ p.1 ∈ ids ∧ openPart r0.tree p.1 = .ok p.2) ∧
      (∀ id ∈ loaded, id ∈ ids → ∃ bs, (id, bs) ∈ r0.parts) ∧
      r0.epoch = (if r0.parts.isEmpty then none else some e) := by
  unfold loadSnapshot at h
  cases hb : (readFile t1 [.snp e]).bind decList with
  | none => rw [hb] at h; simp at h
  | some ids =>
    rw [hb] at h
    simp only [] at h
    refine ⟨ids, rfl, ?_⟩
    split at h
    · simp at h
    · rename_i hfind
      simp only [Option.some.injEq, RecResult.ok.injEq] at h
      subst h
      -- no panic among the opened parts
      have hnopanic : ∀ id ∈ loaded.filter (fun id => ids.contains id),
          ∃ bs, openPart (afterLoad t1 ids loaded) id = .ok bs := by
        intro id hid
        cases ho : openPart (afterLoad t1 ids loaded) id with
        | ok bs => exact ⟨bs, rfl⟩
        | panic why =>
          exfalso
          have hx : (id, Opened.panic why) ∈ (loaded.filter (fun id => ids.contains id)).map
              (fun id => (id, openPart (afterLoad t1 ids loaded) id)) :=
            List.mem_map.2 ⟨id, hid, by rw [ho]⟩
          cases hf : List.find? (fun x : Nat × Opened => match x.2 with | .panic _ => true | .ok _ => false)
              ((loaded.filter (fun id => ids.contains id)).map
                (fun id => (id, openPart (afterLoad t1 ids loaded) id))) with
          | none =>
            rw [List.find?_eq_none] at hf
            have := hf _ hx
            simp at this
          | some y =>
            have hy := List.find?_some hf
            obtain ⟨yid, yo⟩ := y
            cases yo with
            | ok _ => simp at hy
            | panic w => exact hfind yid w (by unfold afterLoad at hf; exact hf)
      refine ⟨rfl, ?_, ?_, rfl⟩
      · intro p hp
        rw [List.mem_filterMap] at hp
        obtain ⟨x, hx, hxp⟩ := hp
        obtain ⟨id, hid, rfl⟩ := List.mem_map.1 hx
        simp only [List.mem_filter, List.contains_eq_mem, decide_eq_true_eq] at hid
        cases ho : openPart (List.foldl cleanupTmp
            (rmMany t1 (List.map (fun id => [Name.part id]) (List.filter (fun id => !ids.contains id) loaded)))
            (List.filter (fun id => ids.contains id) loaded)) id with
        | ok bs =>
          rw [ho] at hxp
          simp at hxp; subst hxp
          exact ⟨hid.1, hid.2, ho⟩
        | panic w => rw [ho] at hxp; simp at hxp
      · intro id hid hin
        obtain ⟨bs, hbs⟩ := hnopanic id (by simp [List.mem_filter, hid, hin])
        refine ⟨bs, ?_⟩
        rw [List.mem_filterMap]
        refine ⟨(id, openPart (afterLoad t1 ids loaded) id), List.mem_map.2 ⟨id, by simp [List.mem_filter, hid, hin], rfl⟩, ?_⟩
        rw [hbs]

/-- the shape of a `loadFirst` result: the epochs before the one that loaded all failed -/
theorem loadFirst_inv {t : Tree} {loaded : List Nat} :
    ∀ (es failed0 : List Nat) (res : RecResult) (failed : List Nat) (e : Nat),
      loadFirst t loaded es failed0 = some (res, failed, e) →
      ∃ pre post, es = pre ++ e :: post ∧ failed = failed0 ++ pre ∧ loadSnapshot t e loaded = some res ∧
        ∀ x ∈ pre, loadSnapshot t x loaded = none := by
  intro es
  induction es with
  | nil => intro failed0 res failed e h; simp [loadFirst] at h
  | cons a es ih =>
    intro failed0 res failed e h
    unfold loadFirst at h
    cases hl : loadSnapshot t a loaded with
    | none =>
      rw [hl] at h
      obtain ⟨pre, post, h1, h2, h3, h4⟩ := ih _ _ _ _ h
      refine ⟨a :: pre, post, by rw [h1]; rfl, by rw [h2]; simp, h3, ?_⟩
      intro x hx
      rcases List.mem_cons.1 hx with rfl | hx
      · exact hl
      · exact h4 x hx
    | some r =>
      rw [hl] at h
      simp at h
      obtain ⟨rfl, rfl, rfl⟩ := h
      exact ⟨[], es, rfl, by simp, hl, by simp⟩

theorem loadFirst_none {t : Tree} {loaded : List Nat} :
    ∀ (es failed0 : List Nat), loadFirst t loaded es failed0 = none → ∀ x ∈ es, loadSnapshot t x loaded = none := by
  intro es
  induction es with
  | nil => intro _ _ x hx; simp at hx
  | cons a es ih =>
    intro failed0 h x hx
    unfold loadFirst at h
    cases hl : loadSnapshot t a loaded with
    | none =>
      rw [hl] at h
      rcases List.mem_cons.1 hx with rfl | hx
      · exact hl
      · exact ih _ h x hx
    | some r => rw [hl] at h; simp at h

/-- which root directories survive the delete list -/
theorem dir_not_deleted {t : Tree} {fixed : Bool} {n : Name} (hd : isDir t [n] = true)
    (hnd : delName fixed t n = false) : n = .failedParts ∨ ∃ id, n = .part id ∧ validMeta t id = true := by
  have hex : exists_ t [n] = true := (exists_iff t _).2 ⟨_, (isDir_iff t _).1 hd⟩
  simp only [delName, hex, Bool.true_and] at hnd
  unfold toDelete at hnd
  rw [if_pos hd] at hnd
  cases n with
  | failedParts => left; rfl
  | part id => right; exact ⟨id, rfl, by simpa using hnd⟩
  | _ => simp at hnd

theorem pairwise_reverse_sortAsc (l : List Nat) : (sortAsc l).reverse.Pairwise (· ≥ ·) := by
  rw [List.pairwise_reverse]
  exact (pairwise_sortAsc l).imp (fun h => h)

/-- **`recovery_spec`**: on ANY tree, if startup opens (no panic), then every part of the returned snapshot is a
    directory with a valid `metadata.json` that opens and reads completely, and is listed by the manifest that
    was loaded; no directory other than the served parts (and `failed-parts`) survives; and (with the repair
    F14) the loaded manifest is the only manifest file left. -/
theorem recovery_spec (t : Tree) (r : Rec) (h : recover t = .ok r) :
    (∀ p ∈ r.parts, isDir r.tree [.part p.1] = true ∧ validMeta r.tree p.1 = true ∧
        openPart r.tree p.1 = .ok p.2 ∧
        ∃ e ids, r.epoch = some e ∧ (readFile r.tree [.snp e]).bind decList = some ids ∧ p.1 ∈ ids) ∧
    (∀ n, isDir r.tree [n] = true → n = .failedParts ∨ ∃ p ∈ r.parts, n = .part p.1) ∧
    (r.parts ≠ [] → ∀ e', isFile r.tree [.snp e'] = true → r.epoch = some e') := by
  unfold recover recoverWith at h
  by_cases hne : (children t []).isEmpty = true
  · rw [if_pos hne] at h
    simp only [RecResult.ok.injEq] at h
    subst h
    refine ⟨by intro p hp; simp at hp, ?_, by intro hh; exact absurd rfl hh⟩
    intro n hd
    have := (mem_children_root t n).2 ((exists_iff t _).2 ⟨_, (isDir_iff t _).1 hd⟩)
    rw [List.isEmpty_iff.1 hne] at this; simp at this
  · rw [if_neg hne] at h
    simp only [] at h
    obtain ⟨S, hS⟩ : ∃ S, S = scan true t := ⟨_, rfl⟩
    obtain ⟨t1, ht1⟩ : ∃ t1, t1 = rmMany t (S.del.map (fun n => [n])) := ⟨_, rfl⟩
    rw [← hS, ← ht1] at h
    have hget1 : ∀ n q, Map.get t1 (n :: q) = if delName true t n then none else Map.get t (n :: q) := by
      intro n q; rw [ht1, hS, get_after_del]
    have hSparts : S.parts = (children t []).filterMap (partOf t) := by rw [hS]; rfl
    have hSsnaps : S.snaps = (children t []).filterMap (snapOf t) := by rw [hS]; rfl
    have hmemP : ∀ id, id ∈ sortAsc S.parts ↔ isDir t [.part id] = true ∧ validMeta t id = true := by
      intro id; rw [mem_sortAsc, hSparts, mem_scan_parts]
    -- a root directory of `t1` is `failed-parts` or a loaded part
    have hdir1 : ∀ n, isDir t1 [n] = true → n = .failedParts ∨ ∃ id, n = .part id ∧ id ∈ sortAsc S.parts := by
      intro n hd
      have hg := (isDir_iff _ _).1 hd
      rw [hget1] at hg
      cases hdn : delName true t n with
      | true => simp [hdn] at hg
      | false =>
        simp only [hdn] at hg
        have hdt : isDir t [n] = true := (isDir_iff _ _).2 (by simpa using hg)
        rcases dir_not_deleted hdt hdn with hf | ⟨id, rfl, hv⟩
        · left; exact hf
        · right; exact ⟨id, rfl, (hmemP id).2 ⟨hdt, hv⟩⟩
    by_cases hP : (sortAsc S.parts).isEmpty = true ∨ S.snaps.isEmpty = true
    · rw [if_pos hP] at h
      simp only [RecResult.ok.injEq] at h
      subst h
      refine ⟨by intro p hp; simp at hp, ?_, by intro hh; exact absurd rfl hh⟩
      intro n hd
      have hg := (isDir_iff _ _).1 hd
      have hsub : Map.get t1 [n] = some .dir := by
        rcases get_rmMany_none_or t1 (S.snaps.map (fun e => [Name.snp e]) ++
          (sortAsc S.parts).map (fun id => [Name.part id])) [n] with h1 | h1
        · rw [h1] at hg; cases hg
        · rw [h1] at hg; exact hg
      rcases hdir1 n ((isDir_iff _ _).2 hsub) with hf | ⟨id, rfl, hid⟩
      · left; exact hf
      · exfalso
        have : S.snaps.map (fun e => [Name.snp e]) ++ (sortAsc S.parts).map (fun id => [Name.part id]) =
            (S.snaps.map Name.snp ++ (sortAsc S.parts).map Name.part).map (fun x => [x]) := by
          simp [List.map_append, List.map_map, Function.comp_def]
        rw [this, get_rmNames] at hg
        have hmem : Name.part id ∈ S.snaps.map Name.snp ++ (sortAsc S.parts).map Name.part :=
          List.mem_append_right _ (List.mem_map.2 ⟨id, hid, rfl⟩)
        rw [if_pos hmem] at hg; cases hg
    · rw [if_neg hP] at h
      cases hlf : loadFirst t1 (sortAsc S.parts) (sortAsc S.snaps).reverse [] with
      | none =>
        rw [hlf] at h
        simp only [RecResult.ok.injEq] at h
        subst h
        refine ⟨by intro p hp; simp at hp, ?_, by intro hh; exact absurd rfl hh⟩
        intro n hd
        have hg := (isDir_iff _ _).1 hd
        have hsub : Map.get t1 [n] = some .dir := by
          rcases get_rmMany_none_or t1 ((sortAsc S.parts).map (fun id => [Name.part id])) [n] with h1 | h1
          · rw [h1] at hg; cases hg
          · rw [h1] at hg; exact hg
        rcases hdir1 n ((isDir_iff _ _).2 hsub) with hf | ⟨id, rfl, hid⟩
        · left; exact hf
        · exfalso
          have : (sortAsc S.parts).map (fun id => [Name.part id]) =
              ((sortAsc S.parts).map Name.part).map (fun x => [x]) := by
            simp [List.map_map, Function.comp_def]
          rw [this, get_rmNames] at hg
          rw [if_pos (List.mem_map.2 ⟨id, hid, rfl⟩)] at hg; cases hg
      | some res =>
        obtain ⟨rr, failed, e⟩ := res
        rw [hlf] at h
        cases rr with
        | panic w => simp at h
        | ok r0 =>
          simp only [RecResult.ok.injEq, if_true] at h
          subst h
          obtain ⟨pre, post, hes, hfailed, hload, hprefail⟩ := loadFirst_inv _ _ _ _ _ hlf
          simp only [List.nil_append] at hfailed
          subst hfailed
          obtain ⟨ids, hbind, htree, hparts, hall, hep⟩ := loadSnapshot_inv hload
          -- the final tree: manifests in `pre` (failed) and older than `e` (stale) removed
          obtain ⟨gone, hgone⟩ : ∃ gone, gone = failed ++ S.snaps.filter (fun x => decide (x < e)) := ⟨_, rfl⟩
          have hfin : ∀ n q, Map.get (rmMany r0.tree (gone.map (fun x => [Name.snp x]))) (n :: q) =
              if n ∈ gone.map Name.snp then none else Map.get r0.tree (n :: q) := by
            intro n q
            have : gone.map (fun x => [Name.snp x]) = (gone.map Name.snp).map (fun x => [x]) := by
              simp [List.map_map, Function.comp_def]
            rw [this, get_rmNames]
          rw [← hgone]
          have hpartKeep : ∀ id q, Map.get (rmMany r0.tree (gone.map (fun x => [Name.snp x]))) (Name.part id :: q) =
              Map.get r0.tree (Name.part id :: q) := by
            intro id q
            rw [hfin, if_neg (by simp)]
          have he_notgone : e ∉ gone := by
            rw [hgone, List.mem_append]
            rintro (hh | hh)
            · have := hprefail e hh; rw [hload] at this; cases this
            · have := (List.mem_filter.1 hh).2; simp at this
          refine ⟨?_, ?_, ?_⟩
          · intro p hp
            obtain ⟨hpl, hpi, hpo⟩ := hparts p hp
            obtain ⟨hdt, hvt⟩ := (hmemP p.1).1 hpl
            have hnd : delName true t (.part p.1) = false := by
              simp [delName, (exists_iff t _).2 ⟨_, (isDir_iff t _).1 hdt⟩, toDelete, hdt, hvt]
            have hpf : ∀ f, Map.get r0.tree (pfile p.1 f) = Map.get t (pfile p.1 f) := by
              intro f
              rw [htree, get_afterLoad_pfile t1 ids _ p.1 f hpi, pfile, hget1, hnd]; simp
            refine ⟨?_, ?_, ?_, ?_⟩
            · have hm : ((sortAsc S.parts).filter (fun id => !ids.contains id)).map (fun id => [Name.part id]) =
                  (((sortAsc S.parts).filter (fun id => !ids.contains id)).map Name.part).map (fun x => [x]) := by
                simp [List.map_map, Function.comp_def]
              have horph : Name.part p.1 ∉ ((sortAsc S.parts).filter (fun id => !ids.contains id)).map Name.part := by
                intro hmem
                obtain ⟨i, hi, hie⟩ := List.mem_map.1 hmem
                cases hie
                simp [List.mem_filter, hpi] at hi
              have hdirEq : Map.get (rmMany r0.tree (gone.map (fun x => [Name.snp x]))) [Name.part p.1] =
                  Map.get t [Name.part p.1] := by
                rw [hpartKeep p.1 [], htree]
                unfold afterLoad
                rw [get_foldl_cleanupTmp_of_not_tmp _ _ _ (by intro i m; simp), hm, get_rmNames, if_neg horph,
                  hget1, hnd]
                simp
              rw [isDir_congr hdirEq]
              exact hdt
            · rw [validMeta_congr (t := r0.tree) (fun f => hpartKeep p.1 [.pf f]),
                validMeta_congr (t := t) hpf]
              exact hvt
            · rw [openPart_congr (t := r0.tree) (fun f => hpartKeep p.1 [.pf f])]
              exact hpo
            · refine ⟨e, ids, ?_, ?_, hpi⟩
              · show r0.epoch = some e
                rw [hep]
                have : r0.parts.isEmpty = false := by
                  cases hpe : r0.parts with
                  | nil => rw [hpe] at hp; simp at hp
                  | cons a l => rfl
                simp [this]
              · have : Map.get (rmMany r0.tree (gone.map (fun x => [Name.snp x]))) [Name.snp e] =
                    Map.get t1 [Name.snp e] := by
                  rw [hfin, if_neg (by simpa using he_notgone), htree]
                  unfold afterLoad
                  rw [get_foldl_cleanupTmp_of_not_tmp _ _ _ (by intro i m; simp)]
                  apply get_rmMany_of_not
                  intro q hq
                  obtain ⟨i, _, rfl⟩ := List.mem_map.1 hq
                  simp [List.isPrefixOf]
                rw [readFile_congr this]; exact hbind
          · intro n hd
            have hg := (isDir_iff _ _).1 hd
            rw [hfin] at hg
            by_cases hng : n ∈ gone.map Name.snp
            · rw [if_pos hng] at hg; cases hg
            · rw [if_neg hng, htree] at hg
              unfold afterLoad at hg
              rw [get_foldl_cleanupTmp_of_not_tmp _ _ _ (by intro i m; simp)] at hg
              have hm : ((sortAsc S.parts).filter (fun id => !ids.contains id)).map (fun id => [Name.part id]) =
                  (((sortAsc S.parts).filter (fun id => !ids.contains id)).map Name.part).map (fun x => [x]) := by
                simp [List.map_map, Function.comp_def]
              rw [hm, get_rmNames] at hg
              by_cases horph : n ∈ ((sortAsc S.parts).filter (fun id => !ids.contains id)).map Name.part
              · rw [if_pos horph] at hg; cases hg
              · rw [if_neg horph] at hg
                rcases hdir1 n ((isDir_iff _ _).2 hg) with hf | ⟨id, rfl, hid⟩
                · left; exact hf
                · right
                  have hin : id ∈ ids := by
                    apply Classical.byContradiction
                    intro hnin
                    apply horph
                    exact List.mem_map.2 ⟨id, by simp [List.mem_filter, hid, hnin], rfl⟩
                  obtain ⟨bs, hbs⟩ := hall id hid hin
                  exact ⟨(id, bs), hbs, rfl⟩
          · intro hne' e' hf
            show r0.epoch = some e'
            rw [hep]
            have hpe : r0.parts.isEmpty = false := by
              cases hpe : r0.parts with
              | nil => exact absurd hpe hne'
              | cons a l => rfl
            simp only [hpe]
            -- e' is a manifest file of t that was not removed
            obtain ⟨c, hc⟩ := (isFile_iff _ _).1 hf
            rw [hfin] at hc
            by_cases hng : Name.snp e' ∈ gone.map Name.snp
            · rw [if_pos hng] at hc; cases hc
            · rw [if_neg hng, htree] at hc
              unfold afterLoad at hc
              rw [get_foldl_cleanupTmp_of_not_tmp _ _ _ (by intro i m; simp)] at hc
              have hc1 : Map.get t1 [Name.snp e'] = some (.file c) := by
                rcases get_rmMany_none_or t1 (((sortAsc S.parts).filter (fun id => !ids.contains id)).map
                  (fun id => [Name.part id])) [Name.snp e'] with h1 | h1
                · rw [h1] at hc; cases hc
                · rw [h1] at hc; exact hc
              rw [hget1] at hc1
              have hct : Map.get t [Name.snp e'] = some (.file c) := by
                cases hdn : delName true t (.snp e') with
                | true => simp [hdn] at hc1
                | false => simpa [hdn] using hc1
              have hsnap : e' ∈ S.snaps := by
                rw [hSsnaps, mem_scan_snaps]
                exact ⟨(exists_iff t _).2 ⟨_, hct⟩, by simp [isDir, hct]⟩
              have hnotgone : e' ∉ gone := by
                intro hh; apply hng; exact List.mem_map.2 ⟨e', hh, rfl⟩
              have hmemrev : e' ∈ (sortAsc S.snaps).reverse := by
                rw [List.mem_reverse, mem_sortAsc]; exact hsnap
              rw [hes] at hmemrev
              rcases List.mem_append.1 hmemrev with hh | hh
              · exfalso; apply hnotgone; rw [hgone]; exact List.mem_append_left _ hh
              · rcases List.mem_cons.1 hh with rfl | hh
                · rfl
                · have hpw := pairwise_reverse_sortAsc S.snaps
                  rw [hes, List.pairwise_append] at hpw
                  have hle : e ≥ e' := (List.pairwise_cons.1 hpw.2.1).1 e' hh
                  by_cases heq : e' = e
                  · subst heq; rfl
                  · exfalso
                    apply hnotgone
                    rw [hgone]
                    apply List.mem_append_right
                    exact List.mem_filter.2 ⟨hsnap, by simp; omega⟩

end Banyan.C04
