/-
C04 — facts about the startup recovery model `recoverWith` (`initTSTable`).
-/
import Banyan.Lemmas.C04Spec

namespace Banyan.C04
open Banyan.FS

/-! ### encodings -/

@[simp] theorem decList_encList (xs : List Nat) : decList (encList xs) = some xs := by
  simp [decList, encList]

@[simp] theorem decData_dataContent (f : PFile) (bs : List Nat) : decData f (dataContent f bs) = some bs := by
  simp [decData, dataContent]

/-! ### sorting -/

theorem mem_insertSorted (x y : Nat) (l : List Nat) : y ∈ insertSorted x l ↔ y = x ∨ y ∈ l := by
  induction l with
  | nil => simp [insertSorted]
  | cons a l ih =>
    unfold insertSorted
    by_cases h : x ≤ a
    · simp [h]
    · simp [h, ih]; constructor <;> (intro h'; rcases h' with h' | h' | h' <;> simp [h'])

theorem mem_sortAsc (y : Nat) (l : List Nat) : y ∈ sortAsc l ↔ y ∈ l := by
  induction l with
  | nil => simp [sortAsc]
  | cons a l ih =>
    have : sortAsc (a :: l) = insertSorted a (sortAsc l) := rfl
    rw [this, mem_insertSorted, ih]; simp

theorem pairwise_insertSorted (x : Nat) (l : List Nat) (h : l.Pairwise (· ≤ ·)) :
    (insertSorted x l).Pairwise (· ≤ ·) := by
  induction l with
  | nil => simp [insertSorted]
  | cons a l ih =>
    unfold insertSorted
    rw [List.pairwise_cons] at h
    by_cases hxa : x ≤ a
    · simp only [hxa, if_true, List.pairwise_cons]
      refine ⟨?_, h.1, h.2⟩
      intro b hb
      rcases List.mem_cons.1 hb with rfl | hb
      · exact hxa
      · exact Nat.le_trans hxa (h.1 b hb)
    · simp only [hxa, if_false, List.pairwise_cons]
      refine ⟨?_, ih h.2⟩
      intro b hb
      rcases (mem_insertSorted x b l).1 hb with rfl | hb
      · omega
      · exact h.1 b hb

theorem pairwise_sortAsc (l : List Nat) : (sortAsc l).Pairwise (· ≤ ·) := by
  induction l with
  | nil => simp [sortAsc]
  | cons a l ih =>
    have : sortAsc (a :: l) = insertSorted a (sortAsc l) := rfl
    rw [this]; exact pairwise_insertSorted a _ ih

/-- the first element of the descending list is the maximum -/
theorem head_reverse_sortAsc_max (l : List Nat) (e : Nat) (es : List Nat)
    (h : (sortAsc l).reverse = e :: es) : e ∈ l ∧ ∀ x ∈ l, x ≤ e := by
  have hp := pairwise_sortAsc l
  have hs : sortAsc l = es.reverse ++ [e] := by
    have := congrArg List.reverse h
    simpa using this
  constructor
  · rw [← mem_sortAsc, hs]; simp
  · intro x hx
    rw [← mem_sortAsc, hs] at hx
    rw [hs, List.pairwise_append] at hp
    rcases List.mem_append.1 hx with hx | hx
    · exact hp.2.2 x hx e (by simp)
    · simp at hx; omega

/-! ### removing -/

theorem get_rmMany (t : Tree) (ps : List Path) (q : Path) :
    Map.get (rmMany t ps) q = if ps.any (fun p => p.isPrefixOf q) then none else Map.get t q := by
  induction ps generalizing t with
  | nil => simp [rmMany]
  | cons p ps ih =>
    have : rmMany t (p :: ps) = rmMany (rmAll t p) ps := rfl
    rw [this, ih, get_rmAll]
    by_cases h1 : p.isPrefixOf q = true
    · simp [h1]
    · simp [h1]

theorem get_rmMany_of_not (t : Tree) (ps : List Path) (q : Path)
    (h : ∀ p ∈ ps, p.isPrefixOf q = false) : Map.get (rmMany t ps) q = Map.get t q := by
  rw [get_rmMany]
  have : ps.any (fun p => p.isPrefixOf q) = false := by
    rw [List.any_eq_false]; intro p hp; simp [h p hp]
  simp [this]

theorem get_rmMany_none_or (t : Tree) (ps : List Path) (q : Path) :
    Map.get (rmMany t ps) q = none ∨ Map.get (rmMany t ps) q = Map.get t q := by
  rw [get_rmMany]; by_cases h : ps.any (fun p => p.isPrefixOf q) = true <;> simp [h]

/-- a singleton path is a prefix of `q` iff `q` starts with that name -/
theorem singleton_isPrefixOf (n : Name) (q : Path) : [n].isPrefixOf q = true ↔ ∃ r, q = n :: r := by
  cases q with
  | nil => simp [List.isPrefixOf]
  | cons a r => simp [List.isPrefixOf]; constructor <;> (intro h; exact h.symm)

/-! ### `CleanupLeftoverTmp` -/

theorem get_cleanupTmp (t : Tree) (id : Nat) (q : Path) :
    Map.get (cleanupTmp t id) q = if tmpVictim t id q then none else Map.get t q := by
  unfold cleanupTmp
  rw [Map.get_filterKeys]
  cases tmpVictim t id q <;> simp

theorem tmpVictim_shape (t : Tree) (id : Nat) (q : Path) (h : tmpVictim t id q = true) :
    ∃ n, q = [.part id, .tmp n] := by
  unfold tmpVictim at h
  split at h
  · rename_i i n
    simp only [Bool.and_eq_true, beq_iff_eq] at h
    exact ⟨n, by rw [h.1.1]⟩
  · simp at h

/-- paths that are not `<part>/<x>.tmp` are untouched by any number of cleanups -/
theorem get_foldl_cleanupTmp_of_not_tmp (keep : List Nat) (t : Tree) (q : Path)
    (h : ∀ i n, q ≠ [.part i, .tmp n]) :
    Map.get (keep.foldl cleanupTmp t) q = Map.get t q := by
  induction keep generalizing t with
  | nil => rfl
  | cons id keep ih =>
    simp only [List.foldl_cons]
    rw [ih, get_cleanupTmp]
    have : tmpVictim t id q = false := by
      cases hv : tmpVictim t id q with
      | false => rfl
      | true => obtain ⟨n, hn⟩ := tmpVictim_shape t id q hv; exact absurd hn (h id n)
    simp [this]

theorem get_foldl_cleanupTmp_none_or (keep : List Nat) (t : Tree) (q : Path) :
    Map.get (keep.foldl cleanupTmp t) q = none ∨ Map.get (keep.foldl cleanupTmp t) q = Map.get t q := by
  induction keep generalizing t with
  | nil => right; rfl
  | cons id keep ih =>
    simp only [List.foldl_cons]
    rcases ih (cleanupTmp t id) with h | h
    · left; exact h
    · rw [h, get_cleanupTmp]
      by_cases hv : tmpVictim t id q = true <;> simp [hv]

/-- a `.tmp` sibling of an existing file inside a kept part is gone after the cleanups -/
theorem get_foldl_cleanupTmp_victim (keep : List Nat) (t : Tree) (id : Nat) (n : Name)
    (hid : id ∈ keep) (hn : ∀ m, n ≠ .tmp m) (hfin : exists_ t [.part id, n] = true)
    (hfile : ∀ v, Map.get t [.part id, .tmp n] = some v → ∃ c, v = .file c) :
    Map.get (keep.foldl cleanupTmp t) [.part id, .tmp n] = none := by
  induction keep generalizing t with
  | nil => simp at hid
  | cons a keep ih =>
    simp only [List.foldl_cons]
    by_cases ha : a = id
    · subst ha
      -- removed (or already absent) now; stays absent
      have hnow : Map.get (cleanupTmp t a) [.part a, .tmp n] = none := by
        rw [get_cleanupTmp]
        cases hg : Map.get t [.part a, .tmp n] with
        | none => simp
        | some v =>
          obtain ⟨c, hc⟩ := hfile v hg
          have : tmpVictim t a [.part a, .tmp n] = true := by
            simp [tmpVictim, isFile, hg, hc, hfin]
          simp [this]
      rcases get_foldl_cleanupTmp_none_or keep (cleanupTmp t a) [.part a, .tmp n] with h | h
      · exact h
      · rw [h, hnow]
    · have hid' : id ∈ keep := by
        rcases List.mem_cons.1 hid with h | h
        · exact absurd h.symm ha
        · exact h
      apply ih _ hid'
      · -- the final still exists: it is not a tmp path
        unfold exists_ at hfin ⊢
        rw [get_cleanupTmp]
        have : tmpVictim t a [.part id, n] = false := by
          cases hv : tmpVictim t a [.part id, n] with
          | false => rfl
          | true =>
            obtain ⟨m, hm⟩ := tmpVictim_shape t a _ hv
            simp at hm; exact absurd hm.2 (hn m)
        simpa [this] using hfin
      · intro v hv
        rw [get_cleanupTmp] at hv
        by_cases hvic : tmpVictim t a [.part id, .tmp n] = true
        · simp [hvic] at hv
        · simp [hvic] at hv; exact hfile v hv

end Banyan.C04

namespace Banyan.C04
open Banyan.FS

/-! ### reading helpers -/

theorem readFile_some_iff (t : Tree) (q : Path) (c : Content) :
    readFile t q = some c ↔ Map.get t q = some (.file c) := by
  unfold readFile
  cases h : Map.get t q with
  | none => simp
  | some v => cases v <;> simp

theorem isDir_iff (t : Tree) (q : Path) : isDir t q = true ↔ Map.get t q = some .dir := by
  unfold isDir
  cases h : Map.get t q with
  | none => simp
  | some v => cases v <;> simp

theorem isFile_iff (t : Tree) (q : Path) : isFile t q = true ↔ ∃ c, Map.get t q = some (.file c) := by
  unfold isFile
  cases h : Map.get t q with
  | none => simp
  | some v => cases v <;> simp

theorem exists_iff (t : Tree) (q : Path) : exists_ t q = true ↔ ∃ v, Map.get t q = some v := by
  unfold exists_
  cases h : Map.get t q <;> simp

/-- two trees that agree on a path give the same answers there -/
theorem readFile_congr {t t' : Tree} {q : Path} (h : Map.get t' q = Map.get t q) : readFile t' q = readFile t q := by
  unfold readFile; rw [h]

theorem isDir_congr {t t' : Tree} {q : Path} (h : Map.get t' q = Map.get t q) : isDir t' q = isDir t q := by
  unfold isDir; rw [h]

theorem isFile_congr {t t' : Tree} {q : Path} (h : Map.get t' q = Map.get t q) : isFile t' q = isFile t q := by
  unfold isFile; rw [h]

theorem exists_congr {t t' : Tree} {q : Path} (h : Map.get t' q = Map.get t q) : exists_ t' q = exists_ t q := by
  unfold exists_; rw [h]

/-- `openPart` and `validMeta` only look at the eight part files -/
theorem validMeta_congr {t t' : Tree} {id : Nat} (h : ∀ f, Map.get t' (pfile id f) = Map.get t (pfile id f)) :
    validMeta t' id = validMeta t id := by
  unfold validMeta; rw [readFile_congr (h .metadata)]

theorem openPart_congr {t t' : Tree} {id : Nat} (h : ∀ f, Map.get t' (pfile id f) = Map.get t (pfile id f)) :
    openPart t' id = openPart t id := by
  unfold openPart openPart.go
  simp only [readFile_congr (h _), exists_congr (h _), isFile_congr (h _)]

/-- a part all of whose files are intact opens and reads completely -/
theorem openPart_complete (t : Tree) (id : Nat) (bs : List Nat)
    (h : ∀ f, readFile t (pfile id f) = some (fileContent f bs)) : openPart t id = .ok bs := by
  unfold openPart openPart.go
  have hm := h .metadata
  have ht := h .tagType
  have h1 := h .mt
  have h2 := h .primary
  have h3 := h .timestamps
  have h4 := h .fv
  have h5 := h .tf
  have h6 := h .tfm
  simp only [fileContent] at hm ht h1 h2 h3 h4 h5 h6
  simp [hm, ht, h1, h2, h3, h4, h5, h6, dataContent, decData, decList, encList, PFile.tag]

end Banyan.C04

namespace Banyan.C04
open Banyan.FS

/-! ### the scan -/

theorem mem_children_root (t : Tree) (n : Name) : n ∈ children t [] ↔ exists_ t [n] = true := by
  simpa using mem_children t [] n

theorem mem_scan_parts (t : Tree) (id : Nat) :
    id ∈ (children t []).filterMap (partOf t) ↔ isDir t [.part id] = true ∧ validMeta t id = true := by
  rw [List.mem_filterMap]
  constructor
  · rintro ⟨n, _, hn⟩
    cases n <;> simp [partOf] at hn
    obtain ⟨h, rfl⟩ := hn
    exact h
  · intro h
    refine ⟨.part id, ?_, by simp [partOf, h.1, h.2]⟩
    rw [mem_children_root, exists_iff]
    exact ⟨_, (isDir_iff t _).1 h.1⟩

theorem mem_scan_snaps (t : Tree) (e : Nat) :
    e ∈ (children t []).filterMap (snapOf t) ↔ exists_ t [.snp e] = true ∧ isDir t [.snp e] = false := by
  rw [List.mem_filterMap]
  constructor
  · rintro ⟨n, hn1, hn⟩
    cases n <;> simp [snapOf] at hn
    obtain ⟨h, rfl⟩ := hn
    exact ⟨(mem_children_root t _).1 hn1, h⟩
  · intro h
    exact ⟨.snp e, (mem_children_root t _).2 h.1, by simp [snapOf, h.2]⟩

/-- a root name is on the delete list -/
def delName (fixed : Bool) (t : Tree) (n : Name) : Prop := exists_ t [n] = true ∧ toDelete fixed t n = true

theorem mem_scan_del (fixed : Bool) (t : Tree) (n : Name) :
    n ∈ (scan fixed t).del ↔ delName fixed t n := by
  simp [scan, delName, List.mem_filter, mem_children_root]

/-- the tree after the delete list was processed -/
theorem get_after_del (fixed : Bool) (t : Tree) (q : Path) :
    Map.get (rmMany t ((scan fixed t).del.map (fun n => [n]))) q =
      match q with
      | [] => Map.get t q
      | n :: _ => if delName fixed t n then none else Map.get t q := by
  rw [get_rmMany]
  cases q with
  | nil =>
    have : (List.map (fun n => [n]) (scan fixed t).del).any (fun p => p.isPrefixOf ([] : Path)) = false := by
      rw [List.any_eq_false]; intro p hp
      obtain ⟨n, _, rfl⟩ := List.mem_map.1 hp
      simp [List.isPrefixOf]
    simp [this]
  | cons n r =>
    by_cases hd : delName fixed t n
    · have : (List.map (fun n => [n]) (scan fixed t).del).any (fun p => p.isPrefixOf (n :: r)) = true := by
        rw [List.any_eq_true]
        exact ⟨[n], List.mem_map.2 ⟨n, (mem_scan_del fixed t n).2 hd, rfl⟩, by simp [List.isPrefixOf]⟩
      simp [this, hd]
    · have : (List.map (fun n => [n]) (scan fixed t).del).any (fun p => p.isPrefixOf (n :: r)) = false := by
        rw [List.any_eq_false]; intro p hp
        obtain ⟨m, hm, rfl⟩ := List.mem_map.1 hp
        have hm' := (mem_scan_del fixed t m).1 hm
        simp only [List.isPrefixOf, Bool.and_true, beq_iff_eq]
        intro h; subst h; exact hd hm'
      simp [this, hd]

end Banyan.C04
