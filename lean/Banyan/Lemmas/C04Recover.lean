/-
C04 — facts about the startup recovery model `recoverWith` (`initTSTable`).
-/
import Banyan.Lemmas.C04Spec

namespace Banyan.C04
open Banyan.FS

/-! ### encodings -/

@[simp] theorem decList_encList (xs : List Nat) : decList (encList xs) = some xs := by
  simp [decList, encList]

@[simp] theorem decData_dataContent (f : PFile) (bs : List Nat) : decData f (dataContent f bs) = some bs := by
  simp [decData, dataContent]

/-! ### sorting -/

theorem mem_insertSorted (x y : Nat) (l : List Nat) : y ∈ insertSorted x l ↔ y = x ∨ y ∈ l := by
  induction l with
  | nil => simp [insertSorted]
  | cons a l ih =>
    unfold insertSorted
    by_cases h : x ≤ a
    · simp [h]
    · simp [h, ih]; constructor <;> (intro h'; rcases h' with h' | h' | h' <;> simp [h'])

theorem mem_sortAsc (y : Nat) (l : List Nat) : y ∈ sortAsc l ↔ y ∈ l := by
  induction l with
  | nil => simp [sortAsc]
  | cons a l ih =>
    have : sortAsc (a :: l) = insertSorted a (sortAsc l) := rfl
    rw [this, mem_insertSorted, ih]; simp

theorem pairwise_insertSorted (x : Nat) (l : List Nat) (h : l.Pairwise (· ≤ ·)) :
    (insertSorted x l).Pairwise (· ≤ ·) := by
  induction l with
  | nil => simp [insertSorted]
  | cons a l ih =>
    unfold insertSorted
    rw [List.pairwise_cons] at h
    by_cases hxa : x ≤ a
    · simp only [hxa, if_true, List.pairwise_cons]
      refine ⟨?_, h.1, h.2⟩
      intro b hb
      rcases List.mem_cons.1 hb with rfl | hb
      · exact hxa
      · exact Nat.le_trans hxa (h.1 b hb)
    · simp only [hxa, if_false, List.pairwise_cons]
      refine ⟨?_, ih h.2⟩
      intro b hb
      rcases (mem_insertSorted x b l).1 hb with rfl | hb
      · omega
      · exact h.1 b hb

theorem pairwise_sortAsc (l : List Nat) : (sortAsc l).Pairwise (· ≤ ·) := by
  induction l with
  | nil => simp [sortAsc]
  | cons a l ih =>
    have : sortAsc (a :: l) = insertSorted a (sortAsc l) := rfl
    rw [this]; exact pairwise_insertSorted a _ ih

/-- the first element of the descending list is the maximum -/
theorem head_reverse_sortAsc_max (l : List Nat) (e : Nat) (es : List Nat)
    (h : (sortAsc l).reverse = e :: es) : e ∈ l ∧ ∀ x ∈ l, x ≤ e := by
  have hp := pairwise_sortAsc l
  have hs : sortAsc l = es.reverse ++ [e] := by
    have := congrArg List.reverse h
    simpa using this
  constructor
  · rw [← mem_sortAsc, hs]; simp
  · intro x hx
    rw [← mem_sortAsc, hs] at hx
    rw [hs, List.pairwise_append] at hp
    rcases List.mem_append.1 hx with hx | hx
    · exact hp.2.2 x hx e (by simp)
    · simp at hx; omega

/-! ### removing -/

theorem get_rmMany (t : Tree) (ps : List Path) (q : Path) :
    Map.get (rmMany t ps) q = if ps.any (fun p => p.isPrefixOf q) then none else Map.get t q := by
  induction ps generalizing t with
  | nil => simp [rmMany]
  | cons p ps ih =>
    have : rmMany t (p :: ps) = rmMany (rmAll t p) ps := rfl
    rw [this, ih, get_rmAll]
    by_cases h1 : p.isPrefixOf q = true
    · simp [h1]
    · simp [h1]

theorem get_rmMany_of_not (t : Tree) (ps : List Path) (q : Path)
    (h : ∀ p ∈ ps, p.isPrefixOf q = false) : Map.get (rmMany t ps) q = Map.get t q := by
  rw [get_rmMany]
  have : ps.any (fun p => p.isPrefixOf q) = false := by
    rw [List.any_eq_false]; intro p hp; simp [h p hp]
  simp [this]

theorem get_rmMany_none_or (t : Tree) (ps : List Path) (q : Path) :
    Map.get (rmMany t ps) q = none ∨ Map.get (rmMany t ps) q = Map.get t q := by
  rw [get_rmMany]; by_cases h : ps.any (fun p => p.isPrefixOf q) = true <;> simp [h]

/-- a singleton path is a prefix of `q` iff `q` starts with that name -/
theorem singleton_isPrefixOf (n : Name) (q : Path) : [n].isPrefixOf q = true ↔ ∃ r, q = n :: r := by
  cases q with
  | nil => simp [List.isPrefixOf]
  | cons a r => simp [List.isPrefixOf]; constructor <;> (intro h; exact h.symm)

/-! ### `CleanupLeftoverTmp` -/

theorem get_cleanupTmp (t : Tree) (id : Nat) (q : Path) :
    Map.get (cleanupTmp t id) q = if tmpVictim t id q then none else Map.get t q := by
  unfold cleanupTmp
  rw [Map.get_filterKeys]
  cases tmpVictim t id q <;> simp

theorem tmpVictim_shape (t : Tree) (id : Nat) (q : Path) (h : tmpVictim t id q = true) :
    ∃ n, q = [.part id, .tmp n] := by
  unfold tmpVictim at h
  split at h
  · rename_i i n
    simp only [Bool.and_eq_true, beq_iff_eq] at h
    exact ⟨n, by rw [h.1.1]⟩
  · simp at h

/-- paths that are not `<part>/<x>.tmp` are untouched by any number of cleanups -/
theorem get_foldl_cleanupTmp_of_not_tmp (keep : List Nat) (t : Tree) (q : Path)
    (h : ∀ i n, q ≠ [.part i, .tmp n]) :
    Map.get (keep.foldl cleanupTmp t) q = Map.get t q := by
  induction keep generalizing t with
  | nil => rfl
  | cons id keep ih =>
    simp only [List.foldl_cons]
    rw [ih, get_cleanupTmp]
    have : tmpVictim t id q = false := by
      cases hv : tmpVictim t id q with
      | false => rfl
      | true => obtain ⟨n, hn⟩ := tmpVictim_shape t id q hv; exact absurd hn (h id n)
    simp [this]

theorem get_foldl_cleanupTmp_none_or (keep : List Nat) (t : Tree) (q : Path) :
    Map.get (keep.foldl cleanupTmp t) q = none ∨ Map.get (keep.foldl cleanupTmp t) q = Map.get t q := by
  induction keep generalizing t with
  | nil => right; rfl
  | cons id keep ih =>
    simp only [List.foldl_cons]
    rcases ih (cleanupTmp t id) with h | h
    · left; exact h
    · rw [h, get_cleanupTmp]
      by_cases hv : tmpVictim t id q = true <;> simp [hv]

/-- a `.tmp` sibling of an existing file inside a kept part is gone after the cleanups -/
theorem get_foldl_cleanupTmp_victim (keep : List Nat) (t : Tree) (id : Nat) (n : Name)
    (hid : id ∈ keep) (hn : ∀ m, n ≠ .tmp m) (hfin : exists_ t [.part id, n] = true)
    (hfile : ∀ v, Map.get t [.part id, .tmp n] = some v → ∃ c, v = .file c) :
    Map.get (keep.foldl cleanupTmp t) [.part id, .tmp n] = none := by
  induction keep generalizing t with
  | nil => simp at hid
  | cons a keep ih =>
    simp only [List.foldl_cons]
    by_cases ha : a = id
    · subst ha
      -- removed (or already absent) now; stays absent
      have hnow : Map.get (cleanupTmp t a) [.part a, .tmp n] = none := by
        rw [get_cleanupTmp]
        cases hg : Map.get t [.part a, .tmp n] with
        | none => simp
        | some v =>
          obtain ⟨c, hc⟩ := hfile v hg
          have : tmpVictim t a [.part a, .tmp n] = true := by
            simp [tmpVictim, isFile, hg, hc, hfin]
          simp [this]
      rcases get_foldl_cleanupTmp_none_or keep (cleanupTmp t a) [.part a, .tmp n] with h | h
      · exact h
      · rw [h, hnow]
    · have hid' : id ∈ keep := by
        rcases List.mem_cons.1 hid with h | h
        · exact absurd h.symm ha
        · exact h
      apply ih _ hid'
      · -- the final still exists: it is not a tmp path
        unfold exists_ at hfin ⊢
        rw [get_cleanupTmp]
        have : tmpVictim t a [.part id, n] = false := by
          cases hv : tmpVictim t a [.part id, n] with
          | false => rfl
          | true =>
            obtain ⟨m, hm⟩ := tmpVictim_shape t a _ hv
            simp at hm; exact absurd hm.2 (hn m)
        simpa [this] using hfin
      · intro v hv
        rw [get_cleanupTmp] at hv
        by_cases hvic : tmpVictim t a [.part id, .tmp n] = true
        · simp [hvic] at hv
        · simp [hvic] at hv; exact hfile v hv

end Banyan.C04

namespace Banyan.C04
open Banyan.FS

/-! ### reading helpers -/

theorem readFile_some_iff (t : Tree) (q : Path) (c : Content) :
    readFile t q = some c ↔ Map.get t q = some (.file c) := by
  unfold readFile
  cases h : Map.get t q with
  | none => simp
  | some v => cases v <;> simp

theorem isDir_iff (t : Tree) (q : Path) : isDir t q = true ↔ Map.get t q = some .dir := by
  unfold isDir
  cases h : Map.get t q with
  | none => simp
  | some v => cases v <;> simp

theorem isFile_iff (t : Tree) (q : Path) : isFile t q = true ↔ ∃ c, Map.get t q = some (.file c) := by
  unfold isFile
  cases h : Map.get t q with
  | none => simp
  | some v => cases v <;> simp

theorem exists_iff (t : Tree) (q : Path) : exists_ t q = true ↔ ∃ v, Map.get t q = some v := by
  unfold exists_
  cases h : Map.get t q <;> simp

/-- two trees that agree on a path give the same answers there -/
theorem readFile_congr {t t' : Tree} {q : Path} (h : Map.get t' q = Map.get t q) : readFile t' q = readFile t q := by
  unfold readFile; rw [h]

theorem isDir_congr {t t' : Tree} {q : Path} (h : Map.get t' q = Map.get t q) : isDir t' q = isDir t q := by
  unfold isDir; rw [h]

theorem isFile_congr {t t' : Tree} {q : Path} (h : Map.get t' q = Map.get t q) : isFile t' q = isFile t q := by
  unfold isFile; rw [h]

theorem exists_congr {t t' : Tree} {q : Path} (h : Map.get t' q = Map.get t q) : exists_ t' q = exists_ t q := by
  unfold exists_; rw [h]

/-- `openPart` and `validMeta` only look at the eight part files -/
theorem validMeta_congr {t t' : Tree} {id : Nat} (h : ∀ f, Map.get t' (pfile id f) = Map.get t (pfile id f)) :
    validMeta t' id = validMeta t id := by
  unfold validMeta; rw [readFile_congr (h .metadata)]

theorem openPart_congr {t t' : Tree} {id : Nat} (h : ∀ f, Map.get t' (pfile id f) = Map.get t (pfile id f)) :
    openPart t' id = openPart t id := by
  unfold openPart openPart.go
  simp only [readFile_congr (h _), exists_congr (h _), isFile_congr (h _)]

/-- a part all of whose files are intact opens and reads completely -/
theorem openPart_complete (t : Tree) (id : Nat) (bs : List Nat)
    (h : ∀ f, readFile t (pfile id f) = some (fileContent f bs)) : openPart t id = .ok bs := by
  unfold openPart openPart.go
  have hm := h .metadata
  have ht := h .tagType
  have h1 := h .mt
  have h2 := h .primary
  have h3 := h .timestamps
  have h4 := h .fv
  have h5 := h .tf
  have h6 := h .tfm
  simp only [fileContent] at hm ht h1 h2 h3 h4 h5 h6
  simp [hm, ht, h1, h2, h3, h4, h5, h6, dataContent, decData, decList, encList, PFile.tag]

end Banyan.C04

namespace Banyan.C04
open Banyan.FS

/-! ### the scan -/

theorem mem_children_root (t : Tree) (n : Name) : n ∈ children t [] ↔ exists_ t [n] = true := by
  simpa using mem_children t [] n

theorem mem_scan_parts (t : Tree) (id : Nat) :
    id ∈ (children t []).filterMap (partOf t) ↔ isDir t [.part id] = true ∧ validMeta t id = true := by
  rw [List.mem_filterMap]
  constructor
  · rintro ⟨n, _, hn⟩
    cases n <;> simp [partOf] at hn
    obtain ⟨h, rfl⟩ := hn
    exact h
  · intro h
    refine ⟨.part id, ?_, by simp [partOf, h.1, h.2]⟩
    rw [mem_children_root, exists_iff]
    exact ⟨_, (isDir_iff t _).1 h.1⟩

theorem mem_scan_snaps (t : Tree) (e : Nat) :
    e ∈ (children t []).filterMap (snapOf t) ↔ exists_ t [.snp e] = true ∧ isDir t [.snp e] = false := by
  rw [List.mem_filterMap]
  constructor
  · rintro ⟨n, hn1, hn⟩
    cases n <;> simp [snapOf] at hn
    obtain ⟨h, rfl⟩ := hn
    exact ⟨(mem_children_root t _).1 hn1, h⟩
  · intro h
    exact ⟨.snp e, (mem_children_root t _).2 h.1, by simp [snapOf, h.2]⟩

/-- a root name is on the delete list -/
def delName (fixed : Bool) (t : Tree) (n : Name) : Bool := exists_ t [n] && toDelete fixed t n

theorem mem_scan_del (fixed : Bool) (t : Tree) (n : Name) :
    n ∈ (scan fixed t).del ↔ delName fixed t n = true := by
  simp [scan, delName, List.mem_filter, mem_children_root]

/-- the tree after the delete list was processed -/
theorem get_after_del (fixed : Bool) (t : Tree) (q : Path) :
    Map.get (rmMany t ((scan fixed t).del.map (fun n => [n]))) q =
      match q with
      | [] => Map.get t q
      | n :: _ => if delName fixed t n then none else Map.get t q := by
  rw [get_rmMany]
  cases q with
  | nil =>
    have : (List.map (fun n => [n]) (scan fixed t).del).any (fun p => p.isPrefixOf ([] : Path)) = false := by
      rw [List.any_eq_false]; intro p hp
      obtain ⟨n, _, rfl⟩ := List.mem_map.1 hp
      simp [List.isPrefixOf]
    simp [this]
  | cons n r =>
    by_cases hd : delName fixed t n = true
    · have : (List.map (fun n => [n]) (scan fixed t).del).any (fun p => p.isPrefixOf (n :: r)) = true := by
        rw [List.any_eq_true]
        exact ⟨[n], List.mem_map.2 ⟨n, (mem_scan_del fixed t n).2 hd, rfl⟩, by simp [List.isPrefixOf]⟩
      simp [this, hd]
    · have : (List.map (fun n => [n]) (scan fixed t).del).any (fun p => p.isPrefixOf (n :: r)) = false := by
        rw [List.any_eq_false]; intro p hp
        obtain ⟨m, hm, rfl⟩ := List.mem_map.1 hp
        have hm' := (mem_scan_del fixed t m).1 hm
        simp only [List.isPrefixOf, Bool.and_true, beq_iff_eq]
        intro h; subst h; exact hd hm'
      simp [this, hd]

end Banyan.C04

namespace Banyan.C04
open Banyan.FS

theorem part_isPrefixOf_pfile (i id : Nat) (n : Name) :
    ([Name.part i] : Path).isPrefixOf [.part id, n] = decide (i = id) := by
  by_cases h : i = id <;> simp [List.isPrefixOf, h]

/-- the tree `loadSnapshot` leaves: orphans removed, `.tmp` leftovers of the kept parts cleaned -/
def afterLoad (t1 : Tree) (ids parts : List Nat) : Tree :=
  (parts.filter (fun id => ids.contains id)).foldl cleanupTmp
    (rmMany t1 ((parts.filter (fun id => !ids.contains id)).map (fun id => [Name.part id])))

theorem get_afterLoad_pfile (t1 : Tree) (ids parts : List Nat) (id : Nat) (f : PFile) (hid : id ∈ ids) :
    Map.get (afterLoad t1 ids parts) (pfile id f) = Map.get t1 (pfile id f) := by
  unfold afterLoad
  rw [get_foldl_cleanupTmp_of_not_tmp _ _ _ (by intro i n; simp [pfile])]
  apply get_rmMany_of_not
  intro p hp
  obtain ⟨i, hi, rfl⟩ := List.mem_map.1 hp
  simp only [List.mem_filter, Bool.not_eq_true', List.contains_eq_mem, decide_eq_false_iff_not] at hi
  rw [pfile, part_isPrefixOf_pfile]
  have : i ≠ id := by intro h; subst h; exact hi.2 hid
  simp [this]

theorem loadSnapshot_ok (t1 : Tree) (live : Nat) (ids parts : List Nat) (bat : Nat → List Nat)
    (hm : readFile t1 [.snp live] = some (encList ids))
    (hc : ∀ id ∈ parts, id ∈ ids → ∀ f, readFile t1 (pfile id f) = some (fileContent f (bat id))) :
    loadSnapshot t1 live parts = some (.ok
      { epoch := if (parts.filter (fun id => ids.contains id)).isEmpty then none else some live,
        parts := (parts.filter (fun id => ids.contains id)).map (fun id => (id, bat id)),
        tree := afterLoad t1 ids parts }) := by
  unfold loadSnapshot
  simp only [hm, Option.bind_some, decList_encList]
  have hopen : ∀ id ∈ parts.filter (fun id => ids.contains id),
      openPart (afterLoad t1 ids parts) id = .ok (bat id) := by
    intro id hid
    simp only [List.mem_filter, List.contains_eq_mem, decide_eq_true_eq] at hid
    apply openPart_complete
    intro f
    rw [readFile_congr (get_afterLoad_pfile t1 ids parts id f hid.2)]
    exact hc id hid.1 hid.2 f
  have hmap : (parts.filter (fun id => ids.contains id)).map (fun id => (id, openPart (afterLoad t1 ids parts) id))
      = (parts.filter (fun id => ids.contains id)).map (fun id => (id, Opened.ok (bat id))) := by
    apply List.map_congr_left
    intro id hid
    rw [hopen id hid]
  unfold afterLoad at hmap hopen ⊢
  simp only [hmap]
  split
  · rename_i id why heq
    have hmem := List.mem_of_find?_eq_some heq
    obtain ⟨i, _, hi⟩ := List.mem_map.1 hmem
    simp at hi
  · simp [List.filterMap_map, Function.comp_def]

end Banyan.C04

namespace Banyan.C04
open Banyan.FS

theorem bool_false_of_ne_true {b : Bool} (h : b = true → False) : b = false := by
  cases b <;> simp at h ⊢

/-- under `TreeOK`, what is on the delete list -/
theorem delName_treeOK {t : Tree} {live : Nat} {ids : List Nat} {bat : Nat → List Nat} (fixed : Bool)
    (h : TreeOK t live ids bat) (n : Name) :
    delName fixed t n = true ↔
      (∃ id, n = .part id ∧ isDir t [n] = true ∧ validMeta t id = false) ∨
      (fixed = true ∧ ∃ e, n = .tmp (.snp e) ∧ exists_ t [n] = true) := by
  unfold delName
  constructor
  · intro hd
    simp only [Bool.and_eq_true] at hd
    rcases h.rootShape n hd.1 with ⟨id, rfl, hdir⟩ | ⟨e, rfl, hf⟩ | ⟨e, rfl, hf⟩
    · left; refine ⟨id, rfl, hdir, ?_⟩
      have := hd.2; simp [toDelete, hdir] at this; exact this
    · exfalso
      have hnd : isDir t [Name.snp e] = false := by
        obtain ⟨c, hc⟩ := (isFile_iff t _).1 hf
        simp [isDir, hc]
      have := hd.2; simp [toDelete, hnd] at this
    · right
      have hnd : isDir t [Name.tmp (Name.snp e)] = false := by
        obtain ⟨c, hc⟩ := (isFile_iff t _).1 hf
        simp [isDir, hc]
      have := hd.2; simp [toDelete, hnd] at this
      exact ⟨this, e, rfl, hd.1⟩
  · rintro (⟨id, rfl, hdir, hv⟩ | ⟨hfx, e, rfl, hex⟩)
    · have hex : exists_ t [Name.part id] = true := (exists_iff t _).2 ⟨_, (isDir_iff t _).1 hdir⟩
      simp [hex, toDelete, hdir, hv]
    · rcases h.rootShape _ hex with ⟨id, hh, _⟩ | ⟨e', hh, _⟩ | ⟨e', _, hf⟩
      · cases hh
      · cases hh
      · have hnd : isDir t [Name.tmp (Name.snp e)] = false := by
          obtain ⟨c, hc⟩ := (isFile_iff t _).1 hf
          simp [isDir, hc]
        simp [hex, toDelete, hnd, hfx]

/-- removing a list of root names -/
theorem get_rmNames (t : Tree) (ns : List Name) (n : Name) (r : Path) :
    Map.get (rmMany t (ns.map (fun x => [x]))) (n :: r) = if n ∈ ns then none else Map.get t (n :: r) := by
  rw [get_rmMany]
  by_cases hn : n ∈ ns
  · have : (List.map (fun x => [x]) ns).any (fun p => p.isPrefixOf (n :: r)) = true := by
      rw [List.any_eq_true]
      exact ⟨[n], List.mem_map.2 ⟨n, hn, rfl⟩, by simp [List.isPrefixOf]⟩
    simp [this, hn]
  · have : (List.map (fun x => [x]) ns).any (fun p => p.isPrefixOf (n :: r)) = false := by
      rw [List.any_eq_false]; intro p hp
      obtain ⟨m, hm, rfl⟩ := List.mem_map.1 hp
      simp only [List.isPrefixOf, Bool.and_true, beq_iff_eq]
      intro hh; subst hh; exact hn hm
    simp [this, hn]

end Banyan.C04

namespace Banyan.C04
open Banyan.FS

/-- `initTSTable` (as written: `fixed = false`; with the F14 repair: `fixed = true`) on a crash tree -/
theorem recoverWith_treeOK (fixed : Bool) {t : Tree} {live : Nat} {ids : List Nat} {bat : Nat → List Nat}
    (h : TreeOK t live ids bat) :
    ∃ r, recoverWith fixed t = .ok r ∧
      r.parts = (served t ids).map (fun id => (id, bat id)) ∧
      r.epoch = (if (served t ids).isEmpty then none else some live) ∧
      PartsComplete r ∧ (fixed = true → NoLeftovers (some live) r) := by
  -- the newest manifest
  have hlive : Map.get t [.snp live] = some (.file (encList ids)) := (readFile_some_iff t _ _).1 h.manifest
  have hliveEx : exists_ t [.snp live] = true := (exists_iff t _).2 ⟨_, hlive⟩
  have hliveNotDir : isDir t [.snp live] = false := by simp [isDir, hlive]
  have hne : (children t []).isEmpty = false := by
    have : Name.snp live ∈ children t [] := (mem_children_root t _).2 hliveEx
    cases hc : children t [] with
    | nil => rw [hc] at this; simp at this
    | cons a l => rfl
  -- names
  obtain ⟨S, hS⟩ : ∃ S, S = scan fixed t := ⟨_, rfl⟩
  obtain ⟨t1, ht1⟩ : ∃ t1, t1 = rmMany t (S.del.map (fun n => [n])) := ⟨_, rfl⟩
  have hget1 : ∀ n r, Map.get t1 (n :: r) = if delName fixed t n then none else Map.get t (n :: r) := by
    intro n r; rw [ht1, hS, get_after_del]
  have hSparts : S.parts = (children t []).filterMap (partOf t) := by rw [hS]; rfl
  have hSsnaps : S.snaps = (children t []).filterMap (snapOf t) := by rw [hS]; rfl
  have hliveSnap : live ∈ S.snaps := by rw [hSsnaps, mem_scan_snaps]; exact ⟨hliveEx, hliveNotDir⟩
  have hsnapLe : ∀ e ∈ S.snaps, e ≤ live := by
    intro e he; rw [hSsnaps, mem_scan_snaps] at he; exact h.newest e he.1
  have hmemP : ∀ id, id ∈ sortAsc S.parts ↔ isDir t [.part id] = true ∧ validMeta t id = true := by
    intro id; rw [mem_sortAsc, hSparts, mem_scan_parts]
  -- valid parts and manifests are not on the delete list
  have hpartKeep : ∀ id, validMeta t id = true → delName fixed t (.part id) = false := by
    intro id hv
    cases hd : delName fixed t (.part id) with
    | false => rfl
    | true =>
      rcases (delName_treeOK fixed h _).1 hd with ⟨i, hi, _, hvi⟩ | ⟨_, e, he, _⟩
      · cases hi; rw [hv] at hvi; cases hvi
      · cases he
  have hsnpKeep : ∀ e, delName fixed t (.snp e) = false := by
    intro e
    cases hd : delName fixed t (.snp e) with
    | false => rfl
    | true =>
      rcases (delName_treeOK fixed h _).1 hd with ⟨i, hi, _, _⟩ | ⟨_, e', he, _⟩
      · cases hi
      · cases he
  -- a surviving root entry that is not deleted is a valid part or a manifest
  have hrootClass : ∀ n, exists_ t [n] = true → delName fixed t n = false →
      (∃ id, n = .part id ∧ id ∈ sortAsc S.parts) ∨ (∃ e, n = .snp e ∧ e ∈ S.snaps) ∨
      (fixed = false ∧ ∃ e, n = .tmp (.snp e)) := by
    intro n hex hnd
    rcases h.rootShape n hex with ⟨id, rfl, hdir⟩ | ⟨e, rfl, hf⟩ | ⟨e, rfl, hf⟩
    · left; refine ⟨id, rfl, (hmemP id).2 ⟨hdir, ?_⟩⟩
      cases hv : validMeta t id with
      | true => rfl
      | false =>
        have := (delName_treeOK fixed h (.part id)).2 (Or.inl ⟨id, rfl, hdir, hv⟩)
        rw [hnd] at this; cases this
    · right; left; refine ⟨e, rfl, ?_⟩
      rw [hSsnaps, mem_scan_snaps]
      obtain ⟨c, hc⟩ := (isFile_iff t _).1 hf
      exact ⟨hex, by simp [isDir, hc]⟩
    · right; right
      refine ⟨?_, e, rfl⟩
      apply bool_false_of_ne_true
      intro hfx
      have := (delName_treeOK fixed h (.tmp (.snp e))).2 (Or.inr ⟨hfx, e, rfl, hex⟩)
      rw [hnd] at this; cases this
  unfold recoverWith
  rw [if_neg (by simp [hne])]
  simp only []
  rw [← hS, ← ht1]
  by_cases hP : (sortAsc S.parts).isEmpty = true ∨ S.snaps.isEmpty = true
  · -- no valid part directory: everything is removed
    rw [if_pos hP]
    have hPe : sortAsc S.parts = [] := by
      rcases hP with hP | hP
      · exact List.isEmpty_iff.1 hP
      · exfalso; rw [List.isEmpty_iff.1 hP] at hliveSnap; simp at hliveSnap
    have hserved : served t ids = [] := by
      unfold served; rw [← hSparts, hPe]; rfl
    have hfinal : ∀ n r, Map.get (rmMany t1 (S.snaps.map (fun e => [Name.snp e]) ++
          (sortAsc S.parts).map (fun id => [Name.part id]))) (n :: r) =
        if n ∈ S.snaps.map Name.snp ++ (sortAsc S.parts).map Name.part then none else Map.get t1 (n :: r) := by
      intro n r
      have : S.snaps.map (fun e => [Name.snp e]) ++ (sortAsc S.parts).map (fun id => [Name.part id]) =
          (S.snaps.map Name.snp ++ (sortAsc S.parts).map Name.part).map (fun x => [x]) := by
        simp [List.map_append, List.map_map, Function.comp_def]
      rw [this, get_rmNames]
    refine ⟨_, rfl, ?_, ?_, ?_, ?_⟩
    · simp [hserved]
    · simp [hserved]
    · intro p hp; simp at hp
    · intro hfix
      have hrootNone : ∀ n, exists_ (rmMany t1 (S.snaps.map (fun e => [Name.snp e]) ++
            (sortAsc S.parts).map (fun id => [Name.part id]))) [n] = false := by
        intro n
        cases hex : exists_ (rmMany t1 (S.snaps.map (fun e => [Name.snp e]) ++
            (sortAsc S.parts).map (fun id => [Name.part id]))) [n] with
        | false => rfl
        | true =>
          exfalso
          obtain ⟨v, hv⟩ := (exists_iff _ _).1 hex
          rw [hfinal] at hv
          by_cases hmem : n ∈ S.snaps.map Name.snp ++ (sortAsc S.parts).map Name.part
          · simp [hmem] at hv
          · simp only [hmem, if_false] at hv
            rw [hget1] at hv
            cases hd : delName fixed t n with
            | true => simp [hd] at hv
            | false =>
              simp only [hd] at hv
              rcases hrootClass n ((exists_iff t _).2 ⟨v, by simpa using hv⟩) hd with
                ⟨id, rfl, hid⟩ | ⟨e, rfl, he⟩ | ⟨hff, _⟩
              · rw [hPe] at hid; simp at hid
              · exact hmem (List.mem_append_left _ (List.mem_map.2 ⟨e, he, rfl⟩))
              · rw [hfix] at hff; cases hff
      refine ⟨?_, ?_, ?_⟩
      · intro q hq
        obtain ⟨v, hv⟩ := (exists_iff _ _).1 hq
        rcases get_rmMany_none_or t1 _ q with h1 | h1
        · rw [h1] at hv; cases hv
        · rw [h1, ht1] at hv
          rcases get_rmMany_none_or t _ q with h2 | h2
          · rw [h2] at hv; cases hv
          · rw [h2] at hv; exact h.depth q ((exists_iff t _).2 ⟨v, hv⟩)
      · intro n hn; rw [hrootNone n] at hn; cases hn
      · intro id n hdir _
        have := hrootNone (.part id)
        obtain hd := (isDir_iff _ _).1 hdir
        rw [(exists_iff _ _).2 ⟨_, hd⟩] at this; cases this
  · -- the newest manifest loads
    rw [if_neg hP]
    have hPne : ¬ ((sortAsc S.parts).isEmpty = true) := fun hh => hP (Or.inl hh)
    obtain ⟨e0, es, hrev⟩ : ∃ e0 es, (sortAsc S.snaps).reverse = e0 :: es := by
      cases hr : (sortAsc S.snaps).reverse with
      | nil =>
        exfalso
        have : sortAsc S.snaps = [] := by simpa using congrArg List.reverse hr
        have hm := (mem_sortAsc live S.snaps).2 hliveSnap
        rw [this] at hm; simp at hm
      | cons a l => exact ⟨a, l, rfl⟩
    have he0 : e0 = live := by
      obtain ⟨hmem, hmax⟩ := head_reverse_sortAsc_max S.snaps e0 es hrev
      have := hsnapLe e0 hmem
      have := hmax live hliveSnap
      omega
    subst he0
    have hm1 : readFile t1 [.snp e0] = some (encList ids) := by
      rw [readFile_some_iff, hget1, hsnpKeep]; simpa using hlive
    have hc1 : ∀ id ∈ sortAsc S.parts, id ∈ ids → ∀ f, readFile t1 (pfile id f) = some (fileContent f (bat id)) := by
      intro id hid hin f
      obtain ⟨hdir, hv⟩ := (hmemP id).1 hid
      have : Map.get t1 (pfile id f) = Map.get t (pfile id f) := by
        rw [pfile, hget1, hpartKeep id hv]; simp
      rw [readFile_congr this]
      exact h.complete id hin hdir hv f
    rw [hrev]
    simp only [loadFirst, loadSnapshot_ok t1 e0 ids (sortAsc S.parts) bat hm1 hc1, if_true, List.nil_append]
    -- the final tree
    obtain ⟨stale, hstale⟩ : ∃ st, st = (if fixed = true then S.snaps.filter (fun x => decide (x < e0)) else []) :=
      ⟨_, rfl⟩
    rw [← hstale]
    have hkeep : (sortAsc S.parts).filter (fun id => ids.contains id) = served t ids := by
      unfold served; rw [hSparts]
    obtain ⟨fin, hfin⟩ : ∃ fin, fin = rmMany (afterLoad t1 ids (sortAsc S.parts))
        (stale.map (fun x => [Name.snp x])) := ⟨_, rfl⟩
    rw [← hfin]
    have hfinRoot : ∀ n r, Map.get fin (n :: r) =
        if n ∈ stale.map Name.snp then none else Map.get (afterLoad t1 ids (sortAsc S.parts)) (n :: r) := by
      intro n r
      have : stale.map (fun x => [Name.snp x]) = (stale.map Name.snp).map (fun x => [x]) := by
        simp [List.map_map, Function.comp_def]
      rw [hfin, this, get_rmNames]
    -- every entry of the final tree is an entry of t, with a surviving root name
    have hsub : ∀ n r v, Map.get fin (n :: r) = some v →
        Map.get t (n :: r) = some v ∧ n ∉ stale.map Name.snp ∧ delName fixed t n = false ∧
        (∀ id, n = .part id → id ∈ ids ∨ id ∉ sortAsc S.parts) := by
      intro n r v hv
      rw [hfinRoot] at hv
      by_cases hst : n ∈ stale.map Name.snp
      · simp [hst] at hv
      · simp only [hst, if_false] at hv
        unfold afterLoad at hv
        rcases get_foldl_cleanupTmp_none_or ((sortAsc S.parts).filter (fun id => ids.contains id))
          (rmMany t1 (((sortAsc S.parts).filter (fun id => !ids.contains id)).map (fun id => [Name.part id])))
          (n :: r) with h1 | h1
        · rw [h1] at hv; cases hv
        · rw [h1] at hv
          have hm : ((sortAsc S.parts).filter (fun id => !ids.contains id)).map (fun id => [Name.part id]) =
              (((sortAsc S.parts).filter (fun id => !ids.contains id)).map Name.part).map (fun x => [x]) := by
            simp [List.map_map, Function.comp_def]
          rw [hm, get_rmNames] at hv
          by_cases horph : n ∈ ((sortAsc S.parts).filter (fun id => !ids.contains id)).map Name.part
          · rw [if_pos horph] at hv; cases hv
          · rw [if_neg horph] at hv
            rw [hget1] at hv
            cases hd : delName fixed t n with
            | true => simp [hd] at hv
            | false =>
              simp only [hd] at hv
              refine ⟨by simpa using hv, hst, rfl, ?_⟩
              intro id hid
              subst hid
              by_cases hin : id ∈ ids
              · left; exact hin
              · right; intro hPm
                apply horph
                exact List.mem_map.2 ⟨id, by simp [List.mem_filter, hPm, hin], rfl⟩
    -- conversely, surviving names keep their non-tmp entries
    have hkeepEntry : ∀ n r, n ∉ stale.map Name.snp → delName fixed t n = false →
        (∀ id, n = .part id → id ∈ ids) → (∀ i m, n :: r ≠ [.part i, .tmp m]) →
        Map.get fin (n :: r) = Map.get t (n :: r) := by
      intro n r hst hd hpart hnt
      rw [hfinRoot]
      simp only [hst, if_false]
      unfold afterLoad
      rw [get_foldl_cleanupTmp_of_not_tmp _ _ _ hnt]
      have hm : ((sortAsc S.parts).filter (fun id => !ids.contains id)).map (fun id => [Name.part id]) =
          (((sortAsc S.parts).filter (fun id => !ids.contains id)).map Name.part).map (fun x => [x]) := by
        simp [List.map_map, Function.comp_def]
      rw [hm, get_rmNames]
      have horph : n ∉ ((sortAsc S.parts).filter (fun id => !ids.contains id)).map Name.part := by
        intro hmem
        obtain ⟨id, hid, rfl⟩ := List.mem_map.1 hmem
        have := hpart id rfl
        simp [List.mem_filter, this] at hid
      simp only [horph, if_false]
      rw [hget1, hd]; simp
    have hservedMem : ∀ id, id ∈ served t ids ↔ id ∈ sortAsc S.parts ∧ id ∈ ids := by
      intro id; rw [← hkeep]; simp [List.mem_filter]
    refine ⟨_, rfl, ?_, ?_, ?_, ?_⟩
    · show List.map _ _ = _
      rw [hkeep]
    · show (if _ then _ else _) = _
      rw [hkeep]
    · -- every served part is complete
      intro p hp
      simp only [hkeep, List.mem_map] at hp
      obtain ⟨id, hid, rfl⟩ := hp
      obtain ⟨hidP, hidI⟩ := (hservedMem id).1 hid
      obtain ⟨hdir, hv⟩ := (hmemP id).1 hidP
      have hnst : Name.part id ∉ stale.map Name.snp := by simp
      show isDir fin [Name.part id] = true ∧ _
      constructor
      · rw [isDir_congr (hkeepEntry (.part id) [] hnst (hpartKeep id hv) (by intro i hi; cases hi; exact hidI)
          (by intro i m; simp))]
        exact hdir
      · intro f
        show readFile fin (pfile id f) = _
        rw [pfile, readFile_congr (hkeepEntry (.part id) [.pf f] hnst (hpartKeep id hv)
          (by intro i hi; cases hi; exact hidI) (by intro i m; simp))]
        exact h.complete id hidI hdir hv f
    · intro hfix
      show NoLeftovers (some e0) ⟨_, _, fin⟩
      refine ⟨?_, ?_, ?_⟩
      · intro q hq
        obtain ⟨v, hv⟩ := (exists_iff _ _).1 hq
        cases q with
        | nil => simp
        | cons n r => exact h.depth _ ((exists_iff t _).2 ⟨v, (hsub n r v hv).1⟩)
      · intro n hn
        obtain ⟨v, hv⟩ := (exists_iff _ _).1 hn
        obtain ⟨hvt, hst, hd, hpart⟩ := hsub n [] v hv
        rcases hrootClass n ((exists_iff t _).2 ⟨v, hvt⟩) hd with ⟨id, rfl, hid⟩ | ⟨e, rfl, he⟩ | ⟨hff, _⟩
        rotate_left 2
        · rw [hfix] at hff; cases hff
        · right
          rcases hpart id rfl with hin | hnin
          · exact ⟨(id, bat id), by simp only [hkeep, List.mem_map]; exact ⟨id, (hservedMem id).2 ⟨hid, hin⟩, rfl⟩, rfl⟩
          · exact absurd hid hnin
        · left
          refine ⟨e, ?_, rfl⟩
          have hle := hsnapLe e he
          have : ¬ e < e0 := by
            intro hlt; apply hst
            exact List.mem_map.2 ⟨e, by rw [hstale, if_pos hfix]; simp [List.mem_filter, he, hlt], rfl⟩
          have : e = e0 := by omega
          rw [this]
      · intro id n hdir hex
        obtain ⟨v, hv⟩ := (exists_iff _ _).1 hex
        obtain ⟨hvt, hst, hd, hpart⟩ := hsub (.part id) [n] v hv
        obtain hdirv := (isDir_iff _ _).1 hdir
        obtain ⟨hdt, _, hdd, hpart'⟩ := hsub (.part id) [] _ hdirv
        -- the part is served
        have hidP : id ∈ sortAsc S.parts := by
          rcases hrootClass (.part id) ((exists_iff t _).2 ⟨_, hdt⟩) hdd with ⟨i, hi, hiP⟩ | ⟨e, he, _⟩ | ⟨_, e, he⟩
          · cases hi; exact hiP
          · cases he
          · cases he
        have hidI : id ∈ ids := by
          rcases hpart' id rfl with hh | hh
          · exact hh
          · exact absurd hidP hh
        obtain ⟨hdir0, hv0⟩ := (hmemP id).1 hidP
        rcases (h.partShape id n ((exists_iff t _).2 ⟨v, hvt⟩)).2 with ⟨f, rfl⟩ | ⟨f, rfl⟩
        · exact ⟨f, rfl⟩
        · -- a `.tmp` sibling of a present file: removed by CleanupLeftoverTmp
          exfalso
          rw [hfinRoot] at hv
          simp only [hst, if_false] at hv
          have hnone : Map.get (afterLoad t1 ids (sortAsc S.parts)) [Name.part id, Name.tmp (Name.pf f)] = none := by
            unfold afterLoad
            apply get_foldl_cleanupTmp_victim
            · simp [List.mem_filter, hidP, hidI]
            · intro m; simp
            · have hm : ((sortAsc S.parts).filter (fun id => !ids.contains id)).map (fun id => [Name.part id]) =
                  (((sortAsc S.parts).filter (fun id => !ids.contains id)).map Name.part).map (fun x => [x]) := by
                simp [List.map_map, Function.comp_def]
              rw [exists_iff, hm, get_rmNames]
              have horph : Name.part id ∉ ((sortAsc S.parts).filter (fun id => !ids.contains id)).map Name.part := by
                intro hmem
                obtain ⟨i, hi, hie⟩ := List.mem_map.1 hmem
                cases hie
                simp [List.mem_filter, hidI] at hi
              simp only [horph, if_false]
              rw [hget1, hpartKeep id hv0]
              have := h.complete id hidI hdir0 hv0 f
              rw [readFile_some_iff] at this
              exact ⟨_, by simpa [pfile] using this⟩
            · intro v' hv'
              have hm : ((sortAsc S.parts).filter (fun id => !ids.contains id)).map (fun id => [Name.part id]) =
                  (((sortAsc S.parts).filter (fun id => !ids.contains id)).map Name.part).map (fun x => [x]) := by
                simp [List.map_map, Function.comp_def]
              rw [hm, get_rmNames] at hv'
              by_cases horph : Name.part id ∈ ((sortAsc S.parts).filter (fun id => !ids.contains id)).map Name.part
              · rw [if_pos horph] at hv'; cases hv'
              · rw [if_neg horph] at hv'
                rw [hget1] at hv'
                cases hd' : delName fixed t (Name.part id) with
                | true => simp [hd'] at hv'
                | false =>
                  simp only [hd'] at hv'
                  have hf := (h.partShape id (.tmp (.pf f)) ((exists_iff t _).2 ⟨v', by simpa using hv'⟩)).1
                  obtain ⟨c, hc⟩ := (isFile_iff t _).1 hf
                  have hv'' : Map.get t [Name.part id, Name.tmp (Name.pf f)] = some v' := by simpa using hv'
                  rw [hc] at hv''
                  exact ⟨c, by cases hv''; rfl⟩
          rw [hnone] at hv; cases hv

end Banyan.C04

namespace Banyan.C04
open Banyan.FS

theorem recover_treeOK {t : Tree} {live : Nat} {ids : List Nat} {bat : Nat → List Nat}
    (h : TreeOK t live ids bat) :
    ∃ r, recover t = .ok r ∧
      r.parts = (served t ids).map (fun id => (id, bat id)) ∧
      r.epoch = (if (served t ids).isEmpty then none else some live) ∧
      PartsComplete r ∧ NoLeftovers (some live) r := by
  obtain ⟨r, h1, h2, h3, h4, h5⟩ := recoverWith_treeOK true h
  exact ⟨r, h1, h2, h3, h4, h5 rfl⟩

theorem recoverWith_treeOK0 (fixed : Bool) {t : Tree} (h : TreeOK0 t) :
    ∃ r, recoverWith fixed t = .ok r ∧ r.parts = [] ∧ r.epoch = none ∧ (fixed = true → NoLeftovers none r) := by
  unfold recoverWith
  by_cases hne : (children t []).isEmpty = true
  · rw [if_pos hne]
    refine ⟨_, rfl, rfl, rfl, fun _ => ⟨?_, ?_, ?_⟩⟩
    · exact h.depth
    · intro n hn
      have := (mem_children_root t n).2 hn
      rw [List.isEmpty_iff.1 hne] at this; simp at this
    · intro id n hdir _
      have := (mem_children_root t (.part id)).2 ((exists_iff t _).2 ⟨_, (isDir_iff t _).1 hdir⟩)
      rw [List.isEmpty_iff.1 hne] at this; simp at this
  · rw [if_neg hne]
    simp only []
    obtain ⟨S, hS⟩ : ∃ S, S = scan fixed t := ⟨_, rfl⟩
    obtain ⟨t1, ht1⟩ : ∃ t1, t1 = rmMany t (S.del.map (fun n => [n])) := ⟨_, rfl⟩
    rw [← hS, ← ht1]
    have hget1 : ∀ n r, Map.get t1 (n :: r) = if delName fixed t n then none else Map.get t (n :: r) := by
      intro n r; rw [ht1, hS, get_after_del]
    have hSparts : S.parts = (children t []).filterMap (partOf t) := by rw [hS]; rfl
    have hSsnaps : S.snaps = (children t []).filterMap (snapOf t) := by rw [hS]; rfl
    have hnosnap : S.snaps = [] := by
      cases hs : S.snaps with
      | nil => rfl
      | cons e l =>
        exfalso
        have : e ∈ (children t []).filterMap (snapOf t) := by rw [← hSsnaps, hs]; simp
        rw [mem_scan_snaps] at this
        rcases h.rootShape _ this.1 with ⟨id, hh, _⟩ | ⟨e', hh, _⟩ <;> cases hh
    rw [if_pos (Or.inr (by rw [hnosnap]; rfl))]
    have hfinal : ∀ n r, Map.get (rmMany t1 (S.snaps.map (fun e => [Name.snp e]) ++
          (sortAsc S.parts).map (fun id => [Name.part id]))) (n :: r) =
        if n ∈ S.snaps.map Name.snp ++ (sortAsc S.parts).map Name.part then none else Map.get t1 (n :: r) := by
      intro n r
      have : S.snaps.map (fun e => [Name.snp e]) ++ (sortAsc S.parts).map (fun id => [Name.part id]) =
          (S.snaps.map Name.snp ++ (sortAsc S.parts).map Name.part).map (fun x => [x]) := by
        simp [List.map_append, List.map_map, Function.comp_def]
      rw [this, get_rmNames]
    refine ⟨_, rfl, rfl, rfl, ?_⟩
    intro hfix
    have hrootNone : ∀ n, exists_ (rmMany t1 (S.snaps.map (fun e => [Name.snp e]) ++
          (sortAsc S.parts).map (fun id => [Name.part id]))) [n] = false := by
      intro n
      cases hex : exists_ (rmMany t1 (S.snaps.map (fun e => [Name.snp e]) ++
          (sortAsc S.parts).map (fun id => [Name.part id]))) [n] with
      | false => rfl
      | true =>
        exfalso
        obtain ⟨v, hv⟩ := (exists_iff _ _).1 hex
        rw [hfinal] at hv
        by_cases hmem : n ∈ S.snaps.map Name.snp ++ (sortAsc S.parts).map Name.part
        · rw [if_pos hmem] at hv; cases hv
        · rw [if_neg hmem, hget1] at hv
          cases hd : delName fixed t n with
          | true => simp [hd] at hv
          | false =>
            simp only [hd] at hv
            have hvt : Map.get t [n] = some v := by simpa using hv
            have hex' : exists_ t [n] = true := (exists_iff t _).2 ⟨v, hvt⟩
            rcases h.rootShape n hex' with ⟨id, rfl, hdir⟩ | ⟨e, rfl, hf⟩
            · cases hvm : validMeta t id with
              | true =>
                apply hmem
                apply List.mem_append_right
                exact List.mem_map.2 ⟨id, (mem_sortAsc _ _).2 (by rw [hSparts, mem_scan_parts]; exact ⟨hdir, hvm⟩), rfl⟩
              | false =>
                have : delName fixed t (.part id) = true := by simp [delName, hex', toDelete, hdir, hvm]
                rw [hd] at this; cases this
            · have hnd : isDir t [Name.tmp (Name.snp e)] = false := by
                obtain ⟨c, hc⟩ := (isFile_iff t _).1 hf
                simp [isDir, hc]
              have : delName fixed t (.tmp (.snp e)) = true := by simp [delName, hex', toDelete, hnd, hfix]
              rw [hd] at this; cases this
    refine ⟨?_, ?_, ?_⟩
    · intro q hq
      obtain ⟨v, hv⟩ := (exists_iff _ _).1 hq
      rcases get_rmMany_none_or t1 _ q with h1 | h1
      · rw [h1] at hv; cases hv
      · rw [h1, ht1] at hv
        rcases get_rmMany_none_or t _ q with h2 | h2
        · rw [h2] at hv; cases hv
        · rw [h2] at hv; exact h.depth q ((exists_iff t _).2 ⟨v, hv⟩)
    · intro n hn; rw [hrootNone n] at hn; cases hn
    · intro id n hdir _
      have := hrootNone (.part id)
      rw [(exists_iff _ _).2 ⟨_, (isDir_iff _ _).1 hdir⟩] at this; cases this

theorem recover_treeOK0 {t : Tree} (h : TreeOK0 t) :
    ∃ r, recover t = .ok r ∧ r.parts = [] ∧ r.epoch = none ∧ NoLeftovers none r := by
  obtain ⟨r, h1, h2, h3, h4⟩ := recoverWith_treeOK0 true h
  exact ⟨r, h1, h2, h3, h4 rfl⟩

end Banyan.C04
