/-
C04, segment level — the executable enumeration `crashTrees` of `Model/C04Seg.lean` contains every outcome of the
crash relations `FS.crashKill` / `FS.crashPower` (for states reached by running system calls from the empty file
system).  This turns the kernel-evaluated statements of `Props/C04Seg.lean` into statements about the relations.
-/
import Banyan.Model.C04Seg
import Banyan.Lemmas.FS

namespace Banyan.C04Seg
open Banyan.FS

/-! ### sublists, contents between two prefixes, data choices -/

theorem mem_sublists {α : Type} {sub l : List α} (h : List.Sublist sub l) : sub ∈ sublists l := by
  induction h with
  | slnil => simp [sublists]
  | cons a _ ih => simp only [sublists, List.mem_append]; exact Or.inr ih
  | cons_cons a _ ih =>
    simp only [sublists, List.mem_append, List.mem_map]
    exact Or.inl ⟨_, ih, rfl⟩

theorem mem_between {d c v : Content} (h1 : d <+: c) (h2 : c <+: v) : c ∈ between d v := by
  unfold between
  rw [List.mem_filterMap]
  refine ⟨c.length, ?_, ?_⟩
  · rw [List.mem_range]; have := h2.length_le; omega
  · rw [if_pos h1.length_le, ← List.prefix_iff_eq_take.1 h2]

theorem mem_dataChoices (s : St) (data : Nat → Content) (hd : DataOK s data) (is : List Nat) :
    is.map (fun i => (i, data i)) ∈ dataChoices s is := by
  induction is with
  | nil => simp [dataChoices]
  | cons i is ih =>
    simp only [dataChoices, List.map_cons, List.mem_flatMap, List.mem_map]
    exact ⟨data i, mem_between (hd i).1 (hd i).2, _, ih, rfl⟩

theorem get_map_data (data : Nat → Content) (is : List Nat) (i : Nat) (hi : i ∈ is) :
    Map.get (is.map (fun i => (i, data i))) i = some (data i) := by
  induction is with
  | nil => simp at hi
  | cons j is ih =>
    simp only [List.map_cons, Map.get]
    by_cases h : i = j
    · subst h; simp
    · rw [if_neg h]
      exact ih (by simpa [h] using hi)

/-! ### inode numbers stay below `next` -/

def InosOK (n : Nat) (m : NS SName) : Prop := ∀ kv ∈ m, ∀ i, kv.2 = Node.file i → i < n

def OpOK (n : Nat) (o : DOp SName) : Prop := ∀ p i, o = .add p (.file i) → i < n

theorem inosOK_mono {n n' : Nat} {m : NS SName} (h : n ≤ n') (hm : InosOK n m) : InosOK n' m :=
  fun kv hkv i hi => Nat.lt_of_lt_of_le (hm kv hkv i hi) h

theorem get_mem {m : NS SName} {p : Path} {nd : Node} (h : Map.get m p = some nd) : (p, nd) ∈ m := by
  induction m with
  | nil => simp [Map.get] at h
  | cons kv m ih =>
    obtain ⟨k, v⟩ := kv
    simp only [Map.get] at h
    by_cases hk : p = k
    · rw [if_pos hk] at h; cases h; subst hk; exact List.mem_cons_self
    · rw [if_neg hk] at h; exact List.mem_cons_of_mem _ (ih h)

theorem inosOK_filterKeys {n : Nat} {m : NS SName} (f : Path → Bool) (hm : InosOK n m) :
    InosOK n (Map.filterKeys m f) :=
  fun kv hkv i hi => hm kv (List.mem_filter.1 hkv).1 i hi

theorem apply_inosOK {n : Nat} {m : NS SName} {o : DOp SName} (hm : InosOK n m) (ho : OpOK n o) :
    InosOK n (o.apply m) := by
  cases o with
  | add p nd =>
    intro kv hkv i hi
    simp only [DOp.apply, Map.set, List.mem_cons] at hkv
    rcases hkv with rfl | hkv
    · exact ho p i (by simp at hi; rw [hi])
    · exact inosOK_filterKeys _ hm kv hkv i hi
  | del p =>
    simp only [DOp.apply]
    exact inosOK_filterKeys _ hm
  | ren a b =>
    simp only [DOp.apply]
    cases hg : Map.get m a with
    | none => exact hm
    | some nd =>
      intro kv hkv i hi
      simp only [List.mem_cons] at hkv
      rcases hkv with rfl | hkv
      · exact hm _ (get_mem hg) i hi
      · exact inosOK_filterKeys _ hm kv hkv i hi

theorem applyOps_inosOK {n : Nat} (ops : List (DOp SName)) (m : NS SName) (hm : InosOK n m)
    (ho : ∀ o ∈ ops, OpOK n o) : InosOK n (applyOps ops m) := by
  induction ops generalizing m with
  | nil => exact hm
  | cons o ops ih =>
    show InosOK n (applyOps ops (o.apply m))
    exact ih _ (apply_inosOK hm (ho o List.mem_cons_self)) (fun o' ho' => ho o' (List.mem_cons_of_mem _ ho'))

/-- the bound, as a state invariant -/
structure Bounded (s : St) : Prop where
  dur : InosOK s.next s.dur
  vol : InosOK s.next s.vol
  pend : ∀ o ∈ s.pend, OpOK s.next o

theorem bounded_init : Bounded ({} : St) :=
  ⟨fun kv h => by simp at h, fun kv h => by simp at h, fun o h => by simp at h⟩

theorem bounded_dirop {s : St} (h : Bounded s) (o : DOp SName) (ho : OpOK s.next o) : Bounded (s.dirop o) :=
  ⟨h.dur, apply_inosOK h.vol ho, by
    intro o' ho'
    have : o' ∈ s.pend ∨ o' = o := by simpa [St.dirop] using ho'
    rcases this with h' | rfl
    · exact h.pend o' h'
    · exact ho⟩

theorem bounded_exec {s : St} (h : Bounded s) (st : Step) : Bounded (exec s st) := by
  cases st with
  | mkdir p => exact bounded_dirop h _ (by intro q i hq; cases hq)
  | create p =>
    refine ⟨inosOK_mono (Nat.le_succ _) h.dur, ?_, ?_⟩
    · have ho : OpOK (s.next + 1) (DOp.add p (Node.file s.next)) := by
        intro q i hq
        injection hq with _ h2
        injection h2 with h3
        rw [← h3]; exact Nat.lt_succ_self _
      exact apply_inosOK (inosOK_mono (Nat.le_succ _) h.vol) ho
    · intro o ho
      have : o ∈ s.pend ∨ o = .add p (.file s.next) := by simpa [exec, St.dirop] using ho
      rcases this with h' | rfl
      · intro q i hq; exact Nat.lt_succ_of_lt (h.pend o h' q i hq)
      · intro q i hq
        injection hq with _ h2
        injection h2 with h3
        rw [← h3]; exact Nat.lt_succ_self _
  | write p c =>
    simp only [exec]
    split <;> exact ⟨h.dur, h.vol, h.pend⟩
  | fsync p =>
    simp only [exec]
    split <;> exact ⟨h.dur, h.vol, h.pend⟩
  | close p => exact h
  | rename a b => exact bounded_dirop h _ (by intro q i hq; cases hq)
  | fsyncdir d =>
    refine ⟨applyOps_inosOK _ _ h.dur (fun o ho => h.pend o (List.mem_filter.1 ho).1), h.vol,
      fun o ho => h.pend o (List.mem_filter.1 ho).1⟩
  | unlink p => exact bounded_dirop h _ (by intro q i hq; cases hq)
  | rmdir p => exact bounded_dirop h _ (by intro q i hq; cases hq)
  | link a b =>
    simp only [exec]
    cases hg : Map.get s.vol a with
    | none => exact h
    | some nd =>
      exact bounded_dirop h _ (by
        intro q i hq
        have hnd : nd = Node.file i := by injection hq
        exact h.vol _ (get_mem hg) i hnd)

theorem bounded_run (steps : List Step) : ∀ (s : St), Bounded s → Bounded (run s steps) := by
  induction steps with
  | nil => intro s h; exact h
  | cons st steps ih => intro s h; exact ih _ (bounded_exec h st)

/-! ### the enumeration is complete -/

theorem resolve_congr {m : NS SName} {n : Nat} (hm : InosOK n m) {data data' : Nat → Content}
    (h : ∀ i, i < n → data i = data' i) : resolve m data = resolve m data' := by
  unfold resolve
  apply List.map_congr_left
  intro kv hkv
  cases hnd : kv.2 with
  | dir => simp [resolveNode]
  | file i => simp [resolveNode, h i (hm kv hkv i hnd)]

theorem mem_powerTrees {s : St} (hb : Bounded s) {t : Tree} (h : crashPower s t) : t ∈ powerTrees s := by
  obtain ⟨sub, data, hsub, hd, rfl⟩ := h
  unfold powerTrees
  rw [List.mem_flatMap]
  refine ⟨sub, mem_sublists hsub, ?_⟩
  rw [List.mem_map]
  refine ⟨(List.range s.next).map (fun i => (i, data i)), mem_dataChoices s data hd _, ?_⟩
  have hm : InosOK s.next (applyOps sub s.dur) :=
    applyOps_inosOK _ _ hb.dur (fun o ho => hb.pend o (hsub.subset ho))
  apply resolve_congr hm
  intro i hi
  rw [get_map_data data _ i (List.mem_range.2 hi)]
  rfl

/-- every crash outcome of a cut of the segment history is in the enumeration -/
theorem mem_crashTrees (atomic : Bool) (k cut : Nat) (t : Tree)
    (h : t = crashKill (cutState atomic k cut) ∨ crashPower (cutState atomic k cut) t) :
    t ∈ crashTrees atomic k cut := by
  unfold crashTrees
  rcases h with rfl | h
  · exact List.mem_cons_self
  · exact List.mem_cons_of_mem _ (mem_powerTrees (bounded_run _ _ bounded_init) h)

/-! ### durable data is a prefix of the volatile data -/

def DataPrefix (s : St) : Prop := ∀ i, s.ddataOf i <+: s.vdataOf i

theorem dataPrefix_exec {s : St} (h : DataPrefix s) (st : Step) : DataPrefix (exec s st) := by
  cases st with
  | create p =>
    intro i
    show ((Map.get (Map.set s.ddata s.next []) i).getD []) <+: ((Map.get (Map.set s.vdata s.next []) i).getD [])
    rw [Map.get_set, Map.get_set]
    by_cases hi : i = s.next
    · simp [hi]
    · simp only [hi, if_false]; exact h i
  | write p c =>
    simp only [exec]
    split
    · rename_i j _
      intro i
      show s.ddataOf i <+: ((Map.get (Map.set s.vdata j (s.vdataOf j ++ c)) i).getD [])
      rw [Map.get_set]
      by_cases hi : i = j
      · simp only [hi, if_true, Option.getD_some]
        exact (h j).trans (List.prefix_append _ _)
      · simp only [hi, if_false]; exact h i
    · exact h
  | fsync p =>
    simp only [exec]
    split
    · rename_i j _
      intro i
      show ((Map.get (Map.set s.ddata j (s.vdataOf j)) i).getD []) <+: s.vdataOf i
      rw [Map.get_set]
      by_cases hi : i = j
      · simp only [hi, if_true, Option.getD_some]; exact List.prefix_refl _
      · simp only [hi, if_false]; exact h i
    · exact h
  | link a b =>
    simp only [exec]
    split <;> exact h
  | mkdir p => exact h
  | close p => exact h
  | rename a b => exact h
  | fsyncdir d => exact h
  | unlink p => exact h
  | rmdir p => exact h

theorem dataPrefix_run (steps : List Step) : ∀ (s : St), DataPrefix s → DataPrefix (run s steps) := by
  induction steps with
  | nil => intro s h; exact h
  | cons st steps ih => intro s h; exact ih _ (dataPrefix_exec h st)

theorem dataPrefix_init : DataPrefix ({} : St) := fun _ => List.prefix_refl _

/-- the power-loss outcome in which every pending directory operation survives and no un-fsynced data does -/
theorem crashPower_entries_without_data (atomic : Bool) (k cut : Nat) :
    crashPower (cutState atomic k cut)
      (resolve (applyOps (cutState atomic k cut).pend (cutState atomic k cut).dur) (cutState atomic k cut).ddataOf) :=
  ⟨_, _, List.Sublist.refl _,
    fun i => ⟨List.prefix_refl _, dataPrefix_run _ _ dataPrefix_init i⟩, rfl⟩

end Banyan.C04Seg
