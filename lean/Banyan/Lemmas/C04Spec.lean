/-
C04 — specification predicates shared by the recovery lemma (`C04Recover.lean`), the protocol invariant
(`C04Inv.lean`) and the property theorems (`Props/C04.lean`).
-/
import Banyan.Model.C04
import Banyan.Lemmas.FS

namespace Banyan.C04
open Banyan.FS

/-- What a crash leaves behind, as far as `initTSTable` can tell.  `live` is the newest manifest present, it
    lists the part ids `ids`; `bat id` are the batches part `id` covers.
    * only part directories, manifests and `<epoch>.snp.tmp` files in the root, only part files and their
      `.tmp` siblings inside part directories, nothing deeper;
    * the newest manifest is intact;
    * a part listed by the newest manifest whose `metadata.json` is valid is complete: every one of its
      files is there with its full content (parts that are listed but were memory parts at the time may be
      absent or not yet committed). -/
structure TreeOK (t : Tree) (live : Nat) (ids : List Nat) (bat : Nat → List Nat) : Prop where
  depth : ∀ q, exists_ t q = true → q.length ≤ 2
  rootShape : ∀ n, exists_ t [n] = true →
    (∃ id, n = .part id ∧ isDir t [n] = true) ∨ (∃ e, n = .snp e ∧ isFile t [n] = true) ∨
    (∃ e, n = .tmp (.snp e) ∧ isFile t [n] = true)
  partShape : ∀ id n, exists_ t [.part id, n] = true →
    isFile t [.part id, n] = true ∧ ((∃ f, n = .pf f) ∨ (∃ f, n = .tmp (.pf f)))
  manifest : readFile t [.snp live] = some (encList ids)
  newest : ∀ e, exists_ t [.snp e] = true → e ≤ live
  complete : ∀ id, id ∈ ids → isDir t [.part id] = true → validMeta t id = true →
    ∀ f, readFile t (pfile id f) = some (fileContent f (bat id))

/-- A crash before the first manifest was published: no manifest at all. -/
structure TreeOK0 (t : Tree) : Prop where
  depth : ∀ q, exists_ t q = true → q.length ≤ 2
  rootShape : ∀ n, exists_ t [n] = true →
    (∃ id, n = .part id ∧ isDir t [n] = true) ∨ (∃ e, n = .tmp (.snp e) ∧ isFile t [n] = true)

/-- the parts `initTSTable` serves from a `TreeOK` tree: the listed ones with a valid `metadata.json`,
    in ascending id order -/
def served (t : Tree) (ids : List Nat) : List Nat :=
  (sortAsc ((children t []).filterMap (partOf t))).filter (fun id => ids.contains id)

/-- `leftovers_removed`: after startup nothing but the newest manifest and the served parts' files remains
    (`live = none`: there was no manifest, nothing at all remains) -/
structure NoLeftovers (live : Option Nat) (r : Rec) : Prop where
  depth : ∀ q, exists_ r.tree q = true → q.length ≤ 2
  root : ∀ n, exists_ r.tree [n] = true →
    (∃ e, live = some e ∧ n = .snp e) ∨ (∃ p ∈ r.parts, n = .part p.1)
  inPart : ∀ id n, isDir r.tree [.part id] = true → exists_ r.tree [.part id, n] = true → ∃ f, n = .pf f

/-- every served part is complete in the directory as left by startup -/
def PartsComplete (r : Rec) : Prop :=
  ∀ p ∈ r.parts, isDir r.tree [.part p.1] = true ∧ ∀ f, readFile r.tree (pfile p.1 f) = some (fileContent f p.2)

end Banyan.C04
