/-
C04 — batch bookkeeping of the table's control state (no file system involved): the batches of the file parts
are a prefix of the acknowledged batches, the memory parts hold the rest, one batch each, in order.
-/
import Banyan.Lemmas.C04Ops
import Banyan.Lemmas.C04Inv1

namespace Banyan.C04

def fileBatches (t : Tbl) : List Nat := (t.parts.filter (fun p => !p.mem)).flatMap (·.batches)
def memBatches (t : Tbl) : List Nat := (t.parts.filter (·.mem)).flatMap (·.batches)

structure TB (t : Tbl) : Prop where
  file : (fileBatches t).Perm (t.acked.take (fileBatches t).length)
  mem : memBatches t = t.acked.drop (fileBatches t).length
  single : ∀ p ∈ t.parts, p.mem = true → ∃ b, p.batches = [b]
  nofile : t.liveEpoch = 0 → ∀ p ∈ t.parts, p.mem = true

theorem tb_init (e : Nat) : TB ({ epoch := e } : Tbl) := by
  refine ⟨?_, ?_, ?_, ?_⟩ <;> simp [fileBatches, memBatches]

theorem TB.len_le {t : Tbl} (h : TB t) : (fileBatches t).length ≤ t.acked.length := by
  have := h.file.length_eq
  rw [List.length_take] at this
  omega

/-- all batches of the snapshot are exactly the acknowledged ones -/
theorem TB.all {t : Tbl} (h : TB t) : (fileBatches t ++ memBatches t).Perm t.acked := by
  rw [h.mem]
  have := List.Perm.append_right (t.acked.drop (fileBatches t).length) h.file
  rwa [List.take_append_drop] at this

theorem filter_flatMap_perm (l : List PartG) :
    (l.flatMap (·.batches)).Perm ((l.filter (fun p => !p.mem)).flatMap (·.batches) ++ (l.filter (·.mem)).flatMap (·.batches)) := by
  induction l with
  | nil => simp
  | cons a l ih =>
    by_cases hm : a.mem = true
    · simp only [List.flatMap_cons, List.filter_cons, hm, Bool.not_true, if_true]
      simp only [Bool.false_eq_true, if_false]
      have h1 : (a.batches ++ l.flatMap (·.batches)).Perm
          (a.batches ++ ((l.filter (fun p => !p.mem)).flatMap (·.batches) ++ (l.filter (·.mem)).flatMap (·.batches))) :=
        List.Perm.append_left _ ih
      refine h1.trans ?_
      rw [← List.append_assoc, ← List.append_assoc]
      exact List.Perm.append_right _ List.perm_append_comm
    · have hm' : a.mem = false := by cases h : a.mem <;> simp_all
      simp only [List.flatMap_cons, List.filter_cons, hm', Bool.not_false, if_true]
      simp only [Bool.false_eq_true, if_false]
      rw [List.append_assoc]
      exact List.Perm.append_left _ ih

theorem fileBatches_batchT (t : Tbl) (b : Nat) : fileBatches (batchT t b) = fileBatches t := by
  unfold fileBatches; rw [batchT_parts, List.filter_append]; simp

theorem fileBatches_congr {t t' : Tbl} (h : t'.parts = t.parts) : fileBatches t' = fileBatches t := by
  unfold fileBatches; rw [h]

/-- a batch is acknowledged -/
theorem tb_batch {t : Tbl} (h : TB t) (b : Nat) : TB (batchT t b) := by
  have hparts := batchT_parts t b
  have hfile : fileBatches (batchT t b) = fileBatches t := by
    unfold fileBatches; rw [hparts, List.filter_append]; simp
  have hmem : memBatches (batchT t b) = memBatches t ++ [b] := by
    unfold memBatches; rw [hparts, List.filter_append]; simp
  have hack : (batchT t b).acked = t.acked ++ [b] := rfl
  refine ⟨?_, ?_, ?_, ?_⟩
  · rw [hfile, hack, List.take_append_of_le_length h.len_le]; exact h.file
  · rw [hfile, hmem, hack, h.mem, List.drop_append_of_le_length h.len_le]
  · intro p hp hm
    rw [hparts] at hp
    have : p ∈ t.parts ∨ p = ⟨t.curPartID + 1, [b], true⟩ := by simpa using hp
    rcases this with hp' | rfl
    · exact h.single p hp' hm
    · exact ⟨b, rfl⟩
  · intro hl p hp
    rw [hparts] at hp
    have : p ∈ t.parts ∨ p = ⟨t.curPartID + 1, [b], true⟩ := by simpa using hp
    rcases this with hp' | rfl
    · exact h.nofile hl p hp'
    · rfl

/-- a table state in which every part is a file part and together they hold all acknowledged batches -/
theorem tb_all_file {t : Tbl} (hlive : t.liveEpoch ≠ 0) (hnomem : ∀ p ∈ t.parts, p.mem = false)
    (hall : (t.parts.flatMap (·.batches)).Perm t.acked) : TB t := by
  have hf : t.parts.filter (fun p => !p.mem) = t.parts := by
    rw [List.filter_eq_self]; intro p hp; simp [hnomem p hp]
  have hm : t.parts.filter (·.mem) = [] := by
    rw [List.filter_eq_nil_iff]; intro p hp; simp [hnomem p hp]
  have hfile : fileBatches t = t.parts.flatMap (·.batches) := by unfold fileBatches; rw [hf]
  have hlen : (fileBatches t).length = t.acked.length := by rw [hfile]; exact hall.length_eq
  refine ⟨?_, ?_, ?_, ?_⟩
  · rw [hlen, List.take_length, hfile]; exact hall
  · unfold memBatches; rw [hm, hlen, List.drop_length]; rfl
  · intro p hp hmm; rw [hnomem p hp] at hmm; cases hmm
  · intro hl; exact absurd hl hlive

theorem fileBatches_all_file_len {t : Tbl} (hnomem : ∀ p ∈ t.parts, p.mem = false)
    (hall : (t.parts.flatMap (·.batches)).Perm t.acked) : (fileBatches t).length = t.acked.length := by
  have hf : t.parts.filter (fun p => !p.mem) = t.parts := by
    rw [List.filter_eq_self]; intro p hp; simp [hnomem p hp]
  unfold fileBatches; rw [hf]; exact hall.length_eq

/-- without memory parts the file parts hold every acknowledged batch -/
theorem TB.len_all {t : Tbl} (h : TB t) (hnomem : ∀ p ∈ t.parts, p.mem = false) :
    (fileBatches t).length = t.acked.length := by
  have hm : memBatches t = [] := by
    unfold memBatches
    have : t.parts.filter (·.mem) = [] := by
      rw [List.filter_eq_nil_iff]; intro p hp; simp [hnomem p hp]
    rw [this]; rfl
  have h1 := h.mem
  rw [hm] at h1
  have := List.drop_eq_nil_iff.1 h1.symm
  have := h.len_le
  omega

/-- `TB` only looks at parts, acked and liveEpoch -/
theorem tb_congr {t t' : Tbl} (h : TB t) (h1 : t'.parts = t.parts) (h2 : t'.acked = t.acked)
    (h3 : t'.liveEpoch = t.liveEpoch) : TB t' := by
  have hf : fileBatches t' = fileBatches t := by unfold fileBatches; rw [h1]
  have hm : memBatches t' = memBatches t := by unfold memBatches; rw [h1]
  exact ⟨by rw [hf, h2]; exact h.file, by rw [hf, hm, h2]; exact h.mem, by rw [h1]; exact h.single,
    by rw [h1, h3]; exact h.nofile⟩

theorem tb_flush {t : Tbl} (h : TB t) : TB (publish (flushT1 t)).2 := by
  apply tb_all_file
  · rw [publish_live]; show t.epoch + 1 ≠ 0; omega
  · intro p hp
    rw [publish_parts] at hp
    obtain ⟨p0, _, rfl⟩ := (List.mem_map.1 hp)
    rfl
  · rw [publish_parts, publish_acked]
    show ((t.parts.map (fun p => { p with mem := false })).flatMap (·.batches)).Perm t.acked
    rw [List.flatMap_map]
    exact (filter_flatMap_perm t.parts).trans h.all

theorem tb_mergeMem {t : Tbl} (h : TB t) : TB (publish (mergeMemT1 t)).2 := by
  apply tb_all_file
  · rw [publish_live]; show t.epoch + 1 ≠ 0; omega
  · intro p hp
    rw [publish_parts] at hp
    have hp' : p ∈ t.parts.filter (fun p => !p.mem) ∨ p = ⟨t.curPartID + 1, (t.parts.filter (·.mem)).flatMap (·.batches), false⟩ := by
      simpa [mergeMemT1] using hp
    rcases hp' with hp' | rfl
    · have := (List.mem_filter.1 hp').2; simpa using this
    · rfl
  · rw [publish_parts, publish_acked]
    show ((t.parts.filter (fun p => !p.mem) ++
      [(⟨t.curPartID + 1, (t.parts.filter (·.mem)).flatMap (·.batches), false⟩ : PartG)]).flatMap
      (fun p => p.batches)).Perm t.acked
    rw [List.flatMap_append]
    simp only [List.flatMap_cons, List.flatMap_nil, List.append_nil]
    exact h.all

theorem nodup_of_nodup_map {α β : Type} (f : α → β) (l : List α) (h : (l.map f).Nodup) : l.Nodup := by
  induction l with
  | nil => simp
  | cons a l ih =>
    rw [List.map_cons, List.nodup_cons] at h
    rw [List.nodup_cons]
    exact ⟨fun hm => h.1 (List.mem_map.2 ⟨a, hm, rfl⟩), ih h.2⟩

theorem nodup_eraseDups_aux2 {α : Type} [DecidableEq α] :
    ∀ (n : Nat) (l : List α), l.length ≤ n → l.eraseDups.Nodup := by
  intro n
  induction n with
  | zero =>
    intro l hl
    have : l = [] := List.length_eq_zero_iff.1 (by omega)
    subst this; simp
  | succ n ih =>
    intro l hl
    cases l with
    | nil => simp
    | cons a as =>
      rw [List.eraseDups_cons, List.nodup_cons]
      refine ⟨?_, ih _ ?_⟩
      · intro hm
        rw [List.mem_eraseDups, List.mem_filter] at hm
        simp at hm
      · have := List.length_filter_le (fun b => !b == a) as
        simp at hl; omega

/-- merging chosen file parts keeps the batch bookkeeping -/
theorem tb_merge {t : Tbl} (h : TB t) (hnd : (t.parts.map (·.id)).Nodup) (sel : List Nat) (hold : Bool) :
    TB (reap (publish (mergeT1 t sel hold)).2).2 ∧
    (fileBatches (reap (publish (mergeT1 t sel hold)).2).2).length = (fileBatches t).length := by
  obtain ⟨chosen, hch⟩ : ∃ chosen, chosen = selectParts (t.parts.filter (fun p => !p.mem)) sel := ⟨_, rfl⟩
  have hchsub : ∀ p ∈ chosen, p ∈ t.parts ∧ p.mem = false := by
    intro p hp
    rw [hch] at hp
    have := List.mem_filter.1 (mem_selectParts hp)
    exact ⟨this.1, by simpa using this.2⟩
  have hchnd : chosen.Nodup := by rw [hch]; unfold selectParts; exact nodup_eraseDups_aux2 _ _ (Nat.le_refl _)
  have hpnd : t.parts.Nodup := nodup_of_nodup_map _ _ hnd
  -- membership in `gone` is membership in `chosen`
  have hgone : ∀ p ∈ t.parts, (chosen.map (·.id)).contains p.id = true ↔ p ∈ chosen := by
    intro p hp
    simp only [List.contains_eq_mem, decide_eq_true_eq]
    constructor
    · intro hm
      obtain ⟨q, hq, hqid⟩ := List.mem_map.1 hm
      have : q = p := eq_of_nodup_map (·.id) t.parts hnd (hchsub q hq).1 hp hqid
      rw [← this]; exact hq
    · intro hm; exact List.mem_map.2 ⟨p, hm, rfl⟩
  have hparts : (reap (publish (mergeT1 t sel hold)).2).2.parts =
      t.parts.filter (fun p => !(chosen.map (·.id)).contains p.id) ++ [⟨t.curPartID + 1, chosen.flatMap (·.batches), false⟩] := by
    rw [reap_parts, publish_parts, hch]; rfl
  have hack : (reap (publish (mergeT1 t sel hold)).2).2.acked = t.acked := rfl
  -- file parts: the kept ones and the new one
  have hF : fileBatches (reap (publish (mergeT1 t sel hold)).2).2 =
      ((t.parts.filter (fun p => !p.mem)).filter (fun p => !(chosen.map (·.id)).contains p.id)).flatMap (·.batches) ++
        chosen.flatMap (·.batches) := by
    unfold fileBatches
    rw [hparts, List.filter_append, List.flatMap_append]
    simp only [List.filter_cons, Bool.not_false, if_true, List.filter_nil, List.flatMap_cons, List.flatMap_nil,
      List.append_nil]
    congr 2
    rw [List.filter_filter, List.filter_filter]
    apply List.filter_congr
    intro p _; exact Bool.and_comm _ _
  have hM : memBatches (reap (publish (mergeT1 t sel hold)).2).2 = memBatches t := by
    unfold memBatches
    rw [hparts, List.filter_append]
    simp only [List.filter_cons, Bool.false_eq_true, if_false, List.filter_nil, List.append_nil]
    congr 1
    rw [List.filter_filter]
    apply List.filter_congr
    intro p hp
    by_cases hm : p.mem = true
    · have : (chosen.map (·.id)).contains p.id = false := by
        cases hc : (chosen.map (·.id)).contains p.id with
        | false => rfl
        | true =>
          have := (hchsub p ((hgone p hp).1 hc)).2
          rw [hm] at this; cases this
      rw [this, hm]; rfl
    · have hm' : p.mem = false := by cases h : p.mem <;> simp_all
      rw [hm']; simp
  -- the kept file parts plus the chosen ones are the old file parts
  have hperm : (((t.parts.filter (fun p => !p.mem)).filter (fun p => !(chosen.map (·.id)).contains p.id)).flatMap (·.batches) ++
      chosen.flatMap (·.batches)).Perm (fileBatches t) := by
    unfold fileBatches
    rw [← List.flatMap_append]
    apply List.Perm.flatMap_right
    have h1 := List.filter_append_perm (fun p : PartG => !(chosen.map (·.id)).contains p.id) (t.parts.filter (fun p => !p.mem))
    refine List.Perm.trans ?_ h1
    apply List.Perm.append_left
    -- chosen ~ the file parts whose id is in `gone`
    rw [List.perm_ext_iff_of_nodup hchnd ((List.Pairwise.filter _ (List.Pairwise.filter _ hpnd)))]
    intro p
    constructor
    · intro hp
      rw [List.mem_filter, List.mem_filter]
      refine ⟨⟨(hchsub p hp).1, by simp [(hchsub p hp).2]⟩, ?_⟩
      simp only [Bool.not_not]
      exact (hgone p (hchsub p hp).1).2 hp
    · intro hp
      rw [List.mem_filter, List.mem_filter] at hp
      simp only [Bool.not_not] at hp
      exact (hgone p hp.1.1).1 hp.2
  have hlen : (fileBatches (reap (publish (mergeT1 t sel hold)).2).2).length = (fileBatches t).length := by
    rw [hF]; exact hperm.length_eq
  refine ⟨⟨?_, ?_, ?_, ?_⟩, hlen⟩
  · rw [hlen, hack, hF]; exact hperm.trans h.file
  · rw [hM, hlen, hack]; exact h.mem
  · intro p hp hm
    rw [hparts] at hp
    rcases List.mem_append.1 hp with hp' | hp'
    · exact h.single p (List.mem_filter.1 hp').1 hm
    · simp at hp'; subst hp'; cases hm
  · intro hl
    have : (reap (publish (mergeT1 t sel hold)).2).2.liveEpoch = t.epoch + 1 := rfl
    rw [this] at hl; omega

end Banyan.C04
