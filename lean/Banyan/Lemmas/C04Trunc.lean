/-
C04 — `WriteAtomic` over a stale `<name>.tmp` left by an earlier crash.

`WriteAtomic` opens `<name>.tmp` with `O_CREAT|O_TRUNC`, writes the payload at offset 0, fsyncs, renames.
`writeAtomic_atomic` / `writeAtomic_durable` (`C04Atomic.lean`) assume that the `.tmp` sibling does not exist
(`Settled.tmpAbsent`).  Two facts close that assumption for the manifest of a table:
* the repaired startup removes every temporary manifest (`no_tmp_after_recover`), so the assumption holds for
  whatever is published after a restart;
* and it is `O_TRUNC` that makes the content independent of a stale file: `openWrite` is the content of a file
  that held `old` after `open(flags); write(c)`; with truncation it is `c` for every `old`, without it a longer
  stale manifest leaves a tail behind and the result never parses (`openWrite_keep_manifest_torn`).
-/
import Banyan.Lemmas.C04Spec

namespace Banyan.C04
open Banyan.FS

/-- content after `open(<file>, O_CREAT [|O_TRUNC]); write(c)` (offset 0) of a file that held `old` -/
def openWrite (trunc : Bool) (old c : Content) : Content :=
  if trunc then c else c ++ old.drop c.length

/-- with `O_TRUNC` the result is the payload, whatever the file held -/
theorem openWrite_trunc (old c : Content) : openWrite true old c = c := rfl

/-- without it the payload survives only over a stale file that is not longer -/
theorem openWrite_keep_of_short (old c : Content) (h : old.length ≤ c.length) : openWrite false old c = c := by
  simp [openWrite, List.drop_of_length_le h]

theorem openWrite_keep_longer (old c : Content) (h : c.length < old.length) : openWrite false old c ≠ c := by
  intro heq
  have := congrArg List.length heq
  simp [openWrite] at this
  omega

/-- a manifest written without truncation over a longer stale manifest never parses -/
theorem openWrite_keep_manifest_torn (ids stale : List Nat) (h : ids.length < stale.length) :
    decList (openWrite false (encList stale) (encList ids)) = none := by
  have : openWrite false (encList stale) (encList ids) = ids.length :: (ids ++ stale.drop ids.length) := by
    simp [openWrite, encList]
  rw [this]
  simp only [decList]
  rw [if_neg]
  simp only [List.length_append, List.length_drop]
  omega

/-- the seeded change's own example: a stale three-part manifest, republished with one part -/
theorem openWrite_keep_counterexample :
    decList (openWrite false (encList [1, 2, 3]) (encList [3])) = none ∧
    decList (openWrite true (encList [1, 2, 3]) (encList [3])) = some [3] := by decide

/-- After the repaired startup no temporary file is left in the table directory: the precondition
    `Settled.tmpAbsent` of `WriteAtomic` holds for every manifest published after a restart. -/
theorem no_tmp_after_recover {live : Option Nat} {r : Rec} (h : NoLeftovers live r) (n : Name) :
    exists_ r.tree [.tmp n] = false := by
  cases hex : exists_ r.tree [.tmp n] with
  | false => rfl
  | true =>
    rcases h.root _ hex with ⟨e, _, he⟩ | ⟨p, _, hp⟩
    · cases he
    · cases hp

end Banyan.C04
