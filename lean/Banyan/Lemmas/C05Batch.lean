/-
C05: which write batches a snapshot shows (`view`): never a batch twice (a merged part XOR its inputs), and the
published view changes exactly as the op says (nothing lost by flush/merge, a batch appears whole).
-/
import Banyan.Lemmas.C05View

set_option linter.unusedSimpArgs false

namespace Banyan.C05

/-- batches visible through the table's current snapshot -/
def curView (st : State) : List Nat :=
  match st.cur with
  | some c => view st c
  | none => []

structure BatchInv (st : State) : Prop where
  /-- no snapshot shows a batch twice -/
  viewNodup : ∀ s, s < st.nS → (view st s).Nodup
  srcLe : ∀ w, w < st.nP → ∀ b, b ∈ (st.P w).src → b ≤ st.nBatch

theorem batchInv_init : BatchInv init := by
  constructor <;> simp [init]

theorem view_congr {st st' : State} {t : Nat} (hp : (st'.S t).parts = (st.S t).parts)
    (hs : ∀ w, w ∈ (st.S t).parts → (st'.P w).src = (st.P w).src) : view st' t = view st t := by
  unfold view
  rw [hp]
  exact flatMap_congr_mem _ hs

theorem sublist_flatMap_filter (l : List Nat) (p : Nat → Bool) (f : Nat → List Nat) :
    ((l.filter p).flatMap f).Sublist (l.flatMap f) := by
  induction l with
  | nil => simp
  | cons a l ih =>
    simp only [List.filter_cons, List.flatMap_cons]
    split
    · simp only [List.flatMap_cons]
      exact List.Sublist.append (List.Sublist.refl _) ih
    · exact List.Sublist.trans ih (List.sublist_append_right _ _)

/-! ### primitives -/

theorem pin_view (k : Nat) (st : State) (t : Nat) : view (pin k st) t = view st t :=
  view_congr (pin_S_parts k st t) (fun w _ => by simp)

theorem pin_curView (k : Nat) (st : State) : curView (pin k st) = curView st := by
  unfold curView
  rw [pin_cur]
  cases st.cur with
  | none => rfl
  | some c => exact pin_view k st c

theorem pin_batchInv {st : State} (k : Nat) (h : BatchInv st) : BatchInv (pin k st) := by
  constructor
  · intro s hs
    rw [pin_view]
    exact h.viewNodup s (by simpa using hs)
  · intro w hw b hb
    simp only [pin_P, pin_nP, pin_nBatch] at hw hb ⊢
    exact h.srcLe w hw b hb

/-- `snapshot.decRef`: every view stays as it is or (the snapshot died) becomes empty; the current view stays. -/
theorem snapDecRef_views {st : State} {s : Nat} (h : Inv' (some s) st) :
    (∀ t, view (snapDecRef s st) t = view st t ∨ view (snapDecRef s st) t = []) ∧
    curView (snapDecRef s st) = curView st ∧
    (snapDecRef s st).nS = st.nS ∧ (snapDecRef s st).nP = st.nP ∧ (snapDecRef s st).nBatch = st.nBatch ∧
    (snapDecRef s st).cur = st.cur ∧
    (∀ w, ((snapDecRef s st).P w).src = (st.P w).src) := by
  have hs : s < st.nS := h.xLt s rfl
  have hr := h.snapRef s hs
  simp only [if_true] at hr
  have hsrc : ∀ w, ((snapDecRef s st).P w).src = (st.P w).src := by
    intro w
    unfold snapDecRef; dsimp only; split
    · rfl
    · exact (applyAll_dec_same (st.S s).parts st.P w).2.2.1
  have hparts : ∀ t, t ≠ s → ((snapDecRef s st).S t).parts = (st.S t).parts := by
    intro t ht
    unfold snapDecRef; dsimp only; split <;> (dsimp only; rw [upd_ne _ _ ht])
  have hpartsS : ((snapDecRef s st).S s).parts = (st.S s).parts ∨ ((snapDecRef s st).S s).parts = [] := by
    unfold snapDecRef; dsimp only; split
    · left; dsimp only; rw [upd_same]
    · right; dsimp only; rw [upd_same]
  have hcurEq : (snapDecRef s st).cur = st.cur := by
    unfold snapDecRef; dsimp only; split <;> rfl
  have hviews : ∀ t, view (snapDecRef s st) t = view st t ∨ view (snapDecRef s st) t = [] := by
    intro t
    by_cases ht : t = s
    · subst ht
      rcases hpartsS with hp | hp
      · left; exact view_congr hp (fun w _ => hsrc w)
      · right; unfold view; rw [hp]; rfl
    · left; exact view_congr (hparts t ht) (fun w _ => hsrc w)
  refine ⟨hviews, ?_, ?_, ?_, ?_, hcurEq, hsrc⟩
  · unfold curView
    rw [hcurEq]
    cases hc : st.cur with
    | none => rfl
    | some c =>
      dsimp only
      by_cases hcs : c = s
      · subst hcs
        -- the current snapshot keeps the table's reference: it cannot die here
        have hpos : (st.S c).ref - 1 > 0 := by rw [if_pos hc] at hr; omega
        have hp : ((snapDecRef c st).S c).parts = (st.S c).parts := by
          unfold snapDecRef; dsimp only; rw [if_pos hpos]; dsimp only; rw [upd_same]
        exact view_congr hp (fun w _ => hsrc w)
      · exact view_congr (hparts c hcs) (fun w _ => hsrc w)
  · unfold snapDecRef; dsimp only; split <;> rfl
  · unfold snapDecRef; dsimp only; split <;> rfl
  · unfold snapDecRef; dsimp only; split <;> rfl

theorem snapDecRef_batchInv {st : State} {s : Nat} (h : Inv' (some s) st) (hb : BatchInv st) :
    BatchInv (snapDecRef s st) := by
  obtain ⟨hv, _, hnS, hnP, hnB, _, hsrc⟩ := snapDecRef_views h
  constructor
  · intro t ht
    rcases hv t with e | e
    · rw [e]; exact hb.viewNodup t (by omega)
    · rw [e]; exact List.nodup_nil
  · intro w hw b hbm
    rw [hsrc w] at hbm
    rw [hnB]
    exact hb.srcLe w (by omega) b hbm

theorem unpin_batch {st : State} (k : Nat) (h : Inv st) (hb : BatchInv st) :
    BatchInv (unpin k st) ∧ curView (unpin k st) = curView st := by
  unfold unpin
  cases hf : findHolder k st.holders with
  | none => exact ⟨hb, rfl⟩
  | some s =>
    dsimp only
    have h1 := erase_inv h hf
    have hb1 : BatchInv { st with holders := eraseHolder k st.holders } := ⟨hb.viewNodup, hb.srcLe⟩
    exact ⟨snapDecRef_batchInv h1 hb1, (snapDecRef_views h1).2.1⟩

/-- what the copy loop must additionally establish about the rows shown by the next snapshot -/
structure BuildB (st : State) (P' : Nat → Part) (nP' : Nat) (parts : List Nat) : Prop where
  newNodup : (parts.flatMap fun w => (P' w).src).Nodup
  freshLe : ∀ w, st.nP ≤ w → w < nP' → ∀ b, b ∈ (P' w).src → b ≤ st.nBatch

/-- the state right after `tst.snapshot = next` inside `replaceSnapshot` -/
def installed (st : State) (P' : Nat → Part) (nP' : Nat) (parts : List Nat) (curPid' : Nat) : State :=
  { st with P := P', nP := nP', curPid := curPid',
            S := upd st.S st.nS { epoch := st.epoch, parts := parts, ref := 1 },
            nS := st.nS + 1, cur := some st.nS, epoch := st.epoch + 1 }

theorem publish_eq (st : State) (P' : Nat → Part) (nP' : Nat) (parts : List Nat) (curPid' : Nat) :
    publish st P' nP' parts curPid' =
      match st.cur with
      | none => installed st P' nP' parts curPid'
      | some c => snapDecRef c (installed st P' nP' parts curPid') := rfl

theorem publish_batch {st : State} {P' : Nat → Part} {nP' : Nat} {parts : List Nat} {curPid' : Nat}
    (h : Inv st) (hb : BatchInv st) (b : Build st P' nP' parts curPid') (bb : BuildB st P' nP' parts) :
    BatchInv (publish st P' nP' parts curPid') ∧
    curView (publish st P' nP' parts curPid') = parts.flatMap fun w => (P' w).src := by
  have hi : Inv' st.cur (installed st P' nP' parts curPid') := install_inv h b
  have hSold : ∀ t, t < st.nS → (installed st P' nP' parts curPid').S t = st.S t :=
    fun t ht => upd_ne _ _ (Nat.ne_of_lt ht)
  have hSnew : (installed st P' nP' parts curPid').S st.nS = { epoch := st.epoch, parts := parts, ref := 1 } :=
    upd_same _ _ _
  have hPi : (installed st P' nP' parts curPid').P = P' := rfl
  have hb1 : BatchInv (installed st P' nP' parts curPid') := by
    constructor
    · intro t ht
      have ht' : t < st.nS + 1 := ht
      by_cases htn : t = st.nS
      · subst htn
        unfold view; rw [hSnew, hPi]
        exact bb.newNodup
      · have htl : t < st.nS := by omega
        have : view (installed st P' nP' parts curPid') t = view st t := by
          apply view_congr
          · rw [hSold t htl]
          · intro w hw; rw [hPi]; exact b.oldSrc w (h.partsLt t htl w hw)
        rw [this]
        exact hb.viewNodup t htl
    · intro w hw x hx
      have hw' : w < nP' := hw
      rw [hPi] at hx
      show x ≤ st.nBatch
      by_cases hwo : w < st.nP
      · rw [b.oldSrc w hwo] at hx
        exact hb.srcLe w hwo x hx
      · exact bb.freshLe w (by omega) hw' x hx
  have hcv1 : curView (installed st P' nP' parts curPid') = parts.flatMap fun w => (P' w).src := by
    show view (installed st P' nP' parts curPid') st.nS = _
    unfold view; rw [hSnew, hPi]
  rw [publish_eq]
  cases hc : st.cur with
  | none => exact ⟨hb1, hcv1⟩
  | some c =>
    rw [hc] at hi
    dsimp only
    exact ⟨snapDecRef_batchInv hi hb1, (snapDecRef_views hi).2.1.trans hcv1⟩

theorem curView_eq_curParts (st : State) : curView st = (curParts st).flatMap fun w => (st.P w).src := by
  unfold curView curParts view
  cases st.cur <;> rfl

/-! ### ops -/

theorem introducePart_batch {st : State} (h : Inv st) (hb : BatchInv st) :
    BatchInv (introducePart st) ∧ curView (introducePart st) = curView st ++ [st.nBatch + 1] := by
  unfold introducePart
  dsimp only
  have h1 : Inv (pin 0 st) := pin_inv 0 h
  have hb1 : BatchInv (pin 0 st) := pin_batchInv 0 hb
  have h2 : Inv { pin 0 st with nBatch := (pin 0 st).nBatch + 1 } := inv_ghost _ (pin 0 st).tblClosed h1
  have hb2 : BatchInv { pin 0 st with nBatch := (pin 0 st).nBatch + 1 } := by
    constructor
    · exact hb1.viewNodup
    · intro w hw x hx
      have := hb1.srcLe w hw x hx
      dsimp only; omega
  have hbd := build_filter_append (st := { pin 0 st with nBatch := (pin 0 st).nBatch + 1 }) h2 (loopFn_inc _)
    { pid := (pin 0 st).curPid + 1, mem := true, ref := 1, removable := false, closed := false, delCount := 0,
      src := [(pin 0 st).nBatch + 1] } rfl rfl rfl rfl
  have hcp : curParts { pin 0 st with nBatch := (pin 0 st).nBatch + 1 } = curParts (pin 0 st) := rfl
  rw [hcp] at hbd
  have hft : List.filter (fun _ => true) (curParts (pin 0 st)) = curParts (pin 0 st) := by simp
  rw [hft] at hbd
  obtain ⟨_, hlt, _⟩ := curParts_facts h1
  -- rows shown by the next snapshot: the old view plus the new batch
  have hnew : ((curParts (pin 0 st) ++ [(pin 0 st).nP]).flatMap fun w =>
      (upd (applyAll (fun _ p => partIncRef p) (curParts (pin 0 st)) (pin 0 st).P) (pin 0 st).nP
        { pid := (pin 0 st).curPid + 1, mem := true, ref := 1, removable := false, closed := false, delCount := 0,
          src := [(pin 0 st).nBatch + 1] } w).src) = curView st ++ [st.nBatch + 1] := by
    rw [List.flatMap_append]
    simp only [List.flatMap_cons, List.flatMap_nil, upd_same, List.append_nil, pin_nBatch]
    congr 1
    rw [← pin_curView 0 st, curView_eq_curParts]
    apply flatMap_congr_mem
    intro w hw
    have hwl := hlt w hw
    have hne : w ≠ (pin 0 st).nP := Nat.ne_of_lt hwl
    have := hbd.oldSrc w hwl
    rw [upd_ne _ _ hne] at this ⊢
    exact this
  have hbb : BuildB { pin 0 st with nBatch := (pin 0 st).nBatch + 1 }
      (upd (applyAll (fun _ p => partIncRef p) (curParts (pin 0 st)) (pin 0 st).P) (pin 0 st).nP
        { pid := (pin 0 st).curPid + 1, mem := true, ref := 1, removable := false, closed := false, delCount := 0,
          src := [(pin 0 st).nBatch + 1] }) ((pin 0 st).nP + 1) (curParts (pin 0 st) ++ [(pin 0 st).nP]) := by
    constructor
    · rw [hnew]
      apply List.nodup_append.mpr
      refine ⟨?_, by simp, ?_⟩
      · rw [← pin_curView 0 st]
        unfold curView
        cases hc : (pin 0 st).cur with
        | none => exact List.nodup_nil
        | some c => exact hb1.viewNodup c (h1.curLt c hc)
      · intro a ha c hc
        simp at hc; subst hc
        -- every batch already visible has an ordinal ≤ nBatch
        rw [← pin_curView 0 st, curView_eq_curParts] at ha
        obtain ⟨w, hw, hm⟩ := List.mem_flatMap.mp ha
        have := hb1.srcLe w (hlt w hw) a hm
        simp only [pin_nBatch] at this
        omega
    · intro w h1' h2' x hx
      dsimp only at h1' h2' hx ⊢
      have : w = (pin 0 st).nP := by omega
      subst this
      rw [upd_same] at hx
      simp at hx
      subst hx
      simp
  obtain ⟨hb3, hcv3⟩ := publish_batch h2 hb2 hbd hbb
  rw [hnew] at hcv3
  split
  · exact ⟨hb3, hcv3⟩
  · obtain ⟨hb4, hcv4⟩ := unpin_batch 0 (publish_inv h2 hbd) hb3
    exact ⟨hb4, hcv4.trans hcv3⟩

theorem syncOp_batch {st : State} (ids : List Nat) (h : Inv st) (hb : BatchInv st) :
    BatchInv (syncOp ids st) ∧ (curView (syncOp ids st)).Sublist (curView st) := by
  unfold syncOp
  cases hc : st.cur with
  | none => exact ⟨hb, List.Sublist.refl _⟩
  | some c =>
    dsimp only
    simp only [pidOf]
    have h1 : Inv (pin 0 st) := pin_inv 0 h
    have hb1 : BatchInv (pin 0 st) := pin_batchInv 0 hb
    have hbd := build_filter h1 (loopFn_remove (pin 0 st).P fun pid => ids.contains pid)
    obtain ⟨_, hlt, _⟩ := curParts_facts h1
    have hnew : (((curParts (pin 0 st)).filter fun x => !ids.contains (((pin 0 st).P x).pid)).flatMap fun w =>
        (applyAll (fun _ p => if ids.contains p.pid then { p with removable := true } else partIncRef p)
          (curParts (pin 0 st)) (pin 0 st).P w).src)
        = ((curParts (pin 0 st)).filter fun x => !ids.contains (((pin 0 st).P x).pid)).flatMap
            fun w => ((pin 0 st).P w).src := by
      apply flatMap_congr_mem
      intro w hw
      exact hbd.oldSrc w (hlt w (List.mem_filter.mp hw).1)
    have hsub : (((curParts (pin 0 st)).filter fun x => !ids.contains (((pin 0 st).P x).pid)).flatMap
        fun w => ((pin 0 st).P w).src).Sublist (curView st) := by
      rw [← pin_curView 0 st, curView_eq_curParts]
      exact sublist_flatMap_filter _ _ _
    have hcurnd : (curView st).Nodup := by
      unfold curView; rw [hc]; exact hb.viewNodup c (h.curLt c hc)
    have hbb : BuildB (pin 0 st)
        (applyAll (fun _ p => if ids.contains p.pid then { p with removable := true } else partIncRef p)
          (curParts (pin 0 st)) (pin 0 st).P) (pin 0 st).nP
        ((curParts (pin 0 st)).filter fun x => !ids.contains (((pin 0 st).P x).pid)) := by
      constructor
      · rw [hnew]; exact List.Nodup.sublist hsub hcurnd
      · intro w h1' h2'; omega
    obtain ⟨hb3, hcv3⟩ := publish_batch h1 hb1 hbd hbb
    obtain ⟨hb4, hcv4⟩ := unpin_batch 0 (publish_inv h1 hbd) hb3
    refine ⟨hb4, ?_⟩
    rw [hcv4, hcv3, hnew]
    exact hsub

theorem pidOf_eq (st : State) : pidOf st = fun w => (st.P w).pid := rfl

theorem contains_map_filter (f : Nat → Nat) (ids l : List Nat) {x : Nat} (hx : x ∈ l) :
    ((l.filter fun w => ids.contains (f w)).map f).contains (f x) = ids.contains (f x) := by
  cases hc : ids.contains (f x) with
  | true =>
    simp only [List.contains_eq_mem, List.mem_map, List.mem_filter, decide_eq_true_eq]
    exact ⟨x, ⟨hx, by simpa using hc⟩, rfl⟩
  | false =>
    apply Bool.eq_false_iff.mpr
    intro hm
    simp only [List.contains_eq_mem, List.mem_map, List.mem_filter, decide_eq_true_eq] at hm
    obtain ⟨w, ⟨_, hw⟩, he⟩ := hm
    rw [he] at hw
    simp [hw] at hc

theorem mergeOp_batch {st : State} (ids : List Nat) (h : Inv st) (hb : BatchInv st) :
    BatchInv (mergeOp ids st) ∧ (curView (mergeOp ids st)).Perm (curView st) := by
  unfold mergeOp
  cases hc : st.cur with
  | none => exact ⟨hb, List.Perm.refl _⟩
  | some c =>
    dsimp only
    have h1 : Inv (pin 0 st) := pin_inv 0 h
    have hb1 : BatchInv (pin 0 st) := pin_batchInv 0 hb
    split
    · obtain ⟨hb4, hcv4⟩ := unpin_batch 0 h1 hb1
      exact ⟨hb4, by rw [hcv4, pin_curView]⟩
    · have h2 : Inv (pin 0 (pin 0 st)) := pin_inv 0 h1
      have hb2 : BatchInv (pin 0 (pin 0 st)) := pin_batchInv 0 hb1
      have hbd := build_filter_append h2
        (loopFn_remove (pin 0 (pin 0 st)).P fun pid =>
          (((curParts (pin 0 st)).filter fun w => ids.contains (pidOf (pin 0 st) w)).map (pidOf (pin 0 st))).contains pid)
        { pid := (pin 0 st).curPid + 1, mem := false, ref := 1, removable := false, closed := false, delCount := 0,
          src := ((curParts (pin 0 st)).filter fun w => ids.contains (pidOf (pin 0 st) w)).flatMap
            fun x => ((pin 0 st).P x).src } (by simp) rfl rfl rfl
      simp only [curParts_pin, pin_P, pin_nP, pin_curPid, pidOf, pidOf_eq] at hbd ⊢
      obtain ⟨_, hlt, _⟩ := curParts_facts h
      -- on the current parts, "pid is one of the merged inputs' pids" is just "pid was selected"
      have hfilt : ((curParts st).filter fun x =>
            !(((curParts st).filter fun w => ids.contains (st.P w).pid).map fun w => (st.P w).pid).contains (st.P x).pid)
          = (curParts st).filter fun x => !ids.contains (st.P x).pid := by
        apply List.filter_congr
        intro x hx
        rw [contains_map_filter (fun w => (st.P w).pid) ids (curParts st) hx]
      rw [hfilt] at hbd ⊢
      generalize hP1 : applyAll
        (fun x p =>
          if (((curParts st).filter fun w => ids.contains (st.P w).pid).map fun w => (st.P w).pid).contains p.pid = true
          then { p with removable := true } else partIncRef p) (curParts st) st.P = P1 at hbd ⊢
      generalize hfresh : (⟨st.curPid + 1, false, 1, false, false, 0,
          ((curParts st).filter fun w => ids.contains (st.P w).pid).flatMap (fun x => (st.P x).src)⟩ : Part)
        = fresh at hbd ⊢
      have hfsrc : fresh.src = ((curParts st).filter fun w => ids.contains (st.P w).pid).flatMap
          fun x => (st.P x).src := by rw [← hfresh]
      have hnew : ((((curParts st).filter fun x => !ids.contains (st.P x).pid) ++ [st.nP]).flatMap fun w =>
          (upd P1 st.nP fresh w).src)
          = (((curParts st).filter fun x => !ids.contains (st.P x).pid).flatMap fun w => (st.P w).src) ++
            (((curParts st).filter fun w => ids.contains (st.P w).pid).flatMap fun x => (st.P x).src) := by
        rw [List.flatMap_append]
        simp only [List.flatMap_cons, List.flatMap_nil, upd_same, List.append_nil, hfsrc]
        congr 1
        apply flatMap_congr_mem
        intro w hw
        have hwl := hlt w (List.mem_filter.mp hw).1
        have := hbd.oldSrc w (by simpa using hwl)
        simpa using this
      have hperm : ((((curParts st).filter fun x => !ids.contains (st.P x).pid).flatMap fun w => (st.P w).src) ++
            (((curParts st).filter fun w => ids.contains (st.P w).pid).flatMap fun x => (st.P x).src)).Perm
          (curView st) := by
        rw [curView_eq_curParts, ← List.flatMap_append]
        apply List.Perm.flatMap_right
        exact (List.perm_append_comm).trans (List.filter_append_perm (fun w => ids.contains (st.P w).pid) (curParts st))
      have hcurnd : (curView st).Nodup := by
        unfold curView; rw [hc]; exact hb.viewNodup c (h.curLt c hc)
      have hbb : BuildB (pin 0 (pin 0 st)) (upd P1 st.nP fresh) (st.nP + 1)
          (((curParts st).filter fun x => !ids.contains (st.P x).pid) ++ [st.nP]) := by
        constructor
        · rw [hnew]; exact (hperm.nodup_iff).mpr hcurnd
        · intro w h1' h2' x hx
          simp only [pin_nP, pin_nBatch] at h1' h2' ⊢
          have : w = st.nP := by omega
          subst this
          rw [upd_same, hfsrc] at hx
          obtain ⟨w', hw', hm⟩ := List.mem_flatMap.mp hx
          exact hb.srcLe w' (hlt w' (List.mem_filter.mp hw').1) x hm
      obtain ⟨hb3, hcv3⟩ := publish_batch h2 hb2 hbd hbb
      have h3 := publish_inv h2 hbd
      obtain ⟨hb4, hcv4⟩ := unpin_batch 0 h3 hb3
      obtain ⟨hb5, hcv5⟩ := unpin_batch 0 (unpin_inv 0 h3) hb4
      refine ⟨hb5, ?_⟩
      rw [hcv5, hcv4, hcv3, hnew]
      exact hperm

theorem closeOp_batch {st : State} (h : Inv st) (hb : BatchInv st) :
    BatchInv (closeOp st) ∧ curView (closeOp st) = [] := by
  unfold closeOp
  split
  · rename_i hc
    refine ⟨⟨hb.viewNodup, hb.srcLe⟩, ?_⟩
    unfold curView; dsimp only; rw [hc]
  · rename_i c hc
    have hcl := h.curLt c hc
    have hi : Inv' (some c) { st with cur := none, tblClosed := true } := by
      constructor
      · exact h.partRef
      · intro s hs
        dsimp only at hs ⊢
        rw [h.snapRef s hs, hc]
        by_cases hsc : s = c
        · subst hsc; simp; omega
        · have : ¬ c = s := fun e => hsc e.symm
          simp [this]
      · exact h.closedIff
      · exact h.delCnt
      · exact h.deadEmpty
      · exact h.partsLt
      · exact h.pidNodup
      · exact h.pidLe
      · intro c' hc'; cases hc'
      · exact h.holdLt
      · intro s hs; cases hs; exact hcl
    have hb1 : BatchInv { st with cur := none, tblClosed := true } := ⟨hb.viewNodup, hb.srcLe⟩
    refine ⟨snapDecRef_batchInv hi hb1, ?_⟩
    rw [(snapDecRef_views hi).2.1]
    rfl

/-! ### flush -/

theorem flush_lookup {st : State} (h : Inv st) (sel : List Nat)
    (hselsub : ∀ w, w ∈ sel → w ∈ curParts st) (hselpnd : (sel.map fun w => (st.P w).pid).Nodup) :
    ∀ w, w ∈ curParts st →
      (flushMap st sel).lookup (st.P w).pid = if w ∈ sel then some (st.nP + sel.idxOf w) else none := by
  obtain ⟨_, _, hpnd⟩ := curParts_facts h
  intro w hw
  unfold flushMap
  simp only [pidOf]
  by_cases hws : w ∈ sel
  · rw [if_pos hws]
    exact lookup_zipIdx_mem (fun x => (st.P x).pid) sel st.nP hselpnd hws
  · rw [if_neg hws]
    apply lookup_zipIdx_not_mem (fun x => (st.P x).pid)
    intro hm
    obtain ⟨w', hw', he⟩ := List.mem_map.mp hm
    have := inj_of_nodup_map hpnd (hselsub w' hw') hw he
    subst this
    exact hws hw'

/-- the rows shown after `snapshot.merge(flushed)` are exactly the rows shown before: each flushed file part carries
the rows of the mem part whose slot it takes -/
theorem flush_view {st : State} (h : Inv st) (sel : List Nat)
    (hselsub : ∀ w, w ∈ sel → w ∈ curParts st) (hselpnd : (sel.map fun w => (st.P w).pid).Nodup) :
    ((flushParts st (flushMap st sel)).flatMap fun w => (flushStore st sel (flushMap st sel) w).src)
      = (curParts st).flatMap fun w => (st.P w).src := by
  obtain ⟨_, hlt, _⟩ := curParts_facts h
  have hlk := flush_lookup h sel hselsub hselpnd
  unfold flushParts
  rw [List.flatMap_map]
  apply flatMap_congr_mem
  intro w hw
  simp only [pidOf]
  rw [hlk w hw]
  unfold flushStore
  by_cases hws : w ∈ sel
  · have hi : sel.idxOf w < sel.length := List.idxOf_lt_length_of_mem hws
    rw [if_pos hws]
    simp only [Option.getD_some]
    rw [if_pos ⟨by omega, by omega⟩]
    have : st.nP + sel.idxOf w - st.nP = sel.idxOf w := by omega
    rw [this, ← List.getElem_eq_getD (h := hi) 0, List.getElem_idxOf hi]
    rfl
  · have hwl := hlt w hw
    rw [if_neg hws]
    simp only [Option.getD_none]
    rw [if_neg (by omega)]
    unfold applyAll
    dsimp only
    split
    · split
      · rfl
      · rfl
    · rfl

theorem flushOp_batch {st : State} (ids : Option (List Nat)) (h : Inv st) (hb : BatchInv st) :
    BatchInv (flushOp ids st) ∧ curView (flushOp ids st) = curView st := by
  unfold flushOp
  cases hc : st.cur with
  | none => exact ⟨hb, rfl⟩
  | some c =>
    dsimp only
    have h1 : Inv (pin 0 st) := pin_inv 0 h
    have hb1 : BatchInv (pin 0 st) := pin_batchInv 0 hb
    split
    · obtain ⟨hb4, hcv4⟩ := unpin_batch 0 h1 hb1
      exact ⟨hb4, by rw [hcv4, pin_curView]⟩
    · have h2 : Inv (pin 0 (pin 0 st)) := pin_inv 0 h1
      have hb2 : BatchInv (pin 0 (pin 0 st)) := pin_batchInv 0 hb1
      have hbd := flush_build ids h2
      obtain ⟨hnd, hlt, hpnd⟩ := curParts_facts h2
      have hsub : ∀ w, w ∈ flushSel ids (pin 0 (pin 0 st)) → w ∈ curParts (pin 0 (pin 0 st)) :=
        fun w hw => (List.mem_filter.mp hw).1
      have hspnd : ((flushSel ids (pin 0 (pin 0 st))).map fun w => ((pin 0 (pin 0 st)).P w).pid).Nodup :=
        List.Nodup.sublist (List.Sublist.map _ List.filter_sublist) hpnd
      have hview := flush_view h2 (flushSel ids (pin 0 (pin 0 st))) hsub hspnd
      have hcurnd : (curView (pin 0 (pin 0 st))).Nodup := by
        unfold curView
        cases hc2 : (pin 0 (pin 0 st)).cur with
        | none => exact List.nodup_nil
        | some c2 => exact hb2.viewNodup c2 (h2.curLt c2 hc2)
      have hbb : BuildB (pin 0 (pin 0 st))
          (flushStore (pin 0 (pin 0 st)) (flushSel ids (pin 0 (pin 0 st)))
            (flushMap (pin 0 (pin 0 st)) (flushSel ids (pin 0 (pin 0 st)))))
          ((pin 0 (pin 0 st)).nP + (flushSel ids (pin 0 (pin 0 st))).length)
          (flushParts (pin 0 (pin 0 st)) (flushMap (pin 0 (pin 0 st)) (flushSel ids (pin 0 (pin 0 st))))) := by
        constructor
        · rw [hview, ← curView_eq_curParts]; exact hcurnd
        · intro w hw1 hw2 x hx
          unfold flushStore at hx
          rw [if_pos ⟨hw1, hw2⟩] at hx
          have hi : w - (pin 0 (pin 0 st)).nP < (flushSel ids (pin 0 (pin 0 st))).length := by omega
          rw [← List.getElem_eq_getD (h := hi) 0] at hx
          have hmem := hsub _ (List.getElem_mem hi)
          exact hb2.srcLe _ (hlt _ hmem) x hx
      obtain ⟨hb3, hcv3⟩ := publish_batch h2 hb2 hbd hbb
      have h3 := publish_inv h2 hbd
      obtain ⟨hb4, hcv4⟩ := unpin_batch 0 h3 hb3
      obtain ⟨hb5, hcv5⟩ := unpin_batch 0 (unpin_inv 0 h3) hb4
      simp only [flushSel_pin] at hb5 hcv5 hcv4 hcv3 hview ⊢
      refine ⟨hb5, ?_⟩
      rw [hcv5, hcv4, hcv3, hview, ← curView_eq_curParts, pin_curView, pin_curView]

/-! ### every step -/

theorem batchInv_step {st : State} (op : Op) (h : Inv st) (hb : BatchInv st) : BatchInv (step st op) := by
  cases op with
  | batch => simp only [step]; split; exact hb; exact (introducePart_batch h hb).1
  | acquire k => simp only [step]; split; exact hb; exact pin_batchInv _ hb
  | release k => exact (unpin_batch _ h hb).1
  | flush ids => simp only [step]; split; exact hb; exact (flushOp_batch ids h hb).1
  | merge ids => simp only [step]; split; exact hb; exact (mergeOp_batch ids h hb).1
  | syncRemove ids => simp only [step]; split; exact hb; exact (syncOp_batch ids h hb).1
  | close => simp only [step]; split; exact hb; exact (closeOp_batch h hb).1

theorem curView_step_lemma (st : State) (h : Inv st) (hb : BatchInv st) (op : Op) :
    match op with
    | .batch => st.tblClosed = false → curView (step st op) = curView st ++ [st.nBatch + 1]
    | .flush _ => curView (step st op) = curView st
    | .merge _ => (curView (step st op)).Perm (curView st)
    | .syncRemove _ => (curView (step st op)).Sublist (curView st)
    | .acquire _ => curView (step st op) = curView st
    | .release _ => curView (step st op) = curView st
    | .close => st.tblClosed = false → curView (step st op) = [] := by
  cases op with
  | batch => intro hcl; simp only [step, hcl]; exact (introducePart_batch h hb).2
  | acquire k => simp only [step]; split; rfl; exact pin_curView _ _
  | release k => exact (unpin_batch _ h hb).2
  | flush ids => simp only [step]; split; rfl; exact (flushOp_batch ids h hb).2
  | merge ids => simp only [step]; split; exact List.Perm.refl _; exact (mergeOp_batch ids h hb).2
  | syncRemove ids => simp only [step]; split; exact List.Sublist.refl _; exact (syncOp_batch ids h hb).2
  | close => intro hcl; simp only [step, hcl]; exact (closeOp_batch h hb).2

end Banyan.C05
