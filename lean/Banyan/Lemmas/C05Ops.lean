/-
C05: every op of the model preserves the reference-count invariant (`Build` obligations of
copyAllTo / merge / remove discharged, then `publish_inv`, `pin_inv`, `unpin_inv`).
-/
import Banyan.Lemmas.C05Ref

set_option linter.unusedSimpArgs false

namespace Banyan.C05

/-! ### facts about the current snapshot -/

theorem curParts_facts {st : State} (h : Inv st) :
    (curParts st).Nodup ∧ (∀ w ∈ curParts st, w < st.nP) ∧
    ((curParts st).map fun w => (st.P w).pid).Nodup := by
  unfold curParts
  cases hc : st.cur with
  | none => simp
  | some c =>
    have hcl := h.curLt c hc
    exact ⟨h.parts_nodup hcl, h.partsLt c hcl, h.pidNodup c hcl⟩

@[simp] theorem pin_P (k : Nat) (st : State) : (pin k st).P = st.P := by unfold pin; split <;> rfl
@[simp] theorem pin_nP (k : Nat) (st : State) : (pin k st).nP = st.nP := by unfold pin; split <;> rfl
@[simp] theorem pin_nS (k : Nat) (st : State) : (pin k st).nS = st.nS := by unfold pin; split <;> rfl
@[simp] theorem pin_cur (k : Nat) (st : State) : (pin k st).cur = st.cur := by unfold pin; split <;> rfl
@[simp] theorem pin_curPid (k : Nat) (st : State) : (pin k st).curPid = st.curPid := by unfold pin; split <;> rfl
@[simp] theorem pin_nBatch (k : Nat) (st : State) : (pin k st).nBatch = st.nBatch := by unfold pin; split <;> rfl
@[simp] theorem pin_tblClosed (k : Nat) (st : State) : (pin k st).tblClosed = st.tblClosed := by
  unfold pin; split <;> rfl

theorem pin_S_parts (k : Nat) (st : State) (s : Nat) : ((pin k st).S s).parts = (st.S s).parts := by
  unfold pin
  split
  · rfl
  · rename_i c hc
    dsimp only
    by_cases hs : s = c
    · subst hs; simp
    · rw [upd_ne _ _ hs]

@[simp] theorem curParts_pin (k : Nat) (st : State) : curParts (pin k st) = curParts st := by
  unfold curParts
  rw [pin_cur]
  cases st.cur with
  | none => rfl
  | some c => exact pin_S_parts k st c

/-! ### generic `Build` for the copy loops -/

/-- per-part action of a copy loop on store `P`: may set `removable`, bumps the count iff the part is kept -/
structure LoopFn (P : Nat → Part) (keep : Nat → Bool) (g : Nat → Part → Part) : Prop where
  pid : ∀ w, (g w (P w)).pid = (P w).pid
  mem : ∀ w, (g w (P w)).mem = (P w).mem
  closed : ∀ w, (g w (P w)).closed = (P w).closed
  del : ∀ w, (g w (P w)).delCount = (P w).delCount
  src : ∀ w, (g w (P w)).src = (P w).src
  ref : ∀ w, (g w (P w)).ref = (P w).ref + (if keep w then 1 else 0)

theorem loopFn_inc (P : Nat → Part) : LoopFn P (fun _ => true) (fun _ p => partIncRef p) := by
  constructor <;> intros <;> simp [partIncRef]

theorem loopFn_remove (P : Nat → Part) (m : Nat → Bool) :
    LoopFn P (fun x => !m (P x).pid) (fun _ p => if m p.pid then { p with removable := true } else partIncRef p) := by
  constructor <;> intro w <;> cases hm : m (P w).pid <;> simp [partIncRef, hm]

theorem loopFn_merge (P : Nat → Part) (m : Nat → Bool) :
    LoopFn P (fun x => !m (P x).pid) (fun _ p => if m p.pid then p else partIncRef p) := by
  constructor <;> intro w <;> cases hm : m (P w).pid <;> simp [partIncRef, hm]

/-- `remove(...)` / `copyAllTo(...)` with no new part appended (introduceSync) -/
theorem build_filter {st : State} (h : Inv st) {keep : Nat → Bool} {g : Nat → Part → Part} (lf : LoopFn st.P keep g) :
    Build st (applyAll g (curParts st) st.P) st.nP ((curParts st).filter keep) st.curPid := by
  obtain ⟨hnd, hlt, hpnd⟩ := curParts_facts h
  have hP := applyAll_spec g (curParts st) st.P hnd
  constructor
  · exact Nat.le_refl _
  · exact Nat.le_refl _
  · intro w _; rw [hP]; split
    · exact lf.pid _
    · rfl
  · intro w _; rw [hP]; split
    · exact lf.mem _
    · rfl
  · intro w _; rw [hP]; split
    · exact lf.closed _
    · rfl
  · intro w _; rw [hP]; split
    · exact lf.del _
    · rfl
  · intro w _; rw [hP]; split
    · exact lf.src _
    · rfl
  · intro w _; rw [hP]
    by_cases hm : w ∈ curParts st
    · rw [if_pos hm, lf.ref]
      cases hk : keep w <;> simp [List.mem_filter, hm, hk]
    · rw [if_neg hm]; simp [List.mem_filter, hm]
  · intro w _ hne
    rw [hP] at hne
    by_cases hm : w ∈ curParts st
    · exact hm
    · rw [if_neg hm] at hne; exact absurd rfl hne
  · intro w h1 h2; omega
  · intro w hw
    have hm := (List.mem_filter.mp hw).1
    exact ⟨hlt w hm, fun _ => hm⟩
  · have hsub : (((curParts st).filter keep).map fun w => (applyAll g (curParts st) st.P w).pid)
        = ((curParts st).filter keep).map fun w => (st.P w).pid := by
      apply List.map_congr_left
      intro w _; rw [hP]; split
      · exact lf.pid _
      · rfl
    rw [hsub]
    exact List.Nodup.sublist (List.Sublist.map _ List.filter_sublist) hpnd

/-- `copyAllTo` / `remove` followed by `append(next.parts, newPart)` -/
theorem build_filter_append {st : State} (h : Inv st) {keep : Nat → Bool} {g : Nat → Part → Part}
    (lf : LoopFn st.P keep g) (fresh : Part) (hpid : fresh.pid = st.curPid + 1) (href : fresh.ref = 1)
    (hcl : fresh.closed = false) (hdc : fresh.delCount = 0) :
    Build st (upd (applyAll g (curParts st) st.P) st.nP fresh) (st.nP + 1)
      ((curParts st).filter keep ++ [st.nP]) (st.curPid + 1) := by
  have b := build_filter h lf
  obtain ⟨hnd, hlt, hpnd⟩ := curParts_facts h
  have hold : ∀ w, w < st.nP → upd (applyAll g (curParts st) st.P) st.nP fresh w = applyAll g (curParts st) st.P w :=
    fun w hw => upd_ne _ _ (Nat.ne_of_lt hw)
  constructor
  · omega
  · omega
  · intro w hw; rw [hold w hw]; exact b.oldPid w hw
  · intro w hw; rw [hold w hw]; exact b.oldMem w hw
  · intro w hw; rw [hold w hw]; exact b.oldClosed w hw
  · intro w hw; rw [hold w hw]; exact b.oldDel w hw
  · intro w hw; rw [hold w hw]; exact b.oldSrc w hw
  · intro w hw; rw [hold w hw, b.oldRef w hw]
    have : w ≠ st.nP := Nat.ne_of_lt hw
    simp [this]
  · intro w hw; rw [hold w hw]; exact b.oldRm w hw
  · intro w h1 h2
    have : w = st.nP := by omega
    subst this
    rw [upd_same]
    exact ⟨by simp, href, hcl, hdc, by omega⟩
  · intro w hw
    rcases List.mem_append.mp hw with hw | hw
    · have := b.partsOk w hw
      exact ⟨by omega, this.2⟩
    · simp at hw; subst hw; exact ⟨by omega, fun hx => absurd hx (Nat.lt_irrefl _)⟩
  · rw [List.map_append]
    have hsub : (((curParts st).filter keep).map fun w => (upd (applyAll g (curParts st) st.P) st.nP fresh w).pid)
        = ((curParts st).filter keep).map fun w => (applyAll g (curParts st) st.P w).pid := by
      apply List.map_congr_left
      intro w hw
      rw [hold w (b.partsOk w hw).1]
    rw [hsub]
    simp only [List.map_cons, List.map_nil, upd_same, hpid]
    apply List.nodup_append.mpr
    refine ⟨b.pidNd, by simp, ?_⟩
    intro a ha c hc
    simp at hc; subst hc
    obtain ⟨w, hw, rfl⟩ := List.mem_map.mp ha
    have hwlt := (b.partsOk w hw).1
    have := b.oldPid w hwlt
    have := h.pidLe w hwlt
    omega

/-! ### the ops -/

theorem introducePart_inv {st : State} (h : Inv st) : Inv (introducePart st) := by
  unfold introducePart
  dsimp only
  have h1 : Inv (pin 0 st) := pin_inv 0 h
  have h2 : Inv { pin 0 st with nBatch := (pin 0 st).nBatch + 1 } := inv_ghost _ (pin 0 st).tblClosed h1
  have hb := build_filter_append (st := { pin 0 st with nBatch := (pin 0 st).nBatch + 1 }) h2 (loopFn_inc _)
    { pid := (pin 0 st).curPid + 1, mem := true, ref := 1, removable := false, closed := false, delCount := 0,
      src := [(pin 0 st).nBatch + 1] } rfl rfl rfl rfl
  have hcp : curParts { pin 0 st with nBatch := (pin 0 st).nBatch + 1 } = curParts (pin 0 st) := rfl
  rw [hcp] at hb
  have hft : List.filter (fun _ => true) (curParts (pin 0 st)) = curParts (pin 0 st) := by simp
  rw [hft] at hb
  have h3 := publish_inv h2 hb
  split
  · exact h3
  · exact unpin_inv 0 h3

theorem syncOp_inv {st : State} (ids : List Nat) (h : Inv st) : Inv (syncOp ids st) := by
  unfold syncOp
  cases hc : st.cur with
  | none => exact h
  | some c =>
    dsimp only
    have h1 : Inv (pin 0 st) := pin_inv 0 h
    have hb := build_filter h1 (loopFn_remove (pin 0 st).P fun pid => ids.contains pid)
    exact unpin_inv 0 (publish_inv h1 hb)

theorem mergeOp_inv {st : State} (ids : List Nat) (h : Inv st) : Inv (mergeOp ids st) := by
  unfold mergeOp
  cases hc : st.cur with
  | none => exact h
  | some c =>
    dsimp only
    have h1 : Inv (pin 0 st) := pin_inv 0 h
    split
    · exact unpin_inv 0 h1
    · have h2 : Inv (pin 0 (pin 0 st)) := pin_inv 0 h1
      have hb := build_filter_append h2
        (loopFn_remove (pin 0 (pin 0 st)).P fun pid =>
          (((curParts (pin 0 st)).filter fun w => ids.contains (pidOf (pin 0 st) w)).map (pidOf (pin 0 st))).contains pid)
        { pid := (pin 0 st).curPid + 1, mem := false, ref := 1, removable := false, closed := false, delCount := 0,
          src := ((curParts (pin 0 st)).filter fun w => ids.contains (pidOf (pin 0 st) w)).flatMap
            fun x => ((pin 0 st).P x).src } (by simp) rfl rfl rfl
      simp only [curParts_pin, pin_P, pin_nP, pin_curPid, pidOf] at hb ⊢
      exact unpin_inv 0 (unpin_inv 0 (publish_inv h2 hb))

theorem closeOp_inv {st : State} (h : Inv st) : Inv (closeOp st) := by
  unfold closeOp
  split
  · exact inv_ghost st.nBatch true h
  · rename_i c hc
    apply snapDecRef_inv
    have hcl := h.curLt c hc
    constructor
    · exact h.partRef
    · intro s hs
      dsimp only at hs ⊢
      rw [h.snapRef s hs, hc]
      by_cases hsc : s = c
      · subst hsc; simp; omega
      · have : ¬ c = s := fun e => hsc e.symm
        simp [this]
    · exact h.closedIff
    · exact h.delCnt
    · exact h.deadEmpty
    · exact h.partsLt
    · exact h.pidNodup
    · exact h.pidLe
    · intro c' hc'; cases hc'
    · exact h.holdLt
    · intro s hs; cases hs; exact hcl

/-! ### flush: `tst.flush` builds `flushed[pid] = new wrapper`, `snapshot.merge` looks parts up by pid -/

theorem inj_of_nodup_map {f : Nat → Nat} {l : List Nat} (h : (l.map f).Nodup) {a b : Nat}
    (ha : a ∈ l) (hb : b ∈ l) (hab : f a = f b) : a = b := by
  induction l with
  | nil => simp at ha
  | cons x l ih =>
    simp only [List.map_cons, List.nodup_cons] at h
    rcases List.mem_cons.mp ha with rfl | ha'
    · rcases List.mem_cons.mp hb with rfl | hb'
      · rfl
      · exact absurd (List.mem_map.mpr ⟨b, hb', hab.symm⟩) h.1
    · rcases List.mem_cons.mp hb with rfl | hb'
      · exact absurd (List.mem_map.mpr ⟨a, ha', hab⟩) h.1
      · exact ih h.2 ha' hb'

theorem lookup_zipIdx_mem (f : Nat → Nat) (l : List Nat) (n : Nat) (h : (l.map f).Nodup) {a : Nat} (ha : a ∈ l) :
    ((l.zipIdx n).map fun e => (f e.1, e.2)).lookup (f a) = some (n + l.idxOf a) := by
  induction l generalizing n with
  | nil => simp at ha
  | cons x l ih =>
    simp only [List.map_cons, List.nodup_cons] at h
    simp only [List.zipIdx_cons, List.map_cons, List.lookup_cons, List.idxOf_cons]
    by_cases hxa : x = a
    · subst hxa; simp
    · have ha' : a ∈ l := by
        rcases List.mem_cons.mp ha with rfl | h'
        · exact absurd rfl hxa
        · exact h'
      have hne : ¬ f a = f x := by
        intro e
        exact h.1 (List.mem_map.mpr ⟨a, ha', e⟩)
      have hb : (f a == f x) = false := by simp [hne]
      have hb2 : (x == a) = false := by simp [hxa]
      rw [hb, hb2]
      simp only [cond_false]
      rw [ih (n + 1) h.2 ha']
      congr 1; omega

theorem lookup_zipIdx_not_mem (f : Nat → Nat) (l : List Nat) (n : Nat) {v : Nat} (hv : v ∉ l.map f) :
    ((l.zipIdx n).map fun e => (f e.1, e.2)).lookup v = none := by
  induction l generalizing n with
  | nil => simp
  | cons x l ih =>
    simp only [List.map_cons, List.mem_cons, not_or] at hv
    simp only [List.zipIdx_cons, List.map_cons, List.lookup_cons]
    have hb : (v == f x) = false := by simp [hv.1]
    rw [hb]
    exact ih (n + 1) hv.2

@[simp] theorem flushSel_pin (ids : Option (List Nat)) (k : Nat) (st : State) :
    flushSel ids (pin k st) = flushSel ids st := by
  simp [flushSel, pidOf]

theorem flush_build_core {st : State} (h : Inv st) (sel : List Nat) (flushed : List (Nat × Nat)) (P1 : Nat → Part)
    (hselsub : ∀ w, w ∈ sel → w ∈ curParts st) (hselnd : sel.Nodup)
    (hlk : ∀ w, w ∈ curParts st →
      flushed.lookup (st.P w).pid = if w ∈ sel then some (st.nP + sel.idxOf w) else none)
    (oPid : ∀ w, w < st.nP → (P1 w).pid = (st.P w).pid)
    (oMem : ∀ w, w < st.nP → (P1 w).mem = (st.P w).mem)
    (oClosed : ∀ w, w < st.nP → (P1 w).closed = (st.P w).closed)
    (oDel : ∀ w, w < st.nP → (P1 w).delCount = (st.P w).delCount)
    (oSrc : ∀ w, w < st.nP → (P1 w).src = (st.P w).src)
    (oRef : ∀ w, w < st.nP → (P1 w).ref = (st.P w).ref +
      (if w ∈ (curParts st).filter (fun x => !(flushed.lookup (st.P x).pid).isSome) then 1 else 0))
    (oRm0 : ∀ w, w < st.nP → (P1 w).removable ≠ (st.P w).removable → w ∈ curParts st) :
    Build st
      (fun j => if st.nP ≤ j ∧ j < st.nP + sel.length then mkFlushed (st.P (sel.getD (j - st.nP) 0)) else P1 j)
      (st.nP + sel.length) ((curParts st).map fun w => (flushed.lookup (st.P w).pid).getD w) st.curPid := by
  obtain ⟨hnd, hlt, hpnd⟩ := curParts_facts h
  generalize hcp : curParts st = cp at *
  have hkeep : ∀ w, w ∈ cp.filter (fun x => !(flushed.lookup (st.P x).pid).isSome) ↔ (w ∈ cp ∧ w ∉ sel) := by
    intro w
    rw [List.mem_filter]
    constructor
    · rintro ⟨hw, hk⟩
      rw [hlk w hw] at hk
      refine ⟨hw, fun hws => ?_⟩
      simp [hws] at hk
    · rintro ⟨hw, hns⟩
      refine ⟨hw, ?_⟩
      rw [hlk w hw]; simp [hns]
  have hg : ∀ w, w ∈ cp → (flushed.lookup (st.P w).pid).getD w = if w ∈ sel then st.nP + sel.idxOf w else w := by
    intro w hw; rw [hlk w hw]; split <;> rfl
  have hidx : ∀ w, w ∈ sel → sel.idxOf w < sel.length := fun w hw => List.idxOf_lt_length_of_mem hw
  have hold : ∀ w, w < st.nP →
      (if st.nP ≤ w ∧ w < st.nP + sel.length then mkFlushed (st.P (sel.getD (w - st.nP) 0)) else P1 w) = P1 w := by
    intro w hw; rw [if_neg (by omega)]
  have hmemparts : ∀ x, x ∈ cp.map (fun w => (flushed.lookup (st.P w).pid).getD w) ↔
      ((x ∈ cp ∧ x ∉ sel) ∨ ∃ w, w ∈ sel ∧ x = st.nP + sel.idxOf w) := by
    intro x
    rw [List.mem_map]
    constructor
    · rintro ⟨w, hw, rfl⟩
      rw [hg w hw]
      by_cases hws : w ∈ sel
      · rw [if_pos hws]; exact Or.inr ⟨w, hws, rfl⟩
      · rw [if_neg hws]; exact Or.inl ⟨hw, hws⟩
    · rintro (⟨hx, hns⟩ | ⟨w, hws, rfl⟩)
      · exact ⟨x, hx, by rw [hg x hx, if_neg hns]⟩
      · exact ⟨w, hselsub w hws, by rw [hg w (hselsub w hws), if_pos hws]⟩
  constructor
  · omega
  · exact Nat.le_refl _
  · intro w hw; rw [hold w hw]; exact oPid w hw
  · intro w hw; rw [hold w hw]; exact oMem w hw
  · intro w hw; rw [hold w hw]; exact oClosed w hw
  · intro w hw; rw [hold w hw]; exact oDel w hw
  · intro w hw; rw [hold w hw]; exact oSrc w hw
  · intro w hw
    rw [hold w hw, oRef w hw]
    have : (w ∈ cp.filter (fun x => !(flushed.lookup (st.P x).pid).isSome)) ↔
        w ∈ cp.map (fun w => (flushed.lookup (st.P w).pid).getD w) := by
      rw [hkeep, hmemparts]
      constructor
      · intro hh; exact Or.inl hh
      · rintro (hh | ⟨w', hw', he⟩)
        · exact hh
        · omega
    by_cases hm : w ∈ cp.filter (fun x => !(flushed.lookup (st.P x).pid).isSome)
    · rw [if_pos hm, if_pos (this.mp hm)]
    · rw [if_neg hm, if_neg (fun hx => hm (this.mpr hx))]
  · intro w hw hne
    rw [hold w hw] at hne
    exact hcp ▸ oRm0 w hw hne
  · intro j hj1 hj2
    have hi : j - st.nP < sel.length := by omega
    rw [if_pos ⟨hj1, hj2⟩]
    have hgd : sel.getD (j - st.nP) 0 = sel[j - st.nP] := (List.getElem_eq_getD 0).symm
    have hmem : sel[j - st.nP] ∈ sel := List.getElem_mem hi
    refine ⟨?_, rfl, rfl, rfl, ?_⟩
    · rw [hmemparts]
      refine Or.inr ⟨sel[j - st.nP], hmem, ?_⟩
      rw [List.Nodup.idxOf_getElem hselnd]; omega
    · rw [hgd]
      show (st.P sel[j - st.nP]).pid ≤ st.curPid
      exact h.pidLe _ (hlt _ (hselsub _ hmem))
  · intro x hx
    rw [hmemparts] at hx
    rcases hx with ⟨hx, _⟩ | ⟨w, hws, rfl⟩
    · have := hlt x hx
      exact ⟨by omega, fun _ => hcp ▸ hx⟩
    · have := hidx w hws
      exact ⟨by omega, fun hx => by omega⟩
  · rw [List.map_map]
    have : cp.map ((fun w => (if st.nP ≤ w ∧ w < st.nP + sel.length then mkFlushed (st.P (sel.getD (w - st.nP) 0))
          else P1 w).pid) ∘ fun w => (flushed.lookup (st.P w).pid).getD w)
        = cp.map fun w => (st.P w).pid := by
      apply List.map_congr_left
      intro w hw
      simp only [Function.comp]
      rw [hg w hw]
      by_cases hws : w ∈ sel
      · have hi := hidx w hws
        rw [if_pos hws, if_pos ⟨by omega, by omega⟩]
        have : st.nP + sel.idxOf w - st.nP = sel.idxOf w := by omega
        rw [this, ← List.getElem_eq_getD (h := hi) 0, List.getElem_idxOf hi]
        rfl
      · have hwl := hlt w hw
        rw [if_neg hws, if_neg (by omega)]
        exact oPid w hwl
    rw [this]
    exact hpnd

theorem flush_build_aux {st : State} (h : Inv st) (sel : List Nat)
    (hselsub : ∀ w, w ∈ sel → w ∈ curParts st) (hselnd : sel.Nodup)
    (hselpnd : (sel.map fun w => (st.P w).pid).Nodup) :
    Build st (flushStore st sel (flushMap st sel)) (st.nP + sel.length) (flushParts st (flushMap st sel))
      st.curPid := by
  unfold flushStore flushParts flushMap
  simp only [pidOf]
  obtain ⟨hnd, hlt, hpnd⟩ := curParts_facts h
  have hb0 := build_filter h (loopFn_merge st.P fun pid =>
    ((sel.zipIdx st.nP).map fun e => ((st.P e.1).pid, e.2)).lookup pid |>.isSome)
  apply flush_build_core h sel _ _ hselsub hselnd
  · intro w hw
    by_cases hws : w ∈ sel
    · rw [if_pos hws]
      exact lookup_zipIdx_mem (fun x => (st.P x).pid) sel st.nP hselpnd hws
    · rw [if_neg hws]
      apply lookup_zipIdx_not_mem (fun x => (st.P x).pid)
      intro hm
      obtain ⟨w', hw', he⟩ := List.mem_map.mp hm
      have := inj_of_nodup_map hpnd (hselsub w' hw') hw he
      subst this
      exact hws hw'
  · exact hb0.oldPid
  · exact hb0.oldMem
  · exact hb0.oldClosed
  · exact hb0.oldDel
  · exact hb0.oldSrc
  · exact hb0.oldRef
  · exact hb0.oldRm

theorem flush_build {st : State} (ids : Option (List Nat)) (h : Inv st) :
    Build st (flushStore st (flushSel ids st) (flushMap st (flushSel ids st)))
      (st.nP + (flushSel ids st).length) (flushParts st (flushMap st (flushSel ids st))) st.curPid := by
  obtain ⟨hnd, _, hpnd⟩ := curParts_facts h
  apply flush_build_aux h
  · intro w hw; exact (List.mem_filter.mp hw).1
  · exact List.Nodup.sublist List.filter_sublist hnd
  · exact List.Nodup.sublist (List.Sublist.map _ List.filter_sublist) hpnd

theorem flushOp_inv {st : State} (ids : Option (List Nat)) (h : Inv st) : Inv (flushOp ids st) := by
  unfold flushOp
  cases hc : st.cur with
  | none => exact h
  | some c =>
    dsimp only
    have h1 : Inv (pin 0 st) := pin_inv 0 h
    split
    · exact unpin_inv 0 h1
    · have h2 : Inv (pin 0 (pin 0 st)) := pin_inv 0 h1
      have hb := flush_build ids h2
      simp only [flushSel_pin] at hb ⊢
      exact unpin_inv 0 (unpin_inv 0 (publish_inv h2 hb))

end Banyan.C05
