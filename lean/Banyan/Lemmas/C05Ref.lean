/-
Reference-count invariant of the op-level snapshot/part model (C05): definitions and the three primitive
preservation lemmas (`pin`, `snapDecRef`, `publish`).
-/
import Banyan.Model.C05

namespace Banyan.C05

/-! ### store helpers -/

@[simp] theorem upd_same {α : Type} (f : Nat → α) (i : Nat) (v : α) : upd f i v i = v := by simp [upd]

theorem upd_ne {α : Type} (f : Nat → α) {i j : Nat} (v : α) (h : j ≠ i) : upd f i v j = f j := by simp [upd, h]

theorem applyAll_not_mem (f : Nat → Part → Part) (l : List Nat) (P : Nat → Part) (j : Nat) (h : j ∉ l) :
    applyAll f l P j = P j := by
  simp [applyAll, h]

theorem applyAll_spec (f : Nat → Part → Part) (l : List Nat) (P : Nat → Part) (_hnd : l.Nodup) (j : Nat) :
    applyAll f l P j = if j ∈ l then f j (P j) else P j := by
  simp [applyAll]

theorem applyLoop_not_mem (f : Nat → Part → Part) (l : List Nat) (P : Nat → Part) (j : Nat) (h : j ∉ l) :
    applyLoop f l P j = P j := by
  induction l generalizing P with
  | nil => rfl
  | cons w l ih =>
    simp only [List.mem_cons, not_or] at h
    simp only [applyLoop]
    rw [ih _ h.2, upd_ne _ _ h.1]

/-- the sequential loop over a duplicate-free part list has exactly the pointwise effect used by the model -/
theorem applyLoop_eq_applyAll (f : Nat → Part → Part) (l : List Nat) (P : Nat → Part) (hnd : l.Nodup) :
    applyLoop f l P = applyAll f l P := by
  funext j
  rw [applyAll_spec f l P hnd j]
  induction l generalizing P with
  | nil => simp [applyLoop]
  | cons w l ih =>
    have hw : w ∉ l := (List.nodup_cons.mp hnd).1
    have hl : l.Nodup := (List.nodup_cons.mp hnd).2
    simp only [applyLoop]
    by_cases hj : j = w
    · subst hj
      rw [applyLoop_not_mem _ _ _ _ hw]
      simp
    · rw [ih _ hl, upd_ne _ _ hj]
      simp [hj]

/-! ### counting -/

/-- number of snapshots among the first `n` that list wrapper `w` -/
def occN (S : Nat → Snap) (w : Nat) : Nat → Nat
  | 0 => 0
  | n + 1 => occN S w n + (if w ∈ (S n).parts then 1 else 0)

/-- number of holders of snapshot `s` -/
def hcount (h : List (Nat × Nat)) (s : Nat) : Nat := h.countP fun e => e.2 == s

theorem occN_congr {S S' : Nat → Snap} (w n : Nat) (h : ∀ s, s < n → (S' s).parts = (S s).parts) :
    occN S' w n = occN S w n := by
  induction n with
  | zero => rfl
  | succ n ih =>
    simp only [occN]
    rw [ih (fun s hs => h s (Nat.lt_succ_of_lt hs)), h n (Nat.lt_succ_self n)]

theorem occN_upd (S : Nat → Snap) (w : Nat) (v : Snap) {s n : Nat} (hs : s < n) :
    occN (upd S s v) w n + (if w ∈ (S s).parts then 1 else 0) = occN S w n + (if w ∈ v.parts then 1 else 0) := by
  induction n with
  | zero => omega
  | succ n ih =>
    simp only [occN]
    by_cases h : s = n
    · subst h
      have : occN (upd S s v) w s = occN S w s :=
        occN_congr w s (fun t ht => by rw [upd_ne _ _ (Nat.ne_of_lt ht)])
      rw [this, upd_same]
      omega
    · have hlt : s < n := by omega
      have := ih hlt
      rw [upd_ne _ _ (Ne.symm h)]
      omega

theorem occN_pos (S : Nat → Snap) (w : Nat) {s n : Nat} (hs : s < n) (hw : w ∈ (S s).parts) : 1 ≤ occN S w n := by
  induction n with
  | zero => omega
  | succ n ih =>
    simp only [occN]
    by_cases h : s = n
    · subst h; simp [hw]
    · have := ih (by omega); omega

theorem occN_zero (S : Nat → Snap) (w n : Nat) (h : ∀ s, s < n → w ∉ (S s).parts) : occN S w n = 0 := by
  induction n with
  | zero => rfl
  | succ n ih =>
    simp only [occN]
    rw [ih (fun s hs => h s (Nat.lt_succ_of_lt hs))]
    simp [h n (Nat.lt_succ_self n)]

theorem occN_mem_of_pos (S : Nat → Snap) (w n : Nat) (h : 1 ≤ occN S w n) : ∃ s, s < n ∧ w ∈ (S s).parts := by
  induction n with
  | zero => simp [occN] at h
  | succ n ih =>
    simp only [occN] at h
    by_cases hw : w ∈ (S n).parts
    · exact ⟨n, Nat.lt_succ_self n, hw⟩
    · simp [hw] at h
      obtain ⟨s, hs, hm⟩ := ih h
      exact ⟨s, Nat.lt_succ_of_lt hs, hm⟩

theorem hcount_cons (e : Nat × Nat) (h : List (Nat × Nat)) (s : Nat) :
    hcount (e :: h) s = hcount h s + (if e.2 = s then 1 else 0) := by
  simp [hcount, List.countP_cons]

theorem hcount_zero_of_lt (h : List (Nat × Nat)) (n : Nat) (hl : ∀ e ∈ h, e.2 < n) : hcount h n = 0 := by
  simp only [hcount, List.countP_eq_zero]
  intro e he
  have := hl e he
  simp; omega

theorem hcount_pos_of_mem (h : List (Nat × Nat)) (e : Nat × Nat) (he : e ∈ h) : 1 ≤ hcount h e.2 := by
  simp only [hcount]
  exact List.countP_pos_iff.mpr ⟨e, he, by simp⟩

theorem findHolder_mem {k s : Nat} {h : List (Nat × Nat)} (hf : findHolder k h = some s) : (k, s) ∈ h := by
  induction h with
  | nil => simp [findHolder] at hf
  | cons e h ih =>
    simp only [findHolder] at hf
    by_cases hk : e.1 = k
    · simp [hk] at hf
      have : e = (k, s) := by cases e; simp_all
      simp [this]
    · simp [hk] at hf
      exact List.mem_cons_of_mem _ (ih hf)

theorem hcount_erase {k s : Nat} {h : List (Nat × Nat)} (hf : findHolder k h = some s) (t : Nat) :
    hcount h t = hcount (eraseHolder k h) t + (if t = s then 1 else 0) := by
  induction h with
  | nil => simp [findHolder] at hf
  | cons e h ih =>
    simp only [findHolder] at hf
    by_cases hk : e.1 = k
    · simp [hk] at hf
      simp only [eraseHolder, hk, if_true, hcount_cons, hf]
      by_cases hts : t = s
      · simp [hts]
      · have : ¬ s = t := fun e => hts e.symm
        simp [hts, this]
    · simp [hk] at hf
      simp only [eraseHolder, hk, if_false, hcount_cons]
      have := ih hf
      omega

theorem eraseHolder_subset (k : Nat) (h : List (Nat × Nat)) : ∀ e ∈ eraseHolder k h, e ∈ h := by
  induction h with
  | nil => simp [eraseHolder]
  | cons a h ih =>
    intro e he
    simp only [eraseHolder] at he
    by_cases hk : a.1 = k
    · simp [hk] at he; exact List.mem_cons_of_mem _ he
    · simp [hk] at he
      rcases he with he | he
      · simp [he]
      · exact List.mem_cons_of_mem _ (ih e he)

theorem eraseHolder_keeps (k : Nat) (h : List (Nat × Nat)) (e : Nat × Nat) (he : e ∈ h) (hk : e.1 ≠ k) :
    e ∈ eraseHolder k h := by
  induction h with
  | nil => simp at he
  | cons a h ih =>
    simp only [eraseHolder]
    by_cases ha : a.1 = k
    · simp only [ha, if_true]
      rcases List.mem_cons.mp he with rfl | he'
      · exact absurd ha hk
      · exact he'
    · simp only [ha, if_false]
      rcases List.mem_cons.mp he with rfl | he'
      · simp
      · exact List.mem_cons_of_mem _ (ih he')

/-! ### the invariant -/

/-- `Inv' x`: the reference-count invariant, where `x = some s` records one extra, not yet released reference to
snapshot `s` that is neither the table's nor a holder's (the old current inside `replaceSnapshot` / an erased
holder just before its `decRef`). `Inv = Inv' none`. -/
structure Inv' (x : Option Nat) (st : State) : Prop where
  /-- (i) part.ref = number of live snapshots containing it (dead snapshots have an empty list) -/
  partRef : ∀ w, w < st.nP → (st.P w).ref = occN st.S w st.nS
  /-- (ii) snap.ref = [snap = current] + number of holders -/
  snapRef : ∀ s, s < st.nS →
    (st.S s).ref = (if st.cur = some s then 1 else 0) + hcount st.holders s + (if x = some s then 1 else 0)
  closedIff : ∀ w, w < st.nP → ((st.P w).closed = true ↔ (st.P w).ref ≤ 0)
  /-- (iii) deleted exactly when closed ∧ removable ∧ file; never more than once -/
  delCnt : ∀ w, w < st.nP →
    (st.P w).delCount = if (st.P w).closed = true ∧ (st.P w).removable = true ∧ (st.P w).mem = false then 1 else 0
  deadEmpty : ∀ s, s < st.nS → (st.S s).ref ≤ 0 → (st.S s).parts = []
  partsLt : ∀ s, s < st.nS → ∀ w ∈ (st.S s).parts, w < st.nP
  pidNodup : ∀ s, s < st.nS → ((st.S s).parts.map fun w => (st.P w).pid).Nodup
  pidLe : ∀ w, w < st.nP → (st.P w).pid ≤ st.curPid
  curLt : ∀ c, st.cur = some c → c < st.nS
  holdLt : ∀ e ∈ st.holders, e.2 < st.nS
  xLt : ∀ s, x = some s → s < st.nS

abbrev Inv (st : State) : Prop := Inv' none st

theorem inv_init : Inv init := by
  constructor <;> simp [init]

theorem nodup_of_map {α β : Type} (f : α → β) (l : List α) (h : (l.map f).Nodup) : l.Nodup := by
  induction l with
  | nil => exact List.nodup_nil
  | cons a l ih =>
    simp only [List.map_cons, List.nodup_cons] at h ⊢
    exact ⟨fun hm => h.1 (List.mem_map.mpr ⟨a, hm, rfl⟩), ih h.2⟩

theorem Inv'.parts_nodup {x : Option Nat} {st : State} (h : Inv' x st) {s : Nat} (hs : s < st.nS) :
    (st.S s).parts.Nodup := nodup_of_map _ _ (h.pidNodup s hs)

/-- a wrapper listed by an allocated snapshot is referenced, hence open and not deleted -/
theorem Inv'.listed_alive {x : Option Nat} {st : State} (h : Inv' x st) {s w : Nat} (hs : s < st.nS)
    (hw : w ∈ (st.S s).parts) :
    1 ≤ (st.P w).ref ∧ (st.P w).closed = false ∧ (st.P w).delCount = 0 := by
  have hwlt := h.partsLt s hs w hw
  have hpos := occN_pos st.S w hs hw
  have hr := h.partRef w hwlt
  have hc : (st.P w).closed = false := by
    cases hcl : (st.P w).closed with
    | false => rfl
    | true => have := (h.closedIff w hwlt).mp hcl; omega
  refine ⟨by omega, hc, ?_⟩
  rw [h.delCnt w hwlt]; simp [hc]

/-! ### pin -/

theorem pin_inv {x : Option Nat} {st : State} (k : Nat) (h : Inv' x st) : Inv' x (pin k st) := by
  unfold pin
  cases hc : st.cur with
  | none => simpa [hc] using h
  | some c =>
    have hclt := h.curLt c hc
    have hparts : ∀ s, (upd st.S c { st.S c with ref := (st.S c).ref + 1 } s).parts = (st.S s).parts := by
      intro s; by_cases hs : s = c
      · subst hs; simp
      · rw [upd_ne _ _ hs]
    have href : ∀ s, (upd st.S c { st.S c with ref := (st.S c).ref + 1 } s).ref
        = (st.S s).ref + (if s = c then 1 else 0) := by
      intro s; by_cases hs : s = c
      · subst hs; simp
      · rw [upd_ne _ _ hs]; simp [hs]
    constructor
    · intro w hw
      dsimp only at hw ⊢
      rw [occN_congr w st.nS (fun s _ => hparts s)]
      exact h.partRef w hw
    · intro s hs
      dsimp only at hs ⊢
      rw [href s, hcount_cons, h.snapRef s hs, hc]
      by_cases hsc : s = c
      · subst hsc; simp; omega
      · have hne : ¬ (c = s) := fun e => hsc e.symm
        simp [hsc, hne]
    · exact h.closedIff
    · exact h.delCnt
    · intro s hs hr
      dsimp only at hs hr ⊢
      rw [hparts s]
      rw [href s] at hr
      exact h.deadEmpty s hs (by split at hr <;> omega)
    · intro s hs w hw
      dsimp only at hs hw ⊢
      rw [hparts s] at hw
      exact h.partsLt s hs w hw
    · intro s hs
      dsimp only at hs ⊢
      rw [hparts s]
      exact h.pidNodup s hs
    · exact h.pidLe
    · intro c' hc'
      dsimp only at hc' ⊢
      cases hc'; exact hclt
    · intro e he
      dsimp only at he ⊢
      rcases List.mem_cons.mp he with rfl | he'
      · exact hclt
      · exact h.holdLt e he'
    · exact h.xLt

/-! ### dropping a holder entry, `snapshot.decRef` -/

theorem erase_inv {st : State} {k s : Nat} (h : Inv st) (hf : findHolder k st.holders = some s) :
    Inv' (some s) { st with holders := eraseHolder k st.holders } := by
  have hmem := findHolder_mem hf
  constructor
  · exact h.partRef
  · intro t ht
    dsimp only at ht ⊢
    rw [h.snapRef t ht, hcount_erase hf t]
    by_cases hts : t = s
    · subst hts; simp; omega
    · have : ¬ s = t := fun e => hts e.symm
      simp [hts, this]
  · exact h.closedIff
  · exact h.delCnt
  · exact h.deadEmpty
  · exact h.partsLt
  · exact h.pidNodup
  · exact h.pidLe
  · exact h.curLt
  · intro e he
    exact h.holdLt e (eraseHolder_subset k _ e he)
  · intro t ht
    cases ht
    exact h.holdLt (k, s) hmem

theorem partDecRef_pid (p : Part) : (partDecRef p).pid = p.pid := by
  unfold partDecRef; dsimp only; split
  · rfl
  · split <;> rfl

theorem partDecRef_mem (p : Part) : (partDecRef p).mem = p.mem := by
  unfold partDecRef; dsimp only; split
  · rfl
  · split <;> rfl

theorem partDecRef_src (p : Part) : (partDecRef p).src = p.src := by
  unfold partDecRef; dsimp only; split
  · rfl
  · split <;> rfl

theorem partDecRef_removable (p : Part) : (partDecRef p).removable = p.removable := by
  unfold partDecRef; dsimp only; split
  · rfl
  · split <;> rfl

theorem partDecRef_ref (p : Part) : (partDecRef p).ref = p.ref - 1 := by
  unfold partDecRef; dsimp only; split
  · rfl
  · split <;> rfl

theorem snapDecRef_inv {st : State} {s : Nat} (h : Inv' (some s) st) : Inv (snapDecRef s st) := by
  have hs : s < st.nS := h.xLt s rfl
  have hr := h.snapRef s hs
  simp only [if_true] at hr
  have hcnn : (0 : Int) ≤ (if st.cur = some s then 1 else 0) := by split <;> omega
  unfold snapDecRef
  dsimp only
  by_cases hn : (st.S s).ref - 1 > 0
  · -- still referenced
    rw [if_pos hn]
    have hparts : ∀ t, (upd st.S s { st.S s with ref := (st.S s).ref - 1 } t).parts = (st.S t).parts := by
      intro t; by_cases ht : t = s
      · subst ht; simp
      · rw [upd_ne _ _ ht]
    have href : ∀ t, (upd st.S s { st.S s with ref := (st.S s).ref - 1 } t).ref
        = (st.S t).ref - (if t = s then 1 else 0) := by
      intro t; by_cases ht : t = s
      · subst ht; simp
      · rw [upd_ne _ _ ht]; simp [ht]
    constructor
    · intro w hw
      dsimp only at hw ⊢
      rw [occN_congr w st.nS (fun t _ => hparts t)]
      exact h.partRef w hw
    · intro t ht
      dsimp only at ht ⊢
      rw [href t, h.snapRef t ht]
      by_cases hts : t = s
      · subst hts; simp
      · have : ¬ s = t := fun e => hts e.symm
        simp [hts, this]
    · exact h.closedIff
    · exact h.delCnt
    · intro t ht hrt
      dsimp only at ht hrt ⊢
      rw [hparts t]
      rw [href t] at hrt
      by_cases hts : t = s
      · subst hts; simp at hrt; omega
      · simp [hts] at hrt
        exact h.deadEmpty t ht hrt
    · intro t ht w hw
      dsimp only at ht hw ⊢
      rw [hparts t] at hw
      exact h.partsLt t ht w hw
    · intro t ht
      dsimp only at ht ⊢
      rw [hparts t]
      exact h.pidNodup t ht
    · exact h.pidLe
    · exact h.curLt
    · exact h.holdLt
    · intro t ht; cases ht
  · -- last reference: release every part
    rw [if_neg hn]
    have hcur : st.cur ≠ some s := by
      intro hc; rw [if_pos hc] at hr; omega
    have hh0 : hcount st.holders s = 0 := by
      rw [if_neg hcur] at hr; omega
    have href0 : (st.S s).ref - 1 = 0 := by rw [if_neg hcur] at hr; omega
    have hnd := h.parts_nodup hs
    have hP : ∀ w, applyAll (fun _ p => partDecRef p) (st.S s).parts st.P w
        = if w ∈ (st.S s).parts then partDecRef (st.P w) else st.P w := applyAll_spec _ _ _ hnd
    have hSne : ∀ t, t ≠ s → upd st.S s { st.S s with ref := (st.S s).ref - 1, parts := [] } t = st.S t :=
      fun t ht => upd_ne _ _ ht
    have hpid : ∀ w, (applyAll (fun _ p => partDecRef p) (st.S s).parts st.P w).pid = (st.P w).pid := by
      intro w; rw [hP]; split
      · exact partDecRef_pid _
      · rfl
    constructor
    · intro w hw
      dsimp only at hw ⊢
      have hocc := occN_upd st.S w { st.S s with ref := (st.S s).ref - 1, parts := [] } hs
      have hold := h.partRef w hw
      rw [hP]
      by_cases hm : w ∈ (st.S s).parts
      · rw [if_pos hm, partDecRef_ref, hold]
        simp [hm] at hocc
        omega
      · rw [if_neg hm, hold]
        simp [hm] at hocc
        omega
    · intro t ht
      dsimp only at ht ⊢
      by_cases hts : t = s
      · subst hts
        rw [upd_same]; dsimp only
        simp [hcur, hh0, href0]
      · rw [hSne t hts, h.snapRef t ht]
        have : ¬ s = t := fun e => hts e.symm
        simp [this]
    · intro w hw
      dsimp only at hw ⊢
      rw [hP]
      by_cases hm : w ∈ (st.S s).parts
      · rw [if_pos hm]
        obtain ⟨hpos, hcl, _⟩ := h.listed_alive hs hm
        unfold partDecRef; dsimp only
        by_cases hn1 : (st.P w).ref - 1 > 0
        · rw [if_pos hn1]; dsimp only; rw [hcl]; constructor
          · intro hx; cases hx
          · intro hx; omega
        · rw [if_neg hn1]
          split <;> (dsimp only; constructor <;> intro _ <;> first | rfl | omega)
      · rw [if_neg hm]; exact h.closedIff w hw
    · intro w hw
      dsimp only at hw ⊢
      have hPw := hP w
      by_cases hm : w ∈ (st.S s).parts
      · rw [if_pos hm] at hPw
        simp only [hPw]
        obtain ⟨hpos, hcl, hdc⟩ := h.listed_alive hs hm
        unfold partDecRef; dsimp only
        by_cases hn1 : (st.P w).ref - 1 > 0
        · simp only [if_pos hn1, hdc, hcl]; simp
        · simp only [if_neg hn1]
          cases hmem : (st.P w).mem with
          | true => simp [hdc]
          | false =>
            cases hrm : (st.P w).removable <;> simp [hdc]
      · rw [if_neg hm] at hPw
        simp only [hPw]; exact h.delCnt w hw
    · intro t ht hrt
      dsimp only at ht hrt ⊢
      by_cases hts : t = s
      · subst hts; rw [upd_same]
      · rw [hSne t hts] at hrt ⊢
        exact h.deadEmpty t ht hrt
    · intro t ht w hw
      dsimp only at ht hw ⊢
      by_cases hts : t = s
      · subst hts; rw [upd_same] at hw; simp at hw
      · rw [hSne t hts] at hw
        exact h.partsLt t ht w hw
    · intro t ht
      dsimp only at ht ⊢
      by_cases hts : t = s
      · subst hts; rw [upd_same]; simp
      · rw [hSne t hts]
        have : (fun w => (applyAll (fun _ p => partDecRef p) (st.S s).parts st.P w).pid) = fun w => (st.P w).pid :=
          funext hpid
        rw [this]
        exact h.pidNodup t ht
    · intro w hw
      dsimp only at hw ⊢
      rw [hpid]; exact h.pidLe w hw
    · exact h.curLt
    · exact h.holdLt
    · intro t ht; cases ht

theorem unpin_inv {st : State} (k : Nat) (h : Inv st) : Inv (unpin k st) := by
  unfold unpin
  cases hf : findHolder k st.holders with
  | none => exact h
  | some s => exact snapDecRef_inv (erase_inv h hf)

/-! ### build-and-publish -/

/-- What `copyAllTo / merge / remove` (+ appended new parts) must establish about the wrapper store `P'`
and the next part list for `publish` to keep the invariant. -/
structure Build (st : State) (P' : Nat → Part) (nP' : Nat) (parts : List Nat) (curPid' : Nat) : Prop where
  nPle : st.nP ≤ nP'
  curPidLe : st.curPid ≤ curPid'
  oldPid : ∀ w, w < st.nP → (P' w).pid = (st.P w).pid
  oldMem : ∀ w, w < st.nP → (P' w).mem = (st.P w).mem
  oldClosed : ∀ w, w < st.nP → (P' w).closed = (st.P w).closed
  oldDel : ∀ w, w < st.nP → (P' w).delCount = (st.P w).delCount
  oldSrc : ∀ w, w < st.nP → (P' w).src = (st.P w).src
  /-- kept parts are incRef'ed exactly once, nothing else changes a count -/
  oldRef : ∀ w, w < st.nP → (P' w).ref = (st.P w).ref + (if w ∈ parts then 1 else 0)
  /-- `removable` is only ever set on parts of the current snapshot -/
  oldRm : ∀ w, w < st.nP → (P' w).removable ≠ (st.P w).removable → w ∈ curParts st
  /-- new wrappers come with ref 1 and are listed by the next snapshot -/
  fresh : ∀ w, st.nP ≤ w → w < nP' →
    w ∈ parts ∧ (P' w).ref = 1 ∧ (P' w).closed = false ∧ (P' w).delCount = 0 ∧ (P' w).pid ≤ curPid'
  partsOk : ∀ w, w ∈ parts → w < nP' ∧ (w < st.nP → w ∈ curParts st)
  pidNd : (parts.map fun w => (P' w).pid).Nodup

theorem curParts_alive {st : State} (h : Inv st) {w : Nat} (hw : w ∈ curParts st) :
    1 ≤ (st.P w).ref ∧ (st.P w).closed = false ∧ (st.P w).delCount = 0 := by
  unfold curParts at hw
  cases hc : st.cur with
  | none => simp [hc] at hw
  | some c =>
    simp only [hc] at hw
    exact h.listed_alive (h.curLt c hc) hw

/-- allocation of the next snapshot + `tst.snapshot = next`; the old current keeps one pending reference -/
theorem install_inv {st : State} {P' : Nat → Part} {nP' : Nat} {parts : List Nat} {curPid' : Nat}
    (h : Inv st) (b : Build st P' nP' parts curPid') :
    Inv' st.cur
      { st with P := P', nP := nP', curPid := curPid',
                S := upd st.S st.nS { epoch := st.epoch, parts := parts, ref := 1 },
                nS := st.nS + 1, cur := some st.nS, epoch := st.epoch + 1 } := by
  have hSold : ∀ t, t < st.nS → upd st.S st.nS { epoch := st.epoch, parts := parts, ref := 1 } t = st.S t :=
    fun t ht => upd_ne _ _ (Nat.ne_of_lt ht)
  have hSnew : upd st.S st.nS { epoch := st.epoch, parts := parts, ref := 1 } st.nS
      = { epoch := st.epoch, parts := parts, ref := 1 } := upd_same _ _ _
  constructor
  · intro w hw
    dsimp only at hw ⊢
    simp only [occN, hSnew]
    rw [occN_congr (S := st.S) w st.nS (fun t ht => by rw [hSold t ht])]
    by_cases hwo : w < st.nP
    · rw [b.oldRef w hwo, h.partRef w hwo]
      split <;> simp
    · obtain ⟨hin, hr1, _⟩ := b.fresh w (by omega) hw
      rw [hr1, occN_zero st.S w st.nS (fun t ht hm => hwo (h.partsLt t ht w hm))]
      simp [hin]
  · intro t ht
    dsimp only at ht ⊢
    by_cases htn : t = st.nS
    · subst htn
      rw [hSnew]; dsimp only
      have h0 := hcount_zero_of_lt st.holders st.nS h.holdLt
      have hc : ¬ st.cur = some st.nS := fun e => Nat.lt_irrefl _ (h.curLt _ e)
      simp [h0, hc]
    · have htl : t < st.nS := by omega
      rw [hSold t htl, h.snapRef t htl]
      have : ¬ st.nS = t := fun e => htn e.symm
      simp [this]
      omega
  · intro w hw
    dsimp only at hw ⊢
    by_cases hwo : w < st.nP
    · rw [b.oldClosed w hwo, b.oldRef w hwo]
      by_cases hin : w ∈ parts
      · obtain ⟨hpos, hcl, _⟩ := curParts_alive h ((b.partsOk w hin).2 hwo)
        rw [hcl]; simp [hin]; omega
      · simp [hin]; exact h.closedIff w hwo
    · obtain ⟨_, hr1, hcl, _⟩ := b.fresh w (by omega) hw
      rw [hr1, hcl]; simp
  · intro w hw
    dsimp only at hw ⊢
    by_cases hwo : w < st.nP
    · by_cases hrm : (P' w).removable = (st.P w).removable
      · simp only [b.oldDel w hwo, b.oldClosed w hwo, b.oldMem w hwo, hrm]
        exact h.delCnt w hwo
      · obtain ⟨_, hcl, hdc⟩ := curParts_alive h (b.oldRm w hwo hrm)
        simp only [b.oldDel w hwo, b.oldClosed w hwo, hdc, hcl]
        simp
    · obtain ⟨_, _, hcl, hdc, _⟩ := b.fresh w (by omega) hw
      simp only [hdc, hcl]; simp
  · intro t ht hr
    dsimp only at ht hr ⊢
    by_cases htn : t = st.nS
    · subst htn; rw [hSnew] at hr; dsimp only at hr; omega
    · have htl : t < st.nS := by omega
      rw [hSold t htl] at hr ⊢
      exact h.deadEmpty t htl hr
  · intro t ht w hw
    dsimp only at ht hw ⊢
    by_cases htn : t = st.nS
    · subst htn; rw [hSnew] at hw; exact (b.partsOk w hw).1
    · have htl : t < st.nS := by omega
      rw [hSold t htl] at hw
      have := h.partsLt t htl w hw
      have := b.nPle
      omega
  · intro t ht
    dsimp only at ht ⊢
    by_cases htn : t = st.nS
    · subst htn; rw [hSnew]; exact b.pidNd
    · have htl : t < st.nS := by omega
      rw [hSold t htl]
      have : (st.S t).parts.map (fun w => (P' w).pid) = (st.S t).parts.map (fun w => (st.P w).pid) :=
        List.map_congr_left (fun w hw => b.oldPid w (h.partsLt t htl w hw))
      rw [this]
      exact h.pidNodup t htl
  · intro w hw
    dsimp only at hw ⊢
    by_cases hwo : w < st.nP
    · rw [b.oldPid w hwo]
      have := h.pidLe w hwo
      have := b.curPidLe
      omega
    · exact (b.fresh w (by omega) hw).2.2.2.2
  · intro c hc
    dsimp only at hc ⊢
    cases hc; omega
  · intro e he
    have := h.holdLt e he
    dsimp only; omega
  · intro t ht
    have := h.curLt t ht
    dsimp only; omega

theorem publish_inv {st : State} {P' : Nat → Part} {nP' : Nat} {parts : List Nat} {curPid' : Nat}
    (h : Inv st) (b : Build st P' nP' parts curPid') : Inv (publish st P' nP' parts curPid') := by
  have hi := install_inv h b
  unfold publish
  dsimp only
  cases hc : st.cur with
  | none => rw [hc] at hi; exact hi
  | some c => rw [hc] at hi; exact snapDecRef_inv hi

/-- ghost / flag fields do not matter -/
theorem inv_ghost {x : Option Nat} {st : State} (n : Nat) (b : Bool) (h : Inv' x st) :
    Inv' x { st with nBatch := n, tblClosed := b } := by
  constructor
  · exact h.partRef
  · exact h.snapRef
  · exact h.closedIff
  · exact h.delCnt
  · exact h.deadEmpty
  · exact h.partsLt
  · exact h.pidNodup
  · exact h.pidLe
  · exact h.curLt
  · exact h.holdLt
  · exact h.xLt

end Banyan.C05
