/-
C05: reference accounting of banyand/internal/snapshot's Transition / Transaction (model `Banyan.C05.Txn`).

`Acct nM w ts R`: every snapshot's count is exactly
  (number of managers `< nM` whose current snapshot it is) + (pins held by the transitions `ts`) + `R`
where `R` is an arbitrary frame (other transactions, readers, …).  Each primitive keeps this shape, for any frame.
-/
import Banyan.Model.C05

set_option linter.unusedSimpArgs false

namespace Banyan.C05.Txn

/-- managers (among the first `n`) whose current snapshot is `s` -/
def mcountN (cur : Nat → Option Nat) (s : Nat) : Nat → Nat
  | 0 => 0
  | n + 1 => mcountN cur s n + (if cur n = some s then 1 else 0)

/-- references a transition still owes back: the pin on `current` taken by `NewTransition`, plus the initial
reference of the prepared `next` while it has not been handed to the manager. -/
def pins (t : Transition) (s : Nat) : Nat :=
  if t.rolledBack then 0
  else (if t.current = some s then 1 else 0) + (if t.committed then 0 else if t.next = some s then 1 else 0)

def pinsL (ts : List Transition) (s : Nat) : Nat := (ts.map fun t => pins t s).sum

structure Acct (nM : Nat) (w : World) (ts : List Transition) (R : Nat → Int) : Prop where
  ref : ∀ s, w.ref s = mcountN w.cur s nM + pinsL ts s + R s
  curLt : ∀ m s, w.cur m = some s → s < w.nSnap
  /-- nothing outside the transitions at hand refers to snapshots that do not exist yet -/
  frameFresh : ∀ s, w.nSnap ≤ s → R s = 0 ∧ w.ref s = 0

theorem mcountN_congr {cur cur' : Nat → Option Nat} (s n : Nat) (h : ∀ m, m < n → cur' m = cur m) :
    mcountN cur' s n = mcountN cur s n := by
  induction n with
  | zero => rfl
  | succ n ih =>
    simp only [mcountN]
    rw [ih (fun m hm => h m (Nat.lt_succ_of_lt hm)), h n (Nat.lt_succ_self n)]

theorem mcountN_upd (cur : Nat → Option Nat) (s : Nat) (v : Option Nat) {m n : Nat} (hm : m < n) :
    mcountN (fun j => if j = m then v else cur j) s n + (if cur m = some s then 1 else 0)
      = mcountN cur s n + (if v = some s then 1 else 0) := by
  induction n with
  | zero => omega
  | succ n ih =>
    simp only [mcountN]
    by_cases h : m = n
    · subst h
      have : mcountN (fun j => if j = m then v else cur j) s m = mcountN cur s m :=
        mcountN_congr s m (fun j hj => by simp [Nat.ne_of_lt hj])
      rw [this]
      simp only [if_true]
      omega
    · have hlt : m < n := by omega
      have := ih hlt
      have hne : ¬ n = m := fun e => h e.symm
      simp only [hne, if_false]
      omega

theorem mcountN_zero_of_fresh (cur : Nat → Option Nat) (s n : Nat) (h : ∀ m, cur m ≠ some s) :
    mcountN cur s n = 0 := by
  induction n with
  | zero => rfl
  | succ n ih => simp [mcountN, ih, h n]

@[simp] theorem pinsL_nil (s : Nat) : pinsL [] s = 0 := rfl

@[simp] theorem pinsL_cons (t : Transition) (ts : List Transition) (s : Nat) :
    pinsL (t :: ts) s = pins t s + pinsL ts s := by
  simp [pinsL]

theorem pinsL_append (a b : List Transition) (s : Nat) : pinsL (a ++ b) s = pinsL a s + pinsL b s := by
  simp [pinsL]

theorem sum_eq_zero_of (l : List Nat) (h : ∀ x, x ∈ l → x = 0) : l.sum = 0 := by
  induction l with
  | nil => rfl
  | cons a l ih =>
    simp only [List.sum_cons]
    rw [h a (by simp), ih (fun x hx => h x (List.mem_cons_of_mem _ hx))]

/-! ### primitives, each for an arbitrary frame -/

/-- `NewTransition`: pins `current`, prepares `next` with its initial reference -/
theorem acct_newTransition {nM : Nat} {w : World} {ts : List Transition} {R : Nat → Int} (m : Nat) (mkNil : Bool)
    (h : Acct nM w ts R) (hts : ∀ t ∈ ts, ∀ s, pins t s ≠ 0 → s < w.nSnap) :
    Acct nM (newTransition w m mkNil).1 (ts ++ [(newTransition w m mkNil).2]) R ∧
    (newTransition w m mkNil).1.cur = w.cur ∧ w.nSnap ≤ (newTransition w m mkNil).1.nSnap ∧
    (∀ s, pins (newTransition w m mkNil).2 s ≠ 0 → s < (newTransition w m mkNil).1.nSnap) := by
  unfold newTransition currentSnapshot
  cases hc : w.cur m with
  | none =>
    cases mkNil with
    | true =>
      simp only [if_true]
      refine ⟨⟨?_, h.curLt, h.frameFresh⟩, by simp, Nat.le_refl _, ?_⟩
      · intro s
        rw [pinsL_append, pinsL_cons, pinsL_nil, h.ref s]
        simp [pins]
      · intro s hs; simp [pins] at hs
    | false =>
      simp only [Bool.false_eq_true, if_false]
      refine ⟨⟨?_, ?_, ?_⟩, by simp [incRef], Nat.le_succ _, ?_⟩
      · intro s
        dsimp only
        rw [pinsL_append, pinsL_cons, pinsL_nil]
        by_cases hs : s = w.nSnap
        · subst hs
          have hfr := h.frameFresh w.nSnap (Nat.le_refl _)
          have hm0 : mcountN w.cur w.nSnap nM = 0 :=
            mcountN_zero_of_fresh _ _ _ (fun m' e => Nat.lt_irrefl _ (h.curLt m' _ e))
          have hp0 : pinsL ts w.nSnap = 0 := by
            unfold pinsL
            apply sum_eq_zero_of
            intro x hx
            obtain ⟨t, ht, rfl⟩ := List.mem_map.mp hx
            by_cases hp : pins t w.nSnap = 0
            · exact hp
            · exact absurd (hts t ht _ hp) (Nat.lt_irrefl _)
          simp [pins, hm0, hp0, hfr.1]
        · have hne : ¬ w.nSnap = s := fun e => hs e.symm
          simp only [hs, if_false]
          rw [h.ref s]
          simp [pins, hne]
      · intro m' s e
        have := h.curLt m' s e
        dsimp only; omega
      · intro s hs
        dsimp only at hs ⊢
        have hs' : w.nSnap ≤ s := by omega
        have hne : s ≠ w.nSnap := by omega
        simp only [hne, if_false]
        exact h.frameFresh s hs'
      · intro s hs
        simp only [pins] at hs
        by_cases hsn : s = w.nSnap
        · subst hsn; exact Nat.lt_succ_self _
        · have hne : ¬ w.nSnap = s := fun e => hsn e.symm
          simp [hne] at hs
  | some c =>
    have hcl := h.curLt m c hc
    cases mkNil with
    | true =>
      simp only [if_true]
      refine ⟨⟨?_, h.curLt, ?_⟩, by simp [incRef], Nat.le_refl _, ?_⟩
      · intro s
        dsimp only [incRef]
        rw [pinsL_append, pinsL_cons, pinsL_nil, h.ref s]
        by_cases hs : s = c
        · subst hs; simp [pins]; omega
        · have hne : ¬ c = s := fun e => hs e.symm
          simp [pins, hs, hne]
      · intro s hs
        dsimp only [incRef] at hs ⊢
        have hne : s ≠ c := by omega
        simp only [hne, if_false]
        exact h.frameFresh s hs
      · intro s hs
        dsimp only [incRef]
        simp only [pins] at hs
        by_cases hsc : c = s
        · omega
        · simp [hsc] at hs
    | false =>
      simp only [Bool.false_eq_true, if_false]
      refine ⟨⟨?_, ?_, ?_⟩, by simp [incRef], Nat.le_succ _, ?_⟩
      · intro s
        dsimp only [incRef]
        rw [pinsL_append, pinsL_cons, pinsL_nil]
        by_cases hs : s = w.nSnap
        · subst hs
          have hfr := h.frameFresh w.nSnap (Nat.le_refl _)
          have hm0 : mcountN w.cur w.nSnap nM = 0 :=
            mcountN_zero_of_fresh _ _ _ (fun m' e => Nat.lt_irrefl _ (h.curLt m' _ e))
          have hp0 : pinsL ts w.nSnap = 0 := by
            unfold pinsL
            apply sum_eq_zero_of
            intro x hx
            obtain ⟨t, ht, rfl⟩ := List.mem_map.mp hx
            by_cases hp : pins t w.nSnap = 0
            · exact hp
            · exact absurd (hts t ht _ hp) (Nat.lt_irrefl _)
          have hne : ¬ c = w.nSnap := by omega
          simp [pins, hm0, hp0, hfr.1, hne]
        · have hne : ¬ w.nSnap = s := fun e => hs e.symm
          simp only [hs, if_false]
          rw [h.ref s]
          by_cases hsc : s = c
          · subst hsc; simp [pins, hne]; omega
          · have hne2 : ¬ c = s := fun e => hsc e.symm
            simp [pins, hne, hsc, hne2]
      · intro m' s e
        have := h.curLt m' s e
        dsimp only [incRef]; omega
      · intro s hs
        dsimp only [incRef] at hs ⊢
        have hs' : w.nSnap ≤ s := by omega
        have hne : s ≠ w.nSnap := by omega
        have hne2 : s ≠ c := by omega
        simp only [hne, hne2, if_false]
        exact h.frameFresh s hs'
      · intro s hs
        dsimp only [incRef]
        simp only [pins] at hs
        by_cases hsn : s = w.nSnap
        · subst hsn; exact Nat.lt_succ_self _
        · have hne : ¬ w.nSnap = s := fun e => hsn e.symm
          by_cases hsc : c = s
          · omega
          · simp [incRef, hne, hsc] at hs

/-- generic one-transition step: the transition's owed pins and the world change together -/
structure StepOK (nM : Nat) (w : World) (t : Transition) (w' : World) (t' : Transition) : Prop where
  refs : ∀ s, (w'.ref s - w.ref s : Int) =
    ((mcountN w'.cur s nM : Int) - mcountN w.cur s nM) + ((pins t' s : Int) - pins t s)
  nSnap : w'.nSnap = w.nSnap
  curLt : (∀ m s, w.cur m = some s → s < w.nSnap) → (∀ s, pins t s ≠ 0 → s < w.nSnap) →
    ∀ m s, w'.cur m = some s → s < w'.nSnap
  pinsLt : (∀ s, pins t s ≠ 0 → s < w.nSnap) → ∀ s, pins t' s ≠ 0 → s < w'.nSnap

theorem decOpt_ref (w : World) (o : Option Nat) (s : Nat) :
    (decOpt w o).ref s = w.ref s - (if o = some s then 1 else 0) := by
  cases o with
  | none => simp [decOpt]
  | some c =>
    simp only [decOpt, decRef]
    by_cases h : s = c
    · subst h; simp
    · have : ¬ c = s := fun e => h e.symm
      simp [h, this]

@[simp] theorem decOpt_cur (w : World) (o : Option Nat) : (decOpt w o).cur = w.cur := by
  cases o <;> rfl

@[simp] theorem decOpt_nSnap (w : World) (o : Option Nat) : (decOpt w o).nSnap = w.nSnap := by
  cases o <;> rfl

/-- `Transition.Commit` of a live (not rolled back) transition on a manager `< nM` -/
theorem stepOK_commit {nM : Nat} (w : World) (t : Transition) (hm : t.mgr < nM) (hrb : t.rolledBack = false) :
    StepOK nM w t (tCommit w t).1 (tCommit w t).2 := by
  unfold tCommit
  by_cases hc : t.committed = true
  · simp only [hc, if_true]
    exact ⟨fun s => by omega, rfl, fun h1 _ => h1, fun h2 => h2⟩
  · have hc' : t.committed = false := by simpa using hc
    simp only [hc', Bool.false_eq_true, if_false]
    constructor
    · intro s
      simp only [replaceSnapshot, decOpt_ref, decOpt_cur]
      have hmc := mcountN_upd w.cur s t.next hm
      simp only [pins, hrb, hc', Bool.false_eq_true, if_false, if_true]
      by_cases h1 : w.cur t.mgr = some s <;> by_cases h2 : t.next = some s <;> by_cases h3 : t.current = some s <;>
        simp only [h1, h2, h3, if_true, if_false] at hmc ⊢ <;> omega
    · simp [replaceSnapshot]
    · intro h1 h2 m s e
      simp only [replaceSnapshot, decOpt_cur, decOpt_nSnap] at e ⊢
      by_cases hmm : m = t.mgr
      · simp only [hmm, if_true] at e
        apply h2 s
        simp [pins, hrb, hc', e]
      · simp only [hmm, if_false] at e
        exact h1 m s e
    · intro h2 s hs
      simp only [replaceSnapshot, decOpt_nSnap]
      apply h2 s
      simp only [pins, hrb, hc', Bool.false_eq_true, if_false, if_true] at hs ⊢
      omega

/-- `Transition.Rollback` -/
theorem stepOK_rollback {nM : Nat} (w : World) (t : Transition) (hrb : t.rolledBack = false) :
    StepOK nM w t (tRollback w t).1 (tRollback w t).2 := by
  unfold tRollback
  by_cases hc : t.committed = true
  · simp only [hc, if_true]
    exact ⟨fun s => by omega, rfl, fun h1 _ => h1, fun h2 => h2⟩
  · have hc' : t.committed = false := by simpa using hc
    simp only [hc', Bool.false_eq_true, if_false]
    constructor
    · intro s
      simp only [decOpt_ref, decOpt_cur]
      simp only [pins, hrb, hc', Bool.false_eq_true, if_false, if_true]
      by_cases h2 : t.next = some s <;> by_cases h3 : t.current = some s <;>
        simp only [h2, h3, if_true, if_false] <;> omega
    · simp
    · intro h1 _ m s e
      simp only [decOpt_cur, decOpt_nSnap] at e ⊢
      exact h1 m s e
    · intro _ s hs
      simp [pins] at hs

/-- `Transition.Release` of a finalised transition (committed xor rolled back) -/
theorem stepOK_release {nM : Nat} (w : World) (t : Transition)
    (hfin : (t.committed = true ∧ t.rolledBack = false) ∨ (t.committed = false ∧ t.rolledBack = true)) :
    StepOK nM w t (tRelease w t).1 (tRelease w t).2 := by
  unfold tRelease
  rcases hfin with ⟨hc, hrb⟩ | ⟨hc, hrb⟩
  · constructor
    · intro s
      simp only [hc, if_true, decOpt_ref, decOpt_cur]
      simp only [pins, hrb, hc, Bool.false_eq_true, if_false, if_true]
      split <;> simp <;> omega
    · simp [hc]
    · intro h1 _ m s e
      simp only [hc, if_true, decOpt_cur, decOpt_nSnap] at e ⊢
      exact h1 m s e
    · intro _ s hs
      simp [pins] at hs
  · constructor
    · intro s
      simp only [hc, Bool.false_eq_true, if_false]
      simp [pins, hrb]
    · simp [hc]
    · intro h1 _ m s e
      simp only [hc, Bool.false_eq_true, if_false] at e ⊢
      exact h1 m s e
    · intro _ s hs
      simp [pins, hrb] at hs

/-! ### lists of transitions: `Transaction.Commit`, `Transaction.Rollback`, releasing -/

/-- accounting shape: count = managers pointing here + pins owed by `ts` + frame -/
def Shape (nM : Nat) (w : World) (ts : List Transition) (R : Nat → Int) : Prop :=
  ∀ s, w.ref s = mcountN w.cur s nM + pinsL ts s + R s

theorem shape_head {nM : Nat} {w w' : World} {t t' : Transition} (ok : StepOK nM w t w' t')
    (rest : List Transition) (R : Nat → Int) (h : Shape nM w (t :: rest) R) : Shape nM w' (t' :: rest) R := by
  intro s
  have h1 := h s
  have h2 := ok.refs s
  simp only [pinsL_cons] at h1 ⊢
  omega

theorem shape_frame_in {nM : Nat} {w : World} {t : Transition} {rest : List Transition} {R : Nat → Int}
    (h : Shape nM w (t :: rest) R) : Shape nM w rest (fun s => R s + pins t s) := by
  intro s; have := h s; simp only [pinsL_cons] at this; show w.ref s = _ + _ + (R s + pins t s); omega

theorem shape_frame_out {nM : Nat} {w : World} {t : Transition} {rest : List Transition} {R : Nat → Int}
    (h : Shape nM w rest (fun s => R s + pins t s)) : Shape nM w (t :: rest) R := by
  intro s; have := h s; simp only [pinsL_cons]; change w.ref s = _ + _ + (R s + pins t s) at this; omega

def Fresh (nM : Nat) (t : Transition) : Prop := t.mgr < nM ∧ t.committed = false ∧ t.rolledBack = false

theorem shape_commitAll (nM : Nat) (ts : List Transition) (w : World) (R : Nat → Int)
    (hf : ∀ t, t ∈ ts → Fresh nM t) (h : Shape nM w ts R) :
    Shape nM (commitAll w ts).1 (commitAll w ts).2 R ∧
    (∀ t', t' ∈ (commitAll w ts).2 → t'.committed = true ∧ t'.rolledBack = false) := by
  induction ts generalizing w R with
  | nil => exact ⟨h, fun _ hm => by simp [commitAll] at hm⟩
  | cons t ts ih =>
    simp only [commitAll]
    have hft := hf t (by simp)
    have ok := stepOK_commit (nM := nM) w t hft.1 hft.2.2
    have h1 := shape_head ok ts R h
    obtain ⟨h2, hc2⟩ := ih (tCommit w t).1 (fun s => R s + pins (tCommit w t).2 s)
      (fun t' ht' => hf t' (List.mem_cons_of_mem _ ht')) (shape_frame_in h1)
    refine ⟨shape_frame_out h2, ?_⟩
    intro t' ht'
    rcases List.mem_cons.mp ht' with rfl | ht''
    · unfold tCommit; simp [hft.2.1, hft.2.2]
    · exact hc2 t' ht''

theorem shape_rollbackAll (nM : Nat) (ts : List Transition) (w : World) (R : Nat → Int)
    (hf : ∀ t, t ∈ ts → Fresh nM t) (h : Shape nM w ts R) :
    Shape nM (rollbackAll w ts).1 (rollbackAll w ts).2 R ∧
    (∀ t', t' ∈ (rollbackAll w ts).2 → t'.committed = false ∧ t'.rolledBack = true) ∧
    (rollbackAll w ts).1.cur = w.cur := by
  induction ts generalizing w R with
  | nil => exact ⟨h, fun _ hm => by simp [rollbackAll] at hm, rfl⟩
  | cons t ts ih =>
    simp only [rollbackAll]
    have hft := hf t (by simp)
    obtain ⟨h2, hc2, hcur2⟩ := ih w (fun s => R s + pins t s)
      (fun t' ht' => hf t' (List.mem_cons_of_mem _ ht')) (shape_frame_in h)
    have h3 : Shape nM (rollbackAll w ts).1 (t :: (rollbackAll w ts).2) R := shape_frame_out h2
    have ok := stepOK_rollback (nM := nM) (rollbackAll w ts).1 t hft.2.2
    refine ⟨shape_head ok _ R h3, ?_, ?_⟩
    · intro t' ht'
      rcases List.mem_cons.mp ht' with rfl | ht''
      · unfold tRollback; simp [hft.2.1]
      · exact hc2 t' ht''
    · unfold tRollback; simp [hft.2.1, hcur2]

theorem pins_released (w : World) (t : Transition) (s : Nat) : pins (tRelease w t).2 s = 0 := by
  unfold tRelease pins; simp

theorem shape_releaseAll (nM : Nat) (ts : List Transition) (w : World) (R : Nat → Int)
    (hf : ∀ t, t ∈ ts →
      (t.committed = true ∧ t.rolledBack = false) ∨ (t.committed = false ∧ t.rolledBack = true))
    (h : Shape nM w ts R) :
    Shape nM (releaseAll w ts).1 (releaseAll w ts).2 R ∧
    (∀ s, pinsL (releaseAll w ts).2 s = 0) ∧ (releaseAll w ts).1.cur = w.cur := by
  induction ts generalizing w R with
  | nil => exact ⟨h, fun _ => rfl, rfl⟩
  | cons t ts ih =>
    simp only [releaseAll]
    have ok := stepOK_release (nM := nM) w t (hf t (by simp))
    have h1 := shape_head ok ts R h
    obtain ⟨h2, hz, hcur⟩ := ih (tRelease w t).1 (fun s => R s + pins (tRelease w t).2 s)
      (fun t' ht' => hf t' (List.mem_cons_of_mem _ ht')) (shape_frame_in h1)
    refine ⟨shape_frame_out h2, ?_, ?_⟩
    · intro s; simp only [pinsL_cons, hz s, pins_released]
    · rw [hcur]; unfold tRelease; split <;> simp

/-- **Commit applies all and every reference is accounted for.**  Any number of freshly prepared transitions (on
managers `< nM`), any frame `R` (other transactions' pins, readers): after `Transaction.Commit` and the callers'
`Release`s every snapshot's count is exactly *managers pointing at it + frame* — the replaced snapshots lost only the
managers' references, each prepared `next` kept only the reference it was handed over with, every pin taken by
`NewTransition` is returned. -/
theorem commit_release_balanced (nM : Nat) (ts : List Transition) (w : World) (R : Nat → Int)
    (hf : ∀ t, t ∈ ts → Fresh nM t) (h : Shape nM w ts R) :
    let c := commit w { ts := ts, finalized := false }
    let r := releaseAll c.1 c.2.ts
    ∀ s, r.1.ref s = mcountN r.1.cur s nM + R s := by
  intro c r s
  have hc : c = ((commitAll w ts).1, { ts := (commitAll w ts).2, finalized := true }) := by
    simp [c, commit]
  obtain ⟨h1, hc1⟩ := shape_commitAll nM ts w R hf h
  have hr : r = releaseAll (commitAll w ts).1 (commitAll w ts).2 := by simp [r, hc]
  obtain ⟨h2, hz, _⟩ := shape_releaseAll nM (commitAll w ts).2 (commitAll w ts).1 R
    (fun t ht => Or.inl (hc1 t ht)) h1
  rw [hr]
  have := h2 s
  rw [hz s] at this
  simpa using this

/-- **Rollback applies none and restores every reference**: no manager's current snapshot changes, and after the
callers' `Release`s every count is again *managers pointing at it + frame*, i.e. what it was before the transitions
were prepared; the prepared `next` snapshots are left with no reference at all. -/
theorem rollback_release_balanced (nM : Nat) (ts : List Transition) (w : World) (R : Nat → Int)
    (hf : ∀ t, t ∈ ts → Fresh nM t) (h : Shape nM w ts R) :
    let c := rollback w { ts := ts, finalized := false }
    let r := releaseAll c.1 c.2.ts
    r.1.cur = w.cur ∧ ∀ s, r.1.ref s = mcountN w.cur s nM + R s := by
  intro c r
  have hc : c = ((rollbackAll w ts).1, { ts := (rollbackAll w ts).2, finalized := true }) := by
    simp [c, rollback]
  obtain ⟨h1, hc1, hcur1⟩ := shape_rollbackAll nM ts w R hf h
  have hr : r = releaseAll (rollbackAll w ts).1 (rollbackAll w ts).2 := by simp [r, hc]
  obtain ⟨h2, hz, hcur2⟩ := shape_releaseAll nM (rollbackAll w ts).2 (rollbackAll w ts).1 R
    (fun t ht => Or.inr (hc1 t ht)) h1
  rw [hr]
  refine ⟨hcur2.trans hcur1, ?_⟩
  intro s
  have := h2 s
  rw [hz s, hcur2, hcur1] at this
  simpa using this

/-- what `Commit` publishes: with one transition per manager, every manager ends up at the prepared `next` of its
transition and no other manager moves. -/
theorem commitAll_cur (ts : List Transition) (w : World)
    (hf : ∀ t, t ∈ ts → t.committed = false) (hnd : (ts.map fun t => t.mgr).Nodup) :
    (∀ t, t ∈ ts → (commitAll w ts).1.cur t.mgr = t.next) ∧
    (∀ m, (∀ t, t ∈ ts → t.mgr ≠ m) → (commitAll w ts).1.cur m = w.cur m) := by
  induction ts generalizing w with
  | nil => exact ⟨fun _ h => by simp at h, fun _ _ => rfl⟩
  | cons t ts ih =>
    simp only [List.map_cons, List.nodup_cons] at hnd
    have hft := hf t (by simp)
    obtain ⟨ih1, ih2⟩ := ih (tCommit w t).1 (fun t' ht' => hf t' (List.mem_cons_of_mem _ ht')) hnd.2
    have hcur1 : ∀ m, (tCommit w t).1.cur m = if m = t.mgr then t.next else w.cur m := by
      intro m; unfold tCommit; simp [hft, replaceSnapshot]
    simp only [commitAll]
    constructor
    · intro t' ht'
      rcases List.mem_cons.mp ht' with rfl | ht''
      · rw [ih2 _ (fun t'' ht'' e => hnd.1 (List.mem_map.mpr ⟨t'', ht'', e⟩)), hcur1]
        simp
      · exact ih1 t' ht''
    · intro m hm
      rw [ih2 m (fun t' ht' => hm t' (List.mem_cons_of_mem _ ht')), hcur1]
      have : m ≠ t.mgr := fun e => hm t (by simp) e.symm
      simp [this]

/-- `Transaction.Commit` applies the transitions in the order they were added: committing `ts ++ [t]` is committing
`ts` first and `t` last (so e.g. trace.introducePart publishes the core snapshot before the sidx snapshots, and
introduceFlushedForSync / introduceSync the sidx snapshots before the core one). -/
theorem commitAll_append (w : World) (ts : List Transition) (t : Transition) :
    (commitAll w (ts ++ [t])).1 = (tCommit (commitAll w ts).1 t).1 ∧
    (commitAll w (ts ++ [t])).2 = (commitAll w ts).2 ++ [(tCommit (commitAll w ts).1 t).2] := by
  induction ts generalizing w with
  | nil => simp [commitAll]
  | cons a ts ih =>
    simp only [List.cons_append, commitAll]
    obtain ⟨h1, h2⟩ := ih (tCommit w a).1
    exact ⟨h1, by rw [h2]⟩

/-- the publication order a commit produces (managers in the order `ReplaceSnapshot` reaches them) -/
def commitOrder (ts : List Transition) : List Nat := (ts.filter fun t => !t.committed).map fun t => t.mgr

/-- two transitions on the SAME manager: the one added last wins (a LIFO commit would leave the first one) -/
theorem commitAll_last_wins (w : World) (ts : List Transition) (t : Transition) (ht : t.committed = false) :
    (commitAll w (ts ++ [t])).1.cur t.mgr = t.next := by
  rw [(commitAll_append w ts t).1]
  unfold tCommit
  simp [ht, replaceSnapshot]

end Banyan.C05.Txn
