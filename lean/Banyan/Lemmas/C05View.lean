/-
C05: what a holder observes does not change while maintenance runs (`Keeps`), per primitive and per op.
-/
import Banyan.Lemmas.C05Ops

set_option linter.unusedSimpArgs false

namespace Banyan.C05

theorem flatMap_congr_mem {f g : Nat → List Nat} (l : List Nat) (h : ∀ w, w ∈ l → f w = g w) :
    l.flatMap f = l.flatMap g := by
  induction l with
  | nil => rfl
  | cons a l ih =>
    simp only [List.flatMap_cons]
    rw [h a (by simp), ih (fun w hw => h w (List.mem_cons_of_mem _ hw))]

/-- `Keeps ok st st'`: every holder entry whose key satisfies `ok` is still there, the part list of its snapshot is
unchanged, wrappers are never re-labelled, and issued deletions are never taken back. -/
structure Keeps (ok : Nat → Prop) (st st' : State) : Prop where
  hold : ∀ e, e ∈ st.holders → ok e.1 → e ∈ st'.holders ∧ (st'.S e.2).parts = (st.S e.2).parts
  nP : st.nP ≤ st'.nP
  same : ∀ w, w < st.nP →
    (st'.P w).pid = (st.P w).pid ∧ (st'.P w).mem = (st.P w).mem ∧ (st'.P w).src = (st.P w).src
  delMono : ∀ w, w < st.nP → (st.P w).delCount ≤ (st'.P w).delCount

theorem Keeps.refl (ok : Nat → Prop) (st : State) : Keeps ok st st :=
  ⟨fun _ he _ => ⟨he, rfl⟩, Nat.le_refl _, fun _ _ => ⟨rfl, rfl, rfl⟩, fun _ _ => Nat.le_refl _⟩

theorem Keeps.trans {ok : Nat → Prop} {a b c : State} (h1 : Keeps ok a b) (h2 : Keeps ok b c) : Keeps ok a c := by
  constructor
  · intro e he hk
    obtain ⟨hb, hp⟩ := h1.hold e he hk
    obtain ⟨hc, hp2⟩ := h2.hold e hb hk
    exact ⟨hc, hp2.trans hp⟩
  · exact Nat.le_trans h1.nP h2.nP
  · intro w hw
    obtain ⟨a1, a2, a3⟩ := h1.same w hw
    obtain ⟨b1, b2, b3⟩ := h2.same w (Nat.lt_of_lt_of_le hw h1.nP)
    exact ⟨b1.trans a1, b2.trans a2, b3.trans a3⟩
  · intro w hw
    exact Nat.le_trans (h1.delMono w hw) (h2.delMono w (Nat.lt_of_lt_of_le hw h1.nP))

theorem pin_keeps (ok : Nat → Prop) (k : Nat) (st : State) : Keeps ok st (pin k st) := by
  constructor
  · intro e he _
    refine ⟨?_, pin_S_parts k st e.2⟩
    unfold pin; split
    · exact he
    · exact List.mem_cons_of_mem _ he
  · simp
  · intro w _; simp
  · intro w _; simp

theorem applyAll_dec_same (l : List Nat) (P : Nat → Part) (j : Nat) :
    (applyAll (fun _ p => partDecRef p) l P j).pid = (P j).pid ∧
    (applyAll (fun _ p => partDecRef p) l P j).mem = (P j).mem ∧
    (applyAll (fun _ p => partDecRef p) l P j).src = (P j).src ∧
    (P j).delCount ≤ (applyAll (fun _ p => partDecRef p) l P j).delCount := by
  unfold applyAll
  dsimp only
  split
  · refine ⟨partDecRef_pid _, partDecRef_mem _, partDecRef_src _, ?_⟩
    unfold partDecRef; dsimp only
    split
    · exact Nat.le_refl _
    · split
      · exact Nat.le_refl _
      · dsimp only; omega
  · exact ⟨rfl, rfl, rfl, Nat.le_refl _⟩

/-- `snapshot.decRef` on a snapshot that still has a holder does not touch its part list -/
theorem snapDecRef_keeps (ok : Nat → Prop) {st : State} {s : Nat} (h : Inv' (some s) st) :
    Keeps ok st (snapDecRef s st) := by
  have hs : s < st.nS := h.xLt s rfl
  have hr := h.snapRef s hs
  simp only [if_true] at hr
  constructor
  · intro e he _
    unfold snapDecRef; dsimp only
    by_cases hn : (st.S s).ref - 1 > 0
    · rw [if_pos hn]; dsimp only
      refine ⟨he, ?_⟩
      by_cases hes : e.2 = s
      · rw [hes, upd_same]
      · rw [upd_ne _ _ hes]
    · rw [if_neg hn]; dsimp only
      refine ⟨he, ?_⟩
      by_cases hes : e.2 = s
      · exfalso
        have := hcount_pos_of_mem st.holders e he
        rw [hes] at this
        have : (0 : Int) ≤ (if st.cur = some s then 1 else 0) := by split <;> omega
        omega
      · rw [upd_ne _ _ hes]
  · unfold snapDecRef; dsimp only; split <;> exact Nat.le_refl _
  · intro w _
    unfold snapDecRef; dsimp only; split
    · exact ⟨rfl, rfl, rfl⟩
    · obtain ⟨a, b, c, _⟩ := applyAll_dec_same (st.S s).parts st.P w
      exact ⟨a, b, c⟩
  · intro w _
    unfold snapDecRef; dsimp only; split
    · exact Nat.le_refl _
    · exact (applyAll_dec_same (st.S s).parts st.P w).2.2.2

theorem unpin_keeps {ok : Nat → Prop} {st : State} (k : Nat) (h : Inv st) (hok : ∀ j, ok j → j ≠ k) :
    Keeps ok st (unpin k st) := by
  unfold unpin
  cases hf : findHolder k st.holders with
  | none => exact Keeps.refl ok st
  | some s =>
    dsimp only
    have h1 := erase_inv h hf
    have k1 : Keeps ok st { st with holders := eraseHolder k st.holders } := by
      constructor
      · intro e he hk
        exact ⟨eraseHolder_keeps k _ e he (hok _ hk), rfl⟩
      · exact Nat.le_refl _
      · intro w _; exact ⟨rfl, rfl, rfl⟩
      · intro w _; exact Nat.le_refl _
    exact k1.trans (snapDecRef_keeps ok h1)

theorem publish_keeps (ok : Nat → Prop) {st : State} {P' : Nat → Part} {nP' : Nat} {parts : List Nat}
    {curPid' : Nat} (h : Inv st) (b : Build st P' nP' parts curPid') :
    Keeps ok st (publish st P' nP' parts curPid') := by
  have hi := install_inv h b
  have k1 : Keeps ok st
      { st with P := P', nP := nP', curPid := curPid',
                S := upd st.S st.nS { epoch := st.epoch, parts := parts, ref := 1 },
                nS := st.nS + 1, cur := some st.nS, epoch := st.epoch + 1 } := by
    constructor
    · intro e he _
      refine ⟨he, ?_⟩
      dsimp only
      rw [upd_ne _ _ (Nat.ne_of_lt (h.holdLt e he))]
    · exact b.nPle
    · intro w hw; exact ⟨b.oldPid w hw, b.oldMem w hw, b.oldSrc w hw⟩
    · intro w hw; dsimp only; rw [b.oldDel w hw]; exact Nat.le_refl _
  unfold publish
  dsimp only
  cases hc : st.cur with
  | none => exact k1
  | some c =>
    rw [hc] at hi
    exact k1.trans (snapDecRef_keeps ok hi)

theorem ghost_keeps (ok : Nat → Prop) (st : State) (n : Nat) (b : Bool) :
    Keeps ok st { st with nBatch := n, tblClosed := b } :=
  ⟨fun _ he _ => ⟨he, rfl⟩, Nat.le_refl _, fun _ _ => ⟨rfl, rfl, rfl⟩, fun _ _ => Nat.le_refl _⟩

/-! ### ops -/

theorem introducePart_keeps {ok : Nat → Prop} {st : State} (h : Inv st) (hok : ∀ j, ok j → j ≠ 0) :
    Keeps ok st (introducePart st) := by
  unfold introducePart
  dsimp only
  have h1 : Inv (pin 0 st) := pin_inv 0 h
  have h2 : Inv { pin 0 st with nBatch := (pin 0 st).nBatch + 1 } := inv_ghost _ (pin 0 st).tblClosed h1
  have hb := build_filter_append (st := { pin 0 st with nBatch := (pin 0 st).nBatch + 1 }) h2 (loopFn_inc _)
    { pid := (pin 0 st).curPid + 1, mem := true, ref := 1, removable := false, closed := false, delCount := 0,
      src := [(pin 0 st).nBatch + 1] } rfl rfl rfl rfl
  have hcp : curParts { pin 0 st with nBatch := (pin 0 st).nBatch + 1 } = curParts (pin 0 st) := rfl
  rw [hcp] at hb
  have hft : List.filter (fun _ => true) (curParts (pin 0 st)) = curParts (pin 0 st) := by simp
  rw [hft] at hb
  have k3 := ((pin_keeps ok 0 st).trans (ghost_keeps ok (pin 0 st) ((pin 0 st).nBatch + 1) (pin 0 st).tblClosed)).trans
    (publish_keeps ok h2 hb)
  split
  · exact k3
  · exact k3.trans (unpin_keeps 0 (publish_inv h2 hb) hok)

theorem syncOp_keeps {ok : Nat → Prop} {st : State} (ids : List Nat) (h : Inv st) (hok : ∀ j, ok j → j ≠ 0) :
    Keeps ok st (syncOp ids st) := by
  unfold syncOp
  cases hc : st.cur with
  | none => exact Keeps.refl ok st
  | some c =>
    dsimp only
    have h1 : Inv (pin 0 st) := pin_inv 0 h
    have hb := build_filter h1 (loopFn_remove (pin 0 st).P fun pid => ids.contains pid)
    exact ((pin_keeps ok 0 st).trans (publish_keeps ok h1 hb)).trans (unpin_keeps 0 (publish_inv h1 hb) hok)

theorem mergeOp_keeps {ok : Nat → Prop} {st : State} (ids : List Nat) (h : Inv st) (hok : ∀ j, ok j → j ≠ 0) :
    Keeps ok st (mergeOp ids st) := by
  unfold mergeOp
  cases hc : st.cur with
  | none => exact Keeps.refl ok st
  | some c =>
    dsimp only
    have h1 : Inv (pin 0 st) := pin_inv 0 h
    split
    · exact (pin_keeps ok 0 st).trans (unpin_keeps 0 h1 hok)
    · have h2 : Inv (pin 0 (pin 0 st)) := pin_inv 0 h1
      have hb := build_filter_append h2
        (loopFn_remove (pin 0 (pin 0 st)).P fun pid =>
          (((curParts (pin 0 st)).filter fun w => ids.contains (pidOf (pin 0 st) w)).map (pidOf (pin 0 st))).contains pid)
        { pid := (pin 0 st).curPid + 1, mem := false, ref := 1, removable := false, closed := false, delCount := 0,
          src := ((curParts (pin 0 st)).filter fun w => ids.contains (pidOf (pin 0 st) w)).flatMap
            fun x => ((pin 0 st).P x).src } (by simp) rfl rfl rfl
      have h3 := publish_inv h2 hb
      have k := ((pin_keeps ok 0 st).trans (pin_keeps ok 0 (pin 0 st))).trans (publish_keeps ok h2 hb)
      have k' := (k.trans (unpin_keeps 0 h3 hok)).trans (unpin_keeps 0 (unpin_inv 0 h3) hok)
      simp only [curParts_pin, pin_P, pin_nP, pin_curPid, pidOf] at k' ⊢
      exact k'

theorem closeOp_keeps {ok : Nat → Prop} {st : State} (h : Inv st) : Keeps ok st (closeOp st) := by
  unfold closeOp
  split
  · exact ghost_keeps ok st st.nBatch true
  · rename_i c hc
    have k1 : Keeps ok st { st with cur := none, tblClosed := true } :=
      ⟨fun _ he _ => ⟨he, rfl⟩, Nat.le_refl _, fun _ _ => ⟨rfl, rfl, rfl⟩, fun _ _ => Nat.le_refl _⟩
    refine k1.trans (snapDecRef_keeps ok ?_)
    have hcl := h.curLt c hc
    constructor
    · exact h.partRef
    · intro s hs
      dsimp only at hs ⊢
      rw [h.snapRef s hs, hc]
      by_cases hsc : s = c
      · subst hsc; simp; omega
      · have : ¬ c = s := fun e => hsc e.symm
        simp [this]
    · exact h.closedIff
    · exact h.delCnt
    · exact h.deadEmpty
    · exact h.partsLt
    · exact h.pidNodup
    · exact h.pidLe
    · intro c' hc'; cases hc'
    · exact h.holdLt
    · intro s hs; cases hs; exact hcl

theorem flushOp_keeps {ok : Nat → Prop} {st : State} (ids : Option (List Nat)) (h : Inv st)
    (hok : ∀ j, ok j → j ≠ 0) : Keeps ok st (flushOp ids st) := by
  unfold flushOp
  cases hc : st.cur with
  | none => exact Keeps.refl ok st
  | some c =>
    dsimp only
    have h1 : Inv (pin 0 st) := pin_inv 0 h
    split
    · exact (pin_keeps ok 0 st).trans (unpin_keeps 0 h1 hok)
    · have h2 : Inv (pin 0 (pin 0 st)) := pin_inv 0 h1
      have hb := flush_build ids h2
      have h3 := publish_inv h2 hb
      have k := ((pin_keeps ok 0 st).trans (pin_keeps ok 0 (pin 0 st))).trans (publish_keeps ok h2 hb)
      have k' := (k.trans (unpin_keeps 0 h3 hok)).trans (unpin_keeps 0 (unpin_inv 0 h3) hok)
      simp only [flushSel_pin] at k' ⊢
      exact k'

end Banyan.C05
