/-
Helper lemmas for the C08 bloom-filter model (pkg/filter/bloom_filter.go): setting bits in a flat bit list.
-/
import Banyan.Model.C08

namespace Banyan.C08

theorem Bloom.setAll_length (bf : Bloom) (is : List Nat) : (bf.setAll is).bits.length = bf.bits.length := by
  induction is generalizing bf with
  | nil => rfl
  | cons i is ih => simp [Bloom.setAll, ih]

/-- a bit that is set stays set -/
theorem Bloom.setAll_mono (bf : Bloom) (is : List Nat) (j : Nat) (h : bf.bits[j]? = some true) :
    (bf.setAll is).bits[j]? = some true := by
  induction is generalizing bf with
  | nil => exact h
  | cons i is ih =>
    show (Bloom.setAll ⟨bf.bits.set i true⟩ is).bits[j]? = some true
    apply ih
    show (bf.bits.set i true)[j]? = some true
    rw [List.getElem?_set]
    by_cases hij : i = j
    · subst hij
      have : i < bf.bits.length := by
        rcases Nat.lt_or_ge i bf.bits.length with hl | hl
        · exact hl
        · rw [List.getElem?_eq_none hl] at h; cases h
      simp [this]
    · simp [hij, h]

/-- every probed position inside the bit array is set afterwards -/
theorem Bloom.setAll_sets (bf : Bloom) (is : List Nat) (j : Nat) (hj : j ∈ is) (hlt : j < bf.bits.length) :
    (bf.setAll is).bits[j]? = some true := by
  induction is generalizing bf with
  | nil => cases hj
  | cons i is ih =>
    show (Bloom.setAll ⟨bf.bits.set i true⟩ is).bits[j]? = some true
    rcases List.mem_cons.mp hj with rfl | hmem
    · apply Bloom.setAll_mono
      show (bf.bits.set j true)[j]? = some true
      simp [List.getElem?_set, hlt]
    · apply ih _ hmem
      show j < (bf.bits.set i true).length
      simpa using hlt

theorem bloomIdxs_lt (H : Bytes → Nat) (m : Nat) (hm : 0 < m) (item : Bytes) :
    ∀ i ∈ bloomIdxs H m item, i < m := by
  intro i hi
  simp only [bloomIdxs, List.mem_map] at hi
  obtain ⟨_, _, rfl⟩ := hi
  exact Nat.mod_lt _ hm

theorem Bloom.add_length (H : Bytes → Nat) (bf : Bloom) (x : Bytes) : (bf.add H x).bits.length = bf.bits.length := by
  simp [Bloom.add, Bloom.setAll_length]

theorem Bloom.addAll_length (H : Bytes → Nat) (bf : Bloom) (xs : List Bytes) :
    (bf.addAll H xs).bits.length = bf.bits.length := by
  induction xs generalizing bf with
  | nil => rfl
  | cons x xs ih => simp [Bloom.addAll, List.foldl] at *; rw [ih]; exact Bloom.add_length H bf x

theorem Bloom.new_length_pos (n : Nat) : 0 < (Bloom.new n).bits.length := by
  simp only [Bloom.new, List.length_replicate, bloomWords]
  split <;> omega

/-- `MightContain(x)` right after `Add(x)`. -/
theorem Bloom.mightContain_add_self (H : Bytes → Nat) (bf : Bloom) (hm : 0 < bf.bits.length) (x : Bytes) :
    (bf.add H x).mightContain H x = true := by
  simp only [Bloom.mightContain, List.all_eq_true, Bloom.add_length]
  intro i hi
  simp only [beq_iff_eq]
  exact Bloom.setAll_sets bf _ i hi (bloomIdxs_lt H _ hm x i hi)

/-- adding more items never turns a positive answer into a negative one -/
theorem Bloom.mightContain_add_mono (H : Bytes → Nat) (bf : Bloom) (x y : Bytes)
    (h : bf.mightContain H x = true) : (bf.add H y).mightContain H x = true := by
  simp only [Bloom.mightContain, List.all_eq_true, Bloom.add_length, beq_iff_eq] at *
  intro i hi
  exact Bloom.setAll_mono bf _ i (h i hi)

theorem Bloom.mightContain_addAll_mono (H : Bytes → Nat) (bf : Bloom) (x : Bytes) (ys : List Bytes)
    (h : bf.mightContain H x = true) : (bf.addAll H ys).mightContain H x = true := by
  induction ys generalizing bf with
  | nil => exact h
  | cons y ys ih =>
    simp only [Bloom.addAll, List.foldl_cons]
    exact ih _ (Bloom.mightContain_add_mono H bf x y h)

end Banyan.C08
