/-
Helper lemmas for the C08 dictionary-filter model (pkg/filter/dictionary_filter.go):
the repaired, non-mutating element matcher against the var-array encoding.
-/
import Banyan.Model.C08
import Banyan.Lemmas.Entity
import Banyan.Props.C12

namespace Banyan.C08
open Banyan

theorem esc_ne_delim : ¬ C12.esc = C12.delim := by decide

theorem matchElem_cons (b : Byte) (rest v : Bytes) (m : Bool) :
    matchElem (b :: rest) v m =
      if b = C12.delim then some (m && v.isEmpty, rest)
      else if b = C12.esc then
        match rest with
        | [] => none
        | c :: rest' =>
          match v with
          | [] => matchElem rest' [] false
          | x :: v' => matchElem rest' v' (m && x == c)
      else
        match v with
        | [] => matchElem rest [] false
        | x :: v' => matchElem rest v' (m && x == b) := by
  rw [matchElem.eq_def]; rfl

/-- `matchVarArrayElement` on a well-formed element: compares with the unescaped value and returns the rest. -/
theorem matchElem_escapeBody (e rest v : Bytes) (m : Bool) :
    matchElem (C12.escapeBody e ++ C12.delim :: rest) v m = some (m && decide (e = v), rest) := by
  induction e generalizing v m with
  | nil =>
    cases v <;> simp [C12.escapeBody, matchElem_cons]
  | cons b bs ih =>
    simp only [C12.escapeBody]
    by_cases h : b = C12.delim ∨ b = C12.esc
    · simp only [h, if_true, List.cons_append]
      rw [matchElem_cons]
      simp only [esc_ne_delim, if_false, if_true]
      cases v with
      | nil => simp [ih]
      | cons x v' =>
        simp only [ih]
        have hbx : (b = x) = (x = b) := propext eq_comm
        by_cases hx : x = b <;> by_cases hv : bs = v' <;> simp [hx, hv, hbx]
    · have h1 : ¬ b = C12.esc := fun e => h (Or.inr e)
      have h2 : ¬ b = C12.delim := fun e => h (Or.inl e)
      simp only [h, if_false, List.cons_append]
      rw [matchElem_cons]
      simp only [h1, h2, if_false]
      cases v with
      | nil => simp [ih]
      | cons x v' =>
        simp only [ih]
        have hbx : (b = x) = (x = b) := propext eq_comm
        by_cases hx : x = b <;> by_cases hv : bs = v' <;> simp [hx, hv, hbx]

theorem matchElem_marshal (e rest v : Bytes) :
    matchElem (C12.marshalEntityValue e ++ rest) v true = some (decide (e = v), rest) := by
  unfold C12.marshalEntityValue
  rw [List.append_assoc]
  simpa using matchElem_escapeBody e rest v true

theorem marshalEntityValue_ne_nil (e : Bytes) (rest : Bytes) : C12.marshalEntityValue e ++ rest ≠ [] := by
  simp [C12.marshalEntityValue]

theorem marshalStrArr_length (es : List Bytes) : es.length ≤ (marshalStrArr es).length := by
  induction es with
  | nil => simp [marshalStrArr]
  | cons e es ih =>
    simp only [marshalStrArr, List.length_append, List.length_cons, C12.marshalEntityValue]
    simp
    omega

/-- scanning a well-formed serialized array finds `v` iff `v` is one of its elements -/
theorem findElem_marshalStrArr (es : List Bytes) (v : Bytes) (fuel : Nat) (h : es.length < fuel) :
    findElem fuel (marshalStrArr es) v = some (es.contains v) := by
  induction es generalizing fuel with
  | nil =>
    cases fuel with
    | zero => omega
    | succ f => simp [marshalStrArr, findElem]
  | cons e es ih =>
    cases fuel with
    | zero => omega
    | succ f =>
      simp only [marshalStrArr]
      have hne := marshalEntityValue_ne_nil e (marshalStrArr es)
      unfold findElem
      cases hm : C12.marshalEntityValue e ++ marshalStrArr es with
      | nil => exact absurd hm hne
      | cons x xs =>
        simp only
        rw [← hm, matchElem_marshal]
        by_cases hev : e = v
        · have hd : decide (e = v) = true := by simp [hev]
          rw [hd, List.contains_cons]
          have : (v == e) = true := by simp [hev]
          simp only [this, Bool.true_or]
        · have hlt : es.length < f := by simp at h; omega
          have hd : decide (e = v) = false := by simp [hev]
          rw [hd]
          simp only
          rw [ih f hlt, List.contains_cons]
          have : (v == e) = false := by
            apply beq_eq_false_iff_ne.mpr
            exact fun e' => hev e'.symm
          rw [this, Bool.false_or]

theorem extractStrArr_marshal (es items : List Bytes) :
    extractStrArr (marshalStrArr es) items = items.all fun v => es.contains v := by
  induction items with
  | nil => simp [extractStrArr]
  | cons v vs ih =>
    simp only [extractStrArr, List.all_cons]
    rw [findElem_marshalStrArr es v _ (by have := marshalStrArr_length es; omega)]
    cases hc : es.contains v
    · simp
    · simp [ih]

/-! ### int arrays -/

theorem encI64_length (v : I64) : (encI64 v).length = 8 := by
  simp [encI64, C12.int64ToBytes, beBytes_length]

theorem encI64_injective (a b : I64) (h : encI64 a = encI64 b) : a = b :=
  C12.int64ToBytes_injective a b h

theorem chunks8_flatten (l : List I64) (fuel : Nat) (h : l.length < fuel) :
    chunks8 fuel ((l.map encI64).flatten) = l.map encI64 := by
  induction l generalizing fuel with
  | nil =>
    cases fuel with
    | zero => omega
    | succ f => simp [chunks8]
  | cons x xs ih =>
    cases fuel with
    | zero => omega
    | succ f =>
      simp only [List.map_cons, List.flatten_cons, chunks8]
      have h8 := encI64_length x
      have hlen : ¬ (encI64 x ++ (xs.map encI64).flatten).length < 8 := by
        simp [List.length_append, h8]
      simp only [hlen, if_false]
      rw [List.take_left' h8, List.drop_left' h8, ih f (by simp at h; omega)]

theorem flatten_enc_length (l : List I64) : ((l.map encI64).flatten).length = 8 * l.length := by
  induction l with
  | nil => rfl
  | cons x xs ih => simp [List.length_append, encI64_length, ih]; omega

theorem contains_map_enc (l : List I64) (x : I64) : (l.map encI64).contains (encI64 x) = l.contains x := by
  induction l with
  | nil => rfl
  | cons y ys ih =>
    simp only [List.map_cons, List.contains_cons, ih]
    by_cases hxy : x = y
    · subst hxy; simp
    · have h1 : (encI64 x == encI64 y) = false :=
        beq_eq_false_iff_ne.mpr fun e => hxy (encI64_injective _ _ e)
      have h2 : (x == y) = false := beq_eq_false_iff_ne.mpr hxy
      rw [h1, h2]

theorem extractIntArr_enc (a items : List I64) :
    extractIntArr ((a.map encI64).flatten) (items.map encI64) = items.all fun x => a.contains x := by
  unfold extractIntArr
  rw [chunks8_flatten a _ (by rw [flatten_enc_length]; omega), List.all_map]
  congr 1
  funext x
  simp only [Function.comp_def, contains_map_enc]

end Banyan.C08
