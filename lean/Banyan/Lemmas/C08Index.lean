/-
C08: the compiled inverted filter, executed against the abstract index, returns (at least) every document
that satisfies the criteria. `isem` is the per-document meaning of a filter tree; `exec` computes exactly the
documents with that meaning (`exec_clean`), and the meaning is implied by the scan predicate (`isem_of_holds`).
-/
import Banyan.Model.C08
import Banyan.Lemmas.C08Order
import Banyan.Lemmas.C08Skip

namespace Banyan.C08
open Banyan

/-- per-document meaning of an inverted filter -/
def isem (cfg : List Cfg) : IFilter → Doc → Bool
  | .enode, _ => true
  | .eq _ none, _ => false
  | .eq tag (some t), d => (docTerms cfg tag d).contains t
  | .range tag r, d =>
    match r with
    | .all => docVisible cfg d
    | r => (docTerms cfg tag d).any (termInRange r)
  | .not _ f, d => docVisible cfg d && !isem cfg f d
  | .and l r, d => isem cfg l d && isem cfg r d
  | .or l r, d => isem cfg l d || isem cfg r d

/-- filters whose execution never yields the bypass list -/
inductive Clean : IFilter → Prop
  | eq (tag t) : Clean (.eq tag t)
  | range (tag r) : Clean (.range tag r)
  | not (tag) {f} : Clean f → Clean (.not tag f)
  | andBoth {l r} : Clean l → Clean r → Clean (.and l r)
  | andL {l} : Clean l → Clean (.and l .enode)
  | andR {r} : Clean r → Clean (.and .enode r)
  | or {l r} : Clean l → Clean r → Clean (.or l r)

theorem Clean.not_enode {f : IFilter} (h : Clean f) : f.isEnode = false := by
  cases h <;> rfl

theorem nodup_fst_eq {docs : List Doc} (hn : (docs.map (·.1)).Nodup) {d d' : Doc}
    (hd : d ∈ docs) (hd' : d' ∈ docs) (he : d.1 = d'.1) : d = d' := by
  induction docs with
  | nil => cases hd
  | cons x xs ih =>
    simp only [List.map_cons, List.nodup_cons, List.mem_map, not_exists, not_and] at hn
    rcases List.mem_cons.mp hd with rfl | h1 <;> rcases List.mem_cons.mp hd' with rfl | h2
    · rfl
    · exact absurd he.symm (hn.1 d' h2)
    · exact absurd he (hn.1 d h1)
    · exact ih hn.2 h1 h2

/-- `Execute` computes exactly the documents with the filter's meaning. -/
theorem exec_clean (cfg : List Cfg) (docs : List Doc) (hn : (docs.map (·.1)).Nodup) {f : IFilter} (hc : Clean f) :
    ∃ l, exec cfg docs f = .ids l ∧ ∀ i, i ∈ l ↔ ∃ d ∈ docs, d.1 = i ∧ isem cfg f d = true := by
  induction hc with
  | eq tag t =>
    cases t with
    | none => exact ⟨[], rfl, by simp [isem]⟩
    | some t =>
      refine ⟨_, rfl, ?_⟩
      intro i
      simp only [List.mem_map, List.mem_filter, isem]
      constructor
      · rintro ⟨d, ⟨hd, hp⟩, rfl⟩; exact ⟨d, hd, rfl, hp⟩
      · rintro ⟨d, hd, rfl, hp⟩; exact ⟨d, ⟨hd, hp⟩, rfl⟩
  | range tag r =>
    cases r with
    | all =>
      refine ⟨_, rfl, ?_⟩
      intro i
      simp only [visibleIds, List.mem_map, List.mem_filter, isem]
      constructor
      · rintro ⟨d, ⟨hd, hp⟩, rfl⟩; exact ⟨d, hd, rfl, hp⟩
      · rintro ⟨d, hd, rfl, hp⟩; exact ⟨d, ⟨hd, hp⟩, rfl⟩
    | int rg =>
      refine ⟨_, rfl, ?_⟩
      intro i
      simp only [List.mem_map, List.mem_filter, isem]
      constructor
      · rintro ⟨d, ⟨hd, hp⟩, rfl⟩; exact ⟨d, hd, rfl, hp⟩
      · rintro ⟨d, hd, rfl, hp⟩; exact ⟨d, ⟨hd, hp⟩, rfl⟩
    | bytes lo hi il ih =>
      refine ⟨_, rfl, ?_⟩
      intro i
      simp only [List.mem_map, List.mem_filter, isem]
      constructor
      · rintro ⟨d, ⟨hd, hp⟩, rfl⟩; exact ⟨d, hd, rfl, hp⟩
      · rintro ⟨d, hd, rfl, hp⟩; exact ⟨d, ⟨hd, hp⟩, rfl⟩
  | not tag hf ih =>
    obtain ⟨l, hl, hmem⟩ := ih
    refine ⟨(visibleIds cfg docs).filter fun i => !l.contains i, by simp [exec, hl], ?_⟩
    intro i
    simp only [List.mem_filter, visibleIds, List.mem_map, Bool.not_eq_true', isem, Bool.and_eq_true]
    constructor
    · rintro ⟨⟨d, ⟨hd, hv⟩, rfl⟩, hni⟩
      refine ⟨d, hd, rfl, hv, ?_⟩
      cases hs : isem cfg _ d with
      | false => rfl
      | true =>
        have : d.1 ∈ l := (hmem d.1).mpr ⟨d, hd, rfl, hs⟩
        simp [this] at hni
    · rintro ⟨d, hd, rfl, hv, hns⟩
      refine ⟨⟨d, ⟨hd, hv⟩, rfl⟩, ?_⟩
      cases hc : l.contains d.1 with
      | false => rfl
      | true =>
        have : d.1 ∈ l := by simpa using hc
        obtain ⟨d', hd', he, hs⟩ := (hmem d.1).mp this
        have := nodup_fst_eq hn hd' hd he
        subst this
        rw [hs] at hns; cases hns
  | andBoth hl hr ihl ihr =>
    obtain ⟨a, ha, hma⟩ := ihl
    obtain ⟨b, hb, hmb⟩ := ihr
    refine ⟨a.filter fun i => b.contains i, by simp [exec, ha, hb], ?_⟩
    intro i
    simp only [List.mem_filter, isem, Bool.and_eq_true]
    constructor
    · rintro ⟨hia, hib⟩
      obtain ⟨d, hd, he, hs⟩ := (hma i).mp hia
      obtain ⟨d', hd', he', hs'⟩ := (hmb i).mp (by simpa using hib)
      have := nodup_fst_eq hn hd hd' (he.trans he'.symm)
      subst this
      exact ⟨d, hd, he, hs, hs'⟩
    · rintro ⟨d, hd, he, hs, hs'⟩
      exact ⟨(hma i).mpr ⟨d, hd, he, hs⟩, by simpa using (hmb i).mpr ⟨d, hd, he, hs'⟩⟩
  | andL hl ihl =>
    obtain ⟨a, ha, hma⟩ := ihl
    refine ⟨a, by simp [exec, ha], ?_⟩
    intro i
    simp only [isem, Bool.and_true]
    exact hma i
  | andR hr ihr =>
    obtain ⟨b, hb, hmb⟩ := ihr
    refine ⟨b, by simp [exec, hb], ?_⟩
    intro i
    simp only [isem, Bool.true_and]
    exact hmb i
  | or hl hr ihl ihr =>
    obtain ⟨a, ha, hma⟩ := ihl
    obtain ⟨b, hb, hmb⟩ := ihr
    refine ⟨(docs.map (·.1)).filter fun i => a.contains i || b.contains i, by simp [exec, ha, hb], ?_⟩
    intro i
    simp only [List.mem_filter, List.mem_map, isem, Bool.or_eq_true]
    constructor
    · rintro ⟨⟨d0, hd0, rfl⟩, hab⟩
      rcases hab with h | h
      · obtain ⟨d, hd, he, hs⟩ := (hma d0.1).mp (by simpa using h)
        exact ⟨d, hd, he, Or.inl hs⟩
      · obtain ⟨d, hd, he, hs⟩ := (hmb d0.1).mp (by simpa using h)
        exact ⟨d, hd, he, Or.inr hs⟩
    · rintro ⟨d, hd, rfl, hs⟩
      refine ⟨⟨d, hd, rfl⟩, ?_⟩
      rcases hs with h | h
      · left; simpa using (hma d.1).mpr ⟨d, hd, rfl, h⟩
      · right; simpa using (hmb d.1).mpr ⟨d, hd, rfl, h⟩

/-- for a document of the index, membership of its id in the result = the filter's meaning on it -/
theorem exec_contains (cfg : List Cfg) (docs : List Doc) (hn : (docs.map (·.1)).Nodup) {f : IFilter}
    (hc : f = .enode ∨ Clean f) (d : Doc) (hd : d ∈ docs) :
    (exec cfg docs f).contains d.1 = isem cfg f d := by
  rcases hc with rfl | hc
  · rfl
  · obtain ⟨l, hl, hm⟩ := exec_clean cfg docs hn hc
    rw [hl]
    simp only [PL.contains]
    cases hs : isem cfg f d with
    | true => simpa using (hm d.1).mpr ⟨d, hd, rfl, hs⟩
    | false =>
      cases hcn : l.contains d.1 with
      | false => rfl
      | true =>
        obtain ⟨d', hd', he, hs'⟩ := (hm d.1).mp (by simpa using hcn)
        have := nodup_fst_eq hn hd' hd he
        subst this
        rw [hs] at hs'; cases hs'


/-! ### shape of compiled filters -/

theorem eqOfSub_clean (tag : Nat) (v : Val) : Clean (eqOfSub tag v) := by
  cases v <;> exact Clean.eq _ _

theorem foldl_and_clean (fs : List IFilter) (f0 : IFilter) (h0 : Clean f0) (hs : ∀ g ∈ fs, Clean g) :
    Clean (fs.foldl IFilter.and f0) := by
  induction fs generalizing f0 with
  | nil => exact h0
  | cons g gs ih =>
    exact ih _ (Clean.andBoth h0 (hs g (by simp))) (fun g' hg' => hs g' (by simp [hg']))

theorem foldl_or_clean (fs : List IFilter) (f0 : IFilter) (h0 : Clean f0) (hs : ∀ g ∈ fs, Clean g) :
    Clean (fs.foldl IFilter.or f0) := by
  induction fs generalizing f0 with
  | nil => exact h0
  | cons g gs ih =>
    exact ih _ (Clean.or h0 (hs g (by simp))) (fun g' hg' => hs g' (by simp [hg']))

theorem chain_and_clean (tag : Nat) (e : Val) (es : List Val) :
    Clean ((es.map (eqOfSub tag)).foldl IFilter.and (eqOfSub tag e)) :=
  foldl_and_clean _ _ (eqOfSub_clean _ _) (by
    intro g hg
    obtain ⟨x, _, rfl⟩ := List.mem_map.mp hg
    exact eqOfSub_clean _ _)

theorem chain_or_clean (tag : Nat) (e : Val) (es : List Val) :
    Clean ((es.map (eqOfSub tag)).foldl IFilter.or (eqOfSub tag e)) :=
  foldl_or_clean _ _ (eqOfSub_clean _ _) (by
    intro g hg
    obtain ⟨x, _, rfl⟩ := List.mem_map.mp hg
    exact eqOfSub_clean _ _)

theorem compileInvLeaf_range (schema : List TagType) (op : Op) (tag : Nat) (lit : Val) (hop : isRangeOp op = true) :
    compileInvLeaf schema op tag lit =
      match lit with
      | .int v => (match intRangeOf op v with
        | some r => .ok (.range tag (.int r))
        | none => .panic)
      | .str s => (match strRangeOf op s with
        | some r => .ok (.range tag r)
        | none => .panic)
      | .null => .ok (.range tag .all)
      | _ => .panic := by
  cases op <;> first | rfl | (simp [isRangeOp] at hop)

theorem compileInvLeaf_shape {schema : List TagType} {op : Op} {tag : Nat} {lit : Val} {f : IFilter}
    (h : compileInvLeaf schema op tag lit = .ok f) : f = .enode ∨ Clean f := by
  cases op with
  | lt | le | gt | ge =>
    rw [compileInvLeaf_range _ _ _ _ rfl] at h
    cases lit with
    | int v =>
      simp only at h
      split at h
      · cases h; right; exact Clean.range _ _
      · cases h
    | str s =>
      simp only at h
      split at h
      · cases h; right; exact Clean.range _ _
      · cases h
    | null => cases h; right; exact Clean.range _ _
    | strArr _ => cases h
    | intArr _ => cases h
  | eq =>
    unfold compileInvLeaf at h
    simp only at h
    split at h
    · cases h; right; exact Clean.eq _ _
    · cases h
  | ne =>
    unfold compileInvLeaf at h
    simp only at h
    split at h
    · cases h; right; exact Clean.not _ (Clean.eq _ _)
    · cases h
  | match_ => unfold compileInvLeaf at h; simp only at h; cases h
  | having =>
    unfold compileInvLeaf at h
    simp only at h
    split at h
    · cases h
    · cases h; left; rfl
    · cases h; right; exact chain_and_clean _ _ _
  | notHaving =>
    unfold compileInvLeaf at h
    simp only at h
    split at h
    · cases h
    · cases h; left; rfl
    · cases h; right; exact Clean.not _ (chain_and_clean _ _ _)
  | in_ =>
    unfold compileInvLeaf at h
    simp only at h
    split at h
    · cases h
    · split at h
      · cases h
      · cases h; left; rfl
      · cases h; right; exact chain_or_clean _ _ _
  | notIn =>
    unfold compileInvLeaf at h
    simp only at h
    split at h
    · cases h
    · split at h
      · cases h
      · cases h; left; rfl
      · cases h; right; exact Clean.not _ (chain_or_clean _ _ _)

theorem compileInv_shape {schema : List TagType} {cfg : List Cfg} {c : Criteria} {f : IFilter}
    (h : compileInv schema cfg c = .ok f) : f = .enode ∨ Clean f := by
  induction c generalizing f with
  | leaf op tag lit =>
    simp only [compileInv] at h
    split at h
    · cases h
    · split at h
      · exact compileInvLeaf_shape h
      · cases h; left; rfl
  | and a b iha ihb =>
    simp only [compileInv] at h
    split at h
    · rename_i l hl
      split at h
      · rename_i r hr
        split at h
        · cases h; left; rfl
        · rename_i hne
          cases h
          right
          rcases iha hl with rfl | cl <;> rcases ihb hr with rfl | cr
          · simp [IFilter.isEnode] at hne
          · exact Clean.andR cr
          · exact Clean.andL cl
          · exact Clean.andBoth cl cr
      · rename_i hne; exact absurd h (hne f)
    · rename_i hne; exact absurd h (hne f)
  | or a b iha ihb =>
    simp only [compileInv] at h
    split at h
    · rename_i l hl
      split at h
      · rename_i r hr
        split at h
        · cases h; left; rfl
        · rename_i hne
          cases h
          right
          rcases iha hl with rfl | cl <;> rcases ihb hr with rfl | cr
          · simp [IFilter.isEnode] at hne
          · simp [IFilter.isEnode] at hne
          · simp [IFilter.isEnode] at hne
          · exact Clean.or cl cr
      · rename_i hne; exact absurd h (hne f)
    · rename_i hne; exact absurd h (hne f)


/-! ### meaning of chains -/

def subTerm : Val → Option Term
  | .str s => some (.bytes s)
  | .int i => some (.num i)
  | _ => none

def hasSub (terms : List Term) (x : Val) : Bool :=
  match subTerm x with
  | some t => terms.contains t
  | none => false

theorem isem_eqOfSub (cfg : List Cfg) (tag : Nat) (x : Val) (d : Doc) :
    isem cfg (eqOfSub tag x) d = hasSub (docTerms cfg tag d) x := by
  cases x <;> simp [eqOfSub, isem, hasSub, subTerm]

theorem isem_foldl_and (cfg : List Cfg) (fs : List IFilter) (f0 : IFilter) (d : Doc) :
    isem cfg (fs.foldl IFilter.and f0) d = (isem cfg f0 d && fs.all fun g => isem cfg g d) := by
  induction fs generalizing f0 with
  | nil => simp
  | cons g gs ih => simp [ih, isem, Bool.and_assoc]

theorem isem_foldl_or (cfg : List Cfg) (fs : List IFilter) (f0 : IFilter) (d : Doc) :
    isem cfg (fs.foldl IFilter.or f0) d = (isem cfg f0 d || fs.any fun g => isem cfg g d) := by
  induction fs generalizing f0 with
  | nil => simp
  | cons g gs ih => simp [ih, isem, Bool.or_assoc]

theorem isem_chain_and (cfg : List Cfg) (tag : Nat) (x0 : Val) (xs : List Val) (d : Doc) :
    isem cfg ((xs.map (eqOfSub tag)).foldl IFilter.and (eqOfSub tag x0)) d =
      (x0 :: xs).all (hasSub (docTerms cfg tag d)) := by
  rw [isem_foldl_and]
  simp [isem_eqOfSub, List.all_map, Function.comp_def]

theorem isem_chain_or (cfg : List Cfg) (tag : Nat) (x0 : Val) (xs : List Val) (d : Doc) :
    isem cfg ((xs.map (eqOfSub tag)).foldl IFilter.or (eqOfSub tag x0)) d =
      (x0 :: xs).any (hasSub (docTerms cfg tag d)) := by
  rw [isem_foldl_or]
  simp [isem_eqOfSub, List.any_map, Function.comp_def]

theorem docTerms_inv {cfg : List Cfg} {tag : Nat} {d : Doc} {v : Val}
    (h : cfg[tag]? = some .inverted) (hv : d.2.get tag = some v) : docTerms cfg tag d = valTerms v := by
  simp [docTerms, h, hv]

theorem contains_map_bytes (a : List Bytes) (s : Bytes) : (a.map Term.bytes).contains (Term.bytes s) = a.contains s := by
  induction a with
  | nil => rfl
  | cons x xs ih =>
    simp only [List.map_cons, List.contains_cons, ih]
    by_cases h : s = x
    · subst h; simp
    · have h1 : (Term.bytes s == Term.bytes x) = false := beq_eq_false_iff_ne.mpr (by simp [h])
      have h2 : (s == x) = false := beq_eq_false_iff_ne.mpr h
      rw [h1, h2]

theorem contains_map_num (a : List I64) (s : I64) : (a.map Term.num).contains (Term.num s) = a.contains s := by
  induction a with
  | nil => rfl
  | cons x xs ih =>
    simp only [List.map_cons, List.contains_cons, ih]
    by_cases h : s = x
    · subst h; simp
    · have h1 : (Term.num s == Term.num x) = false := beq_eq_false_iff_ne.mpr (by simp [h])
      have h2 : (s == x) = false := beq_eq_false_iff_ne.mpr h
      rw [h1, h2]

theorem not_contains_map_bytes_num (a : List Bytes) (i : I64) : (a.map Term.bytes).contains (Term.num i) = false := by
  induction a with
  | nil => rfl
  | cons x xs ih =>
    simp only [List.map_cons, List.contains_cons, ih, Bool.or_false]
    exact beq_eq_false_iff_ne.mpr (by simp)

theorem not_contains_map_num_bytes (a : List I64) (s : Bytes) : (a.map Term.num).contains (Term.bytes s) = false := by
  induction a with
  | nil => rfl
  | cons x xs ih =>
    simp only [List.map_cons, List.contains_cons, ih, Bool.or_false]
    exact beq_eq_false_iff_ne.mpr (by simp)

/-- HAVING: scan verdict ⇒ every sub-expression's term is indexed for the document -/
theorem hasSub_of_valContains {v lit : Val} {xs : List Val} (h : valContains v lit = true) (hs : subExprs lit = some xs) :
    ∀ x ∈ xs, hasSub (valTerms v) x = true := by
  cases v with
  | null => simp [valContains] at h
  | str s =>
    cases lit with
    | strArr l =>
      have := single_of_len_head (by simpa [valContains] using h : (l.length == 1 && l.head? == some s) = true)
      subst this
      simp only [subExprs, Option.some.injEq] at hs; subst hs
      simp [hasSub, subTerm, valTerms]
    | _ => simp [valContains] at h
  | int i =>
    cases lit with
    | intArr l =>
      have := single_of_len_head (by simpa [valContains] using h : (l.length == 1 && l.head? == some i) = true)
      subst this
      simp only [subExprs, Option.some.injEq] at hs; subst hs
      simp [hasSub, subTerm, valTerms]
    | _ => simp [valContains] at h
  | strArr a =>
    cases lit with
    | str l =>
      simp only [subExprs, Option.some.injEq] at hs; subst hs
      simp only [valContains] at h
      have hm : l ∈ a := by simpa using h
      simp [hasSub, subTerm, valTerms, hm]
    | strArr l =>
      simp only [subExprs, Option.some.injEq] at hs; subst hs
      simp only [valContains, List.all_eq_true] at h
      intro x hx
      obtain ⟨y, hy, rfl⟩ := List.mem_map.mp hx
      have hm : y ∈ a := by simpa using h y hy
      simp [hasSub, subTerm, valTerms, hm]
    | _ => simp [valContains] at h
  | intArr a =>
    cases lit with
    | int l =>
      simp only [subExprs, Option.some.injEq] at hs; subst hs
      simp only [valContains] at h
      have hm : l ∈ a := by simpa using h
      simp [hasSub, subTerm, valTerms, hm]
    | intArr l =>
      simp only [subExprs, Option.some.injEq] at hs; subst hs
      simp only [valContains, List.all_eq_true] at h
      intro x hx
      obtain ⟨y, hy, rfl⟩ := List.mem_map.mp hx
      have hm : y ∈ a := by simpa using h y hy
      simp [hasSub, subTerm, valTerms, hm]
    | _ => simp [valContains] at h

/-- NOT HAVING on an array-typed (or null) value: if every sub-expression's term is indexed, HAVING holds -/
theorem valContains_of_hasSub {v lit : Val} {x0 : Val} {xs : List Val}
    (hv : v = .null ∨ (∃ a, v = .strArr a) ∨ (∃ a, v = .intArr a))
    (hs : subExprs lit = some (x0 :: xs)) (h : (x0 :: xs).all (hasSub (valTerms v)) = true) :
    valContains v lit = true := by
  rcases hv with rfl | ⟨a, rfl⟩ | ⟨a, rfl⟩
  · simp [valTerms, hasSub] at h
    cases hx : subTerm x0 <;> simp [hx] at h
  · cases lit with
    | null => simp [subExprs] at hs
    | str l =>
      simp only [subExprs, Option.some.injEq, List.cons.injEq] at hs
      obtain ⟨rfl, rfl⟩ := hs
      simpa [hasSub, subTerm, valTerms, contains_map_bytes, valContains] using h
    | int l =>
      simp only [subExprs, Option.some.injEq, List.cons.injEq] at hs
      obtain ⟨rfl, rfl⟩ := hs
      simp [hasSub, subTerm, valTerms, not_contains_map_bytes_num] at h
    | strArr l =>
      simp only [subExprs, Option.some.injEq] at hs
      rw [← hs] at h
      simp only [valContains, List.all_eq_true]
      intro y hy
      simp only [List.all_eq_true] at h
      have := h (.str y) (List.mem_map.mpr ⟨y, hy, rfl⟩)
      simpa [hasSub, subTerm, valTerms, contains_map_bytes] using this
    | intArr l =>
      simp only [subExprs, Option.some.injEq] at hs
      rw [← hs] at h
      cases l with
      | nil => simp at hs
      | cons y ys =>
        simp only [List.all_eq_true] at h
        have := h (.int y) (by simp)
        simp [hasSub, subTerm, valTerms, not_contains_map_bytes_num] at this
  · cases lit with
    | null => simp [subExprs] at hs
    | int l =>
      simp only [subExprs, Option.some.injEq, List.cons.injEq] at hs
      obtain ⟨rfl, rfl⟩ := hs
      simpa [hasSub, subTerm, valTerms, contains_map_num, valContains] using h
    | str l =>
      simp only [subExprs, Option.some.injEq, List.cons.injEq] at hs
      obtain ⟨rfl, rfl⟩ := hs
      simp [hasSub, subTerm, valTerms, not_contains_map_num_bytes] at h
    | intArr l =>
      simp only [subExprs, Option.some.injEq] at hs
      rw [← hs] at h
      simp only [valContains, List.all_eq_true]
      intro y hy
      simp only [List.all_eq_true] at h
      have := h (.int y) (List.mem_map.mpr ⟨y, hy, rfl⟩)
      simpa [hasSub, subTerm, valTerms, contains_map_num] using this
    | strArr l =>
      simp only [subExprs, Option.some.injEq] at hs
      rw [← hs] at h
      cases l with
      | nil => simp at hs
      | cons y ys =>
        simp only [List.all_eq_true] at h
        have := h (.str y) (by simp)
        simp [hasSub, subTerm, valTerms, not_contains_map_num_bytes] at this

/-- IN on a scalar value: scan verdict ⇒ some sub-expression's term is indexed -/
theorem hasSub_of_valBelongTo {v lit : Val} {xs : List Val} (h : valBelongTo v lit = true)
    (hv : (∃ s, v = .str s) ∨ (∃ i, v = .int i)) (hs : subExprs lit = some xs) :
    xs.any (hasSub (valTerms v)) = true := by
  rcases hv with ⟨s, rfl⟩ | ⟨i, rfl⟩
  · cases lit with
    | strArr l =>
      simp only [subExprs, Option.some.injEq] at hs; subst hs
      simp only [valBelongTo] at h
      simp only [List.any_map, List.any_eq_true, Function.comp_def]
      exact ⟨s, by simpa using h, by simp [hasSub, subTerm, valTerms]⟩
    | _ => simp [valBelongTo] at h
  · cases lit with
    | intArr l =>
      simp only [subExprs, Option.some.injEq] at hs; subst hs
      simp only [valBelongTo] at h
      simp only [List.any_map, List.any_eq_true, Function.comp_def]
      exact ⟨i, by simpa using h, by simp [hasSub, subTerm, valTerms]⟩
    | _ => simp [valBelongTo] at h

/-- NOT IN (array literal) on a scalar or null value: some indexed sub-expression term ⇒ IN holds -/
theorem valBelongTo_of_hasSub {v lit : Val} {xs : List Val}
    (hv : v = .null ∨ (∃ s, v = .str s) ∨ (∃ i, v = .int i))
    (hl : (∃ l, lit = .strArr l) ∨ (∃ l, lit = .intArr l))
    (hs : subExprs lit = some xs) (h : xs.any (hasSub (valTerms v)) = true) : valBelongTo v lit = true := by
  simp only [List.any_eq_true] at h
  obtain ⟨x, hx, hh⟩ := h
  rcases hv with rfl | ⟨s, rfl⟩ | ⟨i, rfl⟩
  · simp only [valTerms, hasSub] at hh
    cases hxx : subTerm x <;> simp [hxx] at hh
  · rcases hl with ⟨l, rfl⟩ | ⟨l, rfl⟩
    · simp only [subExprs, Option.some.injEq] at hs; subst hs
      obtain ⟨y, hy, rfl⟩ := List.mem_map.mp hx
      simp [hasSub, subTerm, valTerms] at hh
      subst hh
      simpa [valBelongTo] using hy
    · simp only [subExprs, Option.some.injEq] at hs; subst hs
      obtain ⟨y, hy, rfl⟩ := List.mem_map.mp hx
      simp [hasSub, subTerm, valTerms] at hh
  · rcases hl with ⟨l, rfl⟩ | ⟨l, rfl⟩
    · simp only [subExprs, Option.some.injEq] at hs; subst hs
      obtain ⟨y, hy, rfl⟩ := List.mem_map.mp hx
      simp [hasSub, subTerm, valTerms] at hh
    · simp only [subExprs, Option.some.injEq] at hs; subst hs
      obtain ⟨y, hy, rfl⟩ := List.mem_map.mp hx
      simp [hasSub, subTerm, valTerms] at hh
      subst hh
      simpa [valBelongTo] using hy


/-! ### ranges -/

/-- bluge's numeric range only widens the true integer range -/
theorem inIntRange_of_mem (r : IntRange) (i : I64) (h : r.mem i = true) : inIntRange r i = true := by
  simp only [IntRange.mem, Bool.and_eq_true] at h
  simp only [inIntRange, Bool.and_eq_true]
  constructor
  · cases hl : r.inclLo
    · simp only [hl, Bool.false_eq_true, if_false] at h
      by_cases hm : (r.lo == maxI64) = true
      · simp only [Bool.false_or, hm, if_true]
        exact (sle_iff _ _).mpr (by have := (slt_iff _ _).mp h.1; omega)
      · simp only [Bool.false_or, hm, Bool.false_eq_true, if_false]
        exact h.1
    · simp only [hl, if_true] at h
      simp [h.1]
  · cases hl : r.inclHi
    · simp only [hl, Bool.false_eq_true, if_false] at h
      by_cases hm : (r.hi == minI64) = true
      · simp only [Bool.false_or, hm, if_true]
        exact (sle_iff _ _).mpr (by have := (slt_iff _ _).mp h.2; omega)
      · simp only [Bool.false_or, hm, Bool.false_eq_true, if_false]
        exact h.2
    · simp only [hl, if_true] at h
      simp [h.2]

theorem cmpBytes_cases (a b : Bytes) :
    (lexLt a b = true ∧ cmpBytes a b = -1) ∨ (a = b ∧ cmpBytes a b = 0) ∨
      (lexLt a b = false ∧ a ≠ b ∧ lexLt b a = true ∧ cmpBytes a b = 1) := by
  unfold cmpBytes
  cases h : lexLt a b with
  | true => left; simp
  | false =>
    by_cases he : a = b
    · right; left; simp [he]
    · right; right
      refine ⟨rfl, he, ?_, by simp [he]⟩
      cases hb : lexLt b a with
      | true => rfl
      | false => exact absurd (lexLt_connected h hb) he

/-- string range on the inverted index: the scan verdict implies the term is inside the queried term range,
    provided the stored value lies strictly between the default bounds 8×00 and 8×FF (finding F28 otherwise). -/
theorem str_range_sem (mt : Val → Val → Bool) (op : Op) (s s' : Bytes) (r : IRange) (hr : strRangeOf op s = some r)
    (h1 : lexLt zeros8 s' = true) (h2 : lexLt s' ff8 = true)
    (he : leafEval cmpI64 mt op (.str s) (.str s') = true) : termInRange r (.bytes s') = true := by
  have hz : lexLt s' zeros8 = false := lexLt_asymm h1
  have hf : lexLt ff8 s' = false := lexLt_asymm h2
  rcases cmpBytes_cases s s' with ⟨hlt, hc⟩ | ⟨heq, hc⟩ | ⟨hnlt, hne, hgt, hc⟩
  · -- s < s'
    have hs's : lexLt s' s = false := lexLt_asymm hlt
    cases op <;> simp only [strRangeOf, Option.some.injEq, reduceCtorEq] at hr <;> subst hr <;>
      simp only [leafEval, rangeMatch, litCompare, hc] at he <;> try (simp at he; done)
    all_goals
      by_cases hem : s.isEmpty = true
      all_goals simp only [hem, if_true, Bool.false_eq_true, if_false, termInRange, inBytesRange, Bool.and_eq_true,
        Bool.not_eq_true']
    · exact ⟨lexLt_asymm (lexLt_trans h1 h2), h1, h2⟩
    · exact ⟨lexLt_asymm (lexLt_trans hlt h2), hlt, h2⟩
    · exact ⟨lexLt_asymm (lexLt_trans h1 h2), hz, h2⟩
    · exact ⟨lexLt_asymm (lexLt_trans hlt h2), hs's, h2⟩
  · -- s = s'
    subst heq
    have hirr : lexLt s s = false := lexLt_irrefl s
    cases op <;> simp only [strRangeOf, Option.some.injEq, reduceCtorEq] at hr <;> subst hr <;>
      simp only [leafEval, rangeMatch, litCompare, hc] at he <;> try (simp at he; done)
    all_goals
      by_cases hem : s.isEmpty = true
      all_goals simp only [hem, if_true, Bool.false_eq_true, if_false, termInRange, inBytesRange, Bool.and_eq_true,
        Bool.not_eq_true']
    · exact ⟨lexLt_asymm (lexLt_trans h1 h2), h1, hf⟩
    · exact ⟨lexLt_asymm h1, h1, hirr⟩
    · exact ⟨lexLt_asymm (lexLt_trans h1 h2), hz, h2⟩
    · exact ⟨lexLt_asymm h2, hirr, h2⟩
  · -- s' < s
    have hsne : s.isEmpty = false := by
      cases s with
      | nil => cases s' <;> simp [lexLt] at hgt
      | cons _ _ => rfl
    cases op <;> simp only [strRangeOf, Option.some.injEq, reduceCtorEq] at hr <;> subst hr <;>
      simp only [leafEval, rangeMatch, litCompare, hc] at he <;> try (simp at he; done)
    all_goals simp only [hsne, Bool.false_eq_true, if_false, if_true, termInRange, inBytesRange, Bool.and_eq_true,
        Bool.not_eq_true']
    · exact ⟨lexLt_asymm (lexLt_trans h1 hgt), h1, hgt⟩
    · exact ⟨lexLt_asymm (lexLt_trans h1 hgt), h1, hnlt⟩


/-! ### the scan verdict implies the filter's meaning -/

/-- side conditions of the inverted path for one condition and one document (each excludes a recorded finding or
    an ill-typed query form; see checks/C08.design.md):
    * negations need the document to be reachable through the index at all (F26) and a literal/tag shape on which
      term equality *is* the scan predicate;
    * string ranges need the stored string strictly between the searcher's default bounds (F28). -/
def LeafOk (schema : List TagType) (cfg : List Cfg) (d : Doc) (op : Op) (tag : Nat) (lit : Val) : Prop :=
  cfg[tag]? = some .inverted →
    match op with
    | .ne => docVisible cfg d = true ∧ (schema[tag]? = some .str ∨ schema[tag]? = some .int)
    | .notIn => docVisible cfg d = true ∧ ((∃ l, lit = .strArr l) ∨ (∃ l, lit = .intArr l))
    | .notHaving => docVisible cfg d = true ∧ (schema[tag]? = some .strArr ∨ schema[tag]? = some .intArr)
    | .lt | .le | .gt | .ge => ∀ s, d.2.get tag = some (.str s) → lexLt zeros8 s = true ∧ lexLt s ff8 = true
    | _ => True

def CritOk (schema : List TagType) (cfg : List Cfg) (d : Doc) : Criteria → Prop
  | .leaf op tag lit => LeafOk schema cfg d op tag lit
  | .and a b => CritOk schema cfg d a ∧ CritOk schema cfg d b
  | .or a b => CritOk schema cfg d a ∧ CritOk schema cfg d b

def RowTyped (schema : List TagType) (r : Row) : Prop :=
  ∀ tag v, r.get tag = some v → v = .null ∨ ∃ t, schema[tag]? = some t ∧ v.hasType t = true

theorem compileInvLeaf_sem (mt : Val → Val → Bool) (schema : List TagType) (cfg : List Cfg) (d : Doc)
    (op : Op) (tag : Nat) (lit : Val) (f : IFilter) (v : Val)
    (hinv : cfg[tag]? = some .inverted) (hv : d.2.get tag = some v)
    (hty : v = .null ∨ ∃ t, schema[tag]? = some t ∧ v.hasType t = true)
    (hok : LeafOk schema cfg d op tag lit)
    (hc : compileInvLeaf schema op tag lit = .ok f)
    (he : leafEval cmpI64 mt op lit v = true) : isem cfg f d = true := by
  have hterms := docTerms_inv hinv hv
  have hok' := hok hinv
  cases op with
  | eq =>
    unfold compileInvLeaf at hc
    simp only at hc
    simp only [leafEval] at he
    have := litEqual_eq he
    subst this
    cases lit <;> simp [litTerm] at hc <;> try (simp [litEqual] at he; done)
    all_goals subst hc; simp [isem, hterms, valTerms]
  | ne =>
    unfold compileInvLeaf at hc
    simp only at hc
    simp only [leafEval, Bool.not_eq_true'] at he
    obtain ⟨hvis, hsc⟩ := hok'
    have hscalar : v = .null ∨ (∃ s, v = .str s) ∨ (∃ i, v = .int i) := by
      rcases hty with rfl | ⟨t, ht, hh⟩
      · left; rfl
      · rcases hsc with h | h <;> rw [h] at ht <;> cases ht <;> cases v <;> simp [Val.hasType] at hh
        · right; left; exact ⟨_, rfl⟩
        · right; right; exact ⟨_, rfl⟩
    cases lit with
    | null => cases hc; simp [isem, hvis]
    | str l =>
      cases hc
      simp only [isem, hvis, hterms, Bool.true_and, Bool.not_eq_true']
      rcases hscalar with rfl | ⟨s, rfl⟩ | ⟨i, rfl⟩
      · simp [valTerms]
      · have : l ≠ s := by intro e; subst e; simp [litEqual] at he
        simp [valTerms, this]
      · simp [valTerms]
    | int l =>
      cases hc
      simp only [isem, hvis, hterms, Bool.true_and, Bool.not_eq_true']
      rcases hscalar with rfl | ⟨s, rfl⟩ | ⟨i, rfl⟩
      · simp [valTerms]
      · simp [valTerms]
      · have : l ≠ i := by intro e; subst e; simp [litEqual] at he
        simp [valTerms, this]
    | strArr _ => simp [litTerm] at hc
    | intArr _ => simp [litTerm] at hc
  | match_ => unfold compileInvLeaf at hc; simp only at hc; cases hc
  | lt | le | gt | ge =>
    rw [compileInvLeaf_range _ _ _ _ rfl] at hc
    cases lit with
    | int l =>
      simp only at hc
      split at hc
      · rename_i r hr
        cases hc
        cases v with
        | int i =>
          rw [leafEval_int_range mt _ l i r hr] at he
          simp [isem, hterms, valTerms, termInRange, inIntRange_of_mem r i he]
        | _ => simp [leafEval, rangeMatch, litCompare] at he
      · cases hc
    | str l =>
      simp only at hc
      split at hc
      · rename_i r hr
        cases hc
        cases v with
        | str s' =>
          obtain ⟨h1, h2⟩ := hok' s' hv
          have ht := str_range_sem mt _ l s' r hr h1 h2 he
          cases r with
          | all => simp [strRangeOf] at hr
          | int _ => simp [strRangeOf] at hr
          | bytes lo hi il ih => simp [isem, hterms, valTerms, ht]
        | _ => simp [leafEval, rangeMatch, litCompare] at he
      · cases hc
    | null => simp [leafEval, rangeMatch, litCompare] at he
    | strArr _ => cases hc
    | intArr _ => cases hc
  | having =>
    unfold compileInvLeaf at hc
    simp only at hc
    simp only [leafEval] at he
    split at hc
    · cases hc
    · cases hc; rfl
    · rename_i x0 xs hsub
      cases hc
      rw [isem_chain_and, hterms]
      simp only [List.all_eq_true]
      exact hasSub_of_valContains he hsub
  | notHaving =>
    unfold compileInvLeaf at hc
    simp only at hc
    simp only [leafEval, Bool.not_eq_true'] at he
    obtain ⟨hvis, harr⟩ := hok'
    split at hc
    · cases hc
    · cases hc; rfl
    · rename_i x0 xs hsub
      cases hc
      simp only [isem, hvis, Bool.true_and, Bool.not_eq_true']
      rw [isem_chain_and, hterms]
      cases hall : (x0 :: xs).all (hasSub (valTerms v)) with
      | false => rfl
      | true =>
        have hvarr : v = .null ∨ (∃ a, v = .strArr a) ∨ (∃ a, v = .intArr a) := by
          rcases hty with rfl | ⟨t, ht, hh⟩
          · left; rfl
          · rcases harr with h | h <;> rw [h] at ht <;> cases ht <;> cases v <;> simp [Val.hasType] at hh
            · right; left; exact ⟨_, rfl⟩
            · right; right; exact ⟨_, rfl⟩
        rw [valContains_of_hasSub hvarr hsub hall] at he
        cases he
  | in_ =>
    unfold compileInvLeaf at hc
    simp only at hc
    simp only [leafEval] at he
    split at hc
    · cases hc
    · rename_i hna
      split at hc
      · cases hc
      · cases hc; rfl
      · rename_i x0 xs hsub
        cases hc
        rw [isem_chain_or, hterms]
        have hscalar : (∃ s, v = .str s) ∨ (∃ i, v = .int i) := by
          rcases hty with rfl | ⟨t, ht, hh⟩
          · simp [valBelongTo] at he
          · rw [ht] at hna
            simp only [Option.map_some, Option.getD_some, Bool.not_eq_true] at hna
            cases v <;> cases t <;> simp_all [Val.hasType, TagType.isArray]
        exact hasSub_of_valBelongTo he hscalar hsub
  | notIn =>
    unfold compileInvLeaf at hc
    simp only at hc
    simp only [leafEval, Bool.not_eq_true'] at he
    obtain ⟨hvis, hlit⟩ := hok'
    split at hc
    · cases hc
    · rename_i hna
      split at hc
      · cases hc
      · cases hc; rfl
      · rename_i x0 xs hsub
        cases hc
        simp only [isem, hvis, Bool.true_and, Bool.not_eq_true']
        rw [isem_chain_or, hterms]
        cases hany : (x0 :: xs).any (hasSub (valTerms v)) with
        | false => rfl
        | true =>
          have hscalar : v = .null ∨ (∃ s, v = .str s) ∨ (∃ i, v = .int i) := by
            rcases hty with rfl | ⟨t, ht, hh⟩
            · left; rfl
            · rw [ht] at hna
              simp only [Option.map_some, Option.getD_some, Bool.not_eq_true] at hna
              right
              cases v <;> cases t <;> simp_all [Val.hasType, TagType.isArray]
          rw [valBelongTo_of_hasSub hscalar hlit hsub hany] at he
          cases he

/-- **the inverted index never loses a match**: if the scan predicate holds for a document (typed row, side
    conditions `CritOk`), the compiled inverted filter's meaning holds for it. -/
theorem isem_of_holds (mt : Val → Val → Bool) (schema : List TagType) (cfg : List Cfg) (d : Doc)
    (hty : RowTyped schema d.2) (c : Criteria) (f : IFilter)
    (hok : CritOk schema cfg d c) (hc : compileInv schema cfg c = .ok f)
    (he : eval mt c d.2 = some true) : isem cfg f d = true := by
  induction c generalizing f with
  | leaf op tag lit =>
    obtain ⟨v, hv, hle⟩ := evalWith_leaf_true he
    simp only [compileInv] at hc
    split at hc
    · cases hc
    · split at hc
      · rename_i hinv
        exact compileInvLeaf_sem mt schema cfg d op tag lit f v hinv hv (hty tag v hv) hok hc hle
      · cases hc; rfl
  | and a b iha ihb =>
    obtain ⟨ha, hb⟩ := evalWith_and_true he
    simp only [compileInv] at hc
    split at hc
    · rename_i l hl
      split at hc
      · rename_i r hr
        split at hc
        · cases hc; rfl
        · cases hc
          simp only [isem, Bool.and_eq_true]
          exact ⟨iha l hok.1 hl ha, ihb r hok.2 hr hb⟩
      · rename_i hne; exact absurd hc (hne f)
    · rename_i hne; exact absurd hc (hne f)
  | or a b iha ihb =>
    simp only [compileInv] at hc
    split at hc
    · rename_i l hl
      split at hc
      · rename_i r hr
        split at hc
        · cases hc; rfl
        · cases hc
          simp only [isem, Bool.or_eq_true]
          rcases evalWith_or_true he with h | h
          · left; exact iha l hok.1 hl h
          · right; exact ihb r hok.2 hr h
      · rename_i hne; exact absurd hc (hne f)
    · rename_i hne; exact absurd hc (hne f)

end Banyan.C08
