/-
C08: the block writer's running min/max (banyand/stream/block.go processTags, repaired F27) bracket every
stored non-null value.
-/
import Banyan.Model.C08
import Banyan.Lemmas.C08Order

namespace Banyan.C08
open Banyan

/-- invariant of the min fold: `acc` is empty (nothing seen) or a lower bound of everything seen -/
theorem foldl_minStep_le (vs : List (Option Bytes)) (acc : Bytes) (seen : List Bytes)
    (hne : ∀ v, some v ∈ vs → v ≠ []) (hs : ∀ v ∈ seen, v ≠ [])
    (hinv : (acc = [] ∧ seen = []) ∨ (acc ≠ [] ∧ ∀ v ∈ seen, lexLt v acc = false)) :
    let r := vs.foldl minStep acc
    (∀ v ∈ seen, lexLt v r = false) ∧ (∀ v, some v ∈ vs → lexLt v r = false) := by
  induction vs generalizing acc seen with
  | nil =>
    simp only [List.foldl_nil]
    refine ⟨?_, by simp⟩
    rcases hinv with ⟨_, rfl⟩ | ⟨_, h⟩
    · simp
    · exact h
  | cons x xs ih =>
    simp only [List.foldl_cons]
    cases x with
    | none =>
      have := ih acc seen (fun v hv => hne v (by simp [hv])) hs hinv
      refine ⟨this.1, ?_⟩
      intro v hv
      simp only [List.mem_cons, reduceCtorEq, false_or] at hv
      exact this.2 v hv
    | some w =>
      have hw : w ≠ [] := hne w (by simp)
      have step : minStep acc (some w) ≠ [] ∧ ∀ v ∈ w :: seen, lexLt v (minStep acc (some w)) = false := by
        rcases hinv with ⟨rfl, rfl⟩ | ⟨ha, hle⟩
        · simp [minStep, hw, lexLt_irrefl]
        · have hemp : acc.isEmpty = false := by cases acc <;> simp_all
          simp only [minStep, hemp, Bool.false_eq_true, if_false]
          by_cases hlt : lexLt w acc = true
          · simp only [hlt, if_true]
            refine ⟨hw, ?_⟩
            intro v hv
            rcases List.mem_cons.mp hv with rfl | hm
            · exact lexLt_irrefl _
            · cases hvw : lexLt v w with
              | false => rfl
              | true =>
                have h1 := lexLt_trans hvw hlt
                rw [hle v hm] at h1
                exact h1.symm
          · simp only [hlt, Bool.false_eq_true, if_false]
            refine ⟨ha, ?_⟩
            intro v hv
            rcases List.mem_cons.mp hv with rfl | hm
            · simpa using hlt
            · exact hle v hm
      have := ih (minStep acc (some w)) (w :: seen) (fun v hv => hne v (by simp [hv]))
        (by intro v hv; rcases List.mem_cons.mp hv with rfl | hm; exact hw; exact hs v hm) (Or.inr step)
      refine ⟨fun v hv => this.1 v (by simp [hv]), ?_⟩
      intro v hv
      simp only [List.mem_cons, Option.some.injEq] at hv
      rcases hv with rfl | hv
      · exact this.1 v (by simp)
      · exact this.2 v hv

theorem blockMin_le (vs : List (Option Bytes)) (hne : ∀ v, some v ∈ vs → v ≠ []) :
    ∀ v, some v ∈ vs → lexLt v (blockMin vs) = false :=
  (foldl_minStep_le vs [] [] hne (by simp) (Or.inl ⟨rfl, rfl⟩)).2

theorem foldl_maxStep_ge (vs : List (Option Bytes)) (acc : Bytes) (seen : List Bytes)
    (hne : ∀ v, some v ∈ vs → v ≠ []) (hs : ∀ v ∈ seen, v ≠ [])
    (hinv : (acc = [] ∧ seen = []) ∨ (acc ≠ [] ∧ ∀ v ∈ seen, lexLt acc v = false)) :
    let r := vs.foldl maxStep acc
    (∀ v ∈ seen, lexLt r v = false) ∧ (∀ v, some v ∈ vs → lexLt r v = false) := by
  induction vs generalizing acc seen with
  | nil =>
    simp only [List.foldl_nil]
    refine ⟨?_, by simp⟩
    rcases hinv with ⟨_, rfl⟩ | ⟨_, h⟩
    · simp
    · exact h
  | cons x xs ih =>
    simp only [List.foldl_cons]
    cases x with
    | none =>
      have := ih acc seen (fun v hv => hne v (by simp [hv])) hs hinv
      refine ⟨this.1, ?_⟩
      intro v hv
      simp only [List.mem_cons, reduceCtorEq, false_or] at hv
      exact this.2 v hv
    | some w =>
      have hw : w ≠ [] := hne w (by simp)
      have step : maxStep acc (some w) ≠ [] ∧ ∀ v ∈ w :: seen, lexLt (maxStep acc (some w)) v = false := by
        rcases hinv with ⟨rfl, rfl⟩ | ⟨ha, hle⟩
        · simp [maxStep, hw, lexLt_irrefl]
        · have hemp : acc.isEmpty = false := by cases acc <;> simp_all
          simp only [maxStep, hemp, Bool.false_eq_true, if_false]
          by_cases hlt : lexLt acc w = true
          · simp only [hlt, if_true]
            refine ⟨hw, ?_⟩
            intro v hv
            rcases List.mem_cons.mp hv with rfl | hm
            · exact lexLt_irrefl _
            · cases hvw : lexLt w v with
              | false => rfl
              | true =>
                have h1 := lexLt_trans hlt hvw
                rw [hle v hm] at h1
                exact h1.symm
          · simp only [hlt, Bool.false_eq_true, if_false]
            refine ⟨ha, ?_⟩
            intro v hv
            rcases List.mem_cons.mp hv with rfl | hm
            · simpa using hlt
            · exact hle v hm
      have := ih (maxStep acc (some w)) (w :: seen) (fun v hv => hne v (by simp [hv]))
        (by intro v hv; rcases List.mem_cons.mp hv with rfl | hm; exact hw; exact hs v hm) (Or.inr step)
      refine ⟨fun v hv => this.1 v (by simp [hv]), ?_⟩
      intro v hv
      simp only [List.mem_cons, Option.some.injEq] at hv
      rcases hv with rfl | hv
      · exact this.1 v (by simp)
      · exact this.2 v hv

theorem blockMax_ge (vs : List (Option Bytes)) (hne : ∀ v, some v ∈ vs → v ≠ []) :
    ∀ v, some v ∈ vs → lexLt (blockMax vs) v = false :=
  (foldl_maxStep_ge vs [] [] hne (by simp) (Or.inl ⟨rfl, rfl⟩)).2

end Banyan.C08
