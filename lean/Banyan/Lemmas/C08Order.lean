/-
Order lemmas for C08: `lexLt` (bytes.Compare < 0) is a strict total order on byte strings; the ordered int64
encoding transports it to the signed order (C12); block min/max pruning (`rangeSkip`) is sound.
-/
import Banyan.Model.C08
import Banyan.Props.C12

namespace Banyan.C08
open Banyan

theorem lexLt_irrefl (a : Bytes) : lexLt a a = false := by
  induction a with
  | nil => rfl
  | cons x xs ih => simp [lexLt, ih]

theorem lexLt_asymm {a b : Bytes} (h : lexLt a b = true) : lexLt b a = false := by
  induction a generalizing b with
  | nil => cases b <;> simp [lexLt] at *
  | cons x xs ih =>
    cases b with
    | nil => simp [lexLt] at h
    | cons y ys =>
      simp only [lexLt] at *
      by_cases h1 : x < y
      · have : ¬ y < x := Nat.lt_asymm h1
        simp [h1, this]
      · by_cases h2 : y < x
        · simp [h1, h2] at h
        · simp only [h1, h2, if_false] at *
          exact ih h

theorem lexLt_trans {a b c : Bytes} (h1 : lexLt a b = true) (h2 : lexLt b c = true) : lexLt a c = true := by
  induction a generalizing b c with
  | nil =>
    cases b with
    | nil => simp [lexLt] at h1
    | cons y ys => cases c <;> simp [lexLt] at *
  | cons x xs ih =>
    cases b with
    | nil => simp [lexLt] at h1
    | cons y ys =>
      cases c with
      | nil => simp [lexLt] at h2
      | cons z zs =>
        simp only [lexLt] at *
        by_cases hxy : x < y
        · by_cases hyz : y < z
          · have : x < z := Nat.lt_trans hxy hyz
            simp [this]
          · by_cases hzy : z < y
            · simp [hyz, hzy] at h2
            · have hyz' : y = z := Nat.le_antisymm (Nat.le_of_not_lt hzy) (Nat.le_of_not_lt hyz)
              subst hyz'
              simp [hxy]
        · by_cases hyx : y < x
          · simp [hxy, hyx] at h1
          · simp only [hxy, hyx, if_false] at h1
            have hxy' : x = y := Nat.le_antisymm (Nat.le_of_not_lt hyx) (Nat.le_of_not_lt hxy)
            subst hxy'
            by_cases hyz : x < z
            · simp [hyz]
            · by_cases hzy : z < x
              · simp [hyz, hzy] at h2
              · simp only [hyz, hzy, if_false] at h2 ⊢
                exact ih h1 h2

theorem lexLt_connected {a b : Bytes} (h1 : lexLt a b = false) (h2 : lexLt b a = false) : a = b := by
  induction a generalizing b with
  | nil => cases b <;> simp [lexLt] at *
  | cons x xs ih =>
    cases b with
    | nil => simp [lexLt] at h2
    | cons y ys =>
      simp only [lexLt] at *
      by_cases hxy : x < y
      · simp [hxy] at h1
      · by_cases hyx : y < x
        · simp [hyx] at h2
        · simp only [hxy, hyx, if_false] at h1 h2
          have : x = y := Nat.le_antisymm (Nat.le_of_not_lt hyx) (Nat.le_of_not_lt hxy)
          subst this
          rw [ih h1 h2]

/-- `y ≤ m < x` gives `y < x`. -/
theorem lexLt_of_le_of_lt {m x y : Bytes} (hmx : lexLt m x = true) (hmy : lexLt m y = false) : lexLt y x = true := by
  cases hyx : lexLt y x with
  | true => rfl
  | false =>
    cases hxy : lexLt x y with
    | true => rw [lexLt_trans hmx hxy] at hmy; cases hmy
    | false =>
      have := lexLt_connected hyx hxy
      subst this
      rw [hmx] at hmy; cases hmy

/-- `x < m ≤ y` gives `x < y`. -/
theorem lexLt_of_lt_of_le {m x y : Bytes} (hxm : lexLt x m = true) (hym : lexLt y m = false) : lexLt x y = true := by
  cases hxy : lexLt x y with
  | true => rfl
  | false =>
    cases hyx : lexLt y x with
    | true => rw [lexLt_trans hyx hxm] at hym; cases hym
    | false =>
      have := lexLt_connected hxy hyx
      subst this
      rw [hxm] at hym; cases hym

/-! ### signed order on `I64` -/

theorem slt_iff (a b : I64) : a.slt b = true ↔ a.toInt < b.toInt := by simp [BitVec.slt]
theorem sle_iff (a b : I64) : a.sle b = true ↔ a.toInt ≤ b.toInt := by simp [BitVec.sle]
theorem slt_false_iff (a b : I64) : a.slt b = false ↔ b.toInt ≤ a.toInt := by
  rw [← Bool.not_eq_true, slt_iff]; omega
theorem sle_false_iff (a b : I64) : a.sle b = false ↔ b.toInt < a.toInt := by
  rw [← Bool.not_eq_true, sle_iff]; omega

theorem toInt_le_max (v : I64) : v.toInt ≤ maxI64.toInt := by
  have h1 := @BitVec.toInt_lt 64 v
  have h2 : (BitVec.intMax 64).toInt = 2 ^ (64 - 1) - 1 := BitVec.toInt_intMax
  unfold maxI64
  omega

theorem min_le_toInt (v : I64) : minI64.toInt ≤ v.toInt := by
  have h1 := @BitVec.le_toInt 64 v
  have h2 : (BitVec.intMin 64).toInt = -↑(2 ^ (64 - 1) % 2 ^ 64 : Nat) := BitVec.toInt_intMin
  unfold minI64
  omega

/-- byte order of the stored int encoding = signed order (C12 `int64_ordered`). -/
theorem enc_lt_iff (a b : I64) : lexLt (encI64 a) (encI64 b) = true ↔ a.toInt < b.toInt := by
  unfold encI64
  rw [C12.int64_ordered, slt_iff]

theorem enc_lt_false_iff (a b : I64) : lexLt (encI64 a) (encI64 b) = false ↔ b.toInt ≤ a.toInt := by
  rw [← Bool.not_eq_true, enc_lt_iff]; omega

/-- true integer meaning of an `IntRange` -/
def IntRange.mem (r : IntRange) (i : I64) : Bool :=
  (if r.inclLo then r.lo.sle i else r.lo.slt i) && (if r.inclHi then i.sle r.hi else i.slt r.hi)

/-- **min/max pruning is sound**: if the block's bounds bracket `i` and the range test says "skip",
    then `i` is not in the range. -/
theorem rangeSkip_sound (mn mx : Bytes) (r : IntRange) (i : I64)
    (hmx : lexLt mx (encI64 i) = false) (hmn : lexLt (encI64 i) mn = false)
    (h : rangeSkip mn mx r = true) : r.mem i = false := by
  simp only [rangeSkip, Bool.or_eq_true, Bool.and_eq_true, Bool.not_eq_true', beq_iff_eq] at h
  unfold IntRange.mem
  rcases h with (h | ⟨hi, he⟩) | (h | ⟨hi, he⟩)
  · have := (enc_lt_iff i r.lo).mp (lexLt_of_le_of_lt h hmx)
    have h1 : r.lo.sle i = false := (sle_false_iff _ _).mpr this
    have h2 : r.lo.slt i = false := (slt_false_iff _ _).mpr (by omega)
    cases r.inclLo <;> simp [h1, h2]
  · subst he
    have := (enc_lt_false_iff r.lo i).mp hmx
    have h2 : r.lo.slt i = false := (slt_false_iff _ _).mpr this
    simp [hi, h2]
  · have := (enc_lt_iff r.hi i).mp (lexLt_of_lt_of_le h hmn)
    have h1 : i.sle r.hi = false := (sle_false_iff _ _).mpr this
    have h2 : i.slt r.hi = false := (slt_false_iff _ _).mpr (by omega)
    cases r.inclHi <;> simp [h1, h2]
  · subst he
    have := (enc_lt_false_iff i r.hi).mp hmn
    have h2 : i.slt r.hi = false := (slt_false_iff _ _).mpr this
    simp [hi, h2]

/-- the scan predicate of a range condition with an int literal on an int value is membership in `intRangeOf`. -/
theorem leafEval_int_range (mt : Val → Val → Bool) (op : Op) (l v : I64) (r : IntRange)
    (hr : intRangeOf op l = some r) : leafEval cmpI64 mt op (.int l) (.int v) = r.mem v := by
  have hmax : v.sle maxI64 = true := (sle_iff _ _).mpr (toInt_le_max v)
  have hmin : minI64.sle v = true := (sle_iff _ _).mpr (min_le_toInt v)
  have hinj : l = v ↔ l.toInt = v.toInt := BitVec.toInt_inj.symm
  cases op <;> simp only [intRangeOf, Option.some.injEq, reduceCtorEq] at hr <;> subst hr <;>
    simp only [leafEval, rangeMatch, litCompare, cmpI64, IntRange.mem, hmax, hmin, if_true, Bool.and_true,
      Bool.true_and, Bool.false_eq_true, if_false]
  · -- lt
    cases h1 : l.slt v
    · by_cases h2 : l = v
      · subst h2
        have : l.slt l = false := (slt_false_iff _ _).mpr (Int.le_refl _)
        simp [this]
      · have h3 := (slt_false_iff _ _).mp h1
        have h4 : v.slt l = true := (slt_iff _ _).mpr (by
          have : ¬ l.toInt = v.toInt := fun e => h2 (hinj.mpr e)
          omega)
        simp [h2, h4]
    · have h3 := (slt_iff _ _).mp h1
      have h4 : v.slt l = false := (slt_false_iff _ _).mpr (by omega)
      simp [h4]
  · -- le
    cases h1 : l.slt v
    · have h3 := (slt_false_iff _ _).mp h1
      have h4 : v.sle l = true := (sle_iff _ _).mpr h3
      by_cases h2 : l = v
      · subst h2; simp [h4]
      · simp [h2, h4]
    · have h3 := (slt_iff _ _).mp h1
      have h4 : v.sle l = false := (sle_false_iff _ _).mpr h3
      simp [h4]
  · -- gt
    cases h1 : l.slt v
    · by_cases h2 : l = v <;> simp [h2]
    · simp
  · -- ge
    cases h1 : l.slt v
    · by_cases h2 : l = v
      · subst h2
        have : l.sle l = true := (sle_iff _ _).mpr (Int.le_refl _)
        simp [this]
      · have h3 := (slt_false_iff _ _).mp h1
        have h4 : l.sle v = false := (sle_false_iff _ _).mpr (by
          have : ¬ l.toInt = v.toInt := fun e => h2 (hinj.mpr e)
          omega)
        simp [h2, h4]
    · have h3 := (slt_iff _ _).mp h1
      have h4 : l.sle v = true := (sle_iff _ _).mpr (by omega)
      simp [h4]

end Banyan.C08
