/-
C08: the block iterator of one part (banyand/stream/part_iter.go findBlock, repaired F25) visits exactly the
blocks of a wanted series that overlap the time range and are not pruned by the block filter.
-/
import Banyan.Model.C08

namespace Banyan.C08
open Banyan

/-- the blocks the query must look at -/
def wantedBlock (lo hi : Int) (skip : BlockMeta → Bool) (b : BlockMeta) : Bool :=
  decide (lo ≤ b.maxTs) && decide (b.minTs ≤ hi) && !skip b

theorem scanBlocks_single (lo hi : Int) (skip : BlockMeta → Bool) (sid : Nat) (bhs : List BlockMeta)
    (hs : ∀ b ∈ bhs, b.sid = sid) (hsorted : bhs.Pairwise fun a b => a.minTs ≤ b.minTs)
    (fuel : Nat) (hf : bhs.length < fuel) :
    scanBlocks false lo hi skip fuel bhs [sid] = bhs.filter (wantedBlock lo hi skip) := by
  induction bhs generalizing fuel with
  | nil => cases fuel <;> simp [scanBlocks]
  | cons bm rest ih =>
    cases fuel with
    | zero => simp at hf
    | succ f =>
      have hsid : bm.sid = sid := hs bm (by simp)
      have hrest : ∀ b ∈ rest, b.sid = sid := fun b hb => hs b (by simp [hb])
      have hsr := (List.pairwise_cons.mp hsorted)
      have ihr := ih hrest hsr.2 f (by simp at hf; omega)
      unfold scanBlocks
      simp only [hsid, Nat.lt_irrefl, if_false, ne_eq, not_true_eq_false]
      by_cases h1 : bm.maxTs < lo
      · simp only [h1, if_true, List.filter_cons, wantedBlock]
        have : decide (lo ≤ bm.maxTs) = false := by simp; omega
        simp [this, ihr, wantedBlock]
      · simp only [h1, if_false]
        by_cases h2 : bm.minTs > hi
        · simp only [h2, if_true]
          -- no wanted series is left: the iterator stops; every later block of the series starts even later
          have hnone : (bm :: rest).filter (wantedBlock lo hi skip) = [] := by
            apply List.filter_eq_nil_iff.mpr
            intro b hb
            have hle : bm.minTs ≤ b.minTs := by
              rcases List.mem_cons.mp hb with rfl | hm
              · exact Int.le_refl _
              · exact hsr.1 b hm
            have : decide (b.minTs ≤ hi) = false := by simp; omega
            simp [wantedBlock, this]
          rw [hnone]
          cases f <;> simp [scanBlocks]
        · simp only [h2, if_false]
          have d1 : decide (lo ≤ bm.maxTs) = true := by simp; omega
          have d2 : decide (bm.minTs ≤ hi) = true := by simp; omega
          by_cases h3 : skip bm = true
          · simp [h3, List.filter_cons, wantedBlock, ihr]
          · have h3' : skip bm = false := by simpa using h3
            simp [h3', List.filter_cons, wantedBlock, d1, d2, ihr]

end Banyan.C08
