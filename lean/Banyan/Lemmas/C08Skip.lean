/-
Soundness of block pruning (C08): if a compiled skipping filter says "skip" on a block whose summaries were
built from the block's rows, no row of the block satisfies the criteria.
-/
import Banyan.Model.C08
import Banyan.Lemmas.C08Order

namespace Banyan.C08
open Banyan

/-! ### evaluation lemmas -/

theorem evalWith_leaf_true {ci : I64 → I64 → Int} {mt : Val → Val → Bool} {op : Op} {tag : Nat} {lit : Val} {r : Row}
    (h : evalWith ci mt (.leaf op tag lit) r = some true) : ∃ v, r.get tag = some v ∧ leafEval ci mt op lit v = true := by
  simp only [evalWith, Option.map_eq_some_iff] at h
  exact h

theorem evalWith_and_true {ci : I64 → I64 → Int} {mt : Val → Val → Bool} {a b : Criteria} {r : Row}
    (h : evalWith ci mt (.and a b) r = some true) : evalWith ci mt a r = some true ∧ evalWith ci mt b r = some true := by
  simp only [evalWith] at h
  cases ha : evalWith ci mt a r with
  | none => simp [ha] at h
  | some x =>
    cases hb : evalWith ci mt b r with
    | none => simp [ha, hb] at h
    | some y =>
      simp [ha, hb] at h
      simp [h.1, h.2]

theorem evalWith_or_true {ci : I64 → I64 → Int} {mt : Val → Val → Bool} {a b : Criteria} {r : Row}
    (h : evalWith ci mt (.or a b) r = some true) : evalWith ci mt a r = some true ∨ evalWith ci mt b r = some true := by
  simp only [evalWith] at h
  cases ha : evalWith ci mt a r with
  | none => simp [ha] at h
  | some x =>
    cases hb : evalWith ci mt b r with
    | none => simp [ha, hb] at h
    | some y =>
      simp [ha, hb] at h
      rcases h with h | h <;> simp [h]

theorem litEqual_eq {a b : Val} (h : litEqual a b = true) : a = b := by
  cases a <;> cases b <;> simp_all [litEqual]

theorem single_of_len_head {α : Type} [BEq α] [LawfulBEq α] {l : List α} {v : α}
    (h : (l.length == 1 && l.head? == some v) = true) : l = [v] := by
  cases l with
  | nil => simp at h
  | cons x xs =>
    cases xs with
    | nil => simp at h; rw [h]
    | cons _ _ => simp at h

/-- `HAVING` true ⇒ every probe of the literal is a stored item of the value. -/
theorem valContains_items {w lit : Val} (h : valContains w lit = true) : ∀ b ∈ litBytes lit, b ∈ valItems w := by
  cases w with
  | null => simp [valContains] at h
  | str v =>
    cases lit with
    | strArr l =>
      have := single_of_len_head (by simpa [valContains] using h : (l.length == 1 && l.head? == some v) = true)
      subst this
      simp [valItems, litBytes]
    | _ => simp [valContains] at h
  | int v =>
    cases lit with
    | intArr l =>
      have := single_of_len_head (by simpa [valContains] using h : (l.length == 1 && l.head? == some v) = true)
      subst this
      simp [valItems, litBytes]
    | _ => simp [valContains] at h
  | strArr a =>
    cases lit with
    | str l =>
      simp only [valContains] at h
      simpa [valItems, litBytes] using h
    | strArr l =>
      simp only [valContains, List.all_eq_true] at h
      intro b hb
      simpa [valItems, litBytes] using h b hb
    | _ => simp [valContains] at h
  | intArr a =>
    cases lit with
    | int l =>
      simp only [valContains] at h
      intro b hb
      simp only [litBytes, List.mem_singleton] at hb
      subst hb
      simp only [valItems, litBytes, List.mem_map]
      exact ⟨l, by simpa using h, rfl⟩
    | intArr l =>
      simp only [valContains, List.all_eq_true] at h
      intro b hb
      simp only [litBytes, List.mem_map] at hb
      obtain ⟨x, hx, rfl⟩ := hb
      simp only [valItems, litBytes, List.mem_map]
      exact ⟨x, by simpa using h x hx, rfl⟩
    | _ => simp [valContains] at h


/-- `IN` true on a scalar value ⇒ the value's stored bytes are the probe of one of the literal's sub-expressions. -/
theorem valBelongTo_scalar {w lit : Val} (h : valBelongTo w lit = true) (hs : (∃ s, w = .str s) ∨ (∃ i, w = .int i)) :
    ∃ xs, subExprs lit = some xs ∧ ∃ x ∈ xs, litBytes x = valItems w := by
  rcases hs with ⟨s, rfl⟩ | ⟨i, rfl⟩
  · cases lit with
    | strArr l =>
      refine ⟨l.map .str, rfl, .str s, ?_, rfl⟩
      simp only [valBelongTo] at h
      simpa using h
    | _ => simp [valBelongTo] at h
  · cases lit with
    | intArr l =>
      refine ⟨l.map .int, rfl, .int i, ?_, rfl⟩
      simp only [valBelongTo] at h
      simpa using h
    | _ => simp [valBelongTo] at h

/-! ### what the writer guarantees about a block's summaries -/

/-- The summary of one tag is *sound for the rows of its block*: the membership filter admits every stored item
    (and every sub-list of one row's items), and min/max, when recorded, bracket every int value. -/
structure SummarySound (H : Bytes → Nat) (rows : List Row) (tag : Nat) (ts : TagSummary) : Prop where
  sub : ∀ r ∈ rows, ∀ v, r.get tag = some v → ∀ xs : List Bytes, (∀ x ∈ xs, x ∈ valItems v) →
    ts.filter.containsAll H xs = true
  one : ts.vt.isArray = false → ∀ r ∈ rows, ∀ v, r.get tag = some v → ∀ x ∈ valItems v, ts.filter.mightContain H x = true
  bounds : ts.min ≠ [] → ts.max ≠ [] → ∀ r ∈ rows, ∀ i, r.get tag = some (.int i) →
    lexLt ts.max (encI64 i) = false ∧ lexLt (encI64 i) ts.min = false

/-- stored rows carry null or a value of the schema's type (`encodeTagValue` coerces by the schema type). -/
def RowsTyped (schema : List TagType) (rows : List Row) : Prop :=
  ∀ r ∈ rows, ∀ tag v, r.get tag = some v → v = .null ∨ ∃ t, schema[tag]? = some t ∧ v.hasType t = true

structure BlockSound (H : Bytes → Nat) (e : Engine) (schema : List TagType) (rows : List Row) (s : BlockSummary) : Prop where
  present : ∀ tag ts, s.find tag = some ts → SummarySound H rows tag ts
  vtOk : ∀ tag ts, s.find tag = some ts → schema[tag]? = some ts.vt
  /-- sidx: a tag that is not in the block has no value in any of its rows -/
  absent : e = .trace → ∀ tag, s.find tag = none → ∀ r ∈ rows, ∀ v, r.get tag = some v → v = .null

/-! ### leaf filters -/

theorem eq_skip_sound (H : Bytes → Nat) (e : Engine) (schema : List TagType) (rows : List Row) (s : BlockSummary)
    (hs : BlockSound H e schema rows s) (tag : Nat) (probe : List Bytes)
    (hk : shouldSkip H e s (.eq tag probe) = some true) :
    ∀ r ∈ rows, ∀ v, r.get tag = some v → ¬ (∀ b ∈ probe, b ∈ valItems v) ∨ probe = [] := by
  intro r hr v hv
  cases probe with
  | nil => right; rfl
  | cons b bs =>
    cases bs with
    | cons _ _ => simp [shouldSkip] at hk
    | nil =>
      left
      intro hall
      simp only [shouldSkip, Option.some.injEq, Bool.not_eq_true'] at hk
      unfold opEq at hk
      cases hf : s.find tag with
      | none =>
        rw [hf] at hk
        cases e with
        | stream => simp at hk
        | trace =>
          have := hs.absent rfl tag hf r hr v hv
          subst this
          simpa [valItems, litBytes] using hall b (by simp)
      | some ts =>
        rw [hf] at hk
        have := (hs.present tag ts hf).sub r hr v hv [b] (by simpa using hall)
        simp only at hk
        rw [this] at hk
        cases hk

/-- a probe list of a literal that equals the value is contained in the value's items -/
theorem litEqual_items {lit w : Val} (h : litEqual lit w = true) : ∀ b ∈ litBytes lit, b ∈ valItems w := by
  have := litEqual_eq h
  subst this
  intro b hb
  exact hb

theorem litBytes_ne_nil_of_equal {lit w : Val} (h : litEqual lit w = true) (hn : litBytes lit = []) :
    lit = .strArr [] ∨ lit = .intArr [] := by
  cases lit <;> cases w <;> simp_all [litEqual, litBytes]

theorem range_skip_sound (H : Bytes → Nat) (e : Engine) (schema : List TagType) (rows : List Row) (s : BlockSummary)
    (hs : BlockSound H e schema rows s) (mt : Val → Val → Bool) (op : Op) (tag : Nat) (lit : Val)
    (r? : Option IntRange) (fb : Bool) (hro : rangeOfLit op lit = some (r?, fb)) (hop : isRangeOp op = true)
    (hk : shouldSkip H e s (.range tag r? fb) = some true) :
    ∀ r ∈ rows, ∀ v, r.get tag = some v → leafEval cmpI64 mt op lit v = false := by
  intro r hr v hv
  simp only [shouldSkip, opRange] at hk
  cases hf : s.find tag with
  | none => rw [hf] at hk; simp at hk
  | some ts =>
    rw [hf] at hk
    -- both engines reach `rangeSkip` only with non-empty bounds and an int range
    have key : ts.min ≠ [] ∧ ts.max ≠ [] ∧ ∃ rg, r? = some rg ∧ rangeSkip ts.min ts.max rg = true := by
      cases e with
      | stream =>
        simp only at hk
        by_cases hmm : (ts.min.isEmpty || ts.max.isEmpty) = true
        · simp [hmm] at hk
        · simp only [hmm, Bool.false_eq_true, if_false] at hk
          simp only [Bool.or_eq_true, List.isEmpty_iff, not_or] at hmm
          cases r? with
          | none => cases fb <;> simp at hk
          | some rg => exact ⟨hmm.1, hmm.2, rg, rfl, by simpa using hk⟩
      | trace =>
        simp only at hk
        by_cases hmm : (ts.vt != TagType.int || ts.min.isEmpty || ts.max.isEmpty) = true
        · simp [hmm] at hk
        · simp only [hmm, Bool.false_eq_true, if_false] at hk
          simp only [Bool.or_eq_true, List.isEmpty_iff, not_or] at hmm
          cases r? with
          | none => cases fb <;> simp at hk
          | some rg => exact ⟨hmm.1.2, hmm.2, rg, rfl, by simpa using hk⟩
    obtain ⟨hmn, hmx, rg, rfl, hsk⟩ := key
    -- the literal is an int
    cases lit with
    | int l =>
      have e1 : rangeOfLit op (.int l) = some (intRangeOf op l, true) := rfl
      rw [e1] at hro
      have e2 : intRangeOf op l = some rg := by
        injection hro with h1
        injection h1
      cases v with
      | int i =>
        have hb := (hs.present tag ts hf).bounds hmn hmx r hr i hv
        rw [leafEval_int_range mt op l i rg e2]
        exact rangeSkip_sound ts.min ts.max rg i hb.1 hb.2 hsk
      | _ => cases op <;> simp [leafEval, rangeMatch, litCompare, isRangeOp] at hop ⊢
    | str x =>
      have e1 : rangeOfLit op (.str x) = some (none, false) := rfl
      rw [e1] at hro
      injection hro with h1
      injection h1 with h2 _
      cases h2
    | null =>
      have e1 : rangeOfLit op .null = some (none, true) := rfl
      rw [e1] at hro
      injection hro with h1
      injection h1 with h2 _
      cases h2
    | strArr x =>
      have e1 : rangeOfLit op (.strArr x) = none := rfl
      rw [e1] at hro
      cases hro
    | intArr x =>
      have e1 : rangeOfLit op (.intArr x) = none := rfl
      rw [e1] at hro
      cases hro


/-! ### AND / OR nodes and chains -/

theorem shouldSkip_and_true {H : Bytes → Nat} {e : Engine} {s : BlockSummary} {l r : SFilter}
    (h : shouldSkip H e s (.and l r) = some true) :
    shouldSkip H e s l = some true ∨ shouldSkip H e s r = some true := by
  simp only [shouldSkip] at h
  cases hl : shouldSkip H e s l with
  | none => simp [hl] at h
  | some a =>
    cases a with
    | true => left; rfl
    | false => right; simpa [hl] using h

theorem shouldSkip_or_true {H : Bytes → Nat} {e : Engine} {s : BlockSummary} {l r : SFilter}
    (h : shouldSkip H e s (.or l r) = some true) :
    shouldSkip H e s l = some true ∧ shouldSkip H e s r = some true := by
  simp only [shouldSkip] at h
  cases hl : shouldSkip H e s l with
  | none => simp [hl] at h
  | some a =>
    cases a with
    | true => exact ⟨rfl, by simpa [hl] using h⟩
    | false => simp [hl] at h

theorem shouldSkip_traceAnd_true {H : Bytes → Nat} {e : Engine} {s : BlockSummary} {l r : SFilter}
    (h : shouldSkip H e s (.traceAnd l r) = some true) :
    shouldSkip H e s l = some true ∧ shouldSkip H e s r = some true := by
  simp only [shouldSkip] at h
  cases hl : shouldSkip H e s l with
  | none => simp [hl] at h
  | some a =>
    cases hr : shouldSkip H e s r with
    | none => simp [hl, hr] at h
    | some b =>
      simp [hl, hr] at h
      simp [h.1, h.2]

theorem shouldSkip_foldl_and {H : Bytes → Nat} {e : Engine} {s : BlockSummary} (fs : List SFilter) (f0 : SFilter)
    (h : shouldSkip H e s (fs.foldl SFilter.and f0) = some true) :
    shouldSkip H e s f0 = some true ∨ ∃ g ∈ fs, shouldSkip H e s g = some true := by
  induction fs generalizing f0 with
  | nil => left; exact h
  | cons g gs ih =>
    rcases ih (SFilter.and f0 g) h with h1 | ⟨g', hg', h2⟩
    · rcases shouldSkip_and_true h1 with h3 | h3
      · left; exact h3
      · right; exact ⟨g, by simp, h3⟩
    · right; exact ⟨g', by simp [hg'], h2⟩

theorem shouldSkip_foldl_or {H : Bytes → Nat} {e : Engine} {s : BlockSummary} (fs : List SFilter) (f0 : SFilter)
    (h : shouldSkip H e s (fs.foldl SFilter.or f0) = some true) :
    shouldSkip H e s f0 = some true ∧ ∀ g ∈ fs, shouldSkip H e s g = some true := by
  induction fs generalizing f0 with
  | nil => exact ⟨h, by simp⟩
  | cons g gs ih =>
    obtain ⟨h1, h2⟩ := ih (SFilter.or f0 g) h
    obtain ⟨h3, h4⟩ := shouldSkip_or_true h1
    refine ⟨h3, ?_⟩
    intro g' hg'
    rcases List.mem_cons.mp hg' with rfl | hm
    · exact h4
    · exact h2 g' hm

theorem subExprs_litBytes_single {lit : Val} {xs : List Val} (h : subExprs lit = some xs) :
    ∀ x ∈ xs, ∃ b, litBytes x = [b] ∧ b ∈ litBytes lit := by
  cases lit with
  | null => simp [subExprs] at h
  | str s => simp only [subExprs, Option.some.injEq] at h; subst h; simp [litBytes]
  | int v => simp only [subExprs, Option.some.injEq] at h; subst h; simp [litBytes]
  | strArr a =>
    simp only [subExprs, Option.some.injEq] at h; subst h
    intro x hx
    obtain ⟨y, hy, rfl⟩ := List.mem_map.mp hx
    exact ⟨y, rfl, by simpa [litBytes] using hy⟩
  | intArr a =>
    simp only [subExprs, Option.some.injEq] at h; subst h
    intro x hx
    obtain ⟨y, hy, rfl⟩ := List.mem_map.mp hx
    exact ⟨encI64 y, rfl, by simp only [litBytes, List.mem_map]; exact ⟨y, hy, rfl⟩⟩

/-- a single `eq` probe that skips: no row holds the probed bytes -/
theorem eq_single_skip (H : Bytes → Nat) (e : Engine) (schema : List TagType) (rows : List Row) (s : BlockSummary)
    (hs : BlockSound H e schema rows s) (tag : Nat) (b : Bytes)
    (hk : shouldSkip H e s (.eq tag [b]) = some true) :
    ∀ r ∈ rows, ∀ v, r.get tag = some v → b ∉ valItems v := by
  intro r hr v hv hb
  rcases eq_skip_sound H e schema rows s hs tag [b] hk r hr v hv with h | h
  · exact h (by simpa using hb)
  · cases h


/-! ### stream: `parseConditionToFilter` (skipping rule) -/

theorem having_chain_sound (H : Bytes → Nat) (e : Engine) (schema : List TagType) (rows : List Row) (s : BlockSummary)
    (hs : BlockSound H e schema rows s) (tag : Nat) (lit : Val) (x0 : Val) (xs : List Val)
    (hsub : subExprs lit = some (x0 :: xs))
    (hk : shouldSkip H e s ((xs.map fun x => SFilter.eq tag (litBytes x)).foldl SFilter.and (.eq tag (litBytes x0))) = some true) :
    ∀ r ∈ rows, ∀ v, r.get tag = some v → valContains v lit = false := by
  intro r hr v hv
  cases hc : valContains v lit with
  | false => rfl
  | true =>
    exfalso
    have hit := valContains_items hc
    have hsingle := subExprs_litBytes_single hsub
    have : ∃ x ∈ x0 :: xs, shouldSkip H e s (.eq tag (litBytes x)) = some true := by
      rcases shouldSkip_foldl_and _ _ hk with h | ⟨g, hg, h⟩
      · exact ⟨x0, by simp, h⟩
      · obtain ⟨y, hy, rfl⟩ := List.mem_map.mp hg
        exact ⟨y, by simp [hy], h⟩
    obtain ⟨x, hx, hsk⟩ := this
    obtain ⟨b, hb1, hb2⟩ := hsingle x hx
    rw [hb1] at hsk
    exact eq_single_skip H e schema rows s hs tag b hsk r hr v hv (hit b hb2)

theorem in_chain_sound (H : Bytes → Nat) (e : Engine) (schema : List TagType) (rows : List Row) (s : BlockSummary)
    (hs : BlockSound H e schema rows s) (ht : RowsTyped schema rows) (tag : Nat) (lit : Val) (x0 : Val) (xs : List Val)
    (hsub : subExprs lit = some (x0 :: xs))
    (hna : ((schema[tag]?).map TagType.isArray).getD false = false)
    (hk : shouldSkip H e s ((xs.map fun x => SFilter.eq tag (litBytes x)).foldl SFilter.or (.eq tag (litBytes x0))) = some true) :
    ∀ r ∈ rows, ∀ v, r.get tag = some v → valBelongTo v lit = false := by
  intro r hr v hv
  cases hc : valBelongTo v lit with
  | false => rfl
  | true =>
    exfalso
    have hscalar : (∃ s, v = .str s) ∨ (∃ i, v = .int i) := by
      rcases ht r hr tag v hv with rfl | ⟨t, hst, hty⟩
      · simp [valBelongTo] at hc
      · rw [hst] at hna
        simp only [Option.map_some, Option.getD_some] at hna
        cases v <;> cases t <;> simp_all [Val.hasType, TagType.isArray]
    obtain ⟨xs', hxs', x, hx, hbytes⟩ := valBelongTo_scalar hc hscalar
    rw [hsub] at hxs'
    cases hxs'
    obtain ⟨h0, hall⟩ := shouldSkip_foldl_or _ _ hk
    have hsk : shouldSkip H e s (.eq tag (litBytes x)) = some true := by
      rcases List.mem_cons.mp hx with rfl | hm
      · exact h0
      · exact hall _ (List.mem_map.mpr ⟨x, hm, rfl⟩)
    rcases eq_skip_sound H e schema rows s hs tag (litBytes x) hsk r hr v hv with h | h
    · exact h (by rw [hbytes]; intro b hb; exact hb)
    · rw [hbytes] at h
      rcases hscalar with ⟨_, rfl⟩ | ⟨_, rfl⟩ <;> simp [valItems, litBytes] at h

theorem compileStreamLeaf_sound (H : Bytes → Nat) (schema : List TagType) (rows : List Row) (s : BlockSummary)
    (hs : BlockSound H .stream schema rows s) (ht : RowsTyped schema rows) (mt : Val → Val → Bool)
    (op : Op) (tag : Nat) (lit : Val) (f : SFilter)
    (hc : compileStreamLeaf schema op tag lit = .ok f) (hk : shouldSkip H .stream s f = some true) :
    ∀ r ∈ rows, ∀ v, r.get tag = some v → leafEval cmpI64 mt op lit v = false := by
  intro r hr v hv
  cases op with
  | eq =>
    simp only [compileStreamLeaf, Compiled.ok.injEq] at hc
    subst hc
    cases hle : leafEval cmpI64 mt .eq lit v with
    | false => rfl
    | true =>
      exfalso
      simp only [leafEval] at hle
      rcases eq_skip_sound H .stream schema rows s hs tag (litBytes lit) hk r hr v hv with h | h
      · exact h (litEqual_items hle)
      · rw [h] at hk; simp [shouldSkip] at hk
  | ne => simp only [compileStreamLeaf, Compiled.ok.injEq] at hc; subst hc; simp [shouldSkip] at hk
  | match_ => simp [compileStreamLeaf] at hc
  | lt | le | gt | ge =>
    simp only [compileStreamLeaf] at hc
    split at hc
    · cases hc
    · rename_i r? fb hro
      simp only [Compiled.ok.injEq] at hc
      subst hc
      exact range_skip_sound H .stream schema rows s hs mt _ tag lit r? fb hro rfl hk r hr v hv
  | having =>
    simp only [compileStreamLeaf] at hc
    split at hc
    · cases hc
    · simp only [Compiled.ok.injEq] at hc; subst hc; simp [shouldSkip] at hk
    · rename_i x0 xs hsub
      simp only [Compiled.ok.injEq] at hc
      subst hc
      simp only [leafEval]
      exact having_chain_sound H .stream schema rows s hs tag lit x0 xs hsub hk r hr v hv
  | notHaving =>
    simp only [compileStreamLeaf] at hc
    split at hc
    · cases hc
    · simp only [Compiled.ok.injEq] at hc; subst hc; simp [shouldSkip] at hk
    · simp only [Compiled.ok.injEq] at hc; subst hc; simp [shouldSkip] at hk
  | in_ =>
    simp only [compileStreamLeaf] at hc
    split at hc
    · cases hc
    · rename_i hna
      split at hc
      · cases hc
      · simp only [Compiled.ok.injEq] at hc; subst hc; simp [shouldSkip] at hk
      · rename_i x0 xs hsub
        simp only [Compiled.ok.injEq] at hc
        subst hc
        simp only [leafEval]
        exact in_chain_sound H .stream schema rows s hs ht tag lit x0 xs hsub (by simpa using hna) hk r hr v hv
  | notIn =>
    simp only [compileStreamLeaf] at hc
    split at hc
    · cases hc
    · split at hc
      · cases hc
      · simp only [Compiled.ok.injEq] at hc; subst hc; simp [shouldSkip] at hk
      · simp only [Compiled.ok.injEq] at hc; subst hc; simp [shouldSkip] at hk


/-- **stream**: a block that the compiled skipping filter prunes holds no row satisfying the criteria. -/
theorem compileStream_sound (H : Bytes → Nat) (schema : List TagType) (cfg : List Cfg) (rows : List Row) (s : BlockSummary)
    (hs : BlockSound H .stream schema rows s) (ht : RowsTyped schema rows) (mt : Val → Val → Bool)
    (c : Criteria) (f : SFilter)
    (hc : compileStream schema cfg c = .ok f) (hk : shouldSkip H .stream s f = some true) :
    ∀ r ∈ rows, eval mt c r ≠ some true := by
  induction c generalizing f with
  | leaf op tag lit =>
    intro r hr he
    obtain ⟨v, hv, hle⟩ := evalWith_leaf_true he
    simp only [compileStream] at hc
    split at hc
    · cases hc
    · split at hc
      · rw [compileStreamLeaf_sound H schema rows s hs ht mt op tag lit f hc hk r hr v hv] at hle
        cases hle
      · simp only [Compiled.ok.injEq] at hc; subst hc; simp [shouldSkip] at hk
  | and a b iha ihb =>
    intro r hr he
    obtain ⟨ha, hb⟩ := evalWith_and_true he
    simp only [compileStream] at hc
    split at hc
    · rename_i l hl
      split at hc
      · rename_i r' hr'
        split at hc
        · simp only [Compiled.ok.injEq] at hc; subst hc; simp [shouldSkip] at hk
        · simp only [Compiled.ok.injEq] at hc; subst hc
          rcases shouldSkip_and_true hk with h | h
          · exact iha l hl h r hr ha
          · exact ihb r' hr' h r hr hb
      · rename_i hne; exact absurd hc (hne f)
    · rename_i hne; exact absurd hc (hne f)
  | or a b iha ihb =>
    intro r hr he
    simp only [compileStream] at hc
    split at hc
    · rename_i l hl
      split at hc
      · rename_i r' hr'
        split at hc
        · simp only [Compiled.ok.injEq] at hc; subst hc; simp [shouldSkip] at hk
        · simp only [Compiled.ok.injEq] at hc; subst hc
          obtain ⟨h1, h2⟩ := shouldSkip_or_true hk
          rcases evalWith_or_true he with h | h
          · exact iha l hl h1 r hr h
          · exact ihb r' hr' h2 r hr h
      · rename_i hne; exact absurd hc (hne f)
    · rename_i hne; exact absurd hc (hne f)

/-! ### trace -/

theorem having_probe_nonempty {v lit : Val} {t : TagType} (hc : valContains v lit = true)
    (hty : v.hasType t = true) (hna : t.isArray = false) : litBytes lit ≠ [] := by
  cases t <;> cases v <;> simp [Val.hasType, TagType.isArray] at hty hna
  · cases lit <;> simp [valContains] at hc
    rename_i l
    intro hn
    simp only [litBytes] at hn
    subst hn
    simp at hc
  · cases lit <;> simp [valContains] at hc
    rename_i l
    intro hn
    simp only [litBytes, List.map_eq_nil_iff] at hn
    subst hn
    simp at hc

theorem compileTrace_sound (H : Bytes → Nat) (schema : List TagType) (rows : List Row) (s : BlockSummary)
    (hs : BlockSound H .trace schema rows s) (ht : RowsTyped schema rows) (mt : Val → Val → Bool)
    (c : Criteria) (f : SFilter)
    (hc : compileTrace schema c = .ok f) (hk : shouldSkip H .trace s f = some true) :
    ∀ r ∈ rows, eval mt c r ≠ some true := by
  induction c generalizing f with
  | leaf op tag lit =>
    intro r hr he
    obtain ⟨v, hv, hle⟩ := evalWith_leaf_true he
    simp only [compileTrace] at hc
    split at hc
    · cases hc
    · rename_i t hst
      cases op with
      | eq =>
        simp only [Compiled.ok.injEq] at hc
        subst hc
        simp only [leafEval] at hle
        rcases eq_skip_sound H .trace schema rows s hs tag (litBytes lit) hk r hr v hv with h | h
        · exact h (litEqual_items hle)
        · rw [h] at hk; simp [shouldSkip] at hk
      | lt | le | gt | ge =>
        simp only at hc
        split at hc
        · cases hc
        · rename_i r? fb hro
          simp only [Compiled.ok.injEq] at hc
          subst hc
          rw [range_skip_sound H .trace schema rows s hs mt _ tag lit r? fb hro rfl hk r hr v hv] at hle
          cases hle
      | having =>
        simp only [Compiled.ok.injEq] at hc
        subst hc
        simp only [leafEval] at hle
        have hit := valContains_items hle
        simp only [shouldSkip, Option.some.injEq, Bool.not_eq_true'] at hk
        unfold opHaving at hk
        cases hf : s.find tag with
        | none =>
          have := hs.absent rfl tag hf r hr v hv
          subst this
          simp [valContains] at hle
        | some ts =>
          rw [hf] at hk
          have hsound := hs.present tag ts hf
          cases hfil : ts.filter with
          | none => simp [hfil] at hk
          | bloom bf =>
            simp only [hfil] at hk
            by_cases harr : ts.vt.isArray = true
            · simp only [harr, if_true] at hk
              have := hsound.sub r hr v hv (litBytes lit) hit
              rw [hfil] at this
              rw [this] at hk; cases hk
            · simp only [harr, Bool.false_eq_true, if_false] at hk
              have hone := hsound.one (by simpa using harr) r hr v hv
              rw [hfil] at hone
              -- some probe exists (valContains true ⇒ literal has a probe) and it is admitted
              have hne : litBytes lit ≠ [] := by
                have hvt := hs.vtOk tag ts hf
                rcases ht r hr tag v hv with rfl | ⟨t', ht', hty⟩
                · simp [valContains] at hle
                · rw [hvt] at ht'
                  cases ht'
                  exact having_probe_nonempty hle hty (by simpa using harr)
              obtain ⟨b, hb⟩ := List.exists_mem_of_ne_nil _ hne
              have := hone b (hit b hb)
              rw [List.any_eq_false] at hk
              exact hk b hb this
          | dict d =>
            simp only [hfil] at hk
            by_cases harr : ts.vt.isArray = true
            · simp only [harr, if_true] at hk
              have := hsound.sub r hr v hv (litBytes lit) hit
              rw [hfil] at this
              rw [this] at hk; cases hk
            · simp only [harr, Bool.false_eq_true, if_false] at hk
              have hone := hsound.one (by simpa using harr) r hr v hv
              rw [hfil] at hone
              have hne : litBytes lit ≠ [] := by
                have hvt := hs.vtOk tag ts hf
                rcases ht r hr tag v hv with rfl | ⟨t', ht', hty⟩
                · simp [valContains] at hle
                · rw [hvt] at ht'
                  cases ht'
                  exact having_probe_nonempty hle hty (by simpa using harr)
              obtain ⟨b, hb⟩ := List.exists_mem_of_ne_nil _ hne
              have := hone b (hit b hb)
              rw [List.any_eq_false] at hk
              exact hk b hb this
      | ne => simp only [Compiled.ok.injEq] at hc; subst hc; simp [shouldSkip] at hk
      | match_ => simp only [Compiled.ok.injEq] at hc; subst hc; simp [shouldSkip] at hk
      | notHaving => simp only [Compiled.ok.injEq] at hc; subst hc; simp [shouldSkip] at hk
      | in_ =>
        simp only at hc
        split at hc
        · cases hc
        · simp only [Compiled.ok.injEq] at hc; subst hc; simp [shouldSkip] at hk
      | notIn =>
        simp only at hc
        split at hc
        · cases hc
        · simp only [Compiled.ok.injEq] at hc; subst hc; simp [shouldSkip] at hk
  | and a b iha ihb =>
    intro r hr he
    obtain ⟨ha, hb⟩ := evalWith_and_true he
    simp only [compileTrace] at hc
    split at hc
    · rename_i l hl
      split at hc
      · rename_i r' hr'
        simp only [Compiled.ok.injEq] at hc; subst hc
        obtain ⟨h1, _⟩ := shouldSkip_traceAnd_true hk
        exact iha l hl h1 r hr ha
      · rename_i hne; exact absurd hc (hne f)
    · rename_i hne; exact absurd hc (hne f)
  | or a b iha ihb =>
    intro r hr he
    simp only [compileTrace] at hc
    split at hc
    · rename_i l hl
      split at hc
      · rename_i r' hr'
        simp only [Compiled.ok.injEq] at hc; subst hc
        obtain ⟨h1, h2⟩ := shouldSkip_traceAnd_true hk
        rcases evalWith_or_true he with h | h
        · exact iha l hl h1 r hr h
        · exact ihb r' hr' h2 r hr h
      · rename_i hne; exact absurd hc (hne f)
    · rename_i hne; exact absurd hc (hne f)

end Banyan.C08
