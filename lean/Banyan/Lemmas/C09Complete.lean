/-
Lemmas for the completeness part of the sidx query specification (C09): matched blocks, matching elements.
-/
import Banyan.Lemmas.C09Iter

namespace Banyan.C09
theorem scanBatches_flatten' (r : Req) (snap : List Part) : (scanBatches r snap).flatten = iterBlocks r snap := flatten_chunk _ _

section Generic
variable {α β : Type}

theorem perm_flatMap_left {l : List α} {f g : α → List β} (h : ∀ a ∈ l, (f a).Perm (g a)) :
    (l.flatMap f).Perm (l.flatMap g) := by
  induction l with
  | nil => exact List.Perm.refl _
  | cons a l ih =>
    simp only [List.flatMap_cons]
    exact List.Perm.append (h a List.mem_cons_self) (ih fun a ha => h a (List.mem_cons_of_mem _ ha))

theorem sublist_flatMap_left (l : List α) {f g : α → List β} (h : ∀ a ∈ l, (f a).Sublist (g a)) :
    (l.flatMap f).Sublist (l.flatMap g) := by
  induction l with
  | nil => exact List.Sublist.refl _
  | cons a l ih =>
    simp only [List.flatMap_cons]
    exact List.Sublist.append (h a List.mem_cons_self) (ih fun a ha => h a (List.mem_cons_of_mem _ ha))

theorem sublist_flatMap_right {l₁ l₂ : List α} (f : α → List β) (h : l₁.Sublist l₂) :
    (l₁.flatMap f).Sublist (l₂.flatMap f) := by
  induction h with
  | slnil => exact List.Sublist.refl _
  | cons a _ ih => simp only [List.flatMap_cons]; exact ih.trans (List.sublist_append_right _ _)
  | cons_cons a _ ih => simp only [List.flatMap_cons]; exact List.Sublist.append (List.Sublist.refl _) ih

theorem flatMap_flatten' (cs : List (List α)) (g : α → List β) :
    cs.flatMap (fun c => c.flatMap g) = cs.flatten.flatMap g := by
  induction cs with
  | nil => rfl
  | cons c cs ih => simp [List.flatMap_cons, List.flatMap_append, ih]

theorem flatMap_filter_of_nil (l : List α) (p : α → Bool) (f g : α → List β)
    (h1 : ∀ a ∈ l, p a = true → f a = g a) (h2 : ∀ a ∈ l, p a = false → f a = []) :
    l.flatMap f = (l.filter p).flatMap g := by
  induction l with
  | nil => rfl
  | cons a l ih =>
    have ih' := ih (fun a ha => h1 a (List.mem_cons_of_mem _ ha)) (fun a ha => h2 a (List.mem_cons_of_mem _ ha))
    cases hp : p a with
    | true => simp [hp, List.flatMap_cons, h1 a List.mem_cons_self hp, ih']
    | false => simp [hp, List.flatMap_cons, h2 a List.mem_cons_self hp, ih']

/-- splitting a filter by two mutually exclusive predicates -/
theorem filter_or_perm (l : List α) (p q : α → Bool) (h : ∀ a ∈ l, ¬(p a = true ∧ q a = true)) :
    (l.filter fun a => p a || q a).Perm (l.filter p ++ l.filter q) := by
  induction l with
  | nil => exact List.Perm.refl _
  | cons a l ih =>
    have ih' := ih fun a ha => h a (List.mem_cons_of_mem _ ha)
    have ha := h a List.mem_cons_self
    cases hp : p a <;> cases hq : q a
    · simpa [List.filter_cons, hp, hq] using ih'
    · simp only [List.filter_cons, hp, hq, Bool.or_true, if_true, Bool.false_eq_true, if_false]
      exact (List.Perm.cons a ih').trans List.perm_middle.symm
    · simp only [List.filter_cons, hp, hq, Bool.or_false, if_true, Bool.false_eq_true, if_false, List.cons_append]
      exact List.Perm.cons a ih'
    · exact absurd ⟨hp, hq⟩ ha

theorem chunkFuel_sublist (n : Nat) : ∀ (f : Nat) (l : List α), ∀ c ∈ chunkFuel n f l, c.Sublist l := by
  intro f
  induction f with
  | zero => intro l c hc; simp [chunkFuel] at hc
  | succ f ih =>
    intro l c hc
    simp only [chunkFuel] at hc
    split at hc
    · simp at hc
    · split at hc
      · simp at hc; subst hc; exact List.Sublist.refl _
      · rcases List.mem_cons.mp hc with rfl | hc
        · exact List.take_sublist _ _
        · exact (ih _ c hc).trans (List.drop_sublist _ _)

theorem chunk_sublist (n : Nat) (l : List α) : ∀ c ∈ chunk n l, c.Sublist l := chunkFuel_sublist n _ l
end Generic

theorem insertNat_perm (x : Nat) (l : List Nat) : (insertNat x l).Perm (x :: l) := by
  induction l with
  | nil => exact List.Perm.refl _
  | cons y ys ih =>
    simp only [insertNat]
    split
    · exact List.Perm.refl _
    · exact (List.Perm.cons y ih).trans (List.Perm.swap _ _ _)

theorem sortNat_perm (l : List Nat) : (sortNat l).Perm l := by
  induction l with
  | nil => exact List.Perm.refl _
  | cons x xs ih => exact (insertNat_perm x _).trans (List.Perm.cons x ih)

/-- the blocks a request matches: requested series, metadata key range overlapping the requested range -/
def sel (r : Req) (b : Block) : Bool := r.sids.contains b.sid && rangeOverlaps r b.lo b.hi

def selectedBlocks (r : Req) (snap : List Part) : List Block := (snap.flatMap (·.blocks)).filter (sel r)

theorem flatMap_sids_filter (l : List Block) (q : Block → Bool) : ∀ (S : List Nat), S.Nodup →
    (S.flatMap fun sid => l.filter fun b => b.sid == sid && q b).Perm (l.filter fun b => S.contains b.sid && q b) := by
  intro S
  induction S with
  | nil => intro _; simp
  | cons s S ih =>
    intro hnd
    rw [List.nodup_cons] at hnd
    simp only [List.flatMap_cons]
    have h1 : (l.filter fun b => (s :: S).contains b.sid && q b)
        = l.filter fun b => (b.sid == s && q b) || (S.contains b.sid && q b) := by
      apply List.filter_congr
      intro b _
      simp only [List.contains_cons]
      cases (b.sid == s) <;> cases (S.contains b.sid) <;> cases (q b) <;> rfl
    rw [h1]
    refine ((filter_or_perm l _ _ ?_).trans ?_).symm
    · intro b _ ⟨h2, h3⟩
      simp only [Bool.and_eq_true, beq_iff_eq, List.contains_iff_mem] at h2 h3
      exact hnd.1 (h2.1 ▸ h3.1)
    · exact List.Perm.append (List.Perm.refl _) (ih hnd.2).symm

theorem partBlocks_perm (r : Req) (p : Part) (hnd : r.sids.Nodup) :
    (partBlocks r p).Perm (p.blocks.filter (sel r)) := by
  rw [partBlocks_eq]
  refine (kmerge_perm (strictWeak_blockLt r.asc) _).trans ?_
  unfold seriesCursors
  rw [← List.flatMap_def]
  refine (perm_flatMap_left (g := fun sid => p.blocks.filter fun b => b.sid == sid && rangeOverlaps r b.lo b.hi) ?_).trans ?_
  · intro sid _
    split
    · exact List.Perm.refl _
    · exact List.reverse_perm _
  · refine (List.Perm.flatMap_right _ (sortNat_perm r.sids)).trans ?_
    exact flatMap_sids_filter p.blocks (fun b => rangeOverlaps r b.lo b.hi) r.sids hnd

end Banyan.C09

namespace Banyan.C09

theorem foldl_min_le (l : List Int) : ∀ init, l.foldl min init ≤ init ∧ ∀ x ∈ l, l.foldl min init ≤ x := by
  induction l with
  | nil => intro init; simp
  | cons y ys ih =>
    intro init
    have ⟨h1, h2⟩ := ih (min init y)
    simp only [List.foldl_cons]
    refine ⟨by omega, ?_⟩
    intro x hx
    rcases List.mem_cons.mp hx with rfl | hx
    · omega
    · exact h2 x hx

theorem foldl_max_ge (l : List Int) : ∀ init, init ≤ l.foldl max init ∧ ∀ x ∈ l, x ≤ l.foldl max init := by
  induction l with
  | nil => intro init; simp
  | cons y ys ih =>
    intro init
    have ⟨h1, h2⟩ := ih (max init y)
    simp only [List.foldl_cons]
    refine ⟨by omega, ?_⟩
    intro x hx
    rcases List.mem_cons.mp hx with rfl | hx
    · omega
    · exact h2 x hx

theorem part_range {p : Part} {b : Block} (hb : b ∈ p.blocks) : p.lo ≤ b.lo ∧ b.hi ≤ p.hi :=
  ⟨(foldl_min_le _ _).2 _ (List.mem_map_of_mem hb), (foldl_max_ge _ _).2 _ (List.mem_map_of_mem hb)⟩

theorem geMin_mono (r : Req) {a b : Int} (h : a ≤ b) (ha : geMin r a = true) : geMin r b = true := by
  unfold geMin at *; split at ha <;> simp_all; omega

theorem leMax_mono (r : Req) {a b : Int} (h : a ≤ b) (hb : leMax r b = true) : leMax r a = true := by
  unfold leMax at *; split at hb <;> simp_all; omega

/-- a part rejected by `selectPartsForQuery` holds no matched block -/
theorem unselected_part (r : Req) {p : Part} (h : rangeOverlaps r p.lo p.hi = false) :
    p.blocks.filter (sel r) = [] := by
  rw [List.filter_eq_nil_iff]
  intro b hb hs
  have ⟨h1, h2⟩ := part_range hb
  simp only [sel, rangeOverlaps, Bool.and_eq_true] at hs
  have := geMin_mono r h2 hs.2.1
  have := leMax_mono r h1 hs.2.2
  simp_all [rangeOverlaps]

/-- **matched blocks**: the block iterator yields exactly the blocks of the requested series whose key
    range overlaps the requested one – each once. -/
theorem iterBlocks_perm (r : Req) (snap : List Part) (hnd : r.sids.Nodup) :
    (iterBlocks r snap).Perm (selectedBlocks r snap) := by
  unfold iterBlocks selectedBlocks
  refine (kmerge_perm (strictWeak_blockLt r.asc) _).trans ?_
  rw [← List.flatMap_def, List.filter_flatMap]
  refine (perm_flatMap_left (g := fun p => p.blocks.filter (sel r)) fun p _ => partBlocks_perm r p hnd).trans ?_
  unfold selectParts
  rw [← flatMap_filter_of_nil snap (fun p => rangeOverlaps r p.lo p.hi) (fun p => p.blocks.filter (sel r))]
  · intro _ _ _; rfl
  · intro p _ h; exact unselected_part r h

end Banyan.C09

namespace Banyan.C09

/-- in-range elements of a block, in block order -/
def rangeElems (r : Req) (b : Block) : List Elem := b.elems.filter fun e => inRange r e.key

theorem inRange_overlaps (r : Req) {b : Block} (wf : WFBlock b) {e : Elem} (he : e ∈ b.elems)
    (hr : inRange r e.key = true) : rangeOverlaps r b.lo b.hi = true := by
  simp only [inRange, rangeOverlaps, Bool.and_eq_true] at *
  exact ⟨geMin_mono r (wf.hi e he) hr.1, leMax_mono r (wf.lo e he) hr.2⟩

theorem elems_flatMap (snap : List Part) :
    snap.flatMap Part.elems = (snap.flatMap (·.blocks)).flatMap (·.elems) := by
  unfold Part.elems
  induction snap with
  | nil => rfl
  | cons p ps ih => simp only [List.flatMap_cons, List.flatMap_append, ih]

/-- the matching elements are the in-range elements of the matched blocks -/
theorem matching_eq (r : Req) {snap : List Part} (wf : WF snap) :
    matching r snap = (selectedBlocks r snap).flatMap (rangeElems r) := by
  unfold matching selectedBlocks
  rw [elems_flatMap, List.filter_flatMap]
  apply flatMap_filter_of_nil
  · intro b hb hs
    obtain ⟨p, hp, hbp⟩ := List.mem_flatMap.mp hb
    have wb := (wf p hp).blocks b hbp
    simp only [sel, Bool.and_eq_true] at hs
    unfold rangeElems
    apply List.filter_congr
    intro e he
    rw [wb.sid e he, hs.1, Bool.true_and]
  · intro b hb hs
    obtain ⟨p, hp, hbp⟩ := List.mem_flatMap.mp hb
    have wb := (wf p hp).blocks b hbp
    rw [List.filter_eq_nil_iff]
    intro e he hP
    simp only [Bool.and_eq_true] at hP
    have h1 := inRange_overlaps r wb he hP.2
    rw [wb.sid e he] at hP
    simp only [sel, h1, Bool.and_true] at hs
    rw [hP.1] at hs
    contradiction

theorem cursorElems_nodup (r : Req) {b : Block} (hnd : (b.elems.map (·.data)).Nodup) :
    (cursorElems r b).Perm (rangeElems r b) := by
  unfold cursorElems rangeElems
  rw [dedupData_id [] _ (hnd.sublist (List.Sublist.map _ List.filter_sublist)) (by simp)]
  split
  · exact List.Perm.refl _
  · exact List.reverse_perm _

theorem rangeElems_all_inRange (r : Req) (bs : List Block) :
    (bs.flatMap (rangeElems r)).filter (fun e => inRange r e.key) = bs.flatMap (rangeElems r) := by
  rw [List.filter_eq_self]
  intro e he
  obtain ⟨b, _, heb⟩ := List.mem_flatMap.mp he
  exact (List.mem_filter.mp heb).2

/-- with distinct data values one heap drain delivers exactly the in-range elements of its blocks -/
theorem drainBatch_perm (r : Req) {bs : List Block} (hnd : ((bs.flatMap (·.elems)).map (·.data)).Nodup) :
    (drainBatch r bs).Perm (bs.flatMap (rangeElems r)) := by
  have hblock : ∀ b ∈ bs, (b.elems.map (·.data)).Nodup := by
    intro b hb
    refine hnd.sublist (List.Sublist.map _ ?_)
    obtain ⟨l1, l2, rfl⟩ := List.append_of_mem hb
    simp only [List.flatMap_append, List.flatMap_cons]
    exact (List.sublist_append_left _ _).trans (List.sublist_append_right _ _)
  have hm := (mergeHeap_Merge (strictWeak_elemLt r.asc) (bs.filterMap (loadCursor r))).perm
  rw [heapAll_loadCursor] at hm
  have h1 : (mergeHeap (elemLt r.asc) (bs.filterMap (loadCursor r))).Perm (bs.flatMap (rangeElems r)) :=
    hm.trans (perm_flatMap_left fun b hb => cursorElems_nodup r (hblock b hb))
  have h2 := h1.filter (fun e => inRange r e.key)
  rw [rangeElems_all_inRange] at h2
  unfold drainBatch
  rw [dedupData_id]
  · exact h2
  · have h3 : ((bs.flatMap (rangeElems r)).map (·.data)).Nodup :=
      hnd.sublist (List.Sublist.map _ (sublist_flatMap_left bs fun b _ => List.filter_sublist))
    exact ((h2.map _).nodup_iff).mpr h3
  · simp

end Banyan.C09
