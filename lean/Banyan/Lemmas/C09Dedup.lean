/-
Lemmas about `sortedMIterator`'s de-duplication model (C09).
-/
import Banyan.Lemmas.C09Merge

namespace Banyan.C09



def sameKey (a b : DP) : Prop := a.sid = b.sid ∧ a.ts = b.ts

theorem upsert_mem {d x : DP} {g : List DP} (h : x ∈ upsert d g) : x ∈ g ∨ x = d := by
  induction g with
  | nil => simp [upsert] at h; right; exact h
  | cons e es ih =>
    simp only [upsert] at h
    split at h
    · split at h
      · rcases List.mem_cons.mp h with rfl | h
        · right; rfl
        · left; exact List.mem_cons_of_mem _ h
      · left; exact h
    · rcases List.mem_cons.mp h with rfl | h
      · left; exact List.mem_cons_self
      · rcases ih h with h | h
        · left; exact List.mem_cons_of_mem _ h
        · right; exact h

/-- after `upsert d g` every row of `d :: g` is represented by a row with the same key and a version ≥ -/
theorem upsert_cover (d : DP) (g : List DP) : ∀ e ∈ d :: g, ∃ x ∈ upsert d g, sameKey x e ∧ e.ver ≤ x.ver := by
  induction g with
  | nil => intro e he; simp at he; subst he; exact ⟨e, by simp [upsert], ⟨rfl, rfl⟩, Int.le_refl _⟩
  | cons c cs ih =>
    intro e he
    simp only [upsert]
    split
    · rename_i hk
      split
      · rename_i hv
        rcases List.mem_cons.mp he with rfl | he
        · exact ⟨e, List.mem_cons_self, ⟨rfl, rfl⟩, Int.le_refl _⟩
        · rcases List.mem_cons.mp he with rfl | he
          · exact ⟨d, List.mem_cons_self, ⟨hk.1.symm, hk.2.symm⟩, by omega⟩
          · exact ⟨e, List.mem_cons_of_mem _ he, ⟨rfl, rfl⟩, Int.le_refl _⟩
      · rename_i hv
        rcases List.mem_cons.mp he with rfl | he
        · exact ⟨c, List.mem_cons_self, ⟨hk.1, hk.2⟩, by omega⟩
        · exact ⟨e, he, ⟨rfl, rfl⟩, Int.le_refl _⟩
    · rcases List.mem_cons.mp he with rfl | he
      · obtain ⟨x, hx, hk, hv⟩ := ih e List.mem_cons_self
        exact ⟨x, List.mem_cons_of_mem _ hx, hk, hv⟩
      · rcases List.mem_cons.mp he with rfl | he
        · exact ⟨e, List.mem_cons_self, ⟨rfl, rfl⟩, Int.le_refl _⟩
        · obtain ⟨x, hx, hk, hv⟩ := ih e (List.mem_cons_of_mem _ he)
          exact ⟨x, List.mem_cons_of_mem _ hx, hk, hv⟩

theorem upsert_distinct (d : DP) (g : List DP) (h : g.Pairwise (fun a b => ¬ sameKey a b)) :
    (upsert d g).Pairwise (fun a b => ¬ sameKey a b) := by
  induction g with
  | nil => simp [upsert]
  | cons c cs ih =>
    rw [List.pairwise_cons] at h
    simp only [upsert]
    split
    · rename_i hk
      split
      · rw [List.pairwise_cons]
        refine ⟨?_, h.2⟩
        intro b hb hs
        exact h.1 b hb ⟨hk.1.trans hs.1, hk.2.trans hs.2⟩
      · exact List.pairwise_cons.mpr h
    · rename_i hk
      rw [List.pairwise_cons]
      refine ⟨?_, ih h.2⟩
      intro b hb hs
      rcases upsert_mem hb with hb | rfl
      · exact h.1 b hb hs
      · exact hk hs



theorem pairwise_of_forall_mem {α : Type} {R : α → α → Prop} {l : List α} (h : ∀ a ∈ l, ∀ b ∈ l, R a b) :
    l.Pairwise R := by
  induction l with
  | nil => exact List.Pairwise.nil
  | cons x xs ih =>
    rw [List.pairwise_cons]
    exact ⟨fun b hb => h x List.mem_cons_self b (List.mem_cons_of_mem _ hb),
      ih fun a ha b hb => h a (List.mem_cons_of_mem _ ha) b (List.mem_cons_of_mem _ hb)⟩

structure DedupPre (desc : Bool) (grp ds : List DP) : Prop where
  sorted : Sorted (dpLt desc) ds
  before : ∀ g ∈ grp, ∀ x ∈ ds, dpLt desc x g = false
  sameTs : ∀ a ∈ grp, ∀ b ∈ grp, a.ts = b.ts
  distinct : grp.Pairwise (fun a b => ¬ sameKey a b)

structure DedupPost (desc : Bool) (grp ds out : List DP) : Prop where
  mem : ∀ x ∈ out, x ∈ grp ∨ x ∈ ds
  cover : ∀ e ∈ grp ++ ds, ∃ x ∈ out, sameKey x e ∧ e.ver ≤ x.ver
  distinct : out.Pairwise (fun a b => ¬ sameKey a b)
  sorted : Sorted (dpLt desc) out

theorem dedupPre_single {desc : Bool} {d : DP} {ds : List DP} (hs : Sorted (dpLt desc) (d :: ds)) :
    DedupPre desc [d] ds where
  sorted := (Sorted_cons.mp hs).2
  before := by intro g hg x hx; simp at hg; subst hg; exact (Sorted_cons.mp hs).1 x hx
  sameTs := by intro a ha b hb; simp at ha hb; subst ha; subst hb; rfl
  distinct := List.pairwise_singleton _ _

theorem dedupGroups_spec (desc : Bool) : ∀ (ds grp : List DP), DedupPre desc grp ds →
    DedupPost desc grp ds (dedupGroups grp ds) := by
  intro ds
  induction ds with
  | nil =>
    intro grp pre
    have : dedupGroups grp [] = grp := by cases grp <;> rfl
    rw [this]
    refine ⟨fun x hx => Or.inl hx, ?_, pre.distinct, ?_⟩
    · intro e he; simp at he; exact ⟨e, he, ⟨rfl, rfl⟩, Int.le_refl _⟩
    · exact pairwise_of_forall_mem fun a ha b hb => by
        have := pre.sameTs a ha b hb
        cases desc <;> simp [dpLt] <;> omega
  | cons d ds ih =>
    intro grp pre
    cases grp with
    | nil =>
      have post := ih [d] (dedupPre_single pre.sorted)
      simp only [dedupGroups]
      refine ⟨?_, ?_, post.distinct, post.sorted⟩
      · intro x hx
        rcases post.mem x hx with h | h
        · right; simp at h; subst h; exact List.mem_cons_self
        · right; exact List.mem_cons_of_mem _ h
      · intro e he
        exact post.cover e (by simpa using he)
    | cons g grp =>
      simp only [dedupGroups]
      split
      · rename_i hts
        have pre' : DedupPre desc (upsert d (g :: grp)) ds := by
          refine ⟨(Sorted_cons.mp pre.sorted).2, ?_, ?_, upsert_distinct d _ pre.distinct⟩
          · intro y hy x hx
            rcases upsert_mem hy with hy | rfl
            · exact pre.before y hy x (List.mem_cons_of_mem _ hx)
            · exact (Sorted_cons.mp pre.sorted).1 x hx
          · have hall : ∀ y ∈ upsert d (g :: grp), y.ts = g.ts := by
              intro y hy
              rcases upsert_mem hy with hy | rfl
              · exact pre.sameTs y hy g List.mem_cons_self
              · exact hts.symm
            intro a ha b hb
            rw [hall a ha, hall b hb]
        have post := ih _ pre'
        refine ⟨?_, ?_, post.distinct, post.sorted⟩
        · intro x hx
          rcases post.mem x hx with h | h
          · rcases upsert_mem h with h | rfl
            · left; exact h
            · right; exact List.mem_cons_self
          · right; exact List.mem_cons_of_mem _ h
        · intro e he
          have he' : e ∈ d :: (g :: grp) ∨ e ∈ ds := by
            simp only [List.mem_append, List.mem_cons] at he ⊢
            rcases he with (h | h) | (h | h)
            · left; right; left; exact h
            · left; right; right; exact h
            · left; left; exact h
            · right; exact h
          rcases he' with h | h
          · obtain ⟨x', hx', hk', hv'⟩ := upsert_cover d (g :: grp) e h
            obtain ⟨x, hx, hk, hv⟩ := post.cover x' (List.mem_append_left _ hx')
            exact ⟨x, hx, ⟨hk.1.trans hk'.1, hk.2.trans hk'.2⟩, by omega⟩
          · exact post.cover e (List.mem_append_right _ h)
      · rename_i hts
        have post := ih [d] (dedupPre_single pre.sorted)
        have htail : ∀ b ∈ dedupGroups [d] ds, b ∈ d :: ds := by
          intro b hb
          rcases post.mem b hb with h | h
          · simp at h; subst h; exact List.mem_cons_self
          · exact List.mem_cons_of_mem _ h
        have hgd : dpLt desc d g = false := pre.before g List.mem_cons_self d List.mem_cons_self
        refine ⟨?_, ?_, ?_, ?_⟩
        · intro x hx
          rcases List.mem_append.mp hx with h | h
          · left; exact h
          · right; exact htail x h
        · intro e he
          rcases List.mem_append.mp he with h | h
          · exact ⟨e, List.mem_append_left _ h, ⟨rfl, rfl⟩, Int.le_refl _⟩
          · obtain ⟨x, hx, hk, hv⟩ := post.cover e (by simpa using h)
            exact ⟨x, List.mem_append_right _ hx, hk, hv⟩
        · rw [List.pairwise_append]
          refine ⟨pre.distinct, post.distinct, ?_⟩
          intro a ha b hb hk
          have hat : a.ts = g.ts := pre.sameTs a ha g List.mem_cons_self
          have hb' := htail b hb
          have hbd : dpLt desc b d = false := by
            rcases List.mem_cons.mp hb' with rfl | h
            · cases desc <;> simp [dpLt]
            · exact (Sorted_cons.mp pre.sorted).1 b h
          have : b.ts = a.ts := hk.2.symm
          revert hgd hbd
          cases desc <;> simp [dpLt] <;> omega
        · unfold Sorted
          rw [List.pairwise_append]
          refine ⟨?_, post.sorted, ?_⟩
          · exact pairwise_of_forall_mem fun a ha b hb => by
              have := pre.sameTs a ha b hb
              cases desc <;> simp [dpLt] <;> omega
          · intro a ha b hb
            exact pre.before a ha b (htail b hb)


end Banyan.C09
