/-
Lemmas about the sidx block iterator model (order of blocks, scanner batches) of Banyan.Model.C09.
-/
import Banyan.Lemmas.C09Sidx

namespace Banyan.C09

theorem strictWeak_lessByKey : StrictWeak lessByKey where
  irrefl := by intro a; simp [lessByKey]
  trans := by
    intro a b c
    simp only [lessByKey]
    repeat' split
    all_goals simp
    all_goals omega
  ntrans := by
    intro a b c
    simp only [lessByKey]
    repeat' split
    all_goals simp
    all_goals omega

theorem strictWeak_blockLt (asc : Bool) : StrictWeak (blockLt asc) := by
  cases asc with
  | true => exact strictWeak_lessByKey
  | false => exact strictWeak_lessByKey.flip

end Banyan.C09

namespace Banyan.C09

/-- part invariants: well-formed blocks; the blocks of one series are in key order in the file -/
structure WFPart (p : Part) : Prop where
  blocks : ∀ b ∈ p.blocks, WFBlock b
  series : ∀ sid, Sorted lessByKey (p.blocks.filter fun b => b.sid == sid)

def WF (snap : List Part) : Prop := ∀ p ∈ snap, WFPart p

/-- the per-series cursors of `partKeyIter` -/
def seriesCursors (r : Req) (p : Part) : List (List Block) :=
  (sortNat r.sids).map fun sid =>
    let refs := p.blocks.filter fun b => b.sid == sid && rangeOverlaps r b.lo b.hi
    if r.asc then refs else refs.reverse

theorem partBlocks_eq (r : Req) (p : Part) : partBlocks r p = kmerge (blockLt r.asc) (seriesCursors r p) := rfl

theorem seriesCursors_sorted (r : Req) {p : Part} (wf : WFPart p) :
    ∀ it ∈ seriesCursors r p, Sorted (blockLt r.asc) it := by
  intro it hit
  obtain ⟨sid, _, rfl⟩ := List.mem_map.mp hit
  have h0 : Sorted lessByKey (p.blocks.filter fun b => b.sid == sid && rangeOverlaps r b.lo b.hi) := by
    have := wf.series sid
    unfold Sorted at *
    refine this.sublist ?_
    have : (p.blocks.filter fun b => b.sid == sid && rangeOverlaps r b.lo b.hi)
        = (p.blocks.filter fun b => b.sid == sid).filter fun b => rangeOverlaps r b.lo b.hi := by
      rw [List.filter_filter]; congr 1; funext b; rw [Bool.and_comm]
    rw [this]
    exact List.filter_sublist
  cases hasc : r.asc with
  | true =>
    simp only [if_true]
    exact h0
  | false =>
    simp only [Bool.false_eq_true, if_false]
    exact h0.reverse_flip

theorem partBlocks_sorted (r : Req) {p : Part} (wf : WFPart p) : Sorted (blockLt r.asc) (partBlocks r p) :=
  kmerge_Sorted (strictWeak_blockLt r.asc) (seriesCursors_sorted r wf)

/-- **block iterator order**: blocks come sorted by `lessByKey` (reversed for descending queries) -/
theorem iterBlocks_sorted (r : Req) {snap : List Part} (wf : WF snap) : Sorted (blockLt r.asc) (iterBlocks r snap) := by
  refine kmerge_Sorted (strictWeak_blockLt r.asc) ?_
  intro it hit
  obtain ⟨p, hp, rfl⟩ := List.mem_map.mp hit
  exact partBlocks_sorted r (wf p (List.mem_filter.mp hp).1)

theorem partBlocks_mem {r : Req} {p : Part} {b : Block} (h : b ∈ partBlocks r p) : b ∈ p.blocks := by
  have hp := kmerge_perm (strictWeak_blockLt r.asc) (seriesCursors r p)
  rw [partBlocks_eq] at h
  have h1 := (hp.mem_iff).mp h
  obtain ⟨it, hit, hb⟩ := List.mem_flatten.mp h1
  obtain ⟨sid, _, rfl⟩ := List.mem_map.mp hit
  have : b ∈ p.blocks.filter fun b => b.sid == sid && rangeOverlaps r b.lo b.hi := by
    split at hb
    · exact hb
    · exact List.mem_reverse.mp hb
  exact (List.mem_filter.mp this).1

theorem iterBlocks_mem {r : Req} {snap : List Part} {b : Block} (h : b ∈ iterBlocks r snap) :
    ∃ p ∈ snap, b ∈ p.blocks := by
  have hp := kmerge_perm (strictWeak_blockLt r.asc) ((selectParts r snap).map (partBlocks r))
  have h1 := (hp.mem_iff).mp h
  obtain ⟨it, hit, hb⟩ := List.mem_flatten.mp h1
  obtain ⟨p, hp, rfl⟩ := List.mem_map.mp hit
  exact ⟨p, (List.mem_filter.mp hp).1, partBlocks_mem hb⟩

theorem iterBlocks_wf {r : Req} {snap : List Part} (wf : WF snap) : ∀ b ∈ iterBlocks r snap, WFBlock b := by
  intro b hb
  obtain ⟨p, hp, hbp⟩ := iterBlocks_mem hb
  exact (wf p hp).blocks b hbp


/-- block key ranges are ordered along the iteration (ascending: each block ends before the next begins) -/
def ChainOrdered (asc : Bool) (bs : List Block) : Prop :=
  bs.Pairwise (fun a b => if asc then a.hi ≤ b.lo else b.hi ≤ a.lo)

theorem flatten_mergeCall (r : Req) (bs : List Block) : (mergeCall r bs).flatten = drainBatch r bs :=
  flatten_chunk _ _

theorem flatten_flatMap_mergeCall (r : Req) (cs : List (List Block)) :
    (cs.flatMap (mergeCall r)).flatten = (cs.map (drainBatch r)).flatten := by
  induction cs with
  | nil => rfl
  | cons c cs ih => simp [List.flatMap_cons, flatten_mergeCall, ih]

theorem batches_sorted (r : Req) (cs : List (List Block)) (wf : ∀ c ∈ cs, ∀ b ∈ c, WFBlock b)
    (h : cs.length ≤ 1 ∨ ChainOrdered r.asc cs.flatten) :
    Sorted (elemLt r.asc) ((cs.map (drainBatch r)).flatten) := by
  unfold Sorted
  rw [List.pairwise_flatten]
  refine ⟨?_, ?_⟩
  · intro l hl
    obtain ⟨c, hc, rfl⟩ := List.mem_map.mp hl
    exact drainBatch_sorted r (wf c hc)
  · rw [List.pairwise_map]
    rcases h with h | h
    · match cs, h with
      | [], _ => exact List.Pairwise.nil
      | [c], _ => exact List.pairwise_singleton _ _
    · have h' := (List.pairwise_flatten.mp h).2
      refine List.Pairwise.imp_of_mem ?_ h'
      intro c1 c2 hc1 hc2 hR x hx y hy
      obtain ⟨a, ha, hxa, _⟩ := drainBatch_mem hx
      obtain ⟨b, hb, hyb, _⟩ := drainBatch_mem hy
      have hab := hR a ha b hb
      have w1 := wf c1 hc1 a ha
      have w2 := wf c2 hc2 b hb
      have := w1.lo x hxa; have := w1.hi x hxa; have := w2.lo y hyb; have := w2.hi y hyb
      cases hasc : r.asc <;> simp [hasc] at hab <;> simp [elemLt] <;> omega


/-- key ranges of the blocks do not overlap (touching end points allowed); independent of any order -/
def PairwiseDisjoint (bs : List Block) : Prop := bs.Pairwise (fun a b => a.hi ≤ b.lo ∨ b.hi ≤ a.lo)

/-- sorted by `lessByKey` + pairwise disjoint ⇒ ordered chain along the iteration -/
theorem chain_of_sorted_disjoint (asc : Bool) {bs : List Block} (wf : ∀ b ∈ bs, WFBlock b)
    (hs : Sorted (blockLt asc) bs) (hd : PairwiseDisjoint bs) : ChainOrdered asc bs := by
  unfold ChainOrdered PairwiseDisjoint Sorted at *
  induction bs with
  | nil => exact List.Pairwise.nil
  | cons a bs ih =>
    rw [List.pairwise_cons] at hs hd ⊢
    refine ⟨?_, ih (fun b hb => wf b (List.mem_cons_of_mem _ hb)) hs.2 hd.2⟩
    intro b hb
    have h1 := hs.1 b hb
    have h2 := hd.1 b hb
    have wa := (wf a List.mem_cons_self).range
    have wb := (wf b (List.mem_cons_of_mem _ hb)).range
    cases asc with
    | true =>
      simp only [blockLt, if_true, lessByKey] at h1 ⊢
      rcases h2 with h2 | h2
      · exact h2
      · -- b.hi ≤ a.lo: only possible for touching single-key blocks
        by_cases e1 : b.lo = a.lo
        · simp only [e1, ne_eq, not_true_eq_false, if_false] at h1
          by_cases e2 : b.hi = a.hi
          · omega
          · simp only [e2, not_false_eq_true, if_true, decide_eq_false_iff_not] at h1
            omega
        · simp only [e1, ne_eq, not_false_eq_true, if_true, decide_eq_false_iff_not] at h1
          omega
    | false =>
      simp only [blockLt, Bool.false_eq_true, if_false, lessByKey] at h1 ⊢
      rcases h2 with h2 | h2
      · by_cases e1 : a.lo = b.lo
        · simp only [e1, ne_eq, not_true_eq_false, if_false] at h1
          by_cases e2 : a.hi = b.hi
          · omega
          · simp only [e2, not_false_eq_true, if_true, decide_eq_false_iff_not] at h1
            omega
        · simp only [e1, ne_eq, not_false_eq_true, if_true, decide_eq_false_iff_not] at h1
          omega
      · exact h2

theorem threshold_pos (r : Req) : 0 < threshold r := by
  unfold threshold scannerBatch
  split <;> omega

end Banyan.C09
