/-
Lemmas about the measure `queryResult` model (C09): heap order, `qrMerge`, `qrPullAll`.
-/
import Banyan.Lemmas.C09Merge

namespace Banyan.C09


/-! measure `queryResult`: rows come out in timestamp order (order by time) -/

def tsLe (asc : Bool) (a b : MRow) : Prop := if asc then a.ts ≤ b.ts else b.ts ≤ a.ts

theorem strictWeak_qrLt_ts (asc : Bool) (sids : List Nat) : StrictWeak (qrLt true asc sids) where
  irrefl := by intro a; simp [qrLt]
  trans := by
    intro a b c
    cases asc <;> simp only [qrLt, if_true, Bool.false_eq_true, if_false, beq_iff_eq]
    all_goals (repeat' split)
    all_goals simp
    all_goals omega
  ntrans := by
    intro a b c
    cases asc <;> simp only [qrLt, if_true, Bool.false_eq_true, if_false, beq_iff_eq]
    all_goals (repeat' split)
    all_goals simp
    all_goals omega

theorem tsLe_of_not_qrLt {asc : Bool} {sids : List Nat} {a b : MRow} (h : qrLt true asc sids b a = false) :
    tsLe asc a b := by
  cases asc <;> simp only [qrLt, if_true, Bool.false_eq_true, if_false, beq_iff_eq, tsLe] at h ⊢
  all_goals (split at h)
  all_goals (try omega)
  all_goals (simp at h; omega)

theorem tsLe_trans {asc : Bool} {a b c : MRow} (h1 : tsLe asc a b) (h2 : tsLe asc b c) : tsLe asc a c := by
  cases asc <;> simp [tsLe] at * <;> omega

theorem tsLe_congr_right {asc : Bool} {a b b' : MRow} (h : b'.ts = b.ts) (h1 : tsLe asc a b) : tsLe asc a b' := by
  cases asc <;> simp [tsLe] at * <;> omega

theorem tsLe_congr_left {asc : Bool} {a a' b : MRow} (h : a'.ts = a.ts) (h1 : tsLe asc a b) : tsLe asc a' b := by
  cases asc <;> simp [tsLe] at * <;> omega



structure QrPost (asc : Bool) (lt : MRow → MRow → Bool) (h : List (Cursor MRow)) (res : List MRow)
    (out : List MRow × List (Cursor MRow)) : Prop where
  sorted : out.1.Pairwise (tsLe asc)
  heapSorted : ∀ c ∈ out.2, Sorted lt c.all
  before : ∀ x ∈ out.1, ∀ y ∈ heapAll out.2, tsLe asc x y
  sub : ∀ y ∈ heapAll out.2, y ∈ heapAll h
  origin : ∀ x ∈ out.1, (∃ z ∈ res, z.ts = x.ts) ∨ ∃ z ∈ heapAll h, z.ts = x.ts

theorem qrMerge_spec (asc : Bool) (sids : List Nat) :
    ∀ (f : Nat) (h : List (Cursor MRow)) (res : List MRow) (lastSid : Option Nat) (lastVer : Int),
      (∀ c ∈ h, Sorted (qrLt true asc sids) c.all) →
      res.Pairwise (fun a b => tsLe asc b a) →
      (∀ x ∈ res, ∀ y ∈ heapAll h, tsLe asc x y) →
      QrPost asc (qrLt true asc sids) h res (qrMerge (qrLt true asc sids) f h res lastSid lastVer) := by
  have sw := strictWeak_qrLt_ts asc sids
  intro f
  induction f with
  | zero =>
    intro h res _ _ hs hres hb
    simp only [qrMerge]
    exact ⟨List.pairwise_reverse.mpr hres, hs, fun x hx y hy => hb x (List.mem_reverse.mp hx) y hy, fun y hy => hy,
      fun x hx => Or.inl ⟨x, List.mem_reverse.mp hx, rfl⟩⟩
  | succ f ih =>
    intro h res lastSid lastVer hs hres hb
    have stop : QrPost asc (qrLt true asc sids) h res (res.reverse, h) :=
      ⟨List.pairwise_reverse.mpr hres, hs, fun x hx y hy => hb x (List.mem_reverse.mp hx) y hy, fun y hy => hy,
        fun x hx => Or.inl ⟨x, List.mem_reverse.mp hx, rfl⟩⟩
    simp only [qrMerge]
    split
    · rename_i hn
      have := pickMin_none hn
      subst this
      exact ⟨List.pairwise_reverse.mpr hres, by simp, by simp [heapAll], by simp [heapAll],
        fun x hx => Or.inl ⟨x, List.mem_reverse.mp hx, rfl⟩⟩
    · rename_i m o hsome
      have ⟨hperm, hmin⟩ := pickMin_spec sw h m o hsome
      have hm_mem : m ∈ h := (hperm.mem_iff).mpr List.mem_cons_self
      have ho : ∀ c ∈ o, Sorted (qrLt true asc sids) c.all :=
        fun c hc => hs c ((hperm.mem_iff).mpr (List.mem_cons_of_mem _ hc))
      have hs' := sorted_pushIter (hs m hm_mem) ho
      have hall := min_head_le_all sw hs hmin
      have hsub : ∀ y ∈ heapAll (pushIter m.2 o), y ∈ heapAll h := by
        intro y hy
        have p1 := (heapAll_pushIter m o).trans (heapAll_perm hperm.symm)
        exact (p1.mem_iff).mp (List.mem_cons_of_mem _ hy)
      have htop_mem : m.1 ∈ heapAll h := by
        have p1 := (heapAll_pushIter m o).trans (heapAll_perm hperm.symm)
        exact (p1.mem_iff).mp List.mem_cons_self
      have htop_le : ∀ y ∈ heapAll (pushIter m.2 o), tsLe asc m.1 y :=
        fun y hy => tsLe_of_not_qrLt (hall y (hsub y hy))
      -- lifting a post-condition of the recursive call on the smaller heap
      have lift : ∀ (res' : List MRow) (out : List MRow × List (Cursor MRow)),
          (∀ z ∈ res', (∃ w ∈ res, w.ts = z.ts) ∨ ∃ w ∈ heapAll h, w.ts = z.ts) →
          QrPost asc (qrLt true asc sids) (pushIter m.2 o) res' out → QrPost asc (qrLt true asc sids) h res out := by
        intro res' out hor post
        refine ⟨post.sorted, post.heapSorted, post.before, fun y hy => hsub y (post.sub y hy), ?_⟩
        intro x hx
        rcases post.origin x hx with ⟨z, hz, hzt⟩ | ⟨z, hz, hzt⟩
        · rcases hor z hz with ⟨w, hw, hwt⟩ | ⟨w, hw, hwt⟩
          · exact Or.inl ⟨w, hw, hwt.trans hzt⟩
          · exact Or.inr ⟨w, hw, hwt.trans hzt⟩
        · exact Or.inr ⟨z, hsub z hz, hzt⟩
      split
      · exact stop
      · cases res with
        | nil =>
          simp only []
          refine lift [m.1] _ ?_ (ih _ _ _ _ hs' (List.pairwise_singleton _ _) ?_)
          · intro z hz; simp at hz; subst hz; exact Or.inr ⟨_, htop_mem, rfl⟩
          · intro x hx y hy; simp at hx; subst hx; exact htop_le y hy
        | cons last before =>
          simp only []
          have hres' := List.pairwise_cons.mp hres
          split
          · rename_i hts
            split
            · -- replace the last copied row (same timestamp)
              refine lift ({ last with ver := m.1.ver, val := m.1.val } :: before) _ ?_ (ih _ _ _ _ hs' ?_ ?_)
              · intro z hz
                rcases List.mem_cons.mp hz with rfl | hz
                · exact Or.inl ⟨last, List.mem_cons_self, rfl⟩
                · exact Or.inl ⟨z, List.mem_cons_of_mem _ hz, rfl⟩
              · rw [List.pairwise_cons]
                exact ⟨fun b hb => tsLe_congr_right (b' := { last with ver := m.1.ver, val := m.1.val }) rfl (hres'.1 b hb), hres'.2⟩
              · intro x hx y hy
                rcases List.mem_cons.mp hx with rfl | hx
                · exact tsLe_congr_left (a := last) rfl (hb last List.mem_cons_self y (hsub y hy))
                · exact hb x (List.mem_cons_of_mem _ hx) y (hsub y hy)
            · refine lift (last :: before) _ (fun z hz => Or.inl ⟨z, hz, rfl⟩) (ih _ _ _ _ hs' hres ?_)
              intro x hx y hy
              exact hb x hx y (hsub y hy)
          · refine lift (m.1 :: last :: before) _ ?_ (ih _ _ _ _ hs' ?_ ?_)
            · intro z hz
              rcases List.mem_cons.mp hz with rfl | hz
              · exact Or.inr ⟨_, htop_mem, rfl⟩
              · exact Or.inl ⟨z, hz, rfl⟩
            · rw [List.pairwise_cons]
              exact ⟨fun b hb' => hb b hb' m.1 htop_mem, hres⟩
            · intro x hx y hy
              rcases List.mem_cons.mp hx with rfl | hx
              · exact htop_le y hy
              · exact hb x hx y (hsub y hy)



theorem qrPullAll_spec (asc : Bool) (sids : List Nat) :
    ∀ (f : Nat) (h : List (Cursor MRow)), (∀ c ∈ h, Sorted (qrLt true asc sids) c.all) →
      (qrPullAll (qrLt true asc sids) f h).flatten.Pairwise (tsLe asc) ∧
      ∀ y ∈ (qrPullAll (qrLt true asc sids) f h).flatten, ∃ z ∈ heapAll h, z.ts = y.ts := by
  intro f
  induction f with
  | zero => intro h _; simp [qrPullAll]
  | succ f ih =>
    intro h hs
    match h, hs with
    | [], _ => simp [qrPullAll]
    | [c], hs =>
      simp only [qrPullAll, List.flatten_cons, List.flatten_nil, List.append_nil]
      refine ⟨?_, fun y hy => ⟨y, by simpa [heapAll] using hy, rfl⟩⟩
      have := hs c List.mem_cons_self
      exact this.imp (fun hab => tsLe_of_not_qrLt hab)
    | c₁ :: c₂ :: rest, hs =>
      simp only [qrPullAll]
      have post := qrMerge_spec asc sids (heapSize (c₁ :: c₂ :: rest) + 1) (c₁ :: c₂ :: rest) [] none 0 hs
        List.Pairwise.nil (by simp)
      generalize qrMerge (qrLt true asc sids) (heapSize (c₁ :: c₂ :: rest) + 1) (c₁ :: c₂ :: rest) [] none 0 = out at post
      obtain ⟨r, h'⟩ := out
      have ⟨ih1, ih2⟩ := ih h' post.heapSorted
      simp only [List.flatten_cons]
      refine ⟨?_, ?_⟩
      · rw [List.pairwise_append]
        refine ⟨post.sorted, ih1, ?_⟩
        intro x hx y hy
        obtain ⟨z, hz, hzt⟩ := ih2 y hy
        exact tsLe_congr_right hzt.symm (post.before x hx z hz)
      · intro y hy
        rcases List.mem_append.mp hy with hy | hy
        · rcases post.origin y hy with ⟨z, hz, _⟩ | h2
          · cases hz
          · exact h2
        · obtain ⟨z, hz, hzt⟩ := ih2 y hy
          exact ⟨z, post.sub z hz, hzt⟩



def MRowLE (a b : MRow) : Prop :=
  a.sid < b.sid ∨ (a.sid = b.sid ∧ (a.ts < b.ts ∨ (a.ts = b.ts ∧ a.ver ≥ b.ver)))

/-- strictly increasing in (series, timestamp) -/
def MStrict (a b : MRow) : Prop := a.sid < b.sid ∨ (a.sid = b.sid ∧ a.ts < b.ts)

theorem mrowLe_iff (a b : MRow) : mrowLe a b = true ↔ MRowLE a b := by
  simp [mrowLe, MRowLE]

theorem dropDupTs_spec : ∀ (l : List MRow), l.Pairwise MRowLE →
    (dropDupTs l).Pairwise MStrict ∧ (dropDupTs l).Sublist l ∧ (dropDupTs l).head? = l.head? := by
  intro l
  fun_induction dropDupTs l with
  | case1 a b r hk ih =>
    intro hp
    have hsub : (a :: r).Sublist (a :: b :: r) := (List.sublist_cons_self b r).cons_cons a
    have ⟨h1, h2, h3⟩ := ih (hp.sublist hsub)
    exact ⟨h1, h2.trans hsub, by simpa using h3⟩
  | case2 a b r hk ih =>
    intro hp
    rw [List.pairwise_cons] at hp
    have ⟨h1, h2, h3⟩ := ih hp.2
    refine ⟨?_, h2.cons_cons a, rfl⟩
    rw [List.pairwise_cons]
    refine ⟨?_, h1⟩
    intro y hy
    have hy' := h2.subset hy
    have hab := hp.1 b List.mem_cons_self
    have hsab : MStrict a b := by
      unfold MRowLE at hab; unfold MStrict
      rcases hab with h | ⟨h, h' | h'⟩
      · exact Or.inl h
      · exact Or.inr ⟨h, h'⟩
      · exact absurd ⟨h, h'.1⟩ hk
    rcases List.mem_cons.mp hy' with rfl | hyr
    · exact hsab
    · have hby := (List.pairwise_cons.mp hp.2).1 y hyr
      unfold MRowLE at hby; unfold MStrict at hsab ⊢
      omega
  | case3 l hl =>
    intro hp
    match l, hl with
    | [], _ => simp
    | [a], _ => simp
    | a :: b :: r, hl => exact absurd rfl (hl a b r)



/-- rows of one block: one series, timestamps strictly increasing -/
def BlockRows (g : List MRow) : Prop := g.Pairwise (fun x y => x.sid = y.sid ∧ x.ts < y.ts)

theorem blockRows_of_strict {l : List MRow} {s : Nat} (hp : l.Pairwise MStrict) (hs : ∀ e ∈ l, e.sid = s) :
    BlockRows l := by
  refine hp.imp_of_mem ?_
  intro a b ha hb hab
  have := hs a ha; have := hs b hb
  unfold MStrict at hab
  omega

theorem groupBySid_spec : ∀ (es cur : List MRow) (s : Nat), (cur.reverse ++ es).Pairwise MStrict →
    (∀ e ∈ cur, e.sid = s) → ∀ g ∈ groupBySid es cur, BlockRows g := by
  intro es
  induction es with
  | nil =>
    intro cur s hp hs g hg
    simp only [groupBySid] at hg
    split at hg
    · cases hg
    · simp at hg; subst hg
      exact blockRows_of_strict (by simpa using hp) (fun e he => hs e (List.mem_reverse.mp he))
  | cons e rest ih =>
    intro cur s hp hs g hg
    cases cur with
    | nil =>
      simp only [groupBySid] at hg
      exact ih [e] e.sid (by simpa using hp) (by intro x hx; simp at hx; rw [hx]) g hg
    | cons c cur' =>
      simp only [groupBySid] at hg
      split at hg
      · rcases List.mem_cons.mp hg with rfl | hg
        · exact blockRows_of_strict (List.pairwise_append.mp hp).1 (fun x hx => hs x (List.mem_reverse.mp hx))
        · exact ih [e] e.sid (by simpa using (List.pairwise_append.mp hp).2.1) (by intro x hx; simp at hx; rw [hx]) g hg
      · rename_i hne
        have hsid : c.sid = e.sid := Decidable.of_not_not hne
        exact ih (e :: c :: cur') s (by simpa using hp) (by
          intro x hx
          rcases List.mem_cons.mp hx with rfl | hx
          · rw [← hsid]; exact hs c List.mem_cons_self
          · exact hs x hx) g hg

theorem measureBlocks_rows (rows : List MRow) : ∀ g ∈ measureBlocks rows, BlockRows g := by
  unfold measureBlocks
  have hs : (rows.mergeSort mrowLe).Pairwise MRowLE := by
    have := List.pairwise_mergeSort (le := mrowLe)
      (by intro a b c; simp only [mrowLe_iff, MRowLE]; omega)
      (by intro a b; simp only [Bool.or_eq_true, mrowLe_iff, MRowLE]; omega) rows
    exact this.imp (by intro a b h; exact (mrowLe_iff a b).mp h)
  have := (dropDupTs_spec _ hs).1
  exact groupBySid_spec _ [] 0 (by simpa using this) (by simp)

/-- a block cursor restricted to a time range and oriented for the query direction is in heap order -/
theorem cursor_sorted (asc : Bool) (sids : List Nat) {g : List MRow} (hg : BlockRows g) (p : MRow → Bool) :
    Sorted (qrLt true asc sids) (if true && !asc then (g.filter p).reverse else g.filter p) := by
  have h0 : BlockRows (g.filter p) := List.Pairwise.sublist List.filter_sublist hg
  unfold Sorted
  cases asc with
  | true =>
    simp only [Bool.not_true, Bool.and_false, Bool.false_eq_true, if_false]
    refine h0.imp ?_
    intro a b hab
    simp only [qrLt, if_true, beq_iff_eq]
    have : ¬ b.ts = a.ts := by omega
    simp [this]; omega
  | false =>
    simp only [Bool.not_false, Bool.and_true, if_true]
    rw [List.pairwise_reverse]
    refine h0.imp ?_
    intro a b hab
    simp only [qrLt, if_true, beq_iff_eq, Bool.false_eq_true, if_false]
    have : ¬ a.ts = b.ts := by omega
    simp [this]; omega


end Banyan.C09
