/-
Lemmas about the heap-based k-way merge of `Banyan.Model.C09` (used by Props/C09).
-/
import Banyan.Model.C09

namespace Banyan.C09

section
variable {α : Type} {lt : α → α → Bool}

theorem StrictWeak.asymm (sw : StrictWeak lt) {a b : α} (h : lt a b = true) : lt b a = false := by
  cases hb : lt b a with
  | false => rfl
  | true =>
    have := sw.trans _ _ _ h hb
    rw [sw.irrefl] at this
    contradiction

/-- "not less" is transitive. -/
theorem StrictWeak.nlt_trans (sw : StrictWeak lt) {a b c : α} (h1 : lt b a = false) (h2 : lt c b = false) :
    lt c a = false := by
  cases h : lt c a with
  | false => rfl
  | true =>
    rcases sw.ntrans _ b _ h with h' | h'
    · rw [h2] at h'; contradiction
    · rw [h1] at h'; contradiction

theorem pickMin_none {h : List (Cursor α)} (hn : pickMin lt h = none) : h = [] := by
  cases h with
  | nil => rfl
  | cons c cs =>
    simp only [pickMin] at hn
    split at hn
    · contradiction
    · split at hn <;> contradiction

/-- the deterministic `Pop` returns a `Less`-minimal entry and the remaining entries -/
theorem pickMin_spec (sw : StrictWeak lt) : ∀ (h : List (Cursor α)) (m : Cursor α) (o : List (Cursor α)),
    pickMin lt h = some (m, o) → h.Perm (m :: o) ∧ ∀ c ∈ h, lt c.1 m.1 = false := by
  intro h
  induction h with
  | nil => intro m o hp; simp [pickMin] at hp
  | cons c cs ih =>
    intro m o hp
    simp only [pickMin] at hp
    split at hp
    · -- rest is empty
      rename_i hnone
      have := pickMin_none hnone
      subst this
      cases hp
      refine ⟨List.Perm.refl _, ?_⟩
      intro c' hc'
      simp at hc'
      subst hc'
      exact sw.irrefl _
    · rename_i m' o' hsome
      have ⟨hperm, hmin⟩ := ih m' o' hsome
      split at hp
      · rename_i hlt
        cases hp
        refine ⟨?_, ?_⟩
        · exact (List.Perm.cons c hperm).trans (List.Perm.swap _ _ _)
        · intro c' hc'
          rcases List.mem_cons.mp hc' with rfl | hc'
          · exact sw.asymm hlt
          · exact hmin c' hc'
      · rename_i hlt
        cases hp
        refine ⟨List.Perm.refl _, ?_⟩
        intro c' hc'
        rcases List.mem_cons.mp hc' with rfl | hc'
        · exact sw.irrefl _
        · have h1 : lt m'.1 c.1 = false := by simpa using hlt
          exact sw.nlt_trans h1 (hmin c' hc')

theorem heapSize_cons (c : Cursor α) (h : List (Cursor α)) : heapSize (c :: h) = c.2.length + 1 + heapSize h := by
  simp [heapSize]

theorem heapSize_perm {h₁ h₂ : List (Cursor α)} (p : h₁.Perm h₂) : heapSize h₁ = heapSize h₂ := by
  induction p with
  | nil => rfl
  | cons x _ ih => simp [heapSize_cons, ih]
  | swap x y l => simp [heapSize_cons]; omega
  | trans _ _ ih1 ih2 => exact ih1.trans ih2

theorem heapSize_append (a b : List (Cursor α)) : heapSize (a ++ b) = heapSize a + heapSize b := by
  induction a with
  | nil => simp [heapSize]
  | cons x xs ih => simp [heapSize_cons, ih]; omega

theorem heapSize_pushIter (m : Cursor α) (o : List (Cursor α)) :
    heapSize (pushIter m.2 o) + 1 = heapSize (m :: o) := by
  obtain ⟨x, rest⟩ := m
  cases rest with
  | nil => simp [pushIter, heapSize_cons]; omega
  | cons y ys => simp [pushIter, heapSize]; omega

theorem heapSize_eq_zero {h : List (Cursor α)} (hz : heapSize h = 0) : h = [] := by
  cases h with
  | nil => rfl
  | cons c cs => simp [heapSize_cons] at hz

/-- the executable merge is one of the runs allowed by `Merge` -/
theorem mergeFuel_Merge (sw : StrictWeak lt) : ∀ (n : Nat) (h : List (Cursor α)), heapSize h ≤ n →
    Merge lt h (mergeFuel lt n h) := by
  intro n
  induction n with
  | zero =>
    intro h hs
    have := heapSize_eq_zero (Nat.le_zero.mp hs)
    subst this
    exact Merge.done
  | succ n ih =>
    intro h hs
    simp only [mergeFuel]
    split
    · rename_i hn
      have := pickMin_none hn
      subst this
      exact Merge.done
    · rename_i m o hsome
      have ⟨hperm, hmin⟩ := pickMin_spec sw h m o hsome
      refine Merge.step hperm hmin (ih _ ?_)
      have h1 := heapSize_pushIter m o
      have h2 := heapSize_perm hperm
      omega

/-- the flattened contents of a heap -/
def heapAll (h : List (Cursor α)) : List α := h.flatMap Cursor.all

theorem heapAll_perm {h₁ h₂ : List (Cursor α)} (p : h₁.Perm h₂) : (heapAll h₁).Perm (heapAll h₂) :=
  List.Perm.flatMap_right _ p

theorem heapAll_pushIter (m : Cursor α) (o : List (Cursor α)) :
    (m.1 :: heapAll (pushIter m.2 o)).Perm (heapAll (m :: o)) := by
  obtain ⟨x, rest⟩ := m
  cases rest with
  | nil => simp [pushIter, heapAll, Cursor.all]
  | cons y ys =>
    simp only [pushIter, heapAll, List.flatMap_append, List.flatMap_cons, List.flatMap_nil, Cursor.all,
      List.append_nil, List.cons_append]
    refine List.Perm.cons x ?_
    exact List.perm_append_comm

theorem Sorted_cons {a : α} {l : List α} : Sorted lt (a :: l) ↔ (∀ b ∈ l, lt b a = false) ∧ Sorted lt l := by
  simp [Sorted, List.pairwise_cons]

/-- the minimal head is not above anything still in the heap -/
theorem min_head_le_all (sw : StrictWeak lt) {h : List (Cursor α)} {m : Cursor α}
    (hs : ∀ c ∈ h, Sorted lt c.all) (hmin : ∀ c ∈ h, lt c.1 m.1 = false) :
    ∀ z ∈ heapAll h, lt z m.1 = false := by
  intro z hz
  simp only [heapAll, List.mem_flatMap] at hz
  obtain ⟨c, hc, hzc⟩ := hz
  simp only [Cursor.all, List.mem_cons] at hzc
  rcases hzc with rfl | hzr
  · exact hmin c hc
  · have := (Sorted_cons.mp (hs c hc)).1 z hzr
    -- c.1 ≤ z and m ≤ c.1
    exact sw.nlt_trans (hmin c hc) (by
      -- need lt z c.1 = false … we have lt z c.1 = false from sortedness
      exact this)

theorem sorted_pushIter {m : Cursor α} {o : List (Cursor α)} (hm : Sorted lt m.all)
    (ho : ∀ c ∈ o, Sorted lt c.all) : ∀ c ∈ pushIter m.2 o, Sorted lt c.all := by
  obtain ⟨x, rest⟩ := m
  cases rest with
  | nil => simpa [pushIter] using ho
  | cons y ys =>
    intro c hc
    simp only [pushIter, List.mem_append, List.mem_singleton] at hc
    rcases hc with hc | rfl
    · exact ho c hc
    · exact (Sorted_cons.mp hm).2

/-- every run of the merge delivers a permutation of the heap contents -/
theorem Merge.perm {h : List (Cursor α)} {out : List α} (hm : Merge lt h out) : out.Perm (heapAll h) := by
  induction hm with
  | done => exact List.Perm.refl _
  | @step h m o out hperm _ _ ih =>
    exact ((List.Perm.cons m.1 ih).trans (heapAll_pushIter m o)).trans (heapAll_perm hperm.symm)

/-- every run of the merge over sorted cursors is sorted -/
theorem Merge.sorted (sw : StrictWeak lt) {h : List (Cursor α)} {out : List α}
    (hs : ∀ c ∈ h, Sorted lt c.all) (hm : Merge lt h out) : Sorted lt out := by
  induction hm with
  | done => exact List.Pairwise.nil
  | @step h m o out hperm hmin hrest ih =>
    have hm_mem : m ∈ h := (hperm.mem_iff).mpr (List.mem_cons_self)
    have ho : ∀ c ∈ o, Sorted lt c.all := fun c hc => hs c ((hperm.mem_iff).mpr (List.mem_cons_of_mem _ hc))
    have ihs := ih (sorted_pushIter (hs m hm_mem) ho)
    have p1 : (m.1 :: out).Perm (heapAll h) := (Merge.step hperm hmin hrest).perm
    refine Sorted_cons.mpr ⟨?_, ihs⟩
    intro b hb
    exact min_head_le_all sw hs hmin b ((p1.mem_iff).mp (List.mem_cons_of_mem _ hb))

theorem mergeHeap_Merge (sw : StrictWeak lt) (h : List (Cursor α)) : Merge lt h (mergeHeap lt h) :=
  mergeFuel_Merge sw _ h (Nat.le_refl _)

theorem heapAll_initHeap (iters : List (List α)) : heapAll (initHeap iters) = iters.flatten := by
  induction iters with
  | nil => rfl
  | cons it r ih =>
    cases it with
    | nil => simpa [initHeap] using ih
    | cons x xs =>
      simp only [initHeap, heapAll, List.flatMap_cons, Cursor.all, List.flatten_cons, List.cons_append] at ih ⊢
      rw [ih]

theorem sorted_initHeap {iters : List (List α)} (hs : ∀ it ∈ iters, Sorted lt it) :
    ∀ c ∈ initHeap iters, Sorted lt c.all := by
  induction iters with
  | nil => intro c hc; simp [initHeap] at hc
  | cons it r ih =>
    have hr : ∀ it ∈ r, Sorted lt it := fun i hi => hs i (List.mem_cons_of_mem _ hi)
    cases it with
    | nil => simpa [initHeap] using ih hr
    | cons x xs =>
      intro c hc
      simp only [initHeap, List.mem_cons] at hc
      rcases hc with rfl | hc
      · exact hs _ List.mem_cons_self
      · exact ih hr c hc


theorem kmerge_perm (sw : StrictWeak lt) (iters : List (List α)) : (kmerge lt iters).Perm iters.flatten := by
  have := (mergeHeap_Merge sw (initHeap iters)).perm
  rwa [heapAll_initHeap] at this

theorem kmerge_Sorted (sw : StrictWeak lt) {iters : List (List α)} (hs : ∀ it ∈ iters, Sorted lt it) :
    Sorted lt (kmerge lt iters) :=
  (mergeHeap_Merge sw (initHeap iters)).sorted sw (sorted_initHeap hs)

theorem Sorted.reverse_flip {l : List α} (h : Sorted lt l) : Sorted (fun a b => lt b a) l.reverse := by
  unfold Sorted at *
  rw [List.pairwise_reverse]
  exact h

end
end Banyan.C09
