/-
Order facts for C09: strict total orders, the comparisons used by the merge heaps in scope.
-/
import Banyan.Lemmas.C09Merge

namespace Banyan.C09
section
variable {α : Type} {lt : α → α → Bool}

/-- A strict *total* order: distinct elements are comparable. -/
structure StrictTotal (lt : α → α → Bool) : Prop extends StrictWeak lt where
  total : ∀ a b, lt a b = false → lt b a = false → a = b

/-- irreflexive + transitive + trichotomous ⇒ strict total order -/
theorem StrictTotal.of_trichotomy (irrefl : ∀ a, lt a a = false)
    (trans : ∀ a b c, lt a b = true → lt b c = true → lt a c = true)
    (total : ∀ a b, lt a b = false → lt b a = false → a = b) : StrictTotal lt where
  irrefl := irrefl
  trans := trans
  total := total
  ntrans := by
    intro a b c hac
    cases hab : lt a b with
    | true => exact Or.inl rfl
    | false =>
      cases hbc : lt b c with
      | true => exact Or.inr rfl
      | false =>
        exfalso
        cases hba : lt b a with
        | false =>
          have := total a b hab hba
          subst this
          rw [hbc] at hac; contradiction
        | true =>
          cases hcb : lt c b with
          | false =>
            have := total b c hbc hcb
            subst this
            rw [hab] at hac; contradiction
          | true =>
            have h1 := trans _ _ _ hcb hba
            have h2 := trans _ _ _ hac h1
            rw [irrefl] at h2; contradiction

theorem StrictTotal.flip (so : StrictTotal lt) : StrictTotal (fun a b => lt b a) :=
  StrictTotal.of_trichotomy (fun a => so.irrefl a) (fun a b c h1 h2 => so.trans c b a h2 h1)
    (fun a b h1 h2 => so.total a b h2 h1)

theorem StrictWeak.flip (sw : StrictWeak lt) : StrictWeak (fun a b => lt b a) where
  irrefl := sw.irrefl
  trans := fun a b c h1 h2 => sw.trans c b a h2 h1
  ntrans := fun a b c h => (sw.ntrans c b a h).symm

/-- pulling a strict weak order back along a key function -/
theorem StrictWeak.comap {κ : Type} {ltK : κ → κ → Bool} (sw : StrictWeak ltK) (key : α → κ) :
    StrictWeak (fun a b => ltK (key a) (key b)) where
  irrefl := fun _ => sw.irrefl _
  trans := fun _ _ _ => sw.trans _ _ _
  ntrans := fun _ _ _ => sw.ntrans _ _ _
end

theorem lexLt_irrefl : ∀ a : List Nat, lexLt a a = false := by
  intro a; induction a with
  | nil => rfl
  | cons x xs ih => simp [lexLt, ih]

theorem lexLt_total : ∀ a b : List Nat, lexLt a b = false → lexLt b a = false → a = b := by
  intro a; induction a with
  | nil => intro b h1 h2; cases b with
    | nil => rfl
    | cons y ys => simp [lexLt] at h1
  | cons x xs ih => intro b h1 h2; cases b with
    | nil => simp [lexLt] at h2
    | cons y ys =>
      simp only [lexLt] at h1 h2
      by_cases hxy : x < y
      · simp [hxy] at h1
      · by_cases hyx : y < x
        · simp [hyx] at h2
        · simp [hxy, hyx] at h1 h2
          have : x = y := by omega
          subst this
          rw [ih ys h1 h2]

theorem lexLt_trans : ∀ a b c : List Nat, lexLt a b = true → lexLt b c = true → lexLt a c = true := by
  intro a; induction a with
  | nil => intro b c h1 h2; cases b with
    | nil => simp [lexLt] at h1
    | cons y ys => cases c with
      | nil => simp [lexLt] at h2
      | cons z zs => simp [lexLt]
  | cons x xs ih => intro b c h1 h2; cases b with
    | nil => simp [lexLt] at h1
    | cons y ys => cases c with
      | nil => simp [lexLt] at h2
      | cons z zs =>
        simp only [lexLt] at h1 h2 ⊢
        by_cases hxy : x < y
        · by_cases hyz : y < z
          · have : x < z := by omega
            simp [this]
          · by_cases hzy : z < y
            · simp [hyz, hzy] at h2
            · have : x < z := by omega
              simp [this]
        · by_cases hyx : y < x
          · simp [hxy, hyx] at h1
          · simp only [hxy, hyx, if_false] at h1
            have hxy' : x = y := by omega
            subst hxy'
            by_cases hyz : x < z
            · simp [hyz]
            · by_cases hzy : z < x
              · simp [hyz, hzy] at h2
              · simp only [hyz, hzy, if_false] at h2 ⊢
                exact ih ys zs h1 h2

theorem strictTotal_lexLt : StrictTotal lexLt := StrictTotal.of_trichotomy lexLt_irrefl lexLt_trans lexLt_total

/-- `containerHeap.Less` (both directions) is a strict total order on the sort field. -/
theorem strictTotal_bytesLt (desc : Bool) : StrictTotal (bytesLt desc) := by
  cases desc with
  | false => exact strictTotal_lexLt
  | true => exact strictTotal_lexLt.flip

def intLt (asc : Bool) (a b : Int) : Bool := if asc then decide (a < b) else decide (a > b)

theorem strictTotal_intLt (asc : Bool) : StrictTotal (intLt asc) := by
  cases asc <;>
  refine StrictTotal.of_trichotomy ?_ ?_ ?_ <;> simp [intLt] <;> omega

theorem elemLt_eq (asc : Bool) (a b : Elem) : elemLt asc a b = intLt asc a.key b.key := rfl

theorem strictWeak_elemLt (asc : Bool) : StrictWeak (elemLt asc) :=
  (strictTotal_intLt asc).toStrictWeak.comap Elem.key
end Banyan.C09
