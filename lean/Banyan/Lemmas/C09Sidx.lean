/-
Lemmas about the sidx query model of Banyan.Model.C09: chunks, data de-duplication, one heap drain.
-/
import Banyan.Lemmas.C09Order
namespace Banyan.C09

section Chunk
variable {α : Type}

theorem flatten_chunkFuel (n : Nat) : ∀ (f : Nat) (l : List α), l.length ≤ f → (chunkFuel n f l).flatten = l := by
  intro f
  induction f with
  | zero => intro l h; have : l = [] := List.length_eq_zero_iff.mp (Nat.le_zero.mp h); subst this; rfl
  | succ f ih =>
    intro l h
    simp only [chunkFuel]
    cases l with
    | nil => simp
    | cons x xs =>
      simp only [List.isEmpty_cons, Bool.false_eq_true, if_false]
      by_cases hn : n = 0
      · simp [hn]
      · simp only [hn, if_false, List.flatten_cons]
        rw [ih]
        · exact List.take_append_drop n (x :: xs)
        · simp only [List.length_drop, List.length_cons] at h ⊢; omega

/-- the chunks concatenate to the input -/
theorem flatten_chunk (n : Nat) (l : List α) : (chunk n l).flatten = l :=
  flatten_chunkFuel n _ l (Nat.le_refl _)

/-- a list not longer than the chunk size is one chunk -/
theorem chunk_short {n : Nat} {l : List α} (hn : 0 < n) (h : l.length ≤ n) : chunk n l = [] ∨ chunk n l = [l] := by
  unfold chunk
  cases l with
  | nil => left; rfl
  | cons x xs =>
    right
    have hn' : n ≠ 0 := by omega
    simp only [List.length_cons, chunkFuel, List.isEmpty_cons, Bool.false_eq_true, if_false, hn']
    have h1 : (x :: xs).take n = x :: xs := List.take_of_length_le h
    have h2 : (x :: xs).drop n = [] := List.drop_eq_nil_of_le h
    rw [h1, h2]
    cases xs.length <;> simp [chunkFuel]

theorem chunk_zero (l : List α) : chunk 0 l = [] ∨ chunk 0 l = [l] := by
  unfold chunk
  cases l with
  | nil => left; rfl
  | cons x xs => right; simp [chunkFuel]
end Chunk

/-! data-level de-duplication produces a sublist -/
theorem dedupData_sublist : ∀ (seen : List String) (l : List Elem), (dedupData seen l).Sublist l := by
  intro seen l
  induction l generalizing seen with
  | nil => exact List.Sublist.refl _
  | cons e es ih =>
    simp only [dedupData]
    split
    · exact (ih seen).cons e
    · exact (ih _).cons_cons e

/-- without duplicate data nothing is dropped -/
theorem dedupData_id : ∀ (seen : List String) (l : List Elem), (l.map (·.data)).Nodup →
    (∀ e ∈ l, e.data ∉ seen) → dedupData seen l = l := by
  intro seen l
  induction l generalizing seen with
  | nil => intros; rfl
  | cons e es ih =>
    intro hnd hseen
    have h1 : e.data ∉ seen := hseen e List.mem_cons_self
    simp only [List.map_cons, List.nodup_cons] at hnd
    simp only [dedupData, List.contains_iff_mem, h1, if_false]
    rw [ih _ hnd.2]
    intro e' he'
    simp only [List.mem_cons, not_or]
    refine ⟨?_, hseen e' (List.mem_cons_of_mem _ he')⟩
    intro heq
    exact hnd.1 (heq ▸ List.mem_map_of_mem he')

end Banyan.C09

namespace Banyan.C09

/-- block invariants established by the writer (`mustInitFromElements`, merger) -/
structure WFBlock (b : Block) : Prop where
  sid : ∀ e ∈ b.elems, e.sid = b.sid
  lo : ∀ e ∈ b.elems, b.lo ≤ e.key
  hi : ∀ e ∈ b.elems, e.key ≤ b.hi
  sorted : b.elems.Pairwise (fun x y => x.key ≤ y.key)
  range : b.lo ≤ b.hi

/-- the elements a block cursor delivers, in traversal order -/
def cursorElems (r : Req) (b : Block) : List Elem :=
  let es := dedupData [] (b.elems.filter fun e => inRange r e.key)
  if r.asc then es else es.reverse

theorem loadCursor_eq (r : Req) (b : Block) :
    loadCursor r b = match cursorElems r b with | [] => none | x :: xs => some (x, xs) := rfl

theorem heapAll_loadCursor (r : Req) (bs : List Block) :
    heapAll (bs.filterMap (loadCursor r)) = bs.flatMap (cursorElems r) := by
  induction bs with
  | nil => rfl
  | cons b bs ih =>
    simp only [List.filterMap_cons, List.flatMap_cons, loadCursor_eq]
    cases h : cursorElems r b with
    | nil => simpa using ih
    | cons x xs =>
      simp only [heapAll, List.flatMap_cons, Cursor.all] at ih ⊢
      rw [ih]

theorem cursorElems_mem {r : Req} {b : Block} {e : Elem} (h : e ∈ cursorElems r b) :
    e ∈ b.elems ∧ inRange r e.key = true := by
  have h' : e ∈ dedupData [] (b.elems.filter fun e => inRange r e.key) := by
    unfold cursorElems at h
    split at h
    · exact h
    · exact List.mem_reverse.mp h
  have := (dedupData_sublist _ _).subset h'
  simpa using List.mem_filter.mp this

theorem cursorElems_sorted (r : Req) {b : Block} (wf : WFBlock b) : Sorted (elemLt r.asc) (cursorElems r b) := by
  have h0 : (dedupData [] (b.elems.filter fun e => inRange r e.key)).Pairwise (fun x y => x.key ≤ y.key) :=
    (wf.sorted.sublist List.filter_sublist).sublist (dedupData_sublist _ _)
  unfold cursorElems Sorted
  cases hasc : r.asc with
  | true =>
    simp only [if_true]
    exact h0.imp (by intro a b h; simp [elemLt]; omega)
  | false =>
    simp only [Bool.false_eq_true, if_false]
    rw [List.pairwise_reverse]
    exact h0.imp (by intro a b h; simp [elemLt]; omega)

theorem sorted_filterMap_loadCursor (r : Req) {bs : List Block} (wf : ∀ b ∈ bs, WFBlock b) :
    ∀ c ∈ bs.filterMap (loadCursor r), Sorted (elemLt r.asc) c.all := by
  intro c hc
  obtain ⟨b, hb, hbc⟩ := List.mem_filterMap.mp hc
  have hs := cursorElems_sorted r (wf b hb)
  rw [loadCursor_eq] at hbc
  cases h : cursorElems r b with
  | nil => rw [h] at hbc; contradiction
  | cons x xs =>
    rw [h] at hbc hs
    cases hbc
    exact hs

/-- one heap drain is sorted -/
theorem drainBatch_sorted (r : Req) {bs : List Block} (wf : ∀ b ∈ bs, WFBlock b) :
    Sorted (elemLt r.asc) (drainBatch r bs) := by
  have hm := mergeHeap_Merge (strictWeak_elemLt r.asc) (bs.filterMap (loadCursor r))
  have ⟨_, hs⟩ := (⟨hm.perm, hm.sorted (strictWeak_elemLt r.asc) (sorted_filterMap_loadCursor r wf)⟩ : _ ∧ _)
  unfold drainBatch
  exact (List.Pairwise.sublist List.filter_sublist hs).sublist (dedupData_sublist _ _)

/-- … and only delivers in-range elements of its blocks -/
theorem drainBatch_mem {r : Req} {bs : List Block} {e : Elem} (h : e ∈ drainBatch r bs) :
    ∃ b ∈ bs, e ∈ b.elems ∧ inRange r e.key = true := by
  unfold drainBatch at h
  have h1 := (dedupData_sublist _ _).subset h
  have h2 := (List.mem_filter.mp h1).1
  have hm := mergeHeap_Merge (strictWeak_elemLt r.asc) (bs.filterMap (loadCursor r))
  have hp := Merge.perm hm
  have h3 := (hp.mem_iff).mp h2
  rw [heapAll_loadCursor] at h3
  obtain ⟨b, hb, he⟩ := List.mem_flatMap.mp h3
  exact ⟨b, hb, cursorElems_mem he⟩

end Banyan.C09
