/-
The sidx writer model (`buildBlocks`, `applyOps`) establishes the invariants `WF` assumed by the sidx query theorems (C09).
-/
import Banyan.Lemmas.C09Complete

namespace Banyan.C09


/-! the writer model establishes the invariants `WF` -/

def ElemLE (x y : Elem) : Prop := x.sid < y.sid ∨ (x.sid = y.sid ∧ x.key ≤ y.key)

theorem elemLe_iff (x y : Elem) : elemLe x y = true ↔ ElemLE x y := by
  simp [elemLe, ElemLE]

/-- the metadata range of a block is attained by its elements -/
structure Tight (b : Block) : Prop where
  lo : ∃ e ∈ b.elems, e.key = b.lo
  hi : ∃ e ∈ b.elems, e.key = b.hi

theorem mkBlock_spec {es : List Elem} {s : Nat} (hne : es ≠ []) (hsid : ∀ e ∈ es, e.sid = s)
    (hsorted : es.Pairwise (fun x y => x.key ≤ y.key)) :
    ∃ b, mkBlock es = some b ∧ b.elems = es ∧ WFBlock b ∧ Tight b := by
  cases es with
  | nil => exact absurd rfl hne
  | cons e rest =>
    refine ⟨_, rfl, rfl, ?_, ?_⟩
    · have hlast : ∀ x ∈ e :: rest, x.key ≤ (((e :: rest).getLast?).getD e).key := by
        intro x hx
        have hl : (e :: rest).getLast? = some ((e :: rest).getLast (by simp)) := List.getLast?_eq_some_getLast (by simp)
        rw [hl]
        simp only [Option.getD_some]
        have hd := List.dropLast_concat_getLast (l := e :: rest) (by simp)
        rw [← hd] at hx hsorted
        rw [List.pairwise_append] at hsorted
        rcases List.mem_append.mp hx with hx | hx
        · exact hsorted.2.2 x hx _ (by simp)
        · simp at hx; rw [hx]; exact Int.le_refl _
      refine ⟨?_, ?_, hlast, hsorted, hlast e List.mem_cons_self⟩
      · intro x hx; simp only []; rw [hsid x hx, hsid e List.mem_cons_self]
      · intro x hx
        rcases List.mem_cons.mp hx with rfl | hx
        · exact Int.le_refl _
        · exact (List.pairwise_cons.mp hsorted).1 x hx
    · refine ⟨⟨e, List.mem_cons_self, rfl⟩, ?_⟩
      have hl : (e :: rest).getLast? = some ((e :: rest).getLast (by simp)) := List.getLast?_eq_some_getLast (by simp)
      exact ⟨(e :: rest).getLast (by simp), List.getLast_mem _, by simp [hl]⟩

/-- every element of the first block sorts before every element of the second -/
def Before (b₁ b₂ : Block) : Prop := ∀ x ∈ b₁.elems, ∀ y ∈ b₂.elems, ElemLE x y

structure CutPost (es cur : List Elem) (out : List Block) : Prop where
  wf : ∀ b ∈ out, WFBlock b ∧ Tight b
  chain : out.Pairwise Before
  mem : ∀ b ∈ out, ∀ e ∈ b.elems, e ∈ cur ∨ e ∈ es

theorem keys_sorted_of_same_sid {l : List Elem} {s : Nat} (h : l.Pairwise ElemLE) (hs : ∀ e ∈ l, e.sid = s) :
    l.Pairwise (fun x y => x.key ≤ y.key) := by
  refine h.imp_of_mem ?_
  intro a b ha hb hab
  rcases hab with h1 | h1
  · rw [hs a ha, hs b hb] at h1; omega
  · exact h1.2

theorem cutBlocks_spec : ∀ (es cur : List Elem) (s : Nat), (cur.reverse ++ es).Pairwise ElemLE →
    (∀ e ∈ cur, e.sid = s) → CutPost es cur (cutBlocks es cur) := by
  intro es
  induction es with
  | nil =>
    intro cur s hp hs
    simp only [cutBlocks]
    cases hc : cur with
    | nil => simp [mkBlock]; exact ⟨by simp, List.Pairwise.nil, by simp⟩
    | cons c cur' =>
      have hne : (c :: cur').reverse ≠ [] := by simp
      rw [hc] at hp hs
      obtain ⟨b, hb, hbe, hwf, ht⟩ := mkBlock_spec hne (s := s) (by intro e he; exact hs e (List.mem_reverse.mp he))
        (keys_sorted_of_same_sid (by simpa using hp) (by intro e he; exact hs e (List.mem_reverse.mp he)))
      rw [hb]
      simp only [Option.toList_some]
      refine ⟨by intro b' hb'; simp at hb'; subst hb'; exact ⟨hwf, ht⟩, List.pairwise_singleton _ _, ?_⟩
      intro b' hb' e he
      simp at hb'; subst hb'
      rw [hbe] at he
      left; exact List.mem_reverse.mp he
  | cons e rest ih =>
    intro cur s hp hs
    cases cur with
    | nil =>
      simp only [cutBlocks]
      have post := ih [e] e.sid (by simpa using hp) (by intro x hx; simp at hx; rw [hx])
      refine ⟨post.wf, post.chain, ?_⟩
      intro b hb x hx
      rcases post.mem b hb x hx with h | h
      · right; simp at h; rw [h]; exact List.mem_cons_self
      · right; exact List.mem_cons_of_mem _ h
    | cons c cur' =>
      simp only [cutBlocks]
      split
      · -- cut here
        have hne : (c :: cur').reverse ≠ [] := by simp
        have hp1 : ((c :: cur').reverse).Pairwise ElemLE := (List.pairwise_append.mp hp).1
        obtain ⟨b, hb, hbe, hwf, ht⟩ := mkBlock_spec hne (s := s) (by intro x hx; exact hs x (List.mem_reverse.mp hx))
          (keys_sorted_of_same_sid hp1 (by intro x hx; exact hs x (List.mem_reverse.mp hx)))
        have post := ih [e] e.sid (by simpa using (List.pairwise_append.mp hp).2.1)
          (by intro x hx; simp at hx; rw [hx])
        rw [hb]
        simp only [Option.toList_some, List.singleton_append]
        refine ⟨?_, ?_, ?_⟩
        · intro b' hb'
          rcases List.mem_cons.mp hb' with rfl | hb'
          · exact ⟨hwf, ht⟩
          · exact post.wf b' hb'
        · rw [List.pairwise_cons]
          refine ⟨?_, post.chain⟩
          intro b' hb' x hx y hy
          rw [hbe] at hx
          have hy' : y ∈ e :: rest := by
            rcases post.mem b' hb' y hy with h | h
            · simp at h; rw [h]; exact List.mem_cons_self
            · exact List.mem_cons_of_mem _ h
          exact (List.pairwise_append.mp hp).2.2 x hx y hy'
        · intro b' hb' x hx
          rcases List.mem_cons.mp hb' with rfl | hb'
          · rw [hbe] at hx; left; exact List.mem_reverse.mp hx
          · rcases post.mem b' hb' x hx with h | h
            · right; simp at h; rw [h]; exact List.mem_cons_self
            · right; exact List.mem_cons_of_mem _ h
      · rename_i hcut
        have hsid : c.sid = e.sid := by
          have : ¬ (c.sid ≠ e.sid) := fun h => hcut (Or.inl h)
          exact Decidable.of_not_not this
        have post := ih (e :: c :: cur') s (by simpa using hp) (by
          intro x hx
          rcases List.mem_cons.mp hx with rfl | hx
          · rw [← hsid]; exact hs c List.mem_cons_self
          · exact hs x hx)
        refine ⟨post.wf, post.chain, ?_⟩
        intro b hb x hx
        rcases post.mem b hb x hx with h | h
        · rcases List.mem_cons.mp h with rfl | h
          · right; exact List.mem_cons_self
          · left; exact h
        · right; exact List.mem_cons_of_mem _ h



theorem wfPart_of_cutPost {es cur : List Elem} {out : List Block} (post : CutPost es cur out) (id : Nat) :
    WFPart { id := id, blocks := out } where
  blocks := fun b hb => (post.wf b hb).1
  series := by
    intro s
    simp only []
    unfold Sorted
    have hsub : (out.filter fun b => b.sid == s).Sublist out := List.filter_sublist
    refine (post.chain.sublist hsub).imp_of_mem ?_
    intro a b ha hb hab
    have ha' := List.mem_filter.mp ha
    have hb' := List.mem_filter.mp hb
    have ⟨wa, ta⟩ := post.wf a ha'.1
    have ⟨wb, tb⟩ := post.wf b hb'.1
    obtain ⟨x, hx, hxk⟩ := ta.hi
    obtain ⟨y, hy, hyk⟩ := tb.lo
    have hsa : a.sid = s := by simpa using ha'.2
    have hsb : b.sid = s := by simpa using hb'.2
    have hle : a.hi ≤ b.lo := by
      rcases hab x hx y hy with h | h
      · rw [wa.sid x hx, wb.sid y hy, hsa, hsb] at h; omega
      · omega
    have := wa.range; have := wb.range
    simp only [lessByKey]
    repeat' split
    all_goals simp
    all_goals omega

theorem buildBlocks_wf (es : List Elem) (id : Nat) : WFPart { id := id, blocks := buildBlocks es } := by
  unfold buildBlocks
  have hs : (es.mergeSort elemLe).Pairwise ElemLE := by
    have := List.pairwise_mergeSort (le := elemLe)
      (by intro a b c; simp only [elemLe_iff, ElemLE]; omega)
      (by intro a b; simp only [Bool.or_eq_true, elemLe_iff, ElemLE]; omega) es
    exact this.imp (by intro a b h; exact (elemLe_iff a b).mp h)
  exact wfPart_of_cutPost (cutBlocks_spec (es.mergeSort elemLe) [] 0 (by simpa using hs) (by simp)) id

theorem applyOp_wf {snap : List Part} (wf : WF snap) (op : Op) : WF (applyOp snap op) := by
  cases op with
  | write pid es =>
    simp only [applyOp]
    split
    · exact wf
    · intro p hp
      rcases List.mem_append.mp hp with h | h
      · exact wf p h
      · simp at h; subst h; exact buildBlocks_wf es pid
  | flush _ => exact wf
  | merge nid pids =>
    simp only [applyOp, List.partition_eq_filter_filter]
    split
    · exact wf
    · intro p hp
      rcases List.mem_append.mp hp with h | h
      · exact wf p (List.mem_filter.mp h).1
      · simp at h; subst h; exact buildBlocks_wf _ nid

/-- **applyOps_WF.** Every snapshot reachable by the modelled write/flush/merge history satisfies the writer
    invariants that the sidx theorems assume. -/
theorem applyOps_WF (ops : List Op) : WF (applyOps ops) := by
  unfold applyOps
  have : ∀ (ops : List Op) (snap : List Part), WF snap → WF (ops.foldl applyOp snap) := by
    intro ops
    induction ops with
    | nil => intro snap h; exact h
    | cons o os ih => intro snap h; exact ih _ (applyOp_wf h o)
  exact this ops [] (by intro p hp; cases hp)


end Banyan.C09
