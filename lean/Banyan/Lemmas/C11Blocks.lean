/-
C11 helper lemmas: `BytesToVarUint64`, compressed blocks, uint64 blocks, byte blocks (`bytes.go`).
-/
import Banyan.Lemmas.C11Varint
import Banyan.Lemmas.Bytes

namespace Banyan.C11


theorem add_mul_pow_lt (x r s : Nat) (hs : s ≤ 64) (hx : x < 2 ^ s) (hr : r * 2 ^ s < 2 ^ 64) :
    x + r * 2 ^ s < 2 ^ 64 := by
  have e : 2 ^ 64 = 2 ^ (64 - s) * 2 ^ s := by rw [← Nat.pow_add]; congr 1; omega
  rw [e] at hr ⊢
  have hr' : r < 2 ^ (64 - s) := Nat.lt_of_mul_lt_mul_right hr
  calc x + r * 2 ^ s < 2 ^ s + r * 2 ^ s := by omega
    _ = (r + 1) * 2 ^ s := by rw [Nat.add_mul, Nat.one_mul, Nat.add_comm]
    _ ≤ 2 ^ (64 - s) * 2 ^ s := Nat.mul_le_mul_right _ hr'

theorem uvarintLoop_varU (r : Nat) : ∀ (i x : Nat) (rest : List Byte), i ≤ 9 → x < 2 ^ (7 * i) →
    r * 2 ^ (7 * i) < 2 ^ 64 →
    uvarintLoop (varU r ++ rest) i (7 * i) x = some (x + r * 2 ^ (7 * i), rest) := by
  induction r using Nat.strongRecOn with
  | _ r ih =>
    intro i x rest hi9 hx hr
    have hi10 : ¬ i = 10 := by omega
    by_cases h : 127 < r
    · rw [varU_big r h]
      simp only [List.cons_append, uvarintLoop, hi10, if_false]
      have hc : (128 + r % 128) % 128 = r % 128 := by omega
      have hge : ¬ 128 + r % 128 < 128 := by omega
      simp only [hc, hge, if_false]
      have hlt : r % 128 * 2 ^ (7 * i) < 2 ^ 64 :=
        calc r % 128 * 2 ^ (7 * i) ≤ r * 2 ^ (7 * i) := Nat.mul_le_mul_right _ (Nat.mod_le _ _)
          _ < 2 ^ 64 := hr
      have h7 : 7 * (i + 1) = 7 * i + 7 := by omega
      have hpow : 2 ^ (7 * (i + 1)) = 2 ^ (7 * i) * 128 := by rw [h7, Nat.pow_add]
      have hacc : x + r % 128 * 2 ^ (7 * i) < 2 ^ (7 * (i + 1)) := by
        rw [hpow]
        have : r % 128 < 128 := Nat.mod_lt _ (by decide)
        calc x + r % 128 * 2 ^ (7 * i) < 2 ^ (7 * i) + r % 128 * 2 ^ (7 * i) := by omega
          _ = (1 + r % 128) * 2 ^ (7 * i) := by rw [Nat.add_mul, Nat.one_mul]
          _ ≤ 128 * 2 ^ (7 * i) := Nat.mul_le_mul_right _ (by omega)
          _ = 2 ^ (7 * i) * 128 := Nat.mul_comm _ _
      have hr' : r / 128 * 2 ^ (7 * (i + 1)) < 2 ^ 64 := by
        rw [hpow]
        calc r / 128 * (2 ^ (7 * i) * 128) = (r / 128 * 128) * 2 ^ (7 * i) := by
              rw [Nat.mul_comm (2 ^ (7 * i)) 128, Nat.mul_assoc]
          _ ≤ r * 2 ^ (7 * i) := Nat.mul_le_mul_right _ (Nat.div_mul_le_self r 128)
          _ < 2 ^ 64 := hr
      have hi8 : i ≤ 8 := by
        apply Classical.byContradiction
        intro hc9
        have : i = 9 := by omega
        subst this
        have : 128 * 2 ^ (7 * 9) ≤ r * 2 ^ (7 * 9) := Nat.mul_le_mul_right _ (by omega)
        have e : 128 * 2 ^ (7 * 9) = 2 ^ 64 * 64 := by decide
        omega
      rw [or_shift x (r % 128) (7 * i) hx]
      have hm : (x + r % 128 * 2 ^ (7 * i)) % W64 = x + r % 128 * 2 ^ (7 * i) := by
        apply Nat.mod_eq_of_lt
        unfold W64
        calc x + r % 128 * 2 ^ (7 * i) < 2 ^ (7 * (i + 1)) := hacc
          _ ≤ 2 ^ 64 := Nat.pow_le_pow_right (by decide) (by omega)
      rw [hm, ← h7]
      rw [ih (r / 128) (Nat.div_lt_self (by omega) (by decide)) (i + 1) _ rest (by omega) hacc hr', hpow]
      congr 2
      have := Nat.div_add_mod r 128
      calc x + r % 128 * 2 ^ (7 * i) + r / 128 * (2 ^ (7 * i) * 128)
          = x + (r % 128 + 128 * (r / 128)) * 2 ^ (7 * i) := by
            rw [Nat.add_mul, Nat.mul_comm (2 ^ (7 * i)) 128, ← Nat.mul_assoc, Nat.mul_comm (r / 128) 128, Nat.add_assoc]
        _ = x + r * 2 ^ (7 * i) := by rw [Nat.add_comm (r % 128), this]
    · rw [varU_small r (by omega)]
      simp only [List.cons_append, List.nil_append, uvarintLoop, hi10, if_false]
      have hlt : r < 128 := by omega
      simp only [hlt, if_true]
      have h9 : ¬ (i = 9 ∧ r > 1) := by
        intro ⟨h9, hr1⟩
        subst h9
        have : 2 * 2 ^ (7 * 9) ≤ r * 2 ^ (7 * 9) := Nat.mul_le_mul_right _ (by omega)
        have e : 2 * 2 ^ (7 * 9) = 2 ^ 64 := by decide
        omega
      simp only [h9, if_false]
      rw [or_shift x r (7 * i) hx]
      have hm : (x + r * 2 ^ (7 * i)) % W64 = x + r * 2 ^ (7 * i) := by
        apply Nat.mod_eq_of_lt
        unfold W64
        exact add_mul_pow_lt x r (7 * i) (by omega) hx hr
      rw [hm]

/-- `VarUint64ToBytes` (three unrolled fast paths) produces the same bytes as the generic loop. -/
theorem varUint64ToBytes_eq (u : Nat) : varUint64ToBytes u = varU u := by
  unfold varUint64ToBytes
  by_cases h1 : u < 2 ^ 7
  · simp only [h1, if_true]; rw [varU_small u (by omega)]
  · simp only [h1, if_false]
    by_cases h2 : u < 2 ^ 14
    · simp only [h2, if_true]
      rw [varU_big u (by omega), varU_small (u / 128) (by omega)]
    · simp only [h2, if_false]
      by_cases h3 : u < 2 ^ 21
      · simp only [h3, if_true]
        rw [varU_big u (by omega), varU_big (u / 128) (by omega), varU_small (u / 128 / 128) (by omega)]
        simp [Nat.div_div_eq_div_mul]
      · simp only [h3, if_false]; exact (varU_eq_elem u).symm

/-- `BytesToVarUint64` (two fast paths + `binary.Uvarint`) inverts `VarUint64ToBytes`. -/
theorem bytesToVarUint64_varU (u : Nat) (rest : List Byte) (hu : u < 2 ^ 64) :
    bytesToVarUint64 (varU u ++ rest) = (u, rest) := by
  by_cases h1 : u < 128
  · rw [varU_small u (by omega)]
    cases rest with
    | nil => simp [bytesToVarUint64, h1]
    | cons b rest => simp [bytesToVarUint64, h1]
  · rw [varU_big u (by omega)]
    have hc0 : ¬ 128 + u % 128 < 128 := by omega
    have hc0m : (128 + u % 128) % 128 = u % 128 := by omega
    by_cases h2 : u / 128 < 128
    · rw [varU_small (u / 128) (by omega)]
      simp only [List.cons_append, List.nil_append, bytesToVarUint64, hc0, if_false, h2, if_true, hc0m]
      have hm : u % 128 < 2 ^ 7 := Nat.mod_lt _ (by decide)
      rw [or_shift (u % 128) (u / 128) 7 hm]
      have := Nat.div_add_mod u 128
      congr 1; omega
    · have hfull := uvarintLoop_varU u 0 0 rest (by omega) (by simp) (by simpa using hu)
      rw [varU_big u (by omega)] at hfull
      rw [varU_big (u / 128) (by omega)] at hfull ⊢
      simp only [List.cons_append, bytesToVarUint64, hc0, if_false]
      have hc1 : ¬ 128 + u / 128 % 128 < 128 := by omega
      simp only [hc1, if_false]
      simp only [List.cons_append, Nat.mul_zero, Nat.pow_zero, Nat.mul_one, Nat.zero_add] at hfull
      rw [hfull]

theorem bytesToVarUint64_rt (u : Nat) (rest : List Byte) (hu : u < 2 ^ 64) :
    bytesToVarUint64 (varUint64ToBytes u ++ rest) = (u, rest) := by
  rw [varUint64ToBytes_eq]; exact bytesToVarUint64_varU u rest hu

/-! ### compressed blocks -/

/-- what is assumed of zstd: decompression inverts compression, and a compressed block has a
    length that fits the `uint64` length field. -/
structure Zstd.Lawful (z : Zstd) : Prop where
  inv : ∀ x, z.decomp (z.comp x) = some x
  len : ∀ x, x.length < 2 ^ 64 → (z.comp x).length < 2 ^ 64

theorem decompressBlock_rt (z : Zstd) (hz : z.Lawful) (src rest : List Byte) (hs : src.length < 2 ^ 64) :
    decompressBlock z (compressBlock z src ++ rest) = .ok (src, rest) := by
  unfold compressBlock
  by_cases h : src.length < 128
  · simp only [h, if_true, List.cons_append, decompressBlock]
    simp
  · simp only [h, if_false, List.cons_append, decompressBlock, List.append_assoc]
    rw [bytesToVarUint64_rt _ _ (hz.len src hs)]
    simp [hz.inv]

theorem decompressBlock_ne_panic (z : Zstd) (src : List Byte) : decompressBlock z src ≠ .panic := by
  unfold decompressBlock
  repeat' split
  all_goals simp

/-! ### uint64 lists -/

theorem readFixed_flatMap (k : Nat) (a : List Nat) (rest : List Byte) (h : ∀ x ∈ a, x < 256 ^ k) :
    readFixed k a.length (a.flatMap (beBytes k) ++ rest) = a := by
  induction a with
  | nil => rfl
  | cons x xs ih =>
    simp only [List.flatMap_cons, List.length_cons, readFixed, List.append_assoc]
    have hl : (beBytes k x).length = k := beBytes_length k x
    rw [List.take_append_of_le_length (by omega), List.take_of_length_le (by omega),
      List.drop_append_of_le_length (by omega), List.drop_of_length_le (by omega), List.nil_append,
      ofBE_beBytes_of_lt k x (h x (by simp)), ih (fun y hy => h y (by simp [hy]))]

theorem flatMap_beBytes_length (k : Nat) (a : List Nat) : (a.flatMap (beBytes k)).length = k * a.length := by
  induction a with
  | nil => simp
  | cons x xs ih => simp [List.flatMap_cons, beBytes_length, ih, Nat.mul_add]; omega

theorem foldl_max_ge (a : List Nat) (m : Nat) :
    m ≤ a.foldl (fun m n => if n > m then n else m) m ∧
    ∀ x ∈ a, x ≤ a.foldl (fun m n => if n > m then n else m) m := by
  induction a generalizing m with
  | nil => simp
  | cons y ys ih =>
    simp only [List.foldl_cons]
    by_cases hy : y > m
    · simp only [hy, if_true]
      have := ih y
      refine ⟨by omega, ?_⟩
      intro x hx
      simp only [List.mem_cons] at hx
      rcases hx with rfl | hx
      · exact this.1
      · exact this.2 x hx
    · simp only [hy, if_false]
      have := ih m
      refine ⟨this.1, ?_⟩
      intro x hx
      simp only [List.mem_cons] at hx
      rcases hx with rfl | hx
      · omega
      · exact this.2 x hx

theorem decodeUint64List_rt (a : List Nat) (hlen : 8 * a.length < 2 ^ 64) (h : ∀ x ∈ a, x < 2 ^ 64) :
    decodeUint64List (encodeUint64List a) a.length = .ok a := by
  unfold encodeUint64List
  have hmax := (foldl_max_ge a 0).2
  generalize a.foldl (fun m n => if n > m then n else m) 0 = nMax at hmax
  simp only
  have hw : W64 = 2 ^ 64 := rfl
  by_cases h8 : nMax < 2 ^ 8
  · simp only [h8, if_true, decodeUint64List, if_true]
    have e : a.flatMap (fun n => [n % 256]) = a := by
      clear hlen h
      induction a with
      | nil => rfl
      | cons x xs ih =>
        have hx := hmax x (by simp)
        simp only [List.flatMap_cons, List.cons_append, List.nil_append]
        rw [ih (fun y hy => hmax y (by simp [hy])), Nat.mod_eq_of_lt (by omega)]
    simp [e]
  · simp only [h8, if_false]
    by_cases h16 : nMax < 2 ^ 16
    · simp only [h16, if_true, decodeUint64List]
      have hl := flatMap_beBytes_length 2 a
      have hr := readFixed_flatMap 2 a [] (fun x hx => by have := hmax x hx; omega)
      rw [List.append_nil] at hr
      have hm : 2 * a.length % W64 = 2 * a.length := Nat.mod_eq_of_lt (by rw [hw]; omega)
      simp [hl, hm, hr]
    · simp only [h16, if_false]
      by_cases h32 : nMax < 2 ^ 32
      · simp only [h32, if_true, decodeUint64List]
        have hl := flatMap_beBytes_length 4 a
        have hr := readFixed_flatMap 4 a [] (fun x hx => by have := hmax x hx; omega)
        rw [List.append_nil] at hr
        have hm : 4 * a.length % W64 = 4 * a.length := Nat.mod_eq_of_lt (by rw [hw]; omega)
        simp [hl, hm, hr]
      · simp only [h32, if_false, decodeUint64List]
        have hl := flatMap_beBytes_length 8 a
        have hr := readFixed_flatMap 8 a [] (fun x hx => by have := h x hx; omega)
        rw [List.append_nil] at hr
        have hm : 8 * a.length % W64 = 8 * a.length := Nat.mod_eq_of_lt (by rw [hw]; omega)
        simp [hl, hm, hr]

theorem flatMap_single_length (a : List Nat) : (a.flatMap (fun n => [n % 256])).length = a.length := by
  induction a with
  | nil => rfl
  | cons x xs ih => simp [List.flatMap_cons, ih]

theorem encodeUint64List_length (a : List Nat) : (encodeUint64List a).length ≤ 1 + 8 * a.length := by
  unfold encodeUint64List
  simp only
  have h1 := flatMap_single_length a
  have h2 := flatMap_beBytes_length 2 a
  have h4 := flatMap_beBytes_length 4 a
  have h8 := flatMap_beBytes_length 8 a
  split
  · rw [List.length_cons, h1]; omega
  · split
    · rw [List.length_cons, h2]; omega
    · split
      · rw [List.length_cons, h4]; omega
      · rw [List.length_cons, h8]; omega

theorem decodeUint64Block_rt (z : Zstd) (hz : z.Lawful) (a : List Nat) (rest : List Byte)
    (hlen : 8 * a.length + 1 < 2 ^ 64) (h : ∀ x ∈ a, x < 2 ^ 64) :
    decodeUint64Block z (encodeUint64Block z a ++ rest) a.length = .ok (a, rest) := by
  unfold decodeUint64Block encodeUint64Block
  rw [decompressBlock_rt z hz _ _ (by have := encodeUint64List_length a; omega)]
  simp [decodeUint64List_rt a (by omega) h]

/-! ### byte blocks -/

theorem sliceItems_rt (a : List Item) (extra : List Byte) :
    sliceItems (a.map itemLen) (a.flatMap itemBytes ++ extra) = .ok a := by
  induction a with
  | nil => simp [sliceItems]
  | cons it its ih =>
    cases it with
    | none =>
      simp only [List.map_cons, itemLen, List.flatMap_cons, itemBytes, List.nil_append, sliceItems, ih]
    | some s =>
      simp only [List.map_cons, itemLen, List.flatMap_cons, itemBytes, sliceItems, List.append_assoc]
      rw [List.take_append_of_le_length (by omega), List.take_of_length_le (by omega),
        List.drop_append_of_le_length (by omega), List.drop_of_length_le (by omega), List.nil_append, ih]
      simp

theorem decodeBytesBlock_rt (z : Zstd) (hz : z.Lawful) (a : List Item)
    (hlen : 8 * a.length + 1 < 2 ^ 64) (h : ∀ it ∈ a, itemLen it < 2 ^ 64)
    (htot : (a.flatMap itemBytes).length < 2 ^ 64) :
    decodeBytesBlock z (encodeBytesBlock z a) a.length = .ok a := by
  unfold decodeBytesBlock encodeBytesBlock
  have h1 := decodeUint64Block_rt z hz (a.map itemLen) (compressBlock z (a.flatMap itemBytes))
    (by simpa using hlen) (by simpa using h)
  rw [List.length_map] at h1
  rw [h1]
  have h2 := decompressBlock_rt z hz (a.flatMap itemBytes) [] htot
  rw [List.append_nil] at h2
  simp only [h2]
  have := sliceItems_rt a []
  rw [List.append_nil] at this
  simp [this]

theorem decodeBytesBlockWithTail_rt (z : Zstd) (hz : z.Lawful) (a : List Item) (rest : List Byte)
    (hlen : 8 * a.length + 1 < 2 ^ 64) (h : ∀ it ∈ a, itemLen it < 2 ^ 64)
    (htot : (a.flatMap itemBytes).length < 2 ^ 64) :
    decodeBytesBlockWithTail z (encodeBytesBlock z a ++ rest) a.length = .ok (a, rest) := by
  unfold decodeBytesBlockWithTail encodeBytesBlock
  have h1 := decodeUint64Block_rt z hz (a.map itemLen) (compressBlock z (a.flatMap itemBytes) ++ rest)
    (by simpa using hlen) (by simpa using h)
  rw [List.length_map] at h1
  rw [List.append_assoc, h1]
  simp only [decompressBlock_rt z hz _ _ htot]
  have := sliceItems_rt a []
  rw [List.append_nil] at this
  simp [this]

theorem decodeBytes_rt (b rest : List Byte) (h : b.length < 2 ^ 64) :
    decodeBytes (encodeBytes b ++ rest) = .ok (rest, b) := by
  unfold decodeBytes encodeBytes
  rw [List.append_assoc, bytesToVarUint64_rt _ _ h]
  simp

end Banyan.C11
