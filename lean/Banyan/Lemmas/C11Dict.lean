/-
C11 helper lemmas: bit stream, bit packing, run-length encoding, dictionary (`dictionary.go`,
`reader.go`, `writer.go`).
-/
import Banyan.Lemmas.C11Blocks

namespace Banyan.C11


theorem bitsOf_length (n u : Nat) : (bitsOf n u).length = n := by
  induction n with
  | zero => rfl
  | succ n ih => simp [bitsOf, ih]

theorem bitsToNat_foldl (bs : List Bool) (acc : Nat) :
    bs.foldl (fun a b => 2 * a + b.toNat) acc = acc * 2 ^ bs.length + bitsToNat bs := by
  induction bs generalizing acc with
  | nil => simp [bitsToNat]
  | cons b bs ih =>
    simp only [List.foldl_cons, List.length_cons, bitsToNat]
    rw [ih, ih (2 * 0 + b.toNat)]
    simp [Nat.pow_succ, Nat.add_mul, Nat.mul_assoc, Nat.mul_comm 2, Nat.add_assoc]

theorem bitsToNat_cons (b : Bool) (bs : List Bool) :
    bitsToNat (b :: bs) = b.toNat * 2 ^ bs.length + bitsToNat bs := by
  simp only [bitsToNat, List.foldl_cons]
  rw [bitsToNat_foldl]
  simp [bitsToNat]

theorem bitsToNat_lt (bs : List Bool) : bitsToNat bs < 2 ^ bs.length := by
  induction bs with
  | nil => simp [bitsToNat]
  | cons b bs ih =>
    rw [bitsToNat_cons, List.length_cons, Nat.pow_succ]
    have : b.toNat ≤ 1 := by cases b <;> simp
    have : b.toNat * 2 ^ bs.length ≤ 1 * 2 ^ bs.length := Nat.mul_le_mul_right _ this
    omega

theorem bitsToNat_bitsOf (n u : Nat) : bitsToNat (bitsOf n u) = u % 2 ^ n := by
  induction n with
  | zero => simp [bitsOf, bitsToNat, Nat.mod_one]
  | succ n ih =>
    rw [bitsOf, bitsToNat_cons, bitsOf_length, ih]
    rw [Nat.testBit_eq_decide_div_mod_eq] 
    have h2 := Nat.mod_pow_succ (x := u) (b := 2) (k := n)
    rw [h2]
    by_cases h : u / 2 ^ n % 2 = 1
    · simp [h]; omega
    · have : u / 2 ^ n % 2 = 0 := by omega
      simp [this]

theorem bitsOf8_bitsToNat (bs : List Bool) (h : bs.length = 8) : bitsOf 8 (bitsToNat bs) = bs := by
  match bs, h with
  | [a, b, c, d, e, f, g, i], _ =>
    cases a <;> cases b <;> cases c <;> cases d <;> cases e <;> cases f <;> cases g <;> cases i <;> rfl

/-- bytes → bits → bytes: every full chunk is restored, the last one is zero padded. -/
theorem unpack_pack (fuel : Nat) (bs : List Bool) (h : bs.length ≤ fuel) :
    ∃ pad, unpackBits (packBits fuel bs) = bs ++ List.replicate pad false := by
  induction fuel generalizing bs with
  | zero =>
    have : bs = [] := List.eq_nil_of_length_eq_zero (by omega)
    subst this; exact ⟨0, rfl⟩
  | succ fuel ih =>
    cases bs with
    | nil => exact ⟨0, rfl⟩
    | cons b bs =>
      simp only [packBits, unpackBits, List.flatMap_cons]
      by_cases h8 : 8 ≤ (b :: bs).length
      · have hl : ((b :: bs).take 8).length = 8 := by simp [List.length_take]; simp at h8; omega
        obtain ⟨pad, hp⟩ := ih ((b :: bs).drop 8) (by simp [List.length_drop]; simp at h; omega)
        refine ⟨pad, ?_⟩
        simp only [unpackBits] at hp
        rw [hp, hl, Nat.sub_self, List.replicate_zero, List.append_nil, bitsOf8_bitsToNat _ hl,
          ← List.append_assoc, List.take_append_drop]
      · have hl : ((b :: bs).take 8) = b :: bs := List.take_of_length_le (by omega)
        have hd : (b :: bs).drop 8 = [] := List.drop_of_length_le (by omega)
        refine ⟨8 - (b :: bs).length, ?_⟩
        rw [hl, hd]
        have : packBits fuel [] = [] := by cases fuel <;> rfl
        rw [this]
        simp only [List.flatMap_nil, List.append_nil]
        exact bitsOf8_bitsToNat _ (by rw [List.length_append, List.length_replicate]; omega)

theorem readBits_bitsOf (n u : Nat) (rest : List Bool) (h : u < 2 ^ n) (hn : n ≤ 64) :
    readBits n (bitsOf n u ++ rest) = .ok (u, rest) := by
  unfold readBits
  have hl := bitsOf_length n u
  simp only [List.take_append_of_le_length (Nat.le_of_eq hl.symm), List.take_of_length_le (Nat.le_of_eq hl),
    hl, Nat.lt_irrefl, if_false, List.drop_append_of_le_length (Nat.le_of_eq hl.symm),
    List.drop_of_length_le (Nat.le_of_eq hl), List.nil_append, bitsToNat_bitsOf]
  have : u % 2 ^ n % W64 = u := by
    rw [Nat.mod_eq_of_lt h]
    apply Nat.mod_eq_of_lt
    unfold W64
    exact Nat.lt_of_lt_of_le h (Nat.pow_le_pow_right (by decide) hn)
  rw [this]

/-! ### bit packing -/

theorem readValues_rt (width : Nat) (hw : width ≤ 32) (src : List Nat) (rest : List Bool)
    (h : ∀ v ∈ src, v < 2 ^ width) :
    readValues width src.length (src.flatMap (bitsOf width) ++ rest) = .ok src := by
  induction src with
  | nil => rfl
  | cons v vs ih =>
    simp only [List.flatMap_cons, List.length_cons, readValues, List.append_assoc]
    have hv := h v (by simp)
    simp only [readBits_bitsOf width v _ hv (by omega), ih (fun x hx => h x (by simp [hx]))]
    have : v % 2 ^ 32 = v := Nat.mod_eq_of_lt (Nat.lt_of_lt_of_le hv (Nat.pow_le_pow_right (by decide) hw))
    simp [this]

theorem len32_le (v : Nat) (h : v < 2 ^ 32) : len32 v ≤ 32 := by
  unfold len32
  split
  · omega
  · rename_i h0
    have := (Nat.log2_lt h0).2 h
    omega

theorem lt_pow_len32 (v : Nat) : v < 2 ^ len32 v := by
  unfold len32
  split
  · rename_i h; subst h; decide
  · exact Nat.lt_log2_self

theorem len32_mono (a b : Nat) (h : a ≤ b) : 2 ^ len32 a ≤ 2 ^ len32 b := by
  apply Nat.pow_le_pow_right (by decide)
  unfold len32
  by_cases ha : a = 0
  · simp [ha]
  · have hb : b ≠ 0 := by omega
    simp only [ha, hb, if_false]
    have : a.log2 ≤ b.log2 := by
      apply Classical.byContradiction
      intro hc
      have h1 : b.log2 < a.log2 := by omega
      have h2 := (Nat.log2_lt hb).1 h1
      have h3 := Nat.log2_self_le ha
      omega
    omega

theorem foldl_max_mem (a : List Nat) (m : Nat) :
    a.foldl (fun m n => if n > m then n else m) m = m ∨ a.foldl (fun m n => if n > m then n else m) m ∈ a := by
  induction a generalizing m with
  | nil => simp
  | cons y ys ih =>
    simp only [List.foldl_cons]
    by_cases hy : y > m
    · simp only [hy, if_true]
      rcases ih y with h | h
      · right; rw [h]; simp
      · right; simp [h]
    · simp only [hy, if_false]
      rcases ih m with h | h
      · left; exact h
      · right; simp [h]

theorem decodeBitPacking_rt (src : List Nat) (hlen : src.length < 2 ^ 32) (h : ∀ v ∈ src, v < 2 ^ 32) :
    decodeBitPacking (encodeBitPacking src) = .ok src := by
  unfold decodeBitPacking encodeBitPacking
  simp only
  obtain ⟨pad, hp⟩ := unpack_pack (bitPackingBits src).length (bitPackingBits src) (Nat.le_refl _)
  rw [hp]
  cases src with
  | nil =>
    simp only [bitPackingBits]
    rw [readBits_bitsOf 32 0 _ (by decide) (by decide)]
    simp
  | cons x xs =>
    simp only [bitPackingBits, List.append_assoc]
    have hmax := foldl_max_ge (x :: xs) 0
    have hmem := foldl_max_mem (x :: xs) 0
    generalize (x :: xs).foldl (fun m v => if v > m then v else m) 0 = mx at hmax hmem
    have hmx32 : mx < 2 ^ 32 := by
      rcases hmem with h0 | hm
      · rw [h0]; decide
      · exact h mx hm
    rw [readBits_bitsOf 32 _ _ hlen (by decide)]
    have hne : (x :: xs).length ≠ 0 := by simp
    simp only [hne, if_false]
    generalize hwd : (if mx > 0 then len32 mx else 1) = width
    have hw32 : width ≤ 32 := by
      rw [← hwd]; split
      · exact len32_le mx hmx32
      · omega
    have hw1 : 1 ≤ width := by
      rw [← hwd]; split
      · rename_i hp
        unfold len32
        have : mx ≠ 0 := by omega
        simp [this]
      · omega
    have hvals : ∀ v ∈ x :: xs, v < 2 ^ width := by
      intro v hv
      have hle := hmax.2 v hv
      rw [← hwd]
      split
      · exact Nat.lt_of_le_of_lt hle (lt_pow_len32 mx)
      · have : v = 0 := by omega
        subst this; decide
    rw [readBits_bitsOf 8 width _ (by omega) (by decide)]
    have hc1 : ¬ (width = 0 ∨ width > 32) := by omega
    simp only [hc1, if_false]
    have hfl : ((x :: xs).flatMap (bitsOf width)).length = width * (x :: xs).length := by
      clear hvals hmax hmem hp
      generalize x :: xs = l
      induction l with
      | nil => simp
      | cons y ys ih => simp [List.flatMap_cons, bitsOf_length, ih, Nat.mul_add]; omega
    have hc2 : ¬ (x :: xs).length > (((x :: xs).flatMap (bitsOf width)) ++ List.replicate pad false).length / width := by
      rw [List.length_append, hfl, Nat.mul_comm, Nat.not_lt]
      rw [Nat.le_div_iff_mul_le (by omega)]
      omega
    simp only [hc2, if_false]
    exact readValues_rt width hw32 (x :: xs) _ hvals

/-! ### run-length encoding -/

theorem rleLoop_expand (cur cnt : Nat) (xs : List Nat) :
    rleExpand (rleLoop cur cnt xs) = List.replicate cnt cur ++ xs ∧
    rleTotal (rleLoop cur cnt xs) = some (cnt + xs.length) := by
  induction xs generalizing cur cnt with
  | nil => simp [rleLoop, rleExpand, rleTotal]
  | cons x xs ih =>
    simp only [rleLoop]
    by_cases h : x = cur
    · subst h
      simp only [if_true]
      obtain ⟨h1, h2⟩ := ih x (cnt + 1)
      refine ⟨?_, ?_⟩
      · rw [h1, List.replicate_succ']; simp
      · rw [h2]; simp; omega
    · simp only [h, if_false, rleExpand, rleTotal]
      obtain ⟨h1, h2⟩ := ih x 1
      refine ⟨?_, ?_⟩
      · rw [h1]; simp
      · rw [h2]; simp; omega

theorem rleLoop_bound (B cur cnt : Nat) (xs : List Nat) (hc : cur < B) (hx : ∀ x ∈ xs, x < B)
    (hn : cnt + xs.length < B) : ∀ v ∈ rleLoop cur cnt xs, v < B := by
  induction xs generalizing cur cnt with
  | nil => intro v hv; simp [rleLoop] at hv; rcases hv with rfl | rfl <;> simp_all
  | cons x xs ih =>
    simp only [rleLoop]
    simp only [List.length_cons] at hn
    split
    · exact ih cur (cnt + 1) hc (fun y hy => hx y (by simp [hy])) (by omega)
    · intro v hv
      simp only [List.mem_cons] at hv
      rcases hv with rfl | rfl | hv
      · exact hc
      · omega
      · exact ih x 1 (hx x (by simp)) (fun y hy => hx y (by simp [hy])) (by omega) v hv

theorem rleLoop_length (cur cnt : Nat) (xs : List Nat) : (rleLoop cur cnt xs).length ≤ 2 * (xs.length + 1) := by
  induction xs generalizing cur cnt with
  | nil => simp [rleLoop]
  | cons x xs ih =>
    simp only [rleLoop]
    split
    · have := ih cur (cnt + 1); simp; omega
    · have := ih x 1; simp; omega

theorem decodeRLE_rt (src : List Nat) : decodeRLE (encodeRLE src) src.length = .ok src := by
  cases src with
  | nil => rfl
  | cons x xs =>
    obtain ⟨h1, h2⟩ := rleLoop_expand x 1 xs
    simp only [encodeRLE]
    unfold decodeRLE
    split
    · rename_i h; rw [h] at h2; simp [rleTotal] at h2; omega
    · rw [h2, h1]
      simp; omega

/-! ### dictionary -/

theorem lookupAll_append (values extra : List Item) (idx : List Nat) (its : List Item)
    (h : lookupAll values idx = .ok its) : lookupAll (values ++ extra) idx = .ok its := by
  induction idx generalizing its with
  | nil => simpa [lookupAll] using h
  | cons i is ih =>
    simp only [lookupAll] at h ⊢
    split at h
    · simp at h
    · rename_i v hv
      have hi : i < values.length := by
        apply Classical.byContradiction; intro hc
        rw [List.getElem?_eq_none (by omega)] at hv; simp at hv
      rw [List.getElem?_append_left hi, hv]
      simp only
      split at h
      · rename_i r hr
        rw [ih r hr]; exact h
      · simp at h
      · simp at h

theorem lookupAll_snoc (values : List Item) (idx : List Nat) (its : List Item) (i : Nat) (v : Item)
    (h : lookupAll values idx = .ok its) (hv : values[i]? = some v) :
    lookupAll values (idx ++ [i]) = .ok (its ++ [v]) := by
  induction idx generalizing its with
  | nil =>
    simp [lookupAll] at h
    subst h
    simp [lookupAll, hv]
  | cons j js ih =>
    simp only [lookupAll, List.cons_append] at h ⊢
    split at h
    · simp at h
    · rename_i w hw
      split at h
      · rename_i r hr
        rw [ih r hr]
        simp only [Res.ok.injEq] at h
        simp [← h]
      · simp at h
      · simp at h

theorem sublist_flatMap_length {α β : Type} (f : α → List β) {l₁ l₂ : List α} (h : l₁.Sublist l₂) :
    (l₁.flatMap f).length ≤ (l₂.flatMap f).length := by
  induction h with
  | slnil => simp
  | cons a _ ih => simp only [List.flatMap_cons, List.length_append]; omega
  | cons_cons a _ ih => simp only [List.flatMap_cons, List.length_append]; omega

/-- invariant of `Dictionary.Add`. -/
structure Dict.Inv (d : Dict) (its : List Item) : Prop where
  look : lookupAll d.values d.indices = .ok its
  size : d.values.length ≤ maxUniqueValues
  ilen : d.indices.length = its.length
  ibound : ∀ i ∈ d.indices, i < d.values.length
  vsl : d.values.Sublist its

theorem Dict.add_inv (d d' : Dict) (its : List Item) (v : Item) (hi : d.Inv its) (h : d.add v = some d') :
    d'.Inv (its ++ [v]) := by
  unfold Dict.add at h
  split at h
  · rename_i i hf
    simp only [Option.some.injEq] at h
    subst h
    have hlt := (List.findIdx?_eq_some_iff_getElem.1 hf).1
    have hp := (List.findIdx?_eq_some_iff_getElem.1 hf).2.1
    have hv : d.values[i]? = some v := by
      rw [List.getElem?_eq_getElem hlt]
      simp only [beq_iff_eq] at hp
      rw [hp]
    exact ⟨lookupAll_snoc _ _ _ _ _ hi.look hv, hi.size, by simp [hi.ilen],
      fun j hj => by
        simp only [List.mem_append, List.mem_singleton] at hj
        rcases hj with hj | rfl
        · exact hi.ibound j hj
        · exact hlt,
      hi.vsl.trans (List.sublist_append_left _ _)⟩
  · split at h
    · simp at h
    · rename_i hfull
      simp only [Option.some.injEq] at h
      subst h
      have hv : (d.values ++ [v])[d.values.length]? = some v := by simp
      refine ⟨lookupAll_snoc _ _ _ _ _ (lookupAll_append _ _ _ _ hi.look) hv, ?_, by simp [hi.ilen], ?_, ?_⟩
      · have := hi.size; simp; omega
      · intro j hj
        simp only [List.mem_append, List.mem_singleton] at hj
        simp only [List.length_append, List.length_singleton]
        rcases hj with hj | rfl
        · have := hi.ibound j hj; omega
        · omega
      · exact List.Sublist.append hi.vsl (List.Sublist.refl _)

theorem Dict.addAll_inv (d d' : Dict) (pre its : List Item) (hi : d.Inv pre) (h : Dict.addAll d its = some d') :
    d'.Inv (pre ++ its) := by
  induction its generalizing d pre with
  | nil => simp [Dict.addAll] at h; subst h; simpa using hi
  | cons v vs ih =>
    simp only [Dict.addAll] at h
    split at h
    · rename_i d1 h1
      have := ih d1 (pre ++ [v]) (Dict.add_inv d d1 pre v hi h1) h
      simpa using this
    · simp at h

theorem Dict.Inv.vsub {d : Dict} {its : List Item} (hi : d.Inv its) : ∀ v ∈ d.values, v ∈ its :=
  fun _ hv => hi.vsl.subset hv

theorem Dict.empty_inv : Dict.empty.Inv [] :=
  ⟨rfl, by simp [Dict.empty, maxUniqueValues], rfl, by simp [Dict.empty], by simp [Dict.empty]⟩

theorem Dict.decode_encode (z : Zstd) (hz : z.Lawful) (d : Dict) (its : List Item) (hi : d.Inv its)
    (hlen : its.length < 2 ^ 31) (hitems : ∀ it ∈ d.values, itemLen it < 2 ^ 64)
    (htot : (d.values.flatMap itemBytes).length < 2 ^ 64) :
    Dict.decode z (d.encode z) its.length = .ok its := by
  unfold Dict.decode Dict.encode
  have hvl : d.values.length < 2 ^ 64 := by have := hi.size; unfold maxUniqueValues at this; omega
  rw [List.append_assoc, bytesToVarUint64_rt _ _ hvl]
  simp only
  by_cases h0 : d.values.length = 0
  · simp only [h0, if_true]
    have hidx : d.indices = [] := by
      cases hx : d.indices with
      | nil => rfl
      | cons i is => have := hi.ibound i (by simp [hx]); omega
    have := hi.ilen
    rw [hidx] at this
    have : its = [] := List.eq_nil_of_length_eq_zero this.symm
    rw [this]
  · simp only [h0, if_false]
    rw [decodeBytesBlockWithTail_rt z hz d.values _ (by have := hi.size; unfold maxUniqueValues at this; omega) hitems htot]
    simp only
    have hb : ∀ v ∈ encodeRLE d.indices, v < 2 ^ 32 := by
      cases hx : d.indices with
      | nil => simp [encodeRLE]
      | cons i is =>
        simp only [encodeRLE]
        have hil := hi.ilen
        rw [hx] at hil
        simp only [List.length_cons] at hil
        apply rleLoop_bound (2 ^ 32) i 1 is
        · have := hi.ibound i (by simp [hx]); have := hi.size; unfold maxUniqueValues at this; omega
        · intro y hy
          have := hi.ibound y (by simp [hx, hy]); have := hi.size; unfold maxUniqueValues at this; omega
        · omega
    have hl : (encodeRLE d.indices).length < 2 ^ 32 := by
      cases hx : d.indices with
      | nil => simp [encodeRLE]
      | cons i is =>
        simp only [encodeRLE]
        have := rleLoop_length i 1 is
        have hil := hi.ilen
        rw [hx] at hil
        simp only [List.length_cons] at hil
        omega
    rw [decodeBitPacking_rt _ hl hb]
    simp only
    rw [← hi.ilen, decodeRLE_rt]
    simp [hi.look]

end Banyan.C11
