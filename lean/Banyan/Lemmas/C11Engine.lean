/-
C11 helper lemmas: the engines' own tag value marshalling (banyand/measure, banyand/stream private
var-array copies; banyand/trace via pkg/encoding).
-/
import Banyan.Lemmas.C11VarArray
import Banyan.Lemmas.C11Tag
import Banyan.Lemmas.C11Float
namespace Banyan.C11

theorem marshalVarArray_ne_nil (s : List Byte) : marshalVarArray s ≠ [] := by
  rw [marshalVarArray_eq]; simp

theorem ownUnmarshal_rt (s rest : List Byte) :
    ownUnmarshalVarArray (marshalVarArray s ++ rest) = .ok (s, rest) := by
  unfold ownUnmarshalVarArray
  have hne := marshalVarArray_ne_nil s
  cases hm : marshalVarArray s ++ rest with
  | nil => simp at hm; exact absurd hm.1 hne
  | cons b bs =>
    simp only
    rw [← hm, marshalVarArray_eq, List.append_assoc, List.singleton_append, unescapeLoop_escapeBody]
    simp

theorem flatMap_marshal_length (l : List (List Byte)) : l.length ≤ (l.flatMap marshalVarArray).length := by
  induction l with
  | nil => simp
  | cons s l ih =>
    simp only [List.flatMap_cons, List.length_append, List.length_cons]
    have : 1 ≤ (marshalVarArray s).length := by
      rw [marshalVarArray_eq]; simp
    omega

/-- measure / stream: the private decode loop inverts the marshalling of every string array. -/
theorem ownDecodeStrArr_rt (l : List (List Byte)) (fuel : Nat) (h : l.length < fuel) :
    ownDecodeStrArr fuel (l.flatMap marshalVarArray) = .ok l := by
  induction l generalizing fuel with
  | nil => cases fuel with
    | zero => omega
    | succ f => simp [ownDecodeStrArr]
  | cons s l ih =>
    cases fuel with
    | zero => omega
    | succ f =>
      simp only [List.flatMap_cons, ownDecodeStrArr]
      have hne := marshalVarArray_ne_nil s
      cases hm : marshalVarArray s ++ l.flatMap marshalVarArray with
      | nil => simp at hm; exact absurd hm.1 hne
      | cons b bs =>
        simp only
        rw [← hm, ownUnmarshal_rt]
        simp only [ih f (by simp at h; omega)]

/-- trace: the index-based loop over `pkg/encoding.UnmarshalVarArray`. -/
theorem idxDecodeStrArr_rt (pre : List Byte) (l : List (List Byte)) (fuel : Nat) (h : l.length < fuel) :
    idxDecodeStrArr fuel (pre ++ l.flatMap marshalVarArray) pre.length = .ok l := by
  induction l generalizing fuel pre with
  | nil => cases fuel with
    | zero => omega
    | succ f => simp [idxDecodeStrArr]
  | cons s l ih =>
    cases fuel with
    | zero => omega
    | succ f =>
      simp only [List.flatMap_cons, idxDecodeStrArr]
      have h1 : 1 ≤ (marshalVarArray s).length := by rw [marshalVarArray_eq]; simp
      have hlt : pre.length < (pre ++ (marshalVarArray s ++ l.flatMap marshalVarArray)).length := by
        simp only [List.length_append]; omega
      simp only [hlt, if_true]
      rw [← List.append_assoc, unmarshalVarArray_rt pre s (l.flatMap marshalVarArray)]
      simp only
      have := ih (pre ++ marshalVarArray s) f (by simp at h; omega)
      rw [List.length_append] at this
      rw [this]

theorem decodeIntArr_rt (l : List I64) (fuel : Nat) (h : l.length < fuel) :
    decodeIntArr fuel (l.flatMap C12.int64ToBytes) = .ok l := by
  induction l generalizing fuel with
  | nil => cases fuel with
    | zero => omega
    | succ f => simp [decodeIntArr]
  | cons v l ih =>
    cases fuel with
    | zero => omega
    | succ f =>
      simp only [List.flatMap_cons, decodeIntArr]
      have h8 := int64ToBytes_length v
      cases hm : C12.int64ToBytes v ++ l.flatMap C12.int64ToBytes with
      | nil => have := congrArg List.length hm; simp [h8] at this
      | cons b bs =>
        simp only
        rw [← hm]
        have hl : ¬ (C12.int64ToBytes v ++ l.flatMap C12.int64ToBytes).length < 8 := by
          simp [h8]
        simp only [hl, if_false]
        rw [List.drop_append_of_le_length (by omega), List.drop_of_length_le (by omega), List.nil_append,
          List.take_append_of_le_length (by omega), List.take_of_length_le (by omega),
          ih f (by simp at h; omega), bytesToInt64_int64ToBytes]


/-- values for which the engines' tag marshalling is claimed to round-trip exactly: arrays have at
    least one element (an array without elements is stored as nil and read back as null – C01's F10),
    timestamps are at or after the epoch, normalised, and fit 64-bit nanoseconds. -/
def TagVal.WF : TagVal → Prop
  | .strArr l => l ≠ []
  | .intArr l => l ≠ []
  | .ts sec nanos => 0 ≤ sec ∧ 0 ≤ nanos ∧ nanos < 1000000000 ∧ sec * 1000000000 + nanos ≤ maxInt64
  | _ => True

theorem flatMap_int64ToBytes_length (l : List I64) : (l.flatMap C12.int64ToBytes).length = 8 * l.length := by
  induction l with
  | nil => rfl
  | cons v l ih => simp [List.flatMap_cons, int64ToBytes_length, ih]; omega

theorem engineTag_rt_aux (own : Bool) (tv : TagVal) (vt : TVType) (hvt : tv.type? = some vt) (hwf : tv.WF) :
    engineDecode own vt (engineMarshal tv) = .ok tv := by
  cases tv with
  | null => simp [TagVal.type?] at hvt
  | str s => simp only [TagVal.type?, Option.some.injEq] at hvt; subst hvt; rfl
  | bin b => simp only [TagVal.type?, Option.some.injEq] at hvt; subst hvt; rfl
  | int v =>
    simp only [TagVal.type?, Option.some.injEq] at hvt; subst hvt
    simp [engineMarshal, engineDecode, int64ToBytes_length, bytesToInt64_int64ToBytes]
  | strArr l =>
    simp only [TagVal.type?, Option.some.injEq] at hvt; subst hvt
    cases l with
    | nil => exact absurd rfl hwf
    | cons s l =>
      simp only [engineMarshal, engineDecode]
      have hlen := flatMap_marshal_length (s :: l)
      cases own with
      | true =>
        simp only [if_true]
        rw [ownDecodeStrArr_rt (s :: l) _ (by omega)]; rfl
      | false =>
        simp only [Bool.false_eq_true, if_false]
        have := idxDecodeStrArr_rt [] (s :: l) ((List.flatMap marshalVarArray (s :: l)).length + 1) (by omega)
        simp only [List.nil_append, List.length_nil] at this
        rw [this]; rfl
  | intArr l =>
    simp only [TagVal.type?, Option.some.injEq] at hvt; subst hvt
    cases l with
    | nil => exact absurd rfl hwf
    | cons v l =>
      simp only [engineMarshal, engineDecode]
      have hlen := flatMap_int64ToBytes_length (v :: l)
      rw [decodeIntArr_rt (v :: l) _ (by rw [hlen]; simp; omega)]; rfl
  | ts sec nanos =>
    simp only [TagVal.type?, Option.some.injEq] at hvt; subst hvt
    obtain ⟨h0, hn0, hn1, hmax⟩ := hwf
    simp only [engineMarshal, engineDecode, int64ToBytes_length, Nat.lt_irrefl, if_false, bytesToInt64_int64ToBytes]
    have hr : (BitVec.ofInt 64 (sec * 1000000000 + nanos)).toInt = sec * 1000000000 + nanos :=
      toInt_ofInt_of_range _ (by unfold minInt64; omega) hmax
    rw [hr, Int.tdiv_eq_ediv_of_nonneg (by omega), Int.tmod_eq_emod_of_nonneg (by omega)]
    have e1 : (sec * 1000000000 + nanos) / 1000000000 = sec := by omega
    have e2 : (sec * 1000000000 + nanos) % 1000000000 = nanos := by omega
    rw [e1, e2]

end Banyan.C11
