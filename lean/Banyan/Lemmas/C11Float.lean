/-
C11 helper lemmas: overflow-checked decimal scaling (`pkg/encoding/float.go` mulPow10Fast/Large).
-/
import Banyan.Model.C11
namespace Banyan.C11

theorem toInt_ofInt_of_range (x : Int) (h1 : minInt64 ≤ x) (h2 : x ≤ maxInt64) : (BitVec.ofInt 64 x).toInt = x := by
  rw [BitVec.toInt_ofInt]
  unfold minInt64 at h1
  unfold maxInt64 at h2
  apply Int.bmod_eq_of_le_mul_two <;> omega

theorem mulPow10Step_exact (v : I64) (k : Nat) (r : I64) (h : mulPow10Step v k = some r) :
    r.toInt = v.toInt * 10 ^ k := by
  unfold mulPow10Step at h
  simp only at h
  split at h
  · simp at h
  · rename_i hc
    simp only [Option.some.injEq] at h
    rw [← h]
    have hp : (0 : Int) < 10 ^ k := Int.pow_pos (by decide)
    generalize (10 : Int) ^ k = p at hc hp
    simp only [not_or, Int.not_lt] at hc
    obtain ⟨hle, hge⟩ := hc
    apply toInt_ofInt_of_range
    · -- lower bound
      have e : minInt64 = -(9223372036854775808 : Int) := rfl
      rw [e, Int.neg_tdiv] at hge
      rw [Int.tdiv_eq_ediv_of_nonneg (by decide)] at hge
      have h1 : (9223372036854775808 / p) * p ≤ 9223372036854775808 := Int.ediv_mul_le _ (by omega)
      have h2 : -(9223372036854775808 / p) * p ≤ v.toInt * p := Int.mul_le_mul_of_nonneg_right hge (by omega)
      rw [e]
      rw [Int.neg_mul] at h2
      omega
    · rw [Int.tdiv_eq_ediv_of_nonneg (by decide)] at hle
      have h1 : (maxInt64 / p) * p ≤ maxInt64 := Int.ediv_mul_le _ (by omega)
      have h2 : v.toInt * p ≤ (maxInt64 / p) * p := Int.mul_le_mul_of_nonneg_right hle (by omega)
      omega

theorem mulPow10Step_none (v : I64) (k : Nat) (h : mulPow10Step v k = none) :
    v.toInt * 10 ^ k < minInt64 ∨ maxInt64 < v.toInt * 10 ^ k := by
  unfold mulPow10Step at h
  simp only at h
  split at h
  · rename_i hc
    have hp : (0 : Int) < 10 ^ k := Int.pow_pos (by decide)
    generalize (10 : Int) ^ k = p at hc hp
    rcases hc with hgt | hlt
    · right
      rw [Int.tdiv_eq_ediv_of_nonneg (by decide)] at hgt
      have h1 : maxInt64 < (maxInt64 / p + 1) * p := Int.lt_ediv_add_one_mul_self _ hp
      have h2 : (maxInt64 / p + 1) * p ≤ v.toInt * p := Int.mul_le_mul_of_nonneg_right (by omega) (by omega)
      omega
    · left
      have e : minInt64 = -(9223372036854775808 : Int) := rfl
      rw [e, Int.neg_tdiv, Int.tdiv_eq_ediv_of_nonneg (by decide)] at hlt
      have h1 : (9223372036854775808 : Int) < (9223372036854775808 / p + 1) * p := Int.lt_ediv_add_one_mul_self _ hp
      have h2 : v.toInt * p ≤ (-(9223372036854775808 / p) - 1) * p := Int.mul_le_mul_of_nonneg_right (by omega) (by omega)
      have h3 : (-(9223372036854775808 / p) - 1) * p = -((9223372036854775808 / p + 1) * p) := by
        rw [← Int.neg_mul]; congr 1; omega
      rw [e]; omega
  · simp at h

theorem mulPow10Large_exact (fuel : Nat) (v : I64) (n : Nat) (r : I64) (h : mulPow10Large fuel v n = some r) :
    r.toInt = v.toInt * 10 ^ n := by
  induction fuel generalizing v n with
  | zero => simp [mulPow10Large] at h
  | succ fuel ih =>
    simp only [mulPow10Large] at h
    split at h
    · rename_i hn
      split at h
      · simp at h
      · rename_i v' hv
        have h1 := mulPow10Step_exact v 18 v' hv
        have h2 := ih v' (n - 18) h
        rw [h2, h1, Int.mul_assoc, ← Int.pow_add]
        congr 2; omega
    · split at h
      · exact mulPow10Step_exact v n r h
      · rename_i h0 h1
        simp only [Option.some.injEq] at h
        have : n = 0 := by omega
        subst this; rw [← h]; simp

theorem mulPow10Fast_exact (v : I64) (n : BitVec 16) (r : I64) (h : mulPow10Fast v n = some r) :
    0 ≤ n.toInt ∧ r.toInt = v.toInt * 10 ^ n.toInt.toNat := by
  unfold mulPow10Fast at h
  split at h
  · simp at h
  · rename_i hn
    have hnn : n.toInt.toNat = n.toNat := by
      have := BitVec.toInt_eq_toNat_cond n
      split at this <;> omega
    refine ⟨by omega, ?_⟩
    rw [hnn]
    split at h
    · exact mulPow10Step_exact v _ r h
    · exact mulPow10Large_exact _ v _ r h

/-- `ds` is `des` brought to the common exponent `minExp` exactly. -/
def ScaledTo (minExp : BitVec 16) : List (I64 × BitVec 16) → List I64 → Prop
  | [], [] => True
  | de :: rest, d' :: rest' =>
    (0 ≤ (de.2 - minExp).toInt ∧ d'.toInt = de.1.toInt * 10 ^ (de.2 - minExp).toInt.toNat) ∧
      ScaledTo minExp rest rest'
  | _, _ => False

/-- second loop of the encoder: every decimal is multiplied by exactly `10^(e - minExp)` (int16
    difference, which must be non-negative) – no wrap-around, or the list is refused. -/
theorem scaleAll_exact (minExp : BitVec 16) (des : List (I64 × BitVec 16)) (ds : List I64)
    (h : scaleAll minExp des = some ds) :
    ScaledTo minExp des ds := by
  induction des generalizing ds with
  | nil => simp [scaleAll] at h; subst h; trivial
  | cons de rest ih =>
    obtain ⟨d, e⟩ := de
    simp only [scaleAll] at h
    split at h
    · simp at h
    · rename_i d' hs
      split at h
      · simp at h
      · rename_i r hr
        simp only [Option.some.injEq] at h
        subst h
        refine ⟨?_, ih r hr⟩
        simp only
        split at hs
        · rename_i hz
          simp only [Option.some.injEq] at hs
          subst hs
          simp [hz]
        · exact mulPow10Fast_exact d (e - minExp) d' hs

/-! ### the repaired encoder's acceptance test (`decoded[i] != f`) -/

def negZero : BitVec 64 := 0x8000000000000000#64
def posZero : BitVec 64 := 0#64

/-- `-0.0 ↦ +0.0`, every other bit pattern unchanged. -/
def normZero (b : BitVec 64) : BitVec 64 := if b = negZero then posZero else b

/-- what the repaired encoder guarantees about `decoded` vs `src`: same length, and pointwise the
    same bits or two zeros (of either sign). -/
def SameFloats : List (BitVec 64) → List (BitVec 64) → Prop
  | [], [] => True
  | y :: ys, x :: xs => (y = x ∨ (isZero64 x = true ∧ isZero64 y = true)) ∧ SameFloats ys xs
  | _, _ => False

/-- the directed form: bit exact except that `-0.0` is read back as `+0.0`. -/
def ExactUpToNegZero : List (BitVec 64) → List (BitVec 64) → Prop
  | [], [] => True
  | y :: ys, x :: xs => (y = x ∨ (x = negZero ∧ y = posZero)) ∧ ExactUpToNegZero ys xs
  | _, _ => False

theorem fEq_spec (a b : BitVec 64) (h : fEq a b = true) :
    C12.isNaN a = false ∧ C12.isNaN b = false ∧ (a = b ∨ (isZero64 b = true ∧ isZero64 a = true)) := by
  unfold fEq at h
  simp only [Bool.and_eq_true, Bool.not_eq_true', Bool.or_eq_true, beq_iff_eq] at h
  obtain ⟨⟨ha, hb⟩, h3⟩ := h
  refine ⟨ha, hb, ?_⟩
  rcases h3 with h3 | h3
  · exact Or.inl h3
  · exact Or.inr ⟨h3.2, h3.1⟩

theorem fEqList_same (ys xs : List (BitVec 64)) (h : fEqList ys xs = true) : SameFloats ys xs := by
  induction ys generalizing xs with
  | nil => cases xs <;> simp_all [fEqList, SameFloats]
  | cons y ys ih =>
    cases xs with
    | nil => simp [fEqList] at h
    | cons x xs =>
      simp only [fEqList, Bool.and_eq_true] at h
      exact ⟨(fEq_spec y x h.1).2.2, ih xs h.2⟩

theorem SameFloats.length_eq {ys xs : List (BitVec 64)} (h : SameFloats ys xs) : ys.length = xs.length := by
  induction ys generalizing xs with
  | nil => cases xs <;> simp_all [SameFloats]
  | cons y ys ih =>
    cases xs with
    | nil => simp [SameFloats] at h
    | cons x xs => simp [ih h.2]

theorem isZero64_normZero (b : BitVec 64) (h : isZero64 b = true) : normZero b = posZero := by
  unfold isZero64 at h
  simp only [Bool.or_eq_true, beq_iff_eq] at h
  rcases h with rfl | rfl <;> decide

theorem SameFloats.normZero_eq {ys xs : List (BitVec 64)} (h : SameFloats ys xs) :
    ys.map normZero = xs.map normZero := by
  induction ys generalizing xs with
  | nil => cases xs <;> simp_all [SameFloats]
  | cons y ys ih =>
    cases xs with
    | nil => simp [SameFloats] at h
    | cons x xs =>
      simp only [List.map_cons, ih h.2]
      rcases h.1 with rfl | ⟨hx, hy⟩
      · rfl
      · rw [isZero64_normZero x hx, isZero64_normZero y hy]

theorem SameFloats.directed {ys xs : List (BitVec 64)} (h : SameFloats ys xs) (hn : ∀ y ∈ ys, y ≠ negZero) :
    ExactUpToNegZero ys xs := by
  induction ys generalizing xs with
  | nil => cases xs <;> simp_all [SameFloats, ExactUpToNegZero]
  | cons y ys ih =>
    cases xs with
    | nil => simp [SameFloats] at h
    | cons x xs =>
      refine ⟨?_, ih h.2 (fun z hz => hn z (by simp [hz]))⟩
      rcases h.1 with rfl | ⟨hx, hy⟩
      · exact Or.inl rfl
      · have hy' : y = posZero := by
          unfold isZero64 at hy
          simp only [Bool.or_eq_true, beq_iff_eq] at hy
          rcases hy with rfl | rfl
          · rfl
          · exact absurd rfl (hn _ (List.mem_cons_self))
        unfold isZero64 at hx
        simp only [Bool.or_eq_true, beq_iff_eq] at hx
        rcases hx with rfl | rfl
        · exact Or.inl hy'
        · exact Or.inr ⟨rfl, hy'⟩

/-- what `Float64ListToDecimalIntList` (repaired) accepts decodes to the same floats. -/
theorem float_accept_same (fd : FloatDec) (src : List (BitVec 64)) (ds : List I64) (e : BitVec 16)
    (h : float64ListToDecimalIntList fd src = .ok (ds, e)) :
    SameFloats (decimalIntListToFloat64List fd ds e) src := by
  unfold float64ListToDecimalIntList at h
  split at h
  · split at h
    · rename_i heq
      simp only [Res.ok.injEq, Prod.mk.injEq] at h
      rw [← h.1, ← h.2]; exact fEqList_same _ _ heq
    · simp at h
  · simp at h
  · simp at h

end Banyan.C11
