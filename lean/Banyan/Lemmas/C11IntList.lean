/-
C11 helper lemmas: int64 lists (`pkg/encoding/int_list.go`, `delta.go`).
-/
import Banyan.Lemmas.C11Varint

namespace Banyan.C11

theorem bv_add_sub_cancel {w : Nat} (v n : BitVec w) : v + (n - v) = n := by
  rw [BitVec.add_comm, BitVec.sub_add_cancel]

theorem bv_dod_cancel {w : Nat} (v d1 n : BitVec w) : v + (d1 + (n - v - d1)) = n := by
  rw [BitVec.add_comm d1, BitVec.sub_add_cancel, bv_add_sub_cancel]

/-! ### const -/

theorem all_eq_replicate (v : I64) (l : List I64) (h : l.all (· == v) = true) :
    l = List.replicate l.length v := by
  induction l with
  | nil => rfl
  | cons x xs ih =>
    simp only [List.all_cons, Bool.and_eq_true, beq_iff_eq] at h
    rw [List.length_cons, List.replicate_succ, h.1, ← ih h.2]

theorem isConst_replicate (a0 : I64) (tl : List I64) (h : isConst (a0 :: tl) = true) :
    a0 :: tl = List.replicate (tl.length + 1) a0 := by
  unfold isConst at h
  rw [List.replicate_succ, ← all_eq_replicate a0 tl h]

/-! ### delta const -/

theorem isDeltaLoop_true (d1 : I64) (asc : Bool) (prev : I64) (rest : List I64) (ct : Bool)
    (h : isDeltaLoop d1 asc prev rest ct = some true) :
    ct = true ∧ rest = arith (prev + d1) d1 rest.length := by
  induction rest generalizing prev ct with
  | nil => simp [isDeltaLoop] at h; simp [h, arith]
  | cons next rest ih =>
    simp only [isDeltaLoop] at h
    split at h
    · simp at h
    · have := ih next (ct && next - prev == d1) h
      simp only [Bool.and_eq_true, beq_iff_eq] at this
      obtain ⟨⟨hct, hd⟩, hr⟩ := this
      refine ⟨hct, ?_⟩
      have e : prev + d1 = next := by rw [← hd, bv_add_sub_cancel]
      simp only [List.length_cons, arith, e]
      rw [← hr]

theorem isDelta_const (a0 a1 : I64) (rest : List I64) (isD : Bool)
    (h : isDelta (a0 :: a1 :: rest) = (isD, true)) :
    a0 :: a1 :: rest = arith a0 (a1 - a0) (rest.length + 2) := by
  simp only [isDelta] at h
  split at h
  · simp at h
  · rename_i ct hl
    simp only [Prod.mk.injEq] at h
    rw [h.2] at hl
    have := (isDeltaLoop_true _ _ _ _ _ hl).2
    simp only [arith, bv_add_sub_cancel]
    rw [← this]

/-! ### delta -/

theorem prefixSums_deltas (v : I64) (l : List I64) : prefixSums v (deltas v l) = l := by
  induction l generalizing v with
  | nil => rfl
  | cons n r ih => simp only [deltas, prefixSums, bv_add_sub_cancel, ih]

theorem deltas_length (v : I64) (l : List I64) : (deltas v l).length = l.length := by
  induction l generalizing v with
  | nil => rfl
  | cons n r ih => simp [deltas, ih]

/-! ### delta of delta -/

theorem dodSums_dods (v d1 : I64) (l : List I64) : dodSums v d1 (dods v d1 l) = l := by
  induction l generalizing v d1 with
  | nil => rfl
  | cons n r ih => simp only [dods, dodSums, bv_dod_cancel, ih]

theorem dods_length (v d1 : I64) (l : List I64) : (dods v d1 l).length = l.length := by
  induction l generalizing v d1 with
  | nil => rfl
  | cons n r ih => simp [dods, ih]

/-! ### decoders -/

theorem bytesDeltaToInt64List_rt (a0 : I64) (rest : List I64) :
    bytesDeltaToInt64List (varInt64ListToBytes (deltas a0 rest)) a0 (rest.length + 1) = .ok (a0 :: rest) := by
  unfold bytesDeltaToInt64List
  have h := bytesToVarInt64List_rt (deltas a0 rest) []
  rw [deltas_length, List.append_nil] at h
  simp [h, prefixSums_deltas]

theorem bytesDeltaOfDeltaToInt64s_rt (a0 a1 : I64) (rest : List I64) :
    bytesDeltaOfDeltaToInt64s (varInt64ToBytes (a1 - a0) ++ varInt64ListToBytes (dods a1 (a1 - a0) rest)) a0
      (rest.length + 2) = .ok (a0 :: a1 :: rest) := by
  unfold bytesDeltaOfDeltaToInt64s
  have h := bytesToVarInt64List_rt ((a1 - a0) :: dods a1 (a1 - a0) rest) []
  simp only [List.length_cons, dods_length, List.append_nil, varInt64ListToBytes, List.flatMap_cons] at h
  simp only [varInt64ListToBytes]
  have e : rest.length + 2 - 1 = rest.length + 1 := by omega
  simp [e, h, bv_add_sub_cancel, dodSums_dods]

theorem int64sDeltaOfDelta_rt (a : List I64) (bs : List Byte) (fv : I64)
    (h : int64sDeltaOfDeltaToBytes a = .ok (bs, fv)) :
    bytesDeltaOfDeltaToInt64s bs fv a.length = .ok a := by
  unfold int64sDeltaOfDeltaToBytes at h
  split at h
  · rename_i a0 a1 rest
    simp only [Res.ok.injEq, Prod.mk.injEq] at h
    rw [← h.1, ← h.2]
    exact bytesDeltaOfDeltaToInt64s_rt a0 a1 rest
  · simp at h

theorem isD_shape (a : List I64) (isDC : Bool) (h : isDelta a = (true, isDC)) :
    ∃ a0 a1 rest, a = a0 :: a1 :: rest := by
  unfold isDelta at h
  split at h
  · exact ⟨_, _, _, rfl⟩
  · simp at h

theorem isInc_shape (a : List I64) (h : isIncremental a = true) : ∃ a0 a1 rest, a = a0 :: a1 :: rest := by
  unfold isIncremental at h
  split at h
  · exact ⟨_, _, _, rfl⟩
  · simp at h

theorem arith_length (v d : I64) (n : Nat) : (arith v d n).length = n := by
  induction n generalizing v with
  | zero => rfl
  | succ n ih => simp [arith, ih]

theorem prefixSums_length (v : I64) (l : List I64) : (prefixSums v l).length = l.length := by
  induction l generalizing v with
  | nil => rfl
  | cons d r ih => simp [prefixSums, ih]

theorem dodSums_length (v d1 : I64) (l : List I64) : (dodSums v d1 l).length = l.length := by
  induction l generalizing v d1 with
  | nil => rfl
  | cons d r ih => simp [dodSums, ih]


theorem isDelta_shape (a : List I64) (h : isDelta a ≠ (false, false)) : ∃ a0 a1 rest, a = a0 :: a1 :: rest := by
  unfold isDelta at h
  split at h
  · exact ⟨_, _, _, rfl⟩
  · exact absurd rfl h

theorem dod_branch (a : List I64) (hs : ∃ a0 a1 rest, a = a0 :: a1 :: rest) :
    ∃ bs fv, int64sDeltaOfDeltaToBytes a = .ok (bs, fv) ∧
      bytesToInt64List bs mtDeltaOfDelta fv a.length = .ok a := by
  obtain ⟨a0, a1, rest, rfl⟩ := hs
  refine ⟨_, _, rfl, ?_⟩
  have := bytesDeltaOfDeltaToInt64s_rt a0 a1 rest
  simpa [bytesToInt64List, mtDelta, mtDeltaOfDelta] using this

theorem int64List_rt_exists (a : List I64) (hne : a ≠ []) :
    ∃ bs mt fv, int64ListToBytes a = .ok (bs, mt, fv) ∧ bytesToInt64List bs mt fv a.length = .ok a := by
  cases a with
  | nil => exact absurd rfl hne
  | cons a0 tl =>
    unfold int64ListToBytes
    by_cases hc : isConst (a0 :: tl) = true
    · simp only [hc, if_true]
      refine ⟨[], mtConst, a0, rfl, ?_⟩
      have := isConst_replicate a0 tl hc
      simp [bytesToInt64List, mtConst, mtDelta, mtDeltaOfDelta]
      exact this.symm
    · simp only [hc]
      cases hd : isDelta (a0 :: tl) with
      | mk isD isDC =>
        simp only [Bool.false_eq_true, if_false]
        cases isDC with
        | true =>
          simp only [if_true]
          obtain ⟨b0, b1, rest, hs⟩ := isDelta_shape (a0 :: tl) (by rw [hd]; simp)
          simp only [List.cons.injEq] at hs
          obtain ⟨rfl, rfl⟩ := hs
          refine ⟨_, _, _, rfl, ?_⟩
          have hsh := isDelta_const a0 b1 rest isD hd
          have hr := readVarI64_rt (b1 - a0) []
          rw [List.append_nil] at hr
          simp only [bytesToInt64List, mtConst, mtDelta, mtDeltaOfDelta, mtDeltaConst, hr]
          simp only [List.length_cons]
          simp [← hsh]
        | false =>
          simp only [Bool.false_eq_true, if_false]
          cases isD with
          | true =>
            simp only [if_true]
            obtain ⟨bs, fv, h1, h2⟩ := dod_branch (a0 :: tl) (isDelta_shape _ (by rw [hd]; simp))
            rw [h1]
            exact ⟨_, _, _, rfl, h2⟩
          | false =>
            simp only [Bool.false_eq_true, if_false]
            by_cases hi : isIncremental (a0 :: tl) = true
            · simp only [hi, if_true]
              obtain ⟨bs, fv, h1, h2⟩ := dod_branch (a0 :: tl) (isInc_shape _ hi)
              rw [h1]
              exact ⟨_, _, _, rfl, h2⟩
            · simp only [hi]
              simp only [Bool.false_eq_true, if_false, int64ListDeltaToBytes]
              refine ⟨_, _, _, rfl, ?_⟩
              have := bytesDeltaToInt64List_rt a0 tl
              simpa [bytesToInt64List, mtDelta] using this

/-- functional form: whatever the encoder returned decodes to the input. -/
theorem int64ListToBytes_rt (a : List I64) (bs : List Byte) (mt : Nat) (fv : I64)
    (h : int64ListToBytes a = .ok (bs, mt, fv)) : bytesToInt64List bs mt fv a.length = .ok a := by
  have hne : a ≠ [] := by intro e; subst e; simp [int64ListToBytes] at h
  obtain ⟨bs', mt', fv', h1, h2⟩ := int64List_rt_exists a hne
  rw [h] at h1
  simp only [Res.ok.injEq, Prod.mk.injEq] at h1
  obtain ⟨rfl, rfl, rfl⟩ := h1
  exact h2

end Banyan.C11
