/-
C11 helper lemmas: tag value codec (`banyand/internal/encoding/tag_encoder.go`).
-/
import Banyan.Lemmas.C11Total
import Banyan.Lemmas.C11Float
import Banyan.Lemmas.Bytes

namespace Banyan.C11


theorem ofBE_lt (l : List Nat) (hb : ∀ b ∈ l, b < 256) : ofBE l < 256 ^ l.length := by
  induction l with
  | nil => simp [ofBE]
  | cons b bs ih =>
    rw [ofBE_cons, List.length_cons, Nat.pow_succ]
    have h1 := ih (fun x hx => hb x (by simp [hx]))
    have h2 := hb b (by simp)
    have : b * 256 ^ bs.length ≤ 255 * 256 ^ bs.length := Nat.mul_le_mul_right _ (by omega)
    omega

theorem beBytes_ofBE (l : List Nat) (hb : ∀ b ∈ l, b < 256) : beBytes l.length (ofBE l) = l := by
  induction l with
  | nil => rfl
  | cons b bs ih =>
    have h1 := ofBE_lt bs (fun x hx => hb x (by simp [hx]))
    have h2 := hb b (by simp)
    have hp : 0 < 256 ^ bs.length := Nat.pow_pos (by decide)
    rw [List.length_cons, beBytes, ofBE_cons]
    congr 1
    · rw [Nat.mul_comm, Nat.mul_add_div hp, Nat.div_eq_of_lt h1, Nat.add_zero, Nat.mod_eq_of_lt h2]
    · rw [← beBytes_mod, Nat.mul_comm, Nat.mul_add_mod, Nat.mod_eq_of_lt h1]
      exact ih (fun x hx => hb x (by simp [hx]))

theorem pow256_8 : 256 ^ 8 = 2 ^ 64 := by decide

theorem be8_ofNat64 (v : List Nat) (hl : v.length = 8) (hb : ∀ b ∈ v, b < 256) :
    beBytes 8 (BitVec.ofNat 64 (ofBE v)).toNat = v := by
  have := ofBE_lt v hb
  rw [hl, pow256_8] at this
  rw [BitVec.toNat_ofNat, Nat.mod_eq_of_lt this, ← hl, beBytes_ofBE v hb]

theorem int64ToBytes_bytesToInt64 (v : List Nat) (hl : v.length = 8) (hb : ∀ b ∈ v, b < 256) :
    C12.int64ToBytes (C12.bytesToInt64 v) = v := by
  unfold C12.int64ToBytes C12.bytesToInt64
  rw [Bits.int64ToU_uToInt64, List.take_of_length_le (by omega)]
  exact be8_ofNat64 v hl hb

theorem bytesToInt64_int64ToBytes (a : I64) : C12.bytesToInt64 (C12.int64ToBytes a) = a := by
  unfold C12.bytesToInt64 C12.int64ToBytes
  rw [List.take_of_length_le (by rw [beBytes_length]; exact Nat.le_refl 8),
    ofBE_beBytes_of_lt 8 _ (by rw [pow256_8]; exact (C12.int64ToU a).isLt)]
  simp [Bits.uToInt64_int64ToU]

theorem int64ToBytes_length (a : I64) : (C12.int64ToBytes a).length = 8 := by
  simp [C12.int64ToBytes, beBytes_length]

theorem scan8_some (values : List Item) (vs : List (List Byte)) (h : scan8 values = .ok (some vs)) :
    values = vs.map some ∧ ∀ v ∈ vs, v.length = 8 := by
  induction values generalizing vs with
  | nil => simp [scan8] at h; subst h; simp
  | cons it its ih =>
    cases it with
    | none => simp [scan8] at h
    | some v =>
      simp only [scan8] at h
      split at h
      · simp at h
      · split at h
        · simp at h
        · rename_i hlen
          split at h
          · rename_i r hr
            simp only [Res.ok.injEq, Option.some.injEq] at h
            subst h
            obtain ⟨h1, h2⟩ := ih r hr
            refine ⟨by simp [h1], ?_⟩
            intro x hx
            simp only [List.mem_cons] at hx
            rcases hx with rfl | hx
            · simpa using hlen
            · exact h2 x hx
          · simp at h
          · simp at h
          · simp at h

theorem int64ListToBytes_mt (a : List I64) (bs : List Byte) (mt : Nat) (fv : I64)
    (h : int64ListToBytes a = .ok (bs, mt, fv)) : mt = 1 ∨ mt = 2 ∨ mt = 3 ∨ mt = 4 := by
  unfold int64ListToBytes at h
  split at h
  · simp at h
  · split at h
    · simp [mtConst] at h; omega
    · split at h
      split at h
      · split at h
        · simp [mtDeltaConst] at h; omega
        · simp at h
      · split at h
        · split at h
          · simp [mtDeltaOfDelta] at h; omega
          · simp at h
          · simp at h
        · split at h
          · split at h
            · simp [mtDeltaOfDelta] at h; omega
            · simp at h
            · simp at h
          · split at h
            · simp [mtDelta] at h; omega
            · simp at h
            · simp at h

/-- side conditions under which the tag codec is claimed to round-trip: real byte values,
    lengths that fit their length fields. -/
structure TagOK (values : List Item) : Prop where
  bytes : ∀ s, some s ∈ values → ∀ b ∈ s, b < 256
  lens : ∀ it ∈ values, itemLen it < 2 ^ 64
  count : values.length < 2 ^ 31
  total : (values.flatMap itemBytes).length < 2 ^ 64

theorem plain_int64_rt (z : Zstd) (hz : z.Lawful) (values : List Item) (hok : TagOK values) :
    decodeInt64TagValues z (mtPlain :: encodeBytesBlock z values) values.length = .ok values := by
  simp only [decodeInt64TagValues, if_true]
  rw [decodeBytesBlock_rt z hz values (by have := hok.count; omega) hok.lens hok.total]; rfl

theorem plain_float64_rt (z : Zstd) (hz : z.Lawful) (fd : FloatDec) (values : List Item) (hok : TagOK values) :
    decodeFloat64TagValues z fd (mtPlain :: encodeBytesBlock z values) values.length = .ok values := by
  simp only [decodeFloat64TagValues, if_true]
  rw [decodeBytesBlock_rt z hz values (by have := hok.count; omega) hok.lens hok.total]; rfl

theorem plain_default_rt (z : Zstd) (hz : z.Lawful) (values : List Item) (hok : TagOK values) :
    decodeDefaultTagValues z (mtPlain :: encodeBytesBlock z values) values.length = .ok values := by
  have : ¬ mtPlain = mtDictionary := by decide
  simp only [decodeDefaultTagValues, this, if_false]
  rw [decodeBytesBlock_rt z hz values (by have := hok.count; omega) hok.lens hok.total]; rfl

theorem map_some_int64 (vs : List (List Nat)) (h8 : ∀ v ∈ vs, v.length = 8) (hb : ∀ v ∈ vs, ∀ b ∈ v, b < 256) :
    (vs.map C12.bytesToInt64).map (fun v => some (C12.int64ToBytes v)) = vs.map some := by
  induction vs with
  | nil => rfl
  | cons v vs ih =>
    simp only [List.map_cons]
    rw [int64ToBytes_bytesToInt64 v (h8 v (by simp)) (hb v (by simp)),
      ih (fun x hx => h8 x (by simp [hx])) (fun x hx => hb x (by simp [hx]))]

/-- tag values read back from the float64 column: identical, or two 8-byte zeros of either sign
    (the decimal codec does not keep the sign of zero – known finding F1z). -/
def ZeroSignEq : List Item → List Item → Prop
  | [], [] => True
  | y :: ys, x :: xs =>
    (y = x ∨ ∃ a b : BitVec 64, isZero64 a = true ∧ isZero64 b = true ∧
        x = some (beBytes 8 a.toNat) ∧ y = some (beBytes 8 b.toNat)) ∧ ZeroSignEq ys xs
  | _, _ => False

theorem ZeroSignEq.refl (l : List Item) : ZeroSignEq l l := by
  induction l with
  | nil => trivial
  | cons x xs ih => exact ⟨Or.inl rfl, ih⟩

theorem zeroSignEq_of_same (vs : List (List Nat)) (fs : List (BitVec 64))
    (h8 : ∀ v ∈ vs, v.length = 8) (hb : ∀ v ∈ vs, ∀ b ∈ v, b < 256)
    (h : SameFloats fs (vs.map fun v => BitVec.ofNat 64 (ofBE v))) :
    ZeroSignEq (fs.map fun f => some (beBytes 8 f.toNat)) (vs.map some) := by
  induction vs generalizing fs with
  | nil => cases fs <;> simp_all [SameFloats, ZeroSignEq]
  | cons v vs ih =>
    cases fs with
    | nil => simp [SameFloats] at h
    | cons f fs =>
      simp only [List.map_cons, SameFloats] at h
      have hv := be8_ofNat64 v (h8 v (by simp)) (hb v (by simp))
      refine ⟨?_, ih fs (fun x hx => h8 x (by simp [hx])) (fun x hx => hb x (by simp [hx])) h.2⟩
      rcases h.1 with rfl | ⟨hx, hy⟩
      · left; show some (beBytes 8 (BitVec.ofNat 64 (ofBE v)).toNat) = some v; rw [hv]
      · right; exact ⟨_, f, hx, hy, by rw [hv], rfl⟩

theorem tag_int64_rt (z : Zstd) (hz : z.Lawful) (values : List Item) (hok : TagOK values)
    (buf : List Byte) (et : Nat) (h : encodeInt64TagValues z values = .ok (buf, et)) :
    decodeInt64TagValues z buf values.length = .ok values := by
  unfold encodeInt64TagValues at h
  split at h
  · simp only [plainBlock, Res.ok.injEq, Prod.mk.injEq] at h
    rw [← h.1]; exact plain_int64_rt z hz values hok
  · rename_i vs hs
    obtain ⟨hv, h8⟩ := scan8_some values vs hs
    split at h
    · rename_i bs mt first henc
      simp only [Res.ok.injEq, Prod.mk.injEq] at h
      have hmt := int64ListToBytes_mt _ _ _ _ henc
      have hrt := int64ListToBytes_rt _ _ _ _ henc
      rw [← h.1]
      have hnp : ¬ mt = mtPlain := by unfold mtPlain; omega
      have hl9 : ¬ (mt :: (C12.int64ToBytes first ++ bs)).length < 9 := by
        simp [int64ToBytes_length]
      simp only [decodeInt64TagValues, hnp, if_false, hl9]
      have ht : (C12.int64ToBytes first ++ bs).take 8 = C12.int64ToBytes first := by
        rw [List.take_append_of_le_length (by rw [int64ToBytes_length]; exact Nat.le_refl 8),
          List.take_of_length_le (by rw [int64ToBytes_length]; exact Nat.le_refl 8)]
      have hd : (mt :: (C12.int64ToBytes first ++ bs)).drop 9 = bs := by
        have : (C12.int64ToBytes first).length = 8 := int64ToBytes_length first
        simp [List.drop_append, this]
      rw [ht, hd, bytesToInt64_int64ToBytes]
      have hlen : values.length = (vs.map C12.bytesToInt64).length := by rw [hv]; simp
      rw [hlen, hrt]
      simp only [orPanic]
      rw [map_some_int64 vs h8 (fun v hvm b hb => hok.bytes v (by rw [hv]; simp [hvm]) b hb), hv]
    · simp at h
    · simp at h
  · simp at h
  · simp at h

theorem tag_float64_rt (z : Zstd) (hz : z.Lawful) (fd : FloatDec) (values : List Item)
    (hok : TagOK values) (buf : List Byte) (et : Nat)
    (h : encodeFloat64TagValues z fd values = .ok (buf, et)) :
    ∃ ys, decodeFloat64TagValues z fd buf values.length = .ok ys ∧ ZeroSignEq ys values := by
  unfold encodeFloat64TagValues at h
  split at h
  · simp only [plainBlock, Res.ok.injEq, Prod.mk.injEq] at h
    rw [← h.1]; exact ⟨values, plain_float64_rt z hz fd values hok, ZeroSignEq.refl _⟩
  · rename_i vs hs
    obtain ⟨hv, h8⟩ := scan8_some values vs hs
    split at h
    · simp only [plainBlock, Res.ok.injEq, Prod.mk.injEq] at h
      rw [← h.1]; exact ⟨values, plain_float64_rt z hz fd values hok, ZeroSignEq.refl _⟩
    · simp at h
    · rename_i ds exp hfl
      have hsame := float_accept_same fd _ ds exp hfl
      split at h
      · rename_i bs mt first henc
        simp only [Res.ok.injEq, Prod.mk.injEq] at h
        have hmt := int64ListToBytes_mt _ _ _ _ henc
        have hrt := int64ListToBytes_rt _ _ _ _ henc
        rw [← h.1]
        have hnp : ¬ mt = mtPlain := by unfold mtPlain; omega
        have hl2 : (beBytes 2 exp.toNat).length = 2 := beBytes_length 2 _
        have hl8 : (C12.int64ToBytes first).length = 8 := int64ToBytes_length first
        have hl11 : ¬ (mt :: (beBytes 2 exp.toNat ++ C12.int64ToBytes first ++ bs)).length < 11 := by
          simp [hl2, hl8]; omega
        simp only [decodeFloat64TagValues, hnp, if_false, hl11]
        have ht2 : (beBytes 2 exp.toNat ++ C12.int64ToBytes first ++ bs).take 2 = beBytes 2 exp.toNat := by
          rw [List.append_assoc, List.take_append_of_le_length (by omega), List.take_of_length_le (by omega)]
        have ht8 : ((mt :: (beBytes 2 exp.toNat ++ C12.int64ToBytes first ++ bs)).drop 3).take 8
            = C12.int64ToBytes first := by
          simp [List.drop_append, hl2, List.take_append, hl8]
        have hd : (mt :: (beBytes 2 exp.toNat ++ C12.int64ToBytes first ++ bs)).drop 11 = bs := by
          simp [List.drop_append, hl2, hl8]
        have hexp : BitVec.ofNat 16 (ofBE (beBytes 2 exp.toNat)) = exp := by
          rw [ofBE_beBytes_of_lt 2 _ (by have := exp.isLt; omega)]
          simp
        rw [ht2, ht8, hd, hexp, bytesToInt64_int64ToBytes]
        have hdl : ds.length = vs.length := by
          have := hsame.length_eq
          simpa [decimalIntListToFloat64List] using this
        have hlen : values.length = ds.length := by rw [hv, hdl]; simp
        rw [hlen, hrt]
        simp only [orPanic]
        have : ¬ (decimalIntListToFloat64List fd ds exp).length ≠ ds.length := by
          simp [decimalIntListToFloat64List]
        simp only [this, if_false]
        refine ⟨_, rfl, ?_⟩
        rw [hv]
        exact zeroSignEq_of_same vs _ h8 (fun v hvm b hb => hok.bytes v (by rw [hv]; simp [hvm]) b hb) hsame
      · simp at h
      · simp at h
  · simp at h
  · simp at h

theorem tag_default_rt (z : Zstd) (hz : z.Lawful) (values : List Item) (hok : TagOK values) :
    decodeDefaultTagValues z (encodeDefaultTagValues z values).1 values.length = .ok values := by
  unfold encodeDefaultTagValues
  split
  · exact plain_default_rt z hz values hok
  · rename_i d hd
    have hinv := Dict.addAll_inv Dict.empty d [] values Dict.empty_inv hd
    simp only [List.nil_append] at hinv
    simp only [decodeDefaultTagValues, if_true]
    rw [Dict.decode_encode z hz d values hinv hok.count (fun it hit => hok.lens it (hinv.vsub it hit))
      (Nat.lt_of_le_of_lt (sublist_flatMap_length itemBytes hinv.vsl) hok.total)]
    rfl

end Banyan.C11
