/-
C11 helper lemmas: decoders never take the `panic` outcome, and what they return is bounded by
the announced item count / the input size.
-/
import Banyan.Lemmas.C11Dict
import Banyan.Lemmas.C11IntList

namespace Banyan.C11

/-! ### int64 lists -/

theorem bytesToInt64List_ne_panic (src : List Byte) (mt : Nat) (first : I64) (n : Nat)
    (h3 : mt = mtDelta → 1 ≤ n) (h4 : mt = mtDeltaOfDelta → 2 ≤ n) :
    bytesToInt64List src mt first n ≠ .panic := by
  unfold bytesToInt64List
  split
  · rename_i hm
    have := h3 hm
    unfold bytesDeltaToInt64List
    have hp := bytesToVarInt64List_ne_panic (n - 1) src
    have : ¬ n < 1 := by omega
    simp only [this, if_false]
    split
    · split <;> simp
    · simp
    · simp_all
  · split
    · rename_i hm
      have := h4 hm
      unfold bytesDeltaOfDeltaToInt64s
      have hp := bytesToVarInt64List_ne_panic (n - 1) src
      have : ¬ n < 2 := by omega
      simp only [this, if_false]
      split
      · rename_i ds tail hd
        have hl := bytesToVarInt64List_length _ _ _ _ hd
        split
        · simp
        · split
          · simp
          · simp at hl; omega
      · simp
      · simp_all
    · split
      · split <;> simp
      · split
        · have hp := readVarI64_ne_panic src
          split
          · split <;> simp
          · simp
          · simp_all
        · simp

theorem bytesToInt64List_length (src : List Byte) (mt : Nat) (first : I64) (n : Nat) (xs : List I64)
    (h : bytesToInt64List src mt first n = .ok xs) : xs.length = n := by
  unfold bytesToInt64List at h
  split at h
  · unfold bytesDeltaToInt64List at h
    split at h
    · simp at h
    · split at h
      · rename_i ds tail hd
        have hl := bytesToVarInt64List_length _ _ _ _ hd
        split at h
        · simp at h
        · simp only [Res.ok.injEq] at h
          rw [← h]; simp [prefixSums_length, hl]; omega
      · simp at h
      · simp at h
  · split at h
    · unfold bytesDeltaOfDeltaToInt64s at h
      split at h
      · simp at h
      · split at h
        · rename_i ds tail hd
          have hl := bytesToVarInt64List_length _ _ _ _ hd
          split at h
          · simp at h
          · split at h
            · simp only [Res.ok.injEq] at h
              rw [← h]; simp [dodSums_length] at hl ⊢; omega
            · simp at h
        · simp at h
        · simp at h
    · split at h
      · split at h
        · simp at h
        · simp only [Res.ok.injEq] at h
          rw [← h]; simp
      · split at h
        · split at h
          · split at h
            · simp at h
            · simp only [Res.ok.injEq] at h
              rw [← h]; exact arith_length _ _ _
          · simp at h
          · simp at h
        · simp at h

/-! ### uint64 / byte blocks -/

theorem readFixed_length (k m : Nat) (src : List Byte) : (readFixed k m src).length = m := by
  induction m generalizing src with
  | zero => rfl
  | succ m ih => simp [readFixed, ih]

theorem decodeUint64List_ne_panic (src : List Byte) (n : Nat) : decodeUint64List src n ≠ .panic := by
  unfold decodeUint64List
  repeat' split
  all_goals simp

theorem mod_div_le (k n : Nat) (hk : 0 < k) : k * n % W64 / k ≤ n := by
  have h1 : k * n % W64 ≤ k * n := Nat.mod_le _ _
  calc k * n % W64 / k ≤ k * n / k := Nat.div_le_div_right h1
    _ = n := Nat.mul_div_cancel_left n hk

theorem decodeUint64List_length (src : List Byte) (n : Nat) (vs : List Nat)
    (h : decodeUint64List src n = .ok vs) : vs.length ≤ n := by
  unfold decodeUint64List at h
  split at h
  · simp at h
  · split at h
    · split at h
      · simp at h
      · rename_i hb; simp only [Res.ok.injEq] at h; rw [← h]; simp at hb; omega
    · split at h
      · split at h
        · simp at h
        · rename_i hb; simp only [Res.ok.injEq] at h; rw [← h, readFixed_length]
          simp only [ne_eq, Decidable.not_not] at hb
          rw [hb]; exact mod_div_le 2 n (by decide)
      · split at h
        · split at h
          · simp at h
          · rename_i hb; simp only [Res.ok.injEq] at h; rw [← h, readFixed_length]
            simp only [ne_eq, Decidable.not_not] at hb
            rw [hb]; exact mod_div_le 4 n (by decide)
        · split at h
          · split at h
            · simp at h
            · rename_i hb; simp only [Res.ok.injEq] at h; rw [← h, readFixed_length]
              simp only [ne_eq, Decidable.not_not] at hb
              rw [hb]; exact mod_div_le 8 n (by decide)
          · simp at h

theorem decodeUint64Block_ne_panic (z : Zstd) (src : List Byte) (n : Nat) : decodeUint64Block z src n ≠ .panic := by
  unfold decodeUint64Block
  have h1 := decompressBlock_ne_panic z src
  split
  · rename_i buf tail _
    have h2 := decodeUint64List_ne_panic buf n
    split <;> simp_all
  · simp
  · simp_all

theorem decodeUint64Block_length (z : Zstd) (src : List Byte) (n : Nat) (vs : List Nat) (t : List Byte)
    (h : decodeUint64Block z src n = .ok (vs, t)) : vs.length ≤ n := by
  unfold decodeUint64Block at h
  split at h
  · split at h
    · rename_i vs' hv
      simp only [Res.ok.injEq, Prod.mk.injEq] at h
      rw [← h.1]; exact decodeUint64List_length _ _ _ hv
    · simp at h
    · simp at h
  · simp at h
  · simp at h

theorem sliceItems_ne_panic (lens : List Nat) (data : List Byte) : sliceItems lens data ≠ .panic := by
  induction lens generalizing data with
  | nil => simp [sliceItems]
  | cons l ls ih =>
    cases l with
    | zero =>
      simp only [sliceItems]
      have := ih data
      split <;> simp_all
    | succ l =>
      simp only [sliceItems]
      split
      · simp
      · have := ih (data.drop l)
        split <;> simp_all

theorem sliceItems_length (lens : List Nat) (data : List Byte) (its : List Item)
    (h : sliceItems lens data = .ok its) : its.length = lens.length := by
  induction lens generalizing data its with
  | nil => simp [sliceItems] at h; simp [h]
  | cons l ls ih =>
    cases l with
    | zero =>
      simp only [sliceItems] at h
      split at h
      · rename_i r hr
        simp only [Res.ok.injEq] at h
        rw [← h]; simp [ih _ _ hr]
      · simp at h
      · simp at h
    | succ l =>
      simp only [sliceItems] at h
      split at h
      · simp at h
      · split at h
        · rename_i r hr
          simp only [Res.ok.injEq] at h
          rw [← h]; simp [ih _ _ hr]
        · simp at h
        · simp at h

theorem decodeBytesBlock_ne_panic (z : Zstd) (src : List Byte) (n : Nat) : decodeBytesBlock z src n ≠ .panic := by
  unfold decodeBytesBlock
  have h1 := decodeUint64Block_ne_panic z src n
  split
  · rename_i lens tail _
    have h2 := decompressBlock_ne_panic z tail
    split
    · rename_i data tail' _
      split
      · simp
      · exact sliceItems_ne_panic _ _
    · simp
    · simp_all
  · simp
  · simp_all

theorem decodeBytesBlock_length (z : Zstd) (src : List Byte) (n : Nat) (its : List Item)
    (h : decodeBytesBlock z src n = .ok its) : its.length ≤ n := by
  unfold decodeBytesBlock at h
  split at h
  · rename_i lens tail hl
    have := decodeUint64Block_length _ _ _ _ _ hl
    split at h
    · split at h
      · simp at h
      · rw [sliceItems_length _ _ _ h]; exact this
    · simp at h
    · simp at h
  · simp at h
  · simp at h

theorem decodeBytesBlockWithTail_ne_panic (z : Zstd) (src : List Byte) (n : Nat) :
    decodeBytesBlockWithTail z src n ≠ .panic := by
  unfold decodeBytesBlockWithTail
  have h1 := decodeUint64Block_ne_panic z src n
  split
  · rename_i lens tail _
    have h2 := decompressBlock_ne_panic z tail
    split
    · rename_i data tail' _
      have h3 := sliceItems_ne_panic lens data
      split <;> simp_all
    · simp
    · simp_all
  · simp
  · simp_all

theorem decodeBytesBlockWithTail_length (z : Zstd) (src : List Byte) (n : Nat) (its : List Item) (t : List Byte)
    (h : decodeBytesBlockWithTail z src n = .ok (its, t)) : its.length ≤ n := by
  unfold decodeBytesBlockWithTail at h
  split at h
  · rename_i lens tail hl
    have := decodeUint64Block_length _ _ _ _ _ hl
    split at h
    · split at h
      · rename_i its' hs
        simp only [Res.ok.injEq, Prod.mk.injEq] at h
        rw [← h.1, sliceItems_length _ _ _ hs]; exact this
      · simp at h
      · simp at h
    · simp at h
    · simp at h
  · simp at h
  · simp at h

theorem decodeBytes_ne_panic (src : List Byte) : decodeBytes src ≠ .panic := by
  unfold decodeBytes
  split
  split <;> simp

/-! ### bit packing, RLE, dictionary -/

theorem readBits_ne_panic (n : Nat) (bits : List Bool) : readBits n bits ≠ .panic := by
  unfold readBits
  simp only
  split <;> simp

theorem readValues_ne_panic (w m : Nat) (bits : List Bool) : readValues w m bits ≠ .panic := by
  induction m generalizing bits with
  | zero => simp [readValues]
  | succ m ih =>
    simp only [readValues]
    have h1 := readBits_ne_panic w bits
    split
    · rename_i v rest _
      have := ih rest
      split <;> simp_all
    · simp
    · simp_all

theorem readValues_length (w m : Nat) (bits : List Bool) (vs : List Nat)
    (h : readValues w m bits = .ok vs) : vs.length = m := by
  induction m generalizing bits vs with
  | zero => simp [readValues] at h; simp [h]
  | succ m ih =>
    simp only [readValues] at h
    split at h
    · split at h
      · rename_i vs' hv
        simp only [Res.ok.injEq] at h
        rw [← h]; simp [ih _ _ hv]
      · simp at h
      · simp at h
    · simp at h
    · simp at h

theorem decodeBitPacking_ne_panic (src : List Byte) : decodeBitPacking src ≠ .panic := by
  unfold decodeBitPacking
  have h1 := readBits_ne_panic 32 (unpackBits src)
  split
  · rename_i length r1 _
    split
    · simp
    · have h2 := readBits_ne_panic 8 r1
      split
      · split
        · simp
        · split
          · simp
          · exact readValues_ne_panic _ _ _
      · simp
      · simp_all
  · simp
  · simp_all

theorem unpackBits_length (src : List Byte) : (unpackBits src).length = 8 * src.length := by
  induction src with
  | nil => rfl
  | cons b bs ih =>
    simp only [unpackBits, List.flatMap_cons, List.length_append, bitsOf_length, List.length_cons] at ih ⊢
    omega

theorem readBits_rest_length (n : Nat) (bits : List Bool) (v : Nat) (rest : List Bool)
    (h : readBits n bits = .ok (v, rest)) : rest.length ≤ bits.length := by
  unfold readBits at h
  simp only at h
  split at h
  · simp at h
  · simp only [Res.ok.injEq, Prod.mk.injEq] at h
    rw [← h.2]; simp

/-- repaired bit-packing decoder: the number of values is bounded by the input size. -/
theorem decodeBitPacking_length (src : List Byte) (vs : List Nat) (h : decodeBitPacking src = .ok vs) :
    vs.length ≤ 8 * src.length := by
  unfold decodeBitPacking at h
  split at h
  · rename_i length r1 h1
    have l1 := readBits_rest_length _ _ _ _ h1
    split at h
    · simp only [Res.ok.injEq] at h; rw [← h]; simp
    · split at h
      · rename_i width r2 h2
        have l2 := readBits_rest_length _ _ _ _ h2
        split at h
        · simp at h
        · split at h
          · simp at h
          · rename_i hw hl
            rw [readValues_length _ _ _ _ h]
            have : r2.length / width ≤ r2.length := Nat.div_le_self _ _
            rw [unpackBits_length] at l1
            omega
      · simp at h
      · simp at h
  · simp at h
  · simp at h

theorem rleExpand_length (src : List Nat) (t : Nat) (h : rleTotal src = some t) : (rleExpand src).length = t := by
  induction src using rleTotal.induct generalizing t with
  | case1 => simp [rleTotal] at h; simp [rleExpand, h]
  | case2 x => simp [rleTotal] at h
  | case3 v c rest ih =>
    simp only [rleTotal, Option.map_eq_some_iff] at h
    obtain ⟨t', ht, rfl⟩ := h
    simp [rleExpand, ih t' ht]

theorem decodeRLE_ne_panic (src : List Nat) (n : Nat) : decodeRLE src n ≠ .panic := by
  unfold decodeRLE
  repeat' split
  all_goals simp

/-- repaired RLE decoder: exactly `itemsCount` values, or nothing for an empty list. -/
theorem decodeRLE_length (src : List Nat) (n : Nat) (idx : List Nat) (h : decodeRLE src n = .ok idx) :
    idx.length = n ∨ idx = [] := by
  unfold decodeRLE at h
  split at h
  · simp only [Res.ok.injEq] at h; exact Or.inr h.symm
  · split at h
    · simp at h
    · rename_i t ht
      split at h
      · simp at h
      · rename_i hn
        simp only [Res.ok.injEq] at h
        left
        rw [← h, rleExpand_length _ _ ht]
        simpa using hn

theorem lookupAll_ne_panic (values : List Item) (idx : List Nat) : lookupAll values idx ≠ .panic := by
  induction idx with
  | nil => simp [lookupAll]
  | cons i is ih =>
    simp only [lookupAll]
    split
    · simp
    · split <;> simp_all

theorem lookupAll_length (values : List Item) (idx : List Nat) (its : List Item)
    (h : lookupAll values idx = .ok its) : its.length = idx.length := by
  induction idx generalizing its with
  | nil => simp [lookupAll] at h; simp [h]
  | cons i is ih =>
    simp only [lookupAll] at h
    split at h
    · simp at h
    · split at h
      · rename_i r hr
        simp only [Res.ok.injEq] at h
        rw [← h]; simp [ih _ hr]
      · simp at h
      · simp at h

theorem Dict.decode_ne_panic (z : Zstd) (src : List Byte) (n : Nat) : Dict.decode z src n ≠ .panic := by
  unfold Dict.decode
  split
  rename_i count src1 _
  split
  · simp
  · have h1 := decodeBytesBlockWithTail_ne_panic z src1 count
    split
    · rename_i values tail _
      have h2 := decodeBitPacking_ne_panic tail
      split
      · rename_i rl _
        have h3 := decodeRLE_ne_panic rl n
        split
        · split
          · simp
          · exact lookupAll_ne_panic _ _
        · simp
        · simp_all
      · simp
      · simp_all
    · simp
    · simp_all

theorem Dict.decode_length (z : Zstd) (src : List Byte) (n : Nat) (its : List Item)
    (h : Dict.decode z src n = .ok its) : its.length = n ∨ its = [] := by
  unfold Dict.decode at h
  split at h
  split at h
  · simp only [Res.ok.injEq] at h; exact Or.inr h.symm
  · split at h
    · split at h
      · split at h
        · rename_i idx hidx
          split at h
          · simp at h
          · rename_i hn
            left
            rw [lookupAll_length _ _ _ h]
            simpa using hn
        · simp at h
        · simp at h
      · simp at h
      · simp at h
    · simp at h
    · simp at h

theorem decodeDictionaryValues_ne_panic (z : Zstd) (src : List Byte) : decodeDictionaryValues z src ≠ .panic := by
  unfold decodeDictionaryValues
  split
  · simp
  · split
    rename_i count src1 _
    split
    · simp
    · have h1 := decodeUint64Block_ne_panic z src1 count
      split
      · rename_i lens tail _
        have h2 := decompressBlock_ne_panic z tail
        split
        · exact sliceItems_ne_panic _ _
        · simp
        · simp_all
      · simp
      · simp_all

end Banyan.C11
