/-
C11 helper lemmas: escaped variable-length arrays (`pkg/encoding/vararray`).
-/
import Banyan.Model.C11

namespace Banyan.C11

theorem delim_ne_esc : ¬ delim = esc := by decide

theorem unescapeLoop_cons (b : Byte) (rest acc : List Byte) (used : Nat) :
    unescapeLoop (b :: rest) acc used =
      if b = esc then
        match rest with
        | [] => .err
        | c :: rest' => unescapeLoop rest' (acc ++ [c]) (used + 2)
      else if b = delim then .ok (acc, used + 1)
      else unescapeLoop rest (acc ++ [b]) (used + 1) := by
  rw [unescapeLoop.eq_def]
  rfl

/-- both paths of `MarshalVarArray` produce `escapeBody src ++ [delim]`. -/
theorem escapeBody_of_plain (s : List Byte) (h : ¬ s.contains delim ∧ ¬ s.contains esc) : escapeBody s = s := by
  induction s with
  | nil => rfl
  | cons b bs ih =>
    simp only [List.contains_cons, Bool.or_eq_true, beq_iff_eq, not_or] at h
    have hb : ¬ (b = delim ∨ b = esc) := by
      intro hc; rcases hc with rfl | rfl
      · exact h.1.1 rfl
      · exact h.2.1 rfl
    simp only [escapeBody, hb, if_false]
    rw [ih ⟨h.1.2, h.2.2⟩]

theorem marshalVarArray_eq (s : List Byte) : marshalVarArray s = escapeBody s ++ [delim] := by
  unfold marshalVarArray
  split
  · rename_i h; rw [escapeBody_of_plain s h]
  · rfl

theorem unescapeLoop_escapeBody (s rest acc : List Byte) (used : Nat) :
    unescapeLoop (escapeBody s ++ delim :: rest) acc used = .ok (acc ++ s, used + (escapeBody s).length + 1) := by
  induction s generalizing acc used with
  | nil => simp [escapeBody, unescapeLoop_cons, delim_ne_esc]
  | cons b bs ih =>
    simp only [escapeBody]
    by_cases h : b = delim ∨ b = esc
    · simp only [h, if_true, List.cons_append, unescapeLoop_cons, ih]
      simp; omega
    · have h1 : ¬ b = esc := fun e => h (Or.inr e)
      have h2 : ¬ b = delim := fun e => h (Or.inl e)
      rw [if_neg h]
      simp only [if_false, List.cons_append, unescapeLoop_cons, h1, h2, ih]
      simp; omega

/-- the fast path of `UnmarshalVarArray` returns what the decode loop would return. -/
theorem unescapeLoop_fast (s acc : List Byte) (used : Nat)
    (h1 : (s.takeWhile (· ≠ delim)).length < s.length) (h2 : ¬ (s.takeWhile (· ≠ delim)).contains esc) :
    unescapeLoop s acc used = .ok (acc ++ s.takeWhile (· ≠ delim), used + (s.takeWhile (· ≠ delim)).length + 1) := by
  induction s generalizing acc used with
  | nil => simp at h1
  | cons b bs ih =>
    by_cases hd : b = delim
    · subst hd
      simp [unescapeLoop_cons, delim_ne_esc]
    · have htw : (b :: bs).takeWhile (· ≠ delim) = b :: bs.takeWhile (· ≠ delim) := by
        simp [List.takeWhile_cons, hd]
      rw [htw] at h1 h2 ⊢
      simp only [List.contains_cons, Bool.or_eq_true, beq_iff_eq, not_or] at h2
      have he : ¬ b = esc := fun e => h2.1 e.symm
      simp only [unescapeLoop_cons, he, hd, if_false]
      rw [ih (acc ++ [b]) (used + 1) (by simpa using h1) (by simpa using h2.2)]
      simp; omega

/-- `UnmarshalVarArray` in terms of the decode loop alone. -/
theorem unmarshalVarArray_eq_loop (src : List Byte) (idx : Nat) (h : src.drop idx ≠ []) :
    unmarshalVarArray src idx =
      match unescapeLoop (src.drop idx) [] 0 with
      | .ok (v, used) => .ok (v, idx + used)
      | .err => .err
      | .panic => .panic := by
  unfold unmarshalVarArray
  simp only
  cases hs : src.drop idx with
  | nil => exact absurd hs h
  | cons b rest =>
    simp only
    by_cases hd : b = delim
    · subst hd; simp [unescapeLoop_cons, delim_ne_esc]
    · simp only [hd, if_false]
      split
      · rename_i hc
        rw [unescapeLoop_fast (b :: rest) [] 0 hc.1 hc.2]
        simp; omega
      · rfl

theorem unmarshalVarArray_rt (pre s rest : List Byte) :
    unmarshalVarArray (pre ++ marshalVarArray s ++ rest) pre.length =
      .ok (s, pre.length + (marshalVarArray s).length) := by
  have hd : (pre ++ marshalVarArray s ++ rest).drop pre.length = escapeBody s ++ delim :: rest := by
    rw [List.append_assoc, List.drop_left, marshalVarArray_eq]; simp
  rw [unmarshalVarArray_eq_loop _ _ (by rw [hd]; simp), hd, unescapeLoop_escapeBody]
  simp [marshalVarArray_eq]

theorem unescapeLoop_ne_panic (n : Nat) : ∀ (s acc : List Byte) (used : Nat), s.length ≤ n →
    unescapeLoop s acc used ≠ .panic := by
  induction n with
  | zero =>
    intro s acc used h
    have : s = [] := List.eq_nil_of_length_eq_zero (by omega)
    subst this; simp [unescapeLoop]
  | succ n ih =>
    intro s acc used h
    cases s with
    | nil => simp [unescapeLoop]
    | cons b rest =>
      rw [unescapeLoop_cons]
      simp only [List.length_cons] at h
      split
      · cases rest with
        | nil => simp
        | cons c rest' => exact ih rest' _ _ (by simp at h; omega)
      · split
        · simp
        · exact ih rest _ _ (by omega)

theorem unmarshalVarArray_ne_panic (src : List Byte) (idx : Nat) : unmarshalVarArray src idx ≠ .panic := by
  by_cases h : src.drop idx = []
  · unfold unmarshalVarArray; simp [h]
  · rw [unmarshalVarArray_eq_loop src idx h]
    have := unescapeLoop_ne_panic _ (src.drop idx) [] 0 (Nat.le_refl _)
    split <;> simp_all

end Banyan.C11
