/-
C11 helper lemmas: variable-length integers (`pkg/encoding/int.go`).
-/
import Banyan.Model.C11
import Banyan.Lemmas.Bits
import Banyan.Lemmas.BitsC11

namespace Banyan.C11


theorem varU_small (u : Nat) (h : u ≤ 127) : varU u = [u] := by
  rw [varU]; simp; omega

theorem varU_big (u : Nat) (h : 127 < u) : varU u = (128 + u % 128) :: varU (u / 128) := by
  rw [varU]; simp [h]

theorem or_shift (acc c s : Nat) (h : acc < 2 ^ s) : acc ||| (c <<< s) = acc + c * 2 ^ s := by
  rw [Nat.or_comm, ← Nat.shiftLeft_add_eq_or_of_lt h, Nat.shiftLeft_eq, Nat.add_comm]

theorem varLoop_varU (r : Nat) : ∀ (k acc : Nat) (rest : List Byte), 1 ≤ k → k ≤ 9 → acc < 2 ^ (7 * k) →
    r * 2 ^ (7 * k) < 2 ^ 64 →
    varLoop (varU r ++ rest) k (7 * (k - 1)) acc = .ok (acc + r * 2 ^ (7 * k), rest) := by
  induction r using Nat.strongRecOn with
  | _ r ih =>
    intro k acc rest hk1 hk9 hacc hr
    have hs : 7 * (k - 1) + 7 = 7 * k := by omega
    by_cases h : 127 < r
    · rw [varU_big r h]
      simp only [List.cons_append, varLoop, hs]
      have hk : ¬ k > 9 := by omega
      simp only [hk, if_false]
      have hc : (128 + r % 128) % 128 = r % 128 := by omega
      have hge : 128 + r % 128 ≥ 128 := by omega
      simp only [hc, hge, if_true]
      have hlt : r % 128 * 2 ^ (7 * k) < W64 := by
        unfold W64
        calc r % 128 * 2 ^ (7 * k) ≤ r * 2 ^ (7 * k) := Nat.mul_le_mul_right _ (Nat.mod_le _ _)
          _ < 2 ^ 64 := hr
      rw [Nat.shiftLeft_eq, Nat.mod_eq_of_lt hlt]
      have := or_shift acc (r % 128) (7 * k) hacc
      rw [Nat.shiftLeft_eq] at this
      rw [this]
      have h7 : 7 * (k + 1) = 7 * k + 7 := by omega
      have hpow : 2 ^ (7 * (k + 1)) = 2 ^ (7 * k) * 128 := by rw [h7, Nat.pow_add]
      have hk8 : k ≤ 8 := by
        -- r ≥ 128 and r * 2^(7k) < 2^64
        apply Classical.byContradiction
        intro hc9
        have : k = 9 := by omega
        subst this
        have : 128 * 2 ^ (7 * 9) ≤ r * 2 ^ (7 * 9) := Nat.mul_le_mul_right _ (by omega)
        have e : 128 * 2 ^ (7 * 9) = 2 ^ 64 * 64 := by decide
        omega
      have := ih (r / 128) (Nat.div_lt_self (by omega) (by decide)) (k + 1) (acc + r % 128 * 2 ^ (7 * k)) rest (by omega) (by omega)
        (by rw [hpow]
            have : r % 128 < 128 := Nat.mod_lt _ (by decide)
            calc acc + r % 128 * 2 ^ (7 * k) < 2 ^ (7 * k) + r % 128 * 2 ^ (7 * k) := by omega
              _ = (1 + r % 128) * 2 ^ (7 * k) := by rw [Nat.add_mul, Nat.one_mul]
              _ ≤ 128 * 2 ^ (7 * k) := Nat.mul_le_mul_right _ (by omega)
              _ = 2 ^ (7 * k) * 128 := Nat.mul_comm _ _)
        (by rw [hpow]
            calc r / 128 * (2 ^ (7 * k) * 128) = (r / 128 * 128) * 2 ^ (7 * k) := by
                  rw [Nat.mul_comm (2 ^ (7 * k)) 128, Nat.mul_assoc]
              _ ≤ r * 2 ^ (7 * k) := Nat.mul_le_mul_right _ (Nat.div_mul_le_self r 128)
              _ < 2 ^ 64 := hr)
      have e1 : k + 1 - 1 = k := by omega
      rw [e1] at this
      rw [this, hpow]
      congr 1
      congr 1
      have := Nat.div_add_mod r 128
      calc acc + r % 128 * 2 ^ (7 * k) + r / 128 * (2 ^ (7 * k) * 128)
          = acc + (r % 128 + 128 * (r / 128)) * 2 ^ (7 * k) := by
            rw [Nat.add_mul, Nat.mul_comm (2 ^ (7 * k)) 128, ← Nat.mul_assoc, Nat.mul_comm (r / 128) 128, Nat.add_assoc]
        _ = acc + r * 2 ^ (7 * k) := by rw [Nat.add_comm (r % 128), this]
    · rw [varU_small r (by omega)]
      simp only [List.cons_append, List.nil_append, varLoop, hs]
      have hk : ¬ k > 9 := by omega
      simp only [hk, if_false]
      have hc : r % 128 = r := Nat.mod_eq_of_lt (by omega)
      have hge : ¬ r ≥ 128 := by omega
      simp only [hc, hge, if_false]
      have hlt : r * 2 ^ (7 * k) < W64 := hr
      rw [Nat.shiftLeft_eq, Nat.mod_eq_of_lt hlt]
      have := or_shift acc r (7 * k) hacc
      rw [Nat.shiftLeft_eq] at this
      rw [this]

/-! ### unsigned -/

theorem readVarU64_elem (u : Nat) (rest : List Byte) (hu : u < 2 ^ 64) :
    readVarU64 (varUint64sElem u ++ rest) = .ok (u, rest) := by
  unfold varUint64sElem
  by_cases h : u < 128
  · simp [h, readVarU64]
  · simp only [h, if_false]
    rw [varU_big u (by omega)]
    simp only [List.cons_append, readVarU64]
    have h1 : ¬ 128 + u % 128 < 128 := by omega
    have h2 : (128 + u % 128) % 128 = u % 128 := by omega
    simp only [h1, if_false, h2]
    have := varLoop_varU (u / 128) 1 (u % 128) rest (by omega) (by omega)
      (by have : u % 128 < 128 := Nat.mod_lt _ (by decide); simpa using this)
      (by have := Nat.div_mul_le_self u 128; simp; omega)
    simp only [Nat.mul_one, Nat.sub_self, Nat.mul_zero] at this
    rw [this]
    have := Nat.div_add_mod u 128
    simp; omega

theorem varU_eq_elem (u : Nat) : varU u = varUint64sElem u := by
  unfold varUint64sElem
  by_cases h : u < 128
  · simp [h, varU_small u (by omega)]
  · simp [h]

theorem readVarU64_varU (u : Nat) (rest : List Byte) (hu : u < 2 ^ 64) :
    readVarU64 (varU u ++ rest) = .ok (u, rest) := by
  rw [varU_eq_elem]; exact readVarU64_elem u rest hu

theorem bytesToVarUint64s_rt (us : List Nat) (rest : List Byte) (h : ∀ u ∈ us, u < 2 ^ 64) :
    bytesToVarUint64s us.length (varUint64sToBytes us ++ rest) = .ok (us, rest) := by
  induction us with
  | nil => simp [varUint64sToBytes, bytesToVarUint64s]
  | cons u us ih =>
    simp only [varUint64sToBytes, List.flatMap_cons, List.length_cons, bytesToVarUint64s, List.append_assoc]
    rw [readVarU64_elem u _ (h u (by simp))]
    have := ih (fun x hx => h x (by simp [hx]))
    simp only [varUint64sToBytes] at this
    simp [this]

/-! ### signed -/

theorem readVarI64_rt (v : I64) (rest : List Byte) :
    readVarI64 (varInt64ToBytes v ++ rest) = .ok (v, rest) := by
  unfold varInt64ToBytes
  by_cases h : (v.slt 0x40#64 && (BitVec.ofInt 64 (-0x40)).slt v) = true
  · simp only [h, if_true, List.cons_append, List.nil_append, readVarI64]
    simp only [Bool.and_eq_true] at h
    have hlt := Bits.zz8_lt v h.1 h.2
    have hlt' : (zz8 (BitVec.setWidth 8 v)).toNat < 128 := by
      simpa [BitVec.ult] using hlt
    simp only [hlt', if_true, BitVec.ofNat_toNat, BitVec.setWidth_eq]
    rw [Bits.unzz8_zz8 v h.1 h.2]
  · simp only [h]
    simp only [Bool.false_eq_true, if_false]
    generalize hu : (C12.zigzag v).toNat = u
    have hu64 : u < 2 ^ 64 := by rw [← hu]; exact (C12.zigzag v).isLt
    have hz : C12.unzigzag (BitVec.ofNat 64 u) = v := by
      rw [← hu, BitVec.ofNat_toNat, BitVec.setWidth_eq, Bits.unzigzag_zigzag]
    by_cases hs : u < 128
    · rw [varU_small u (by omega)]
      simp only [List.cons_append, List.nil_append, readVarI64, hs, if_true]
      have hx : (BitVec.ofNat 64 u).ult 0x80#64 = true := by
        simp [BitVec.ult, Nat.mod_eq_of_lt hu64, hs]
      have := Bits.unzz8_eq_unzigzag (BitVec.ofNat 64 u) hx
      rw [hz] at this
      rw [← this]
      congr 3
      apply BitVec.eq_of_toNat_eq
      simp
    · rw [varU_big u (by omega)]
      simp only [List.cons_append, readVarI64]
      have h1 : ¬ 128 + u % 128 < 128 := by omega
      have h2 : (128 + u % 128) % 128 = u % 128 := by omega
      simp only [h1, if_false, h2]
      have := varLoop_varU (u / 128) 1 (u % 128) rest (by omega) (by omega)
        (by have : u % 128 < 128 := Nat.mod_lt _ (by decide); simpa using this)
        (by have := Nat.div_mul_le_self u 128; simp; omega)
      simp only [Nat.mul_one, Nat.sub_self, Nat.mul_zero] at this
      rw [this]
      have e : u % 128 + u / 128 * 2 ^ 7 = u := by
        have := Nat.div_add_mod u 128
        simp; omega
      simp only [e, hz]

theorem bytesToVarInt64List_rt (vs : List I64) (rest : List Byte) :
    bytesToVarInt64List vs.length (varInt64ListToBytes vs ++ rest) = .ok (vs, rest) := by
  induction vs with
  | nil => simp [varInt64ListToBytes, bytesToVarInt64List]
  | cons v vs ih =>
    simp only [varInt64ListToBytes, List.flatMap_cons, List.length_cons, bytesToVarInt64List, List.append_assoc]
    rw [readVarI64_rt]
    simp only [varInt64ListToBytes] at ih
    simp [ih]

/-! ### totality -/

theorem varLoop_ne_panic (src : List Byte) (k s u : Nat) : varLoop src k s u ≠ .panic := by
  induction src generalizing k s u with
  | nil => simp [varLoop]
  | cons c rest ih =>
    simp only [varLoop]
    split
    · simp
    · split
      · exact ih _ _ _
      · simp

theorem readVarI64_ne_panic (src : List Byte) : readVarI64 src ≠ .panic := by
  cases src with
  | nil => simp [readVarI64]
  | cons c rest =>
    simp only [readVarI64]
    split
    · simp
    · have := varLoop_ne_panic rest 1 0 (c % 128)
      split <;> simp_all

theorem readVarU64_ne_panic (src : List Byte) : readVarU64 src ≠ .panic := by
  cases src with
  | nil => simp [readVarU64]
  | cons c rest =>
    simp only [readVarU64]
    split
    · simp
    · exact varLoop_ne_panic _ _ _ _

theorem bytesToVarInt64List_ne_panic (n : Nat) (src : List Byte) : bytesToVarInt64List n src ≠ .panic := by
  induction n generalizing src with
  | zero => simp [bytesToVarInt64List]
  | succ n ih =>
    simp only [bytesToVarInt64List]
    have h1 := readVarI64_ne_panic src
    split
    · rename_i v r _
      have h2 := ih r
      split <;> simp_all
    · simp
    · simp_all

theorem bytesToVarInt64List_length (n : Nat) (src : List Byte) (vs : List I64) (t : List Byte)
    (h : bytesToVarInt64List n src = .ok (vs, t)) : vs.length = n := by
  induction n generalizing src vs t with
  | zero => simp [bytesToVarInt64List] at h; simp [h.1]
  | succ n ih =>
    simp only [bytesToVarInt64List] at h
    split at h
    · rename_i v r _
      split at h
      · rename_i vs' t' h2
        have := ih r vs' t' h2
        simp only [Res.ok.injEq, Prod.mk.injEq] at h
        rw [← h.1]; simp [this]
      · simp at h
      · simp at h
    · simp at h
    · simp at h

theorem bytesToVarUint64s_ne_panic (n : Nat) (src : List Byte) : bytesToVarUint64s n src ≠ .panic := by
  induction n generalizing src with
  | zero => simp [bytesToVarUint64s]
  | succ n ih =>
    simp only [bytesToVarUint64s]
    have h1 := readVarU64_ne_panic src
    split
    · rename_i v r _
      have h2 := ih r
      split <;> simp_all
    · simp
    · simp_all

theorem bytesToVarUint64s_length (n : Nat) (src : List Byte) (vs : List Nat) (t : List Byte)
    (h : bytesToVarUint64s n src = .ok (vs, t)) : vs.length = n := by
  induction n generalizing src vs t with
  | zero => simp [bytesToVarUint64s] at h; simp [h.1]
  | succ n ih =>
    simp only [bytesToVarUint64s] at h
    split at h
    · rename_i v r _
      split at h
      · rename_i vs' t' h2
        have := ih r vs' t' h2
        simp only [Res.ok.injEq, Prod.mk.injEq] at h
        rw [← h.1]; simp [this]
      · simp at h
      · simp at h
    · simp at h
    · simp at h

end Banyan.C11
