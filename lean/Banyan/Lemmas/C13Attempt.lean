/-
C13 helper lemmas: one filtered merge attempt (Decide calls, ceiling, guard) - which trace ids
can end up in the drop set and what happens to the table meanwhile.
-/
import Banyan.Lemmas.C13Table
import Banyan.Lemmas.C13Guard
namespace Banyan.C13

theorem resolve_drops_mono (cfg : GConfig) (cat : GCatalog) (st : GState) (tr : GTrace) (act : SamplerAction)
    (ca : Option Nat) : ∀ c ∈ st.drops, c ∈ (resolve cfg cat st tr act ca).2.drops := by
  intro c hc
  unfold resolve
  cases act <;> simp only
  all_goals (repeat' split)
  all_goals (first | exact hc | skip)
  · rename_i hrec
    rw [(recordDrop_some hrec).1]; exact List.mem_append_left _ hc
  · rename_i hrec
    rw [(recordDrop_some hrec).1]; exact List.mem_append_left _ hc

/-- why a trace id may sit in the drop set of a merge attempt. -/
structure DropJustified (cfg : GConfig) (cat : GCatalog) (sel : List Part) (finalDrops : List ConfirmedDrop)
    (tid : String) : Prop where
  resolved : ∃ gst0 d gst1, resolve cfg cat gst0 (gtraceOf sel tid) .drop none = (d, gst1) ∧ d.action = .drop ∧
    gst0.closed = false
  recorded : ∃ tmin tmax, traceBounds (gtraceOf sel tid).blocks = some (tmin, tmax) ∧
    ({ id := tid, min := tmin, max := tmax, known := true } : ConfirmedDrop) ∈ finalDrops

theorem resolveDrops_spec (cfg : GConfig) (cat : GCatalog) (sel : List Part) :
    ∀ (proposed : List String) (gst : GState) (tr : Tracker) (dropped : List String)
      (dropped' : List String) (gst' : GState) (tr' : Tracker),
      resolveDrops cfg cat sel proposed gst tr dropped = (dropped', gst', tr') →
      (∀ c ∈ gst.drops, c ∈ gst'.drops) ∧
      (∀ tid ∈ dropped', tid ∈ dropped ∨
        (tid ∈ proposed ∧ ∃ gst0 d gst1, resolve cfg cat gst0 (gtraceOf sel tid) .drop none = (d, gst1) ∧
          d.action = .drop ∧ ∃ tmin tmax, traceBounds (gtraceOf sel tid).blocks = some (tmin, tmax) ∧
            ({ id := tid, min := tmin, max := tmax, known := true } : ConfirmedDrop) ∈ gst'.drops)) := by
  intro proposed
  induction proposed with
  | nil =>
    intro gst tr dropped dropped' gst' tr' h
    simp only [resolveDrops, Prod.mk.injEq] at h
    obtain ⟨rfl, rfl, rfl⟩ := h
    exact ⟨fun c hc => hc, fun tid ht => Or.inl ht⟩
  | cons x xs ih =>
    intro gst tr dropped dropped' gst' tr' h
    unfold resolveDrops at h
    split at h
    rename_i ok tr1 hacc
    split at h
    · -- ceiling refused
      obtain ⟨hm, hd⟩ := ih _ _ _ _ _ _ h
      exact ⟨hm, fun tid ht => (hd tid ht).imp id fun ⟨hp, hr⟩ => ⟨List.mem_cons_of_mem _ hp, hr⟩⟩
    · split at h
      rename_i d g1 hres
      have hmono : ∀ c ∈ gst.drops, c ∈ g1.drops := by
        have := resolve_drops_mono cfg cat gst (gtraceOf sel x) .drop none
        rw [hres] at this; exact this
      split at h
      · rename_i hdrop
        have hact : d.action = .drop := by
          simp only [Bool.and_eq_true, beq_iff_eq] at hdrop; exact hdrop.1
        split at h
        · -- recorded
          obtain ⟨hm, hd⟩ := ih _ _ _ _ _ _ h
          refine ⟨fun c hc => hm c (hmono c hc), ?_⟩
          intro tid ht
          rcases hd tid ht with hin | ⟨hp, hr⟩
          · rcases List.mem_append.mp hin with hin' | hin'
            · exact Or.inl hin'
            · have : tid = x := by simpa using hin'
              subst this
              right
              obtain ⟨tmin, tmax, ev, _, hdr⟩ := resolve_drop_evidence cfg cat gst (gtraceOf sel tid) .drop none d g1 hres hact
              exact ⟨List.mem_cons_self .., gst, d, g1, hres, hact, tmin, tmax, ev.bounds, hm _ (by rw [hdr]; simp [gtraceOf])⟩
          · exact Or.inr ⟨List.mem_cons_of_mem _ hp, hr⟩
        · obtain ⟨hm, hd⟩ := ih _ _ _ _ _ _ h
          exact ⟨fun c hc => hm c (hmono c hc),
            fun tid ht => (hd tid ht).imp id fun ⟨hp, hr⟩ => ⟨List.mem_cons_of_mem _ hp, hr⟩⟩
      · obtain ⟨hm, hd⟩ := ih _ _ _ _ _ _ h
        exact ⟨fun c hc => hm c (hmono c hc),
          fun tid ht => (hd tid ht).imp id fun ⟨hp, hr⟩ => ⟨List.mem_cons_of_mem _ hp, hr⟩⟩


/-! ### one Decide call -/

theorem proposedOf_replicate_true (ids : List String) (n : Nat) : proposedOf ids (List.replicate n true) = [] := by
  unfold proposedOf
  rw [List.filterMap_eq_nil_iff]
  intro ⟨i, k⟩ h
  have := (List.of_mem_zip h).2
  simp at this
  simp [this.2]

theorem proposedOf_map (ids : List String) (f : String → Bool) (tid : String)
    (h : tid ∈ proposedOf ids (ids.map f)) : tid ∈ ids ∧ f tid = false := by
  unfold proposedOf at h
  rw [List.mem_filterMap] at h
  obtain ⟨⟨i, k⟩, hmem, hk⟩ := h
  rw [List.zip_map_right] at hmem
  simp only [List.mem_map] at hmem
  obtain ⟨⟨a, b⟩, hab, heq⟩ := hmem
  have hab' : a = b := by
    have := List.of_mem_zip hab
    clear heq hk
    induction ids with
    | nil => simp at hab
    | cons y ys ih =>
      simp only [List.zip_cons_cons, List.mem_cons] at hab
      rcases hab with h1 | h1
      · simp only [Prod.mk.injEq] at h1; rw [h1.1, h1.2]
      · exact ih h1 (List.of_mem_zip h1)
  simp only [Prod.map, id, Prod.mk.injEq] at heq
  obtain ⟨rfl, rfl⟩ := heq
  subst hab'
  cases hf : f a
  · simp only [hf] at hk
    simp at hk
    subst hk
    exact ⟨(List.of_mem_zip hab).1, hf⟩
  · simp [hf] at hk

theorem batchWorst_cases (tab : SamplerTable) (ids : List String) :
    batchWorst tab ids = 'P' ∨ batchWorst tab ids = 'E' ∨ batchWorst tab ids = 'L' ∨ batchWorst tab ids = 'K' := by
  unfold batchWorst
  repeat' split
  all_goals simp

/-- a Decide call proposes a drop only when it returned a well-formed verdict (no error, no
    panic, no length mismatch) and that verdict says DROP for the trace. -/
theorem proposed_sound (tab : SamplerTable) (ids : List String) (tid : String)
    (h : tid ∈ proposedOf ids (evaluateChain ids.length [some (batchOutcome tab ids)]).1) :
    tid ∈ ids ∧ batchWorst tab ids = 'K' ∧ tab tid = 'D' := by
  unfold batchOutcome at h
  rcases batchWorst_cases tab ids with hw | hw | hw | hw
  · simp [hw, evaluateChain, evalLink, proposedOf_replicate_true] at h
  · simp [hw, evaluateChain, evalLink, proposedOf_replicate_true] at h
  · simp [hw, evaluateChain, evalLink, proposedOf_replicate_true] at h
  · have hout : (evaluateChain ids.length [some (LinkOutcome.mask (ids.map fun i => tab i != 'D'))]).1 =
        ids.map fun i => tab i != 'D' := by
      simp [evaluateChain, evalLink]
    simp only [hw] at h
    rw [if_neg (by decide), if_neg (by decide), if_neg (by decide), hout] at h
    have := proposedOf_map ids (fun i => tab i != 'D') tid h
    refine ⟨this.1, hw, ?_⟩
    simpa using this.2


/-! ### all Decide calls of one filtered attempt -/

/-- why a trace id sits in the drop set of a filtered attempt. -/
structure DropWhy (cfg : GConfig) (cat : GCatalog) (sel : List Part) (tab : SamplerTable)
    (batches : List (List String)) (finalDrops : List ConfirmedDrop) (tid : String) : Prop where
  decided : ∃ ids ∈ batches, tid ∈ ids ∧ batchWorst tab ids = 'K' ∧ tab tid = 'D'
  resolved : ∃ gst0 d gst1, resolve cfg cat gst0 (gtraceOf sel tid) .drop none = (d, gst1) ∧ d.action = .drop
  recorded : ∃ tmin tmax, traceBounds (gtraceOf sel tid).blocks = some (tmin, tmax) ∧
    ({ id := tid, min := tmin, max := tmax, known := true } : ConfirmedDrop) ∈ finalDrops

theorem DropWhy.mono {cfg cat sel tab b bs fd fd' tid} (h : DropWhy cfg cat sel tab bs fd tid)
    (hfd : ∀ c ∈ fd, c ∈ fd') : DropWhy cfg cat sel tab (b :: bs) fd' tid :=
  ⟨by obtain ⟨ids, hi, r⟩ := h.decided; exact ⟨ids, List.mem_cons_of_mem _ hi, r⟩, h.resolved,
   by obtain ⟨a, c, hb, hm⟩ := h.recorded; exact ⟨a, c, hb, hfd _ hm⟩⟩

/-- effect of the Decide calls on the table: nothing, or the part written inside the first call. -/
def LateAtDecide (req : MergeReq) (selMem : Bool) (st st' : AttemptState) : Prop :=
  (st'.table = st.table ∧ st'.lateDone = st.lateDone) ∨
  (st.lateDone = false ∧ ∃ l, req.late = some l ∧ l.atDecide = true ∧
    st'.table = applyLate st.table l selMem ∧ st'.lateDone = true)

theorem lateAtDecide_spec (req : MergeReq) (selMem : Bool) (st : AttemptState) :
    LateAtDecide req selMem st (lateAtDecide req selMem st) ∧
    (lateAtDecide req selMem st).gst = st.gst ∧ (lateAtDecide req selMem st).tracker = st.tracker := by
  unfold lateAtDecide LateAtDecide
  split
  · rename_i l hl
    split
    · rename_i hc
      simp only [Bool.and_eq_true, Bool.not_eq_eq_eq_not, Bool.not_true] at hc
      exact ⟨Or.inr ⟨hc.2, l, hl, hc.1, rfl, rfl⟩, rfl, rfl⟩
    · exact ⟨Or.inl ⟨rfl, rfl⟩, rfl, rfl⟩
  · exact ⟨Or.inl ⟨rfl, rfl⟩, rfl, rfl⟩

theorem LateAtDecide.trans {req : MergeReq} {selMem : Bool} {a b c : AttemptState}
    (h1 : LateAtDecide req selMem a b) (h2 : LateAtDecide req selMem b c) : LateAtDecide req selMem a c := by
  rcases h1 with ⟨t1, d1⟩ | ⟨d1, l, hl, ha, t1, d1'⟩
  · rcases h2 with ⟨t2, d2⟩ | ⟨d2, l, hl, ha, t2, d2'⟩
    · exact Or.inl ⟨t2.trans t1, d2.trans d1⟩
    · exact Or.inr ⟨d1 ▸ d2, l, hl, ha, t1 ▸ t2, d2'⟩
  · rcases h2 with ⟨t2, d2⟩ | ⟨d2, _, _, _, _, _⟩
    · exact Or.inr ⟨d1, l, hl, ha, t2.trans t1, d2.trans d1'⟩
    · rw [d1'] at d2; cases d2

theorem batchStep_spec (cfg : GConfig) (cat : GCatalog) (sel : List Part) (req : MergeReq) (selMem : Bool)
    (ids : List String) (st : AttemptState) (dropped : List String) :
    LateAtDecide req selMem st (batchStep cfg cat sel req selMem ids st dropped).2 ∧
    (∀ c ∈ st.gst.drops, c ∈ (batchStep cfg cat sel req selMem ids st dropped).2.gst.drops) ∧
    (∀ tid ∈ (batchStep cfg cat sel req selMem ids st dropped).1, tid ∈ dropped ∨
      DropWhy cfg cat sel req.tab [ids] (batchStep cfg cat sel req selMem ids st dropped).2.gst.drops tid) := by
  unfold batchStep
  simp only
  generalize hst1 : lateAtDecide req selMem
    { st with log := st.log ++ ["+".intercalate ids ++ "=" ++ (batchWorst req.tab ids).toString] } = st1
  obtain ⟨hl, hg, ht⟩ := lateAtDecide_spec req selMem
    { st with log := st.log ++ ["+".intercalate ids ++ "=" ++ (batchWorst req.tab ids).toString] }
  rw [hst1] at hl hg ht
  rcases hrd : resolveDrops cfg cat sel
      (proposedOf ids (evaluateChain ids.length [some (batchOutcome req.tab ids)]).1) st1.gst st1.tracker dropped
    with ⟨dr, g1, tr1⟩
  obtain ⟨hm1, hd1⟩ := resolveDrops_spec cfg cat sel _ _ _ _ _ _ _ hrd
  simp only
  refine ⟨?_, ?_, ?_⟩
  · rcases hl with ⟨h1, h2⟩ | ⟨h1, l, h2, h3, h4, h5⟩
    · exact Or.inl ⟨h1, h2⟩
    · exact Or.inr ⟨h1, l, h2, h3, h4, h5⟩
  · intro c hc; exact hm1 c (by rw [hg]; exact hc)
  · intro tid htid
    rcases hd1 tid htid with hin | ⟨hp, g0, d, g1', hres, hact, tmin, tmax, hb, hcd⟩
    · exact Or.inl hin
    · obtain ⟨hmem, hw, htab⟩ := proposed_sound req.tab ids tid hp
      exact Or.inr ⟨⟨ids, List.mem_singleton.mpr rfl, hmem, hw, htab⟩, ⟨g0, d, g1', hres, hact⟩, ⟨tmin, tmax, hb, hcd⟩⟩

theorem runBatches_spec (cfg : GConfig) (cat : GCatalog) (sel : List Part) (req : MergeReq) (selMem : Bool) :
    ∀ (batches : List (List String)) (st : AttemptState) (dropped : List String),
      LateAtDecide req selMem st (runBatches cfg cat sel req selMem batches st dropped).2 ∧
      (∀ c ∈ st.gst.drops, c ∈ (runBatches cfg cat sel req selMem batches st dropped).2.gst.drops) ∧
      (∀ tid ∈ (runBatches cfg cat sel req selMem batches st dropped).1, tid ∈ dropped ∨
        DropWhy cfg cat sel req.tab batches (runBatches cfg cat sel req selMem batches st dropped).2.gst.drops tid) := by
  intro batches
  induction batches with
  | nil =>
    intro st dropped
    exact ⟨Or.inl ⟨rfl, rfl⟩, fun c hc => hc, fun tid ht => Or.inl ht⟩
  | cons ids rest ih =>
    intro st dropped
    unfold runBatches
    split
    · obtain ⟨hl, hm, hd⟩ := ih st dropped
      exact ⟨hl, hm, fun tid ht => (hd tid ht).imp id fun w => w.mono (fun c hc => hc)⟩
    · obtain ⟨hl1, hm1, hd1⟩ := batchStep_spec cfg cat sel req selMem ids st dropped
      obtain ⟨hl, hm, hd⟩ := ih (batchStep cfg cat sel req selMem ids st dropped).2
        (batchStep cfg cat sel req selMem ids st dropped).1
      refine ⟨hl1.trans hl, fun c hc => hm c (hm1 c hc), ?_⟩
      intro tid ht
      rcases hd tid ht with hin | w
      · rcases hd1 tid hin with hin' | w1
        · exact Or.inl hin'
        · right
          obtain ⟨ids', hi, r⟩ := w1.decided
          have : ids' = ids := by simpa using hi
          subst this
          exact ⟨⟨ids', List.mem_cons_self .., r⟩, w1.resolved,
            by obtain ⟨a, c, hb, hmem⟩ := w1.recorded; exact ⟨a, c, hb, hm _ hmem⟩⟩
      · exact Or.inr (w.mono (fun c hc => hc))

/-! ### staging bounds -/

theorem SGroup.add_tid (g : SGroup) (b : SBlock) : (g.add b).tid = g.tid := by
  unfold SGroup.add
  simp only
  split
  · rfl
  · split <;> rfl

theorem SGroup.add_valid (g : SGroup) (b : SBlock) (hc : 1 ≤ g.count) (hk : b.known = true) (hle : b.min ≤ b.max) :
    (g.add b).minTS = (if b.min < g.minTS then b.min else g.minTS) ∧
    (g.add b).maxTS = (if b.max > g.maxTS then b.max else g.maxTS) ∧
    (g.add b).valid = g.valid ∧ (g.add b).count = g.count + 1 := by
  unfold SGroup.add
  have h1 : (!b.known || decide (b.min > b.max)) = false := by simp [hk]; omega
  have h2 : ¬ (g.count = 0) := by omega
  simp [h1, h2]

theorem sgroup_fold_spec : ∀ (bs : List SBlock) (g : SGroup), 1 ≤ g.count →
    (∀ b ∈ bs, b.known = true ∧ b.min ≤ b.max) →
    (bs.foldl SGroup.add g).minTS = (bs.map (·.min)).foldl (fun a x => if x < a then x else a) g.minTS ∧
    (bs.foldl SGroup.add g).maxTS = (bs.map (·.max)).foldl (fun a x => if x > a then x else a) g.maxTS ∧
    (bs.foldl SGroup.add g).valid = g.valid := by
  intro bs
  induction bs with
  | nil => intro g _ _; exact ⟨rfl, rfl, rfl⟩
  | cons b rest ih =>
    intro g hc hv
    obtain ⟨hk, hle⟩ := hv b (List.mem_cons_self ..)
    obtain ⟨s1, s2, s3, s4⟩ := SGroup.add_valid g b hc hk hle
    simp only [List.foldl_cons, List.map_cons]
    obtain ⟨a1, a2, a3⟩ := ih (g.add b) (by omega) (fun x hx => hv x (List.mem_cons_of_mem _ hx))
    rw [a1, a2, a3, s1, s2, s3]
    exact ⟨rfl, rfl, rfl⟩


end Banyan.C13
