/-
C13 helper lemmas: sampler chain fail-open, drop set, drop tracker.
-/
import Banyan.Model.C13

namespace Banyan.C13

/-! ### chain -/

/-- a link that cannot narrow the verdict: nil sampler, error, panic, timeout, wrong length. -/
def LinkBypassed (n : Nat) : Option LinkOutcome → Prop
  | none => True
  | some (.mask k) => k.length ≠ n
  | some _ => True

theorem evalLink_bypassed {n : Nat} {o : LinkOutcome} (h : LinkBypassed n (some o)) : ∃ r, evalLink n o = .error r := by
  cases o with
  | mask k => exact ⟨"length_mismatch", by simp [evalLink, LinkBypassed] at h ⊢; exact h⟩
  | err => exact ⟨_, rfl⟩
  | panic => exact ⟨_, rfl⟩
  | block => exact ⟨_, rfl⟩

theorem chainLoop_all_bypassed (n : Nat) :
    ∀ (ls : List (Option LinkOutcome)) (i : Nat) (m : List Bool) (log : List (Nat × String)),
      (∀ l ∈ ls, LinkBypassed n l) → (chainLoop n ls i m log).1 = m := by
  intro ls
  induction ls with
  | nil => intro i m log _; rfl
  | cons l ls ih =>
    intro i m log h
    have hl := h l (List.mem_cons_self ..)
    have hrest : ∀ l' ∈ ls, LinkBypassed n l' := fun l' hl' => h l' (List.mem_cons_of_mem _ hl')
    cases l with
    | none => simp only [chainLoop]; exact ih _ _ _ hrest
    | some o =>
      obtain ⟨r, hr⟩ := evalLink_bypassed hl
      simp only [chainLoop, hr]; exact ih _ _ _ hrest

theorem andMask_false {m k : List Bool} {j : Nat} (h : (andMask m k)[j]? = some false) :
    m[j]? = some false ∨ k[j]? = some false := by
  induction m generalizing k j with
  | nil => simp [andMask] at h
  | cons a as ih =>
    cases k with
    | nil => simp [andMask] at h
    | cons b bs =>
      cases j with
      | zero =>
        simp only [andMask, List.getElem?_cons_zero, Option.some.injEq] at h ⊢
        cases a <;> cases b <;> simp_all
      | succ j =>
        simp only [andMask, List.getElem?_cons_succ] at h ⊢
        exact ih h

theorem chainLoop_false_witness (n : Nat) :
    ∀ (ls : List (Option LinkOutcome)) (i : Nat) (m : List Bool) (log : List (Nat × String)) (j : Nat),
      (chainLoop n ls i m log).1[j]? = some false →
      m[j]? = some false ∨ ∃ k, some (LinkOutcome.mask k) ∈ ls ∧ k.length = n ∧ k[j]? = some false := by
  intro ls
  induction ls with
  | nil => intro i m log j h; exact Or.inl h
  | cons l ls ih =>
    intro i m log j h
    cases l with
    | none =>
      simp only [chainLoop] at h
      rcases ih _ _ _ _ h with h' | ⟨k, hk, hl, hj⟩
      · exact Or.inl h'
      · exact Or.inr ⟨k, List.mem_cons_of_mem _ hk, hl, hj⟩
    | some o =>
      simp only [chainLoop] at h
      split at h
      · rename_i k hk
        rcases ih _ _ _ _ h with h' | ⟨k', hk', hl, hj⟩
        · rcases andMask_false h' with h'' | h''
          · exact Or.inl h''
          · cases o with
            | mask k0 =>
              simp only [evalLink] at hk
              split at hk
              · rename_i hlen
                cases hk
                exact Or.inr ⟨_, List.mem_cons_self .., hlen, h''⟩
              · cases hk
            | err => cases hk
            | panic => cases hk
            | block => cases hk
        · exact Or.inr ⟨k', List.mem_cons_of_mem _ hk', hl, hj⟩
      · rcases ih _ _ _ _ h with h' | ⟨k', hk', hl, hj⟩
        · exact Or.inl h'
        · exact Or.inr ⟨k', List.mem_cons_of_mem _ hk', hl, hj⟩

theorem replicate_true_getElem? (n j : Nat) : (List.replicate n true)[j]? ≠ some false := by
  intro h
  rw [List.getElem?_replicate] at h
  split at h <;> simp at h

/-! ### drop set -/

theorem keepEncoded_v1 (s : DropSet) (id : List Byte) (h : s.ids ≠ []) :
    (s.keepEncoded (idFormatV1 :: id)).1 = !s.ids.contains id := by
  unfold DropSet.keepEncoded
  have : s.ids.isEmpty = false := by cases hs : s.ids <;> simp_all
  simp [this]

theorem keepEncoded_other_format (s : DropSet) (fmt : Byte) (id : List Byte) (h : fmt ≠ idFormatV1) :
    (s.keepEncoded (fmt :: id)).1 = true := by
  unfold DropSet.keepEncoded
  simp [h]

theorem keepEncoded_empty_set (s : DropSet) (data : List Byte) (h : s.ids = []) : (s.keepEncoded data).1 = true := by
  unfold DropSet.keepEncoded
  cases data <;> simp [h]

theorem add_ok_ids {s s' : DropSet} {id : List Byte} (h : s.add id = .ok s') :
    id ∈ s'.ids ∧ ∀ x ∈ s.ids, x ∈ s'.ids := by
  unfold DropSet.add at h
  split at h
  · cases h
  · split at h
    · rename_i last hlast
      split at h
      · rename_i heq
        cases h
        refine ⟨?_, fun x hx => hx⟩
        rw [heq]
        exact List.mem_of_getLast? hlast
      · split at h
        · cases h
        · cases h
          exact ⟨by simp, fun x hx => by simp [hx]⟩
    · cases h
      exact ⟨by simp, fun x hx => by simp [hx]⟩

/-! ### drop tracker (ceiling) -/

theorem canAccept_full (t : Tracker) (h : t.full = true) : t.canAccept = (false, t) := by
  unfold Tracker.canAccept; simp [h]

/-- the ceiling is one-way: a refusal leaves the tracker full. -/
theorem canAccept_refusal_sticks (t : Tracker) (h : t.canAccept.1 = false) : t.canAccept.2.full = true := by
  unfold Tracker.canAccept at h ⊢
  repeat' (split at h)
  all_goals (first | (simp at h; done) | skip)
  · rename_i hf; simp [hf]
  · rename_i hf hb hm; simp [hf, hb, hm]

/-- the first proposed drop of a merge is always admitted. -/
theorem canAccept_fresh (budget : Nat) : (Tracker.canAccept { budget := budget }).1 = true := by
  unfold Tracker.canAccept
  simp

theorem maxIDsForBudget_pos {b n : Nat} (h : b ≠ 0) : 1 ≤ maxIDsForBudget b n := by
  unfold maxIDsForBudget
  simp [h]
  exact Nat.le_max_left ..

end Banyan.C13
