/-
C13 helper lemmas: a published Drop implies that no fragment of the trace exists outside the
merged parts (given no-false-negative filters, sound part bounds and the event-time gap contract).
-/
import Banyan.Lemmas.C13Merge
namespace Banyan.C13

/-! ### small facts about the helpers used to build guard inputs -/

theorem mem_insertSorted (s x : String) (l : List String) : x ∈ insertSorted s l → x = s ∨ x ∈ l := by
  induction l with
  | nil => intro h; simp [insertSorted] at h; exact Or.inl h
  | cons y ys ih =>
    intro h
    unfold insertSorted at h
    split at h
    · rcases List.mem_cons.mp h with h1 | h1
      · exact Or.inl h1
      · exact Or.inr h1
    · split at h
      · exact Or.inr h
      · rcases List.mem_cons.mp h with h1 | h1
        · exact Or.inr (h1 ▸ List.mem_cons_self ..)
        · exact (ih h1).imp id (List.mem_cons_of_mem _)

theorem mem_sortedTids_aux (spans : List Span) : ∀ (acc : List String) (x : String),
    x ∈ spans.foldl (fun acc s => insertSorted s.tid acc) acc → x ∈ acc ∨ ∃ s ∈ spans, s.tid = x := by
  induction spans with
  | nil => intro acc x h; exact Or.inl h
  | cons s ss ih =>
    intro acc x h
    simp only [List.foldl_cons] at h
    rcases ih _ _ h with h1 | ⟨s', hs', rfl⟩
    · rcases mem_insertSorted _ _ _ h1 with h2 | h2
      · exact Or.inr ⟨s, List.mem_cons_self .., h2.symm⟩
      · exact Or.inl h2
    · exact Or.inr ⟨s', List.mem_cons_of_mem _ hs', rfl⟩

theorem mem_sortedTids {spans : List Span} {x : String} (h : x ∈ sortedTids spans) : ∃ s ∈ spans, s.tid = x := by
  rcases mem_sortedTids_aux spans [] x h with h1 | h1
  · cases h1
  · exact h1

theorem foldl_min_spec (l : List Int) : ∀ (a : Int),
    (l.foldl (fun a b => if b < a then b else a) a = a ∨ l.foldl (fun a b => if b < a then b else a) a ∈ l) ∧
    l.foldl (fun a b => if b < a then b else a) a ≤ a ∧
    ∀ x ∈ l, l.foldl (fun a b => if b < a then b else a) a ≤ x := by
  induction l with
  | nil => intro a; exact ⟨Or.inl rfl, Int.le_refl _, fun x hx => by cases hx⟩
  | cons b bs ih =>
    intro a
    simp only [List.foldl_cons]
    obtain ⟨h1, h2, h3⟩ := ih (if b < a then b else a)
    have hm : (if b < a then b else a) ≤ a ∧ (if b < a then b else a) ≤ b := by split <;> omega
    refine ⟨?_, ?_, ?_⟩
    · rcases h1 with h | h
      · rw [h]; split
        · exact Or.inr (List.mem_cons_self ..)
        · exact Or.inl rfl
      · exact Or.inr (List.mem_cons_of_mem _ h)
    · exact Int.le_trans h2 hm.1
    · intro x hx
      rcases List.mem_cons.mp hx with rfl | hx'
      · exact Int.le_trans h2 hm.2
      · exact h3 x hx'

theorem foldl_max_spec (l : List Int) : ∀ (a : Int),
    (l.foldl (fun a b => if b > a then b else a) a = a ∨ l.foldl (fun a b => if b > a then b else a) a ∈ l) ∧
    a ≤ l.foldl (fun a b => if b > a then b else a) a ∧
    ∀ x ∈ l, x ≤ l.foldl (fun a b => if b > a then b else a) a := by
  induction l with
  | nil => intro a; exact ⟨Or.inl rfl, Int.le_refl _, fun x hx => by cases hx⟩
  | cons b bs ih =>
    intro a
    simp only [List.foldl_cons]
    obtain ⟨h1, h2, h3⟩ := ih (if b > a then b else a)
    have hm : a ≤ (if b > a then b else a) ∧ b ≤ (if b > a then b else a) := by split <;> omega
    refine ⟨?_, ?_, ?_⟩
    · rcases h1 with h | h
      · rw [h]; split
        · exact Or.inr (List.mem_cons_self ..)
        · exact Or.inl rfl
      · exact Or.inr (List.mem_cons_of_mem _ h)
    · exact Int.le_trans hm.1 h2
    · intro x hx
      rcases List.mem_cons.mp hx with rfl | hx'
      · exact Int.le_trans hm.2 h2
      · exact h3 x hx'

theorem minOfInts_spec {l : List Int} (h : l ≠ []) : minOfInts l ∈ l ∧ ∀ x ∈ l, minOfInts l ≤ x := by
  cases l with
  | nil => exact absurd rfl h
  | cons a as =>
    obtain ⟨h1, h2, h3⟩ := foldl_min_spec as a
    refine ⟨?_, ?_⟩
    · rcases h1 with h' | h'
      · show as.foldl _ a ∈ _; rw [h']; exact List.mem_cons_self ..
      · exact List.mem_cons_of_mem _ h'
    · intro x hx
      rcases List.mem_cons.mp hx with rfl | hx'
      · exact h2
      · exact h3 x hx'

theorem maxOfInts_spec {l : List Int} (h : l ≠ []) : maxOfInts l ∈ l ∧ ∀ x ∈ l, x ≤ maxOfInts l := by
  cases l with
  | nil => exact absurd rfl h
  | cons a as =>
    obtain ⟨h1, h2, h3⟩ := foldl_max_spec as a
    refine ⟨?_, ?_⟩
    · rcases h1 with h' | h'
      · show as.foldl _ a ∈ _; rw [h']; exact List.mem_cons_self ..
      · exact List.mem_cons_of_mem _ h'
    · intro x hx
      rcases List.mem_cons.mp hx with rfl | hx'
      · exact h2
      · exact h3 x hx'


/-! ### a Drop means: no fragment of the trace anywhere else -/

/-- parts whose guard view answers Absent (where it overlaps) cannot hold a span of the trace
    inside the widened window, if the filter has no false negatives. -/
theorem absent_parts_clean (mc : FilterOracle) (hnf : NoFalseNegatives mc) (ps : List Part) (tid : String)
    (gmin gmax : Int)
    (habs : ∀ gp ∈ ps.map (gpartOf mc), overlaps gp gmin gmax = true → gp.absentFor tid)
    (p : Part) (hp : p ∈ ps) (s : Span) (hs : s ∈ p.spans) (htid : s.tid = tid)
    (hb : p.min ≤ s.ts ∧ s.ts ≤ p.max) (hw : gmin ≤ s.ts ∧ s.ts ≤ gmax) : False := by
  have hov : overlaps (gpartOf mc p) gmin gmax = true := by
    simp only [overlaps, gpartOf, Bool.and_eq_true]
    exact ⟨decide_eq_true (Int.le_trans hw.1 hb.2), decide_eq_true (Int.le_trans hb.1 hw.2)⟩
  obtain ⟨f, hf, hfa⟩ := habs _ (List.mem_map.mpr ⟨p, hp, rfl⟩) hov
  simp only [gpartOf, Option.some.injEq] at hf
  subst hf
  have := hnf p s hs
  rw [htid] at this
  simp [this] at hfa

theorem gtraceOf_bounds (sel : List Part) (tid : String) (tmin tmax : Int)
    (h : traceBounds (gtraceOf sel tid).blocks = some (tmin, tmax))
    (h64 : minOfInts ((spansOfTid (sel.flatMap (·.spans)) tid).map (·.ts)) ≤ maxI64 ∧
           minI64 ≤ maxOfInts ((spansOfTid (sel.flatMap (·.spans)) tid).map (·.ts))) :
    tmin = minOfInts ((spansOfTid (sel.flatMap (·.spans)) tid).map (·.ts)) ∧
    tmax = maxOfInts ((spansOfTid (sel.flatMap (·.spans)) tid).map (·.ts)) := by
  simp only [gtraceOf, traceBounds, List.isEmpty_cons, Bool.false_eq_true, if_false, boundsLoop] at h
  split at h
  · cases h
  · simp only [Option.some.injEq, Prod.mk.injEq] at h
    obtain ⟨h1, h2⟩ := h
    constructor
    · rw [← h1]; split <;> omega
    · rw [← h2]; split <;> omega

theorem guardSession_some {mc : FilterOracle} {t : Table} {sel : List Part} {cfg : GConfig} {cat : GCatalog}
    (h : guardSession mc t sel = some (cfg, cat)) :
    cfg.grace = t.grace ∧ cat.parts = (outsideParts t.parts sel).map (gpartOf mc) ∧ cat.baseEpoch = t.epoch ∧
    0 ≤ t.grace := by
  unfold guardSession at h
  simp only at h
  split at h
  · cases h
  · rename_i hc
    simp only [Option.some.injEq, Prod.mk.injEq] at h
    obtain ⟨rfl, rfl⟩ := h
    refine ⟨rfl, rfl, rfl, ?_⟩
    simp only [Bool.or_eq_true, not_or, Bool.not_eq_true, Bool.not_eq_false'] at hc
    have hint := hc.1.2
    unfold coverageHasInterior at hint
    split at hint
    · cases hint
    · rename_i hg; omega

theorem mem_rows_shape {ps : List Part} {s : Span} : s ∈ rows (shape ps) ↔ ∃ p ∈ ps, s ∈ p.spans := by
  simp only [rows, shape, List.flatMap_map, List.mem_flatMap]

theorem boundsSound_write (t : Table) (sp : List Span) (h : BoundsSound t.parts) : BoundsSound (t.write sp).parts := by
  intro p hp s hs
  simp only [Table.write, List.mem_append, List.mem_singleton] at hp
  rcases hp with hp | rfl
  · exact h p hp s hs
  · simp only at hs ⊢
    have hne : sp.map (·.ts) ≠ [] := by
      intro hc; rw [List.map_eq_nil_iff] at hc; rw [hc] at hs; cases hs
    exact ⟨(minOfInts_spec hne).2 _ (List.mem_map.mpr ⟨s, hs, rfl⟩),
           (maxOfInts_spec hne).2 _ (List.mem_map.mpr ⟨s, hs, rfl⟩)⟩

theorem boundsSound_flush (t : Table) (h : BoundsSound t.parts) : BoundsSound t.flush.parts := by
  unfold Table.flush
  split
  · intro p hp s hs
    simp only [List.mem_map] at hp
    obtain ⟨p0, hp0, rfl⟩ := hp
    split at hs <;> (split <;> exact h p0 hp0 s hs)
  · exact h

theorem boundsSound_applyLate (t : Table) (l : Late) (m : Bool) (h : BoundsSound t.parts) :
    BoundsSound (applyLate t l m).parts := by
  unfold applyLate
  simp only
  split
  · exact boundsSound_flush _ (boundsSound_write t l.spans h)
  · exact boundsSound_write t l.spans h

/-- spans of the late part a case may introduce. -/
def lateSpans (late : Option Late) : List Span :=
  match late with
  | some l => l.spans
  | none => []

/-- every trace in a published drop set has no span in any unselected part and none in the
    part written meanwhile - provided the filter has no false negatives, part bounds are sound and
    fragments of one trace respect the event-time gap contract. -/
theorem dropRan_clean (mc : FilterOracle) (t : Table) (hwf : t.WF) (req : MergeReq) (q : Part → Bool)
    (L : List Span) (D : List String) (h : DropRan mc t req (t.parts.filter q) L D)
    (hnf : NoFalseNegatives mc) (hbs : BoundsSound t.parts)
    (hgap : GapBounded t.grace (rows (shape t.parts) ++ lateSpans req.late))
    (h64 : Int64Spans (rows (shape t.parts) ++ lateSpans req.late))
    (tid : String) (htid : tid ∈ D) :
    (rows (restOf ((t.parts.filter q).map (·.id)) (shape t.parts))).filter (·.tid == tid) = [] ∧
    L.filter (·.tid == tid) = [] := by
  obtain ⟨cfg, cat, fi, fr, hgs, hdp, lsh, hshape, hL⟩ := h
  obtain ⟨hgrace, hcatparts, hbase, hg0⟩ := guardSession_some hgs
  obtain ⟨htab, hwhy⟩ := firstAttempt_spec t (t.parts.filter q) req cfg cat fi fr
  have w := hwhy tid (by rw [← hdp.dropped]; exact htid)
  obtain ⟨g0, d, g1, hres, hact⟩ := w.resolved
  obtain ⟨tmin, tmax, ev, _, _⟩ := resolve_drop_evidence cfg cat g0 _ .drop none d g1 hres hact
  obtain ⟨tmin', tmax', hb', hcd⟩ := w.recorded
  have hbeq : tmin = tmin' ∧ tmax = tmax' := by
    have := ev.bounds; rw [hb'] at this; simp only [Option.some.injEq, Prod.mk.injEq] at this
    exact ⟨this.1.symm, this.2.symm⟩
  obtain ⟨h1, h2⟩ := hbeq
  subst h1; subst h2
  -- the trace has a span in the selected parts
  have hsome : ∃ s0 ∈ (t.parts.filter q).flatMap (·.spans), s0.tid = tid := by
    obtain ⟨ids, hids, hmem, _, _⟩ := w.decided
    have helig : tid ∈ eligibleTids (t.parts.filter q) fi fr := by
      unfold batchesOf at hids
      split at hids
      · obtain ⟨x, hx, rfl⟩ := List.mem_map.mp hids
        have : tid = x := by simpa using hmem
        rw [this]; exact hx
      · have : ids = eligibleTids (t.parts.filter q) fi fr := by simpa using hids
        rw [← this]; exact hmem
    exact mem_sortedTids (List.mem_filter.mp helig).1
  obtain ⟨s0, hs0, hs0t⟩ := hsome
  have hselU : ∀ s ∈ (t.parts.filter q).flatMap (·.spans), s ∈ rows (shape t.parts) ++ lateSpans req.late := by
    intro s hs
    obtain ⟨p, hp, hsp⟩ := List.mem_flatMap.mp hs
    exact List.mem_append_left _ (mem_rows_shape.mpr ⟨p, (List.mem_filter.mp hp).1, hsp⟩)
  have hne : (spansOfTid ((t.parts.filter q).flatMap (·.spans)) tid).map (·.ts) ≠ [] := by
    intro hc
    rw [List.map_eq_nil_iff] at hc
    have : s0 ∈ spansOfTid ((t.parts.filter q).flatMap (·.spans)) tid :=
      List.mem_filter.mpr ⟨hs0, by simp [hs0t]⟩
    rw [hc] at this; cases this
  obtain ⟨hminmem, _⟩ := minOfInts_spec hne
  obtain ⟨hmaxmem, _⟩ := maxOfInts_spec hne
  obtain ⟨sa, hsa, hsats⟩ := List.mem_map.mp hminmem
  obtain ⟨sb, hsb, hsbts⟩ := List.mem_map.mp hmaxmem
  have hsaU := hselU sa (List.mem_filter.mp hsa).1
  have hsbU := hselU sb (List.mem_filter.mp hsb).1
  have hsat : sa.tid = tid := by simpa using (List.mem_filter.mp hsa).2
  have hsbt : sb.tid = tid := by simpa using (List.mem_filter.mp hsb).2
  obtain ⟨htmin, htmax⟩ := gtraceOf_bounds _ tid tmin tmax ev.bounds
    ⟨by rw [← hsats]; exact (h64 sa hsaU).2, by rw [← hsbts]; exact (h64 sb hsbU).1⟩
  -- every span of the trace anywhere lies inside the widened window
  have hwin : ∀ s ∈ rows (shape t.parts) ++ lateSpans req.late, s.tid = tid →
      satSub tmin cfg.grace ≤ s.ts ∧ s.ts ≤ satAdd tmax cfg.grace := by
    intro s hs hst
    rw [hgrace]
    apply widened_contains
    · have := hgap s hs sa hsaU (by rw [hst, hsat])
      rw [htmin, ← hsats]; omega
    · have := hgap sb hsbU s hs (by rw [hst, hsbt])
      rw [htmax, ← hsbts]; omega
    · exact h64 s hs
  constructor
  · -- unselected parts of the pinned snapshot
    rw [List.filter_eq_nil_iff]
    intro s hs hst
    have hst' : s.tid = tid := by simpa using hst
    rw [← shape_filter_ids, mem_rows_shape] at hs
    obtain ⟨p, hp, hsp⟩ := hs
    obtain ⟨hpt, hpid⟩ := List.mem_filter.mp hp
    have hout : p ∈ outsideParts t.parts (t.parts.filter q) := by
      refine List.mem_filter.mpr ⟨hpt, ?_⟩
      simp only [Bool.and_eq_true, decide_eq_true_eq, Bool.not_eq_eq_eq_not, Bool.not_true]
      refine ⟨by unfold Part.count; exact List.length_pos_of_mem hsp, ?_⟩
      rw [← Bool.not_eq_true, List.any_eq_true]
      rintro ⟨q', hq', hident⟩
      have : q'.id = p.id := by
        simp only [Part.ident, beq_iff_eq, Prod.mk.injEq] at hident; exact hident.1
      apply (Bool.not_eq_true' _ |>.mp) hpid |> fun hf => ?_
      have hin : ((t.parts.filter q).map (·.id)).contains p.id = true :=
        List.contains_iff_mem.mpr (List.mem_map.mpr ⟨q', hq', this⟩)
      rw [hin] at hf; cases hf
    refine absent_parts_clean mc hnf _ tid _ _ ?_ p hout s hsp hst' (hbs p hpt s hsp)
      (hwin s (List.mem_append_left _ (mem_rows_shape.mpr ⟨p, hpt, hsp⟩)) hst')
    intro gp hgp hov
    exact ev.absent gp (by rw [hcatparts]; exact hgp) hov
  · -- the part written while the merge ran
    rw [hL]
    rcases htab with h1 | ⟨l, hl, _, h4⟩
    · rw [h1] at hshape
      have : lsh = [] := by
        have := hshape
        simp only at this
        exact (List.self_eq_append_right.mp this)
      rw [this]; rfl
    · have hfacts := applyLate_facts { t with curPartID := t.curPartID + 1 } l (selMemOf (t.parts.filter q)) hwf.epoch
      rw [h4] at hshape
      have hlsh : lsh = [(t.curPartID + 1 + 1, l.spans)] := by
        have := hfacts.1
        simp only at this
        rw [this] at hshape
        exact (List.append_cancel_left hshape).symm
      rw [hlsh, rows_singleton, List.filter_eq_nil_iff]
      intro s hs hst
      have hst' : s.tid = tid := by simpa using hst
      -- the late part as a real part of the attempt's table
      have hmem : (t.curPartID + 1 + 1, l.spans) ∈ shape (firstAttempt t (t.parts.filter q) req cfg cat fi fr).2.table.parts := by
        rw [h4, hfacts.1]; simp
      obtain ⟨p, hp, hpe⟩ := List.mem_map.mp hmem
      simp only [Prod.mk.injEq] at hpe
      obtain ⟨hpid, hpsp⟩ := hpe
      have hsp : s ∈ p.spans := by rw [hpsp]; exact hs
      have hout : p ∈ outsideParts (firstAttempt t (t.parts.filter q) req cfg cat fi fr).2.table.parts t.parts := by
        refine List.mem_filter.mpr ⟨hp, ?_⟩
        simp only [Bool.and_eq_true, decide_eq_true_eq, Bool.not_eq_eq_eq_not, Bool.not_true]
        refine ⟨by unfold Part.count; exact List.length_pos_of_mem hsp, ?_⟩
        rw [← Bool.not_eq_true, List.any_eq_true]
        rintro ⟨q', hq', hident⟩
        have : q'.id = p.id := by
          simp only [Part.ident, beq_iff_eq, Prod.mk.injEq] at hident; exact hident.1
        have := hwf.bound q' hq'
        omega
      have hbsA : BoundsSound (firstAttempt t (t.parts.filter q) req cfg cat fi fr).2.table.parts := by
        rw [h4]; exact boundsSound_applyLate _ l _ hbs
      have hsU : s ∈ rows (shape t.parts) ++ lateSpans req.late := by
        apply List.mem_append_right
        rw [hl]; exact hs
      -- the revalidation cleared the delta
      have hrev := hdp.revalidated
      unfold preRevalidation at hrev
      obtain ⟨pe, _⟩ := revalidate_publish_evidence cfg cat _ _ none _ _ rfl hrev
      rcases pe.deltaClear with hepo | ⟨_, _, hclear⟩
      · exfalso
        simp only at hepo
        rw [hbase, h4] at hepo
        have := hfacts.2.2.2.1
        simp only at this
        omega
      · have := hclear _ hcd
        simp only at this
        exact absent_parts_clean mc hnf _ tid _ _ this p hout s hsp hst' (hbsA p hp s hsp) (hwin s hsU hst')

end Banyan.C13
