/-
C13 helper lemmas: the fragment guard's decision logic (`Resolve`, `RevalidateDrops`).
-/
import Banyan.Model.C13

namespace Banyan.C13

/-- an outside part answers "absent" for `tid`. -/
def GPart.absentFor (p : GPart) (tid : String) : Prop :=
  ∃ f, p.filter = some f ∧ f tid = .ok .absent

theorem probeLoop_clear (cfg : GConfig) (tid : String) (gmin gmax : Int) (pos : Reason) :
    ∀ (parts : List GPart) (sp : Nat) (ctx : Ctx) (cp sp' : Nat) (ctx' : Ctx) (cp' : Nat),
      probeLoop cfg tid gmin gmax pos parts sp ctx cp = .clear sp' ctx' cp' →
      ∀ p ∈ parts, overlaps p gmin gmax = true → p.absentFor tid := by
  intro parts
  induction parts with
  | nil => intro _ _ _ _ _ _ _ p hp; cases hp
  | cons q qs ih =>
    intro sp ctx cp sp' ctx' cp' h p hp hov
    unfold probeLoop at h
    split at h
    · -- q does not overlap
      rename_i hq
      rcases List.mem_cons.mp hp with rfl | hp'
      · simp [hov] at hq
      · exact ih _ _ _ _ _ _ h p hp' hov
    · split at h
      · cases h
      · rename_i f hf
        split at h
        · cases h
        · simp only at h
          split at h
          · cases h
          · split at h
            · cases h
            · rename_i m hm
              split at h
              · cases h
              · split at h
                · rcases List.mem_cons.mp hp with rfl | hp'
                  · exact ⟨f, hf, hm⟩
                  · exact ih _ _ _ _ _ _ h p hp' hov
                · cases h
                · cases h

/-- everything `Resolve` must have established before it answers Drop. -/
structure DropEvidence (cfg : GConfig) (cat : GCatalog) (st : GState) (tr : GTrace) (act : SamplerAction)
    (tmin tmax : Int) : Prop where
  sampler : act = .drop
  open_ : st.closed = false
  config : 0 ≤ cfg.grace ∧ 0 ≤ cfg.maxProbes ∧ 0 ≤ cfg.maxDrops
  temporal : cat.temporal = 1 ∧ 0 ≤ cat.gap ∧ cat.gap ≤ cfg.grace
  pinned : st.pinned = true
  traceComplete : tr.complete = true ∧ tr.id ≠ ""
  bounds : traceBounds tr.blocks = some (tmin, tmax)
  catalogComplete : cat.complete = true
  coverage : cat.covKnown = true ∧ cat.covMin ≤ satSub tmin cfg.grace ∧ satAdd tmax cfg.grace ≤ cat.covMax
  partsValid : partsValidation cat.parts = none
  absent : ∀ p ∈ cat.parts, overlaps p (satSub tmin cfg.grace) (satAdd tmax cfg.grace) = true → p.absentFor tr.id

theorem baseValidation_none {cfg : GConfig} {cat : GCatalog} {pinned : Bool}
    (h : baseValidation cfg cat pinned = none) :
    (0 ≤ cfg.grace ∧ 0 ≤ cfg.maxProbes ∧ 0 ≤ cfg.maxDrops) ∧ (cat.temporal = 1 ∧ 0 ≤ cat.gap ∧ cat.gap ≤ cfg.grace) ∧
      pinned = true := by
  unfold baseValidation at h
  repeat' (split at h)
  all_goals (first | (cases h; done) | skip)
  rename_i h1 h2 h3 h4
  refine ⟨⟨by omega, by omega, by omega⟩, ⟨h2, by omega, by omega⟩, by simpa using h4⟩

theorem recordDrop_some {cfg : GConfig} {st st' : GState} {d : ConfirmedDrop} (h : recordDrop cfg st d = some st') :
    st'.drops = st.drops ++ [d] ∧ st'.probes = st.probes ∧ st'.closed = st.closed ∧ st'.pinned = st.pinned := by
  unfold recordDrop at h
  split at h
  · cases h
  · cases h; exact ⟨rfl, rfl, rfl, rfl⟩

theorem candidateCount_zero {parts : List GPart} {gmin gmax : Int} (h : candidateCount parts gmin gmax = 0) :
    ∀ p ∈ parts, overlaps p gmin gmax = true → False := by
  intro p hp hov
  unfold candidateCount at h
  have : p ∈ parts.filter (overlaps · gmin gmax) := List.mem_filter.mpr ⟨hp, hov⟩
  rw [List.length_eq_zero_iff.mp h] at this
  cases this

theorem resolve_drop_evidence (cfg : GConfig) (cat : GCatalog) (st : GState) (tr : GTrace) (act : SamplerAction)
    (cancelAt : Option Nat) (d : Decision) (st' : GState)
    (hres : resolve cfg cat st tr act cancelAt = (d, st')) (hdrop : d.action = .drop) :
    ∃ tmin tmax, DropEvidence cfg cat st tr act tmin tmax ∧
      d.confirmed = some { id := tr.id, min := tmin, max := tmax, known := true } ∧
      st'.drops = st.drops ++ [{ id := tr.id, min := tmin, max := tmax, known := true }] := by
  unfold resolve at hres
  cases act <;> simp only at hres
  all_goals (repeat' (split at hres))
  all_goals (cases hres)
  all_goals (first | (simp at hdrop; done) | skip)
  · rename_i hclosed _ hbase hc1 hcomp _ tmin tmax hb hcat hcov _ hpv hc2 hcc _ hrec
    obtain ⟨hcfg, htemp, hpin⟩ := baseValidation_none hbase
    refine ⟨tmin, tmax, ⟨rfl, by simpa using hclosed, hcfg, htemp, hpin, ?_, hb, by simpa using hcat, ?_, hpv, ?_⟩, rfl,
      (recordDrop_some hrec).1⟩
    · simp at hcomp; exact hcomp
    · simp at hcov; exact ⟨hcov.1.1, hcov.1.2, hcov.2⟩
    · intro p hp hov; exact (candidateCount_zero hcc p hp hov).elim
  · rename_i hclosed _ hbase hc1 hcomp _ tmin tmax hb hcat hcov _ hpv hc2 hcc _ sp ctx cp hprobe _ hrec
    obtain ⟨hcfg, htemp, hpin⟩ := baseValidation_none hbase
    refine ⟨tmin, tmax, ⟨rfl, by simpa using hclosed, hcfg, htemp, hpin, ?_, hb, by simpa using hcat, ?_, hpv, ?_⟩, rfl,
      (recordDrop_some hrec).1⟩
    · simp at hcomp; exact hcomp
    · simp at hcov; exact ⟨hcov.1.1, hcov.1.2, hcov.2⟩
    · exact probeLoop_clear cfg tr.id _ _ _ _ _ _ _ _ _ _ hprobe

/-! ### `RevalidateDrops` -/

theorem probeLoop_stop_reason (cfg : GConfig) (tid : String) (gmin gmax : Int) (pos : Reason) (hpos : pos ≠ .none) :
    ∀ (parts : List GPart) (sp : Nat) (ctx : Ctx) (cp : Nat) (r : Reason) (sp' : Nat) (ctx' : Ctx) (cp' : Nat),
      probeLoop cfg tid gmin gmax pos parts sp ctx cp = .stop r sp' ctx' cp' → r ≠ .none := by
  intro parts
  induction parts with
  | nil => intro _ _ _ _ _ _ _ h; unfold probeLoop at h; cases h
  | cons q qs ih =>
    intro sp ctx cp r sp' ctx' cp' h
    unfold probeLoop at h
    repeat' (split at h)
    all_goals (first | (exact ih _ _ _ _ _ _ _ h) | (cases h; first | exact hpos | (intro hc; cases hc)))

theorem revalLoop_clear (cfg : GConfig) (delta : List GPart) :
    ∀ (drops : List ConfirmedDrop) (sp : Nat) (ctx : Ctx) (rc pr rc' pr' sp' : Nat),
      revalLoop cfg delta drops sp ctx rc pr = (.none, rc', pr', sp') →
      ∀ d ∈ drops, ∀ p ∈ delta, overlaps p (satSub d.min cfg.grace) (satAdd d.max cfg.grace) = true → p.absentFor d.id := by
  intro drops
  induction drops with
  | nil => intro _ _ _ _ _ _ _ _ d hd; cases hd
  | cons e es ih =>
    intro sp ctx rc pr rc' pr' sp' h d hd p hp hov
    unfold revalLoop at h
    simp only at h
    split at h
    · cases h
    · split at h
      · rename_i r sp2 ctx2 cp2 hstop
        have := probeLoop_stop_reason cfg e.id _ _ .snapshotDeltaPositive (by intro hc; cases hc) _ _ _ _ _ _ _ _ hstop
        simp only [Prod.mk.injEq] at h
        exact (this h.1).elim
      · rename_i sp2 ctx2 cp2 hclear
        rcases List.mem_cons.mp hd with rfl | hd'
        · exact probeLoop_clear cfg d.id _ _ _ _ _ _ _ _ _ _ hclear p hp hov
        · exact ih _ _ _ _ _ _ _ h d hd' p hp hov

/-- everything `RevalidateDrops` must have established before it answers Publish. -/
structure PublishEvidence (cfg : GConfig) (cat : GCatalog) (st : GState) (req : RevalReq) : Prop where
  open_ : st.closed = false
  pinned : st.pinned = true
  catalogComplete : cat.complete = true
  fence : req.fence = true
  owner : req.owner = true
  selected : req.selected = true
  notRegressed : cat.baseEpoch ≤ req.epoch
  deltaClear : req.epoch = cat.baseEpoch ∨
    (req.deltaComplete = true ∧ partsValidation req.delta = none ∧
      ∀ d ∈ st.drops, ∀ p ∈ req.delta,
        overlaps p (satSub d.min cfg.grace) (satAdd d.max cfg.grace) = true → p.absentFor d.id)

theorem revalidate_publish_evidence (cfg : GConfig) (cat : GCatalog) (st : GState) (req : RevalReq)
    (cancelAt : Option Nat) (r : Revalidation) (st' : GState)
    (hres : revalidate cfg cat st req cancelAt = (r, st')) (hpub : r.publish = true) :
    PublishEvidence cfg cat st req ∧ r.epoch = req.epoch := by
  unfold revalidate at hres
  simp only at hres
  repeat' (split at hres)
  all_goals (cases hres)
  all_goals (first | (simp at hpub; done) | skip)
  · rename_i hclosed _ hbase hcat hf ho hs hreg hc heq
    obtain ⟨_, _, hpin⟩ := baseValidation_none hbase
    exact ⟨⟨by simpa using hclosed, hpin, by simpa using hcat, by simpa using hf, by simpa using ho, by simpa using hs,
      by omega, Or.inl heq⟩, rfl⟩
  · rename_i hclosed _ hbase hcat hf ho hs hreg hc hne hdc _ hdv _ hpv _ rc pr sp hloop
    obtain ⟨_, _, hpin⟩ := baseValidation_none hbase
    exact ⟨⟨by simpa using hclosed, hpin, by simpa using hcat, by simpa using hf, by simpa using ho, by simpa using hs,
      by omega, Or.inr ⟨by simpa using hdc, hpv, revalLoop_clear cfg _ _ _ _ _ _ _ _ _ hloop⟩⟩, rfl⟩

/-! ### what a Drop means for the data: no fragment outside the merged parts -/

/-- `satSub`/`satAdd` widen at least as far as exact arithmetic clipped to int64. -/
theorem widened_contains {tmin tmax g ts : Int} (hlo : tmin - g ≤ ts) (hhi : ts ≤ tmax + g)
    (h64 : minI64 ≤ ts ∧ ts ≤ maxI64) : satSub tmin g ≤ ts ∧ ts ≤ satAdd tmax g := by
  unfold satSub satAdd
  constructor
  · split <;> omega
  · split <;> omega

/-! ### segment coverage -/

theorem coverageOf_eq (r : SegRange) (hz : r.startZero = false ∧ r.endZero = false)
    (h64 : minI64 ≤ r.start ∧ r.end_ ≤ maxI64) (hlt : r.start < r.end_) :
    coverageOf r = ((if r.inclStart then r.start else r.start + 1), (if r.inclEnd then r.end_ else r.end_ - 1),
      decide ((if r.inclStart then r.start else r.start + 1) ≤ (if r.inclEnd then r.end_ else r.end_ - 1))) := by
  obtain ⟨hz1, hz2⟩ := hz
  unfold minI64 maxI64 at h64
  have h1 : satAdd r.start 1 = r.start + 1 := by unfold satAdd maxI64; rw [if_neg]; omega
  have h2 : satSub r.end_ 1 = r.end_ - 1 := by unfold satSub minI64; rw [if_neg]; omega
  unfold coverageOf
  simp only [hz1, hz2, Bool.false_or, hlt, decide_true, Bool.not_true, Bool.false_eq_true, if_false, h1, h2]
  cases r.inclStart <;> cases r.inclEnd <;> rfl


end Banyan.C13
