/-
C13 helper lemmas: the structural invariant (unique part ids below the id counter, epoch counter
ahead of the snapshot, part bounds covering their spans) is preserved by every model operation.
-/
import Banyan.Lemmas.C13Clean
namespace Banyan.C13

/-! ### the structural invariant is preserved by every operation -/

/-- invariant while a merge attempt holds the reserved output id `r`. -/
structure WFR (t : Table) (r : Nat) : Prop where
  distinct : IdsDistinct t.parts
  bound : ∀ p ∈ t.parts, p.id ≤ t.curPartID ∧ p.id ≠ r
  reserved : r ≤ t.curPartID
  epoch : t.epoch < t.nextEpoch
  sound : BoundsSound t.parts

theorem wf_init (a b g : Int) : (({ segMin := a, segMax := b, grace := g } : Table)).WF :=
  ⟨List.Pairwise.nil, fun p h => by simp at h, Nat.lt_succ_self 0⟩

theorem pairwise_append_fresh (ps : List Part) (p : Part) (h : IdsDistinct ps) (hf : ∀ q ∈ ps, q.id ≠ p.id) :
    IdsDistinct (ps ++ [p]) := by
  unfold IdsDistinct at *
  rw [List.pairwise_append]
  exact ⟨h, List.pairwise_singleton _ _, fun a ha b hb => by
    have : b = p := by simpa using hb
    subst this; exact hf a ha⟩

theorem write_wf (t : Table) (sp : List Span) (h : t.WF) : (t.write sp).WF := by
  refine ⟨?_, ?_, ?_⟩
  · simp only [Table.write]
    apply pairwise_append_fresh _ _ h.distinct
    intro q hq
    have := h.bound q hq
    simp only; omega
  · intro p hp
    simp only [Table.write, List.mem_append, List.mem_singleton] at hp ⊢
    rcases hp with hp | rfl
    · have := h.bound p hp; omega
    · simp
  · simp only [Table.write]; omega

theorem flush_parts_ids (t : Table) : t.flush.parts.map (·.id) = t.parts.map (·.id) := by
  unfold Table.flush
  split
  · simp only [List.map_map]
    apply List.map_congr_left
    intro p _
    simp only [Function.comp]
    split <;> rfl
  · rfl

theorem idsDistinct_iff (ps : List Part) : IdsDistinct ps ↔ (ps.map (·.id)).Pairwise (· ≠ ·) := by
  unfold IdsDistinct
  rw [List.pairwise_map]

theorem flush_wf (t : Table) (h : t.WF) : t.flush.WF := by
  obtain ⟨_, _, f3, f4, f5, _⟩ := flush_facts t h.epoch
  refine ⟨?_, ?_, f5⟩
  · rw [idsDistinct_iff, flush_parts_ids, ← idsDistinct_iff]; exact h.distinct
  · intro p hp
    have : p.id ∈ t.flush.parts.map (·.id) := List.mem_map.mpr ⟨p, hp, rfl⟩
    rw [flush_parts_ids] at this
    obtain ⟨q, hq, hqid⟩ := List.mem_map.mp this
    rw [f3, ← hqid]; exact h.bound q hq

theorem wfr_of_wf (t : Table) (h : t.WF) (hs : BoundsSound t.parts) :
    WFR { t with curPartID := t.curPartID + 1 } (t.curPartID + 1) :=
  ⟨h.distinct, fun p hp => by have := h.bound p hp; simp only; omega, Nat.le_refl _, h.epoch, hs⟩

theorem WFR.toWF {t : Table} {r : Nat} (h : WFR t r) : t.WF := ⟨h.distinct, fun p hp => (h.bound p hp).1, h.epoch⟩

theorem wfr_applyLate {t : Table} {r : Nat} (h : WFR t r) (l : Late) (m : Bool) : WFR (applyLate t l m) r := by
  have hw : (t.write l.spans).WF := write_wf t l.spans h.toWF
  have hwr : ∀ p ∈ (t.write l.spans).parts, p.id ≠ r := by
    intro p hp
    simp only [Table.write, List.mem_append, List.mem_singleton] at hp
    rcases hp with hp | rfl
    · exact (h.bound p hp).2
    · have := h.reserved; simp only; omega
  have hcur : (t.write l.spans).curPartID = t.curPartID + 1 := rfl
  unfold applyLate
  simp only
  split
  · have hf := flush_wf _ hw
    obtain ⟨_, _, f3, _⟩ := flush_facts (t.write l.spans) hw.epoch
    refine ⟨hf.distinct, ?_, by rw [f3, hcur]; have := h.reserved; omega, hf.epoch,
      boundsSound_flush _ (boundsSound_write t l.spans h.sound)⟩
    intro p hp
    refine ⟨hf.bound p hp, ?_⟩
    have : p.id ∈ (t.write l.spans).flush.parts.map (·.id) := List.mem_map.mpr ⟨p, hp, rfl⟩
    rw [flush_parts_ids] at this
    obtain ⟨q, hq, hqid⟩ := List.mem_map.mp this
    rw [← hqid]; exact hwr q hq
  · exact ⟨hw.distinct, fun p hp => ⟨hw.bound p hp, hwr p hp⟩, by rw [hcur]; have := h.reserved; omega, hw.epoch,
      boundsSound_write t l.spans h.sound⟩

theorem wfr_fenceLate {t : Table} {r : Nat} (h : WFR t r) (late : Option Late) (m : Bool) : WFR (fenceLate t late m) r := by
  unfold fenceLate
  split
  · split
    · exact wfr_applyLate h _ m
    · exact h
  · exact h

theorem mergedPart_sound (sel : List Part) (D : List String) (id gen : Nat) (hs : BoundsSound sel) :
    ∀ s ∈ (mergedPart sel D id gen).spans, (mergedPart sel D id gen).min ≤ s.ts ∧ s.ts ≤ (mergedPart sel D id gen).max := by
  intro s hs'
  simp only [mergedPart] at hs' ⊢
  obtain ⟨hs1, _⟩ := List.mem_filter.mp hs'
  obtain ⟨p, hp, hsp⟩ := List.mem_flatMap.mp hs1
  obtain ⟨h1, h2⟩ := hs p hp s hsp
  have hne1 : sel.map (·.min) ≠ [] := by intro hc; rw [List.map_eq_nil_iff] at hc; rw [hc] at hp; cases hp
  have hne2 : sel.map (·.max) ≠ [] := by intro hc; rw [List.map_eq_nil_iff] at hc; rw [hc] at hp; cases hp
  have a := (minOfInts_spec hne1).2 p.min (List.mem_map.mpr ⟨p, hp, rfl⟩)
  have b := (maxOfInts_spec hne2).2 p.max (List.mem_map.mpr ⟨p, hp, rfl⟩)
  omega

theorem wf_publish {t : Table} {r : Nat} (h : WFR t r) (ids : List Nat) (out : Part) (osx : Option (List SEntry))
    (hout : out.id = r) (hsound : ∀ s ∈ out.spans, out.min ≤ s.ts ∧ s.ts ≤ out.max) :
    (t.publish ids out osx).WF ∧ BoundsSound (t.publish ids out osx).parts := by
  refine ⟨⟨?_, ?_, ?_⟩, ?_⟩
  · simp only [Table.publish]
    apply pairwise_append_fresh
    · exact List.Pairwise.sublist List.filter_sublist h.distinct
    · intro q hq; rw [hout]; exact (h.bound q (List.mem_filter.mp hq).1).2
  · intro p hp
    simp only [Table.publish, List.mem_append, List.mem_singleton] at hp ⊢
    rcases hp with hp | rfl
    · exact (h.bound p (List.mem_filter.mp hp).1).1
    · rw [hout]; exact h.reserved
  · simp only [Table.publish]; have := h.epoch; omega
  · intro p hp
    simp only [Table.publish, List.mem_append, List.mem_singleton] at hp
    rcases hp with hp | rfl
    · exact h.sound p (List.mem_filter.mp hp).1
    · exact hsound


/-- well-formed with sound part bounds: the invariant of every reachable table. -/
def Table.Inv (t : Table) : Prop := t.WF ∧ BoundsSound t.parts

theorem WFR.rereserve {t : Table} {r : Nat} (h : WFR t r) :
    WFR { t with curPartID := t.curPartID + 1 } (t.curPartID + 1) :=
  wfr_of_wf t h.toWF h.sound

theorem WFR.bumpEpoch {t : Table} {r : Nat} (h : WFR t r) : WFR { t with nextEpoch := t.nextEpoch + 1 } r :=
  ⟨h.distinct, h.bound, h.reserved, Nat.lt_succ_of_lt h.epoch, h.sound⟩

theorem WFR.inv {t : Table} {r : Nat} (h : WFR t r) : t.Inv := ⟨h.toWF, h.sound⟩

theorem losslessAttempt_inv {t0 : Table} (h : t0.Inv) (sel : List Part) (hsel : BoundsSound sel)
    (gen : Nat) (late : Option Late) (lateDone m : Bool) : (losslessAttempt t0 sel gen late lateDone m).Inv := by
  unfold losslessAttempt
  simp only
  have h1 := wfr_of_wf t0 h.1 h.2
  split
  · split
    · exact wf_publish (wfr_applyLate h1 _ m) _ _ _ rfl (mergedPart_sound sel [] _ gen hsel)
    · exact wf_publish h1 _ _ _ rfl (mergedPart_sound sel [] _ gen hsel)
  · exact wf_publish h1 _ _ _ rfl (mergedPart_sound sel [] _ gen hsel)

theorem firstAttempt_wfr (t : Table) (h : t.Inv) (sel : List Part) (req : MergeReq) (cfg : GConfig) (cat : GCatalog)
    (fi : Bool) (fr : Int) : WFR (firstAttempt t sel req cfg cat fi fr).2.table (t.curPartID + 1) := by
  have h1 := wfr_of_wf t h.1 h.2
  rcases (firstAttempt_spec t sel req cfg cat fi fr).1 with e | ⟨l, _, _, e⟩
  · rw [e]; exact h1
  · rw [e]; exact wfr_applyLate h1 l _

theorem filteredMerge_inv (mc : FilterOracle) (t : Table) (h : t.Inv) (sel : List Part) (hsel : BoundsSound sel)
    (req : MergeReq) (cfg : GConfig) (cat : GCatalog) (fi : Bool) (fr : Int) (gen : Nat) :
    (filteredMerge mc t sel req cfg cat fi fr gen).table.Inv := by
  have ha := firstAttempt_wfr t h sel req cfg cat fi fr
  unfold filteredMerge
  simp only
  split
  · exact wf_publish (wfr_fenceLate ha _ _) _ _ _ rfl (mergedPart_sound sel _ _ gen hsel)
  · split
    · exact losslessAttempt_inv ha.inv sel hsel gen _ _ _
    · split
      · exact losslessAttempt_inv (wfr_fenceLate ha req.late (selMemOf sel)).bumpEpoch.inv sel hsel gen none true
          (selMemOf sel)
      · exact wf_publish (wfr_fenceLate ha _ _) _ _ _ rfl (mergedPart_sound sel _ _ gen hsel)

theorem unfilteredMerge_inv (t : Table) (h : t.Inv) (sel : List Part) (hsel : BoundsSound sel) (req : MergeReq)
    (gen : Nat) : (unfilteredMerge t sel req gen).table.Inv := by
  unfold unfilteredMerge
  exact losslessAttempt_inv h sel hsel gen _ _ _

theorem boundsSound_filter {ps : List Part} (h : BoundsSound ps) (q : Part → Bool) : BoundsSound (ps.filter q) :=
  fun p hp => h p (List.mem_filter.mp hp).1

theorem hotMerge_inv (mc : FilterOracle) (t : Table) (h : t.Inv) (q : Part → Bool) (req : MergeReq) :
    (hotMerge mc t (t.parts.filter q) req).table.Inv := by
  have hs := boundsSound_filter h.2 q
  unfold hotMerge
  simp only
  repeat' split
  all_goals (first | exact unfilteredMerge_inv t h _ hs req _ | exact filteredMerge_inv mc t h _ hs req _ _ _ _ _)

theorem finalizeRound_inv (mc : FilterOracle) (t : Table) (h : t.Inv) (req : MergeReq) :
    (finalizeRound mc t req).table.Inv := by
  unfold finalizeRound
  split
  · exact h
  · split
    · exact h
    · rename_i cfg cat _
      have := filteredMerge_inv mc t h (finalizeSelection t req) (boundsSound_filter h.2 _) req cfg cat false 0
        (t.finalizeGen + 1)
      exact ⟨⟨this.1.distinct, this.1.bound, this.1.epoch⟩, this.2⟩

/-- every operation of the model preserves the invariant (so the hypotheses `t.WF` and
    `BoundsSound t.parts` of the property theorems hold for every reachable table). -/
theorem mergeOp_inv (mc : FilterOracle) (t : Table) (h : t.Inv) (s : Sel) (req : MergeReq) :
    (mergeOp mc t s req).table.Inv := by
  unfold mergeOp
  split
  · exact finalizeRound_inv mc t h req
  · simp only
    split
    · exact h
    · exact hotMerge_inv mc t h _ req

theorem write_inv (t : Table) (h : t.Inv) (sp : List Span) : (t.write sp).Inv :=
  ⟨write_wf t sp h.1, boundsSound_write t sp h.2⟩

theorem flush_inv (t : Table) (h : t.Inv) : t.flush.Inv := ⟨flush_wf t h.1, boundsSound_flush t h.2⟩

theorem init_inv (a b g : Int) : (({ segMin := a, segMax := b, grace := g } : Table)).Inv :=
  ⟨wf_init a b g, fun p hp => by simp at hp⟩

end Banyan.C13
