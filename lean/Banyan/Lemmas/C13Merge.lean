/-
C13 helper lemmas: accounting of stored rows (spans and secondary-index entries) across one
merge operation - filtered attempt, revalidation, lossless retry, publication.
-/
import Banyan.Lemmas.C13Attempt
namespace Banyan.C13

/-! ### accounting of stored rows across a merge -/

theorem rows_singleton {β : Type} (i : Nat) (l : List β) : rows [(i, l)] = l := by simp [rows]

theorem restOf_all_fresh {β : Type} (ids : List Nat) (sh : List (Nat × List β)) (h : ∀ e ∈ sh, e.1 ∉ ids) :
    restOf ids sh = sh := by
  unfold restOf
  rw [List.filter_eq_self]
  intro e he
  simp [h e he]

theorem selOf_all_fresh {β : Type} (ids : List Nat) (sh : List (Nat × List β)) (h : ∀ e ∈ sh, e.1 ∉ ids) :
    selOf ids sh = [] := by
  unfold selOf
  rw [List.filter_eq_nil_iff]
  intro e he
  simp [h e he]

def entriesShape (lsh : List (Nat × List Span)) : List (Nat × List SEntry) :=
  lsh.map fun e => (e.1, e.2.map entryOf)

theorem rows_entriesShape (lsh : List (Nat × List Span)) : rows (entriesShape lsh) = (rows lsh).map entryOf := by
  induction lsh with
  | nil => rfl
  | cons e es ih =>
    simp only [entriesShape, rows, List.map_cons, List.flatMap_cons, List.map_append] at ih ⊢
    rw [ih]

/-- `t0` is the base `(S, X)` plus freshly written parts `lsh` whose ids are not selected. -/
structure Extends (S : List (Nat × List Span)) (X : List (Nat × List SEntry)) (ids : List Nat) (t0 : Table)
    (lsh : List (Nat × List Span)) : Prop where
  parts : shape t0.parts = S ++ lsh
  sidx : t0.sidx = X ++ entriesShape lsh
  fresh : ∀ e ∈ lsh, e.1 ∉ ids
  bound : ∀ i ∈ ids, i ≤ t0.curPartID
  epoch : t0.epoch < t0.nextEpoch

theorem Extends.base (t : Table) (ids : List Nat) (hb : ∀ i ∈ ids, i ≤ t.curPartID) (he : t.epoch < t.nextEpoch) :
    Extends (shape t.parts) t.sidx ids t [] :=
  ⟨by simp, by simp [entriesShape], by simp, hb, he⟩

theorem Extends.bumpId {S X ids t0 lsh} (h : Extends S X ids t0 lsh) :
    Extends S X ids { t0 with curPartID := t0.curPartID + 1 } lsh :=
  ⟨h.parts, h.sidx, h.fresh, fun i hi => Nat.le_succ_of_le (h.bound i hi), h.epoch⟩

theorem Extends.bumpEpoch {S X ids t0 lsh} (h : Extends S X ids t0 lsh) :
    Extends S X ids { t0 with nextEpoch := t0.nextEpoch + 1 } lsh :=
  ⟨h.parts, h.sidx, h.fresh, h.bound, Nat.lt_succ_of_lt h.epoch⟩

theorem Extends.applyLate {S X ids t0 lsh} (h : Extends S X ids t0 lsh) (l : Late) (m : Bool) :
    Extends S X ids (applyLate t0 l m) (lsh ++ [(t0.curPartID + 1, l.spans)]) := by
  obtain ⟨h1, h2, h3, h4, h5⟩ := applyLate_facts t0 l m h.epoch
  refine ⟨?_, ?_, ?_, ?_, h5⟩
  · rw [h1, h.parts, List.append_assoc]
  · rw [h2, h.sidx]; simp [entriesShape]
  · intro e he
    rcases List.mem_append.mp he with he' | he'
    · exact h.fresh e he'
    · have : e = (t0.curPartID + 1, l.spans) := by simpa using he'
      subst this
      intro hc
      have := h.bound _ hc
      simp only at this
      omega
  · intro i hi; rw [h3]; exact Nat.le_succ_of_le (h.bound i hi)

/-- what a table stores after a merge, relative to the base `(S, X)`: the unselected rows, the
    rows `L` written meanwhile, and the selected rows minus the traces in `D`. -/
structure Accounted (S : List (Nat × List Span)) (X : List (Nat × List SEntry)) (ids : List Nat) (t' : Table)
    (L : List Span) (D : List String) : Prop where
  spans : rows (shape t'.parts) =
    (rows (restOf ids S) ++ L) ++ (rows (selOf ids S)).filter fun s => !D.contains s.tid
  sidx : rows t'.sidx =
    (rows (restOf ids X) ++ L.map entryOf) ++ (rows (selOf ids X)).filter fun e => !D.contains e.tid

theorem Extends.publish {S X ids t0 lsh} (h : Extends S X ids t0 lsh) (out : Part) (D : List String)
    (hout : out.spans = (rows (selOf ids S)).filter fun s => !D.contains s.tid)
    (sx Y : List (Nat × List SEntry)) (hsx : sx = X ++ Y) (hY : ∀ e ∈ Y, e.1 ∉ ids) :
    Accounted S X ids
      (t0.publish ids out (if (sx.any fun e => ids.contains e.1) then some (mergedSidx sx ids D) else none))
      (rows lsh) D := by
  subst hsx
  obtain ⟨hp, hs⟩ := publish_shape t0 ids out
    (if ((X ++ Y).any fun e => ids.contains e.1) then some (mergedSidx (X ++ Y) ids D) else none)
  have hfx : ∀ e ∈ entriesShape lsh, e.1 ∉ ids := by
    intro e he
    simp only [entriesShape, List.mem_map] at he
    obtain ⟨e0, he0, rfl⟩ := he
    exact h.fresh e0 he0
  constructor
  · rw [hp, h.parts, restOf_append, restOf_all_fresh ids lsh h.fresh, rows_append, rows_append, rows_singleton, hout]
  · rw [hs, h.sidx, restOf_append, restOf_all_fresh ids _ hfx, rows_append, rows_append, rows_entriesShape]
    congr 1
    by_cases hany : ((X ++ Y).any fun e => ids.contains e.1) = true
    · simp only [hany, if_true]
      rw [rows_singleton, mergedSidx_eq, selOf_append, selOf_all_fresh ids _ hY, List.append_nil]
    · have hnil : selOf ids X = [] := by
        unfold selOf
        rw [List.filter_eq_nil_iff]
        intro e he hc
        apply hany
        rw [List.any_eq_true]
        exact ⟨e, List.mem_append_left _ he, hc⟩
      rw [if_neg hany, hnil]
      rfl

theorem Extends.sidxFresh {S X ids t0 lsh} (h : Extends S X ids t0 lsh) : ∀ e ∈ entriesShape lsh, e.1 ∉ ids := by
  intro e he
  simp only [entriesShape, List.mem_map] at he
  obtain ⟨e0, he0, rfl⟩ := he
  exact h.fresh e0 he0

/-- `L` is nothing, or exactly the spans of the late part the case asks for. -/
def LateOK (late : Option Late) (L : List Span) : Prop := L = [] ∨ ∃ l, late = some l ∧ L = l.spans

theorem fenceLate_extends {S X ids t0 lsh} (h : Extends S X ids t0 lsh) (late : Option Late) (m : Bool) :
    ∃ lsh', Extends S X ids (fenceLate t0 late m) lsh' ∧
      ((lsh' = lsh ∧ fenceLate t0 late m = t0) ∨
       ∃ l, late = some l ∧ l.atDecide = false ∧ lsh' = lsh ++ [(t0.curPartID + 1, l.spans)] ∧
         t0.epoch < (fenceLate t0 late m).epoch) := by
  unfold fenceLate
  split
  · rename_i l
    split
    · rename_i hc
      refine ⟨_, h.applyLate l m, Or.inr ⟨l, rfl, by simpa using hc, rfl, ?_⟩⟩
      exact (applyLate_facts t0 l m h.epoch).2.2.2.1
    · exact ⟨lsh, h, Or.inl ⟨rfl, rfl⟩⟩
  · exact ⟨lsh, h, Or.inl ⟨rfl, rfl⟩⟩

theorem losslessAttempt_accounted {S X ids t0 lsh} (h : Extends S X ids t0 lsh) (sel : List Part) (gen : Nat)
    (late : Option Late) (lateDone m : Bool) (hids : ids = sel.map (·.id)) (hsel : shape sel = selOf ids S) :
    ∃ lsh', Accounted S X ids (losslessAttempt t0 sel gen late lateDone m) (rows lsh') [] ∧
      (lsh' = lsh ∨ ∃ l, late = some l ∧ l.atDecide = false ∧ lateDone = false ∧
        lsh' = lsh ++ [(t0.curPartID + 2, l.spans)]) := by
  unfold losslessAttempt
  simp only
  have h1 := h.bumpId
  have hout : (mergedPart sel [] (t0.curPartID + 1) gen).spans =
      (rows (selOf ids S)).filter fun s => !([] : List String).contains s.tid := by
    rw [mergedPart_spans, hsel]
  rw [← hids]
  split
  · rename_i l
    split
    · rename_i hc
      simp only [Bool.and_eq_true, Bool.not_eq_eq_eq_not, Bool.not_true] at hc
      exact ⟨_, (h1.applyLate l m).publish _ [] hout _ _ h1.sidx h1.sidxFresh, Or.inr ⟨l, rfl, hc.1, hc.2, rfl⟩⟩
    · exact ⟨_, h1.publish _ [] hout _ _ h1.sidx h1.sidxFresh, Or.inl rfl⟩
  · exact ⟨_, h1.publish _ [] hout _ _ h1.sidx h1.sidxFresh, Or.inl rfl⟩


/-! ### the filtered merge as a whole -/

theorem firstAttempt_spec (t : Table) (sel : List Part) (req : MergeReq) (cfg : GConfig) (cat : GCatalog)
    (fi : Bool) (fr : Int) :
    ((firstAttempt t sel req cfg cat fi fr).2.table = { t with curPartID := t.curPartID + 1 } ∨
      ∃ l, req.late = some l ∧ l.atDecide = true ∧
        (firstAttempt t sel req cfg cat fi fr).2.table = applyLate { t with curPartID := t.curPartID + 1 } l (selMemOf sel)) ∧
    (∀ tid ∈ (firstAttempt t sel req cfg cat fi fr).1,
      DropWhy cfg cat sel req.tab (batchesOf sel req fi fr) (firstAttempt t sel req cfg cat fi fr).2.gst.drops tid) := by
  unfold firstAttempt
  obtain ⟨hl, _, hd⟩ := runBatches_spec cfg cat sel req (selMemOf sel) (batchesOf sel req fi fr)
    { table := { t with curPartID := t.curPartID + 1 }, gst := { pinned := true },
      tracker := { budget := if req.dropSetBudget = 0 then defaultDropSetBudget else req.dropSetBudget },
      log := [], lateDone := false } []
  refine ⟨?_, fun tid ht => (hd tid ht).resolve_left (by simp)⟩
  rcases hl with ⟨h1, _⟩ | ⟨_, l, h2, h3, h4, _⟩
  · exact Or.inl h1
  · exact Or.inr ⟨l, h2, h3, h4⟩

/-- a filtered output with a non-empty drop set was published: the pre-publication
    revalidation said Publish and the introducer saw the very epoch that was revalidated. -/
structure DropPublished (mc : FilterOracle) (t : Table) (sel : List Part) (req : MergeReq) (cfg : GConfig)
    (cat : GCatalog) (fi : Bool) (fr : Int) (D : List String) : Prop where
  dropped : D = (firstAttempt t sel req cfg cat fi fr).1
  revalidated : (preRevalidation mc t (firstAttempt t sel req cfg cat fi fr).2.table sel cfg cat
      (firstAttempt t sel req cfg cat fi fr).2.gst).publish = true
  epoch : (fenceLate (firstAttempt t sel req cfg cat fi fr).2.table req.late (selMemOf sel)).epoch =
    (preRevalidation mc t (firstAttempt t sel req cfg cat fi fr).2.table sel cfg cat
      (firstAttempt t sel req cfg cat fi fr).2.gst).epoch

theorem lateOK_of_shapes {late : Option Late} {lsh : List (Nat × List Span)}
    (h : lsh = [] ∨ ∃ l i, late = some l ∧ lsh = [(i, l.spans)]) : LateOK late (rows lsh) := by
  rcases h with rfl | ⟨l, i, hl, rfl⟩
  · exact Or.inl rfl
  · exact Or.inr ⟨l, hl, rows_singleton i l.spans⟩

theorem revalidate_epoch (cfg : GConfig) (cat : GCatalog) (st : GState) (req : RevalReq) (ca : Option Nat) :
    (revalidate cfg cat st req ca).1.epoch = req.epoch := by
  unfold revalidate
  simp only
  repeat' split
  all_goals rfl

theorem preRevalidation_epoch (mc : FilterOracle) (base cur : Table) (sel : List Part) (cfg : GConfig)
    (cat : GCatalog) (gst : GState) : (preRevalidation mc base cur sel cfg cat gst).epoch = cur.epoch := by
  unfold preRevalidation
  rw [revalidate_epoch]

theorem filteredMerge_accounted (mc : FilterOracle) (t : Table) (sel : List Part) (req : MergeReq) (cfg : GConfig)
    (cat : GCatalog) (fi : Bool) (fr : Int) (gen : Nat)
    (hb : ∀ p ∈ sel, p.id ≤ t.curPartID) (hsel : shape sel = selOf (sel.map (·.id)) (shape t.parts))
    (he : t.epoch < t.nextEpoch) :
    ∃ L D, LateOK req.late L ∧
      Accounted (shape t.parts) t.sidx (sel.map (·.id)) (filteredMerge mc t sel req cfg cat fi fr gen).table L D ∧
      (D = [] ∨ (DropPublished mc t sel req cfg cat fi fr D ∧
        ∃ lsh, shape (firstAttempt t sel req cfg cat fi fr).2.table.parts = shape t.parts ++ lsh ∧ L = rows lsh)) := by
  have hbase : Extends (shape t.parts) t.sidx (sel.map (·.id)) { t with curPartID := t.curPartID + 1 } [] :=
    (Extends.base t _ (by intro i hi; obtain ⟨p, hp, rfl⟩ := List.mem_map.mp hi; exact hb p hp) he).bumpId
  obtain ⟨htab, _⟩ := firstAttempt_spec t sel req cfg cat fi fr
  -- the attempt's table extends the base by nothing or by the part written inside Decide
  have hext : ∃ lsh1, Extends (shape t.parts) t.sidx (sel.map (·.id)) (firstAttempt t sel req cfg cat fi fr).2.table lsh1 ∧
      (lsh1 = [] ∨ ∃ l, req.late = some l ∧ l.atDecide = true ∧ lsh1 = [(t.curPartID + 2, l.spans)]) := by
    rcases htab with h1 | ⟨l, h2, h3, h4⟩
    · exact ⟨[], by rw [h1]; exact hbase, Or.inl rfl⟩
    · exact ⟨_, by rw [h4]; exact hbase.applyLate l _, Or.inr ⟨l, h2, h3, by simp⟩⟩
  obtain ⟨lsh1, hx1, hl1⟩ := hext
  unfold filteredMerge
  simp only
  split
  · -- nothing dropped: published without a guard
    rename_i hempty
    have hD : (firstAttempt t sel req cfg cat fi fr).1 = [] := by simpa using hempty
    obtain ⟨lsh2, hx2, hl2⟩ := fenceLate_extends hx1 req.late (selMemOf sel)
    have hout : (mergedPart sel [] (t.curPartID + 1) gen).spans =
        (rows (selOf (sel.map (·.id)) (shape t.parts))).filter fun s => !([] : List String).contains s.tid := by
      rw [mergedPart_spans, hsel]
    refine ⟨rows lsh2, [], ?_, ?_, Or.inl rfl⟩
    · apply lateOK_of_shapes
      rcases hl2 with ⟨rfl, _⟩ | ⟨l, h1, h2, rfl, _⟩
      · rcases hl1 with rfl | ⟨l, h1, _, rfl⟩
        · exact Or.inl rfl
        · exact Or.inr ⟨l, _, h1, rfl⟩
      · rcases hl1 with rfl | ⟨l', h1', h2', _⟩
        · exact Or.inr ⟨l, _, h1, List.nil_append _⟩
        · rw [h1] at h1'; cases h1'; rw [h2] at h2'; cases h2'
    · have := hx2.publish _ [] hout _ _ hx1.sidx hx1.sidxFresh
      rw [hD]
      exact this
  · split
    · -- rejected by the pre-publication revalidation: lossless retry
      obtain ⟨lsh2, hacc, hl2⟩ := losslessAttempt_accounted hx1 sel gen req.late
        (firstAttempt t sel req cfg cat fi fr).2.lateDone (selMemOf sel) rfl hsel
      refine ⟨rows lsh2, [], ?_, hacc, Or.inl rfl⟩
      apply lateOK_of_shapes
      rcases hl2 with rfl | ⟨l, h1, h2, _, rfl⟩
      · rcases hl1 with rfl | ⟨l, h1, _, rfl⟩
        · exact Or.inl rfl
        · exact Or.inr ⟨l, _, h1, rfl⟩
      · rcases hl1 with rfl | ⟨l', h1', h2', _⟩
        · exact Or.inr ⟨l, _, h1, List.nil_append _⟩
        · rw [h1] at h1'; cases h1'; rw [h2] at h2'; cases h2'
    · obtain ⟨lsh2, hx2, hl2⟩ := fenceLate_extends hx1 req.late (selMemOf sel)
      have hlate : lsh2 = [] ∨ ∃ l i, req.late = some l ∧ lsh2 = [(i, l.spans)] := by
        rcases hl2 with ⟨rfl, _⟩ | ⟨l, h1, h2, rfl, _⟩
        · rcases hl1 with rfl | ⟨l, h1, _, rfl⟩
          · exact Or.inl rfl
          · exact Or.inr ⟨l, _, h1, rfl⟩
        · rcases hl1 with rfl | ⟨l', h1', h2', _⟩
          · exact Or.inr ⟨l, _, h1, List.nil_append _⟩
          · rw [h1] at h1'; cases h1'; rw [h2] at h2'; cases h2'
      split
      · -- the introducer saw another epoch: rejected, lossless retry (no further late part)
        obtain ⟨lsh3, hacc, hl3⟩ := losslessAttempt_accounted hx2.bumpEpoch sel gen none true (selMemOf sel) rfl hsel
        have : lsh3 = lsh2 := by
          rcases hl3 with h | ⟨l, h, _⟩
          · exact h
          · cases h
        subst this
        exact ⟨rows lsh3, [], lateOK_of_shapes hlate, hacc, Or.inl rfl⟩
      · -- published with its drop set
        rename_i hne hpub hep
        have hout : (mergedPart sel (firstAttempt t sel req cfg cat fi fr).1 (t.curPartID + 1) gen).spans =
            (rows (selOf (sel.map (·.id)) (shape t.parts))).filter
              fun s => !((firstAttempt t sel req cfg cat fi fr).1).contains s.tid := by
          rw [mergedPart_spans, hsel]
        have hep' : (fenceLate (firstAttempt t sel req cfg cat fi fr).2.table req.late (selMemOf sel)).epoch =
            (preRevalidation mc t (firstAttempt t sel req cfg cat fi fr).2.table sel cfg cat
              (firstAttempt t sel req cfg cat fi fr).2.gst).epoch := by simpa using hep
        have h21 : lsh2 = lsh1 := by
          rcases hl2 with ⟨h, _⟩ | ⟨l, _, _, _, hlt⟩
          · exact h
          · rw [hep', preRevalidation_epoch] at hlt
            exact absurd hlt (Nat.lt_irrefl _)
        refine ⟨rows lsh2, (firstAttempt t sel req cfg cat fi fr).1, lateOK_of_shapes hlate,
          hx2.publish _ _ hout _ _ hx1.sidx hx1.sidxFresh, Or.inr ⟨⟨rfl, ?_, hep'⟩, lsh1, hx1.parts, by rw [h21]⟩⟩
        simpa using hpub

theorem unfilteredMerge_accounted (t : Table) (sel : List Part) (req : MergeReq) (gen : Nat)
    (hb : ∀ p ∈ sel, p.id ≤ t.curPartID) (hsel : shape sel = selOf (sel.map (·.id)) (shape t.parts))
    (he : t.epoch < t.nextEpoch) :
    ∃ L, LateOK req.late L ∧
      Accounted (shape t.parts) t.sidx (sel.map (·.id)) (unfilteredMerge t sel req gen).table L [] := by
  have hbase : Extends (shape t.parts) t.sidx (sel.map (·.id)) t [] :=
    Extends.base t _ (by intro i hi; obtain ⟨p, hp, rfl⟩ := List.mem_map.mp hi; exact hb p hp) he
  unfold unfilteredMerge
  simp only
  obtain ⟨lsh, hacc, hl⟩ := losslessAttempt_accounted hbase sel gen
    (match req.late with | some l => if l.atDecide then none else some l | none => none) false (selMemOf sel) rfl hsel
  refine ⟨rows lsh, ?_, hacc⟩
  apply lateOK_of_shapes
  rcases hl with rfl | ⟨l, h1, _, _, rfl⟩
  · exact Or.inl rfl
  · refine Or.inr ⟨l, _, ?_, List.nil_append _⟩
    split at h1
    · rename_i l0 hl0
      split at h1
      · cases h1
      · cases h1; exact hl0
    · cases h1

theorem shape_filter_of_ids (q : Part → Bool) :
    ∀ (ps : List Part), IdsDistinct ps → shape (ps.filter q) = selOf ((ps.filter q).map (·.id)) (shape ps) := by
  intro ps
  induction ps with
  | nil => intro _; rfl
  | cons p ps ih =>
    intro hd
    have hd' : IdsDistinct ps := (List.pairwise_cons.mp hd).2
    have hne : ∀ x ∈ ps, p.id ≠ x.id := (List.pairwise_cons.mp hd).1
    by_cases hq : q p = true
    · simp only [List.filter_cons, hq, if_true, List.map_cons, shape, selOf, List.contains_cons,
        BEq.rfl, Bool.true_or]
      congr 1
      have := ih hd'
      simp only [shape, selOf] at this
      rw [this]
      apply List.filter_congr
      intro e he
      obtain ⟨x, hx, rfl⟩ := List.mem_map.mp he
      have : (x.id == p.id) = false := by
        simp only [beq_eq_false_iff_ne]; exact fun h => hne x hx h.symm
      simp [this]
    · have hq' : q p = false := by simpa using hq
      simp only [List.filter_cons, hq', shape, selOf, List.map_cons]
      have hnot : ((ps.filter q).map (·.id)).contains p.id = false := by
        rw [← Bool.not_eq_true, List.contains_iff_mem]
        intro hc
        obtain ⟨x, hx, hxid⟩ := List.mem_map.mp hc
        exact hne x (List.mem_filter.mp hx).1 hxid.symm
      have := ih hd'
      simp only [shape, selOf] at this
      simp only [Bool.false_eq_true, if_false, hnot]
      exact this


/-! ### per-trace reading of `Accounted` -/

theorem filter_keep_same {β : Type} (f : β → String) (D : List String) (tid : String) (l : List β) (h : tid ∉ D) :
    (l.filter fun s => !D.contains (f s)).filter (fun s => f s == tid) = l.filter (fun s => f s == tid) := by
  rw [List.filter_filter]
  apply List.filter_congr
  intro x _
  by_cases hx : f x = tid
  · simp [hx, h]
  · simp [hx]

theorem filter_keep_none {β : Type} (f : β → String) (D : List String) (tid : String) (l : List β) (h : tid ∈ D) :
    (l.filter fun s => !D.contains (f s)).filter (fun s => f s == tid) = [] := by
  rw [List.filter_filter, List.filter_eq_nil_iff]
  intro x _
  by_cases hx : f x = tid
  · simp [hx, h]
  · simp [hx]

theorem Accounted.spans_kept {S X ids t' L D} (h : Accounted S X ids t' L D) (tid : String) (hk : tid ∉ D) :
    ((rows (shape t'.parts)).filter (·.tid == tid)).Perm
      ((rows S).filter (·.tid == tid) ++ L.filter (·.tid == tid)) := by
  rw [h.spans, List.filter_append, List.filter_append, filter_keep_same (fun s : Span => s.tid) D tid _ hk]
  have hs := (rows_split ids S).filter (·.tid == tid)
  rw [List.filter_append] at hs
  refine List.Perm.trans ?_ (List.Perm.append_right _ hs.symm)
  -- (A ++ L) ++ B ~ (B ++ A) ++ L
  refine List.Perm.trans List.perm_append_comm ?_
  rw [List.append_assoc]

theorem Accounted.spans_dropped {S X ids t' L D} (h : Accounted S X ids t' L D) (tid : String) (hd : tid ∈ D) :
    (rows (shape t'.parts)).filter (·.tid == tid) =
      (rows (restOf ids S)).filter (·.tid == tid) ++ L.filter (·.tid == tid) := by
  rw [h.spans, List.filter_append, List.filter_append, filter_keep_none (fun s : Span => s.tid) D tid _ hd,
    List.append_nil]

theorem Accounted.sidx_kept {S X ids t' L D} (h : Accounted S X ids t' L D) (tid : String) (hk : tid ∉ D) :
    ((rows t'.sidx).filter (·.tid == tid)).Perm
      ((rows X).filter (·.tid == tid) ++ (L.map entryOf).filter (·.tid == tid)) := by
  rw [h.sidx, List.filter_append, List.filter_append, filter_keep_same (fun e : SEntry => e.tid) D tid _ hk]
  have hs := (rows_split ids X).filter (·.tid == tid)
  rw [List.filter_append] at hs
  refine List.Perm.trans ?_ (List.Perm.append_right _ hs.symm)
  refine List.Perm.trans List.perm_append_comm ?_
  rw [List.append_assoc]

theorem Accounted.sidx_dropped {S X ids t' L D} (h : Accounted S X ids t' L D) (tid : String) (hd : tid ∈ D) :
    (rows t'.sidx).filter (·.tid == tid) =
      (rows (restOf ids X)).filter (·.tid == tid) ++ (L.map entryOf).filter (·.tid == tid) := by
  rw [h.sidx, List.filter_append, List.filter_append, filter_keep_none (fun e : SEntry => e.tid) D tid _ hd,
    List.append_nil]

theorem Accounted.noop (t : Table) : Accounted (shape t.parts) t.sidx [] t [] [] := by
  have h1 : ∀ {α : Type} (l : List α), l.filter (fun _ => true) = l := fun l => List.filter_eq_self.mpr (by simp)
  have h2 : ∀ {α : Type} (l : List α), l.filter (fun _ => false) = [] := fun l => List.filter_eq_nil_iff.mpr (by simp)
  constructor <;> simp [restOf, selOf, rows, h1, h2]

theorem spansOf_eq (t : Table) (tid : String) : t.spansOf tid = (rows (shape t.parts)).filter (·.tid == tid) :=
  partsSpansOf_eq t.parts tid

theorem entriesOf_eq (t : Table) (tid : String) : t.entriesOf tid = (rows t.sidx).filter (·.tid == tid) := rfl


/-! ### the merge operation as a whole -/

/-- a filtered output with drop set `D` was published for the selection `sel`. -/
def DropRan (mc : FilterOracle) (t : Table) (req : MergeReq) (sel : List Part) (L : List Span) (D : List String) : Prop :=
  ∃ cfg cat fi fr, guardSession mc t sel = some (cfg, cat) ∧
    DropPublished mc t sel req cfg cat fi fr D ∧
    ∃ lsh, shape (firstAttempt t sel req cfg cat fi fr).2.table.parts = shape t.parts ++ lsh ∧ L = rows lsh

/-- result of a merge operation in accounting form. -/
def MergeAccounted (mc : FilterOracle) (t : Table) (req : MergeReq) (t' : Table) : Prop :=
  ∃ sel L D, (∃ q, sel = t.parts.filter q) ∧ LateOK req.late L ∧
    Accounted (shape t.parts) t.sidx (sel.map (·.id)) t' L D ∧ (D = [] ∨ DropRan mc t req sel L D)

theorem MergeAccounted.noop (mc : FilterOracle) (t : Table) (req : MergeReq) (t' : Table)
    (hp : t'.parts = t.parts) (hs : t'.sidx = t.sidx) : MergeAccounted mc t req t' := by
  refine ⟨[], [], [], ⟨fun _ => false, by simp⟩, Or.inl rfl, ?_, Or.inl rfl⟩
  have := Accounted.noop t
  exact ⟨by rw [hp]; exact this.spans, by rw [hs]; exact this.sidx⟩

theorem sel_facts (t : Table) (hwf : t.WF) (q : Part → Bool) :
    (∀ p ∈ t.parts.filter q, p.id ≤ t.curPartID) ∧
    shape (t.parts.filter q) = selOf ((t.parts.filter q).map (·.id)) (shape t.parts) :=
  ⟨fun p hp => hwf.bound p (List.mem_filter.mp hp).1, shape_filter_of_ids q t.parts hwf.distinct⟩

theorem hotMerge_accounted (mc : FilterOracle) (t : Table) (hwf : t.WF) (q : Part → Bool) (req : MergeReq) :
    MergeAccounted mc t req (hotMerge mc t (t.parts.filter q) req).table := by
  obtain ⟨hb, hsel⟩ := sel_facts t hwf q
  have hunf : ∀ gen, MergeAccounted mc t req (unfilteredMerge t (t.parts.filter q) req gen).table := by
    intro gen
    obtain ⟨L, hl, hacc⟩ := unfilteredMerge_accounted t _ req gen hb hsel hwf.epoch
    exact ⟨_, L, [], ⟨q, rfl⟩, hl, hacc, Or.inl rfl⟩
  unfold hotMerge
  simp only
  split
  · exact hunf _
  · rename_i hmode
    split
    · exact hunf _
    · split
      · exact hunf _
      · rename_i cfg cat hgs
        obtain ⟨L, D, hl, hacc, hd⟩ := filteredMerge_accounted mc t _ req cfg cat true
          (satSub req.now t.grace) (minGen (t.parts.filter q)) hb hsel hwf.epoch
        refine ⟨_, L, D, ⟨q, rfl⟩, hl, hacc, hd.imp id ?_⟩
        rintro ⟨hdp, lsh, h1, h2⟩
        exact ⟨cfg, cat, true, _, hgs, hdp, lsh, h1, h2⟩

theorem finalizeRound_accounted (mc : FilterOracle) (t : Table) (hwf : t.WF) (req : MergeReq) :
    MergeAccounted mc t req (finalizeRound mc t req).table := by
  unfold finalizeRound
  split
  · exact MergeAccounted.noop mc t req t rfl rfl
  · split
    · exact MergeAccounted.noop mc t req t rfl rfl
    · rename_i cfg cat hgs
      unfold finalizeSelection at hgs ⊢
      obtain ⟨hb, hsel⟩ := sel_facts t hwf
        (fun p => !p.mem && decide (p.count ≥ 1) && decide (p.gen < t.finalizeGen + 1) &&
          decide (p.max ≤ satSub req.now (if req.finalizeGrace > t.grace then req.finalizeGrace else t.grace)))
      obtain ⟨L, D, hl, hacc, hd⟩ := filteredMerge_accounted mc t _ req cfg cat false 0 (t.finalizeGen + 1)
        hb hsel hwf.epoch
      refine ⟨_, L, D, ⟨_, rfl⟩, hl, ⟨hacc.spans, hacc.sidx⟩, hd.imp id ?_⟩
      rintro ⟨hdp, lsh, h1, h2⟩
      exact ⟨cfg, cat, false, 0, hgs, hdp, lsh, h1, h2⟩

theorem mergeOp_accounted (mc : FilterOracle) (t : Table) (hwf : t.WF) (s : Sel) (req : MergeReq) :
    MergeAccounted mc t req (mergeOp mc t s req).table := by
  unfold mergeOp
  split
  · exact finalizeRound_accounted mc t hwf req
  · simp only
    split
    · exact MergeAccounted.noop mc t req t rfl rfl
    · exact hotMerge_accounted mc t hwf _ req


end Banyan.C13
