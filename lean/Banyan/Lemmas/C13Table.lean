/-
C13 helper lemmas, table level: what write / flush / late parts / publication do to the stored
rows. Everything is phrased over "shapes" `List (Nat × List β)` (part id ↦ rows), which is all
that span and secondary-index accounting depends on.
-/
import Banyan.Model.C13

namespace Banyan.C13

/-! ### shapes -/

/-- all rows of a shape. -/
def rows {β : Type} (sh : List (Nat × List β)) : List β := sh.flatMap (·.2)

/-- id ↦ spans view of a snapshot. -/
def shape (ps : List Part) : List (Nat × List Span) := ps.map fun p => (p.id, p.spans)

def selOf {β : Type} (ids : List Nat) (sh : List (Nat × List β)) : List (Nat × List β) :=
  sh.filter fun e => ids.contains e.1

def restOf {β : Type} (ids : List Nat) (sh : List (Nat × List β)) : List (Nat × List β) :=
  sh.filter fun e => !ids.contains e.1

theorem rows_append {β : Type} (a b : List (Nat × List β)) : rows (a ++ b) = rows a ++ rows b := by
  simp [rows, List.flatMap_append]

theorem rows_split {β : Type} (ids : List Nat) (sh : List (Nat × List β)) :
    (rows sh).Perm (rows (selOf ids sh) ++ rows (restOf ids sh)) := by
  unfold rows selOf restOf
  rw [← List.flatMap_append]
  exact (List.Perm.flatMap_right _ (List.filter_append_perm _ sh)).symm

theorem selOf_append {β : Type} (ids : List Nat) (a b : List (Nat × List β)) :
    selOf ids (a ++ b) = selOf ids a ++ selOf ids b := by simp [selOf]

theorem restOf_append {β : Type} (ids : List Nat) (a b : List (Nat × List β)) :
    restOf ids (a ++ b) = restOf ids a ++ restOf ids b := by simp [restOf]

theorem selOf_fresh {β : Type} (ids : List Nat) (e : Nat × List β) (h : e.1 ∉ ids) : selOf ids [e] = [] := by
  simp [selOf, h]

theorem restOf_fresh {β : Type} (ids : List Nat) (e : Nat × List β) (h : e.1 ∉ ids) : restOf ids [e] = [e] := by
  simp [restOf, h]

theorem partsSpansOf_eq (ps : List Part) (tid : String) :
    partsSpansOf ps tid = (rows (shape ps)).filter (·.tid == tid) := by
  unfold partsSpansOf spansOfTid rows shape
  rw [List.filter_flatMap, List.flatMap_map]

theorem shape_append (a b : List Part) : shape (a ++ b) = shape a ++ shape b := by simp [shape]

theorem shape_filter_ids (ids : List Nat) (ps : List Part) :
    shape (ps.filter fun p => !ids.contains p.id) = restOf ids (shape ps) := by
  unfold shape restOf
  rw [List.filter_map]
  rfl

theorem shape_filter_sel (ids : List Nat) (ps : List Part) :
    shape (ps.filter fun p => ids.contains p.id) = selOf ids (shape ps) := by
  unfold shape selOf
  rw [List.filter_map]
  rfl

/-! ### write / flush / late parts -/

theorem write_shape (t : Table) (sp : List Span) :
    shape (t.write sp).parts = shape t.parts ++ [(t.curPartID + 1, sp)] ∧
    (t.write sp).sidx = t.sidx ++ [(t.curPartID + 1, sp.map entryOf)] ∧
    (t.write sp).curPartID = t.curPartID + 1 ∧
    (t.write sp).epoch = t.nextEpoch ∧ (t.write sp).nextEpoch = t.nextEpoch + 1 := by
  simp [Table.write, shape]

theorem flush_facts (t : Table) (h : t.epoch < t.nextEpoch) :
    shape t.flush.parts = shape t.parts ∧ t.flush.sidx = t.sidx ∧ t.flush.curPartID = t.curPartID ∧
    t.epoch ≤ t.flush.epoch ∧ t.flush.epoch < t.flush.nextEpoch ∧ t.nextEpoch ≤ t.flush.nextEpoch := by
  unfold Table.flush
  split
  · refine ⟨?_, rfl, rfl, ?_, ?_, ?_⟩
    · simp only [shape, List.map_map]
      apply List.map_congr_left
      intro p _
      simp only [Function.comp]
      split <;> rfl
    · simp only; omega
    · simp only; omega
    · simp only; omega
  · exact ⟨rfl, rfl, rfl, Nat.le_refl _, h, Nat.le_refl _⟩

theorem applyLate_facts (t : Table) (l : Late) (m : Bool) (h : t.epoch < t.nextEpoch) :
    shape (applyLate t l m).parts = shape t.parts ++ [(t.curPartID + 1, l.spans)] ∧
    (applyLate t l m).sidx = t.sidx ++ [(t.curPartID + 1, l.spans.map entryOf)] ∧
    (applyLate t l m).curPartID = t.curPartID + 1 ∧
    t.epoch < (applyLate t l m).epoch ∧ (applyLate t l m).epoch < (applyLate t l m).nextEpoch := by
  obtain ⟨h1, h2, h3, h4, h5⟩ := write_shape t l.spans
  have hw : (t.write l.spans).epoch < (t.write l.spans).nextEpoch := by omega
  unfold applyLate
  simp only
  split
  · obtain ⟨f1, f2, f3, f4, f5, _⟩ := flush_facts (t.write l.spans) hw
    exact ⟨by rw [f1, h1], by rw [f2, h2], by rw [f3, h3], by omega, f5⟩
  · exact ⟨h1, h2, h3, by omega, hw⟩

/-! ### publication -/

theorem publish_shape (t : Table) (ids : List Nat) (out : Part) (osx : Option (List SEntry)) :
    shape (t.publish ids out osx).parts = restOf ids (shape t.parts) ++ [(out.id, out.spans)] ∧
    (t.publish ids out osx).sidx = restOf ids t.sidx ++ (match osx with | some es => [(out.id, es)] | none => []) := by
  constructor
  · simp only [Table.publish, shape_append, shape_filter_ids]
    rfl
  · simp only [Table.publish, restOf]; rfl

theorem mergedSidx_eq (sidx : List (Nat × List SEntry)) (ids : List Nat) (dropped : List String) :
    mergedSidx sidx ids dropped = (rows (selOf ids sidx)).filter fun e => !dropped.contains e.tid := rfl

theorem mergedPart_spans (sel : List Part) (dropped : List String) (id gen : Nat) :
    (mergedPart sel dropped id gen).spans = (rows (shape sel)).filter fun s => !dropped.contains s.tid := by
  simp [mergedPart, rows, shape, List.flatMap_map]

theorem filter_not_contains_nil {β : Type} (f : β → String) (l : List β) :
    l.filter (fun s => !([] : List String).contains (f s)) = l := by
  simp


end Banyan.C13
