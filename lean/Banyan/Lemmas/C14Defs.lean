/-
C14 helper layer 1: sums over the thread list, pc classes, the per-pc thread-local knowledge `TL`,
the rely/guarantee interface (`Pre` = what the acting thread needs from the global invariant,
`Guar` = what its step may do to the shared state as seen by the other threads).
-/
import Banyan.Model.C14
namespace Banyan.C14

def lsum (f : Th → Int) : List Th → Int
  | [] => 0
  | th :: r => f th + lsum f r

theorem lsum_set (f : Th → Int) : ∀ (ts : List Th) (t : Nat) (th th' : Th), ts[t]? = some th →
    lsum f (ts.set t th') = lsum f ts - f th + f th'
  | [], t, th, th', h => by simp at h
  | x :: r, 0, th, th', h => by
    simp at h; subst h; simp [lsum]; omega
  | x :: r, t + 1, th, th', h => by
    simp at h; simp [lsum, lsum_set f r t th th' h]; omega

theorem lsum_append (f : Th → Int) (x : Th) : ∀ ts : List Th, lsum f (ts ++ [x]) = lsum f ts + f x
  | [] => by simp [lsum]
  | y :: r => by simp [lsum, lsum_append f x r]; omega

theorem lsum_ge (f : Th → Int) (hf : ∀ x, 0 ≤ f x) : ∀ (ts : List Th) (t : Nat) (th : Th), ts[t]? = some th →
    f th ≤ lsum f ts ∧ 0 ≤ lsum f ts
  | [], t, th, h => by simp at h
  | x :: r, 0, th, h => by
    simp at h; subst h
    have : 0 ≤ lsum f r := by
      induction r with
      | nil => simp [lsum]
      | cons y r ih => simp [lsum]; have := hf y; omega
    simp [lsum]; have := hf x; omega
  | x :: r, t + 1, th, h => by
    simp at h
    have := lsum_ge f hf r t th h
    simp [lsum]; have := hf x; omega

def locked : PC → Bool
  | .aqRc | .aqAdd | .aqMbd | .aqInit | .aqStore | .aqUnlock _ => true
  | .pdRc | .pdClose | .pdRm | .pdUnlock => true
  | .ciIdx _ | .ciRc _ | .ciMbd _ | .ciLa _ | .ciClose | .ciUnlock _ => true
  | .snMbd | .snIdx | .snAdd | .snUnlockOpen | .snLink | .snUnlock _ => true
  | .clClose | .clMbd | .clRm | .clUnlock => true
  | _ => false

def reading : PC → Bool
  | .rdChk | .rdUse | .rdUnlock _ => true
  | _ => false

def rdIn (pc : PC) : Int := if reading pc then 1 else 0

def pend : PC → Bool
  | .dlRc | .pdLock | .pdRc | .pdClose | .pdRm | .drMbd => true
  | _ => false

/-- the thread is inside a `DecRef` of a reference it does not own (only the callers as written
– `Proc.decRefStray` – get here) -/
def strayPC : PC → Bool
  | .drLoad false | .drCas _ false => true
  | _ => false

def prem (sh : Shared) : Prop := sh.mbd = true ∧ sh.dir = true ∧ sh.rc = 0

/-- what a thread at a given pc knows about the shared state -/
def TLpc (sh : Shared) (th : Th) : Prop :=
  match th.pc with
  | .idle => (th.res = .ok → th.holds = th.base + 1) ∧ (th.res = .closedErr ∨ th.res = .initErr → th.holds = th.base)
  | .irLoad | .aqLock | .aqRc => th.holds = th.base
  | .irCas cur => cur > 0 ∧ th.holds = th.base
  | .aqAdd => th.holds = th.base ∧ (sh.down = false → sh.isOpen = true)
  | .aqMbd => th.holds = th.base ∧ sh.rc = 0
  | .aqInit => th.holds = th.base ∧ sh.rc = 0 ∧ sh.dir = true
  | .aqStore => th.holds = th.base ∧ sh.rc = 0 ∧ sh.dir = true ∧ sh.isOpen = true
  | .aqUnlock r => (r = .ok → th.holds = th.base + 1) ∧ (r ≠ .ok → th.holds = th.base) ∧ r ≠ .none
  | .drLoad own => own = true → th.holds ≥ 1
  | .drCas cur own => cur > 0 ∧ (own = true → th.holds ≥ 1)
  | .pdLock | .pdRc | .dlRc => sh.mbd = true
  | .pdClose => sh.mbd = true ∧ sh.rc = 0
  | .pdRm => sh.mbd = true ∧ sh.rc = 0 ∧ sh.isOpen = false
  | .ciMbd _ | .ciLa _ | .ciClose => sh.rc = 0
  | .snIdx => sh.dir = true
  | .snAdd => sh.dir = true ∧ sh.isOpen = true
  | .snLink => sh.dir = true ∧ sh.isOpen = false
  | .snUnlockOpen | .snWork => th.holds ≥ 1
  | .pkCas cur => cur > 0
  | .clMbd => sh.isOpen = false
  | .clRm => sh.isOpen = false ∧ sh.mbd = true
  | .rdUse => sh.isOpen = true
  | _ => True

def TL (sh : Shared) (th : Th) : Prop := TLpc sh th ∧ (th.pc ≠ .idle → th.res = .none)

/-- what thread `t`'s step may do to the shared state, as seen by the others -/
structure Guar (t : Tid) (sh sh' : Shared) : Prop where
  rc0 : sh.mu ≠ some t → sh.rc = 0 → sh'.rc = 0
  isOpen : sh.mu ≠ some t → sh'.isOpen = sh.isOpen
  dir : sh.mu ≠ some t → sh'.dir = sh.dir
  down : sh.mu ≠ some t → sh'.down = sh.down
  mbd : sh.mbd = true → sh'.mbd = true
  mu1 : sh.mu ≠ some t → sh'.mu = sh.mu ∨ (sh.mu = none ∧ sh'.mu = some t)
  mu2 : sh.mu = some t → sh'.mu = some t ∨ sh'.mu = none

/-- facts about the acting thread needed by its step -/
structure Pre (t : Tid) (sh : Shared) (th : Th) : Prop where
  rcNonneg : 0 ≤ sh.rc
  lock : locked th.pc = true ↔ sh.mu = some t
  openOfRc : sh.down = false → sh.rc > 0 → sh.isOpen = true
  dirOfOpen : sh.isOpen = true → sh.dir = true
  mbdOfNoDir : sh.dir = false → sh.mbd = true
  rdExcl : sh.mu ≠ none → sh.readers = 0
  rdGe : reading th.pc = true → sh.readers ≥ 1
  tl : TL sh th

theorem tstep_guar {t sh th p ok sh' th'} (h : tstep t sh th p ok = some (sh', th')) (P : Pre t sh th) :
    Guar t sh sh' := by
  obtain ⟨pc, holds, base, res, flag⟩ := th
  obtain ⟨rcNonneg, lock, openOfRc, dirOfOpen, mbdOfNoDir, rdExcl, rdGe, tl⟩ := P
  cases pc <;> simp only [tstep] at h
  case idle =>
    cases p <;> simp only [] at h <;> (try split at h) <;> simp at h <;> obtain ⟨rfl, rfl⟩ := h <;>
      constructor <;> simp_all
  all_goals (try split at h)
  all_goals (try split at h)
  all_goals simp at h
  all_goals obtain ⟨rfl, rfl⟩ := h
  all_goals constructor <;> simp_all [locked, TL, TLpc, Shared.lockFree] <;> (try omega)

end Banyan.C14
