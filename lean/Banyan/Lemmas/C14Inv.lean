/-
C14 helper layer 3: the global invariant `Inv` of the atomic-step system and its preservation by
every scheduler step (`Inv.step`), hence `inv_of_reach`.
-/
import Banyan.Lemmas.C14PostA
import Banyan.Lemmas.C14PostB
namespace Banyan.C14
set_option linter.unusedSimpArgs false

/-- the knowledge of a thread that does not move survives any step of another thread -/
theorem TL_stable {t u : Nat} {sh sh' : Shared} {thu : Th} (hG : Guar t sh sh') (hne : t ≠ u)
    (hl : locked thu.pc = true ↔ sh.mu = some u) (hr : reading thu.pc = true → sh.mu = none)
    (htl : TL sh thu) : TL sh' thu := by
  obtain ⟨pc, holds, base, res, flag⟩ := thu
  have hne' : u ≠ t := fun e => hne e.symm
  obtain ⟨g1, g2, g3, g4, g5, _, _⟩ := hG
  cases pc <;> simp_all [TL, TLpc, locked, reading]

def holdsI (th : Th) : Int := th.holds
def rdI (th : Th) : Int := rdIn th.pc

/-- The inductive invariant.  `legacy = false`: every caller DecRefs only what it owns (the
proposed repair of finding F14a; also every run of the code as written in which no stray DecRef
occurs).  `legacy = true`: the callers as written, which may DecRef a segment they did not pin
(`Proc.decRefStray`).  Everything except the exact count `rcSum` and the absence of stray DecRefs
holds for both. -/
structure Inv (legacy : Bool) (s : State) : Prop where
  rcLe : s.sh.rc ≤ lsum holdsI s.ts
  rcNonneg : 0 ≤ s.sh.rc
  rcSum : legacy = false → s.sh.rc = lsum holdsI s.ts
  noStray : legacy = false → ∀ (t : Nat) (th : Th), s.ts[t]? = some th → strayPC th.pc = false
  openOfRc : s.sh.down = false → s.sh.rc > 0 → s.sh.isOpen = true
  dirOfOpen : s.sh.isOpen = true → s.sh.dir = true
  mbdOfNoDir : s.sh.dir = false → s.sh.mbd = true
  lockIff : ∀ (t : Nat) (th : Th), s.ts[t]? = some th → (locked th.pc = true ↔ s.sh.mu = some t)
  lockLt : ∀ t : Nat, s.sh.mu = some t → t < s.ts.length
  rdSum : (s.sh.readers : Int) = lsum rdI s.ts
  rdExcl : s.sh.mu ≠ none → s.sh.readers = 0
  tl : ∀ (t : Nat) (th : Th), s.ts[t]? = some th → TL s.sh th
  pending : prem s.sh → ∃ (t : Nat) (th : Th), s.ts[t]? = some th ∧ pend th.pc = true

theorem holdsI_nonneg (x : Th) : 0 ≤ holdsI x := by simp [holdsI]
theorem rdI_nonneg (x : Th) : 0 ≤ rdI x := by simp [rdI, rdIn]; split <;> simp

theorem Inv.pre {legacy : Bool} {s : State} (hI : Inv legacy s) {t : Nat} {th : Th} (hg : s.ts[t]? = some th) : Pre t s.sh th := by
  have h2 := (lsum_ge rdI rdI_nonneg s.ts t th hg).1
  refine ⟨hI.rcNonneg, hI.lockIff t th hg, hI.openOfRc, hI.dirOfOpen, hI.mbdOfNoDir, hI.rdExcl, ?_, hI.tl t th hg⟩
  · intro hr
    have : rdI th = 1 := by simp [rdI, rdIn, hr]
    have h3 := hI.rdSum
    omega

theorem Inv.init (legacy : Bool) : Inv legacy State.init := by
  constructor <;> simp [State.init, Shared.init, lsum, prem]

theorem Inv.spawn {legacy : Bool} {s : State} (hI : Inv legacy s) : Inv legacy { s with ts := s.ts ++ [Th.init] } := by
  have key : ∀ t th, (s.ts ++ [Th.init])[t]? = some th → s.ts[t]? = some th ∨ (t = s.ts.length ∧ th = Th.init) := by
    intro t th h
    by_cases hlt : t < s.ts.length
    · left; rwa [List.getElem?_append_left hlt] at h
    · right
      have hge : s.ts.length ≤ t := Nat.le_of_not_lt hlt
      rw [List.getElem?_append_right hge] at h
      have : t - s.ts.length = 0 := by
        cases hd : t - s.ts.length with
        | zero => rfl
        | succ n => rw [hd] at h; simp at h
      rw [this] at h; simp at h
      exact ⟨by omega, h.symm⟩
  refine ⟨?_, hI.rcNonneg, ?_, ?_, hI.openOfRc, hI.dirOfOpen, hI.mbdOfNoDir, ?_, ?_, ?_, hI.rdExcl, ?_, ?_⟩
  · have := hI.rcLe; simp [lsum_append, holdsI, Th.init] at *; exact this
  · intro hl; simp [lsum_append, hI.rcSum hl, holdsI, Th.init]
  · intro hl t th h
    rcases key t th h with h | ⟨rfl, rfl⟩
    · exact hI.noStray hl t th h
    · simp [Th.init, strayPC]
  · intro t th h
    rcases key t th h with h | ⟨rfl, rfl⟩
    · exact hI.lockIff t th h
    · simp [Th.init, locked]
      intro hmu
      exact absurd (hI.lockLt _ hmu) (Nat.lt_irrefl _)
  · intro t h; have := hI.lockLt t h; simp; omega
  · simp [lsum_append, hI.rdSum, rdI, rdIn, reading, Th.init]
  · intro t th h
    rcases key t th h with h | ⟨rfl, rfl⟩
    · exact hI.tl t th h
    · simp [TL, TLpc, Th.init]
  · intro hp
    obtain ⟨t, th, hg, hpd⟩ := hI.pending hp
    refine ⟨t, th, ?_, hpd⟩
    have hlt : t < s.ts.length := by
      rcases Nat.lt_or_ge t s.ts.length with h | h
      · exact h
      · rw [List.getElem?_eq_none h] at hg; simp at hg
    simpa [List.getElem?_append_left hlt] using hg

theorem Inv.tstep {legacy : Bool} {s : State} (hI : Inv legacy s) {t : Nat} {th th' : Th} {p : Proc} {ok : Bool}
    {sh' : Shared} (hg : s.ts[t]? = some th) (hp : legacy = false → p ≠ .decRefStray)
    (h : tstep t s.sh th p ok = some (sh', th')) :
    Inv legacy { sh := sh', ts := s.ts.set t th' } := by
  have P := hI.pre hg
  have A := tstep_postA h P
  have B := tstep_postB h P
  have G := tstep_guar h P
  have hlt : t < s.ts.length := by
    rcases Nat.lt_or_ge t s.ts.length with h | h
    · exact h
    · rw [List.getElem?_eq_none h] at hg; simp at hg
  have getset : ∀ u thu, (s.ts.set t th')[u]? = some thu → (u = t ∧ thu = th') ∨ (u ≠ t ∧ s.ts[u]? = some thu) := by
    intro u thu hu
    by_cases e : u = t
    · subst e; left; simp [List.getElem?_set_self hlt] at hu; exact ⟨rfl, hu.symm⟩
    · right; refine ⟨e, ?_⟩; rwa [List.getElem?_set_ne (fun x => e x.symm)] at hu
  refine ⟨?_, A.rcNonneg, ?_, ?_, A.openOfRc, A.dirOfOpen, A.mbdOfNoDir, ?_, ?_, ?_, B.rdExcl, ?_, ?_⟩
  · show sh'.rc ≤ lsum holdsI (s.ts.set t th')
    rw [lsum_set holdsI s.ts t th th' hg]
    have := hI.rcLe; have := A.rcLe; simp only [holdsI] at *; omega
  · intro hl
    show sh'.rc = lsum holdsI (s.ts.set t th')
    rw [lsum_set holdsI s.ts t th th' hg]
    have := hI.rcSum hl; have := A.rcEq (hI.noStray hl t th hg); simp only [holdsI] at *; omega
  · intro hl u thu hu
    rcases getset u thu hu with ⟨rfl, rfl⟩ | ⟨_, hu'⟩
    · cases hst : strayPC thu.pc with
      | false => rfl
      | true =>
        rcases A.stray hst with h1 | ⟨_, h2⟩
        · rw [hI.noStray hl u th hg] at h1; cases h1
        · exact absurd h2 (hp hl)
    · exact hI.noStray hl u thu hu'
  · intro u thu hu
    rcases getset u thu hu with ⟨rfl, rfl⟩ | ⟨hne, hu'⟩
    · exact A.lock
    · have old := hI.lockIff u thu hu'
      show locked thu.pc = true ↔ sh'.mu = some u
      by_cases hm : s.sh.mu = some t
      · have : ¬ (locked thu.pc = true) := by
          intro hl; have := old.mp hl; rw [hm] at this; simp at this; exact hne this.symm
        rcases G.mu2 hm with e | e <;> rw [e] <;> simp [this] <;> exact fun x => hne x.symm
      · rcases G.mu1 hm with e | ⟨e1, e2⟩
        · rw [e]; exact old
        · rw [e2]; rw [e1] at old; simp at old; simp [old]; exact fun x => hne x.symm
  · intro u hu
    show u < (s.ts.set t th').length
    simp
    by_cases hm : s.sh.mu = some t
    · rcases G.mu2 hm with e | e
      · rw [e] at hu; simp at hu; subst hu; exact hlt
      · rw [e] at hu; simp at hu
    · rcases G.mu1 hm with e | ⟨_, e2⟩
      · rw [e] at hu; exact hI.lockLt u hu
      · rw [e2] at hu; simp at hu; subst hu; exact hlt
  · show (sh'.readers : Int) = lsum rdI (s.ts.set t th')
    rw [lsum_set rdI s.ts t th th' hg]
    have := hI.rdSum; have := B.rdDelta; simp only [rdI] at *; omega
  · intro u thu hu
    rcases getset u thu hu with ⟨rfl, rfl⟩ | ⟨hne, hu'⟩
    · exact B.tl
    · refine TL_stable G (fun e => hne e.symm) (hI.lockIff u thu hu') ?_ (hI.tl u thu hu')
      intro hr
      have h2 := (lsum_ge rdI rdI_nonneg s.ts u thu hu').1
      have : rdI thu = 1 := by simp [rdI, rdIn, hr]
      have h3 := hI.rdSum
      cases hm : s.sh.mu with
      | none => rfl
      | some x =>
        have := hI.rdExcl (by rw [hm]; simp)
        omega
  · intro hp'
    rcases B.pend hp' with hpd | ⟨hold, hnp⟩
    · exact ⟨t, th', by simp [List.getElem?_set_self hlt], hpd⟩
    · obtain ⟨u, thu, hu, hpu⟩ := hI.pending hold
      have hne : u ≠ t := by
        intro e; subst e; rw [hg] at hu; cases hu; rw [hnp] at hpu; simp at hpu
      exact ⟨u, thu, by rw [List.getElem?_set_ne (fun x => hne x.symm)]; exact hu, hpu⟩

theorem Inv.step {legacy : Bool} {s s' : State} {l : Label} (hI : Inv legacy s) (hf : legacy = true ∨ l.fair = true)
    (hs : s.step l = some s') : Inv legacy s' := by
  cases l with
  | spawn => simp [State.step] at hs; subst hs; exact hI.spawn
  | step t p ok =>
    simp only [State.step] at hs
    split at hs
    · simp at hs
    · rename_i th hg
      split at hs
      · simp at hs
      · rename_i sh' th' hstep
        simp at hs; subst hs
        refine hI.tstep hg ?_ hstep
        intro hl e; subst e
        rcases hf with hf | hf
        · rw [hl] at hf; cases hf
        · simp [Label.fair] at hf

theorem inv_of_reach {legacy : Bool} {s : State} (h : Reach legacy s) : Inv legacy s := by
  induction h with
  | init => exact Inv.init legacy
  | step l _ hf hs ih => exact ih.step hf hs

end Banyan.C14
