/-
C14 helper layer 4: running ONE procedure of the atomic-step model to completion without
interference (`callTh`, the op granularity used by the correspondence driver) – closed forms for the
paths the op-level theorems need – and the generic pin-accounting lemma for the controller loops.
-/
import Banyan.Lemmas.C14Inv
namespace Banyan.C14

/-- lock is free and nobody reads: the state between two ops of a sequential run -/
def Shared.quiet (sh : Shared) : Prop := sh.mu = none ∧ sh.readers = 0

theorem solo_succ (t : Tid) (ok : Bool) (n : Nat) (sh : Shared) (th : Th) :
    solo t ok (n + 1) sh th =
      if th.pc = .idle then (sh, th)
      else match tstep t sh th .incRef ok with
        | none => (sh, th)
        | some (sh', th') => solo t ok n sh' th' := rfl

-- `solo_run [hyps]`: unfold a solo run step by step; all tests are decided by the hypotheses passed in
open Lean.Parser.Tactic in
syntax "solo_run" (" [" simpLemma,* "]")? : tactic
macro_rules
  | `(tactic| solo_run) => `(tactic| simp only [callTh, solo_succ, tstep, Shared.lockFree, Option.isNone_none,
      Bool.and_self, Bool.true_and, beq_self_eq_true, if_true, if_false, reduceCtorEq, Nat.lt_irrefl,
      Bool.false_eq_true, gt_iff_lt, ge_iff_le])
  | `(tactic| solo_run [$hs,*]) => `(tactic| simp only [callTh, solo_succ, tstep, Shared.lockFree, Option.isNone_none,
      Bool.and_self, Bool.true_and, beq_self_eq_true, if_true, if_false, reduceCtorEq, Nat.lt_irrefl,
      Bool.false_eq_true, gt_iff_lt, ge_iff_le, $hs,*])

section ops
variable (t : Tid) (ok : Bool) (rc : Int) (isOpen mbd dir : Bool) (la : Int) (down : Bool)
variable (holds base : Nat) (res : Res) (flag : Bool)

/-- incRef of an in-use segment: fast path, one more reference -/
theorem incRef_active (h : 0 < rc) :
    callTh t .incRef ok ⟨rc, isOpen, mbd, dir, la, none, 0, down⟩ ⟨.idle, holds, base, res, flag⟩ =
      some (⟨rc + 1, isOpen, mbd, dir, la, none, 0, down⟩, ⟨.idle, holds + 1, holds, .ok, flag⟩) := by
  have h2 : ¬ rc ≤ 0 := by omega
  solo_run [h2]

/-- incRef of a dormant (open, unreferenced) segment: slow path under the mutex, 0 → 1 -/
theorem incRef_dormant :
    callTh t .incRef ok ⟨0, true, false, dir, la, none, 0, down⟩ ⟨.idle, holds, base, res, flag⟩ =
      some (⟨1, true, false, dir, la, none, 0, down⟩, ⟨.idle, holds + 1, holds, .ok, flag⟩) := by
  solo_run [Int.le_refl, Int.lt_irrefl]

/-- incRef of an idle-closed segment whose `initialize` succeeds: reopened, 0 → 1 -/
theorem incRef_reopen :
    callTh t .incRef true ⟨0, false, false, dir, la, none, 0, down⟩ ⟨.idle, holds, base, res, flag⟩ =
      some (⟨1, true, false, dir, la, none, 0, down⟩, ⟨.idle, holds + 1, holds, .ok, flag⟩) := by
  solo_run [Int.le_refl, Int.lt_irrefl]

/-- incRef of an idle-closed segment whose `initialize` fails: nothing changes, error returned -/
theorem incRef_initFail :
    callTh t .incRef false ⟨0, false, false, dir, la, none, 0, down⟩ ⟨.idle, holds, base, res, flag⟩ =
      some (⟨0, false, false, dir, la, none, 0, down⟩, ⟨.idle, holds, holds, .initErr, flag⟩) := by
  solo_run [Int.le_refl, Int.lt_irrefl]

/-- incRef of an unreferenced segment flagged for deletion: refused, nothing changes -/
theorem incRef_deleted :
    callTh t .incRef ok ⟨0, isOpen, true, dir, la, none, 0, down⟩ ⟨.idle, holds, base, res, flag⟩ =
      some (⟨0, isOpen, true, dir, la, none, 0, down⟩, ⟨.idle, holds, holds, .closedErr, flag⟩) := by
  solo_run [Int.le_refl, Int.lt_irrefl]

/-- DecRef that is not the last one -/
theorem decRef_notLast (h : 1 < rc) :
    callTh t .decRef ok ⟨rc, isOpen, mbd, dir, la, none, 0, down⟩ ⟨.idle, holds + 1, base, res, flag⟩ =
      some (⟨rc - 1, isOpen, mbd, dir, la, none, 0, down⟩, ⟨.idle, holds, base, .none, flag⟩) := by
  have h2 : ¬ rc ≤ 0 := by omega
  have h3 : ¬ rc = 1 := by omega
  solo_run [h2, h3, Nat.succ_pos, Nat.add_sub_cancel]

/-- last DecRef of a segment that is not flagged: it only becomes dormant (stays open, dir kept) -/
theorem decRef_last_dormant :
    callTh t .decRef ok ⟨1, isOpen, false, dir, la, none, 0, down⟩ ⟨.idle, holds + 1, base, res, flag⟩ =
      some (⟨0, isOpen, false, dir, la, none, 0, down⟩, ⟨.idle, holds, base, .none, flag⟩) := by
  solo_run [Nat.succ_pos, Nat.add_sub_cancel, show ¬ (1 : Int) ≤ 0 by decide, show (1 : Int) - 1 = 0 by decide,
    show ¬ (0 : Int) < 0 by decide]

/-- last DecRef of a flagged segment: the deferred delete runs now – closed and directory removed -/
theorem decRef_last_deletes :
    callTh t .decRef ok ⟨1, isOpen, true, dir, la, none, 0, down⟩ ⟨.idle, holds + 1, base, res, flag⟩ =
      some (⟨0, false, true, false, la, none, 0, down⟩, ⟨.idle, holds, base, .none, flag⟩) := by
  solo_run [Nat.succ_pos, Nat.add_sub_cancel, show ¬ (1 : Int) ≤ 0 by decide, show (1 : Int) - 1 = 0 by decide,
    show ¬ (0 : Int) < 0 by decide]

/-- delete of an unreferenced segment: flagged, closed, directory removed at once -/
theorem delete_unreferenced :
    callTh t .delete ok ⟨0, isOpen, mbd, dir, la, none, 0, down⟩ ⟨.idle, holds, base, res, flag⟩ =
      some (⟨0, false, true, false, la, none, 0, down⟩, ⟨.idle, holds, base, .none, flag⟩) := by
  solo_run [show ¬ (0 : Int) < 0 by decide]

/-- delete of a referenced segment: only flagged; resources and directory stay -/
theorem delete_referenced (h : 0 < rc) :
    callTh t .delete ok ⟨rc, isOpen, mbd, dir, la, none, 0, down⟩ ⟨.idle, holds, base, res, flag⟩ =
      some (⟨rc, isOpen, true, dir, la, none, 0, down⟩, ⟨.idle, holds, base, .none, flag⟩) := by
  have h2 : ¬ rc = 0 := by omega
  solo_run [h2]

/-- closeIfIdle of a dormant, unflagged, idle segment closes it and keeps the directory -/
theorem closeIfIdle_closes (thr : Int) (h : la < thr) :
    callTh t (.closeIfIdle thr) ok ⟨0, true, false, dir, la, none, 0, down⟩ ⟨.idle, holds, base, res, flag⟩ =
      some (⟨0, false, false, dir, la, none, 0, down⟩, ⟨.idle, holds, base, .none, true⟩) := by
  have h2 : ¬ thr ≤ la := by omega
  solo_run [h2, ne_eq, not_true_eq_false]

/-- closeIfIdle never touches a referenced segment -/
theorem closeIfIdle_referenced (thr : Int) (h : 0 < rc) :
    callTh t (.closeIfIdle thr) ok ⟨rc, true, mbd, dir, la, none, 0, down⟩ ⟨.idle, holds, base, res, flag⟩ =
      some (⟨rc, true, mbd, dir, la, none, 0, down⟩, ⟨.idle, holds, base, .none, false⟩) := by
  have h2 : rc ≠ 0 := by omega
  solo_run [h2, ne_eq, not_false_eq_true]

end ops

/-! ## pin accounting of the controller loops, for any world that honours the per-segment contracts -/

/-- The per-segment contracts a calling thread gets from the protocol, abstracted: `cnt w i` is the
number of references the caller owns on segment `i`.  In the atomic-step model they are
`incRef_ok_counts`, `incRef_fail_no_count` and `decRef_always_releases` (Props/C14). -/
structure PinWorld (σ : Type) where
  incRef : σ → Nat → σ × Bool
  decRef : σ → Nat → σ
  touch : σ → Nat → σ
  cnt : σ → Nat → Int
  inc_ok : ∀ w i, (incRef w i).2 = true → ∀ j, cnt (incRef w i).1 j = cnt w j + (if j = i then 1 else 0)
  inc_fail : ∀ w i, (incRef w i).2 = false → ∀ j, cnt (incRef w i).1 j = cnt w j
  dec : ∀ w i, 0 < cnt w i → ∀ j, cnt (decRef w i) j = cnt w j - (if j = i then 1 else 0)
  touch_cnt : ∀ w i j, cnt (touch w i) j = cnt w j

theorem count_cons_int (j i : Nat) (r : List Nat) :
    ((i :: r).count j : Int) = r.count j + (if j = i then 1 else 0) := by
  by_cases h : j = i
  · subst h; simp
  · have : i ≠ j := fun e => h e.symm
    simp [h, this]

theorem unwind_all {σ : Type} (W : PinWorld σ) (c0 : Nat → Int) (h0 : ∀ j, 0 ≤ c0 j) :
    ∀ (tt : List Nat) (w : σ), (∀ j, W.cnt w j = c0 j + tt.count j) →
      ∀ j, W.cnt (tt.foldl W.decRef w) j = c0 j
  | [], w, h, j => by simpa using h j
  | i :: r, w, h, j => by
    simp only [List.foldl_cons]
    apply unwind_all W c0 h0 r (W.decRef w i)
    intro j
    have hi := h i
    have hpos : 0 < W.cnt w i := by
      rw [hi, count_cons_int]; simp; have := h0 i; omega
    rw [W.dec w i hpos j, h j, count_cons_int]
    omega

theorem count_append_single_int (j i : Nat) (tt : List Nat) :
    ((tt ++ [i]).count j : Int) = tt.count j + (if j = i then 1 else 0) := by
  by_cases h : j = i
  · subst h; simp
  · have : i ≠ j := fun e => h e.symm
    simp [List.count_append, h, this]

end Banyan.C14
