/-
C14 helper layer 2a: what one atomic step of the acting thread re-establishes (counting and
shape part).  Pure case analysis over the program counters of `tstep`.
-/
import Banyan.Lemmas.C14Defs
namespace Banyan.C14
set_option linter.unusedSimpArgs false

structure PostA (t : Tid) (sh sh' : Shared) (th th' : Th) : Prop where
  rcDelta : sh'.rc - sh.rc = (th'.holds : Int) - th.holds
  openOfRc : sh'.down = false → sh'.rc > 0 → sh'.isOpen = true
  dirOfOpen : sh'.isOpen = true → sh'.dir = true
  mbdOfNoDir : sh'.dir = false → sh'.mbd = true
  lock : locked th'.pc = true ↔ sh'.mu = some t

theorem tstep_postA {t sh th p ok sh' th'} (h : tstep t sh th p ok = some (sh', th')) (P : Pre t sh th)
    (hp : p ≠ .decRefStray) : PostA t sh sh' th th' := by
  obtain ⟨pc, holds, base, res, flag⟩ := th
  obtain ⟨rcGe, lock, openOfRc, dirOfOpen, mbdOfNoDir, rdExcl, rdGe, tl⟩ := P
  cases pc <;> simp only [tstep] at h
  case idle =>
    cases p <;> simp only [] at h <;> (try split at h) <;> simp at h <;> (try obtain ⟨rfl, rfl⟩ := h) <;>
      constructor <;> simp_all [locked, TL, TLpc, Shared.lockFree, rdIn, reading, prem, pend] <;> (try omega)
  case aqUnlock r =>
    simp at h; obtain ⟨rfl, rfl⟩ := h
    cases r <;> constructor <;> simp_all [locked, TL, TLpc, rdIn, reading, prem, pend]
  all_goals (try split at h)
  all_goals (try split at h)
  all_goals simp at h
  all_goals obtain ⟨rfl, rfl⟩ := h
  all_goals constructor <;> simp_all [locked, TL, TLpc, Shared.lockFree, rdIn, reading, prem, pend] <;> (try omega)

end Banyan.C14
