/-
C14 helper layer 2a: what one atomic step of the acting thread re-establishes (counting and
shape part).  Pure case analysis over the program counters of `tstep`.
-/
import Banyan.Lemmas.C14Defs
namespace Banyan.C14
set_option linter.unusedSimpArgs false

structure PostA (t : Tid) (sh sh' : Shared) (th th' : Th) (p : Proc) : Prop where
  /-- a step never adds more to `refCount` than to the stepper's owned references … -/
  rcLe : sh'.rc - sh.rc ≤ (th'.holds : Int) - th.holds
  /-- … and exactly as much unless it is the CAS of a stray DecRef -/
  rcEq : strayPC th.pc = false → sh'.rc - sh.rc = (th'.holds : Int) - th.holds
  rcNonneg : 0 ≤ sh'.rc
  /-- a thread gets into a stray DecRef only by calling `decRefStray` -/
  stray : strayPC th'.pc = true → strayPC th.pc = true ∨ (th.pc = .idle ∧ p = .decRefStray)
  openOfRc : sh'.down = false → sh'.rc > 0 → sh'.isOpen = true
  dirOfOpen : sh'.isOpen = true → sh'.dir = true
  mbdOfNoDir : sh'.dir = false → sh'.mbd = true
  lock : locked th'.pc = true ↔ sh'.mu = some t

theorem tstep_postA {t sh th p ok sh' th'} (h : tstep t sh th p ok = some (sh', th')) (P : Pre t sh th) :
    PostA t sh sh' th th' p := by
  obtain ⟨pc, holds, base, res, flag⟩ := th
  obtain ⟨rcNonneg, lock, openOfRc, dirOfOpen, mbdOfNoDir, rdExcl, rdGe, tl⟩ := P
  cases pc <;> simp only [tstep] at h
  case idle =>
    cases p <;> simp only [] at h <;> (try split at h) <;> simp at h <;> (try obtain ⟨rfl, rfl⟩ := h) <;>
      constructor <;> simp_all [locked, TL, TLpc, Shared.lockFree, rdIn, reading, prem, pend, strayPC] <;> (try omega)
  case aqUnlock r =>
    simp at h; obtain ⟨rfl, rfl⟩ := h
    cases r <;> constructor <;> simp_all [locked, TL, TLpc, rdIn, reading, prem, pend, strayPC]
  case drLoad own =>
    cases own <;> (try split at h) <;> simp at h <;> obtain ⟨rfl, rfl⟩ := h <;> constructor <;>
      simp_all [locked, TL, TLpc, rdIn, reading, prem, pend, strayPC] <;> (try omega)
  case drCas cur own =>
    cases own <;> (try split at h) <;> (try split at h) <;> simp at h <;> obtain ⟨rfl, rfl⟩ := h <;> constructor <;>
      simp_all [locked, TL, TLpc, rdIn, reading, prem, pend, strayPC] <;> (try omega)
  all_goals (try split at h)
  all_goals (try split at h)
  all_goals simp at h
  all_goals obtain ⟨rfl, rfl⟩ := h
  all_goals constructor <;> simp_all [locked, TL, TLpc, Shared.lockFree, rdIn, reading, prem, pend, strayPC] <;> (try omega)

end Banyan.C14
