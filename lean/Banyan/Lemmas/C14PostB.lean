/-
C14 helper layer 2b: what one atomic step of the acting thread re-establishes (reader count,
thread-local knowledge at the next pc, pending-deleter obligation).
-/
import Banyan.Lemmas.C14Defs
namespace Banyan.C14
set_option linter.unusedSimpArgs false

structure PostB (t : Tid) (sh sh' : Shared) (th th' : Th) : Prop where
  rdDelta : (sh'.readers : Int) - sh.readers = rdIn th'.pc - rdIn th.pc
  rdExcl : sh'.mu ≠ none → sh'.readers = 0
  tl : TL sh' th'
  pend : prem sh' → pend th'.pc = true ∨ (prem sh ∧ pend th.pc = false)

theorem tstep_postB {t sh th p ok sh' th'} (h : tstep t sh th p ok = some (sh', th')) (P : Pre t sh th) :
    PostB t sh sh' th th' := by
  obtain ⟨pc, holds, base, res, flag⟩ := th
  obtain ⟨rcNonneg, lock, openOfRc, dirOfOpen, mbdOfNoDir, rdExcl, rdGe, tl⟩ := P
  cases pc <;> simp only [tstep] at h
  case idle =>
    cases p <;> simp only [] at h <;> (try split at h) <;> simp at h <;> (try obtain ⟨rfl, rfl⟩ := h) <;>
      constructor <;> simp_all [locked, TL, TLpc, Shared.lockFree, rdIn, reading, prem, pend] <;> (try omega)
  case aqUnlock r =>
    simp at h; obtain ⟨rfl, rfl⟩ := h
    cases r <;> constructor <;> simp_all [locked, TL, TLpc, rdIn, reading, prem, pend]
  all_goals (try split at h)
  all_goals (try split at h)
  all_goals simp at h
  all_goals obtain ⟨rfl, rfl⟩ := h
  all_goals constructor <;> simp_all [locked, TL, TLpc, Shared.lockFree, rdIn, reading, prem, pend] <;> (try omega)

end Banyan.C14
