/-
C15 helper lemmas: on arbitrary bytes no step of the frame decoder model panics, and every successful step consumed
at least one byte per row (the fact behind the allocation bound).
-/
import Banyan.Lemmas.C15Frame

namespace Banyan.C15

/-! ## the decoder on arbitrary bytes -/

theorem slice_ok (b : List Byte) (n : Nat) (h : ¬ b.length < n) : slice b n = .ok (b.take n, b.drop n) := by
  simp [slice, h]

theorem readLenPrefixed_spec (b : List Byte) :
    readLenPrefixed b ≠ .panic ∧ ∀ v r, readLenPrefixed b = .ok (v, r) → r.length < b.length := by
  unfold readLenPrefixed
  cases hu : uvarint b with
  | none => simp
  | some p =>
    obtain ⟨n, rest⟩ := p
    have hc := uvarint_consumes b n rest hu
    by_cases hl : rest.length < n
    · simp [hl]
    · simp only [hl, if_false, slice_ok rest n hl]
      refine ⟨by simp, ?_⟩
      intro v r h
      simp only [Res.ok.injEq, Prod.mk.injEq] at h
      rw [← h.2, List.length_drop]
      omega

theorem readVar_spec : ∀ (nulls : List Bool) (b : List Byte),
    readVar nulls b ≠ .panic ∧ ∀ cs r, readVar nulls b = .ok (cs, r) → r.length + nulls.length ≤ b.length := by
  intro nulls
  induction nulls with
  | nil => intro b; simp [readVar]
  | cons nl t ih =>
    intro b
    have hp := readLenPrefixed_spec b
    simp only [readVar]
    cases hr : readLenPrefixed b with
    | panic => exact absurd hr hp.1
    | err e => simp
    | ok p =>
      obtain ⟨v, rest⟩ := p
      have hlt := hp.2 v rest hr
      have hi := ih rest
      dsimp only
      cases h2 : readVar t rest with
      | panic => exact absurd h2 hi.1
      | err e => (try rw [h2]); simp
      | ok q =>
        obtain ⟨cs, r⟩ := q
        have := hi.2 cs r h2
        (try rw [h2])
        dsimp only
        refine ⟨by simp, ?_⟩
        intro cs' r' h
        simp only [Res.ok.injEq, Prod.mk.injEq] at h
        rw [← h.2]
        simp only [List.length_cons]
        omega

theorem readPtr_spec (ok : List Byte → Bool) : ∀ (nulls : List Bool) (b : List Byte),
    readPtr ok nulls b ≠ .panic ∧ ∀ cs r, readPtr ok nulls b = .ok (cs, r) → r.length + nulls.length ≤ b.length := by
  intro nulls
  induction nulls with
  | nil => intro b; simp [readPtr]
  | cons nl t ih =>
    intro b
    have hp := readLenPrefixed_spec b
    simp only [readPtr]
    cases hr : readLenPrefixed b with
    | panic => exact absurd hr hp.1
    | err e => simp
    | ok p =>
      obtain ⟨v, rest⟩ := p
      have hlt := hp.2 v rest hr
      have hi := ih rest
      dsimp only
      split
      · simp
      · cases h2 : readPtr ok t rest with
        | panic => exact absurd h2 hi.1
        | err e => (try rw [h2]); simp
        | ok q =>
          obtain ⟨cs, r⟩ := q
          have := hi.2 cs r h2
          (try rw [h2])
          dsimp only
          refine ⟨by simp, ?_⟩
          intro cs' r' h
          simp only [Res.ok.injEq, Prod.mk.injEq] at h
          rw [← h.2]
          simp only [List.length_cons]
          omega

theorem readFixed_spec : ∀ (nulls : List Bool) (b : List Byte), nulls.length * 8 ≤ b.length →
    readFixed nulls b ≠ .panic ∧ ∀ cs r, readFixed nulls b = .ok (cs, r) → r.length + nulls.length ≤ b.length := by
  intro nulls
  induction nulls with
  | nil => intro b _; simp [readFixed]
  | cons nl t ih =>
    intro b hb
    simp only [List.length_cons] at hb
    have h8 : ¬ b.length < 8 := by omega
    simp only [readFixed, slice_ok b 8 h8]
    have hd : t.length * 8 ≤ (b.drop 8).length := by rw [List.length_drop]; omega
    have hi := ih (b.drop 8) hd
    (try dsimp only)
    cases h2 : readFixed t (b.drop 8) with
    | panic => exact absurd h2 hi.1
    | err e => (try rw [h2]); simp
    | ok q =>
      obtain ⟨cs, r⟩ := q
      have := hi.2 cs r h2
      rw [List.length_drop] at this
      (try rw [h2])
      dsimp only
      refine ⟨by simp, ?_⟩
      intro cs' r' h
      simp only [Res.ok.injEq, Prod.mk.injEq] at h
      rw [← h.2]
      simp only [List.length_cons]
      omega

theorem readValidity_spec (b : List Byte) (nrows : Nat) :
    readValidity b nrows ≠ .panic ∧
    ∀ nulls r, readValidity b nrows = .ok (nulls, r) → (padNulls nrows nulls).length = nrows ∧ r.length ≤ b.length := by
  unfold readValidity
  by_cases h0 : nrows = 0
  · subst h0
    simp [padNulls]
  · simp only [h0, if_false]
    by_cases hl : b.length < (nrows + 7) / 8
    · simp [hl]
    · simp only [hl, if_false, slice_ok b _ hl]
      refine ⟨by simp, ?_⟩
      intro nulls r h
      simp only [Res.ok.injEq, Prod.mk.injEq] at h
      have hlen : (b.take ((nrows + 7) / 8)).length = (nrows + 7) / 8 := by
        rw [List.length_take]; omega
      have := unpackBits_length nrows _ hlen
      rw [← h.1, ← h.2]
      refine ⟨by simp [padNulls, this], by rw [List.length_drop]; omega⟩

theorem readData_spec (ok : List Byte → Bool) (t : ColType) (nrows : Nat) (nulls : List Bool) (b : List Byte)
    (hn : nulls.length = nrows) :
    readData ok t nrows nulls b ≠ .panic ∧ ∀ cs r, readData ok t nrows nulls b = .ok (cs, r) → r.length + nrows ≤ b.length := by
  unfold readData
  cases t.kind with
  | fixed =>
    dsimp only
    by_cases hl : b.length < nrows * 8
    · simp [hl]
    · simp only [hl, if_false]
      have := readFixed_spec nulls b (by rw [hn]; omega)
      rw [hn] at this
      exact this
  | var => have := readVar_spec nulls b; rw [hn] at this; exact this
  | ptr => have := readPtr_spec ok nulls b; rw [hn] at this; exact this
  | array => simp

theorem decodeColumn_spec (cd : Codec) (ok : List Byte → Bool) (b : List Byte) (nrows : Nat) :
    decodeColumn cd ok b nrows ≠ .panic ∧
    ∀ x r, decodeColumn cd ok b nrows = .ok (x, r) → r.length + nrows ≤ b.length := by
  unfold decodeColumn
  by_cases h2 : b.length < 2
  · simp [h2]
  · simp only [h2, if_false]
    match b, h2 with
    | rb :: tb :: r0, _ =>
      dsimp only
      cases cd.wireToRole rb with
      | none => simp
      | some role =>
        dsimp only
        cases cd.wireToType tb with
        | none => simp
        | some typ =>
          dsimp only
          have h1 := readLenPrefixed_spec r0
          cases e1 : readLenPrefixed r0 with
          | panic => exact absurd e1 h1.1
          | err e => simp
          | ok p1 =>
            obtain ⟨name, r1⟩ := p1
            have l1 := h1.2 _ _ e1
            dsimp only
            have h2' := readLenPrefixed_spec r1
            cases e2 : readLenPrefixed r1 with
            | panic => exact absurd e2 h2'.1
            | err e => simp
            | ok p2 =>
              obtain ⟨fam, r2⟩ := p2
              have l2 := h2'.2 _ _ e2
              dsimp only
              have h3 := readValidity_spec r2 nrows
              cases e3 : readValidity r2 nrows with
              | panic => exact absurd e3 h3.1
              | err e => simp
              | ok p3 =>
                obtain ⟨nulls, r3⟩ := p3
                have l3 := h3.2 _ _ e3
                dsimp only
                have h4 := readData_spec ok typ nrows (padNulls nrows nulls) r3 l3.1
                cases e4 : readData ok typ nrows (padNulls nrows nulls) r3 with
                | panic => exact absurd e4 h4.1
                | err e => simp
                | ok p4 =>
                  obtain ⟨cells, r4⟩ := p4
                  have l4 := h4.2 _ _ e4
                  refine ⟨by simp, ?_⟩
                  intro x r h
                  simp only [Res.ok.injEq, Prod.mk.injEq] at h
                  rw [← h.2]
                  simp only [List.length_cons]
                  omega
    | [_], h => simp at h
    | [], h => simp at h

theorem decodeCols_spec (cd : Codec) (ok : List Byte → Bool) (nrows : Nat) : ∀ (k : Nat) (b : List Byte),
    (decodeCols cd ok nrows k b).1 ≠ .panic ∧ (decodeCols cd ok nrows k b).2 ≤ 2 * b.length + 2 * nrows := by
  intro k
  induction k with
  | zero => intro b; simp [decodeCols]
  | succ k ih =>
    intro b
    have hc := decodeColumn_spec cd ok b nrows
    simp only [decodeCols]
    cases e : decodeColumn cd ok b nrows with
    | panic => exact absurd e hc.1
    | err e => simp
    | ok p =>
      obtain ⟨dc, rest⟩ := p
      have hl := hc.2 _ _ e
      have hi := ih rest
      dsimp only
      generalize decodeCols cd ok nrows k rest = g at hi
      obtain ⟨r, a⟩ := g
      dsimp only at hi ⊢
      refine ⟨?_, by omega⟩
      cases r with
      | panic => exact absurd rfl hi.1
      | err e => simp
      | ok q => simp

theorem validateHeader_spec (cd : Codec) (b : List Byte) :
    validateHeader cd b ≠ .panic ∧
    ∀ h r, validateHeader cd b = .ok (h, r) → h.nrows ≤ b.length ∧ h.ncols ≤ r.length ∧ r.length ≤ b.length := by
  unfold validateHeader
  by_cases h7 : b.length < 7
  · simp [h7]
  · simp only [h7, if_false]
    have h4 : ¬ b.length < 4 := by omega
    simp only [slice_ok b 4 h4]
    by_cases hm : b.take 4 ≠ cd.magic
    · simp [hm]
    · simp only [hm, if_false]
      cases hd : b.drop 4 with
      | nil =>
        have : (b.drop 4).length = 0 := by rw [hd]; rfl
        rw [List.length_drop] at this
        omega
      | cons v r2 =>
        have hl2 : r2.length + 1 = b.length - 4 := by
          have : (b.drop 4).length = r2.length + 1 := by rw [hd]; rfl
          rw [List.length_drop] at this; omega
        dsimp only
        by_cases hv : v ≠ cd.version
        · simp [hv]
        · simp only [hv, if_false]
          cases e1 : uvarint r2 with
          | none => simp
          | some p1 =>
            obtain ⟨nrows, r3⟩ := p1
            have c1 := uvarint_consumes _ _ _ e1
            dsimp only
            cases e2 : uvarint r3 with
            | none => simp
            | some p2 =>
              obtain ⟨ncols, r4⟩ := p2
              have c2 := uvarint_consumes _ _ _ e2
              dsimp only
              by_cases g1 : nrows > b.length
              · simp [g1]
              · by_cases g2 : ncols > r4.length
                · simp [g1, g2]
                · simp only [g1, g2, if_false]
                  refine ⟨by simp, ?_⟩
                  intro h r hh
                  simp only [Res.ok.injEq, Prod.mk.injEq] at hh
                  rw [← hh.1, ← hh.2]
                  dsimp only
                  exact ⟨by omega, by omega, by omega⟩


end Banyan.C15
