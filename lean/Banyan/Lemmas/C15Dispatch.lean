/-
C15 helper lemmas: each validation step of the dispatch model rejects exactly when its clause of `supported` fails.
-/
import Banyan.Model.C15

namespace Banyan.C15

theorem projCheck_none_iff (s : DSchema) (r : Shape) :
    projCheck s r = none ↔ (∀ n ∈ (r.tp.getD []).flatMap (·.2), s.hasTag n = true) ∧ (∀ n ∈ r.fp.getD [], n ∈ s.fields) := by
  unfold projCheck
  dsimp only
  cases h1 : ((r.tp.getD []).flatMap (·.2)).find? (fun n => !s.hasTag n) with
  | some n =>
    simp only [reduceCtorEq, false_iff, not_and]
    intro hall
    have := List.find?_some h1
    have hm := List.mem_of_find?_eq_some h1
    simp [hall n hm] at this
  | none =>
    dsimp only
    rw [List.find?_eq_none] at h1
    cases h2 : (r.fp.getD []).find? (fun n => !s.fields.contains n) with
    | some n =>
      simp only [reduceCtorEq, false_iff, not_and]
      intro _ hall
      have := List.find?_some h2
      have hm := List.mem_of_find?_eq_some h2
      simp [hall n hm] at this
    | none =>
      rw [List.find?_eq_none] at h2
      simp only [true_iff]
      refine ⟨fun n hn => by simpa using h1 n hn, fun n hn => by simpa using h2 n hn⟩

theorem orderCheck_none_iff (s : DSchema) (r : Shape) :
    orderCheck s r = none ↔ ∀ rule, r.ob = some rule → rule ≠ "" → ∃ x, s.rules.find? (·.1 == rule) = some x ∧ x.2 = false := by
  unfold orderCheck
  cases hob : r.ob with
  | none => simp
  | some rule =>
    dsimp only
    by_cases he : rule = ""
    · simp [he]
    · simp only [he, if_false]
      cases hf : s.rules.find? (·.1 == rule) with
      | none =>
        simp only [reduceCtorEq, false_iff]
        intro h
        obtain ⟨x, hx, _⟩ := h rule rfl he
        rw [hf] at hx
        cases hx
      | some x =>
        obtain ⟨n, nosort⟩ := x
        cases nosort
        · simp only [Bool.false_eq_true, if_false, true_iff]
          intro rule' h1 _
          cases h1
          exact ⟨(n, false), hf, rfl⟩
        · simp only [if_true, reduceCtorEq, false_iff]
          intro h
          obtain ⟨y, hy, h2⟩ := h rule rfl he
          rw [hf] at hy
          cases hy
          simp at h2

theorem gbCheck_none_iff (s : DSchema) (r : Shape) :
    gbCheck s r = none ↔ ∀ g, r.gb = some g → ∃ fam tags known, g = [(fam, tags)] ∧ tags ≠ [] ∧
      s.families.find? (·.1 == fam) = some (fam, known) ∧ ∀ t ∈ tags, t ∈ known := by
  unfold gbCheck
  cases hg : r.gb with
  | none => simp
  | some g =>
    cases g with
    | nil =>
      simp only [reduceCtorEq, false_iff]
      intro h
      obtain ⟨_, _, _, h1, _⟩ := h [] rfl
      cases h1
    | cons p rest =>
      obtain ⟨fam, tags⟩ := p
      cases rest with
      | cons q rest' =>
        simp only [reduceCtorEq, false_iff]
        intro h
        obtain ⟨_, _, _, h1, _⟩ := h _ rfl
        cases h1
      | nil =>
        dsimp only
        by_cases ht : tags.isEmpty = true
        · simp only [ht, if_true, reduceCtorEq, false_iff]
          intro h
          obtain ⟨_, _, _, h1, h2, _⟩ := h _ rfl
          cases h1
          exact h2 (List.isEmpty_iff.mp ht)
        · simp only [ht, Bool.false_eq_true, if_false]
          cases hf : s.families.find? (·.1 == fam) with
          | none =>
            simp only [reduceCtorEq, false_iff]
            intro h
            obtain ⟨_, _, _, h1, _, h3, _⟩ := h _ rfl
            cases h1
            rw [hf] at h3
            cases h3
          | some x =>
            obtain ⟨f', known⟩ := x
            have hp := List.find?_some hf
            simp only [beq_iff_eq] at hp
            subst hp
            dsimp only
            by_cases hall : tags.all known.contains = true
            · simp only [hall, if_true, true_iff]
              intro g' hg'
              cases hg'
              refine ⟨f', tags, known, rfl, ?_, hf, ?_⟩
              · intro h; rw [h] at ht; simp at ht
              · intro t htm
                have := List.all_eq_true.mp hall t htm
                simpa using this
            · simp only [hall, Bool.false_eq_true, if_false, reduceCtorEq, false_iff]
              intro h
              obtain ⟨_, _, known', h1, _, h3, h4⟩ := h _ rfl
              cases h1
              rw [hf] at h3
              cases h3
              apply hall
              rw [List.all_eq_true]
              intro t htm
              simpa using h4 t htm

theorem aggChecks_none_iff (s : DSchema) (r : Shape) :
    (aggCheck s r = none ∧ aggFnCheck r = none) ↔ ∀ fn f, r.agg = some (fn, f) → f ∈ s.fields ∧ fn ≠ .unspecified := by
  unfold aggCheck aggFnCheck
  cases ha : r.agg with
  | none => simp
  | some p =>
    obtain ⟨fn, f⟩ := p
    dsimp only
    by_cases hf : s.fields.contains f = true
    · simp only [hf, if_true, true_and]
      have hm : f ∈ s.fields := by simpa using hf
      cases fn <;> simp [hm]
    · simp only [hf, Bool.false_eq_true, if_false, reduceCtorEq, false_and, false_iff]
      intro h
      have := (h fn f rfl).1
      exact hf (by simpa using this)

theorem topCheck_none_iff (r : Shape) :
    topCheck r = none ↔ ∀ f, r.top = some f → (∀ fn af, r.agg = some (fn, af) → f = af) ∧ (r.agg = none → f ∈ r.fp.getD []) := by
  unfold topCheck
  cases ht : r.top with
  | none => simp
  | some f =>
    dsimp only
    cases ha : r.agg with
    | none =>
      dsimp only
      by_cases hc : (r.fp.getD []).contains f = true
      · simp only [hc, if_true, true_iff]
        intro f' hf'
        cases hf'
        exact ⟨(by intro _ _ h; cases h), fun _ => by simpa using hc⟩
      · simp only [hc, Bool.false_eq_true, if_false, reduceCtorEq, false_iff]
        intro h
        exact hc (by simpa using (h f rfl).2)
    | some p =>
      obtain ⟨fn, af⟩ := p
      dsimp only
      by_cases he : (f == af) = true
      · simp only [he, if_true, true_iff]
        intro f' hf'
        cases hf'
        refine ⟨?_, (by intro h; cases h)⟩
        intro fn' af' h
        cases h
        simpa using he
      · simp only [he, Bool.false_eq_true, if_false, reduceCtorEq, false_iff]
        intro h
        have := (h f rfl).1 fn af rfl
        exact he (by simp [this])


end Banyan.C15
