/-
C15 helper lemmas: Go `encoding/binary` primitives (uvarint, little-endian words) and the validity bitmap packing.
-/
import Banyan.Model.C15
import Banyan.Lemmas.Bytes

namespace Banyan.C15

theorem W64_eq : W64 = 2 ^ 64 := by decide

theorem W64_256 : (256 : Nat) ^ 8 = W64 := by decide

/-! ### uvarint -/

theorem putUvarint_small (x : Nat) (h : x < 128) : putUvarint x = [x] := by
  rw [putUvarint]; simp [h]

theorem putUvarint_big (x : Nat) (h : ¬ x < 128) : putUvarint x = (x % 128 + 128) :: putUvarint (x / 128) := by
  rw [putUvarint]; simp [h]

theorem putUvarint_length_pos (x : Nat) : 1 ≤ (putUvarint x).length := by
  by_cases h : x < 128
  · rw [putUvarint_small x h]; simp
  · rw [putUvarint_big x h]; simp

theorem pow7_succ (i : Nat) : 2 ^ (7 * (i + 1)) = 2 ^ (7 * i) * 128 := by
  have : 7 * (i + 1) = 7 * i + 7 := by omega
  rw [this, Nat.pow_add]

/-- a non-zero chunk at byte index `i` fits in 64 bits only when `i ≤ 9` -/
theorem idx_le_nine (x i : Nat) (hx : 1 ≤ x) (h : x * 2 ^ (7 * i) < W64) : i ≤ 9 := by
  apply Classical.byContradiction
  intro hc
  have hi : 70 ≤ 7 * i := by omega
  have h1 : (2 : Nat) ^ 70 ≤ 2 ^ (7 * i) := Nat.pow_le_pow_right (by decide) hi
  have h2 : 2 ^ (7 * i) ≤ x * 2 ^ (7 * i) := Nat.le_mul_of_pos_left _ hx
  have h3 : W64 ≤ 2 ^ 70 := by decide
  exact absurd h (Nat.not_lt.mpr (Nat.le_trans h3 (Nat.le_trans h1 h2)))

theorem last_le_one (x : Nat) (h : x * 2 ^ (7 * 9) < W64) : x ≤ 1 := by
  apply Classical.byContradiction
  intro hc
  have hx : 2 ≤ x := by omega
  have h1 : 2 * 2 ^ (7 * 9) ≤ x * 2 ^ (7 * 9) := Nat.mul_le_mul_right _ hx
  have h2 : W64 = 2 * 2 ^ (7 * 9) := by decide
  rw [h2] at h
  exact absurd h (Nat.not_lt.mpr h1)

theorem uvarintLoop_put (x : Nat) : ∀ (i acc : Nat) (rest : List Byte), (i = 0 ∨ 1 ≤ x) → x * 2 ^ (7 * i) < W64 →
    uvarintLoop (putUvarint x ++ rest) i acc = some (acc + x * 2 ^ (7 * i), rest) := by
  induction x using Nat.strongRecOn with
  | _ x ih =>
    intro i acc rest hi hx
    have hi10 : i ≠ 10 := by
      rcases hi with h0 | h1
      · omega
      · have := idx_le_nine x i h1 hx; omega
    by_cases h : x < 128
    · rw [putUvarint_small x h]
      simp only [List.cons_append, List.nil_append, uvarintLoop, hi10, if_false, h, if_true]
      have hn : ¬ (i = 9 ∧ x > 1) := by
        intro ⟨h9, hgt⟩
        subst h9
        have := last_le_one x hx
        omega
      simp [hn]
    · rw [putUvarint_big x h]
      have hb : ¬ (x % 128 + 128 < 128) := by omega
      have hm : (x % 128 + 128) % 128 = x % 128 := by omega
      simp only [List.cons_append, uvarintLoop, hi10, if_false, hb, hm]
      have hq1 : 1 ≤ x / 128 := by
        have : 128 ≤ x := by omega
        exact (Nat.le_div_iff_mul_le (by decide)).mpr (by omega)
      have hlt : x / 128 * 2 ^ (7 * (i + 1)) < W64 := by
        rw [pow7_succ]
        calc x / 128 * (2 ^ (7 * i) * 128) = (x / 128 * 128) * 2 ^ (7 * i) := by
              rw [Nat.mul_comm (2 ^ (7 * i)) 128, Nat.mul_assoc]
          _ ≤ x * 2 ^ (7 * i) := Nat.mul_le_mul_right _ (Nat.div_mul_le_self x 128)
          _ < W64 := hx
      rw [ih (x / 128) (Nat.div_lt_self (by omega) (by decide)) (i + 1) _ rest (Or.inr hq1) hlt]
      congr 2
      rw [pow7_succ]
      have := Nat.div_add_mod x 128
      calc acc + x % 128 * 2 ^ (7 * i) + x / 128 * (2 ^ (7 * i) * 128)
          = acc + (x % 128 + 128 * (x / 128)) * 2 ^ (7 * i) := by
            rw [Nat.add_mul, Nat.mul_comm (2 ^ (7 * i)) 128, ← Nat.mul_assoc, Nat.mul_comm (x / 128) 128, Nat.add_assoc]
        _ = acc + x * 2 ^ (7 * i) := by rw [Nat.add_comm (x % 128), this]

/-- `binary.Uvarint (binary.AppendUvarint nil x) = x` for every `uint64` -/
theorem uvarint_putUvarint (x : Nat) (rest : List Byte) (hx : x < W64) :
    uvarint (putUvarint x ++ rest) = some (x, rest) := by
  unfold uvarint
  rw [uvarintLoop_put x 0 0 rest (Or.inl rfl) (by simpa using hx)]
  simp

/-- a successful `binary.Uvarint` consumed at least one byte -/
theorem uvarintLoop_consumes (b : List Byte) : ∀ (i x v : Nat) (r : List Byte),
    uvarintLoop b i x = some (v, r) → r.length < b.length := by
  induction b with
  | nil => intro i x v r h; simp [uvarintLoop] at h
  | cons c t ih =>
    intro i x v r h
    simp only [uvarintLoop] at h
    split at h
    · cases h
    · split at h
      · split at h
        · cases h
        · cases h; simp
      · have := ih _ _ _ _ h
        simp; omega

theorem uvarint_consumes (b : List Byte) (v : Nat) (r : List Byte) (h : uvarint b = some (v, r)) : r.length < b.length :=
  uvarintLoop_consumes b 0 0 v r h

/-! ### little-endian words -/

theorem le64_length (u : Nat) : (le64 u).length = 8 := by
  simp [le64, beBytes_length]

theorem ofLE64_le64 (u : Nat) (h : u < W64) : ofLE64 (le64 u) = u := by
  unfold ofLE64 le64
  rw [List.reverse_reverse, ofBE_beBytes, W64_256, Nat.mod_eq_of_lt h]

/-! ### validity bitmap -/

theorem bitsOf_byteOf (bs : List Bool) : bitsOf (byteOf bs) bs.length = bs := by
  induction bs with
  | nil => rfl
  | cons b t ih =>
    simp only [byteOf, List.length_cons, bitsOf]
    have h1 : (((if b = true then 1 else 0) + 2 * byteOf t) % 2 == 1) = b := by
      cases b <;> simp <;> omega
    have h2 : ((if b = true then 1 else 0) + 2 * byteOf t) / 2 = byteOf t := by
      cases b <;> simp <;> omega
    rw [h1, h2, ih]

theorem packBits_nil : packBits [] = [] := by rw [packBits]

theorem packBits_cons (b : Bool) (t : List Bool) :
    packBits (b :: t) = byteOf ((b :: t).take 8) :: packBits ((b :: t).drop 8) := by rw [packBits]

theorem packBits_length (bs : List Bool) : (packBits bs).length = (bs.length + 7) / 8 := by
  induction h : bs.length using Nat.strongRecOn generalizing bs with
  | _ n ih =>
    cases bs with
    | nil => simp [packBits_nil] at *; omega
    | cons b t =>
      rw [packBits_cons]
      simp only [List.length_cons]
      have hl : ((b :: t).drop 8).length = n - 8 := by simp [List.length_drop, ← h]
      rw [ih (n - 8) (by simp at h; omega) _ hl]
      simp at h
      omega

theorem unpackBits_packBits_aux (n : Nat) : ∀ (bs : List Bool), bs.length = n → unpackBits n (packBits bs) = bs := by
  induction n using Nat.strongRecOn with
  | _ n ih =>
    intro bs h
    cases bs with
    | nil => simp at h; subst h; simp [packBits_nil, unpackBits]
    | cons b t =>
      simp at h; subst h
      rw [packBits_cons]
      simp only [unpackBits]
      have hl : ((b :: t).drop 8).length = t.length + 1 - 8 := by simp [List.length_drop]
      have hk : ((b :: t).take 8).length = min (t.length + 1) 8 := by simp [List.length_take]; omega
      have e1 := bitsOf_byteOf ((b :: t).take 8)
      rw [hk] at e1
      rw [e1, ih (t.length + 1 - 8) (by omega) ((b :: t).drop 8) hl, List.take_append_drop]

/-- `readValidityBitmap (appendValidityBitmap nulls) = nulls` -/
theorem unpackBits_packBits (bs : List Bool) : unpackBits bs.length (packBits bs) = bs :=
  unpackBits_packBits_aux bs.length bs rfl

theorem bitsOf_length (x k : Nat) : (bitsOf x k).length = k := by
  induction k generalizing x with
  | zero => rfl
  | succ k ih => simp [bitsOf, ih]

theorem unpackBits_length (n : Nat) : ∀ (bs : List Byte), bs.length = (n + 7) / 8 → (unpackBits n bs).length = n := by
  induction n using Nat.strongRecOn with
  | _ n ih =>
    intro bs hl
    cases n with
    | zero => simp [unpackBits]
    | succ m =>
      cases bs with
      | nil => simp at hl; omega
      | cons b rest =>
        simp only [unpackBits, List.length_append, bitsOf_length]
        have hr : rest.length = (m + 1 - 8 + 7) / 8 := by simp at hl; omega
        rw [ih (m + 1 - 8) (by omega) rest hr]
        omega

end Banyan.C15
