/-
C15 helper lemmas: well-formed batches and the piecewise round trip of the frame codec model
(`decodeX (encodeX x ++ rest) = (x, rest)` for length-prefixed strings, row loops, one column, all columns, header).
-/
import Banyan.Lemmas.C15Frame

namespace Banyan.C15

/-! ## well-formedness -/

/-- `proto.Unmarshal ∘ proto.Marshal = id` is trusted: a message cell is its marshalled bytes, and those bytes are
accepted by `protoOk`. -/
def CellOk (protoOk : List Byte → Bool) : Cell → Prop
  | ⟨_, .fixed u⟩ => u < W64
  | ⟨_, .var bs⟩ => bs.length < W64
  | ⟨_, .ptr (some bs)⟩ => bs.length < W64 ∧ (bs ≠ [] → protoOk bs = true)
  | ⟨_, .ptr none⟩ => True

def ColOk (protoOk : List Byte → Bool) (c : Column) : Prop := ∀ x ∈ c.cells, CellOk protoOk x

/-- a codec whose decode maps invert its encode maps, and that never maps an array type -/
structure CodecOk (cd : Codec) : Prop where
  magic_len : cd.magic.length = 4
  role_rt : ∀ r w, cd.roleToWire r = some w → cd.wireToRole w = some r
  type_rt : ∀ t w, cd.typeToWire t = some w → cd.wireToType w = some t
  no_array : ∀ t w, cd.typeToWire t = some w → t.kind ≠ .array

/-- column `c` declared as `d` can cross codec `cd` -/
structure PairOk (cd : Codec) (protoOk : List Byte → Bool) (d : ColDef) (c : Column) : Prop where
  typ : c.typ = d.typ
  role : (cd.roleToWire d.role).isSome
  wire : (cd.typeToWire d.typ).isSome
  name : d.name.length < W64
  fam : d.family.length < W64
  cells : ColOk protoOk c

inductive PairsOk (cd : Codec) (protoOk : List Byte → Bool) : List ColDef → List Column → Prop
  | nil : PairsOk cd protoOk [] []
  | cons {d c ds cs} : PairOk cd protoOk d c → PairsOk cd protoOk ds cs → PairsOk cd protoOk (d :: ds) (c :: cs)

/-- every `RecordBatch` shape the codec is specified for -/
structure WF (cd : Codec) (protoOk : List Byte → Bool) (b : Batch) : Prop where
  pairs : PairsOk cd protoOk b.defs b.cols
  nrows : (activeRows b).length < W64
  ncols : b.defs.length < W64
  /-- `ValidateHeader` bounds `NumRows` by the frame length: true as soon as there is one column -/
  nonempty : b.defs ≠ [] ∨ (activeRows b).length ≤ 7

/-! ## primitives -/

theorem slice_append (a r : List Byte) : slice (a ++ r) a.length = .ok (a, r) := by
  simp [slice]

theorem slice_ne_panic (b : List Byte) (n : Nat) (h : ¬ b.length < n) : ∃ x, slice b n = .ok x := by
  simp [slice, h]

theorem readLenPrefixed_rt (v rest : List Byte) (h : v.length < W64) :
    readLenPrefixed (lenPrefixed v ++ rest) = .ok (v, rest) := by
  unfold readLenPrefixed lenPrefixed
  rw [List.append_assoc, uvarint_putUvarint _ _ h]
  have : ¬ (v ++ rest).length < v.length := by simp
  simp only [this, if_false]
  exact slice_append v rest

theorem lenPrefixed_length_pos (v : List Byte) : 1 ≤ (lenPrefixed v).length := by
  unfold lenPrefixed
  have := putUvarint_length_pos v.length
  simp; omega

theorem fixedBits_lt {ok} (c : Column) (hc : ColOk ok c) (i : Nat) : fixedBits c i < W64 := by
  unfold fixedBits
  split
  · rename_i nl u heq
    have hm : (⟨nl, .fixed u⟩ : Cell) ∈ c.cells := List.mem_of_getElem? heq
    exact hc _ hm
  · decide

theorem varBytes_lt {ok} (c : Column) (hc : ColOk ok c) (i : Nat) : (varBytes c i).length < W64 := by
  unfold varBytes
  split
  · rename_i bs heq
    have hm : (⟨false, .var bs⟩ : Cell) ∈ c.cells := List.mem_of_getElem? heq
    exact hc _ hm
  · decide

theorem ptrBytes_ok {ok} (c : Column) (hc : ColOk ok c) (i : Nat) :
    (ptrBytes c i).length < W64 ∧ (ptrBytes c i ≠ [] → ok (ptrBytes c i) = true) := by
  unfold ptrBytes
  split
  · rename_i bs heq
    have hm : (⟨false, .ptr (some bs)⟩ : Cell) ∈ c.cells := List.mem_of_getElem? heq
    exact hc _ hm
  · exact ⟨by decide, fun h => absurd rfl h⟩

theorem ptrBytes_null (c : Column) (i : Nat) (h : c.isNull i = true) : ptrBytes c i = [] := by
  unfold ptrBytes Column.isNull at *
  split
  · rename_i bs heq
    rw [heq] at h
    simp at h
  · rfl

/-! ## row loops -/

theorem readFixed_rt {ok} (c : Column) (hk : c.typ.kind = .fixed) (hc : ColOk ok c) (rest : List Byte) :
    ∀ active : List Nat,
    readFixed (active.map c.isNull) (active.flatMap (fun i => le64 (fixedBits c i)) ++ rest)
      = .ok (active.map (normCell c), rest) := by
  intro active
  induction active with
  | nil => simp [readFixed]
  | cons i t ih =>
    simp only [List.map_cons, List.flatMap_cons, List.append_assoc, readFixed]
    have hs := slice_append (le64 (fixedBits c i)) (t.flatMap (fun i => le64 (fixedBits c i)) ++ rest)
    rw [le64_length] at hs
    rw [hs]
    simp only [ih]
    congr 2
    unfold normCell
    rw [hk, ofLE64_le64 _ (fixedBits_lt c hc i)]
    try (cases c.isNull i <;> simp)

theorem readVar_rt {ok} (c : Column) (hk : c.typ.kind = .var) (hc : ColOk ok c) (rest : List Byte) :
    ∀ active : List Nat,
    readVar (active.map c.isNull) (active.flatMap (fun i => lenPrefixed (varBytes c i)) ++ rest)
      = .ok (active.map (normCell c), rest) := by
  intro active
  induction active with
  | nil => simp [readVar]
  | cons i t ih =>
    simp only [List.map_cons, List.flatMap_cons, List.append_assoc, readVar]
    rw [readLenPrefixed_rt _ _ (varBytes_lt c hc i)]
    simp only [ih]
    congr 2
    unfold normCell
    rw [hk]
    try (cases c.isNull i <;> simp)

theorem readPtr_rt {ok} (c : Column) (hk : c.typ.kind = .ptr) (hc : ColOk ok c) (rest : List Byte) :
    ∀ active : List Nat,
    readPtr ok (active.map c.isNull) (active.flatMap (fun i => lenPrefixed (ptrBytes c i)) ++ rest)
      = .ok (active.map (normCell c), rest) := by
  intro active
  induction active with
  | nil => simp [readPtr]
  | cons i t ih =>
    simp only [List.map_cons, List.flatMap_cons, List.append_assoc, readPtr]
    rw [readLenPrefixed_rt _ _ (ptrBytes_ok c hc i).1]
    have hg : (!c.isNull i && !(ptrBytes c i).isEmpty && !ok (ptrBytes c i)) = false := by
      cases hn : c.isNull i
      · by_cases he : ptrBytes c i = []
        · simp [he]
        · simp [(ptrBytes_ok c hc i).2 he]
      · simp
    simp only [hg, ih]
    simp only [Bool.false_eq_true, if_false]
    congr 2
    unfold normCell
    rw [hk]
    try (cases c.isNull i <;> simp)

theorem flatMap_le64_length (f : Nat → Nat) (l : List Nat) : (l.flatMap fun i => le64 (f i)).length = l.length * 8 := by
  induction l with
  | nil => rfl
  | cons a t ih => simp [List.flatMap_cons, le64_length, ih]; omega

theorem flatMap_lenPrefixed_length (f : Nat → List Byte) (l : List Nat) :
    l.length ≤ (l.flatMap fun i => lenPrefixed (f i)).length := by
  induction l with
  | nil => simp
  | cons a t ih =>
    have := lenPrefixed_length_pos (f a)
    rw [List.flatMap_cons, List.length_append, List.length_cons]; omega

/-! ## one column -/

/-- the bytes `Encode` emits for a column that can cross the codec -/
theorem encodeCol_ok {cd ok} (hcd : CodecOk cd) (d : ColDef) (c : Column) (active : List Nat) (hp : PairOk cd ok d c) :
    ∃ r t data, cd.roleToWire d.role = some r ∧ cd.typeToWire d.typ = some t ∧ encodeData d.typ c active = some data ∧
      encodeCol cd d c active = .ok ([r, t] ++ lenPrefixed d.name ++ lenPrefixed d.family ++ packBits (active.map c.isNull) ++ data) := by
  obtain ⟨r, hr⟩ := Option.isSome_iff_exists.mp hp.role
  obtain ⟨t, ht⟩ := Option.isSome_iff_exists.mp hp.wire
  have hna := hcd.no_array _ _ ht
  have hd : ∃ data, encodeData d.typ c active = some data := by
    unfold encodeData
    simp only [hp.typ, ne_eq, not_true_eq_false, if_false]
    cases hk : d.typ.kind <;> simp_all
  obtain ⟨data, hd⟩ := hd
  exact ⟨r, t, data, hr, ht, hd, by simp [encodeCol, hr, ht, hd]⟩

theorem readData_rt {ok} (t : ColType) (c : Column) (hct : c.typ = t) (hc : ColOk ok c) (active : List Nat) (data rest : List Byte)
    (hd : encodeData t c active = some data) :
    readData ok t active.length (active.map c.isNull) (data ++ rest) = .ok (active.map (normCell c), rest) := by
  unfold encodeData at hd
  simp only [hct, ne_eq, not_true_eq_false, if_false] at hd
  unfold readData
  cases hk : t.kind
  · rw [hk] at hd
    simp only [Option.some.injEq] at hd
    subst hd
    have hlen := flatMap_le64_length (fixedBits c) active
    have : ¬ ((active.flatMap fun i => le64 (fixedBits c i)) ++ rest).length < active.length * 8 := by
      simp [hlen]
    simp only [this, if_false]
    exact readFixed_rt c (hct ▸ hk) hc rest active
  · rw [hk] at hd
    simp only [Option.some.injEq] at hd
    subst hd
    exact readVar_rt c (hct ▸ hk) hc rest active
  · rw [hk] at hd
    simp only [Option.some.injEq] at hd
    subst hd
    exact readPtr_rt c (hct ▸ hk) hc rest active
  · rw [hk] at hd
    simp at hd

theorem readValidity_rt (nulls : List Bool) (rest : List Byte) :
    readValidity (packBits nulls ++ rest) nulls.length = .ok (nulls, rest) := by
  unfold readValidity
  by_cases h0 : nulls.length = 0
  · have : nulls = [] := List.eq_nil_of_length_eq_zero h0
    subst this
    simp [packBits_nil]
  · simp only [h0, if_false]
    have hl := packBits_length nulls
    have : ¬ (packBits nulls ++ rest).length < (nulls.length + 7) / 8 := by simp [hl]
    simp only [this, if_false]
    have hs := slice_append (packBits nulls) rest
    rw [hl] at hs
    rw [hs]
    simp [unpackBits_packBits]

theorem padNulls_id (nulls : List Bool) : padNulls nulls.length nulls = nulls := by
  simp [padNulls]

theorem decodeColumn_rt {cd ok} (hcd : CodecOk cd) (d : ColDef) (c : Column) (active : List Nat) (hp : PairOk cd ok d c)
    (bytes rest : List Byte) (he : encodeCol cd d c active = .ok bytes) :
    decodeColumn cd ok (bytes ++ rest) active.length = .ok ((d, ⟨c.typ, active.map (normCell c)⟩), rest) := by
  obtain ⟨r, t, data, hr, ht, hd, hok⟩ := encodeCol_ok hcd d c active hp
  rw [hok] at he
  cases he
  unfold decodeColumn
  simp only [List.cons_append, List.append_assoc, List.nil_append, List.length_cons]
  have h2 : ¬ ((lenPrefixed d.name ++ (lenPrefixed d.family ++ (packBits (active.map c.isNull) ++ (data ++ rest)))).length + 1 + 1 < 2) := by omega
  simp only [h2, if_false]
  rw [hcd.role_rt _ _ hr, hcd.type_rt _ _ ht]
  dsimp only
  rw [readLenPrefixed_rt _ _ hp.name]
  dsimp only
  rw [readLenPrefixed_rt _ _ hp.fam]
  dsimp only
  have hv := readValidity_rt (active.map c.isNull) (data ++ rest)
  rw [List.length_map] at hv
  rw [hv]
  dsimp only
  have hpn := padNulls_id (active.map c.isNull)
  rw [List.length_map] at hpn
  rw [hpn, readData_rt d.typ c hp.typ hp.cells active data rest hd]
  first
    | done
    | (cases d; simp [hp.typ])

theorem encodeCol_length {cd ok} (hcd : CodecOk cd) (d : ColDef) (c : Column) (active : List Nat) (hp : PairOk cd ok d c)
    (bytes : List Byte) (he : encodeCol cd d c active = .ok bytes) : 2 ≤ bytes.length ∧ active.length ≤ bytes.length := by
  obtain ⟨r, t, data, hr, ht, hd, hok⟩ := encodeCol_ok hcd d c active hp
  rw [hok] at he
  cases he
  refine ⟨by simp, ?_⟩
  have hdl : active.length ≤ data.length := by
    unfold encodeData at hd
    simp only [hp.typ, ne_eq, not_true_eq_false, if_false] at hd
    cases hk : d.typ.kind
    · rw [hk] at hd
      simp only [Option.some.injEq] at hd
      subst hd; rw [flatMap_le64_length]; omega
    · rw [hk] at hd
      simp only [Option.some.injEq] at hd
      subst hd; exact flatMap_lenPrefixed_length _ _
    · rw [hk] at hd
      simp only [Option.some.injEq] at hd
      subst hd; exact flatMap_lenPrefixed_length _ _
    · rw [hk] at hd
      simp at hd
  simp; omega

/-! ## all columns -/

theorem decodeCols_rt {cd ok} (hcd : CodecOk cd) (active : List Nat) :
    ∀ (ds : List ColDef) (cs : List Column), PairsOk cd ok ds cs → ∀ rest : List Byte,
    ∃ body, encodeCols cd active ds cs = .ok body ∧ 2 * ds.length ≤ body.length ∧ (ds ≠ [] → active.length ≤ body.length) ∧
      (decodeCols cd ok active.length ds.length (body ++ rest)).1
        = .ok ((ds.zip cs).map (fun p => (p.1, (⟨p.2.typ, active.map (normCell p.2)⟩ : Column))), rest) := by
  intro ds cs hp
  induction hp with
  | nil => intro rest; exact ⟨[], rfl, by simp, by simp, by simp [decodeCols]⟩
  | @cons d c ds cs h1 _ ih =>
    intro rest
    obtain ⟨r, t, data, hr, ht, hd, hok'⟩ := encodeCol_ok hcd d c active h1
    obtain ⟨enc, hok⟩ : ∃ e, encodeCol cd d c active = .ok e := ⟨_, hok'⟩
    obtain ⟨body, hb, hl2, _, hdec⟩ := ih rest
    have hlen := encodeCol_length hcd d c active h1 _ hok
    refine ⟨enc ++ body, by simp [encodeCols, hok, hb], ?_, ?_, ?_⟩
    · simp only [List.length_cons, List.length_append]; omega
    · intro _; simp only [List.length_append]; omega
    · simp only [List.length_cons, decodeCols, List.append_assoc]
      have := decodeColumn_rt hcd d c active h1 _ (body ++ rest) hok
      rw [this]
      dsimp only
      rw [hdec]
      simp

theorem pairs_length {cd ok} : ∀ {ds : List ColDef} {cs : List Column}, PairsOk cd ok ds cs → ds.length = cs.length := by
  intro ds cs h
  induction h with
  | nil => rfl
  | cons _ _ ih => simp [ih]

/-! ## the frame -/

theorem validateHeader_rt {cd} (hcd : CodecOk cd) (nrows ncols : Nat) (body : List Byte) (hr : nrows < W64) (hc : ncols < W64)
    (hb1 : nrows ≤ (header cd nrows ncols ++ body).length) (hb2 : ncols ≤ body.length) :
    validateHeader cd (header cd nrows ncols ++ body) = .ok (⟨nrows, ncols⟩, body) := by
  unfold validateHeader
  have hlen : ¬ (header cd nrows ncols ++ body).length < 7 := by
    have h1 := putUvarint_length_pos nrows
    have h2 := putUvarint_length_pos ncols
    simp [header, hcd.magic_len]; omega
  simp only [hlen, if_false]
  have hs : slice (header cd nrows ncols ++ body) 4 = .ok (cd.magic, [cd.version] ++ putUvarint nrows ++ putUvarint ncols ++ body) := by
    have := slice_append cd.magic ([cd.version] ++ putUvarint nrows ++ putUvarint ncols ++ body)
    rw [hcd.magic_len] at this
    simpa [header, List.append_assoc] using this
  rw [hs]
  simp only [ne_eq, not_true_eq_false, if_false, List.cons_append, List.nil_append, List.append_assoc]
  rw [uvarint_putUvarint _ _ hr]
  simp only
  rw [uvarint_putUvarint _ _ hc]
  simp only
  have h1 : ¬ nrows > (header cd nrows ncols ++ body).length := by omega
  have h2 : ¬ ncols > body.length := by omega
  rw [if_neg h1, if_neg h2]


end Banyan.C15
