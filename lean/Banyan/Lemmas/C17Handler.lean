/-
C17 helper lemmas, handler level: the algebra of `enter` / `write` / `applyEvent` on the receiver shard,
piecewise delivery of a file (`Refines`), and the prefix lemma: whatever prefix of the pieces has been
applied, the list of installed parts is a prefix of the exact install list.
-/
import Banyan.Model.C17

namespace Banyan.C17

abbrev Ev := Nat × String × String × List Byte

def run (c : Core) (es : List Ev) : Core := es.foldl applyEvent c

@[simp] theorem run_nil (c : Core) : run c [] = c := rfl
@[simp] theorem run_cons (c : Core) (e : Ev) (es : List Ev) : run c (e :: es) = run (applyEvent c e) es := rfl
theorem run_append (c : Core) (a b : List Ev) : run c (a ++ b) = run (run c a) b := by
  simp [run, List.foldl_append]

/-! ### writeKey -/

theorem writeKey_append (k : Key) (a b : List Byte) (fs : List (Key × List Byte)) :
    writeKey k b (writeKey k a fs) = writeKey k (a ++ b) fs := by
  induction fs with
  | nil => simp [writeKey]
  | cons x xs ih =>
    obtain ⟨k', v⟩ := x
    by_cases h : k' = k
    · simp [writeKey, h]
    · simp [writeKey, h, ih]

/-! ### enter / write -/

theorem enter_cur (h : Core) (id : Nat) (pt : String) :
    ∃ fs, (enter h id pt).cur = some ⟨id, pt, fs⟩ := by
  unfold enter
  cases hc : h.cur with
  | none => exact ⟨[], rfl⟩
  | some o =>
    by_cases hid : o.id = id
    · simp only [hid, if_true]; exact ⟨o.files, by cases o; simp_all⟩
    · simp only [hid, if_false]; exact ⟨[], rfl⟩

theorem enter_idem (h : Core) (id : Nat) (pt : String) (fs : List (Key × List Byte))
    (hc : h.cur = some ⟨id, pt, fs⟩) : enter h id pt = h := by
  unfold enter
  rw [hc]
  simp
  cases h; simp_all

theorem write_cur (h : Core) (id : Nat) (pt : String) (fs : List (Key × List Byte)) (nm : String) (bs : List Byte)
    (hc : h.cur = some ⟨id, pt, fs⟩) :
    write h nm bs = { h with cur := some ⟨id, pt, writeKey (pt, nm) bs fs⟩ } := by
  unfold write
  rw [hc]

theorem write_installed (h : Core) (nm : String) (bs : List Byte) : (write h nm bs).installed = h.installed := by
  unfold write; cases h.cur <;> rfl

theorem write_discarded (h : Core) (nm : String) (bs : List Byte) : (write h nm bs).discarded = h.discarded := by
  unfold write; cases h.cur <;> rfl

theorem enter_discarded (h : Core) (id : Nat) (pt : String) : (enter h id pt).discarded = h.discarded := by
  unfold enter
  cases h.cur with
  | none => rfl
  | some o => by_cases hid : o.id = id <;> simp [hid]

/-- The installed list after `enter` does not depend on anything but the current state. -/
theorem enter_installed_prefix (h : Core) (id : Nat) (pt : String) : h.installed <+: (enter h id pt).installed := by
  unfold enter
  cases h.cur with
  | none => exact List.prefix_refl _
  | some o =>
    by_cases hid : o.id = id
    · simp [hid]
    · simp [hid]

/-- Two consecutive pieces of the same file are one write. -/
theorem applyEvent_merge (h : Core) (id : Nat) (pt nm : String) (a b : List Byte) :
    applyEvent (applyEvent h (id, pt, nm, a)) (id, pt, nm, b) = applyEvent h (id, pt, nm, a ++ b) := by
  unfold applyEvent
  simp only
  obtain ⟨fs, hfs⟩ := enter_cur h id pt
  rw [write_cur _ id pt fs nm a hfs]
  have h2 : ({ enter h id pt with cur := some ⟨id, pt, writeKey (pt, nm) a fs⟩ } : Core).cur
      = some ⟨id, pt, writeKey (pt, nm) a fs⟩ := rfl
  rw [enter_idem _ id pt _ h2, write_cur _ id pt _ nm b h2, write_cur _ id pt fs nm (a ++ b) hfs, writeKey_append]

/-- The installed list after an event does not depend on the bytes written. -/
theorem applyEvent_installed (h : Core) (id : Nat) (pt nm : String) (a b : List Byte) :
    (applyEvent h (id, pt, nm, a)).installed = (applyEvent h (id, pt, nm, b)).installed := by
  unfold applyEvent
  simp [write_installed]

theorem applyEvent_installed_prefix (h : Core) (e : Ev) : h.installed <+: (applyEvent h e).installed := by
  unfold applyEvent
  rw [write_installed]
  exact enter_installed_prefix _ _ _

theorem applyEvent_cur_isSome (h : Core) (e : Ev) : (applyEvent h e).cur.isSome := by
  obtain ⟨id, pt, nm, bs⟩ := e
  unfold applyEvent
  obtain ⟨fs, hfs⟩ := enter_cur h id pt
  simp only
  rw [write_cur _ id pt fs nm bs hfs]
  rfl

theorem applyEvent_discarded (h : Core) (e : Ev) : (applyEvent h e).discarded = h.discarded := by
  unfold applyEvent
  rw [write_discarded, enter_discarded]

theorem run_installed_prefix (h : Core) (es : List Ev) : h.installed <+: (run h es).installed := by
  induction es generalizing h with
  | nil => exact List.prefix_refl _
  | cons e es ih => exact (applyEvent_installed_prefix h e).trans (ih _)

theorem run_discarded (h : Core) (es : List Ev) : (run h es).discarded = h.discarded := by
  induction es generalizing h with
  | nil => rfl
  | cons e es ih => rw [run_cons, ih, applyEvent_discarded]

theorem run_cur_isSome (h : Core) (es : List Ev) (hne : es ≠ []) : (run h es).cur.isSome := by
  induction es generalizing h with
  | nil => exact absurd rfl hne
  | cons e es ih =>
    cases es with
    | nil => exact applyEvent_cur_isSome h e
    | cons e' es' => exact ih (applyEvent h e) (by simp)

theorem finish_installed_prefix (h : Core) : h.installed <+: (finish h).installed := by
  unfold finish
  cases h.cur with
  | none => exact List.prefix_refl _
  | some o => simp

theorem finish_cur (h : Core) : (finish h).cur = none := by
  unfold finish; cases hc : h.cur <;> simp [hc]

theorem finish_length (h : Core) (hs : h.cur.isSome) : (finish h).installed.length = h.installed.length + 1 := by
  unfold finish
  cases hc : h.cur with
  | none => simp [hc] at hs
  | some o => simp

theorem close_installed (h : Core) : (close h).installed = h.installed := by
  unfold close; cases h.cur <;> rfl

theorem close_cur (h : Core) : (close h).cur = none := by
  unfold close; cases hc : h.cur <;> simp [hc]

/-! ### shifting the base of the installed list -/

def shift (base : List IPart) (c : Core) : Core := { c with installed := base ++ c.installed }

theorem enter_shift (base : List IPart) (c : Core) (id : Nat) (pt : String) :
    enter (shift base c) id pt = shift base (enter c id pt) := by
  unfold enter shift
  cases hc : c.cur with
  | none => simp
  | some o => by_cases hid : o.id = id <;> simp [hid, List.append_assoc]

theorem write_shift (base : List IPart) (c : Core) (nm : String) (bs : List Byte) :
    write (shift base c) nm bs = shift base (write c nm bs) := by
  unfold write shift
  cases hc : c.cur <;> simp [hc]

theorem applyEvent_shift (base : List IPart) (c : Core) (e : Ev) :
    applyEvent (shift base c) e = shift base (applyEvent c e) := by
  unfold applyEvent
  rw [enter_shift, write_shift]

theorem run_shift (base : List IPart) (c : Core) (es : List Ev) : run (shift base c) es = shift base (run c es) := by
  induction es generalizing c with
  | nil => rfl
  | cons e es ih => rw [run_cons, run_cons, applyEvent_shift, ih]

theorem finish_shift (base : List IPart) (c : Core) : finish (shift base c) = shift base (finish c) := by
  unfold finish shift
  cases hc : c.cur <;> simp [hc, List.append_assoc]

/-! ### piecewise delivery -/

theorem prefix_append_cases {α : Type} (P' A B : List α) (h : P' <+: A ++ B) :
    P' <+: A ∨ ∃ P'', P' = A ++ P'' ∧ P'' <+: B := by
  induction A generalizing P' with
  | nil => exact Or.inr ⟨P', rfl, by simpa using h⟩
  | cons a A ih =>
    cases P' with
    | nil => exact Or.inl List.nil_prefix
    | cons x xs =>
      rw [List.cons_append, List.cons_prefix_cons] at h
      obtain ⟨hx, hxs⟩ := h
      subst hx
      rcases ih xs hxs with h1 | ⟨P'', h1, h2⟩
      · exact Or.inl (List.cons_prefix_cons.mpr ⟨rfl, h1⟩)
      · exact Or.inr ⟨P'', by rw [h1]; rfl, h2⟩

def mkEv (w : Ev) (bs : List Byte) : Ev := (w.1, w.2.1, w.2.2.1, bs)

/-- `Refines W P`: `P` delivers the files `W` in order, every non-empty file cut into one or more
    non-empty consecutive pieces, empty files not at all. -/
inductive Refines : List Ev → List Ev → Prop where
  | nil : Refines [] []
  | skip (w : Ev) {W P : List Ev} : w.2.2.2 = [] → Refines W P → Refines (w :: W) P
  | cons (w : Ev) (ps : List (List Byte)) {W P : List Ev} : ps ≠ [] → (∀ p ∈ ps, p ≠ []) → ps.flatten = w.2.2.2 →
      Refines W P → Refines (w :: W) (ps.map (mkEv w) ++ P)

def nonEmptyEv (w : Ev) : Bool := !w.2.2.2.isEmpty

/-- All pieces of one file amount to one write of their concatenation. -/
theorem run_pieces (c : Core) (w : Ev) (ps : List (List Byte)) (hne : ps ≠ []) :
    run c (ps.map (mkEv w)) = applyEvent c (mkEv w ps.flatten) := by
  induction ps generalizing c with
  | nil => exact absurd rfl hne
  | cons p ps ih =>
    cases ps with
    | nil => simp [mkEv]
    | cons q qs =>
      have := ih (applyEvent c (mkEv w p)) (by simp)
      simp only [List.map_cons, run_cons] at this ⊢
      rw [this]
      simp only [mkEv, List.flatten_cons]
      rw [applyEvent_merge]

theorem mkEv_self (w : Ev) : mkEv w w.2.2.2 = w := rfl

/-- Piecewise delivery of everything = delivery of the whole non-empty files. -/
theorem run_refines {W P : List Ev} (h : Refines W P) (c : Core) : run c P = run c (W.filter nonEmptyEv) := by
  induction h generalizing c with
  | nil => rfl
  | skip w hw _ ih => simp [List.filter, nonEmptyEv, hw, ih]
  | cons w ps hne hall hfl _ ih =>
    have hwne : nonEmptyEv w = true := by
      simp only [nonEmptyEv, ← hfl]
      cases ps with
      | nil => exact absurd rfl hne
      | cons p ps' =>
        have : p ≠ [] := hall p (by simp)
        cases p with
        | nil => exact absurd rfl this
        | cons b bs => simp
    rw [run_append, run_pieces c w ps hne, hfl, mkEv_self, ih]
    simp [List.filter, hwne]

/-- After any prefix of the pieces the installed list lies between the initial one and the one reached
    after all whole files. -/
theorem prefix_installed {W P : List Ev} (h : Refines W P) (c : Core) (P' : List Ev) (hp : P' <+: P) :
    c.installed <+: (run c P').installed ∧ (run c P').installed <+: (run c (W.filter nonEmptyEv)).installed := by
  induction h generalizing c P' with
  | nil =>
    have : P' = [] := List.prefix_nil.mp hp
    subst this
    exact ⟨List.prefix_refl _, List.prefix_refl _⟩
  | skip w hw _ ih =>
    have := ih c P' hp
    simpa [List.filter, nonEmptyEv, hw] using this
  | @cons w ps W P0 hne hall hfl hr ih =>
    have hwne : nonEmptyEv w = true := by
      simp only [nonEmptyEv, ← hfl]
      cases ps with
      | nil => exact absurd rfl hne
      | cons p ps' =>
        have : p ≠ [] := hall p (by simp)
        cases p with
        | nil => exact absurd rfl this
        | cons b bs => simp
    have hfilter : (w :: W).filter nonEmptyEv = w :: W.filter nonEmptyEv := by simp [List.filter, hwne]
    rw [hfilter, run_cons]
    -- P' is a prefix of the pieces of `w`, or all pieces of `w` followed by a prefix of `P0`
    rcases prefix_append_cases _ _ _ hp with hin | ⟨P'', hP', hP''⟩
    · -- inside the pieces of w
      obtain ⟨m, hm⟩ : ∃ m, P' = (ps.take m).map (mkEv w) := by
        obtain ⟨t, ht⟩ := hin
        refine ⟨P'.length, ?_⟩
        have : P' = (ps.map (mkEv w)).take P'.length := by
          rw [← ht]; simp
        rw [this, List.map_take]; simp
      by_cases hm0 : ps.take m = []
      · rw [hm, hm0]
        simp only [List.map_nil, run_nil]
        exact ⟨List.prefix_refl _, (applyEvent_installed_prefix c w).trans (run_installed_prefix _ _)⟩
      · rw [hm, run_pieces c w _ hm0]
        have e1 : (applyEvent c (mkEv w (ps.take m).flatten)).installed = (applyEvent c w).installed := by
          have := applyEvent_installed c w.1 w.2.1 w.2.2.1 (ps.take m).flatten w.2.2.2
          simpa [mkEv] using this
        rw [e1]
        exact ⟨applyEvent_installed_prefix c w, run_installed_prefix _ _⟩
    · subst hP'
      rw [run_append, run_pieces c w ps hne, hfl, mkEv_self]
      have := ih (applyEvent c w) P'' hP''
      exact ⟨(applyEvent_installed_prefix c w).trans this.1, this.2⟩

end Banyan.C17
