/-
C17 helper lemmas, liveness: a delivery order that the reorder window accepts (`Admissible`, defined on
chunk indices only) drives the real session machine to the point where every chunk has been applied and the
buffer is empty, so the completion message is honoured.
-/
import Banyan.Lemmas.C17Run

namespace Banyan.C17

/-! ### the reorder window on indices -/

def drainIdx : Nat → Nat → List Nat → Nat × List Nat
  | 0, e, B => (e, B)
  | f + 1, e, B => if B.contains e then drainIdx f (e + 1) (B.filter (· != e)) else (e, B)

/-- Arrival of chunk `i` when `e` is expected and the indices `B` are buffered; `none`: not accepted. -/
def stepIdx (cfg : Cfg) (e : Nat) (B : List Nat) (i : Nat) : Option (Nat × List Nat) :=
  if cfg.reorder then
    if i = e then some (drainIdx B.length (e + 1) B)
    else if e < i then
      if cfg.maxGap < i - e then none
      else if cfg.maxBuf ≤ B.length then none
      else some (e, i :: B.filter (· != i))
    else none
  else if i = e then some (e + 1, B) else none

def runIdx (cfg : Cfg) : Nat → List Nat → List Nat → Option (Nat × List Nat)
  | e, B, [] => some (e, B)
  | e, B, i :: is =>
    match stepIdx cfg e B i with
    | none => none
    | some x => runIdx cfg x.1 x.2 is

/-- `is` delivers the chunks `0 … n-1`, chunk 0 first, every other chunk at a moment when it is the expected
    one or at most `maxGap` ahead of it with room in the buffer, and nothing is missing at the end. -/
def Admissible (cfg : Cfg) (n : Nat) (is : List Nat) : Prop :=
  (∃ rest, is = 0 :: rest ∧ ∀ i ∈ rest, 0 < i) ∧ runIdx cfg 0 [] is = some (n, [])

/-! ### simulation -/

structure Sim (cs : List Chunk) (cfg : Cfg) (s : Session) (e : Nat) (B : List Nat) : Prop where
  recv : s.chunksReceived = e
  exp : cfg.reorder = true → s.expected = e
  buf : s.buffer.map (·.index) = B
  gen : ∀ c ∈ s.buffer, cs[c.index]? = some c

theorem genuine_facts {cs : List Chunk} {parts : List SPart} (sf : SenderFacts cs parts) (c : Chunk)
    (h : cs[c.index]? = some c) :
    checksumOf c.data = c.checksum ∧ c.versionOk = true ∧ c.hasMeta = (c.index == 0) := by
  have hm : c ∈ cs := List.mem_of_getElem? h
  obtain ⟨_, h2, h3, _, h5, _⟩ := sf.good c hm
  exact ⟨h2.symm, h3, h5⟩

theorem bufFind_map (buf : List Chunk) (e : Nat) :
    (bufFind buf e).isSome = (buf.map (·.index)).contains e := by
  induction buf with
  | nil => rfl
  | cons c cs ih =>
    simp only [bufFind, List.find?_cons, List.map_cons, List.contains_cons]
    by_cases h : c.index = e
    · simp [h]
    · have h1 : (c.index == e) = false := by simpa using h
      have h2 : (e == c.index) = false := by simpa using fun hh => h hh.symm
      simp only [h1, h2, Bool.false_or]
      exact ih

theorem bufErase_map (buf : List Chunk) (e : Nat) :
    (bufErase buf e).map (·.index) = (buf.map (·.index)).filter (· != e) := by
  induction buf with
  | nil => rfl
  | cons c cs ih =>
    simp only [bufErase, List.filter_cons, List.map_cons]
    by_cases h : c.index = e
    · simp only [h, bne_self_eq_false, Bool.false_eq_true, if_false]; exact ih
    · have h1 : (c.index != e) = true := by simpa using h
      simp only [h1, if_true, List.map_cons]
      congr 1

/-- A genuine chunk at the expected position is accepted. -/
theorem processExpected_genuine {cs : List Chunk} {parts : List SPart} (sf : SenderFacts cs parts)
    (st : RState) (s : Session) (c : Chunk) (h : cs[c.index]? = some c) :
    (processExpected st s c).1 = true ∧ (processExpected st s c).2.2.chunksReceived = s.chunksReceived + 1 ∧
    (processExpected st s c).2.2.buffer = s.buffer ∧ (processExpected st s c).2.2.expected = s.expected := by
  rw [processExpected_valid st s c (genuine_facts sf c h).1]
  exact ⟨rfl, rfl, rfl, rfl⟩

theorem processBuffered_sim {cs : List Chunk} {parts : List SPart} (sf : SenderFacts cs parts) (cfg : Cfg)
    (hr : cfg.reorder = true) :
    ∀ (fuel : Nat) (st : RState) (s : Session) (e : Nat) (B : List Nat), Sim cs cfg s e B →
      Sim cs cfg (processBuffered cfg fuel st s).2 (drainIdx fuel e B).1 (drainIdx fuel e B).2 := by
  intro fuel
  induction fuel with
  | zero => intro st s e B h; exact h
  | succ fuel ih =>
    intro st s e B h
    have hexp : s.expected = e := h.exp hr
    simp only [processBuffered, drainIdx]
    have hfm := bufFind_map s.buffer s.expected
    rw [h.buf, hexp] at hfm
    cases hf : bufFind s.buffer s.expected with
    | none =>
      rw [hexp] at hf
      rw [hf] at hfm
      have : B.contains e = false := by simpa using hfm.symm
      simp only [this, Bool.false_eq_true, if_false]
      exact h
    | some c =>
      obtain ⟨hmem, hci⟩ := bufFind_mem _ _ _ hf
      rw [hexp] at hf
      rw [hf] at hfm
      have hcont : B.contains e = true := by simpa using hfm.symm
      simp only [hcont, if_true]
      have hg := h.gen c hmem
      have hpe := processExpected_genuine sf st { s with buffer := bufErase s.buffer s.expected } c hg
      generalize hrr : processExpected st { s with buffer := bufErase s.buffer s.expected } c = r at hpe
      obtain ⟨acc, st2, s2⟩ := r
      simp only at hpe
      obtain ⟨hacc, hcr, hbuf, hex2⟩ := hpe
      subst hacc
      dsimp only
      simp only [Bool.not_true, Bool.false_and, Bool.false_eq_true, if_false]
      apply ih
      refine ⟨by simp only; rw [hcr, h.recv], fun _ => by simp only; rw [hex2, hexp], ?_, ?_⟩
      · simp only; rw [hbuf, bufErase_map, h.buf, hexp]
      · intro d hd
        simp only at hd
        rw [hbuf] at hd
        exact h.gen d (bufErase_mem _ _ _ hd)

/-- One accepted arrival. -/
theorem processChunk_sim {cs : List Chunk} {parts : List SPart} (sf : SenderFacts cs parts) (cfg : Cfg)
    (st : RState) (s : Session) (c : Chunk) (e : Nat) (B : List Nat) (h : Sim cs cfg s e B)
    (hg : cs[c.index]? = some c) (x : Nat × List Nat) (hx : stepIdx cfg e B c.index = some x) :
    Sim cs cfg (processChunk cfg st s c).2 x.1 x.2 := by
  obtain ⟨hvalid, hver, _⟩ := genuine_facts sf c hg
  unfold processChunk
  simp only [hver, Bool.not_true, Bool.false_eq_true, if_false]
  unfold stepIdx at hx
  by_cases hr : cfg.reorder = true
  · simp only [hr, if_true] at hx ⊢
    have hexp : s.expected = e := h.exp hr
    unfold processReorder
    by_cases hi : c.index = e
    · simp only [hi, if_true] at hx
      simp only [hexp, hi, if_true]
      have hpe := processExpected_genuine sf st s c hg
      generalize hrr : processExpected st s c = r at hpe
      obtain ⟨acc, st1, s1⟩ := r
      simp only at hpe
      obtain ⟨hacc, hcr, hbuf, hex1⟩ := hpe
      subst hacc
      dsimp only
      simp only [Bool.not_true, Bool.false_and, Bool.false_eq_true, if_false]
      have hx' : x = drainIdx B.length (e + 1) B := by simpa using hx.symm
      rw [hx']
      have hlen : s1.buffer.length = B.length := by rw [hbuf, ← h.buf]; simp
      rw [hlen]
      apply processBuffered_sim sf cfg hr
      exact ⟨by simp only; rw [hcr, h.recv], fun _ => by simp only; rw [hex1, hexp], by simp only; rw [hbuf, h.buf],
        by intro d hd; simp only at hd; rw [hbuf] at hd; exact h.gen d hd⟩
    · simp only [hi, if_false] at hx
      simp only [hexp, hi, if_false]
      by_cases hgt : e < c.index
      · simp only [hgt, if_true] at hx ⊢
        by_cases hgap : cfg.maxGap < c.index - e
        · simp [hgap] at hx
        · simp only [hgap, if_false] at hx ⊢
          have hlen : s.buffer.length = B.length := by rw [← h.buf]; simp
          by_cases hfull : cfg.maxBuf ≤ B.length
          · simp [hfull] at hx
          · simp only [hfull, if_false] at hx
            simp only [hlen, hfull, if_false]
            have hx' : x = (e, c.index :: B.filter (· != c.index)) := by simpa using hx.symm
            rw [hx']
            refine ⟨h.recv, fun _ => rfl, ?_, ?_⟩
            · simp only [List.map_cons]; rw [bufErase_map, h.buf]
            · intro d hd
              rcases List.mem_cons.mp hd with rfl | hd
              · exact hg
              · exact h.gen d (bufErase_mem _ _ _ hd)
      · simp [hgt] at hx
  · have hr' : cfg.reorder = false := by cases hh : cfg.reorder <;> simp_all
    simp only [hr', Bool.false_eq_true, if_false] at hx ⊢
    unfold processSequential
    by_cases hi : c.index = e
    · simp only [hi, if_true] at hx
      simp only [h.recv, hi, ne_eq, not_true_eq_false, if_false]
      have hpe := processExpected_genuine sf st s c hg
      generalize hrr : processExpected st s c = r at hpe
      obtain ⟨acc, st1, s1⟩ := r
      simp only at hpe ⊢
      obtain ⟨_, hcr, hbuf, hex1⟩ := hpe
      have hx' : x = (e + 1, B) := by simpa using hx.symm
      rw [hx']
      exact ⟨by rw [hcr, h.recv], fun hh => by simp [hr'] at hh, by rw [hbuf, h.buf],
        by intro d hd; rw [hbuf] at hd; exact h.gen d hd⟩
    · simp [hi] at hx

/-- Delivering genuine, metadata-free chunks in an accepted order. -/
theorem recvLoop_sim {cs : List Chunk} {parts : List SPart} {ok : Nat → Prop} (sf : SenderFacts cs parts) (cfg : Cfg)
    (hl : cfg.legacy = false) (c0 : Core) (rest : List Msg) :
    ∀ (ds : List Chunk) (st : RState) (s : Session) (e : Nat) (B : List Nat) (x : Nat × List Nat),
      (∀ d ∈ ds, cs[d.index]? = some d ∧ 0 < d.index ∧ ok d.index) → st.sess = some s → Sim cs cfg s e B →
      SBase cs ok c0 s st.core → (cfg.reorder = true → s.expected = s.chunksReceived) →
      runIdx cfg e B (ds.map (·.index)) = some x →
      ∃ st' s', recvLoop cfg st (ds.map Msg.chunk ++ rest) = recvLoop cfg st' rest ∧ st'.sess = some s' ∧
        Sim cs cfg s' x.1 x.2 ∧ SBase cs ok c0 s' st'.core := by
  intro ds
  induction ds with
  | nil =>
    intro st s e B x _ hs hsim hb _ hx
    simp only [List.map_nil, runIdx] at hx
    have : x = (e, B) := by simpa using hx.symm
    subst this
    exact ⟨st, s, rfl, hs, hsim, hb⟩
  | cons d ds ih =>
    intro st s e B x hall hs hsim hb he hx
    obtain ⟨hg, hpos, hokd⟩ := hall d (by simp)
    simp only [List.map_cons, runIdx] at hx
    cases hstep : stepIdx cfg e B d.index with
    | none => simp [hstep] at hx
    | some y =>
      simp only [hstep] at hx
      have hmeta : d.hasMeta = false := by
        rw [(genuine_facts sf d hg).2.2]
        have : d.index ≠ 0 := by omega
        simpa using this
      have hgen : Gen cs ok d := fun _ => ⟨hg, hokd⟩
      have hpc := processChunk_inv cfg hl st s d hb he hgen
      have hps := processChunk_sim sf cfg st s d e B hsim hg y hstep
      simp only [List.map_cons, List.cons_append, recvLoop, hmeta, Bool.false_eq_true, if_false, hs]
      generalize hr : processChunk cfg st s d = r at hpc hps
      obtain ⟨st2, s2⟩ := r
      simp only at hpc hps ⊢
      exact ih { st2 with sess := some s2 } s2 y.1 y.2 x (fun d' hd' => hall d' (by simp [hd'])) rfl hps hpc.1 hpc.2.2 hx

theorem take_length_self {α : Type} (l : List α) : l.take l.length = l := List.take_length

/-- An admissible delivery of all chunks followed by the completion is acknowledged with SYNC_COMPLETE. -/
theorem admissible_completes {cs : List Chunk} {parts : List SPart} (sf : SenderFacts cs parts) (cfg : Cfg)
    (hl : cfg.legacy = false) (inst0 : List IPart) (ds : List Chunk) (hmem : ∀ d ∈ ds, d ∈ cs)
    (hadm : Admissible cfg cs.length (ds.map (·.index))) :
    (recvFrom cfg inst0 (ds.map Msg.chunk ++ [Msg.completion cs.length (totalBytes cs)])).result.isSome = true := by
  obtain ⟨⟨irest, hirest, hpos⟩, hrun⟩ := hadm
  have hgen : ∀ d ∈ ds, cs[d.index]? = some d := by
    intro d hd
    obtain ⟨j, hj⟩ := List.getElem?_of_mem (hmem d hd)
    have := sf.index j d hj
    rw [this]; exact hj
  cases ds with
  | nil => simp at hirest
  | cons d0 ds =>
    simp only [List.map_cons, List.cons.injEq] at hirest
    obtain ⟨hd0, hrest⟩ := hirest
    have hg0 := hgen d0 (by simp)
    have hmeta0 : d0.hasMeta = true := by rw [(genuine_facts sf d0 hg0).2.2, hd0]; rfl
    unfold recvFrom
    simp only [List.map_cons, List.cons_append, recvLoop, hmeta0, if_true, startSession]
    let c0 : Core := { installed := inst0 }
    have hb1 : SBase cs (fun _ => True) c0 ({} : Session) c0 :=
      ⟨by simp [totalBytes], by simp, (appl_zero cs c0).symm, by intro j hj; simp at hj, by intro d hd; simp at hd⟩
    have hsim1 : Sim cs cfg ({} : Session) 0 [] := ⟨rfl, fun _ => rfl, rfl, by intro d hd; simp at hd⟩
    simp only [List.map_cons, runIdx, hd0] at hrun
    cases hstep : stepIdx cfg 0 [] 0 with
    | none => simp [hstep] at hrun
    | some y =>
      simp only [hstep] at hrun
      have hgen0 : Gen cs (fun _ => True) d0 := fun _ => ⟨hg0, trivial⟩
      have hpc := processChunk_inv cfg hl { sess := some {}, core := c0 } {} d0 hb1 (fun _ => rfl) hgen0
      have hps := processChunk_sim sf cfg { sess := some {}, core := c0 } {} d0 0 [] hsim1 hg0 y (by rw [hd0]; exact hstep)
      generalize hr : processChunk cfg { sess := some {}, core := c0 } {} d0 = r at hpc hps
      obtain ⟨st2, s2⟩ := r
      simp only at hpc hps ⊢
      obtain ⟨st', s', hloop, hsess', hsim', hb'⟩ :=
        recvLoop_sim (ok := fun _ => True) sf cfg hl c0 [Msg.completion cs.length (totalBytes cs)] ds
          { st2 with sess := some s2 } s2 y.1 y.2 (cs.length, [])
          (fun d hd => ⟨hgen d (by simp [hd]), hpos d.index (by rw [← hrest]; exact List.mem_map_of_mem hd), trivial⟩)
          rfl hps hpc.1 hpc.2.2 hrun
      rw [hloop]
      simp only [recvLoop, hsess']
      have hcr : s'.chunksReceived = cs.length := hsim'.recv
      have hbuf : s'.buffer = [] := by
        have := hsim'.buf
        simpa using this
      have htot : s'.totalReceived = totalBytes cs := by rw [hb'.total, hcr, take_length_self]
      unfold handleCompletion
      have hcond : (!cfg.legacy && (!s'.buffer.isEmpty ||
          ((cs.length != 0 || totalBytes cs != 0) &&
            (cs.length != s'.chunksReceived || totalBytes cs != s'.totalReceived)))) = false := by
        simp [hcr, htot, hbuf]
      simp only [hcond, Bool.false_eq_true, if_false]
      exact (finalize_core _ _ _).2.2.1 ▸ rfl

/-- In-order delivery is admissible in every configuration. -/
theorem runIdx_inorder (cfg : Cfg) : ∀ (k e : Nat), runIdx cfg e [] ((List.range' e k)) = some (e + k, []) := by
  intro k
  induction k with
  | zero => intro e; simp [runIdx]
  | succ k ih =>
    intro e
    simp only [List.range'_succ, runIdx]
    have : stepIdx cfg e [] e = some (e + 1, []) := by
      unfold stepIdx
      cases cfg.reorder <;> simp [drainIdx]
    simp only [this]
    rw [ih (e + 1)]
    congr 2
    omega

theorem admissible_inorder (cfg : Cfg) (n : Nat) (hn : 0 < n) : Admissible cfg n (List.range' 0 n) := by
  refine ⟨⟨List.range' 1 (n - 1), ?_, ?_⟩, ?_⟩
  · cases n with
    | zero => omega
    | succ m => simp [List.range'_succ]
  · intro i hi
    have := (List.mem_range'_1.mp hi).1
    omega
  · have := runIdx_inorder cfg n 0
    simpa using this

end Banyan.C17
