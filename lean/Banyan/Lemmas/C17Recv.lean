/-
C17 helper lemmas, receiver level: the session machine (fixed variant, `legacy := false`) applies exactly
a prefix of the sender's chunks, in order, each once, whatever is delivered - as long as a chunk with a valid
checksum is what the sender sent under that index (`Gen`).
-/
import Banyan.Lemmas.C17Sender

namespace Banyan.C17

/-! ### prefixes of the sender's chunk list applied to a shard -/

def appl (cs : List Chunk) (c0 : Core) (e : Nat) : Core := (cs.take e).foldl applyChunk c0

theorem appl_zero (cs : List Chunk) (c0 : Core) : appl cs c0 0 = c0 := by simp [appl]

theorem appl_succ (cs : List Chunk) (c0 : Core) (e : Nat) (c : Chunk) (h : cs[e]? = some c) :
    appl cs c0 (e + 1) = applyChunk (appl cs c0 e) c := by
  simp [appl, List.take_add_one, h, List.foldl_append]

theorem totalBytes_succ (cs : List Chunk) (e : Nat) (c : Chunk) (h : cs[e]? = some c) :
    totalBytes (cs.take (e + 1)) = totalBytes (cs.take e) + c.data.length := by
  simp [totalBytes, List.take_add_one, h]

theorem foldl_applyChunk_run (l : List Chunk) (hg : ∀ c ∈ l, GoodChunk c) (c0 : Core) :
    l.foldl applyChunk c0 = run c0 (l.flatMap chunkEvents) := by
  induction l generalizing c0 with
  | nil => rfl
  | cons c l ih =>
    simp only [List.foldl_cons, List.flatMap_cons, run_append]
    rw [applyChunk_run c (hg c (by simp)), ih (fun d hd => hg d (by simp [hd]))]

theorem flatMap_take_prefix {α β : Type} (l : List α) (f : α → List β) (e : Nat) :
    (l.take e).flatMap f <+: l.flatMap f := by
  conv => rhs; rw [← List.take_append_drop e l]
  rw [List.flatMap_append]
  exact List.prefix_append _ _

def setD (d : Nat) (c : Core) : Core := { c with discarded := d }

theorem applyEvent_setD (d : Nat) (c : Core) (e : Ev) : applyEvent (setD d c) e = setD d (applyEvent c e) := by
  unfold applyEvent enter write setD
  cases hc : c.cur with
  | none => simp [hc]
  | some o =>
    by_cases hid : o.id = e.1
    · simp [hc, hid]
    · simp [hc, hid]

theorem run_setD (d : Nat) (c : Core) (es : List Ev) : run (setD d c) es = setD d (run c es) := by
  induction es generalizing c with
  | nil => rfl
  | cons e es ih => rw [run_cons, run_cons, applyEvent_setD, ih]

theorem finish_setD (d : Nat) (c : Core) : finish (setD d c) = setD d (finish c) := by
  unfold finish setD
  cases hc : c.cur <;> simp [hc]

theorem fileStates_fev (parts : List SPart) :
    ((fileStates parts).map fev).filter nonEmptyEv = wholeEvents parts := fileStatesFrom_fev parts 0

/-- What the sender's files install into an empty shard. -/
def exactParts (parts : List SPart) : List IPart := installWhole [] parts

theorem finish_run_whole (parts : List SPart) (c0 : Core) (h0 : c0.cur = none) :
    (finish (run c0 (wholeEvents parts))).installed = c0.installed ++ exactParts parts := by
  have hc0 : c0 = shift c0.installed (setD c0.discarded { installed := [] }) := by
    cases c0; simp_all [shift, setD]
  rw [hc0, run_shift, finish_shift, run_setD, finish_setD]
  simp [shift, setD, exactParts, installWhole, run]

/-- Facts about the chunk list the sender produced for `parts`. -/
structure SenderFacts (cs : List Chunk) (parts : List SPart) : Prop where
  index : ∀ (j : Nat) (c : Chunk), cs[j]? = some c → c.index = j
  good : ∀ c ∈ cs, GoodChunk c ∧ c.checksum = checksumOf c.data ∧ c.versionOk = true ∧ c.data ≠ [] ∧
    c.hasMeta = (c.index == 0) ∧ DataIsPieces c
  refines : Refines ((fileStates parts).map fev) (cs.flatMap chunkEvents)

theorem senderFacts (cap : Nat) (r : Reader) (hcap : 0 < cap) (parts : List SPart) :
    SenderFacts (senderChunks cap r parts) parts := by
  obtain ⟨P, hP, e1, e2, e3⟩ := senderChunks_spec cap r hcap parts
  exact ⟨e3, e2, by rw [e1]; exact hP⟩

/-- After any prefix of the sender's chunks the installed list is the initial one followed by a prefix of
    the exact install list; the last exact part is missing unless everything was applied and finished. -/
theorem appl_installed {cs : List Chunk} {parts : List SPart} (sf : SenderFacts cs parts) (c0 : Core)
    (h0 : c0.cur = none) (e : Nat) :
    c0.installed <+: (appl cs c0 e).installed ∧
    (appl cs c0 e).installed <+: c0.installed ++ exactParts parts ∧
    (exactParts parts ≠ [] → (appl cs c0 e).installed.length < c0.installed.length + (exactParts parts).length) ∧
    (appl cs c0 e).discarded = c0.discarded := by
  have hg : ∀ c ∈ cs.take e, GoodChunk c := fun c hc => (sf.good c (List.mem_of_mem_take hc)).1
  have hrun : appl cs c0 e = run c0 ((cs.take e).flatMap chunkEvents) := foldl_applyChunk_run _ hg c0
  have hpre := prefix_installed sf.refines c0 _ (flatMap_take_prefix cs chunkEvents e)
  rw [fileStates_fev] at hpre
  have hfin := finish_run_whole parts c0 h0
  have hfp := finish_installed_prefix (run c0 (wholeEvents parts))
  rw [hfin] at hfp
  refine ⟨by rw [hrun]; exact hpre.1, by rw [hrun]; exact hpre.2.trans hfp, ?_, by rw [hrun, run_discarded]⟩
  intro hne
  rw [hrun]
  have hlen := hpre.2.length_le
  -- the whole run leaves a part open, which `finish` installs
  have hw : wholeEvents parts ≠ [] := by
    intro hw
    apply hne
    simp [exactParts, installWhole, hw, finish]
  have hopen := run_cur_isSome c0 _ hw
  have hfl := finish_length _ hopen
  rw [hfin] at hfl
  simp at hfl
  omega

theorem appl_all_finish {cs : List Chunk} {parts : List SPart} (sf : SenderFacts cs parts) (c0 : Core)
    (h0 : c0.cur = none) : (finish (appl cs c0 cs.length)).installed = c0.installed ++ exactParts parts := by
  have hg : ∀ c ∈ cs, GoodChunk c := fun c hc => (sf.good c hc).1
  have hrun : appl cs c0 cs.length = run c0 (cs.flatMap chunkEvents) := by
    simp [appl, foldl_applyChunk_run cs hg c0]
  rw [hrun, run_refines sf.refines, fileStates_fev, finish_run_whole parts c0 h0]

/-! ### the session invariant -/

/-- A chunk with a valid checksum is the sender's chunk of that index, and the index is acceptable. -/
def Gen (cs : List Chunk) (ok : Nat → Prop) (c : Chunk) : Prop :=
  checksumOf c.data = c.checksum → cs[c.index]? = some c ∧ ok c.index

def GenM (cs : List Chunk) (ok : Nat → Prop) : Msg → Prop
  | .chunk c => Gen cs ok c
  | .completion tc tb => tc = cs.length ∧ tb = totalBytes cs

structure SBase (cs : List Chunk) (ok : Nat → Prop) (c0 : Core) (s : Session) (core : Core) : Prop where
  total : s.totalReceived = totalBytes (cs.take s.chunksReceived)
  le : s.chunksReceived ≤ cs.length
  core_eq : core = appl cs c0 s.chunksReceived
  okj : ∀ j, j < s.chunksReceived → ok j
  buf : ∀ c ∈ s.buffer, Gen cs ok c

theorem ack_core (st : RState) (code : Nat) : (ack st code).core = st.core := rfl
theorem ack_sess (st : RState) (code : Nat) : (ack st code).sess = st.sess := rfl

theorem processExpected_invalid (st : RState) (s : Session) (c : Chunk) (h : checksumOf c.data ≠ c.checksum) :
    processExpected st s c = (false, ack st stMismatch, s) := by
  simp [processExpected, h]

theorem processExpected_valid (st : RState) (s : Session) (c : Chunk) (h : checksumOf c.data = c.checksum) :
    processExpected st s c =
      (true,
       ack { st with core := applyChunk st.core c, log := st.log ++ logParts c.data st.core c.parts } stReceived,
       { s with totalReceived := s.totalReceived + c.data.length, chunksReceived := s.chunksReceived + 1,
                progress := updProgress c.data c.parts s.progress }) := by
  simp [processExpected, h]

/-- `processExpectedChunk` on the chunk the session waits for. -/
theorem processExpected_inv {cs : List Chunk} {ok : Nat → Prop} {c0 : Core} {s : Session} {st : RState} {c : Chunk}
    (h : SBase cs ok c0 s st.core) (hc : Gen cs ok c) (hidx : c.index = s.chunksReceived) :
    SBase cs ok c0 (processExpected st s c).2.2 (processExpected st s c).2.1.core ∧
    (processExpected st s c).2.1.sess = st.sess ∧
    (processExpected st s c).2.2.buffer = s.buffer ∧
    (processExpected st s c).2.2.expected = s.expected ∧
    ((processExpected st s c).1 = true → (processExpected st s c).2.2.chunksReceived = s.chunksReceived + 1) ∧
    ((processExpected st s c).1 = false → (processExpected st s c).2.2 = s ∧ (processExpected st s c).2.1.core = st.core) := by
  by_cases hv : checksumOf c.data = c.checksum
  · rw [processExpected_valid st s c hv]
    obtain ⟨hget, hok⟩ := hc hv
    rw [hidx] at hget hok
    have hlt : s.chunksReceived < cs.length := by
      have := (List.getElem?_eq_some_iff.mp hget).1
      exact this
    refine ⟨⟨?_, ?_, ?_, ?_, h.buf⟩, rfl, rfl, rfl, fun _ => rfl, fun hf => by simp at hf⟩
    · simp only
      rw [totalBytes_succ cs _ c hget, h.total]
    · simp only; omega
    · simp only [ack_core]
      rw [appl_succ cs c0 _ c hget, ← h.core_eq]
    · intro j hj
      simp only at hj
      by_cases hjj : j = s.chunksReceived
      · rw [hjj]; exact hok
      · exact h.okj j (by omega)
  · rw [processExpected_invalid st s c hv]
    exact ⟨h, rfl, rfl, rfl, fun hf => by simp at hf, fun _ => ⟨rfl, rfl⟩⟩

theorem bufFind_mem (buf : List Chunk) (i : Nat) (c : Chunk) (h : bufFind buf i = some c) : c ∈ buf ∧ c.index = i := by
  unfold bufFind at h
  have := List.find?_some h
  exact ⟨List.mem_of_find?_eq_some h, by simpa using this⟩

theorem bufErase_mem (buf : List Chunk) (i : Nat) (c : Chunk) (h : c ∈ bufErase buf i) : c ∈ buf := by
  unfold bufErase at h
  exact (List.mem_filter.mp h).1

/-- `processBufferedChunks` keeps the invariant. -/
theorem processBuffered_inv {cs : List Chunk} {ok : Nat → Prop} {c0 : Core} (cfg : Cfg) (hl : cfg.legacy = false) :
    ∀ (fuel : Nat) (st : RState) (s : Session), SBase cs ok c0 s st.core → s.expected = s.chunksReceived →
      SBase cs ok c0 (processBuffered cfg fuel st s).2 (processBuffered cfg fuel st s).1.core ∧
      (processBuffered cfg fuel st s).1.sess = st.sess ∧
      (processBuffered cfg fuel st s).2.expected = (processBuffered cfg fuel st s).2.chunksReceived := by
  intro fuel
  induction fuel with
  | zero => intro st s h he; exact ⟨h, rfl, he⟩
  | succ fuel ih =>
    intro st s h he
    simp only [processBuffered]
    cases hf : bufFind s.buffer s.expected with
    | none => exact ⟨h, rfl, he⟩
    | some c =>
      obtain ⟨hmem, hci⟩ := bufFind_mem _ _ _ hf
      simp only
      have h1 : SBase cs ok c0 { s with buffer := bufErase s.buffer s.expected } st.core :=
        ⟨h.total, h.le, h.core_eq, h.okj, fun d hd => h.buf d (bufErase_mem _ _ _ hd)⟩
      have hpe := processExpected_inv (st := st) (c := c) h1 (h.buf c hmem) (by rw [hci]; exact he)
      generalize hr : processExpected st { s with buffer := bufErase s.buffer s.expected } c = r at hpe
      obtain ⟨acc, st2, s2⟩ := r
      simp only at hpe
      obtain ⟨hb, hsess, hbuf, hexp, hacc, hrej⟩ := hpe
      cases acc with
      | false =>
        dsimp only
        simp only [hl, Bool.not_false, Bool.and_self, if_true, Bool.not_true]
        obtain ⟨hs2, _⟩ := hrej rfl
        refine ⟨hb, hsess, ?_⟩
        rw [hs2]; exact he
      | true =>
        dsimp only
        simp only [Bool.not_true, Bool.false_and, Bool.false_eq_true, if_false]
        have hcr := hacc rfl
        have h3 : SBase cs ok c0 { s2 with expected := s2.expected + 1 } st2.core :=
          ⟨hb.total, hb.le, hb.core_eq, hb.okj, hb.buf⟩
        have := ih st2 { s2 with expected := s2.expected + 1 } h3 (by simp only; rw [hexp, hcr, he])
        exact ⟨this.1, this.2.1.trans hsess, this.2.2⟩

/-- `processChunk` keeps the invariant. -/
theorem processChunk_inv {cs : List Chunk} {ok : Nat → Prop} {c0 : Core} (cfg : Cfg) (hl : cfg.legacy = false)
    (st : RState) (s : Session) (c : Chunk) (h : SBase cs ok c0 s st.core)
    (he : cfg.reorder = true → s.expected = s.chunksReceived) (hc : Gen cs ok c) :
    SBase cs ok c0 (processChunk cfg st s c).2 (processChunk cfg st s c).1.core ∧
    (processChunk cfg st s c).1.sess = st.sess ∧
    (cfg.reorder = true → (processChunk cfg st s c).2.expected = (processChunk cfg st s c).2.chunksReceived) := by
  unfold processChunk
  by_cases hv : c.versionOk = true
  · simp only [hv, Bool.not_true, Bool.false_eq_true, if_false]
    by_cases hr : cfg.reorder = true
    · simp only [hr, if_true]
      unfold processReorder
      by_cases hi : c.index = s.expected
      · simp only [hi, if_true]
        have hpe := processExpected_inv (st := st) (c := c) h hc (by rw [hi]; exact he hr)
        generalize hrr : processExpected st s c = r at hpe
        obtain ⟨acc, st1, s1⟩ := r
        simp only at hpe
        obtain ⟨hb, hsess, hbuf, hexp, hacc, hrej⟩ := hpe
        cases acc with
        | false =>
          dsimp only
          simp only [hl, Bool.not_false, Bool.and_self, if_true, Bool.not_true]
          obtain ⟨hs1, _⟩ := hrej rfl
          refine ⟨hb, hsess, fun _ => ?_⟩
          rw [hs1]; exact he hr
        | true =>
          dsimp only
          simp only [Bool.not_true, Bool.false_and, Bool.false_eq_true, if_false]
          have hcr := hacc rfl
          have h3 : SBase cs ok c0 { s1 with expected := s1.expected + 1 } st1.core :=
            ⟨hb.total, hb.le, hb.core_eq, hb.okj, hb.buf⟩
          have := processBuffered_inv cfg hl s1.buffer.length st1 { s1 with expected := s1.expected + 1 } h3
            (by simp only; rw [hexp, hcr, he hr])
          exact ⟨this.1, this.2.1.trans hsess, fun _ => this.2.2⟩
      · simp only [hi, if_false]
        by_cases hgt : s.expected < c.index
        · simp only [hgt, if_true]
          by_cases hgap : cfg.maxGap < c.index - s.expected
          · simp only [hgap, if_true]; exact ⟨h, rfl, fun _ => he hr⟩
          · simp only [hgap, if_false]
            by_cases hfull : cfg.maxBuf ≤ s.buffer.length
            · simp only [hfull, if_true]; exact ⟨h, rfl, fun _ => he hr⟩
            · simp only [hfull, if_false]
              refine ⟨⟨h.total, h.le, h.core_eq, h.okj, ?_⟩, rfl, fun _ => he hr⟩
              intro d hd
              rcases List.mem_cons.mp hd with rfl | hd
              · exact hc
              · exact h.buf d (bufErase_mem _ _ _ hd)
        · simp only [hgt, if_false]; exact ⟨h, rfl, fun _ => he hr⟩
    · simp only [hr, if_false]
      unfold processSequential
      by_cases hi : c.index = s.chunksReceived
      · simp only [hi, ne_eq, not_true_eq_false, if_false]
        have hpe := processExpected_inv (st := st) (c := c) h hc hi
        generalize hrr : processExpected st s c = r at hpe
        obtain ⟨acc, st1, s1⟩ := r
        simp only at hpe ⊢
        exact ⟨hpe.1, hpe.2.1, fun hh => by simp at hh⟩
      · simp only [ne_eq, hi, not_false_eq_true, if_true]
        exact ⟨h, rfl, fun hh => by simp at hh⟩
  · have hv' : c.versionOk = false := by cases hvv : c.versionOk <;> simp_all
    simp only [hv', Bool.not_false, if_true]
    exact ⟨h, rfl, he⟩

end Banyan.C17
