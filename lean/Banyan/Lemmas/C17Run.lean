/-
C17 helper lemmas, whole-stream level: the receive loop of `SyncPart` (fixed variant) on an arbitrary
delivered message sequence.
-/
import Banyan.Lemmas.C17Recv

namespace Banyan.C17

def noMeta : Msg → Bool
  | .chunk c => !c.hasMeta
  | .completion _ _ => true

def isCompletion : Msg → Bool
  | .chunk _ => false
  | .completion _ _ => true

def AllExact (inst0 G l : List IPart) : Prop := ∀ p ∈ l, p ∈ inst0 ∨ p ∈ G

theorem allExact_of_prefix {inst0 G pre l : List IPart} (hp : AllExact inst0 G pre) (h : l <+: pre ++ G) :
    AllExact inst0 G l := by
  intro p hp'
  have := h.subset hp'
  rcases List.mem_append.mp this with h1 | h1
  · exact hp p h1
  · exact Or.inr h1

theorem finish_none (h : Core) (hc : h.cur = none) : finish h = h := by
  unfold finish; rw [hc]

/-- What can be said about the outcome of a session that started from shard `c0`. -/
structure Post (cs : List Chunk) (ok : Nat → Prop) (inst0 G : List IPart) (c0inst : List IPart) (ms : List Msg)
    (o : Outcome) : Prop where
  cur : o.core.cur = none
  pre : ∃ pre, AllExact inst0 G pre ∧ (ms.all noMeta = true → pre = c0inst) ∧
    (o.result.isSome → o.core.installed = pre ++ G ∧ o.ok = true ∧ (∀ j, j < cs.length → ok j) ∧
      ms.any isCompletion = true) ∧
    (o.result = none → pre <+: o.core.installed ∧ o.core.installed <+: pre ++ G ∧
      (G ≠ [] → o.core.installed.length < pre.length + G.length))

theorem finalize_core (st : RState) (okb : Bool) (res : Option SyncResult) :
    (finalize st okb res).core.installed = st.core.installed ∧
    (st.sess.isSome → (finalize st okb res).core.cur = none) ∧
    (finalize st okb res).result = res ∧ (finalize st okb res).ok = okb := by
  unfold finalize
  cases hs : st.sess with
  | none => simp
  | some s =>
    cases hc : st.core.cur with
    | none => simp [hc]
    | some o => simp [close_installed, close_cur]

theorem post_not_complete {cs : List Chunk} {parts : List SPart} {ok : Nat → Prop} (sf : SenderFacts cs parts)
    (inst0 : List IPart) (c0 : Core) (h0 : c0.cur = none) (hex : AllExact inst0 (exactParts parts) c0.installed)
    (st : RState) (s : Session) (hs : st.sess = some s) (hb : SBase cs ok c0 s st.core) (ms : List Msg) (okb : Bool) :
    Post cs ok inst0 (exactParts parts) c0.installed ms (finalize st okb none) := by
  obtain ⟨f1, f2, f3, f4⟩ := finalize_core st okb none
  obtain ⟨a1, a2, a3, _⟩ := appl_installed sf c0 h0 s.chunksReceived
  rw [← hb.core_eq] at a1 a2 a3
  refine ⟨f2 (by simp [hs]), c0.installed, hex, fun _ => rfl, ?_, ?_⟩
  · intro h; rw [f3] at h; simp at h
  · intro _
    rw [f1]
    exact ⟨a1, a2, a3⟩

/-- The receive loop from a state with an open session. -/
theorem recvLoop_inv {cs : List Chunk} {parts : List SPart} {ok : Nat → Prop} (cfg : Cfg) (hl : cfg.legacy = false)
    (sf : SenderFacts cs parts) (inst0 : List IPart) :
    ∀ (ms : List Msg) (st : RState) (s : Session) (c0 : Core),
      (∀ m ∈ ms, GenM cs ok m) → st.sess = some s → c0.cur = none →
      AllExact inst0 (exactParts parts) c0.installed → SBase cs ok c0 s st.core →
      (cfg.reorder = true → s.expected = s.chunksReceived) →
      Post cs ok inst0 (exactParts parts) c0.installed ms (recvLoop cfg st ms) := by
  intro ms
  induction ms with
  | nil =>
    intro st s c0 _ hs h0 hex hb _
    simp only [recvLoop]
    exact post_not_complete sf inst0 c0 h0 hex st s hs hb [] true
  | cons m ms ih =>
    intro st s c0 hg hs h0 hex hb he
    have hgm := hg m (by simp)
    have hgms : ∀ m' ∈ ms, GenM cs ok m' := fun m' h => hg m' (by simp [h])
    cases m with
    | completion tc tb =>
      simp only [recvLoop, hs]
      obtain ⟨htc, htb⟩ := hgm
      unfold handleCompletion
      by_cases hmis : (!cfg.legacy && (!s.buffer.isEmpty ||
          ((tc != 0 || tb != 0) && (tc != s.chunksReceived || tb != s.totalReceived)))) = true
      · simp only [hmis, if_true]
        exact post_not_complete sf inst0 c0 h0 hex st s hs hb _ false
      · simp only [hmis]
        have hall : s.chunksReceived = cs.length := by
          by_cases hz : cs.length = 0
          · have := hb.le; omega
          · -- the completion announces a non-zero chunk count, so it was compared
            by_cases heq : tc = s.chunksReceived
            · rw [← heq, htc]
            · exfalso
              apply hmis
              have h1 : (tc != 0) = true := by rw [htc]; simpa using hz
              have h2 : (tc != s.chunksReceived) = true := by simpa using heq
              simp [hl, h1, h2]
        -- both branches of the `match st.core.cur` leave `finish st.core` as the shard
        have hcore : ∀ (x : RState), x.core = finish st.core → x.sess = st.sess →
            Post cs ok inst0 (exactParts parts) c0.installed (Msg.completion tc tb :: ms)
              (finalize (ack x stComplete) true
                (some ⟨s.progress.all (·.completed), s.totalReceived, s.chunksReceived, s.progress.length⟩)) := by
          intro x hx hxs
          obtain ⟨f1, f2, f3, f4⟩ := finalize_core (ack x stComplete) true
            (some ⟨s.progress.all (·.completed), s.totalReceived, s.chunksReceived, s.progress.length⟩)
          have hinst : (finish st.core).installed = c0.installed ++ exactParts parts := by
            rw [hb.core_eq, hall]; exact appl_all_finish sf c0 h0
          refine ⟨f2 (by simp [ack_sess, hxs, hs]), c0.installed, hex, fun _ => rfl, ?_, ?_⟩
          · intro _
            refine ⟨by rw [f1, ack_core, hx, hinst], f4, ?_, by simp [isCompletion]⟩
            intro j hj
            exact hb.okj j (by omega)
          · intro h; rw [f3] at h; simp at h
        cases hcur : st.core.cur with
        | none => exact hcore st (by rw [finish_none _ hcur]) rfl
        | some o => exact hcore _ rfl rfl
    | chunk c =>
      simp only [recvLoop]
      by_cases hm : c.hasMeta = true
      · -- a chunk carrying metadata abandons the session and opens a new one on the closed shard
        simp only [hm, if_true]
        obtain ⟨a1, a2, a3, _⟩ := appl_installed sf c0 h0 s.chunksReceived
        rw [← hb.core_eq] at a1 a2 a3
        have hex' : AllExact inst0 (exactParts parts) st.core.installed := allExact_of_prefix hex a2
        -- the state after startSession: session {} on shard c0'
        have key : ∃ st1 c0', startSession cfg st = st1 ∧ st1.sess = some {} ∧ st1.core = c0' ∧ c0'.cur = none ∧
            c0'.installed = st.core.installed := by
          unfold startSession
          rw [hs]
          cases hcur : st.core.cur with
          | none => exact ⟨_, st.core, rfl, rfl, rfl, hcur, rfl⟩
          | some o =>
            simp only [hl, Bool.false_eq_true, if_false]
            exact ⟨_, close st.core, rfl, rfl, rfl, close_cur _, close_installed _⟩
        obtain ⟨st1, c0', hst1, hsess1, hcore1, hcur1, hinst1⟩ := key
        rw [hst1]
        simp only [hsess1]
        have hb1 : SBase cs ok c0' ({} : Session) st1.core :=
          ⟨by simp [totalBytes], by simp, by rw [hcore1]; exact (appl_zero cs c0').symm, by intro j hj; simp at hj,
           by intro d hd; simp at hd⟩
        have hpc := processChunk_inv cfg hl st1 {} c hb1 (fun _ => rfl) hgm
        generalize hr : processChunk cfg st1 {} c = r at hpc
        obtain ⟨st2, s2⟩ := r
        simp only at hpc ⊢
        have hex1 : AllExact inst0 (exactParts parts) c0'.installed := by rw [hinst1]; exact hex'
        have := ih { st2 with sess := some s2 } s2 c0' hgms rfl hcur1 hex1 hpc.1 hpc.2.2
        obtain ⟨pcur, pre, hp1, hp2, hp3, hp4⟩ := this
        refine ⟨pcur, pre, hp1, ?_, ?_, hp4⟩
        · intro hall
          simp [noMeta, hm] at hall
        · intro hres
          obtain ⟨q1, q2, q3, q4⟩ := hp3 hres
          exact ⟨q1, q2, q3, by simp [q4]⟩
      · have hm' : c.hasMeta = false := by cases hh : c.hasMeta <;> simp_all
        simp only [hm', Bool.false_eq_true, if_false, hs]
        have hpc := processChunk_inv cfg hl st s c hb he hgm
        generalize hr : processChunk cfg st s c = r at hpc
        obtain ⟨st2, s2⟩ := r
        simp only at hpc ⊢
        have := ih { st2 with sess := some s2 } s2 c0 hgms rfl h0 hex hpc.1 hpc.2.2
        obtain ⟨pcur, pre, hp1, hp2, hp3, hp4⟩ := this
        refine ⟨pcur, pre, hp1, ?_, ?_, hp4⟩
        · intro hall
          apply hp2
          simp only [List.all_cons, Bool.and_eq_true] at hall
          exact hall.2
        · intro hres
          obtain ⟨q1, q2, q3, q4⟩ := hp3 hres
          exact ⟨q1, q2, q3, by simp [q4]⟩

/-- `SyncPart` from the beginning of the stream (no session yet). -/
theorem recvFrom_inv {cs : List Chunk} {parts : List SPart} {ok : Nat → Prop} (cfg : Cfg) (hl : cfg.legacy = false)
    (sf : SenderFacts cs parts) (inst0 : List IPart) (ms : List Msg) (hg : ∀ m ∈ ms, GenM cs ok m) :
    Post cs ok inst0 (exactParts parts) inst0 (ms.drop 1) (recvFrom cfg inst0 ms) := by
  have hex0 : AllExact inst0 (exactParts parts) inst0 := fun p hp => Or.inl hp
  have trivialPost : ∀ (st : RState) (okb : Bool) (rest : List Msg), st.sess = none → st.core.cur = none →
      st.core.installed = inst0 → Post cs ok inst0 (exactParts parts) inst0 rest (finalize st okb none) := by
    intro st okb rest hs hc hi
    have hf : finalize st okb none = ⟨st.acks, okb, none, st.core, st.log⟩ := by
      unfold finalize; rw [hs]
    rw [hf]
    refine ⟨hc, inst0, hex0, fun _ => rfl, by intro h; simp at h, ?_⟩
    intro _
    simp only [hi]
    exact ⟨List.prefix_refl _, List.prefix_append _ _, fun hne => by
      have : 0 < (exactParts parts).length := List.length_pos_iff.mpr hne
      omega⟩
  unfold recvFrom
  cases ms with
  | nil => simp only [recvLoop, List.drop_nil]; exact trivialPost _ true [] rfl rfl rfl
  | cons m ms =>
    simp only [List.drop_succ_cons, List.drop_zero]
    cases m with
    | completion tc tb =>
      simp only [recvLoop]
      exact trivialPost _ true ms rfl rfl rfl
    | chunk c =>
      simp only [recvLoop]
      by_cases hm : c.hasMeta = true
      · simp only [hm, if_true, startSession]
        let c0 : Core := { installed := inst0 }
        have hb1 : SBase cs ok c0 ({} : Session) c0 :=
          ⟨by simp [totalBytes], by simp, (appl_zero cs c0).symm, by intro j hj; simp at hj, by intro d hd; simp at hd⟩
        have hgm := hg (Msg.chunk c) (by simp)
        have hpc := processChunk_inv cfg hl { sess := some {}, core := c0 } {} c hb1 (fun _ => rfl) hgm
        generalize hr : processChunk cfg { sess := some {}, core := c0 } {} c = r at hpc
        obtain ⟨st2, s2⟩ := r
        simp only at hpc ⊢
        exact recvLoop_inv cfg hl sf inst0 ms { st2 with sess := some s2 } s2 c0
          (fun m' h => hg m' (by simp [h])) rfl rfl hex0 hpc.1 hpc.2.2
      · have hm' : c.hasMeta = false := by cases hh : c.hasMeta <;> simp_all
        simp only [hm', Bool.false_eq_true, if_false]
        exact trivialPost _ true ms rfl rfl rfl

end Banyan.C17
