/-
C17 helper lemmas, sender level: every chunk produced by `sendLoop` is well formed (file infos tile the chunk
data, valid checksum, consecutive indices), its effect on the receiver shard is a list of piece events, and
the pieces of all chunks together refine the sender's files (`Refines`).
-/
import Banyan.Lemmas.C17Handler

namespace Banyan.C17

/-! ### events carried by a chunk -/

def partEvents (data : List Byte) (p : PartInfo) : List Ev :=
  p.files.filterMap fun fi => (sliceFile data fi).map fun bs => (p.id, p.ptype, fi.name, bs)

def chunkEvents (c : Chunk) : List Ev := c.parts.flatMap (partEvents c.data)

def GoodPart (data : List Byte) (p : PartInfo) : Prop :=
  p.files ≠ [] ∧ ∀ fi ∈ p.files, (sliceFile data fi).isSome

def GoodChunk (c : Chunk) : Prop := ∀ p ∈ c.parts, GoodPart c.data p

theorem applyFiles_run (data : List Byte) (id : Nat) (pt : String) (files : List FileInfo)
    (hall : ∀ fi ∈ files, (sliceFile data fi).isSome) (h : Core) (fs : List (Key × List Byte))
    (hc : h.cur = some ⟨id, pt, fs⟩) :
    applyFiles data h files = run h (partEvents data ⟨id, pt, files⟩) := by
  induction files generalizing h fs with
  | nil => simp [applyFiles, partEvents]
  | cons fi rest ih =>
    have hs := hall fi (by simp)
    obtain ⟨bs, hbs⟩ := Option.isSome_iff_exists.mp hs
    have hw : write h fi.name bs = { h with cur := some ⟨id, pt, writeKey (pt, fi.name) bs fs⟩ } :=
      write_cur h id pt fs fi.name bs hc
    have hae : applyEvent h (id, pt, fi.name, bs) = write h fi.name bs := by
      unfold applyEvent
      simp only
      rw [enter_idem h id pt fs hc]
    have hrec := ih (fun f hf => hall f (by simp [hf])) (write h fi.name bs) (writeKey (pt, fi.name) bs fs) (by rw [hw])
    simp only [applyFiles, hbs]
    rw [hrec]
    simp only [partEvents, List.filterMap_cons, hbs, Option.map_some, run_cons, hae]

theorem run_enter_first (h : Core) (id : Nat) (pt nm : String) (bs : List Byte) (es : List Ev) :
    run (enter h id pt) ((id, pt, nm, bs) :: es) = run h ((id, pt, nm, bs) :: es) := by
  simp only [run_cons]
  congr 1
  unfold applyEvent
  simp only
  obtain ⟨fs, hfs⟩ := enter_cur h id pt
  rw [enter_idem _ id pt fs hfs]

theorem applyParts_run (data : List Byte) (ps : List PartInfo) (hg : ∀ p ∈ ps, GoodPart data p) (h : Core) :
    applyParts data h ps = run h (ps.flatMap (partEvents data)) := by
  induction ps generalizing h with
  | nil => rfl
  | cons p ps ih =>
    obtain ⟨hne, hall⟩ := hg p (by simp)
    obtain ⟨fs, hfs⟩ := enter_cur h p.id p.ptype
    have h1 := applyFiles_run data p.id p.ptype p.files hall (enter h p.id p.ptype) fs hfs
    simp only [applyParts, List.flatMap_cons, run_append]
    rw [ih (fun q hq => hg q (by simp [hq])), h1]
    congr 1
    -- the first event of the part performs the `enter`
    cases hf : p.files with
    | nil => exact absurd hf hne
    | cons fi rest =>
      have hs := hall fi (by simp [hf])
      obtain ⟨bs, hbs⟩ := Option.isSome_iff_exists.mp hs
      have hp : p = ⟨p.id, p.ptype, fi :: rest⟩ := by cases p; simp_all
      have e1 : partEvents data ⟨p.id, p.ptype, fi :: rest⟩ =
          (p.id, p.ptype, fi.name, bs) :: partEvents data ⟨p.id, p.ptype, rest⟩ := by
        simp [partEvents, hbs]
      have e2 : partEvents data p = partEvents data ⟨p.id, p.ptype, fi :: rest⟩ := by rw [← hp]
      rw [e2, e1, run_enter_first]

/-- The effect of a well-formed chunk on the shard is the effect of its piece events. -/
theorem applyChunk_run (c : Chunk) (hg : GoodChunk c) (h : Core) : applyChunk h c = run h (chunkEvents c) :=
  applyParts_run c.data c.parts hg h

/-! ### file infos tiling a buffer -/

abbrev IP := PInfo × List Byte

def Tiles : Nat → List IP → Prop
  | _, [] => True
  | off, (i, p) :: rest => i.offset = off ∧ i.size = p.length ∧ p ≠ [] ∧ Tiles (off + p.length) rest

def bytesOf (ips : List IP) : List Byte := (ips.map (·.2)).flatten

def tagL (ips : List IP) : List Ev := ips.map fun ip => (ip.1.id, ip.1.ptype, ip.1.name, ip.2)

theorem bytesOf_append (a b : List IP) : bytesOf (a ++ b) = bytesOf a ++ bytesOf b := by
  simp [bytesOf]

theorem tiles_append (off : Nat) (ips : List IP) (i : PInfo) (p : List Byte) (h : Tiles off ips)
    (ho : i.offset = off + (bytesOf ips).length) (hs : i.size = p.length) (hp : p ≠ []) :
    Tiles off (ips ++ [(i, p)]) := by
  induction ips generalizing off with
  | nil => simp [Tiles, bytesOf] at *; exact ⟨ho, hs, hp⟩
  | cons x xs ih =>
    obtain ⟨j, q⟩ := x
    obtain ⟨h1, h2, h3, h4⟩ := h
    refine ⟨h1, h2, h3, ?_⟩
    apply ih _ h4
    simp [bytesOf] at ho ⊢
    omega

theorem sliceFile_mid (a p b : List Byte) (nm : String) (hp : p ≠ []) :
    sliceFile (a ++ p ++ b) ⟨nm, a.length, p.length⟩ = some p := by
  unfold sliceFile
  have hpos : 0 < p.length := by cases p with
    | nil => exact absurd rfl hp
    | cons x xs => simp
  have hlen : ¬ ((a ++ p ++ b).length ≤ a.length) := by
    simp; omega
  have h1 : (a ++ p ++ b).length - a.length = p.length + b.length := by simp [List.length_append, Nat.add_assoc]
  have h2 : List.drop a.length (a ++ p ++ b) = p ++ b := by
    rw [List.append_assoc, List.drop_left]
  simp only [hlen, if_false, h1, Nat.min_eq_left (Nat.le_add_right _ _), h2, List.take_left]

/-- Every tiled file info slices its own piece out of the whole buffer. -/
theorem tiles_slice (a : List Byte) (ips : List IP) (b : List Byte) (h : Tiles a.length ips) :
    ∀ ip ∈ ips, sliceFile (a ++ bytesOf ips ++ b) ⟨ip.1.name, ip.1.offset, ip.1.size⟩ = some ip.2 := by
  induction ips generalizing a with
  | nil => intro ip hip; cases hip
  | cons x xs ih =>
    obtain ⟨j, q⟩ := x
    obtain ⟨h1, h2, h3, h4⟩ := h
    intro ip hip
    rcases List.mem_cons.mp hip with rfl | hmem
    · simp only
      rw [h1, h2]
      have : a ++ bytesOf ((j, q) :: xs) ++ b = a ++ q ++ (bytesOf xs ++ b) := by
        simp [bytesOf, List.append_assoc]
      rw [this]
      exact sliceFile_mid a q _ j.name h3
    · have := ih (a ++ q) (by simpa using h4) ip hmem
      have e : a ++ bytesOf ((j, q) :: xs) ++ b = a ++ q ++ bytesOf xs ++ b := by
        simp [bytesOf, List.append_assoc]
      rw [e]
      exact this

/-! ### the grouping loop -/

/-- entries with the same part index carry the same part id and type -/
def Coh (m : Nat → Nat × String) (i : PInfo) : Prop := (i.id, i.ptype) = m i.pidx

theorem groupGo_events (D : List Byte) (m : Nat → Nat × String) (ips : List IP)
    (hs : ∀ ip ∈ ips, sliceFile D ⟨ip.1.name, ip.1.offset, ip.1.size⟩ = some ip.2)
    (hc : ∀ ip ∈ ips, Coh m ip.1) (ci : Nat) (P0 : PartInfo)
    (hP0 : (P0.id, P0.ptype) = m ci) (hg0 : GoodPart D P0) :
    (groupGo (some (ci, P0)) (ips.map (·.1))).flatMap (partEvents D) = partEvents D P0 ++ tagL ips ∧
    ∀ p ∈ groupGo (some (ci, P0)) (ips.map (·.1)), GoodPart D p := by
  induction ips generalizing ci P0 with
  | nil => simp [groupGo, tagL]; exact hg0
  | cons x xs ih =>
    obtain ⟨i, q⟩ := x
    have hsl := hs (i, q) (by simp)
    have hci := hc (i, q) (by simp)
    simp only at hsl hci
    have hs' : ∀ ip ∈ xs, sliceFile D ⟨ip.1.name, ip.1.offset, ip.1.size⟩ = some ip.2 :=
      fun ip h => hs ip (by simp [h])
    have hc' : ∀ ip ∈ xs, Coh m ip.1 := fun ip h => hc ip (by simp [h])
    simp only [List.map_cons, groupGo]
    by_cases hpi : i.pidx = ci
    · simp only [hpi, if_true]
      have hid : (P0.id, P0.ptype) = (i.id, i.ptype) := by rw [hP0, ← hpi]; exact hci.symm
      have hg1 : GoodPart D { P0 with files := P0.files ++ [⟨i.name, i.offset, i.size⟩] } := by
        refine ⟨by simp, ?_⟩
        intro fi hfi
        rcases List.mem_append.mp hfi with h1 | h1
        · exact hg0.2 fi h1
        · simp at h1; subst h1; simp [hsl]
      obtain ⟨e1, e2⟩ := ih hs' hc' ci { P0 with files := P0.files ++ [⟨i.name, i.offset, i.size⟩] } hP0 hg1
      refine ⟨?_, e2⟩
      rw [e1]
      have hpe : partEvents D { P0 with files := P0.files ++ [⟨i.name, i.offset, i.size⟩] } =
          partEvents D P0 ++ [(i.id, i.ptype, i.name, q)] := by
        have h1 : P0.id = i.id := (Prod.mk.inj hid).1
        have h2 : P0.ptype = i.ptype := (Prod.mk.inj hid).2
        simp [partEvents, List.filterMap_append, hsl, h1, h2]
      rw [hpe]
      simp [tagL]
    · simp only [hpi, if_false]
      have hg1 : GoodPart D ⟨i.id, i.ptype, [⟨i.name, i.offset, i.size⟩]⟩ := by
        refine ⟨by simp, ?_⟩
        intro fi hfi
        simp at hfi; subst hfi; simp [hsl]
      obtain ⟨e1, e2⟩ := ih hs' hc' i.pidx ⟨i.id, i.ptype, [⟨i.name, i.offset, i.size⟩]⟩ hci hg1
      refine ⟨?_, ?_⟩
      · simp only [List.flatMap_cons]
        rw [e1]
        simp [partEvents, hsl, tagL]
      · intro p hp
        rcases List.mem_cons.mp hp with rfl | h1
        · exact hg0
        · exact e2 p h1

theorem groupGo_none_events (D : List Byte) (m : Nat → Nat × String) (ips : List IP)
    (hs : ∀ ip ∈ ips, sliceFile D ⟨ip.1.name, ip.1.offset, ip.1.size⟩ = some ip.2)
    (hc : ∀ ip ∈ ips, Coh m ip.1) :
    (groupGo none (ips.map (·.1))).flatMap (partEvents D) = tagL ips ∧
    ∀ p ∈ groupGo none (ips.map (·.1)), GoodPart D p := by
  cases ips with
  | nil => simp [groupGo, tagL]
  | cons x xs =>
    obtain ⟨i, q⟩ := x
    have hsl := hs (i, q) (by simp)
    have hci := hc (i, q) (by simp)
    simp only at hsl hci
    have hg1 : GoodPart D ⟨i.id, i.ptype, [⟨i.name, i.offset, i.size⟩]⟩ := by
      refine ⟨by simp, ?_⟩
      intro fi hfi
      simp at hfi; subst hfi; simp [hsl]
    obtain ⟨e1, e2⟩ := groupGo_events D m xs (fun ip h => hs ip (by simp [h])) (fun ip h => hc ip (by simp [h]))
      i.pidx ⟨i.id, i.ptype, [⟨i.name, i.offset, i.size⟩]⟩ hci hg1
    simp only [List.map_cons, groupGo]
    refine ⟨?_, e2⟩
    rw [e1]
    simp [partEvents, hsl, tagL]

/-- A chunk built from a tiled buffer: well formed, and its events are the tagged pieces. -/
theorem mkChunk_events (m : Nat → Nat × String) (idx : Nat) (ips : List IP) (ht : Tiles 0 ips)
    (hc : ∀ ip ∈ ips, Coh m ip.1) :
    GoodChunk (mkChunk idx (bytesOf ips) (ips.map (·.1))) ∧
    chunkEvents (mkChunk idx (bytesOf ips) (ips.map (·.1))) = tagL ips := by
  have hs := tiles_slice [] ips [] (by simpa using ht)
  simp only [List.nil_append, List.append_nil] at hs
  obtain ⟨e1, e2⟩ := groupGo_none_events (bytesOf ips) m ips hs hc
  exact ⟨e2, e1⟩

theorem tagL_bytes (ips : List IP) : (tagL ips).flatMap (·.2.2.2) = bytesOf ips := by
  induction ips with
  | nil => rfl
  | cons x xs ih => simp [tagL, bytesOf, List.flatMap_cons] at ih ⊢; exact ih

/-- The data of a sender chunk is the concatenation of its pieces. -/
def DataIsPieces (c : Chunk) : Prop := c.data = (chunkEvents c).flatMap (·.2.2.2)

theorem mkChunk_data (m : Nat → Nat × String) (idx : Nat) (ips : List IP) (ht : Tiles 0 ips)
    (hc : ∀ ip ∈ ips, Coh m ip.1) : DataIsPieces (mkChunk idx (bytesOf ips) (ips.map (·.1))) := by
  unfold DataIsPieces
  rw [(mkChunk_events m idx ips ht hc).2, tagL_bytes]
  rfl

/-! ### the send loop -/

def fev (f : FState) : Ev := (f.id, f.ptype, f.name, f.rem)

def CohF (m : Nat → Nat × String) (f : FState) : Prop := (f.id, f.ptype) = m f.pidx

theorem refines_cons_piece (w w' : Ev) (p : List Byte) {W P : List Ev} (hp : p ≠ [])
    (h1 : w'.1 = w.1) (h2 : w'.2.1 = w.2.1) (h3 : w'.2.2.1 = w.2.2.1) (hb : w.2.2.2 = p ++ w'.2.2.2)
    (h : Refines (w' :: W) P) : Refines (w :: W) (mkEv w p :: P) := by
  cases h with
  | skip _ hw hr =>
    have := Refines.cons w [p] (by simp) (by simpa using hp) (by simp [hb, hw]) hr
    simpa using this
  | cons _ ps hne hall hfl hr =>
    have hmk : mkEv w' = mkEv w := by funext bs; simp [mkEv, h1, h2, h3]
    have := Refines.cons w (p :: ps) (by simp) (by
      intro q hq
      rcases List.mem_cons.mp hq with rfl | hq
      · exact hp
      · exact hall q hq) (by simp [hb, hfl]) hr
    simpa [hmk] using this

theorem readLen_le_avail (r : Reader) (avail len : Nat) : readLen r avail len ≤ avail := by
  unfold readLen
  simp only
  split <;> omega

theorem readLen_le_len (r : Reader) (avail len : Nat) : readLen r avail len ≤ len := by
  unfold readLen
  simp only
  split <;> omega

theorem readLen_zero (r : Reader) (avail len : Nat) (ha : 0 < avail) (h : readLen r avail len = 0) : len = 0 := by
  unfold readLen at h
  simp only at h
  split at h <;> omega

theorem readEOF_len (r : Reader) (avail len n : Nat) (h : readEOF r avail len n = true) : n = len := by
  unfold readEOF at h
  simp at h
  exact h.1

theorem readEOF_zero (r : Reader) (avail : Nat) : readEOF r avail 0 0 = true := by
  simp [readEOF]

/-- What `sendLoop` produces from a state whose buffer is tiled by the pending file infos. -/
theorem sendLoop_spec (cap : Nat) (r : Reader) (hcap : 0 < cap) (m : Nat → Nat × String) :
    ∀ (fuel idx : Nat) (ips : List IP) (files : List FState),
      sendFuel files ≤ fuel → Tiles 0 ips → (∀ ip ∈ ips, Coh m ip.1) → (∀ f ∈ files, CohF m f) →
      ∃ P, Refines (files.map fev) P ∧
        (sendLoop cap r fuel idx (bytesOf ips) (ips.map (·.1)) files).flatMap chunkEvents = tagL ips ++ P ∧
        (∀ c ∈ sendLoop cap r fuel idx (bytesOf ips) (ips.map (·.1)) files,
          GoodChunk c ∧ c.checksum = checksumOf c.data ∧ c.versionOk = true ∧ c.data ≠ [] ∧ c.hasMeta = (c.index == 0) ∧ DataIsPieces c) := by
  intro fuel
  induction fuel with
  | zero =>
    intro idx ips files hf ht hc hcf
    have hfiles : files = [] := by
      cases files with
      | nil => rfl
      | cons f fs => simp [sendFuel] at hf
    subst hfiles
    refine ⟨[], Refines.nil, ?_, ?_⟩
    · simp only [sendLoop, flush]
      by_cases hb : (bytesOf ips).isEmpty
      · simp only [hb, if_true, List.flatMap_nil, List.append_nil]
        cases ips with
        | nil => rfl
        | cons x xs =>
          obtain ⟨i, q⟩ := x
          obtain ⟨_, _, h3, _⟩ := ht
          simp [bytesOf] at hb
          exact absurd hb.1 h3
      · simp only [hb]
        simp [(mkChunk_events m idx ips ht hc).2]
    · intro c hcm
      simp only [sendLoop, flush] at hcm
      by_cases hb : (bytesOf ips).isEmpty
      · simp [hb] at hcm
      · simp [hb] at hcm
        subst hcm
        refine ⟨(mkChunk_events m idx ips ht hc).1, rfl, rfl, ?_, rfl, mkChunk_data m idx ips ht hc⟩
        simpa [mkChunk] using hb
  | succ fuel ih =>
    intro idx ips files hf ht hc hcf
    cases files with
    | nil =>
      refine ⟨[], Refines.nil, ?_, ?_⟩
      · simp only [sendLoop, flush]
        by_cases hb : (bytesOf ips).isEmpty
        · simp only [hb, if_true, List.flatMap_nil, List.append_nil]
          cases ips with
          | nil => rfl
          | cons x xs =>
            obtain ⟨i, q⟩ := x
            obtain ⟨_, _, h3, _⟩ := ht
            simp [bytesOf] at hb
            exact absurd hb.1 h3
        · simp only [hb]
          simp [(mkChunk_events m idx ips ht hc).2]
      · intro c hcm
        simp only [sendLoop, flush] at hcm
        by_cases hb : (bytesOf ips).isEmpty
        · simp [hb] at hcm
        · simp [hb] at hcm
          subst hcm
          refine ⟨(mkChunk_events m idx ips ht hc).1, rfl, rfl, ?_, rfl, mkChunk_data m idx ips ht hc⟩
          simpa [mkChunk] using hb
    | cons f rest =>
      have hcf_f := hcf f (by simp)
      have hcf_rest : ∀ g ∈ rest, CohF m g := fun g hg => hcf g (by simp [hg])
      -- generic continuation from a (possibly emptied) tiled buffer `ips0`
      have step : ∀ (idx0 : Nat) (ips0 : List IP), Tiles 0 ips0 → (∀ ip ∈ ips0, Coh m ip.1) →
          (bytesOf ips0).length < cap →
          ∃ P, Refines ((f :: rest).map fev) P ∧
            (let s := readStep cap r (bytesOf ips0) (ips0.map (·.1)) f rest
             (sendLoop cap r fuel idx0 s.1 s.2.1 s.2.2).flatMap chunkEvents = tagL ips0 ++ P ∧
             ∀ c ∈ sendLoop cap r fuel idx0 s.1 s.2.1 s.2.2,
               GoodChunk c ∧ c.checksum = checksumOf c.data ∧ c.versionOk = true ∧ c.data ≠ [] ∧ c.hasMeta = (c.index == 0) ∧ DataIsPieces c) := by
        intro idx0 ips0 ht0 hc0 hlt
        have havail : 0 < cap - (bytesOf ips0).length := by omega
        generalize hn : readLen r (cap - (bytesOf ips0).length) f.rem.length = n
        generalize he : readEOF r (cap - (bytesOf ips0).length) f.rem.length n = eof
        have hnle : n ≤ f.rem.length := hn ▸ readLen_le_len _ _ _
        by_cases hn0 : n = 0
        · -- nothing read: the file is exhausted
          subst hn0
          have hrem : f.rem = [] := List.eq_nil_of_length_eq_zero (readLen_zero r _ _ havail hn)
          have heof : eof = true := by rw [← he, hrem]; exact readEOF_zero r _
          have hfu : sendFuel rest ≤ fuel := by simp [sendFuel] at hf; omega
          obtain ⟨P, hP, e1, e2⟩ := ih idx0 ips0 rest hfu ht0 hc0 hcf_rest
          refine ⟨P, ?_, ?_⟩
          · simp only [List.map_cons]
            exact Refines.skip (fev f) (by simp [fev, hrem]) hP
          · simp only [readStep, hn, he, heof, List.take_zero, List.append_nil, Nat.lt_irrefl, if_false, if_true]
            exact ⟨e1, e2⟩
        · have hnpos : 0 < n := Nat.pos_of_ne_zero hn0
          have hpne : f.rem.take n ≠ [] := by
            intro h
            have := congrArg List.length h
            rw [List.length_take, Nat.min_eq_left hnle] at this
            simp at this
            omega
          let i : PInfo := ⟨f.pidx, f.id, f.ptype, f.name, (bytesOf ips0).length, n⟩
          have hips1 : Tiles 0 (ips0 ++ [(i, f.rem.take n)]) :=
            tiles_append 0 ips0 i _ ht0 (by simp [i]) (by simp [i, List.length_take, Nat.min_eq_left hnle]) hpne
          have hc1 : ∀ ip ∈ ips0 ++ [(i, f.rem.take n)], Coh m ip.1 := by
            intro ip hip
            rcases List.mem_append.mp hip with h | h
            · exact hc0 ip h
            · simp at h; subst h; exact hcf_f
          have hb1 : bytesOf (ips0 ++ [(i, f.rem.take n)]) = bytesOf ips0 ++ f.rem.take n := by
            simp [bytesOf]
          have hi1 : (ips0 ++ [(i, f.rem.take n)]).map (·.1) = ips0.map (·.1) ++ [i] := by simp
          have htag : tagL (ips0 ++ [(i, f.rem.take n)]) = tagL ips0 ++ [mkEv (fev f) (f.rem.take n)] := by
            simp [tagL, mkEv, fev, i]
          cases heofc : eof with
          | true =>
            have hnl : n = f.rem.length := readEOF_len r _ _ _ (he.trans heofc)
            have hfu : sendFuel rest ≤ fuel := by simp [sendFuel] at hf; omega
            obtain ⟨P, hP, e1, e2⟩ := ih idx0 _ rest hfu hips1 hc1 hcf_rest
            refine ⟨mkEv (fev f) (f.rem.take n) :: P, ?_, ?_⟩
            · simp only [List.map_cons]
              have := Refines.cons (fev f) [f.rem.take n] (by simp) (by simpa using hpne)
                (by simp [fev, hnl]) hP
              simpa using this
            · simp only [readStep, hn, he, heofc, hnpos, if_true, Bool.false_eq_true, if_false]
              rw [← hb1, ← hi1]
              refine ⟨?_, e2⟩
              rw [e1, htag]
              simp
          | false =>
            have hfu : sendFuel ({ f with rem := f.rem.drop n } :: rest) ≤ fuel := by
              simp [sendFuel] at hf ⊢; omega
            have hcf1 : ∀ g ∈ ({ f with rem := f.rem.drop n } :: rest), CohF m g := by
              intro g hg
              rcases List.mem_cons.mp hg with rfl | hg
              · exact hcf_f
              · exact hcf_rest g hg
            obtain ⟨P, hP, e1, e2⟩ := ih idx0 _ ({ f with rem := f.rem.drop n } :: rest) hfu hips1 hc1 hcf1
            refine ⟨mkEv (fev f) (f.rem.take n) :: P, ?_, ?_⟩
            · simp only [List.map_cons] at hP ⊢
              exact refines_cons_piece (fev f) (fev { f with rem := f.rem.drop n }) (f.rem.take n) hpne rfl rfl rfl
                (by simp [fev]) hP
            · simp only [readStep, hn, he, heofc, hnpos, if_true, Bool.false_eq_true, if_false]
              rw [← hb1, ← hi1]
              refine ⟨?_, e2⟩
              rw [e1, htag]
              simp
      by_cases hfull : cap ≤ (bytesOf ips).length
      · -- the buffer is full: send it, then read into an empty buffer
        obtain ⟨P, hP, hstep⟩ := step (idx + 1) [] (by simp [Tiles]) (by simp) (by simpa [bytesOf] using hcap)
        refine ⟨P, hP, ?_, ?_⟩
        · simp only [sendLoop, hfull, if_true, List.flatMap_cons]
          have := hstep.1
          simp only [bytesOf, List.map_nil, List.flatten_nil, tagL, List.nil_append] at this
          rw [(mkChunk_events m idx ips ht hc).2, this]
        · intro c hcm
          simp only [sendLoop, hfull, if_true] at hcm
          rcases List.mem_cons.mp hcm with rfl | hcm
          · refine ⟨(mkChunk_events m idx ips ht hc).1, rfl, rfl, ?_, rfl, mkChunk_data m idx ips ht hc⟩
            intro h
            have : (bytesOf ips).length = 0 := by simpa [mkChunk] using congrArg List.length h
            omega
          · exact hstep.2 c (by simpa [bytesOf] using hcm)
      · obtain ⟨P, hP, hstep⟩ := step idx ips ht hc (by omega)
        refine ⟨P, hP, ?_, ?_⟩
        · simp only [sendLoop, hfull, if_false]
          exact hstep.1
        · intro c hcm
          simp only [sendLoop, hfull, if_false] at hcm
          exact hstep.2 c hcm

/-- Chunk indices are consecutive from `idx`. -/
theorem sendLoop_index (cap : Nat) (r : Reader) :
    ∀ (fuel idx : Nat) (buf : List Byte) (infos : List PInfo) (files : List FState) (j : Nat) (c : Chunk),
      (sendLoop cap r fuel idx buf infos files)[j]? = some c → c.index = idx + j := by
  intro fuel
  induction fuel with
  | zero =>
    intro idx buf infos files j c h
    simp only [sendLoop, flush] at h
    by_cases hb : buf.isEmpty
    · simp [hb] at h
    · simp only [hb] at h
      cases j with
      | zero => simp at h; subst h; rfl
      | succ j => simp at h
  | succ fuel ih =>
    intro idx buf infos files j c h
    cases files with
    | nil =>
      simp only [sendLoop, flush] at h
      by_cases hb : buf.isEmpty
      · simp [hb] at h
      · simp only [hb] at h
        cases j with
        | zero => simp at h; subst h; rfl
        | succ j => simp at h
    | cons f rest =>
      simp only [sendLoop] at h
      by_cases hfull : cap ≤ buf.length
      · simp only [hfull, if_true] at h
        cases j with
        | zero => simp at h; subst h; rfl
        | succ j =>
          simp only [List.getElem?_cons_succ] at h
          have := ih _ _ _ _ _ _ h
          omega
      · simp only [hfull, if_false] at h
        exact ih _ _ _ _ _ _ h

/-! ### file states of a part list -/

def partMeta (parts : List SPart) (i : Nat) : Nat × String :=
  ((parts.getD i ⟨0, "", []⟩).id, (parts.getD i ⟨0, "", []⟩).ptype)

theorem fileStatesFrom_coh (parts : List SPart) (i : Nat) :
    ∀ f ∈ fileStatesFrom i parts, i ≤ f.pidx ∧ (f.id, f.ptype) = partMeta parts (f.pidx - i) := by
  induction parts generalizing i with
  | nil => intro f hf; simp [fileStatesFrom] at hf
  | cons p ps ih =>
    intro f hf
    simp only [fileStatesFrom, List.mem_append, List.mem_map] at hf
    rcases hf with ⟨sf, _, rfl⟩ | hf
    · simp [partMeta]
    · obtain ⟨h1, h2⟩ := ih (i + 1) f hf
      refine ⟨by omega, ?_⟩
      rw [h2]
      have : f.pidx - i = (f.pidx - (i + 1)) + 1 := by omega
      simp [partMeta, this]

theorem fileStates_coh (parts : List SPart) : ∀ f ∈ fileStates parts, CohF (partMeta parts) f := by
  intro f hf
  have := (fileStatesFrom_coh parts 0 f hf).2
  simpa [CohF] using this

theorem fileStatesFrom_fev (parts : List SPart) (i : Nat) :
    ((fileStatesFrom i parts).map fev).filter nonEmptyEv = wholeEvents parts := by
  induction parts generalizing i with
  | nil => rfl
  | cons p ps ih =>
    simp only [fileStatesFrom, List.map_append, List.filter_append, ih (i + 1), wholeEvents, List.flatMap_cons]
    congr 1
    simp only [List.map_map, List.filter_map]
    congr 1

/-- The pieces of all sender chunks refine the sender's files; every chunk is well formed. -/
theorem senderChunks_spec (cap : Nat) (r : Reader) (hcap : 0 < cap) (parts : List SPart) :
    ∃ P, Refines ((fileStates parts).map fev) P ∧
      (senderChunks cap r parts).flatMap chunkEvents = P ∧
      (∀ c ∈ senderChunks cap r parts,
        GoodChunk c ∧ c.checksum = checksumOf c.data ∧ c.versionOk = true ∧ c.data ≠ [] ∧ c.hasMeta = (c.index == 0) ∧ DataIsPieces c) ∧
      (∀ (j : Nat) (c : Chunk), (senderChunks cap r parts)[j]? = some c → c.index = j) := by
  obtain ⟨P, hP, e1, e2⟩ := sendLoop_spec cap r hcap (partMeta parts) (sendFuel (fileStates parts)) 0 []
    (fileStates parts) (Nat.le_refl _) (by simp [Tiles]) (by simp) (fileStates_coh parts)
  refine ⟨P, hP, ?_, ?_, ?_⟩
  · simpa [senderChunks, bytesOf, tagL] using e1
  · simpa [senderChunks, bytesOf] using e2
  · intro j c h
    have := sendLoop_index cap r _ 0 [] [] _ j c (by simpa [senderChunks] using h)
    omega

end Banyan.C17
