/-
C18 helper lemmas: exchange operations on a cluster, seen through the newest state of one key.
-/
import Banyan.Lemmas.C18Lattice
namespace Banyan.C18

/-! ### the cluster seen through one key -/

/-- newest document of key `k` on replica `i` (nothing for an index outside the cluster). -/
def topd (c : Cluster) (k : String) (i : Nat) : Option Doc :=
  match c.reps[i]? with
  | some s => top s k
  | none => none

/-- newest `(revision, deleted?)` of key `k` on replica `i`. -/
def tvf (c : Cluster) (k : String) (i : Nat) : Option Ver := (topd c k i).map cver

/-- exchange operations on a cluster: a gossip exchange about one leaf, or a one-way repair of one key. -/
inductive COp where
  | g (cl sv : Nat) (k : String)
  | r (src dst : Nat) (k : String)
  deriving DecidableEq

def cstep (c : Cluster) : COp → Cluster
  | .g a b k => (gossipOp c a b k).1
  | .r a b k => (repairFrom c a b k).1

def COp.valid (n : Nat) : COp → Prop
  | .g a b _ => a < n ∧ b < n ∧ a ≠ b
  | .r a b _ => a < n ∧ b < n ∧ a ≠ b

def absOp (k : String) : COp → XOp
  | .g a b k' => if k' = k then .ex a b else .skip
  | .r a b k' => if k' = k then .push a b else .skip

theorem cstep_length (c : Cluster) (op : COp) : (cstep c op).reps.length = c.reps.length := by
  cases op with
  | g a b k =>
    simp only [cstep, gossipOp]
    split
    · split
      · rfl
      · simp
    · rfl
  | r a b k =>
    simp only [cstep, repairFrom]
    split
    · split
      · rfl
      · simp
    · rfl

theorem getElem?_set2 {α : Type} (l : List α) {a b : Nat} (x y : α) (ha : a < l.length) (hb : b < l.length)
    (hab : a ≠ b) (i : Nat) :
    ((l.set a x).set b y)[i]? = if i = b then some y else if i = a then some x else l[i]? := by
  by_cases h1 : i = b
  · subst h1; simp [hb]
  · by_cases h2 : i = a
    · subst h2
      rw [List.getElem?_set_ne (Ne.symm h1), List.getElem?_set_self ha]
      simp [h1]
    · rw [List.getElem?_set_ne (Ne.symm h1), List.getElem?_set_ne (Ne.symm h2)]
      simp [h1, h2]

theorem top_of_docsOf_eq {s s' : Shard} {k : String} (h : docsOf s' k = docsOf s k) : top s' k = top s k := by
  simp [top, h]

theorem topd_set2 (c : Cluster) {a b : Nat} (x y : Shard) (t : Nat) (ha : a < c.reps.length) (hb : b < c.reps.length)
    (hab : a ≠ b) (k : String) (i : Nat) :
    topd { reps := (c.reps.set a x).set b y, clk := t } k i =
      if i = b then top y k else if i = a then top x k else topd c k i := by
  simp only [topd]
  rw [getElem?_set2 c.reps x y ha hb hab]
  by_cases h1 : i = b
  · simp [h1]
  · by_cases h2 : i = a
    · subst h2; simp [hab]
    · simp [h1, h2]

theorem topd_set1 (c : Cluster) {b : Nat} (y : Shard) (t : Nat) (hb : b < c.reps.length) (k : String) (i : Nat) :
    topd { reps := c.reps.set b y, clk := t } k i = if i = b then top y k else topd c k i := by
  simp only [topd]
  by_cases h : i = b
  · subst h; simp [hb]
  · rw [List.getElem?_set_ne (Ne.symm h)]; simp [h]

theorem topd_at {c : Cluster} {i : Nat} {s : Shard} (h : c.reps[i]? = some s) (k : String) : topd c k i = top s k := by
  simp [topd, h]

/-- invariant of exchange sequences: storage is flag-consistent everywhere and the delete clock is positive. -/
def CInv (c : Cluster) : Prop := (∀ s ∈ c.reps, FlagConsistent s) ∧ 0 < c.clk

/-- every document of `c'` has the content (key, revision, create revision, tags) of a document of `c`. -/
def ContentFrom (c c' : Cluster) : Prop := ∀ s' ∈ c'.reps, ∀ y ∈ s', ∃ s ∈ c.reps, ∃ x ∈ s, SameContent x y

theorem ContentFrom.refl (c : Cluster) : ContentFrom c c := fun s hs y hy => ⟨s, hs, y, hy, rfl, rfl, rfl, rfl⟩

theorem ContentFrom.trans {a b c : Cluster} (h1 : ContentFrom a b) (h2 : ContentFrom b c) : ContentFrom a c := by
  intro s' hs' y hy
  obtain ⟨s, hs, x, hx, e⟩ := h2 s' hs' y hy
  obtain ⟨s0, hs0, x0, hx0, e0⟩ := h1 s hs x hx
  exact ⟨s0, hs0, x0, hx0, e0.1.trans e.1, e0.2.1.trans e.2.1, e0.2.2.1.trans e.2.2.1, e0.2.2.2.trans e.2.2.2⟩

theorem mem_set2 {α : Type} {l : List α} {a b : Nat} {x y z : α} (h : z ∈ (l.set a x).set b y) : z = y ∨ z = x ∨ z ∈ l := by
  rcases List.mem_or_eq_of_mem_set h with h | h
  · rcases List.mem_or_eq_of_mem_set h with h | h
    · exact Or.inr (Or.inr h)
    · exact Or.inr (Or.inl h)
  · exact Or.inl h

/-- every exchange operation acts on the newest `(revision, deleted?)` of key `k` as its abstraction does, keeps
    the invariant, and invents no content. -/
theorem cstep_spec (c : Cluster) (op : COp) (k : String) (hv : op.valid c.reps.length) (hi : CInv c) :
    (∀ i, tvf (cstep c op) k i = xstep (tvf c k) (absOp k op) i) ∧ CInv (cstep c op) ∧ ContentFrom c (cstep c op) := by
  cases op with
  | g a b k' =>
    obtain ⟨ha, hb, hab⟩ := hv
    obtain ⟨x, hx⟩ : ∃ x, c.reps[a]? = some x := ⟨c.reps[a], by simp [ha]⟩
    obtain ⟨y, hy⟩ : ∃ y, c.reps[b]? = some y := ⟨c.reps[b], by simp [hb]⟩
    have hxm : x ∈ c.reps := List.mem_of_getElem? hx
    have hym : y ∈ c.reps := List.mem_of_getElem? hy
    have hne : (a == b) = false := by simp [hab]
    have spec := gossipLeaf_spec (hi.1 x hxm) (hi.1 y hym) k' hi.2
    simp only [cstep, gossipOp, hx, hy, hne]
    generalize gossipLeaf x y k' c.clk = r at spec
    obtain ⟨x', y', tr, clk'⟩ := r
    simp only at spec
    obtain ⟨s1, s2, f1, f2, s5, hclk, horig⟩ := spec
    simp only [ctopVer] at s1 s2
    simp only [Bool.false_eq_true, if_false]
    have hta := topd_at hx
    have htb := topd_at hy
    refine ⟨?_, ⟨?_, by have := hi.2; simp only; omega⟩, ?_⟩
    · intro i
      simp only [tvf]
      rw [topd_set2 c x' y' clk' ha hb hab]
      by_cases hk : k' = k
      · subst hk
        simp only [absOp, if_true, xstep, upd, tvf, hta, htb]
        by_cases h1 : i = b
        · simp only [h1, if_true]; exact s2
        · by_cases h2 : i = a
          · simp only [h1, h2, hab, if_true, if_false]; exact s1
          · simp only [h1, h2, if_false]
      · have e1 := s5 k (Ne.symm hk)
        simp only [absOp, hk, if_false, xstep, tvf]
        by_cases h1 : i = b
        · simp only [h1, if_true, top_of_docsOf_eq e1.2, htb]
        · by_cases h2 : i = a
          · simp only [h1, h2, hab, if_true, if_false, top_of_docsOf_eq e1.1, hta]
          · simp only [h1, h2, if_false]
    · intro s hs
      rcases mem_set2 hs with rfl | rfl | h
      · exact f2
      · exact f1
      · exact hi.1 s h
    · intro s hs z hz
      rcases mem_set2 hs with rfl | rfl | h
      · obtain ⟨w, hw, e⟩ := horig z (Or.inr hz)
        rcases hw with hw | hw
        · exact ⟨x, hxm, w, hw, e⟩
        · exact ⟨y, hym, w, hw, e⟩
      · obtain ⟨w, hw, e⟩ := horig z (Or.inl hz)
        rcases hw with hw | hw
        · exact ⟨x, hxm, w, hw, e⟩
        · exact ⟨y, hym, w, hw, e⟩
      · exact ⟨s, h, z, hz, rfl, rfl, rfl, rfl⟩
  | r a b k' =>
    obtain ⟨ha, hb, hab⟩ := hv
    obtain ⟨x, hx⟩ : ∃ x, c.reps[a]? = some x := ⟨c.reps[a], by simp [ha]⟩
    obtain ⟨y, hy⟩ : ∃ y, c.reps[b]? = some y := ⟨c.reps[b], by simp [hb]⟩
    have hxm : x ∈ c.reps := List.mem_of_getElem? hx
    have hym : y ∈ c.reps := List.mem_of_getElem? hy
    have hta := topd_at hx
    have htb := topd_at hy
    simp only [cstep, repairFrom, hx, hy]
    cases hd : top x k' with
    | none =>
      simp only []
      refine ⟨?_, hi, ContentFrom.refl c⟩
      intro i
      simp only [absOp]
      by_cases hk : k' = k
      · subst hk
        simp only [if_true, xstep, upd]
        by_cases h1 : i = b
        · simp only [h1, if_true, tvf, hta, htb, hd, Option.map_none, vjoin_none_right]
        · simp only [h1, if_false, tvf]
      · simp only [hk, if_false, xstep, tvf]
    | some d =>
      have hkd : d.key = k' := (top_spec hd).2.1
      have hdin : d ∈ x := (top_spec hd).1
      simp only []
      have hj := repair_ctopVer (hi.1 y hym) d hi.2
      rw [hkd] at hj
      refine ⟨?_, ⟨?_, by have := hi.2; simp only; omega⟩, ?_⟩
      · intro i
        simp only [tvf]
        rw [topd_set1 c _ _ hb]
        by_cases hk : k' = k
        · subst hk
          simp only [absOp, if_true, xstep, upd, tvf, hta, htb]
          by_cases h1 : i = b
          · have := hj.1
            simp only [ctopVer] at this
            simp only [h1, if_true, this, hd, Option.map_some]
          · simp only [h1, if_false]
        · simp only [absOp, hk, if_false, xstep, tvf]
          by_cases h1 : i = b
          · have := repair_other y d c.clk (k := k) (by rw [hkd]; exact Ne.symm hk)
            simp only [h1, if_true, top_of_docsOf_eq this, htb]
          · simp only [h1, if_false]
      · intro s hs
        rcases List.mem_or_eq_of_mem_set hs with h | rfl
        · exact hi.1 s h
        · exact hj.2
      · intro s hs z hz
        rcases List.mem_or_eq_of_mem_set hs with h | rfl
        · exact ⟨s, h, z, hz, rfl, rfl, rfl, rfl⟩
        · rcases repair_origin y d c.clk hz with e | ⟨w, hw, e⟩
          · exact ⟨x, hxm, d, hdin, e⟩
          · exact ⟨y, hym, w, hw, e⟩

/-- run a sequence of exchange operations. -/
def crun (c : Cluster) (ops : List COp) : Cluster := ops.foldl cstep c

theorem crun_abs (k : String) (ops : List COp) : ∀ (c : Cluster), (∀ op ∈ ops, op.valid c.reps.length) → CInv c →
    tvf (crun c ops) k = (ops.map (absOp k)).foldl xstep (tvf c k) ∧ CInv (crun c ops) ∧
    ContentFrom c (crun c ops) ∧ (crun c ops).reps.length = c.reps.length := by
  induction ops with
  | nil => intro c _ hi; exact ⟨rfl, hi, ContentFrom.refl c, rfl⟩
  | cons op rest ih =>
    intro c hv hi
    have hop := hv op (by simp)
    have h1 := cstep_spec c op k hop hi
    have hrest : ∀ o ∈ rest, o.valid (cstep c op).reps.length := by
      intro o ho; rw [cstep_length]; exact hv o (by simp [ho])
    have h2 := ih (cstep c op) hrest h1.2.1
    have e : tvf (cstep c op) k = xstep (tvf c k) (absOp k op) := by
      funext i; exact h1.1 i
    refine ⟨?_, h2.2.1, h1.2.2.trans h2.2.2.1, ?_⟩
    · simp only [crun, List.foldl_cons, List.map_cons]
      rw [← e]; exact h2.1
    · simp only [crun, List.foldl_cons]
      have := h2.2.2.2
      simp only [crun] at this
      rw [this, cstep_length]

end Banyan.C18
