/-
C18 helper lemmas: exchange operations on a cluster, seen through the newest state of one key.
-/
import Banyan.Lemmas.C18Lattice
namespace Banyan.C18

/-! ### the cluster seen through one key -/

/-- newest document of key `k` on replica `i` (nothing for an index outside the cluster). -/
def topd (c : Cluster) (k : String) (i : Nat) : Option Doc :=
  match c.reps[i]? with
  | some s => top s k
  | none => none

def tvf (c : Cluster) (k : String) (i : Nat) : Option Ver := (topd c k i).map ver

theorem tvf_eq (c : Cluster) (k : String) (i : Nat) :
    tvf c k i = match c.reps[i]? with | some s => topVer s k | none => none := by
  simp only [tvf, topd, topVer]; split <;> rfl

/-- exchange operations on a cluster: a gossip exchange about one leaf, or a one-way repair of one key. -/
inductive COp where
  | g (cl sv : Nat) (k : String)
  | r (src dst : Nat) (k : String)
  deriving DecidableEq

def cstep (c : Cluster) : COp → Cluster
  | .g a b k => (gossipOp c a b k).1
  | .r a b k => (repairFrom c a b k).1

def COp.valid (n : Nat) : COp → Prop
  | .g a b _ => a < n ∧ b < n ∧ a ≠ b
  | .r a b _ => a < n ∧ b < n ∧ a ≠ b

def absOp (k : String) : COp → XOp
  | .g a b k' => if k' = k then .ex a b else .skip
  | .r a b k' => if k' = k then .push a b else .skip

theorem cstep_length (c : Cluster) (op : COp) : (cstep c op).reps.length = c.reps.length := by
  cases op with
  | g a b k =>
    simp only [cstep, gossipOp]
    split
    · split
      · rfl
      · simp
    · rfl
  | r a b k =>
    simp only [cstep, repairFrom]
    split
    · split
      · rfl
      · simp
    · rfl

theorem getElem?_set2 {α : Type} (l : List α) {a b : Nat} (x y : α) (ha : a < l.length) (hb : b < l.length)
    (hab : a ≠ b) (i : Nat) :
    ((l.set a x).set b y)[i]? = if i = b then some y else if i = a then some x else l[i]? := by
  by_cases h1 : i = b
  · subst h1; simp [hb]
  · by_cases h2 : i = a
    · subst h2
      rw [List.getElem?_set_ne (Ne.symm h1), List.getElem?_set_self ha]
      simp [h1]
    · rw [List.getElem?_set_ne (Ne.symm h1), List.getElem?_set_ne (Ne.symm h2)]
      simp [h1, h2]

theorem top_of_docsOf_eq {s s' : Shard} {k : String} (h : docsOf s' k = docsOf s k) : top s' k = top s k := by
  simp [top, h]

theorem topd_set2 (c : Cluster) {a b : Nat} (x y : Shard) (t : Nat) (ha : a < c.reps.length) (hb : b < c.reps.length)
    (hab : a ≠ b) (k : String) (i : Nat) :
    topd { reps := (c.reps.set a x).set b y, clk := t } k i =
      if i = b then top y k else if i = a then top x k else topd c k i := by
  simp only [topd]
  rw [getElem?_set2 c.reps x y ha hb hab]
  by_cases h1 : i = b
  · simp [h1]
  · by_cases h2 : i = a
    · subst h2; simp [hab]
    · simp [h1, h2]

theorem topd_set1 (c : Cluster) {b : Nat} (y : Shard) (t : Nat) (hb : b < c.reps.length) (k : String) (i : Nat) :
    topd { reps := c.reps.set b y, clk := t } k i = if i = b then top y k else topd c k i := by
  simp only [topd]
  by_cases h : i = b
  · subst h; simp [hb]
  · rw [List.getElem?_set_ne (Ne.symm h)]; simp [h]

theorem topd_at {c : Cluster} {i : Nat} {s : Shard} (h : c.reps[i]? = some s) (k : String) : topd c k i = top s k := by
  simp [topd, h]

/-- every exchange operation acts on the newest documents of key `k` as follows. -/
theorem cstep_topd (c : Cluster) (op : COp) (k : String) (hv : op.valid c.reps.length) :
    (∀ i, (topd (cstep c op) k i).map ver = xstep (tvf c k) (absOp k op) i) ∧
    ∀ i, ∃ j, topd (cstep c op) k i = topd c k j := by
  cases op with
  | g a b k' =>
    obtain ⟨ha, hb, hab⟩ := hv
    obtain ⟨x, hx⟩ : ∃ x, c.reps[a]? = some x := ⟨c.reps[a], by simp [ha]⟩
    obtain ⟨y, hy⟩ : ∃ y, c.reps[b]? = some y := ⟨c.reps[b], by simp [hb]⟩
    have hne : (a == b) = false := by simp [hab]
    have spec := gossipLeaf_spec x y k' c.clk
    simp only [cstep, gossipOp, hx, hy, hne]
    generalize gossipLeaf x y k' c.clk = r at spec
    obtain ⟨x', y', tr, clk'⟩ := r
    simp only at spec
    obtain ⟨s1, s2, s3, s4, s5⟩ := spec
    simp only [topVer] at s1 s2
    simp only [Bool.false_eq_true, if_false]
    have hta := topd_at hx
    have htb := topd_at hy
    constructor
    · intro i
      rw [topd_set2 c x' y' clk' ha hb hab]
      by_cases hk : k' = k
      · subst hk
        simp only [absOp, if_true, xstep, upd, tvf, hta, htb]
        by_cases h1 : i = b
        · simp only [h1, if_true]; exact s2
        · by_cases h2 : i = a
          · simp only [h1, h2, hab, if_true, if_false]; exact s1
          · simp only [h1, h2, if_false]
      · have e1 := s5 k (Ne.symm hk)
        simp only [absOp, hk, if_false, xstep, tvf]
        by_cases h1 : i = b
        · simp only [h1, if_true, top_of_docsOf_eq e1.2, htb]
        · by_cases h2 : i = a
          · simp only [h1, h2, hab, if_true, if_false, top_of_docsOf_eq e1.1, hta]
          · simp only [h1, h2, if_false]
    · intro i
      rw [topd_set2 c x' y' clk' ha hb hab]
      by_cases hk : k' = k
      · subst hk
        by_cases h1 : i = b
        · simp only [h1, if_true]
          rcases s4 with e | e
          · exact ⟨a, by rw [e, hta]⟩
          · exact ⟨b, by rw [e, htb]⟩
        · by_cases h2 : i = a
          · simp only [h1, h2, hab, if_true, if_false]
            rcases s3 with e | e
            · exact ⟨a, by rw [e, hta]⟩
            · exact ⟨b, by rw [e, htb]⟩
          · exact ⟨i, by simp only [h1, h2, if_false]⟩
      · have e1 := s5 k (Ne.symm hk)
        refine ⟨i, ?_⟩
        by_cases h1 : i = b
        · simp only [h1, if_true, top_of_docsOf_eq e1.2, htb]
        · by_cases h2 : i = a
          · simp only [h1, h2, hab, if_true, if_false, top_of_docsOf_eq e1.1, hta]
          · simp only [h1, h2, if_false]
  | r a b k' =>
    obtain ⟨ha, hb, hab⟩ := hv
    obtain ⟨x, hx⟩ : ∃ x, c.reps[a]? = some x := ⟨c.reps[a], by simp [ha]⟩
    obtain ⟨y, hy⟩ : ∃ y, c.reps[b]? = some y := ⟨c.reps[b], by simp [hb]⟩
    have hta := topd_at hx
    have htb := topd_at hy
    simp only [cstep, repairFrom, hx, hy]
    cases hd : top x k' with
    | none =>
      simp only []
      constructor
      · intro i
        simp only [absOp]
        by_cases hk : k' = k
        · subst hk
          simp only [if_true, xstep, upd]
          by_cases h1 : i = b
          · simp only [h1, if_true, tvf, hta, htb, hd, Option.map_none, vjoin_none_right]
          · simp only [h1, if_false, tvf]
        · simp only [hk, if_false, xstep, tvf]
      · intro i; exact ⟨i, rfl⟩
    | some d =>
      have hkd : d.key = k' := (top_spec hd).2.1
      simp only []
      constructor
      · intro i
        rw [topd_set1 c _ _ hb]
        by_cases hk : k' = k
        · subst hk
          simp only [absOp, if_true, xstep, upd, tvf, hta, htb]
          by_cases h1 : i = b
          · have := repair_topVer y d c.clk
            rw [hkd] at this
            simp only [topVer] at this
            simp only [h1, if_true, this, hd, Option.map_some]
          · simp only [h1, if_false]
        · simp only [absOp, hk, if_false, xstep, tvf]
          by_cases h1 : i = b
          · have := repair_other y d c.clk (k := k) (by rw [hkd]; exact Ne.symm hk)
            simp only [h1, if_true, top_of_docsOf_eq this, htb]
          · simp only [h1, if_false]
      · intro i
        rw [topd_set1 c _ _ hb]
        by_cases h1 : i = b
        · simp only [h1, if_true]
          by_cases hk : k' = k
          · subst hk
            have := repair_top_cases y d c.clk
            rw [hkd] at this
            rcases this with e | e
            · exact ⟨a, by rw [e, hta, hd]⟩
            · exact ⟨b, by rw [e, htb]⟩
          · refine ⟨b, ?_⟩
            have := repair_other y d c.clk (k := k) (by rw [hkd]; exact Ne.symm hk)
            rw [top_of_docsOf_eq this, htb]
        · exact ⟨i, by simp only [h1, if_false]⟩

/-- run a sequence of exchange operations. -/
def crun (c : Cluster) (ops : List COp) : Cluster := ops.foldl cstep c

theorem crun_abs (k : String) (ops : List COp) : ∀ (c : Cluster), (∀ op ∈ ops, op.valid c.reps.length) →
    tvf (crun c ops) k = (ops.map (absOp k)).foldl xstep (tvf c k) ∧
    (∀ i, ∃ j, topd (crun c ops) k i = topd c k j) := by
  induction ops with
  | nil => intro c _; exact ⟨rfl, fun i => ⟨i, rfl⟩⟩
  | cons op rest ih =>
    intro c hv
    have hop := hv op (by simp)
    have h1 := cstep_topd c op k hop
    have hrest : ∀ o ∈ rest, o.valid (cstep c op).reps.length := by
      intro o ho; rw [cstep_length]; exact hv o (by simp [ho])
    have h2 := ih (cstep c op) hrest
    have e : tvf (cstep c op) k = xstep (tvf c k) (absOp k op) := by
      funext i; exact h1.1 i
    constructor
    · simp only [crun, List.foldl_cons, List.map_cons]
      rw [← e]; exact h2.1
    · intro i
      obtain ⟨j, hj⟩ := h2.2 i
      obtain ⟨j', hj'⟩ := h1.2 j
      exact ⟨j', by simp only [crun, List.foldl_cons]; rw [← hj']; exact hj⟩


end Banyan.C18
