/-
C18 helper lemmas: the invariant of the loop of `simpleDedupWithoutSort`.
-/
import Banyan.Lemmas.C18Repair
namespace Banyan.C18

/-! ### `simpleDedupWithoutSort` -/

theorem lookupE_none {es : List Entry} {k : String} : lookupE es k = none ↔ ∀ e ∈ es, e.doc.key ≠ k := by
  simp [lookupE]

theorem lookupE_some {es : List Entry} {k : String} {e : Entry} (h : lookupE es k = some e) :
    e ∈ es ∧ e.doc.key = k := by
  simp only [lookupE] at h
  have h1 := List.mem_of_find?_eq_some h
  have h2 := List.find?_some h
  exact ⟨h1, by simpa using h2⟩

theorem mem_replaceE {es : List Entry} {e y : Entry} :
    y ∈ replaceE es e ↔ (y = e ∧ ∃ x ∈ es, x.doc.key = e.doc.key) ∨ (y ∈ es ∧ y.doc.key ≠ e.doc.key) := by
  simp only [replaceE, List.mem_map]
  constructor
  · rintro ⟨x, hx, rfl⟩
    by_cases h : x.doc.key = e.doc.key
    · left; simp [h]; exact ⟨x, hx, h⟩
    · right; simp [h, hx]
  · rintro (⟨rfl, x, hx, h⟩ | ⟨hy, h⟩)
    · exact ⟨x, hx, by simp [h]⟩
    · exact ⟨y, hy, by simp [h]⟩

theorem keys_replaceE (es : List Entry) (e : Entry) :
    (replaceE es e).map (fun x => x.doc.key) = es.map (fun x => x.doc.key) := by
  simp only [replaceE, List.map_map]
  apply List.map_congr_left
  intro x _
  by_cases h : x.doc.key = e.doc.key <;> simp [h]

/-- what `simpleDedupWithoutSort` guarantees about one entry `e`, relative to the answers `items`:
    its version is the version of some answer for that key; its content is the content of an answer with that key
    and revision; no answer for that key is newer. -/
structure GoodEntry (items : List (Nat × Doc)) (e : Entry) : Prop where
  version : ∃ it ∈ items, it.2.key = e.doc.key ∧ it.2.rev = e.doc.rev ∧ it.2.del = e.doc.del
  content : ∃ it ∈ items, it.2.key = e.doc.key ∧ it.2.rev = e.doc.rev ∧ it.2.created = e.doc.created ∧ it.2.tags = e.doc.tags
  maximal : ∀ it ∈ items, it.2.key = e.doc.key → newer it.2 e.doc = false

structure DedupInv (items : List (Nat × Doc)) (seen : List Entry) : Prop where
  nodup : (seen.map (fun x => x.doc.key)).Nodup
  good : ∀ e ∈ seen, GoodEntry items e
  covered : ∀ it ∈ items, ∃ e ∈ seen, e.doc.key = it.2.key

theorem GoodEntry.mono {items : List (Nat × Doc)} {e : Entry} (x : Nat × Doc) (h : GoodEntry items e)
    (hx : x.2.key = e.doc.key → newer x.2 e.doc = false) : GoodEntry (items ++ [x]) e := by
  obtain ⟨⟨a, ha, ha'⟩, ⟨b, hb, hb'⟩, hm⟩ := h
  refine ⟨⟨a, by simp [ha], ha'⟩, ⟨b, by simp [hb], hb'⟩, ?_⟩
  intro it hit hk
  simp only [List.mem_append, List.mem_singleton] at hit
  rcases hit with hit | rfl
  · exact hm it hit hk
  · exact hx hk

theorem GoodEntry.of_doc {items : List (Nat × Doc)} {e e' : Entry} (g : GoodEntry items e) (h : e'.doc = e.doc) :
    GoodEntry items e' := ⟨h ▸ g.version, h ▸ g.content, h ▸ g.maximal⟩

theorem newer_false_iff (p q : Doc) : newer p q = false ↔ p.rev < q.rev ∨ (p.rev = q.rev ∧ p.del ≤ q.del) := by
  simp [newer]; omega

theorem key_unique {es : List Entry} (hnd : (es.map (fun x => x.doc.key)).Nodup) {y e : Entry}
    (hy : y ∈ es) (he : e ∈ es) (hk : y.doc.key = e.doc.key) : y = e := by
  induction es with
  | nil => simp at hy
  | cons x xs ih =>
    simp only [List.map_cons, List.nodup_cons, List.mem_map, not_exists, not_and] at hnd
    simp only [List.mem_cons] at hy he
    rcases hy with rfl | hy <;> rcases he with rfl | he
    · rfl
    · exact absurd hk.symm (hnd.1 e he)
    · exact absurd hk (hnd.1 y hy)
    · exact ih hnd.2 hy he

theorem simpleStep_inv {items : List (Nat × Doc)} {seen : List Entry} (h : DedupInv items seen) (x : Nat × Doc) :
    DedupInv (items ++ [x]) (simpleStep seen x) := by
  obtain ⟨n, p⟩ := x
  simp only [simpleStep]
  cases hl : lookupE seen p.key with
  | none =>
    have hno := lookupE_none.1 hl
    simp only []
    refine ⟨?_, ?_, ?_⟩
    · rw [List.map_append, List.nodup_append]
      refine ⟨h.nodup, by simp, ?_⟩
      intro a ha b hb
      simp only [List.map_cons, List.map_nil, List.mem_singleton] at hb
      simp only [List.mem_map] at ha
      obtain ⟨e, he, rfl⟩ := ha
      subst hb
      exact hno e he
    · intro e he
      simp only [List.mem_append, List.mem_singleton] at he
      rcases he with he | rfl
      · exact (h.good e he).mono _ (fun hk => absurd hk.symm (hno e he))
      · refine ⟨⟨(n, p), by simp, rfl, rfl, rfl⟩, ⟨(n, p), by simp, rfl, rfl, rfl, rfl⟩, ?_⟩
        intro it hit hk
        simp only [List.mem_append, List.mem_singleton] at hit
        rcases hit with hit | rfl
        · obtain ⟨e, he, hek⟩ := h.covered it hit
          exact absurd (hek.trans hk) (hno e he)
        · simp [newer]
    · intro it hit
      simp only [List.mem_append, List.mem_singleton] at hit
      rcases hit with hit | rfl
      · obtain ⟨e, he, hek⟩ := h.covered it hit
        exact ⟨e, by simp [he], hek⟩
      · exact ⟨{ doc := p, nodes := [n] }, by simp, rfl⟩
  | some e =>
    obtain ⟨he, hek⟩ := lookupE_some hl
    have hg := h.good e he
    simp only []
    -- entries of other keys stay good
    have others : ∀ y ∈ seen, y.doc.key ≠ p.key → GoodEntry (items ++ [(n, p)]) y := by
      intro y hy hne
      exact (h.good y hy).mono _ (fun hk => absurd hk.symm hne)
    have cover : ∀ (e' : Entry), e'.doc.key = p.key → ∀ it ∈ items ++ [(n, p)], ∃ y ∈ replaceE seen e', y.doc.key = it.2.key := by
      intro e' hk' it hit
      have : ∃ y ∈ seen, y.doc.key = it.2.key := by
        simp only [List.mem_append, List.mem_singleton] at hit
        rcases hit with hit | rfl
        · exact h.covered it hit
        · exact ⟨e, he, hek⟩
      obtain ⟨y, hy, hyk⟩ := this
      by_cases hyp : y.doc.key = e'.doc.key
      · exact ⟨e', mem_replaceE.2 (Or.inl ⟨rfl, y, hy, hyp⟩), by rw [← hyk, hyp]⟩
      · exact ⟨y, mem_replaceE.2 (Or.inr ⟨hy, hyp⟩), hyk⟩
    have goodRepl : ∀ (e' : Entry), e'.doc.key = p.key → GoodEntry (items ++ [(n, p)]) e' →
        DedupInv (items ++ [(n, p)]) (replaceE seen e') := by
      intro e' hk' hge
      refine ⟨by rw [keys_replaceE]; exact h.nodup, ?_, cover e' hk'⟩
      intro y hy
      rcases mem_replaceE.1 hy with ⟨rfl, _⟩ | ⟨hy, hne⟩
      · exact hge
      · exact others y hy (by rw [← hk']; exact hne)
    split
    · -- the stored revision is older: replace
      rename_i hlt
      apply goodRepl _ rfl
      refine ⟨⟨(n, p), by simp, rfl, rfl, rfl⟩, ⟨(n, p), by simp, rfl, rfl, rfl, rfl⟩, ?_⟩
      intro it hit hk
      simp only [List.mem_append, List.mem_singleton] at hit
      rcases hit with hit | rfl
      · have := hg.maximal it hit (by simpa [hek] using hk)
        rw [newer_false_iff] at this ⊢
        simp only at hk ⊢
        omega
      · simp [newer]
    · split
      · -- same revision: the later delete time wins, the node is added
        rename_i hnlt heq
        have heq' : e.doc.rev = p.rev := by simpa using heq
        apply goodRepl
        · simp only; split <;> exact hek
        · by_cases hn : newer p e.doc = true
          · simp only [hn, if_true]
            obtain ⟨b, hb, hb1, hb2, hb3, hb4⟩ := hg.content
            refine ⟨⟨(n, p), by simp, hek.symm, heq'.symm, rfl⟩, ⟨b, by simp [hb], hb1, hb2, hb3, hb4⟩, ?_⟩
            intro it hit hk
            simp only [List.mem_append, List.mem_singleton] at hit
            rcases hit with hit | rfl
            · have := hg.maximal it hit hk
              have hn' := hn
              rw [newer_false_iff] at this ⊢
              simp only [newer, Bool.or_eq_true, decide_eq_true_eq, Bool.and_eq_true, beq_iff_eq] at hn'
              simp only
              omega
            · rw [newer_false_iff]; simp only; omega
          · have hn' : newer p e.doc = false := by simpa using hn
            simp only [hn', Bool.false_eq_true, if_false]
            exact (hg.mono (n, p) (fun _ => hn')).of_doc rfl
      · -- the stored revision is newer: skip
        rename_i hnlt hneq
        refine ⟨h.nodup, ?_, ?_⟩
        · intro y hy
          by_cases hyk : y.doc.key = p.key
          · have : y = e := key_unique h.nodup hy he (hyk.trans hek.symm)
            subst this
            apply hg.mono (n, p)
            intro _
            rw [newer_false_iff]
            have h1 : ¬ (y.doc.rev < p.rev) := by simpa using hnlt
            have h2 : ¬ (y.doc.rev = p.rev) := by simpa using hneq
            simp only; omega
          · exact others y hy hyk
        · intro it hit
          simp only [List.mem_append, List.mem_singleton] at hit
          rcases hit with hit | rfl
          · exact h.covered it hit
          · exact ⟨e, he, hek⟩

theorem simpleDedup_inv (items : List (Nat × Doc)) : DedupInv items (simpleDedup items) := by
  have gen : ∀ (rest done : List (Nat × Doc)) (seen : List Entry), DedupInv done seen →
      DedupInv (done ++ rest) (rest.foldl simpleStep seen) := by
    intro rest
    induction rest with
    | nil => intro done seen h; simpa using h
    | cons x xs ih =>
      intro done seen h
      have := ih (done ++ [x]) (simpleStep seen x) (simpleStep_inv h x)
      simpa using this
  have := gen items [] [] ⟨by simp, by simp, by simp⟩
  simpa [simpleDedup] using this


/-! ### `sortedQueryWithDedup` against `simpleDedupWithoutSort` -/

/-- forget the sort value an entry carries. -/
def strip (e : Entry) : Entry := { e with sorted := none }

theorem strip_key (e : Entry) : (strip e).doc.key = e.doc.key := rfl

theorem lookupE_map_strip (es : List Entry) (k : String) :
    lookupE (es.map strip) k = (lookupE es k).map strip := by
  induction es with
  | nil => rfl
  | cons e rest ih =>
    have ih' : List.find? (fun e => e.doc.key == k) (List.map strip rest) =
        Option.map strip (List.find? (fun e => e.doc.key == k) rest) := ih
    by_cases h : e.doc.key = k
    · simp [lookupE, List.find?_cons, strip_key, h]
    · have h' : (e.doc.key == k) = false := by simp [h]
      simp only [lookupE, List.map_cons, List.find?_cons, strip_key, h', ih']

theorem replaceE_map_strip (es : List Entry) (e : Entry) :
    (replaceE es e).map strip = replaceE (es.map strip) (strip e) := by
  simp only [replaceE, List.map_map]
  apply List.map_congr_left
  intro x _
  simp only [Function.comp, strip_key]
  by_cases h : x.doc.key = e.doc.key <;> simp [h]

def dropSort (it : Nat × Doc × Option String) : Nat × Doc := (it.1, it.2.1)

/-- the `seenIDs` map of the sorted variant evolves exactly like the map of the unsorted one. -/
theorem sortedStep_seen (desc : Bool) (seen buf : List Entry) (it : Nat × Doc × Option String) :
    (sortedStep desc (seen, buf) it).1.map strip = simpleStep (seen.map strip) (dropSort it) := by
  obtain ⟨n, p, sv⟩ := it
  simp only [sortedStep, simpleStep, dropSort, lookupE_map_strip]
  cases hl : lookupE seen p.key with
  | none => simp [strip]
  | some e =>
    simp only [Option.map_some]
    by_cases h1 : p.rev = e.doc.rev
    · have a : (p.rev == e.doc.rev) = true := by simp [h1]
      have b : ¬ (strip e).doc.rev < p.rev := by simp [strip, h1]
      have c : ((strip e).doc.rev == p.rev) = true := by simp [strip, h1]
      simp only [a, if_true, b, if_false, c, replaceE_map_strip]
      congr 1
    · by_cases h2 : p.rev < e.doc.rev
      · have a : (p.rev == e.doc.rev) = false := by simp [h1]
        have b : ¬ (strip e).doc.rev < p.rev := by simp [strip]; omega
        have c : ((strip e).doc.rev == p.rev) = false := by simp [strip]; omega
        simp [a, h2, b, c]
      · have a : (p.rev == e.doc.rev) = false := by simp [h1]
        have b : (strip e).doc.rev < p.rev := by simp [strip]; omega
        simp only [a, Bool.false_eq_true, if_false, h2, b, if_true, replaceE_map_strip]
        congr 1

theorem insertAt_perm (buf : List Entry) (e : Entry) (pos : Nat) : (insertAt buf e pos).Perm (e :: buf) := by
  simp only [insertAt]
  have h1 : (buf.take pos ++ [e] ++ buf.drop pos).Perm (e :: (buf.take pos ++ buf.drop pos)) := by
    rw [List.append_assoc]
    exact List.perm_middle
  rw [List.take_append_drop] at h1
  exact h1

theorem replaceE_perm {seen : List Entry} {ne : Entry} (hnd : (seen.map (fun x => x.doc.key)).Nodup)
    (hex : ∃ x ∈ seen, x.doc.key = ne.doc.key) : (replaceE seen ne).Perm (ne :: removeKey seen ne.doc.key) := by
  induction seen with
  | nil => obtain ⟨x, hx, _⟩ := hex; simp at hx
  | cons a rest ih =>
    simp only [List.map_cons, List.nodup_cons, List.mem_map, not_exists, not_and] at hnd
    by_cases ha : a.doc.key = ne.doc.key
    · -- `a` is the one; nothing else in `rest` has this key
      have hrest : ∀ x ∈ rest, x.doc.key ≠ ne.doc.key := fun x hx hk => hnd.1 x hx (hk.trans ha.symm)
      have e1 : replaceE rest ne = rest := by
        simp only [replaceE]
        conv => rhs; rw [← List.map_id rest]
        apply List.map_congr_left
        intro x hx; simp [hrest x hx]
      have e2 : removeKey rest ne.doc.key = rest := by
        simp only [removeKey, List.filter_eq_self]
        intro x hx; simp [hrest x hx]
      have e1' : replaceE (a :: rest) ne = ne :: replaceE rest ne := by simp [replaceE, ha]
      have e2' : removeKey (a :: rest) ne.doc.key = removeKey rest ne.doc.key := by simp [removeKey, ha]
      rw [e1', e2', e1, e2]
    · obtain ⟨x, hx, hxk⟩ := hex
      have hx' : x ∈ rest := by
        simp only [List.mem_cons] at hx
        rcases hx with rfl | hx
        · exact absurd hxk ha
        · exact hx
      have := ih hnd.2 ⟨x, hx', hxk⟩
      have e1' : replaceE (a :: rest) ne = a :: replaceE rest ne := by simp [replaceE, ha]
      have e2' : removeKey (a :: rest) ne.doc.key = a :: removeKey rest ne.doc.key := by simp [removeKey, ha]
      rw [e1', e2']
      exact (List.Perm.cons a this).trans (List.Perm.swap ne a _)

/-- loop invariant of `sortedQueryWithDedup`: `seenIDs` is what the unsorted de-duplication computes on the same
    answers, and the result buffer holds exactly the entries of `seenIDs`. -/
structure SortedInv (items : List (Nat × Doc × Option String)) (st : List Entry × List Entry) : Prop where
  seen : st.1.map strip = simpleDedup (items.map dropSort)
  buf : st.2.Perm st.1

theorem keys_strip (es : List Entry) : (es.map strip).map (fun x => x.doc.key) = es.map (fun x => x.doc.key) := by
  simp [List.map_map, Function.comp, strip]

theorem sortedStep_inv (desc : Bool) {items : List (Nat × Doc × Option String)} {st : List Entry × List Entry}
    (h : SortedInv items st) (it : Nat × Doc × Option String) :
    SortedInv (items ++ [it]) (sortedStep desc st it) := by
  obtain ⟨seen, buf⟩ := st
  have hs := h.seen
  have hb : buf.Perm seen := h.buf
  simp only at hs
  constructor
  · rw [sortedStep_seen, hs]
    simp [simpleDedup, List.foldl_append]
  · have hnd : (seen.map (fun x => x.doc.key)).Nodup := by
      rw [← keys_strip, hs]; exact (simpleDedup_inv _).nodup
    obtain ⟨n, p, sv⟩ := it
    simp only [sortedStep]
    cases hl : lookupE seen p.key with
    | none =>
      simp only []
      exact (insertAt_perm _ _ _).trans ((List.Perm.cons _ hb).trans (List.perm_append_singleton _ _).symm)
    | some e =>
      obtain ⟨he, hek⟩ := lookupE_some hl
      simp only []
      split
      · simp only [replaceE]; exact hb.map _
      · split
        · exact hb
        · have hex : ∃ x ∈ seen, x.doc.key = p.key := ⟨e, he, hek⟩
          refine (insertAt_perm _ _ _).trans ?_
          have h1 : (removeKey buf p.key).Perm (removeKey seen p.key) := hb.filter _
          exact ((List.Perm.cons _ h1)).trans (replaceE_perm (ne := { doc := p, nodes := [n], sorted := sv }) hnd hex).symm

theorem sortedDedup_inv (desc : Bool) (items : List (Nat × Doc × Option String)) :
    SortedInv items (items.foldl (sortedStep desc) ([], [])) := by
  have gen : ∀ (rest done : List (Nat × Doc × Option String)) (st : List Entry × List Entry), SortedInv done st →
      SortedInv (done ++ rest) (rest.foldl (sortedStep desc) st) := by
    intro rest
    induction rest with
    | nil => intro done st h; simpa using h
    | cons x xs ih =>
      intro done st h
      have := ih (done ++ [x]) (sortedStep desc st x) (sortedStep_inv desc h x)
      simpa using this
  have := gen items [] ([], []) ⟨by simp [simpleDedup], List.Perm.refl _⟩
  simpa using this

end Banyan.C18
