/-
C18 helper lemmas: the invariant of the loop of `simpleDedupWithoutSort`.
-/
import Banyan.Lemmas.C18Repair
namespace Banyan.C18

/-! ### `simpleDedupWithoutSort` -/

theorem lookupE_none {es : List Entry} {k : String} : lookupE es k = none ↔ ∀ e ∈ es, e.doc.key ≠ k := by
  simp [lookupE]

theorem lookupE_some {es : List Entry} {k : String} {e : Entry} (h : lookupE es k = some e) :
    e ∈ es ∧ e.doc.key = k := by
  simp only [lookupE] at h
  have h1 := List.mem_of_find?_eq_some h
  have h2 := List.find?_some h
  exact ⟨h1, by simpa using h2⟩

theorem mem_replaceE {es : List Entry} {e y : Entry} :
    y ∈ replaceE es e ↔ (y = e ∧ ∃ x ∈ es, x.doc.key = e.doc.key) ∨ (y ∈ es ∧ y.doc.key ≠ e.doc.key) := by
  simp only [replaceE, List.mem_map]
  constructor
  · rintro ⟨x, hx, rfl⟩
    by_cases h : x.doc.key = e.doc.key
    · left; simp [h]; exact ⟨x, hx, h⟩
    · right; simp [h, hx]
  · rintro (⟨rfl, x, hx, h⟩ | ⟨hy, h⟩)
    · exact ⟨x, hx, by simp [h]⟩
    · exact ⟨y, hy, by simp [h]⟩

theorem keys_replaceE (es : List Entry) (e : Entry) :
    (replaceE es e).map (fun x => x.doc.key) = es.map (fun x => x.doc.key) := by
  simp only [replaceE, List.map_map]
  apply List.map_congr_left
  intro x _
  by_cases h : x.doc.key = e.doc.key <;> simp [h]

/-- what `simpleDedupWithoutSort` guarantees about one entry `e`, relative to the answers `items`:
    its version is the version of some answer for that key; its content is the content of an answer with that key
    and revision; no answer for that key is newer. -/
structure GoodEntry (items : List (Nat × Doc)) (e : Entry) : Prop where
  version : ∃ it ∈ items, it.2.key = e.doc.key ∧ it.2.rev = e.doc.rev ∧ it.2.del = e.doc.del
  content : ∃ it ∈ items, it.2.key = e.doc.key ∧ it.2.rev = e.doc.rev ∧ it.2.created = e.doc.created ∧ it.2.tags = e.doc.tags
  maximal : ∀ it ∈ items, it.2.key = e.doc.key → newer it.2 e.doc = false

structure DedupInv (items : List (Nat × Doc)) (seen : List Entry) : Prop where
  nodup : (seen.map (fun x => x.doc.key)).Nodup
  good : ∀ e ∈ seen, GoodEntry items e
  covered : ∀ it ∈ items, ∃ e ∈ seen, e.doc.key = it.2.key

theorem GoodEntry.mono {items : List (Nat × Doc)} {e : Entry} (x : Nat × Doc) (h : GoodEntry items e)
    (hx : x.2.key = e.doc.key → newer x.2 e.doc = false) : GoodEntry (items ++ [x]) e := by
  obtain ⟨⟨a, ha, ha'⟩, ⟨b, hb, hb'⟩, hm⟩ := h
  refine ⟨⟨a, by simp [ha], ha'⟩, ⟨b, by simp [hb], hb'⟩, ?_⟩
  intro it hit hk
  simp only [List.mem_append, List.mem_singleton] at hit
  rcases hit with hit | rfl
  · exact hm it hit hk
  · exact hx hk

theorem GoodEntry.of_doc {items : List (Nat × Doc)} {e e' : Entry} (g : GoodEntry items e) (h : e'.doc = e.doc) :
    GoodEntry items e' := ⟨h ▸ g.version, h ▸ g.content, h ▸ g.maximal⟩

theorem newer_false_iff (p q : Doc) : newer p q = false ↔ p.rev < q.rev ∨ (p.rev = q.rev ∧ p.del ≤ q.del) := by
  simp [newer]; omega

theorem key_unique {es : List Entry} (hnd : (es.map (fun x => x.doc.key)).Nodup) {y e : Entry}
    (hy : y ∈ es) (he : e ∈ es) (hk : y.doc.key = e.doc.key) : y = e := by
  induction es with
  | nil => simp at hy
  | cons x xs ih =>
    simp only [List.map_cons, List.nodup_cons, List.mem_map, not_exists, not_and] at hnd
    simp only [List.mem_cons] at hy he
    rcases hy with rfl | hy <;> rcases he with rfl | he
    · rfl
    · exact absurd hk.symm (hnd.1 e he)
    · exact absurd hk (hnd.1 y hy)
    · exact ih hnd.2 hy he

theorem simpleStep_inv {items : List (Nat × Doc)} {seen : List Entry} (h : DedupInv items seen) (x : Nat × Doc) :
    DedupInv (items ++ [x]) (simpleStep seen x) := by
  obtain ⟨n, p⟩ := x
  simp only [simpleStep]
  cases hl : lookupE seen p.key with
  | none =>
    have hno := lookupE_none.1 hl
    simp only []
    refine ⟨?_, ?_, ?_⟩
    · rw [List.map_append, List.nodup_append]
      refine ⟨h.nodup, by simp, ?_⟩
      intro a ha b hb
      simp only [List.map_cons, List.map_nil, List.mem_singleton] at hb
      simp only [List.mem_map] at ha
      obtain ⟨e, he, rfl⟩ := ha
      subst hb
      exact hno e he
    · intro e he
      simp only [List.mem_append, List.mem_singleton] at he
      rcases he with he | rfl
      · exact (h.good e he).mono _ (fun hk => absurd hk.symm (hno e he))
      · refine ⟨⟨(n, p), by simp, rfl, rfl, rfl⟩, ⟨(n, p), by simp, rfl, rfl, rfl, rfl⟩, ?_⟩
        intro it hit hk
        simp only [List.mem_append, List.mem_singleton] at hit
        rcases hit with hit | rfl
        · obtain ⟨e, he, hek⟩ := h.covered it hit
          exact absurd (hek.trans hk) (hno e he)
        · simp [newer]
    · intro it hit
      simp only [List.mem_append, List.mem_singleton] at hit
      rcases hit with hit | rfl
      · obtain ⟨e, he, hek⟩ := h.covered it hit
        exact ⟨e, by simp [he], hek⟩
      · exact ⟨{ doc := p, nodes := [n] }, by simp, rfl⟩
  | some e =>
    obtain ⟨he, hek⟩ := lookupE_some hl
    have hg := h.good e he
    simp only []
    -- entries of other keys stay good
    have others : ∀ y ∈ seen, y.doc.key ≠ p.key → GoodEntry (items ++ [(n, p)]) y := by
      intro y hy hne
      exact (h.good y hy).mono _ (fun hk => absurd hk.symm hne)
    have cover : ∀ (e' : Entry), e'.doc.key = p.key → ∀ it ∈ items ++ [(n, p)], ∃ y ∈ replaceE seen e', y.doc.key = it.2.key := by
      intro e' hk' it hit
      have : ∃ y ∈ seen, y.doc.key = it.2.key := by
        simp only [List.mem_append, List.mem_singleton] at hit
        rcases hit with hit | rfl
        · exact h.covered it hit
        · exact ⟨e, he, hek⟩
      obtain ⟨y, hy, hyk⟩ := this
      by_cases hyp : y.doc.key = e'.doc.key
      · exact ⟨e', mem_replaceE.2 (Or.inl ⟨rfl, y, hy, hyp⟩), by rw [← hyk, hyp]⟩
      · exact ⟨y, mem_replaceE.2 (Or.inr ⟨hy, hyp⟩), hyk⟩
    have goodRepl : ∀ (e' : Entry), e'.doc.key = p.key → GoodEntry (items ++ [(n, p)]) e' →
        DedupInv (items ++ [(n, p)]) (replaceE seen e') := by
      intro e' hk' hge
      refine ⟨by rw [keys_replaceE]; exact h.nodup, ?_, cover e' hk'⟩
      intro y hy
      rcases mem_replaceE.1 hy with ⟨rfl, _⟩ | ⟨hy, hne⟩
      · exact hge
      · exact others y hy (by rw [← hk']; exact hne)
    split
    · -- the stored revision is older: replace
      rename_i hlt
      apply goodRepl _ rfl
      refine ⟨⟨(n, p), by simp, rfl, rfl, rfl⟩, ⟨(n, p), by simp, rfl, rfl, rfl, rfl⟩, ?_⟩
      intro it hit hk
      simp only [List.mem_append, List.mem_singleton] at hit
      rcases hit with hit | rfl
      · have := hg.maximal it hit (by simpa [hek] using hk)
        rw [newer_false_iff] at this ⊢
        simp only at hk ⊢
        omega
      · simp [newer]
    · split
      · -- same revision: the later delete time wins, the node is added
        rename_i hnlt heq
        have heq' : e.doc.rev = p.rev := by simpa using heq
        apply goodRepl
        · simp only; split <;> exact hek
        · by_cases hn : newer p e.doc = true
          · simp only [hn, if_true]
            obtain ⟨b, hb, hb1, hb2, hb3, hb4⟩ := hg.content
            refine ⟨⟨(n, p), by simp, hek.symm, heq'.symm, rfl⟩, ⟨b, by simp [hb], hb1, hb2, hb3, hb4⟩, ?_⟩
            intro it hit hk
            simp only [List.mem_append, List.mem_singleton] at hit
            rcases hit with hit | rfl
            · have := hg.maximal it hit hk
              have hn' := hn
              rw [newer_false_iff] at this ⊢
              simp only [newer, Bool.or_eq_true, decide_eq_true_eq, Bool.and_eq_true, beq_iff_eq] at hn'
              simp only
              omega
            · rw [newer_false_iff]; simp only; omega
          · have hn' : newer p e.doc = false := by simpa using hn
            simp only [hn', Bool.false_eq_true, if_false]
            exact (hg.mono (n, p) (fun _ => hn')).of_doc rfl
      · -- the stored revision is newer: skip
        rename_i hnlt hneq
        refine ⟨h.nodup, ?_, ?_⟩
        · intro y hy
          by_cases hyk : y.doc.key = p.key
          · have : y = e := key_unique h.nodup hy he (hyk.trans hek.symm)
            subst this
            apply hg.mono (n, p)
            intro _
            rw [newer_false_iff]
            have h1 : ¬ (y.doc.rev < p.rev) := by simpa using hnlt
            have h2 : ¬ (y.doc.rev = p.rev) := by simpa using hneq
            simp only; omega
          · exact others y hy hyk
        · intro it hit
          simp only [List.mem_append, List.mem_singleton] at hit
          rcases hit with hit | rfl
          · exact h.covered it hit
          · exact ⟨e, he, hek⟩

theorem simpleDedup_inv (items : List (Nat × Doc)) : DedupInv items (simpleDedup items) := by
  have gen : ∀ (rest done : List (Nat × Doc)) (seen : List Entry), DedupInv done seen →
      DedupInv (done ++ rest) (rest.foldl simpleStep seen) := by
    intro rest
    induction rest with
    | nil => intro done seen h; simpa using h
    | cons x xs ih =>
      intro done seen h
      have := ih (done ++ [x]) (simpleStep seen x) (simpleStep_inv h x)
      simpa using this
  have := gen items [] [] ⟨by simp, by simp, by simp⟩
  simpa [simpleDedup] using this

end Banyan.C18
