/-
C18 helper lemmas: the join-semilattice of versions `(rev, deleteTime)`.
-/
import Banyan.Lemmas.C18Repair
namespace Banyan.C18

/-- order on "newest state of a key on a replica": nothing stored is lowest. -/
def ole : Option Ver → Option Ver → Prop
  | none, _ => True
  | some _, none => False
  | some a, some b => ¬ vlt b a

theorem vlt_irrefl (a : Ver) : ¬ vlt a a := by simp [vlt]
theorem vlt_asymm {a b : Ver} : vlt a b → ¬ vlt b a := by simp only [vlt]; omega
theorem vlt_trans {a b c : Ver} : vlt a b → vlt b c → vlt a c := by simp only [vlt]; omega
theorem vlt_total {a b : Ver} : ¬ vlt a b → ¬ vlt b a → a = b := by
  intro h1 h2; simp only [vlt] at h1 h2; apply Prod.ext <;> omega

theorem ole_refl (a : Option Ver) : ole a a := by
  cases a <;> simp [ole, vlt_irrefl]

theorem ole_trans {a b c : Option Ver} : ole a b → ole b c → ole a c := by
  rcases a with _ | a <;> rcases b with _ | b <;> rcases c with _ | c <;> simp only [ole, vlt] <;> intros <;> first | trivial | omega | contradiction

theorem ole_antisymm {a b : Option Ver} : ole a b → ole b a → a = b := by
  rcases a with _ | a <;> rcases b with _ | b <;> simp only [ole]
  · intros; trivial
  · intro _ h; exact h.elim
  · intro h; exact h.elim
  · intro h1 h2; rw [vlt_total h2 h1]

theorem vjoin_idem (a : Option Ver) : vjoin a a = a := by
  cases a <;> simp [vjoin, vlt_irrefl]

theorem vjoin_comm (a b : Option Ver) : vjoin a b = vjoin b a := by
  rcases a with _ | a <;> rcases b with _ | b <;> simp only [vjoin]
  by_cases h1 : vlt a b <;> by_cases h2 : vlt b a <;> simp only [h1, h2, if_true, if_false]
  · exact absurd h2 (vlt_asymm h1)
  · rw [vlt_total h1 h2]

theorem ole_vjoin_left (a b : Option Ver) : ole a (vjoin a b) := by
  rcases a with _ | a <;> rcases b with _ | b <;> simp only [vjoin, ole]
  · exact vlt_irrefl a
  · by_cases h : vlt a b
    · simp only [h, if_true]; exact vlt_asymm h
    · simp only [h, if_false]; exact vlt_irrefl a

theorem ole_vjoin_right (a b : Option Ver) : ole b (vjoin a b) := by
  rw [vjoin_comm]; exact ole_vjoin_left b a

theorem vjoin_least {a b m : Option Ver} (ha : ole a m) (hb : ole b m) : ole (vjoin a b) m := by
  rcases a with _ | a <;> rcases b with _ | b <;> simp only [vjoin] <;> try assumption
  split <;> assumption

/-- absorption: joining with something not above leaves the state. -/
theorem vjoin_absorb {a b : Option Ver} (h : ole b a) : vjoin a b = a :=
  ole_antisymm (vjoin_least (ole_refl a) h) (ole_vjoin_left a b)

theorem vjoin_assoc (a b c : Option Ver) : vjoin (vjoin a b) c = vjoin a (vjoin b c) := by
  apply ole_antisymm
  · apply vjoin_least
    · apply vjoin_least (ole_vjoin_left _ _)
      exact ole_trans (ole_vjoin_left b c) (ole_vjoin_right a _)
    · exact ole_trans (ole_vjoin_right b c) (ole_vjoin_right a _)
  · apply vjoin_least
    · exact ole_trans (ole_vjoin_left a b) (ole_vjoin_left _ c)
    · apply vjoin_least
      · exact ole_trans (ole_vjoin_right a b) (ole_vjoin_left _ c)
      · exact ole_vjoin_right _ c

/-! ### one gossip exchange -/

/-- the two possible outcomes of a repair, as the exchange protocol sees them. -/
theorem repair_outcome {s : Shard} (hf : FlagConsistent s) (d : Doc) (t : Nat) :
    ((repair s d t).2 = (true, none) ∧ ole (ctopVer s d.key) (some (cver d))) ∨
    (∃ l, repair s d t = (s, false, some l) ∧ l.key = d.key ∧ ctopVer s d.key = some (cver l) ∧
      ole (some (cver d)) (some (cver l))) := by
  cases hl : topLast s d.key with
  | none =>
    left
    rw [repair_empty_eq t hl]
    have hn : top s d.key = none := top_none_iff_topLast_none.2 hl
    simp [ctopVer, hn, ole]
  | some l =>
    by_cases h : Refuses l d
    · right
      exact ⟨l, repair_refuse t hl h, (topLast_spec hl).2.1, ctopVer_of_topLast hf hl, cver_ge_of_refuses h⟩
    · left
      rw [repair_accept_eq t hl h, ctopVer_of_topLast hf hl]
      exact ⟨rfl, cver_le_of_not_refuses h⟩

theorem vjoin_absorb_left {a b : Option Ver} (h : ole a b) : vjoin a b = b := by
  rw [vjoin_comm]; exact vjoin_absorb h

/-- One gossip exchange about leaf `k` between flag-consistent shards: both sides end at the join of their newest
    `(revision, deleted?)` of `k`; storage stays flag-consistent; other keys are untouched; no content is invented;
    the clock does not go back. -/
theorem gossipLeaf_spec {cl sv : Shard} (hc : FlagConsistent cl) (hs : FlagConsistent sv) (k : String) {clk : Nat}
    (ht : 0 < clk) :
    let r := gossipLeaf cl sv k clk
    ctopVer r.1 k = vjoin (ctopVer cl k) (ctopVer sv k) ∧
    ctopVer r.2.1 k = vjoin (ctopVer cl k) (ctopVer sv k) ∧
    FlagConsistent r.1 ∧ FlagConsistent r.2.1 ∧
    (∀ k', k' ≠ k → docsOf r.1 k' = docsOf cl k' ∧ docsOf r.2.1 k' = docsOf sv k') ∧
    clk ≤ r.2.2.2 ∧
    (∀ y, y ∈ r.1 ∨ y ∈ r.2.1 → ∃ x, (x ∈ cl ∨ x ∈ sv) ∧ SameContent x y) := by
  have self_origin : ∀ (a b : Shard) (y : Doc), y ∈ a ∨ y ∈ b → ∃ x, (x ∈ a ∨ x ∈ b) ∧ SameContent x y :=
    fun a b y hy => ⟨y, hy, rfl, rfl, rfl, rfl⟩
  cases hcl : top cl k with
  | none =>
    cases hsv : top sv k with
    | none =>
      simp only [gossipLeaf, hcl, hsv]
      refine ⟨by simp [ctopVer, hcl, hsv, vjoin], by simp [ctopVer, hcl, hsv, vjoin], hc, hs, fun _ _ => ⟨by first | rfl | trivial, by first | rfl | trivial⟩,
        Nat.le_refl _, self_origin cl sv⟩
    | some sd =>
      have hk : sd.key = k := (top_spec hsv).2.1
      have hj := repair_ctopVer hc sd ht
      rw [hk] at hj
      simp only [gossipLeaf, hcl, hsv]
      refine ⟨?_, ?_, hj.2, hs, ?_, Nat.le_succ _, ?_⟩
      · rw [hj.1]; simp [ctopVer, hcl, hsv, vjoin]
      · simp [ctopVer, hcl, hsv, vjoin]
      · intro k' hk'
        exact ⟨repair_other cl sd clk (by rw [hk]; exact hk'), by first | rfl | trivial⟩
      · rintro y (hy | hy)
        · rcases repair_origin cl sd clk hy with h | ⟨x, hx, h⟩
          · exact ⟨sd, Or.inr (top_spec hsv).1, h⟩
          · exact ⟨x, Or.inl hx, h⟩
        · exact ⟨y, Or.inr hy, rfl, rfl, rfl, rfl⟩
  | some cd =>
    have hk : cd.key = k := (top_spec hcl).2.1
    have hC : ctopVer cl k = some (cver cd) := by simp [ctopVer, hcl]
    simp only [gossipLeaf, hcl]
    by_cases he : (topLast sv k == topLast cl k) = true
    · have he' : topLast sv k = topLast cl k := by simpa using he
      simp only [he, if_true]
      obtain ⟨lc, hlc⟩ : ∃ lc, topLast cl k = some lc := by
        cases h : topLast cl k with
        | none => exact absurd hk (topLast_none.1 h cd (top_spec hcl).1)
        | some lc => exact ⟨lc, rfl⟩
      have e1 := ctopVer_of_topLast hc hlc
      have e2 := ctopVer_of_topLast hs (he'.trans hlc)
      refine ⟨by rw [e1, e2, vjoin_idem], by rw [e1, e2, vjoin_idem], hc, hs, fun _ _ => ⟨by first | rfl | trivial, by first | rfl | trivial⟩, Nat.le_refl _,
        self_origin cl sv⟩
    · have he0 : (topLast sv k == topLast cl k) = false := by simpa using he
      simp only [he0, Bool.false_eq_true, if_false]
      -- first leg: the server repairs with the client's newest document
      have hj := repair_ctopVer hs cd ht
      rw [hk] at hj
      have hcdin := (top_spec hcl).1
      have hoth1 : ∀ k', k' ≠ k → docsOf (repair sv cd clk).1 k' = docsOf sv k' :=
        fun k' hk' => repair_other sv cd clk (by rw [hk]; exact hk')
      have horig1 : ∀ y ∈ (repair sv cd clk).1, ∃ x, (x ∈ cl ∨ x ∈ sv) ∧ SameContent x y := by
        intro y hy
        rcases repair_origin sv cd clk hy with h | ⟨x, hx, h⟩
        · exact ⟨cd, Or.inl hcdin, h⟩
        · exact ⟨x, Or.inr hx, h⟩
      rcases repair_outcome hs cd clk with ⟨hacc, hle⟩ | ⟨l, hrep, hlk, hS, hle⟩
      · -- accepted: nothing comes back
        have h2 : repair sv cd clk = ((repair sv cd clk).1, true, none) := by
          rw [Prod.ext_iff]; exact ⟨rfl, hacc⟩
        rw [hk] at hle
        rw [h2]
        simp only []
        refine ⟨?_, ?_, hc, hj.2, fun k' hk' => ⟨by first | rfl | trivial, hoth1 k' hk'⟩, Nat.le_succ _, ?_⟩
        · rw [hC]; exact (vjoin_absorb hle).symm
        · rw [hj.1, ← hC, vjoin_comm]
        · rintro y (hy | hy)
          · exact ⟨y, Or.inl hy, rfl, rfl, rfl, rfl⟩
          · exact horig1 y hy
      · -- refused: the server answers with its newest document `l`, the client repairs
        rw [hk] at hlk hS
        rw [hrep]
        simp only []
        have hj2 := repair_ctopVer hc l (Nat.succ_pos clk)
        rw [hlk] at hj2
        have hlin : l ∈ sv := by
          have : (repair sv cd clk).2.2 = some l := by rw [hrep]
          simp only [repair] at this
          split at this
          · simp at this
          · rename_i l' hl'
            split at this
            · simp at this; subst this; exact (topLast_spec hl').1
            · simp at this
        have hoth2 : ∀ k', k' ≠ k → docsOf (repair cl l (clk + 1)).1 k' = docsOf cl k' :=
          fun k' hk' => repair_other cl l (clk + 1) (by rw [hlk]; exact hk')
        have horig2 : ∀ y ∈ (repair cl l (clk + 1)).1, ∃ x, (x ∈ cl ∨ x ∈ sv) ∧ SameContent x y := by
          intro y hy
          rcases repair_origin cl l (clk + 1) hy with h | ⟨x, hx, h⟩
          · exact ⟨l, Or.inr hlin, h⟩
          · exact ⟨x, Or.inl hx, h⟩
        have hSJ : vjoin (ctopVer cl k) (ctopVer sv k) = ctopVer sv k := by
          rw [hC, hS]; exact vjoin_absorb_left hle
        rcases repair_outcome hc l (clk + 1) with ⟨hacc', _⟩ | ⟨n', hrep', hnk, hC', hle'⟩
        · have h3 : repair cl l (clk + 1) = ((repair cl l (clk + 1)).1, true, none) := by
            rw [Prod.ext_iff]; exact ⟨rfl, hacc'⟩
          rw [h3]
          simp only []
          refine ⟨?_, hSJ.symm, hj2.2, hs, fun k' hk' => ⟨hoth2 k' hk', by first | rfl | trivial⟩, by omega, ?_⟩
          · rw [hj2.1, hS]
          · rintro y (hy | hy)
            · exact horig2 y hy
            · exact ⟨y, Or.inr hy, rfl, rfl, rfl, rfl⟩
        · -- the client refuses too and sends its own newest document `n'`: third leg
          rw [hlk] at hnk hC'
          rw [hrep']
          simp only []
          have hj3 := repair_ctopVer hs n' (Nat.succ_pos (clk + 1))
          rw [hnk] at hj3
          have hn'in : n' ∈ cl := by
            have : (repair cl l (clk + 1)).2.2 = some n' := by rw [hrep']
            simp only [repair] at this
            split at this
            · simp at this
            · rename_i l' hl'
              split at this
              · simp at this; subst this; exact (topLast_spec hl').1
              · simp at this
          -- both refuse each other: the two versions are equal
          have heq : ctopVer cl k = ctopVer sv k := by
            rw [hC', hS]
            rw [hC] at hC'
            have : cver cd = cver n' := by simpa using hC'
            rw [this] at hle
            exact ole_antisymm hle hle'
          refine ⟨?_, ?_, hc, hj3.2, fun k' hk' => ⟨by first | rfl | trivial, repair_other sv n' (clk + 2) (by rw [hnk]; exact hk')⟩,
            by omega, ?_⟩
          · rw [heq, vjoin_idem]
          · rw [hj3.1, ← hC', heq, vjoin_idem]
          · rintro y (hy | hy)
            · exact ⟨y, Or.inl hy, rfl, rfl, rfl, rfl⟩
            · rcases repair_origin sv n' (clk + 2) hy with h | ⟨x, hx, h⟩
              · exact ⟨n', Or.inl hn'in, h⟩
              · exact ⟨x, Or.inr hx, h⟩

/-! ### abstract replicas: `Nat → Option Ver` -/

def upd (f : Nat → Option Ver) (i : Nat) (v : Option Ver) : Nat → Option Ver := fun j => if j = i then v else f j

inductive XOp where
  | ex (i j : Nat)      -- bidirectional exchange: both end at the join
  | push (i j : Nat)    -- one-way repair i → j
  | skip
  deriving DecidableEq

def xstep (f : Nat → Option Ver) : XOp → (Nat → Option Ver)
  | .ex i j => upd (upd f i (vjoin (f i) (f j))) j (vjoin (f i) (f j))
  | .push i j => upd f j (vjoin (f j) (f i))
  | .skip => f

theorem xstep_bounded {f : Nat → Option Ver} {M : Option Ver} (hb : ∀ i, ole (f i) M) (op : XOp) :
    ∀ i, ole (xstep f op i) M := by
  intro i
  cases op with
  | ex a b =>
    simp only [xstep, upd]
    split
    · exact vjoin_least (hb a) (hb b)
    · split
      · exact vjoin_least (hb a) (hb b)
      · exact hb i
  | push a b =>
    simp only [xstep, upd]
    split
    · exact vjoin_least (hb b) (hb a)
    · exact hb i
  | skip => exact hb i

theorem xstep_keeps {f : Nat → Option Ver} {M : Option Ver} (hb : ∀ i, ole (f i) M) {a : Nat} (h : f a = M)
    (op : XOp) : xstep f op a = M := by
  cases op with
  | ex i j =>
    simp only [xstep, upd]
    split
    · rename_i e; subst e
      rw [vjoin_comm, h]; exact vjoin_absorb (hb i)
    · split
      · rename_i e; subst e
        rw [h]; exact vjoin_absorb (hb j)
      · exact h
  | push i j =>
    simp only [xstep, upd]
    split
    · rename_i e; subst e
      rw [h]; exact vjoin_absorb (hb i)
    · exact h
  | skip => exact h

theorem xrun_bounded {M : Option Ver} (xs : List XOp) : ∀ {f : Nat → Option Ver}, (∀ i, ole (f i) M) →
    ∀ i, ole (xs.foldl xstep f i) M := by
  induction xs with
  | nil => intro f hb; exact hb
  | cons op rest ih => intro f hb; exact ih (xstep_bounded hb op)

theorem xrun_keeps {M : Option Ver} (xs : List XOp) : ∀ {f : Nat → Option Ver}, (∀ i, ole (f i) M) → ∀ {a : Nat},
    f a = M → xs.foldl xstep f a = M := by
  induction xs with
  | nil => intro f _ a h; exact h
  | cons op rest ih => intro f hb a h; exact ih (xstep_bounded hb op) (xstep_keeps hb h op)

/-- a replica that exchanges (in either role) with a holder of the maximum holds the maximum from then on. -/
theorem xrun_reaches {M : Option Ver} (xs : List XOp) : ∀ {f : Nat → Option Ver}, (∀ i, ole (f i) M) → ∀ {a j : Nat},
    f a = M → (XOp.ex a j ∈ xs ∨ XOp.ex j a ∈ xs) → xs.foldl xstep f j = M := by
  induction xs with
  | nil => intro f _ a j _ h; simp at h
  | cons op rest ih =>
    intro f hb a j h hm
    simp only [List.foldl_cons]
    by_cases hop : op = XOp.ex a j ∨ op = XOp.ex j a
    · apply xrun_keeps rest (xstep_bounded hb op)
      rcases hop with rfl | rfl
      · simp only [xstep, upd, if_true]
        rw [h]; exact vjoin_absorb (hb j)
      · simp only [xstep, upd]
        split
        · rename_i e; subst e; rw [h]; simp [vjoin_idem]
        · simp only [if_true]
          rw [h, vjoin_comm]; exact vjoin_absorb (hb j)
    · apply ih (xstep_bounded hb op) (xstep_keeps hb h op)
      simp only [List.mem_cons] at hm
      rcases hm with (rfl | hm) | (rfl | hm)
      · exact absurd (Or.inl rfl) hop
      · exact Or.inl hm
      · exact absurd (Or.inr rfl) hop
      · exact Or.inr hm

/-- the join of the states of replicas `0 … n-1`. -/
def maxOver (f : Nat → Option Ver) : Nat → Option Ver
  | 0 => none
  | n + 1 => vjoin (maxOver f n) (f n)

theorem le_maxOver (f : Nat → Option Ver) : ∀ n i, i < n → ole (f i) (maxOver f n) := by
  intro n
  induction n with
  | zero => intro i h; omega
  | succ n ih =>
    intro i h
    simp only [maxOver]
    by_cases e : i = n
    · subst e; exact ole_vjoin_right _ _
    · exact ole_trans (ih i (by omega)) (ole_vjoin_left _ _)

theorem vjoin_cases (a b : Option Ver) : vjoin a b = a ∨ vjoin a b = b := by
  rcases a with _ | a <;> rcases b with _ | b
  · exact Or.inl rfl
  · exact Or.inr rfl
  · exact Or.inl rfl
  · by_cases h : vlt a b
    · right; simp only [vjoin, h, if_true]
    · left; simp only [vjoin, h, if_false]

theorem maxOver_attained (f : Nat → Option Ver) : ∀ n, 0 < n → ∃ a, a < n ∧ f a = maxOver f n := by
  intro n
  induction n with
  | zero => intro h; omega
  | succ n ih =>
    intro _
    simp only [maxOver]
    rcases vjoin_cases (maxOver f n) (f n) with h | h
    · by_cases hn : 0 < n
      · obtain ⟨a, ha, e⟩ := ih hn
        exact ⟨a, by omega, by rw [h, e]⟩
      · have : n = 0 := by omega
        subst this
        exact ⟨0, by omega, by simp [maxOver, vjoin_none_left]⟩
    · exact ⟨n, by omega, h.symm⟩

/-- Convergence on abstract replicas: states outside `[0,n)` are empty; if every replica exchanges at least once
    with every other one (in any order, in any role, interleaved with arbitrary further exchanges and one-way
    repairs), all replicas end at the join of the initial states. -/
theorem abstract_converges (n : Nat) (f : Nat → Option Ver) (hout : ∀ i, n ≤ i → f i = none) (xs : List XOp)
    (hfair : ∀ i j, i < n → j < n → i ≠ j → XOp.ex i j ∈ xs ∨ XOp.ex j i ∈ xs) :
    ∀ j, j < n → xs.foldl xstep f j = maxOver f n := by
  intro j hj
  have hb : ∀ i, ole (f i) (maxOver f n) := by
    intro i
    by_cases h : i < n
    · exact le_maxOver f n i h
    · rw [hout i (by omega)]; trivial
  obtain ⟨a, ha, e⟩ := maxOver_attained f n (by omega)
  by_cases haj : a = j
  · subst haj; exact xrun_keeps xs hb e
  · exact xrun_reaches xs hb e (hfair a j ha hj haj)

end Banyan.C18
