/-
C18 helper lemmas: the join-semilattice of versions `(rev, deleteTime)`.
-/
import Banyan.Lemmas.C18Repair
namespace Banyan.C18

/-- order on "newest state of a key on a replica": nothing stored is lowest. -/
def ole : Option Ver → Option Ver → Prop
  | none, _ => True
  | some _, none => False
  | some a, some b => ¬ vlt b a

theorem vlt_irrefl (a : Ver) : ¬ vlt a a := by simp [vlt]
theorem vlt_asymm {a b : Ver} : vlt a b → ¬ vlt b a := by simp only [vlt]; omega
theorem vlt_trans {a b c : Ver} : vlt a b → vlt b c → vlt a c := by simp only [vlt]; omega
theorem vlt_total {a b : Ver} : ¬ vlt a b → ¬ vlt b a → a = b := by
  intro h1 h2; simp only [vlt] at h1 h2; apply Prod.ext <;> omega

theorem ole_refl (a : Option Ver) : ole a a := by
  cases a <;> simp [ole, vlt_irrefl]

theorem ole_trans {a b c : Option Ver} : ole a b → ole b c → ole a c := by
  rcases a with _ | a <;> rcases b with _ | b <;> rcases c with _ | c <;> simp only [ole, vlt] <;> intros <;> first | trivial | omega | contradiction

theorem ole_antisymm {a b : Option Ver} : ole a b → ole b a → a = b := by
  rcases a with _ | a <;> rcases b with _ | b <;> simp only [ole]
  · intros; trivial
  · intro _ h; exact h.elim
  · intro h; exact h.elim
  · intro h1 h2; rw [vlt_total h2 h1]

theorem vjoin_none_left (a : Option Ver) : vjoin none a = a := by cases a <;> rfl
theorem vjoin_none_right (a : Option Ver) : vjoin a none = a := by cases a <;> rfl
theorem vjoin_idem (a : Option Ver) : vjoin a a = a := by
  cases a <;> simp [vjoin, vlt_irrefl]

theorem vjoin_comm (a b : Option Ver) : vjoin a b = vjoin b a := by
  rcases a with _ | a <;> rcases b with _ | b <;> simp only [vjoin]
  by_cases h1 : vlt a b <;> by_cases h2 : vlt b a <;> simp only [h1, h2, if_true, if_false]
  · exact absurd h2 (vlt_asymm h1)
  · rw [vlt_total h1 h2]

theorem ole_vjoin_left (a b : Option Ver) : ole a (vjoin a b) := by
  rcases a with _ | a <;> rcases b with _ | b <;> simp only [vjoin, ole]
  · exact vlt_irrefl a
  · by_cases h : vlt a b
    · simp only [h, if_true]; exact vlt_asymm h
    · simp only [h, if_false]; exact vlt_irrefl a

theorem ole_vjoin_right (a b : Option Ver) : ole b (vjoin a b) := by
  rw [vjoin_comm]; exact ole_vjoin_left b a

theorem vjoin_least {a b m : Option Ver} (ha : ole a m) (hb : ole b m) : ole (vjoin a b) m := by
  rcases a with _ | a <;> rcases b with _ | b <;> simp only [vjoin] <;> try assumption
  split <;> assumption

/-- absorption: joining with something not above leaves the state. -/
theorem vjoin_absorb {a b : Option Ver} (h : ole b a) : vjoin a b = a :=
  ole_antisymm (vjoin_least (ole_refl a) h) (ole_vjoin_left a b)

theorem vjoin_assoc (a b c : Option Ver) : vjoin (vjoin a b) c = vjoin a (vjoin b c) := by
  apply ole_antisymm
  · apply vjoin_least
    · apply vjoin_least (ole_vjoin_left _ _)
      exact ole_trans (ole_vjoin_left b c) (ole_vjoin_right a _)
    · exact ole_trans (ole_vjoin_right b c) (ole_vjoin_right a _)
  · apply vjoin_least
    · exact ole_trans (ole_vjoin_left a b) (ole_vjoin_left _ c)
    · apply vjoin_least
      · exact ole_trans (ole_vjoin_right a b) (ole_vjoin_left _ c)
      · exact ole_vjoin_right _ c

/-! ### one gossip exchange -/

theorem topVer_some {s : Shard} {k : String} {d : Doc} (h : top s k = some d) : topVer s k = some (ver d) := by
  simp [topVer, h]

theorem topVer_none {s : Shard} {k : String} (h : top s k = none) : topVer s k = none := by
  simp [topVer, h]

/-- One gossip exchange about leaf `k`: both sides end at the join of their newest states of `k`; each side's
    newest document is one of the two newest documents before; other keys are untouched. -/
theorem gossipLeaf_spec (cl sv : Shard) (k : String) (clk : Nat) :
    let r := gossipLeaf cl sv k clk
    topVer r.1 k = vjoin (topVer cl k) (topVer sv k) ∧
    topVer r.2.1 k = vjoin (topVer cl k) (topVer sv k) ∧
    (top r.1 k = top cl k ∨ top r.1 k = top sv k) ∧
    (top r.2.1 k = top cl k ∨ top r.2.1 k = top sv k) ∧
    (∀ k', k' ≠ k → docsOf r.1 k' = docsOf cl k' ∧ docsOf r.2.1 k' = docsOf sv k') := by
  cases hc : top cl k with
  | none =>
    cases hs : top sv k with
    | none =>
      simp [gossipLeaf, hc, hs, topVer, vjoin]
    | some sd =>
      have hk : sd.key = k := (top_spec hs).2.1
      have hc' : top cl sd.key = none := by rw [hk]; exact hc
      have h1 := repair_empty clk hc'
      have h2 := repair_topVer cl sd clk
      rw [hk] at h1 h2
      simp only [gossipLeaf, hc, hs]
      refine ⟨?_, ?_, ?_, ?_, ?_⟩
      · simp [h2, topVer_none hc, topVer_some hs, vjoin]
      · simp [topVer_none hc, topVer_some hs, vjoin]
      · right; simp [h1.1]
      · right; simp [hs]
      · intro k' hk'
        exact ⟨repair_other cl sd clk (by rw [hk]; exact hk'), by first | rfl | trivial⟩
  | some cd =>
    have hk : cd.key = k := (top_spec hc).2.1
    simp only [gossipLeaf, hc]
    by_cases he : (top sv k == some cd) = true
    · have he' : top sv k = some cd := by simpa using he
      simp [he, he', hc, topVer, vjoin_idem]
    · simp only [he]
      cases hs : top sv k with
      | none =>
        have hs' : top sv cd.key = none := by rw [hk]; exact hs
        have h1 := repair_empty clk hs'
        have h2 : (repair sv cd clk) = ((repair sv cd clk).1, true, none) := by
          rw [Prod.ext_iff]; exact ⟨rfl, h1.2⟩
        rw [hk] at h1
        rw [h2]
        refine ⟨?_, ?_, ?_, ?_, ?_⟩
        · simp [topVer_some hc, topVer_none hs, vjoin]
        · simp [topVer, h1.1, hc, hs, vjoin]
        · left; simp [hc]
        · left; simp [h1.1]
        · intro k' hk'
          exact ⟨rfl, repair_other sv cd clk (by rw [hk]; exact hk')⟩
      | some sd =>
        have hks : sd.key = k := (top_spec hs).2.1
        have hs' : top sv cd.key = some sd := by rw [hk]; exact hs
        by_cases hv : vlt (ver sd) (ver cd)
        · have h1 := repair_accept clk hs' hv
          have h2 : (repair sv cd clk) = ((repair sv cd clk).1, true, none) := by
            rw [Prod.ext_iff]; exact ⟨rfl, h1.2⟩
          rw [hk] at h1
          rw [h2]
          refine ⟨?_, ?_, ?_, ?_, ?_⟩
          · simp [topVer_some hc, topVer_some hs, vjoin, vlt_asymm hv]
          · simp [topVer, h1.1, hc, hs, vjoin, vlt_asymm hv]
          · left; simp [hc]
          · left; simp [h1.1]
          · intro k' hk'
            exact ⟨rfl, repair_other sv cd clk (by rw [hk]; exact hk')⟩
        · rw [repair_refuse clk hs' hv]
          have hc' : top cl sd.key = some cd := by rw [hks]; exact hc
          by_cases hw : vlt (ver cd) (ver sd)
          · have h1 := repair_accept (clk + 1) hc' hw
            have h2 : (repair cl sd (clk + 1)) = ((repair cl sd (clk + 1)).1, true, none) := by
              rw [Prod.ext_iff]; exact ⟨rfl, h1.2⟩
            rw [hks] at h1
            simp only []
            rw [h2]
            refine ⟨?_, ?_, ?_, ?_, ?_⟩
            · simp [topVer, h1.1, hc, hs, vjoin, hw]
            · simp [topVer, hc, hs, vjoin, hw]
            · right; simp [h1.1]
            · right; simp [hs]
            · intro k' hk'
              exact ⟨repair_other cl sd (clk + 1) (by rw [hks]; exact hk'), rfl⟩
          · simp only []
            rw [repair_refuse (clk + 1) hc' hw]
            simp only []
            rw [repair_refuse (clk + 2) hs' hv]
            have : ver sd = ver cd := vlt_total hv hw
            refine ⟨?_, ?_, ?_, ?_, ?_⟩
            · simp [topVer, hc, hs, vjoin, hw]
            · simp [topVer, hc, hs, vjoin, hw, this]
            · left; simp [hc]
            · right; simp [hs]
            · intro k' _; exact ⟨rfl, rfl⟩


/-! ### abstract replicas: `Nat → Option Ver` -/

def upd (f : Nat → Option Ver) (i : Nat) (v : Option Ver) : Nat → Option Ver := fun j => if j = i then v else f j

inductive XOp where
  | ex (i j : Nat)      -- bidirectional exchange: both end at the join
  | push (i j : Nat)    -- one-way repair i → j
  | skip
  deriving DecidableEq

def xstep (f : Nat → Option Ver) : XOp → (Nat → Option Ver)
  | .ex i j => upd (upd f i (vjoin (f i) (f j))) j (vjoin (f i) (f j))
  | .push i j => upd f j (vjoin (f j) (f i))
  | .skip => f

theorem xstep_bounded {f : Nat → Option Ver} {M : Option Ver} (hb : ∀ i, ole (f i) M) (op : XOp) :
    ∀ i, ole (xstep f op i) M := by
  intro i
  cases op with
  | ex a b =>
    simp only [xstep, upd]
    split
    · exact vjoin_least (hb a) (hb b)
    · split
      · exact vjoin_least (hb a) (hb b)
      · exact hb i
  | push a b =>
    simp only [xstep, upd]
    split
    · exact vjoin_least (hb b) (hb a)
    · exact hb i
  | skip => exact hb i

theorem xstep_keeps {f : Nat → Option Ver} {M : Option Ver} (hb : ∀ i, ole (f i) M) {a : Nat} (h : f a = M)
    (op : XOp) : xstep f op a = M := by
  cases op with
  | ex i j =>
    simp only [xstep, upd]
    split
    · rename_i e; subst e
      rw [vjoin_comm, h]; exact vjoin_absorb (hb i)
    · split
      · rename_i e; subst e
        rw [h]; exact vjoin_absorb (hb j)
      · exact h
  | push i j =>
    simp only [xstep, upd]
    split
    · rename_i e; subst e
      rw [h]; exact vjoin_absorb (hb i)
    · exact h
  | skip => exact h

theorem xrun_bounded {M : Option Ver} (xs : List XOp) : ∀ {f : Nat → Option Ver}, (∀ i, ole (f i) M) →
    ∀ i, ole (xs.foldl xstep f i) M := by
  induction xs with
  | nil => intro f hb; exact hb
  | cons op rest ih => intro f hb; exact ih (xstep_bounded hb op)

theorem xrun_keeps {M : Option Ver} (xs : List XOp) : ∀ {f : Nat → Option Ver}, (∀ i, ole (f i) M) → ∀ {a : Nat},
    f a = M → xs.foldl xstep f a = M := by
  induction xs with
  | nil => intro f _ a h; exact h
  | cons op rest ih => intro f hb a h; exact ih (xstep_bounded hb op) (xstep_keeps hb h op)

/-- a replica that exchanges (in either role) with a holder of the maximum holds the maximum from then on. -/
theorem xrun_reaches {M : Option Ver} (xs : List XOp) : ∀ {f : Nat → Option Ver}, (∀ i, ole (f i) M) → ∀ {a j : Nat},
    f a = M → (XOp.ex a j ∈ xs ∨ XOp.ex j a ∈ xs) → xs.foldl xstep f j = M := by
  induction xs with
  | nil => intro f _ a j _ h; simp at h
  | cons op rest ih =>
    intro f hb a j h hm
    simp only [List.foldl_cons]
    by_cases hop : op = XOp.ex a j ∨ op = XOp.ex j a
    · apply xrun_keeps rest (xstep_bounded hb op)
      rcases hop with rfl | rfl
      · simp only [xstep, upd, if_true]
        rw [h]; exact vjoin_absorb (hb j)
      · simp only [xstep, upd]
        split
        · rename_i e; subst e; rw [h]; simp [vjoin_idem]
        · simp only [if_true]
          rw [h, vjoin_comm]; exact vjoin_absorb (hb j)
    · apply ih (xstep_bounded hb op) (xstep_keeps hb h op)
      simp only [List.mem_cons] at hm
      rcases hm with (rfl | hm) | (rfl | hm)
      · exact absurd (Or.inl rfl) hop
      · exact Or.inl hm
      · exact absurd (Or.inr rfl) hop
      · exact Or.inr hm

/-- the join of the states of replicas `0 … n-1`. -/
def maxOver (f : Nat → Option Ver) : Nat → Option Ver
  | 0 => none
  | n + 1 => vjoin (maxOver f n) (f n)

theorem le_maxOver (f : Nat → Option Ver) : ∀ n i, i < n → ole (f i) (maxOver f n) := by
  intro n
  induction n with
  | zero => intro i h; omega
  | succ n ih =>
    intro i h
    simp only [maxOver]
    by_cases e : i = n
    · subst e; exact ole_vjoin_right _ _
    · exact ole_trans (ih i (by omega)) (ole_vjoin_left _ _)

theorem vjoin_cases (a b : Option Ver) : vjoin a b = a ∨ vjoin a b = b := by
  rcases a with _ | a <;> rcases b with _ | b
  · exact Or.inl rfl
  · exact Or.inr rfl
  · exact Or.inl rfl
  · by_cases h : vlt a b
    · right; simp only [vjoin, h, if_true]
    · left; simp only [vjoin, h, if_false]

theorem maxOver_attained (f : Nat → Option Ver) : ∀ n, 0 < n → ∃ a, a < n ∧ f a = maxOver f n := by
  intro n
  induction n with
  | zero => intro h; omega
  | succ n ih =>
    intro _
    simp only [maxOver]
    rcases vjoin_cases (maxOver f n) (f n) with h | h
    · by_cases hn : 0 < n
      · obtain ⟨a, ha, e⟩ := ih hn
        exact ⟨a, by omega, by rw [h, e]⟩
      · have : n = 0 := by omega
        subst this
        exact ⟨0, by omega, by simp [maxOver, vjoin_none_left]⟩
    · exact ⟨n, by omega, h.symm⟩

/-- Convergence on abstract replicas: states outside `[0,n)` are empty; if every replica exchanges at least once
    with every other one (in any order, in any role, interleaved with arbitrary further exchanges and one-way
    repairs), all replicas end at the join of the initial states. -/
theorem abstract_converges (n : Nat) (f : Nat → Option Ver) (hout : ∀ i, n ≤ i → f i = none) (xs : List XOp)
    (hfair : ∀ i j, i < n → j < n → i ≠ j → XOp.ex i j ∈ xs ∨ XOp.ex j i ∈ xs) :
    ∀ j, j < n → xs.foldl xstep f j = maxOver f n := by
  intro j hj
  have hb : ∀ i, ole (f i) (maxOver f n) := by
    intro i
    by_cases h : i < n
    · exact le_maxOver f n i h
    · rw [hout i (by omega)]; trivial
  obtain ⟨a, ha, e⟩ := maxOver_attained f n (by omega)
  by_cases haj : a = j
  · subst haj; exact xrun_keeps xs hb e
  · exact xrun_reaches xs hb e (hfair a j ha hj haj)

end Banyan.C18
