/-
C18 helper lemmas: the fault-free cluster refines the abstract map (invariant and its preservation).
-/
import Banyan.Lemmas.C18Dedup
namespace Banyan.C18

/-! ### fault-free cluster vs. the abstract map -/

structure Val where
  created : Nat
  rev : Nat
  tags : Tags
  deriving DecidableEq, Repr

abbrev AMap := String → Option Val

def docOf (k : String) (v : Val) : Doc := { key := k, rev := v.rev, created := v.created, tags := v.tags, del := 0 }

def allUp : Nat → Bool := fun _ => true

structure ShardOK (s : Shard) (m : AMap) (b : Nat) : Prop where
  bound : ∀ d ∈ s, d.rev ≤ b
  live : ∀ k v, m k = some v → docOf k v ∈ s ∧ ∀ d ∈ s, d.key = k → d = docOf k v ∨ (0 < d.del ∧ d.rev < v.rev)
  dead : ∀ k, m k = none → ∀ d ∈ s, d.key = k → 0 < d.del

structure ClusterOK (c : Cluster) (m : AMap) (b : Nat) : Prop where
  nonempty : c.reps ≠ []
  shards : ∀ s ∈ c.reps, ShardOK s m b
  clk : 0 < c.clk

theorem mem_gatherFrom_all (reps : List Shard) (keys : List String) (i : Nat) (x : Doc) :
    x ∈ (gatherFrom reps allUp keys i).map Prod.snd ↔ ∃ s ∈ reps, x ∈ s ∧ x.key ∈ keys := by
  induction reps generalizing i with
  | nil => simp [gatherFrom]
  | cons s rest ih =>
    simp only [gatherFrom, allUp, if_true, List.map_append, List.mem_append, ih, List.mem_cons]
    constructor
    · rintro (h | ⟨s', hs', h⟩)
      · simp only [List.map_map, List.mem_map, List.mem_filter, Function.comp] at h
        obtain ⟨y, ⟨hy, hk⟩, rfl⟩ := h
        exact ⟨s, Or.inl rfl, hy, by simpa using hk⟩
      · exact ⟨s', Or.inr hs', h⟩
    · rintro ⟨s', rfl | hs', h⟩
      · left
        simp only [List.map_map, List.mem_map, List.mem_filter, Function.comp]
        exact ⟨x, ⟨h.1, by simpa using h.2⟩, rfl⟩
      · right; exact ⟨s', hs', h⟩

theorem mem_gather_all (c : Cluster) (keys : List String) (x : Doc) :
    x ∈ (gather c allUp keys).map Prod.snd ↔ ∃ s ∈ c.reps, x ∈ s ∧ x.key ∈ keys :=
  mem_gatherFrom_all c.reps keys 0 x

theorem mapUp_all (reps : List Shard) (f : Nat → Shard → Shard) (i : Nat) (s' : Shard)
    (h : s' ∈ mapUp reps allUp f i) : ∃ s ∈ reps, ∃ j, s' = f j s := by
  induction reps generalizing i with
  | nil => simp [mapUp] at h
  | cons s rest ih =>
    simp only [mapUp, allUp, if_true, List.mem_cons] at h
    rcases h with rfl | h
    · exact ⟨s, by simp, i, rfl⟩
    · obtain ⟨s0, hs0, j, e⟩ := ih (i + 1) h
      exact ⟨s0, by simp [hs0], j, e⟩

theorem mapUp_ne_nil (reps : List Shard) (up : Nat → Bool) (f : Nat → Shard → Shard) (i : Nat) (h : reps ≠ []) :
    mapUp reps up f i ≠ [] := by
  cases reps with
  | nil => exact absurd rfl h
  | cons s rest => simp [mapUp]

theorem anyUp_all {n : Nat} (h : 0 < n) : anyUp n allUp = true := by
  simp only [anyUp, allUp, List.any_eq_true]
  exact ⟨0, by simp [h], by first | rfl | trivial⟩

/-! #### `findPrev` -/

theorem findPrev_mem {l : List Doc} {e : Doc} (h : findPrev l = some e) : e ∈ l := by
  induction l generalizing e with
  | nil => simp [findPrev] at h
  | cons d ds ih =>
    simp only [findPrev] at h
    split at h
    · simp at h; subst h; simp
    · rename_i e' he'
      split at h
      · simp at h; subst h; simp
      · simp at h; subst h; simp [ih he']

theorem findPrev_none {l : List Doc} : findPrev l = none ↔ l = [] := by
  cases l with
  | nil => simp [findPrev]
  | cons d ds =>
    simp only [findPrev]
    split
    · simp
    · split <;> simp

theorem newer_asymm {p q : Doc} (h : newer p q = true) : newer q p = false := by
  rw [newer_false_iff]; simp [newer] at h; omega

theorem newer_irrefl (p : Doc) : newer p p = false := by simp [newer]

/-- if `x` is among the answers and newer than every other answer, `findPrev` finds it. -/
theorem findPrev_max {l : List Doc} {x : Doc} (hx : x ∈ l) (hmax : ∀ d ∈ l, d = x ∨ newer x d = true) :
    findPrev l = some x := by
  induction l with
  | nil => simp at hx
  | cons d ds ih =>
    simp only [findPrev]
    cases hf : findPrev ds with
    | none =>
      rw [findPrev_none] at hf; subst hf
      simp at hx; simp [hx]
    | some e =>
      have he := findPrev_mem hf
      simp only []
      by_cases hxd : x ∈ ds
      · have e_eq : e = x := by
          have := ih hxd (fun d' hd' => hmax d' (by simp [hd']))
          rw [hf] at this; simpa using this
        subst e_eq
        rcases hmax d (by simp) with rfl | hn
        · simp [newer_irrefl]
        · simp [newer_asymm hn]
      · have hdx : d = x := by
          simp only [List.mem_cons] at hx
          rcases hx with rfl | hx
          · rfl
          · exact absurd hx hxd
        subst hdx
        rcases hmax e (by simp [he]) with rfl | hn
        · exact absurd he hxd
        · simp [hn]


theorem docOf_inj {k : String} {v w : Val} (h : docOf k v = docOf k w) : v = w := by
  cases v; cases w; simp [docOf] at h; simp [h]

/-- the abstract map after an apply. -/
def applyVal (m : AMap) (k : String) (strat : Strategy) (tags : Tags) (now : Nat) : Val :=
  match m k with
  | none => { created := now, rev := now, tags := tags }
  | some v => { created := v.created, rev := now,
                tags := match strat with | .merge => mergeTags tags v.tags | .replace => tags }

def setKey (m : AMap) (k : String) (x : Option Val) : AMap := fun k' => if k' = k then x else m k'

theorem newDoc_eq (m : AMap) (k : String) (strat : Strategy) (tags : Tags) (now : Nat) :
    newDoc k strat tags now ((m k).map (docOf k)) = docOf k (applyVal m k strat tags now) := by
  cases h : m k with
  | none => simp [newDoc, applyVal, h, docOf]
  | some v => cases strat <;> simp [newDoc, applyVal, h, docOf]

section
variable {c : Cluster} {m : AMap} {b : Nat}

theorem items_mem (c : Cluster) (k : String) (x : Doc) :
    x ∈ (gather c allUp [k]).map Prod.snd ↔ ∃ s ∈ c.reps, x ∈ s ∧ x.key = k := by
  rw [mem_gather_all]; simp

theorem exists_shard (h : ClusterOK c m b) : ∃ s, s ∈ c.reps := by
  cases hr : c.reps with
  | nil => exact absurd hr h.nonempty
  | cons s _ => exact ⟨s, by simp⟩

theorem prev_live (h : ClusterOK c m b) {k : String} {v : Val} (hv : m k = some v) :
    findPrev ((gather c allUp [k]).map Prod.snd) = some (docOf k v) := by
  obtain ⟨s0, hs0⟩ := exists_shard h
  apply findPrev_max
  · rw [items_mem]; exact ⟨s0, hs0, ((h.shards s0 hs0).live k v hv).1, rfl⟩
  · intro d hd
    rw [items_mem] at hd
    obtain ⟨s, hs, hds, hdk⟩ := hd
    rcases ((h.shards s hs).live k v hv).2 d hds hdk with e | ⟨_, hlt⟩
    · exact Or.inl e
    · right; simp [newer, docOf]; omega

theorem prev_dead (h : ClusterOK c m b) {k : String} (hv : m k = none) {p : Doc}
    (hp : findPrev ((gather c allUp [k]).map Prod.snd) = some p) : 0 < p.del := by
  have := findPrev_mem hp
  rw [items_mem] at this
  obtain ⟨s, hs, hps, hpk⟩ := this
  exact (h.shards s hs).dead k hv p hps hpk

/-- the ids the liaison asks the data nodes to tombstone: exactly the id of the live value, if there is one. -/
theorem older_ids (h : ClusterOK c m b) (k : String) (i : DocId) :
    i ∈ (((gather c allUp [k]).map Prod.snd).filter fun d => d.del == 0).map Doc.id ↔
      ∃ v, m k = some v ∧ i = (k, v.rev) := by
  simp only [List.mem_map, List.mem_filter]
  constructor
  · rintro ⟨d, ⟨hd, hdel⟩, rfl⟩
    have hd' := (items_mem c k d).1 (by simpa using hd)
    obtain ⟨s, hs, hds, hdk⟩ := hd'
    have hdel' : d.del = 0 := by simpa using hdel
    cases hm : m k with
    | none => have := (h.shards s hs).dead k hm d hds hdk; omega
    | some v =>
      rcases ((h.shards s hs).live k v hm).2 d hds hdk with e | ⟨hpos, _⟩
      · exact ⟨v, rfl, by rw [e]; rfl⟩
      · omega
  · rintro ⟨v, hv, rfl⟩
    obtain ⟨s0, hs0⟩ := exists_shard h
    refine ⟨docOf k v, ⟨?_, by simp [docOf]⟩, rfl⟩
    have := (items_mem c k (docOf k v)).2 ⟨s0, hs0, ((h.shards s0 hs0).live k v hv).1, rfl⟩
    simpa using this
end

/-- `mem_markDeleted_uniform` with the trivial case of an empty id list. -/
theorem mem_markDeleted_gen {s : Shard} {ids : List DocId} {t : Nat}
    (hu : ids = [] ∨ ∃ x0 ∈ s, x0.id ∈ ids ∧ ∀ x ∈ s, x.id ∈ ids → x = x0) {y : Doc} :
    y ∈ markDeleted s ids t ↔
      ∃ x ∈ s, (x.id ∈ ids ∧ y = { x with del := t }) ∨ (x.id ∉ ids ∧ y = x) := by
  rcases hu with rfl | ⟨x0, hx0, hid, huni⟩
  · rw [markDeleted_nil]
    constructor
    · intro hy; exact ⟨y, hy, Or.inr ⟨by simp, rfl⟩⟩
    · rintro ⟨x, hx, ⟨h, _⟩ | ⟨_, rfl⟩⟩
      · simp at h
      · exact hx
  · exact mem_markDeleted_uniform hx0 hid huni

/-- in a shard that is in step with the map, the ids the liaison lists for key `k` name at most the one live
    document: the lookup limit of `buildDeleteFromTimeDocuments` cannot cut anything off. -/
theorem older_uniform {s s' : Shard} {m : AMap} {b : Nat} {k : String} {older : List DocId} (hs : ShardOK s m b)
    (h1 : ∀ i ∈ older, ∃ v, m k = some v ∧ i = (k, v.rev))
    (h2 : ∀ v, m k = some v → (k, v.rev) ∈ older)
    (hsub : ∀ x ∈ s', x.id ∈ older → x ∈ s) (hsup : ∀ x ∈ s, x.id ∈ older → x ∈ s') :
    older = [] ∨ ∃ x0 ∈ s', x0.id ∈ older ∧ ∀ x ∈ s', x.id ∈ older → x = x0 := by
  cases hm : m k with
  | none =>
    left
    apply List.eq_nil_iff_forall_not_mem.2
    intro i hi
    obtain ⟨v, hv, _⟩ := h1 i hi
    rw [hm] at hv; cases hv
  | some v =>
    right
    have hl := hs.live k v hm
    have hid : (docOf k v).id ∈ older := h2 v hm
    refine ⟨docOf k v, hsup _ hl.1 hid, hid, ?_⟩
    intro x hx hin
    have hxs := hsub x hx hin
    obtain ⟨v2, hv2, e⟩ := h1 _ hin
    rw [hm] at hv2; cases hv2
    have hk : x.key = k := by simpa [Doc.id] using congrArg Prod.fst e
    have hr : x.rev = v.rev := by simpa [Doc.id] using congrArg Prod.snd e
    rcases hl.2 x hxs hk with e1 | ⟨_, hlt⟩
    · exact e1
    · omega

/-- one data node's part of a fault-free Apply: store the new document, tombstone the listed older ones. -/
theorem shard_apply_ok {s : Shard} {m : AMap} {b now t : Nat} {k : String} {v' : Val} {older : List DocId}
    (hs : ShardOK s m b) (hb : b < now) (ht : 0 < t) (hrev : v'.rev = now)
    (h1 : ∀ i ∈ older, ∃ v, m k = some v ∧ i = (k, v.rev))
    (h2 : ∀ v, m k = some v → (k, v.rev) ∈ older) :
    ShardOK (markDeleted (upsert s (docOf k v')) older t) (setKey m k (some v')) now := by
  have hnew : (docOf k v').id ∉ older := by
    intro hin
    obtain ⟨v, hv, e⟩ := h1 _ hin
    have := hs.bound _ ((hs.live k v hv).1)
    simp [Doc.id, docOf] at e this
    omega
  have older_key : ∀ i ∈ older, i.1 = k := by
    intro i hi; obtain ⟨v, _, e⟩ := h1 i hi; rw [e]
  have hu := older_uniform (s' := upsert s (docOf k v')) hs h1 h2
    (by
      intro x hx hin
      rcases mem_upsert.1 hx with ⟨hxs, _⟩ | rfl
      · exact hxs
      · exact absurd hin hnew)
    (by
      intro x hx hin
      rw [mem_upsert]
      left
      refine ⟨hx, ?_⟩
      rintro ⟨_, hr⟩
      have := hs.bound x hx
      simp [docOf] at hr
      omega)
  -- every document afterwards comes from one before (or is the new one), with the same key / rev / content
  have origin : ∀ y ∈ markDeleted (upsert s (docOf k v')) older t,
      y = docOf k v' ∨ ∃ x ∈ s, x.key = y.key ∧ x.rev = y.rev ∧
        ((x.id ∈ older ∧ y.del = t) ∨ (x.id ∉ older ∧ y = x)) := by
    intro y hy
    rw [mem_markDeleted_gen hu] at hy
    obtain ⟨x, hx, hxy⟩ := hy
    rw [mem_upsert] at hx
    rcases hx with ⟨hxs, _⟩ | rfl
    · right
      rcases hxy with ⟨hin, rfl⟩ | ⟨hnin, rfl⟩
      · exact ⟨x, hxs, rfl, rfl, Or.inl ⟨hin, rfl⟩⟩
      · exact ⟨y, hxs, rfl, rfl, Or.inr ⟨hnin, rfl⟩⟩
    · left
      rcases hxy with ⟨hin, _⟩ | ⟨_, rfl⟩
      · exact absurd hin hnew
      · rfl
  have keep : ∀ x ∈ s, x.id ∉ older → x ∈ markDeleted (upsert s (docOf k v')) older t := by
    intro x hx hnin
    rw [mem_markDeleted_gen hu]
    refine ⟨x, ?_, Or.inr ⟨hnin, rfl⟩⟩
    rw [mem_upsert]
    left
    refine ⟨hx, ?_⟩
    rintro ⟨_, hr⟩
    have := hs.bound x hx
    simp [docOf] at hr
    omega
  refine ⟨?_, ?_, ?_⟩
  · intro y hy
    rcases origin y hy with rfl | ⟨x, hx, _, hr, _⟩
    · simp [docOf]; omega
    · have := hs.bound x hx; omega
  · intro k'' v'' hm
    simp only [setKey] at hm
    by_cases hk : k'' = k
    · subst hk
      simp only [if_true, Option.some.injEq] at hm
      subst hm
      constructor
      · rw [mem_markDeleted_gen hu]
        exact ⟨docOf k'' v', by rw [mem_upsert]; exact Or.inr rfl, Or.inr ⟨hnew, rfl⟩⟩
      · intro y hy hyk
        rcases origin y hy with rfl | ⟨x, hx, hxk, hxr, hcase⟩
        · exact Or.inl rfl
        · right
          have hbx := hs.bound x hx
          refine ⟨?_, by show y.rev < v'.rev; omega⟩
          have hxk' : x.key = k'' := hxk.trans hyk
          rcases hcase with ⟨_, hdel⟩ | ⟨hnin, rfl⟩
          · omega
          · cases hmk : m k'' with
            | none => exact hs.dead k'' hmk y hx hxk'
            | some v =>
              rcases (hs.live k'' v hmk).2 y hx hxk' with e | ⟨hpos, _⟩
              · exfalso; apply hnin; rw [e]; exact h2 v hmk
              · exact hpos
    · simp only [hk, if_false] at hm
      have hl := hs.live k'' v'' hm
      constructor
      · apply keep _ hl.1
        intro hin
        exact hk (older_key _ hin)
      · intro y hy hyk
        rcases origin y hy with rfl | ⟨x, hx, hxk, _, hcase⟩
        · exact absurd hyk.symm hk
        · rcases hcase with ⟨hin, _⟩ | ⟨_, rfl⟩
          · have := older_key _ hin
            simp [Doc.id] at this
            exact absurd (hyk.symm.trans (hxk.symm.trans this)) hk
          · exact hl.2 y hx hyk
  · intro k'' hm y hy hyk
    simp only [setKey] at hm
    by_cases hk : k'' = k
    · simp [hk] at hm
    · simp only [hk, if_false] at hm
      rcases origin y hy with rfl | ⟨x, hx, hxk, _, hcase⟩
      · exact absurd hyk.symm hk
      · rcases hcase with ⟨_, hdel⟩ | ⟨_, rfl⟩
        · omega
        · exact hs.dead k'' hm y hx hyk

/-- one data node's part of a fault-free Delete. -/
theorem shard_delete_ok {s : Shard} {m : AMap} {b t : Nat} {k : String} {older : List DocId}
    (hs : ShardOK s m b) (ht : 0 < t)
    (h1 : ∀ i ∈ older, ∃ v, m k = some v ∧ i = (k, v.rev))
    (h2 : ∀ v, m k = some v → (k, v.rev) ∈ older) :
    ShardOK (markDeleted s older t) (setKey m k none) b := by
  have older_key : ∀ i ∈ older, i.1 = k := by
    intro i hi; obtain ⟨v, _, e⟩ := h1 i hi; rw [e]
  have hu := older_uniform (s' := s) hs h1 h2 (fun x hx _ => hx) (fun x hx _ => hx)
  have origin : ∀ y ∈ markDeleted s older t, ∃ x ∈ s, x.key = y.key ∧ x.rev = y.rev ∧
        ((x.id ∈ older ∧ y.del = t) ∨ (x.id ∉ older ∧ y = x)) := by
    intro y hy
    rw [mem_markDeleted_gen hu] at hy
    obtain ⟨x, hx, hxy⟩ := hy
    rcases hxy with ⟨hin, rfl⟩ | ⟨hnin, rfl⟩
    · exact ⟨x, hx, rfl, rfl, Or.inl ⟨hin, rfl⟩⟩
    · exact ⟨y, hx, rfl, rfl, Or.inr ⟨hnin, rfl⟩⟩
  refine ⟨?_, ?_, ?_⟩
  · intro y hy
    obtain ⟨x, hx, _, hr, _⟩ := origin y hy
    have := hs.bound x hx; omega
  · intro k'' v'' hm
    simp only [setKey] at hm
    by_cases hk : k'' = k
    · simp [hk] at hm
    · simp only [hk, if_false] at hm
      have hl := hs.live k'' v'' hm
      constructor
      · rw [mem_markDeleted_gen hu]
        refine ⟨_, hl.1, Or.inr ⟨?_, rfl⟩⟩
        intro hin
        have := older_key _ hin
        simp [Doc.id, docOf] at this
        exact hk this
      · intro y hy hyk
        obtain ⟨x, hx, hxk, _, hcase⟩ := origin y hy
        rcases hcase with ⟨hin, _⟩ | ⟨_, rfl⟩
        · have := older_key _ hin
          simp [Doc.id] at this
          exact absurd (hyk.symm.trans (hxk.symm.trans this)) hk
        · exact hl.2 y hx hyk
  · intro k'' hm y hy hyk
    obtain ⟨x, hx, hxk, _, hcase⟩ := origin y hy
    have hxk' : x.key = k'' := hxk.trans hyk
    rcases hcase with ⟨_, hdel⟩ | ⟨hnin, rfl⟩
    · omega
    · by_cases hk : k'' = k
      · subst hk
        cases hmk : m k'' with
        | none => exact hs.dead k'' hmk y hx hxk'
        | some v =>
          rcases (hs.live k'' v hmk).2 y hx hxk' with e | ⟨hpos, _⟩
          · exfalso; apply hnin; rw [e]; exact h2 v hmk
          · exact hpos
      · simp only [setKey, hk, if_false] at hm
        exact hs.dead k'' hm y hx hxk'


theorem prevLive_eq {c : Cluster} {m : AMap} {b : Nat} (h : ClusterOK c m b) (k : String) :
    liveOnly (findPrev ((gather c allUp [k]).map Prod.snd)) = (m k).map (docOf k) := by
  cases hm : m k with
  | some v => rw [prev_live h hm]; simp [liveOnly, docOf]
  | none =>
    cases hf : findPrev ((gather c allUp [k]).map Prod.snd) with
    | none => rfl
    | some p =>
      have := prev_dead h hm hf
      have : ¬ p.del = 0 := by omega
      simp [liveOnly, this]

/-- a fault-free Apply with a clock beyond every stored revision keeps the cluster in step with the map. -/
theorem applyOp_ok {c : Cluster} {m : AMap} {b : Nat} (h : ClusterOK c m b) (k : String) (strat : Strategy)
    (tags : Tags) (now : Nat) (hb : b < now) (ht : tags.isEmpty = false) :
    ClusterOK (applyOp c allUp k strat tags now).1 (setKey m k (some (applyVal m k strat tags now))) now ∧
    (applyOp c allUp k strat tags now).2 = .ok (m k).isNone (applyVal m k strat tags now).tags.length := by
  have hlen : 0 < c.reps.length := List.length_pos_iff.2 h.nonempty
  have hup : (!anyUp c.reps.length allUp) = false := by simp [anyUp_all hlen]
  simp only [applyOp, ht, Bool.false_eq_true, if_false, hup, prevLive_eq h k, newDoc_eq]
  have hrev : (applyVal m k strat tags now).rev = now := by
    simp only [applyVal]; split <;> rfl
  have ho1 := fun i => (older_ids h k i).1
  have ho2 : ∀ v, m k = some v → (k, v.rev) ∈ _ := fun v hv => (older_ids h k (k, v.rev)).2 ⟨v, hv, rfl⟩
  constructor
  · split
    · -- nothing to tombstone
      rename_i hemp
      have hemp' := List.isEmpty_iff.1 hemp
      refine ⟨mapUp_ne_nil _ _ _ _ h.nonempty, ?_, h.clk⟩
      intro s' hs'
      obtain ⟨s, hs, _, rfl⟩ := mapUp_all _ _ _ _ hs'
      have := shard_apply_ok (t := 1) (older := []) (h.shards s hs) hb (by omega) hrev
        (by simp) (by intro v hv; have := ho2 v hv; rw [hemp'] at this; simp at this)
      rwa [markDeleted_nil] at this
    · simp only [removeIds]
      refine ⟨mapUp_ne_nil _ _ _ _ (mapUp_ne_nil _ _ _ _ h.nonempty), ?_, by simp; have := h.clk; omega⟩
      intro s2 hs2
      obtain ⟨s1, hs1, j, rfl⟩ := mapUp_all _ _ _ _ hs2
      obtain ⟨s, hs, _, rfl⟩ := mapUp_all _ _ _ _ hs1
      exact shard_apply_ok (h.shards s hs) hb (by have := h.clk; simp; omega) hrev (fun i hi => ho1 i hi) ho2
  · cases hm : m k <;> simp [hm, docOf]

theorem deleteOp_ok {c : Cluster} {m : AMap} {b : Nat} (h : ClusterOK c m b) (k : String) :
    ClusterOK (deleteOp c allUp k).1 (setKey m k none) b := by
  have hlen : 0 < c.reps.length := List.length_pos_iff.2 h.nonempty
  have hup : (!anyUp c.reps.length allUp) = false := by simp [anyUp_all hlen]
  simp only [deleteOp, hup, Bool.false_eq_true, if_false]
  have ho1 := fun i => (older_ids h k i).1
  have ho2 : ∀ v, m k = some v → (k, v.rev) ∈ _ := fun v hv => (older_ids h k (k, v.rev)).2 ⟨v, hv, rfl⟩
  split
  · rename_i hemp
    have hemp' := List.isEmpty_iff.1 hemp
    refine ⟨h.nonempty, ?_, h.clk⟩
    intro s hs
    have := shard_delete_ok (t := 1) (older := []) (k := k) (h.shards s hs) (by omega)
      (by simp) (by intro v hv; have := ho2 v hv; rw [hemp'] at this; simp at this)
    rwa [markDeleted_nil] at this
  · simp only [removeIds]
    refine ⟨mapUp_ne_nil _ _ _ _ h.nonempty, ?_, by simp; have := h.clk; omega⟩
    intro s1 hs1
    obtain ⟨s, hs, j, rfl⟩ := mapUp_all _ _ _ _ hs1
    exact shard_delete_ok (h.shards s hs) (by have := h.clk; simp; omega) (fun i hi => ho1 i hi) ho2

/-- what a fault-free unordered Query answers: exactly the live values of the requested keys. -/
theorem query_ok {c : Cluster} {m : AMap} {b : Nat} (h : ClusterOK c m b) (keys : List String) (rr : Bool) :
    (∀ d, d ∈ (queryOp c allUp keys rr).2.props ↔ ∃ k ∈ keys, ∃ v, m k = some v ∧ d = docOf k v) ∧
    ((queryOp c allUp keys rr).2.props.map (·.key)).Nodup := by
  have hlen : 0 < c.reps.length := List.length_pos_iff.2 h.nonempty
  have hup : (!anyUp c.reps.length allUp) = false := by simp [anyUp_all hlen]
  simp only [queryOp, hup, Bool.false_eq_true, if_false]
  have inv := simpleDedup_inv (gather c allUp keys)
  generalize hw : simpleDedup (gather c allUp keys) = winners at inv
  have item_mem : ∀ it ∈ gather c allUp keys, ∃ s ∈ c.reps, it.2 ∈ s ∧ it.2.key ∈ keys := by
    intro it hit
    exact (mem_gather_all c keys it.2).1 (List.mem_map.2 ⟨it, hit, rfl⟩)
  -- a winner that is not deleted is the document of the abstract value
  have win_live : ∀ e ∈ winners, e.doc.del = 0 → e.doc.key ∈ keys ∧ ∃ v, m e.doc.key = some v ∧ e.doc = docOf e.doc.key v := by
    intro e he hdel
    obtain ⟨⟨a, ha, hak, har, had⟩, ⟨b', hb', hbk, hbr, hbc, hbt⟩, _⟩ := inv.good e he
    obtain ⟨s, hs, has, hakeys⟩ := item_mem a ha
    obtain ⟨s', hs', hbs, _⟩ := item_mem b' hb'
    refine ⟨hak ▸ hakeys, ?_⟩
    cases hm : m e.doc.key with
    | none =>
      have := (h.shards s hs).dead _ hm a.2 has hak
      omega
    | some v =>
      refine ⟨v, rfl, ?_⟩
      have hav : a.2 = docOf e.doc.key v := by
        rcases ((h.shards s hs).live _ v hm).2 a.2 has hak with e1 | ⟨hpos, _⟩
        · exact e1
        · omega
      have hrev : e.doc.rev = v.rev := by rw [← har, hav]; rfl
      have hbv : b'.2 = docOf e.doc.key v := by
        rcases ((h.shards s' hs').live _ v hm).2 b'.2 hbs hbk with e1 | ⟨_, hlt⟩
        · exact e1
        · omega
      rw [hbv] at hbc hbt
      cases hd : e.doc with
      | mk key rev created tags del =>
        rw [hd] at hrev hbc hbt hdel
        simp only [docOf] at hbc hbt ⊢
        simp only at hrev hbc hbt hdel
        simp [hrev, hbc, hbt, hdel]
  constructor
  · intro d
    simp only [List.mem_map, List.mem_filter]
    constructor
    · rintro ⟨e, ⟨he, hdel⟩, rfl⟩
      have hdel' : e.doc.del = 0 := by simpa using hdel
      obtain ⟨hk, v, hv, hdoc⟩ := win_live e he hdel'
      exact ⟨e.doc.key, hk, v, hv, hdoc⟩
    · rintro ⟨k, hk, v, hv, rfl⟩
      obtain ⟨s0, hs0⟩ := exists_shard h
      have hin := ((h.shards s0 hs0).live k v hv).1
      have : docOf k v ∈ (gather c allUp keys).map Prod.snd :=
        (mem_gather_all c keys _).2 ⟨s0, hs0, hin, hk⟩
      obtain ⟨it, hit, hite⟩ := List.mem_map.1 this
      obtain ⟨e, he, hek⟩ := inv.covered it hit
      have hek' : e.doc.key = k := by rw [hek, hite]; rfl
      -- the winner's version comes from some answer; it cannot be below the live value
      obtain ⟨⟨a, ha, hak, har, had⟩, _, hmax⟩ := inv.good e he
      obtain ⟨s, hs, has, _⟩ := item_mem a ha
      have hmx := hmax it hit hek.symm
      rw [hite, newer_false_iff] at hmx
      have hdel : e.doc.del = 0 := by
        rcases ((h.shards s hs).live k v hv).2 a.2 has (hak.trans hek') with e1 | ⟨_, hlt⟩
        · rw [← had, e1]; rfl
        · simp only [docOf] at hmx; omega
      obtain ⟨_, v', hv', hdoc⟩ := win_live e he hdel
      rw [hek', hv] at hv'
      cases hv'
      exact ⟨e, ⟨he, by simp [hdel]⟩, by rw [hdoc, hek']⟩
  · have hnd := inv.nodup
    have : (List.map (fun x => x.key) (List.map Entry.doc (List.filter (fun e => e.doc.del == 0) winners)))
        = (List.filter (fun e => e.doc.del == 0) winners).map (fun x => x.doc.key) := by
      simp [List.map_map, Function.comp]
    rw [this]
    exact (List.filter_sublist.map _).nodup hnd

/-! #### the system and its specification -/

theorem find?_filter_of_imp {α : Type} {l : List α} {p q : α → Bool} (h : ∀ x ∈ l, p x = true → q x = true) :
    (l.filter q).find? p = l.find? p := by
  induction l with
  | nil => rfl
  | cons a as ih =>
    have ih' := ih (fun x hx => h x (by simp [hx]))
    by_cases hq : q a = true
    · simp only [List.filter_cons, hq, if_true, List.find?_cons, ih']
    · have hp : p a = false := by
        cases hpa : p a with
        | false => rfl
        | true => exact absurd (h a (by simp) hpa) hq
      simp only [List.filter_cons, hq, Bool.false_eq_true, if_false, List.find?_cons, hp, ih']

inductive Op where
  | apply (k : String) (strat : Strategy) (tags : Tags) (now : Nat)
  | delete (k : String)

/-- the specification: a map from keys to values. -/
def AMap.step (m : AMap) : Op → AMap
  | .apply k s tags now => if tags.isEmpty then m else setKey m k (some (applyVal m k s tags now))
  | .delete k => setKey m k none

/-- the system: liaison Apply / Delete over a cluster in which every replica is reachable. -/
def sysStep (c : Cluster) : Op → Cluster
  | .apply k s tags now => (applyOp c allUp k s tags now).1
  | .delete k => (deleteOp c allUp k).1

/-- `modRevision_strict`, the clock hypothesis: the wall clock read by every Apply is strictly greater than
    the one read by every earlier Apply (`b` = last reading). -/
def ClockOK : Nat → List Op → Prop
  | _, [] => True
  | b, .apply _ _ _ now :: rest => b < now ∧ ClockOK now rest
  | b, .delete _ :: rest => ClockOK b rest

def clockEnd : Nat → List Op → Nat
  | b, [] => b
  | _, .apply _ _ _ now :: rest => clockEnd now rest
  | b, .delete _ :: rest => clockEnd b rest

def emptyCluster (n : Nat) : Cluster := { reps := List.replicate n [], clk := 1 }
def emptyMap : AMap := fun _ => none

theorem ShardOK.weaken {s : Shard} {m : AMap} {b b' : Nat} (h : ShardOK s m b) (hb : b ≤ b') : ShardOK s m b' :=
  ⟨fun d hd => Nat.le_trans (h.bound d hd) hb, h.live, h.dead⟩

theorem ClusterOK.weaken {c : Cluster} {m : AMap} {b b' : Nat} (h : ClusterOK c m b) (hb : b ≤ b') : ClusterOK c m b' :=
  ⟨h.nonempty, fun s hs => (h.shards s hs).weaken hb, h.clk⟩

theorem emptyCluster_ok {n : Nat} (hn : 0 < n) : ClusterOK (emptyCluster n) emptyMap 0 := by
  refine ⟨?_, ?_, by simp [emptyCluster]⟩
  · intro h
    have := congrArg List.length h
    simp [emptyCluster] at this; omega
  · intro s hs
    have : s = [] := by
      simp only [emptyCluster] at hs
      exact List.eq_of_mem_replicate hs
    subst this
    exact ⟨by simp, by simp [emptyMap], by simp⟩

theorem run_ok (ops : List Op) : ∀ (c : Cluster) (m : AMap) (b : Nat), ClusterOK c m b → ClockOK b ops →
    ClusterOK (ops.foldl sysStep c) (ops.foldl AMap.step m) (clockEnd b ops) := by
  induction ops with
  | nil => intro c m b h _; exact h
  | cons op rest ih =>
    intro c m b h hc
    cases op with
    | apply k s tags now =>
      obtain ⟨hb, hrest⟩ := hc
      simp only [List.foldl_cons, clockEnd]
      apply ih _ _ now _ hrest
      simp only [sysStep, AMap.step]
      cases ht : tags.isEmpty with
      | true => simp only [applyOp, ht, if_true]; exact h.weaken (Nat.le_of_lt hb)
      | false => simp only [Bool.false_eq_true, if_false]; exact (applyOp_ok h k s tags now hb ht).1
    | delete k =>
      simp only [List.foldl_cons, clockEnd]
      exact ih _ _ b (deleteOp_ok h k) hc

/-- every value of the map carries a revision that some Apply read from the clock. -/
theorem amap_bound (ops : List Op) : ∀ (m : AMap) (b : Nat), (∀ k v, m k = some v → v.rev ≤ b) → ClockOK b ops →
    ∀ k v, (ops.foldl AMap.step m) k = some v → v.rev ≤ clockEnd b ops := by
  induction ops with
  | nil => intro m b h _; exact h
  | cons op rest ih =>
    intro m b h hc
    cases op with
    | apply k s tags now =>
      obtain ⟨hb, hrest⟩ := hc
      simp only [List.foldl_cons, clockEnd]
      apply ih _ now _ hrest
      intro k' v' hv'
      simp only [AMap.step] at hv'
      split at hv'
      · have := h k' v' hv'; omega
      · simp only [setKey] at hv'
        split at hv'
        · simp only [Option.some.injEq] at hv'; subst hv'
          simp only [applyVal]; split <;> simp
        · have := h k' v' hv'; omega
    | delete k =>
      simp only [List.foldl_cons, clockEnd]
      apply ih _ b _ hc
      intro k' v' hv'
      simp only [AMap.step, setKey] at hv'
      split at hv'
      · cases hv'
      · exact h k' v' hv'


end Banyan.C18
