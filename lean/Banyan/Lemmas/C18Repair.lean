/-
C18 helper lemmas: versions, `latestOf`/`latestLast`, `upsert`, `batchUpdate`, `markDeleted`, `shard.repair` as a join on
`(revision, deleted?)`.
-/
import Banyan.Model.C18
namespace Banyan.C18

abbrev Ver := Nat × Nat
def ver (d : Doc) : Ver := (d.rev, d.del)

/-- strict order of versions: revision first, then delete time (0 = live is lowest). -/
def vlt (a b : Ver) : Prop := a.1 < b.1 ∨ (a.1 = b.1 ∧ a.2 < b.2)
instance (a b : Ver) : Decidable (vlt a b) := by unfold vlt; infer_instance

theorem newer_iff (p q : Doc) : newer p q = true ↔ vlt (ver q) (ver p) := by
  simp [newer, vlt, ver]
  omega

theorem latestOf_none {l : List Doc} : latestOf l = none ↔ l = [] := by
  cases l with
  | nil => simp [latestOf]
  | cons d ds =>
    simp only [latestOf]
    split
    · simp
    · split <;> simp

theorem latestOf_spec {l : List Doc} {e : Doc} (h : latestOf l = some e) :
    e ∈ l ∧ ∀ x ∈ l, x.rev ≤ e.rev := by
  induction l generalizing e with
  | nil => simp [latestOf] at h
  | cons d ds ih =>
    simp only [latestOf] at h
    split at h
    · rename_i hn
      rw [latestOf_none] at hn
      subst hn
      simp at h; subst h; simp
    · rename_i e' he'
      have := ih he'
      split at h
      · simp at h; subst h
        refine ⟨by simp [this.1], ?_⟩
        intro x hx
        simp at hx
        rcases hx with rfl | hx
        · omega
        · exact this.2 x hx
      · simp at h; subst h
        refine ⟨by simp, ?_⟩
        intro x hx
        simp at hx
        rcases hx with rfl | hx
        · omega
        · have := this.2 x hx; omega

theorem latestOf_unique {l : List Doc} {e : Doc} (hm : e ∈ l)
    (hmax : ∀ x ∈ l, x.rev ≤ e.rev ∧ (x.rev = e.rev → x = e)) : latestOf l = some e := by
  cases h : latestOf l with
  | none => rw [latestOf_none] at h; subst h; simp at hm
  | some e' =>
    have ⟨h1, h2⟩ := latestOf_spec h
    have a := hmax e' h1
    have b := h2 e hm
    have : e'.rev = e.rev := by omega
    rw [a.2 this]

/-! ### docsOf / upsert / markDeleted -/

theorem mem_docsOf {s : Shard} {k : String} {x : Doc} : x ∈ docsOf s k ↔ x ∈ s ∧ x.key = k := by
  simp [docsOf]

theorem docsOf_append (a b : Shard) (k : String) : docsOf (a ++ b) k = docsOf a k ++ docsOf b k := by
  simp [docsOf]

theorem id_ne_iff {x d : Doc} : (x.id != d.id) = true ↔ ¬ (x.key = d.key ∧ x.rev = d.rev) := by
  simp [Doc.id, Prod.ext_iff]

theorem mem_upsert {s : Shard} {d x : Doc} :
    x ∈ upsert s d ↔ (x ∈ s ∧ ¬ (x.key = d.key ∧ x.rev = d.rev)) ∨ x = d := by
  simp only [upsert, List.mem_append, List.mem_filter, List.mem_singleton, id_ne_iff]


/-! ### `latestLast` -/

theorem latestLast_none {l : List Doc} : latestLast l = none ↔ l = [] := by
  cases l with
  | nil => simp [latestLast]
  | cons d ds =>
    simp only [latestLast]
    split
    · simp
    · split <;> simp

theorem latestLast_spec {l : List Doc} {e : Doc} (h : latestLast l = some e) :
    e ∈ l ∧ ∀ x ∈ l, x.rev ≤ e.rev := by
  induction l generalizing e with
  | nil => simp [latestLast] at h
  | cons d ds ih =>
    simp only [latestLast] at h
    split at h
    · rename_i hn
      rw [latestLast_none] at hn
      subst hn
      simp at h; subst h; simp
    · rename_i e' he'
      have := ih he'
      split at h
      · simp at h; subst h
        refine ⟨by simp [this.1], ?_⟩
        intro x hx
        simp at hx
        rcases hx with rfl | hx
        · omega
        · exact this.2 x hx
      · simp at h; subst h
        refine ⟨by simp, ?_⟩
        intro x hx
        simp at hx
        rcases hx with rfl | hx
        · omega
        · have := this.2 x hx; omega

/-- the last document of a list is picked when nothing before it has a higher revision. -/
theorem latestLast_append_last (l : List Doc) (d : Doc) (h : ∀ x ∈ l, x.rev ≤ d.rev) :
    latestLast (l ++ [d]) = some d := by
  induction l with
  | nil => simp [latestLast]
  | cons a as ih =>
    have := ih (fun x hx => h x (by simp [hx]))
    simp only [List.cons_append, latestLast, this]
    have ha := h a (by simp)
    simp [ha]

theorem top_spec {s : Shard} {k : String} {l : Doc} (h : top s k = some l) :
    l ∈ s ∧ l.key = k ∧ ∀ x ∈ s, x.key = k → x.rev ≤ l.rev := by
  have ⟨h1, h2⟩ := latestOf_spec h
  rw [mem_docsOf] at h1
  exact ⟨h1.1, h1.2, fun x hx hk => h2 x (mem_docsOf.2 ⟨hx, hk⟩)⟩

theorem topLast_spec {s : Shard} {k : String} {l : Doc} (h : topLast s k = some l) :
    l ∈ s ∧ l.key = k ∧ ∀ x ∈ s, x.key = k → x.rev ≤ l.rev := by
  have ⟨h1, h2⟩ := latestLast_spec h
  rw [mem_docsOf] at h1
  exact ⟨h1.1, h1.2, fun x hx hk => h2 x (mem_docsOf.2 ⟨hx, hk⟩)⟩

theorem top_none {s : Shard} {k : String} : top s k = none ↔ ∀ x ∈ s, x.key ≠ k := by
  simp only [top, latestOf_none, docsOf, List.filter_eq_nil_iff]
  simp

theorem topLast_none {s : Shard} {k : String} : topLast s k = none ↔ ∀ x ∈ s, x.key ≠ k := by
  simp only [topLast, latestLast_none, docsOf, List.filter_eq_nil_iff]
  simp

theorem top_none_iff_topLast_none {s : Shard} {k : String} : top s k = none ↔ topLast s k = none := by
  rw [top_none, topLast_none]

/-- a document of key `k` with the highest revision of `k` in `s`. -/
def IsNewest (s : Shard) (k : String) (l : Doc) : Prop := l ∈ s ∧ l.key = k ∧ ∀ x ∈ s, x.key = k → x.rev ≤ l.rev

theorem isNewest_rev {s : Shard} {k : String} {a b : Doc} (ha : IsNewest s k a) (hb : IsNewest s k b) : a.rev = b.rev := by
  have h1 := ha.2.2 b hb.1 hb.2.1
  have h2 := hb.2.2 a ha.1 ha.2.1
  omega

theorem top_isSome_of_mem {s : Shard} {k : String} {x : Doc} (hx : x ∈ s) (hk : x.key = k) : ∃ l, top s k = some l := by
  cases h : top s k with
  | none => exact absurd hk (top_none.1 h x hx)
  | some l => exact ⟨l, rfl⟩

theorem top_congr {s s' : Shard} {k : String} (h : docsOf s' k = docsOf s k) : top s' k = top s k := by
  simp only [top, h]

/-! ### coarse versions: `(revision, deleted?)` -/

/-- what Query and convergence are about: the revision and whether it is a tombstone (1) or live (0). -/
def cver (d : Doc) : Ver := (d.rev, if d.del > 0 then 1 else 0)

/-- all stored documents of one key and revision agree on "deleted?" (true of every state the system reaches:
    two documents of one id are both tombstones). -/
def FlagConsistent (s : Shard) : Prop :=
  ∀ x ∈ s, ∀ y ∈ s, x.key = y.key → x.rev = y.rev → (0 < x.del ↔ 0 < y.del)

theorem cver_eq_of_newest {s : Shard} (hf : FlagConsistent s) {k : String} {a b : Doc}
    (ha : IsNewest s k a) (hb : IsNewest s k b) : cver a = cver b := by
  have hr := isNewest_rev ha hb
  have hd := hf a ha.1 b hb.1 (ha.2.1.trans hb.2.1.symm) hr
  simp only [cver, hr]
  by_cases h : 0 < a.del
  · simp [h, hd.1 h]
  · have : ¬ 0 < b.del := fun hb' => h (hd.2 hb')
    simp [h, this]

/-- newest coarse version of key `k` in shard `s`. -/
def ctopVer (s : Shard) (k : String) : Option Ver := (top s k).map cver

def vjoin : Option Ver → Option Ver → Option Ver
  | none, b => b
  | some a, none => some a
  | some a, some b => if vlt a b then some b else some a

/-- what an incoming document contributes to the newest state of key `k`. -/
def contrib (d : Doc) (k : String) : Option Ver := if d.key = k then some (cver d) else none

theorem ctopVer_of_topLast {s : Shard} (hf : FlagConsistent s) {k : String} {l : Doc} (h : topLast s k = some l) :
    ctopVer s k = some (cver l) := by
  have hl := topLast_spec h
  obtain ⟨l', hl'⟩ := top_isSome_of_mem hl.1 hl.2.1
  simp only [ctopVer, hl', Option.map_some]
  rw [cver_eq_of_newest hf (top_spec hl') hl]

/-! ### `batchUpdate`, `hits`, `markDeleted` -/

theorem mem_batchUpdate {s : Shard} {docs : List Doc} {y : Doc} :
    y ∈ batchUpdate s docs ↔ (y ∈ s ∧ ∀ z ∈ docs, z.id ≠ y.id) ∨ y ∈ docs := by
  simp only [batchUpdate, List.mem_append, List.mem_filter]
  constructor
  · rintro (⟨hy, h⟩ | h)
    · left
      refine ⟨hy, ?_⟩
      intro z hz e
      have : (docs.any fun z => z.id == y.id) = true := List.any_eq_true.2 ⟨z, hz, by simp [e]⟩
      simp [this] at h
    · exact Or.inr h
  · rintro (⟨hy, h⟩ | h)
    · left
      refine ⟨hy, ?_⟩
      have : (docs.any fun z => z.id == y.id) = false := by
        rw [List.any_eq_false]; intro z hz; simp [h z hz]
      simp [this]
    · exact Or.inr h

theorem mem_hits {s : Shard} {ids : List DocId} {x : Doc} (h : x ∈ hits s ids) : x ∈ s ∧ x.id ∈ ids := by
  have := List.mem_of_mem_take h
  simpa using this

theorem batchUpdate_nil (s : Shard) : batchUpdate s [] = s := by
  simp [batchUpdate]

theorem markDeleted_nil (s : Shard) (t : Nat) : markDeleted s [] t = s := by
  simp [markDeleted, hits, batchUpdate_nil]

theorem docsOf_batchUpdate_other {s : Shard} {docs : List Doc} {k : String} (h : ∀ z ∈ docs, z.key ≠ k) :
    docsOf (batchUpdate s docs) k = docsOf s k := by
  simp only [batchUpdate, docsOf_append]
  have : docsOf docs k = [] := by
    simp only [docsOf, List.filter_eq_nil_iff]
    intro z hz; simp [h z hz]
  rw [this, List.append_nil]
  simp only [docsOf, List.filter_filter]
  apply List.filter_congr
  intro x _
  by_cases hx : x.key = k
  · have : (docs.any fun z => z.id == x.id) = false := by
      rw [List.any_eq_false]; intro z hz
      have := h z hz
      simp [Doc.id, hx]; intro e; exact absurd e this
    simp [hx, this]
  · simp [hx]

theorem docsOf_upsert_other {s : Shard} {d : Doc} {k : String} (hk : k ≠ d.key) :
    docsOf (upsert s d) k = docsOf s k := by
  simp only [upsert, docsOf_append]
  have : docsOf [d] k = [] := by simp [docsOf]; exact fun h => hk h.symm
  rw [this, List.append_nil]
  simp only [docsOf, List.filter_filter]
  apply List.filter_congr
  intro x _
  by_cases hx : x.key = k
  · simp [hx, Doc.id, hk]
  · simp [hx]

theorem docsOf_markDeleted_other {s : Shard} {ids : List DocId} {t : Nat} {k : String}
    (hids : ∀ i ∈ ids, i.1 ≠ k) : docsOf (markDeleted s ids t) k = docsOf s k := by
  apply docsOf_batchUpdate_other
  intro z hz
  simp only [List.mem_map] at hz
  obtain ⟨x, hx, rfl⟩ := hz
  exact hids _ (mem_hits hx).2

/-- when every stored document whose id is listed is the same document `x0` (ids are unique in the shard, as in a
    fault-free run), the lookup limit does not matter and `markDeleted` rewrites exactly the listed ids. -/
theorem mem_markDeleted_uniform {s : Shard} {ids : List DocId} {t : Nat} {x0 : Doc}
    (hx0 : x0 ∈ s) (hid : x0.id ∈ ids) (huni : ∀ x ∈ s, x.id ∈ ids → x = x0) {y : Doc} :
    y ∈ markDeleted s ids t ↔
      ∃ x ∈ s, (x.id ∈ ids ∧ y = { x with del := t }) ∨ (x.id ∉ ids ∧ y = x) := by
  have hne : ids ≠ [] := by intro e; rw [e] at hid; simp at hid
  have hpos : 0 < ids.length := List.length_pos_iff.2 hne
  -- the hits are a non-empty list of copies of `x0`
  have hall : ∀ x ∈ hits s ids, x = x0 := fun x hx => huni x (mem_hits hx).1 (mem_hits hx).2
  have hmem : x0 ∈ hits s ids := by
    have hf : x0 ∈ s.filter (fun x => ids.contains x.id) := by simp [hx0, hid]
    cases hfl : s.filter (fun x => ids.contains x.id) with
    | nil => rw [hfl] at hf; simp at hf
    | cons a as =>
      have ha : a = x0 := by
        have : a ∈ s.filter (fun x => ids.contains x.id) := by rw [hfl]; simp
        have := List.mem_filter.1 this
        exact huni a this.1 (by simpa using this.2)
      simp only [hits, hfl]
      cases hn : ids.length with
      | zero => omega
      | succ n => simp [List.take, ha]
  simp only [markDeleted, mem_batchUpdate, List.mem_map]
  constructor
  · rintro (⟨hy, hz⟩ | ⟨x, hx, rfl⟩)
    · refine ⟨y, hy, Or.inr ⟨?_, rfl⟩⟩
      intro hin
      have := huni y hy hin
      exact hz (tomb t x0) ⟨x0, hmem, rfl⟩ (by rw [this]; rfl)
    · have := hall x hx
      subst this
      exact ⟨x, hx0, Or.inl ⟨hid, rfl⟩⟩
  · rintro ⟨x, hx, ⟨hin, rfl⟩ | ⟨hnin, rfl⟩⟩
    · have := huni x hx hin
      subst this
      exact Or.inr ⟨x, hmem, rfl⟩
    · left
      refine ⟨hx, ?_⟩
      rintro z ⟨w, hw, rfl⟩ e
      have hw' := hall w hw
      subst hw'
      apply hnin
      have : y.id = w.id := by rw [← e]; rfl
      rw [this]; exact hid

/-! ### `shard.repair` -/

/-- the refusal test of the (fixed) `shard.repair`. -/
def Refuses (l d : Doc) : Prop := l.rev > d.rev ∨ (l.rev = d.rev ∧ l.del ≥ d.del)

theorem refuse_iff (l d : Doc) :
    (decide (l.rev > d.rev) || (l.rev == d.rev && decide (l.del ≥ d.del))) = true ↔ Refuses l d := by
  simp [Refuses]

theorem repair_refuse {s : Shard} {d l : Doc} (t : Nat) (hl : topLast s d.key = some l)
    (h : Refuses l d) : repair s d t = (s, false, some l) := by
  simp only [repair, hl]
  rw [if_pos ((refuse_iff l d).2 h)]

theorem repair_accept_eq {s : Shard} {d l : Doc} (t : Nat) (hl : topLast s d.key = some l)
    (h : ¬ Refuses l d) : repair s d t = (batchUpdate s (repairBatch s d t), true, none) := by
  simp only [repair, hl]
  rw [if_neg (fun hh => h ((refuse_iff l d).1 hh))]

theorem repair_empty_eq {s : Shard} {d : Doc} (t : Nat) (hl : topLast s d.key = none) :
    repair s d t = (upsert s d, true, none) := by
  simp only [repair, hl]

theorem liveIds_key {docs : List Doc} {i : DocId} {k : String} (hd : ∀ x ∈ docs, x.key = k)
    (hi : i ∈ liveIds docs) : i.1 = k := by
  simp only [liveIds, List.mem_map, List.mem_filter] at hi
  obtain ⟨x, ⟨hx, _⟩, rfl⟩ := hi
  exact hd x hx

/-- every document of the batch has the key of the incoming document; the rewritten ones stem from stored ones. -/
theorem mem_repairBatch {s : Shard} {d : Doc} {t : Nat} {y : Doc} (hy : y ∈ repairBatch s d t) :
    y = d ∨ ∃ x ∈ s, x.key = d.key ∧ y = tomb t x := by
  simp only [repairBatch, List.mem_append, List.mem_map, List.mem_singleton] at hy
  rcases hy with ⟨x, hx, rfl⟩ | rfl
  · right
    have := mem_hits hx
    exact ⟨x, this.1, liveIds_key (k := d.key) (fun z hz => (mem_docsOf.1 hz).2) this.2, rfl⟩
  · exact Or.inl rfl

theorem repairBatch_key {s : Shard} {d : Doc} {t : Nat} {y : Doc} (hy : y ∈ repairBatch s d t) : y.key = d.key := by
  rcases mem_repairBatch hy with rfl | ⟨x, _, hk, rfl⟩
  · rfl
  · exact hk

theorem d_mem_repairBatch (s : Shard) (d : Doc) (t : Nat) : d ∈ repairBatch s d t := by
  simp [repairBatch]

theorem repair_other (s : Shard) (d : Doc) (t : Nat) {k : String} (hk : k ≠ d.key) :
    docsOf (repair s d t).1 k = docsOf s k := by
  simp only [repair]
  split
  · exact docsOf_upsert_other hk
  · split
    · rfl
    · apply docsOf_batchUpdate_other
      intro z hz
      rw [repairBatch_key hz]; exact fun e => hk e.symm

theorem top_upsert_newest {s : Shard} {d : Doc} (h : ∀ x ∈ s, x.key = d.key → x.rev ≤ d.rev) :
    top (upsert s d) d.key = some d := by
  apply latestOf_unique
  · rw [mem_docsOf, mem_upsert]; exact ⟨Or.inr rfl, rfl⟩
  · intro x hx
    rw [mem_docsOf, mem_upsert] at hx
    obtain ⟨hx | hx, hk⟩ := hx
    · have := h x hx.1 hk
      have h2 := hx.2
      constructor
      · exact this
      · intro e; exact absurd ⟨hk, e⟩ h2
    · subst hx; exact ⟨Nat.le_refl _, fun _ => rfl⟩

theorem vjoin_none_left (a : Option Ver) : vjoin none a = a := by cases a <;> rfl
theorem vjoin_none_right (a : Option Ver) : vjoin a none = a := by cases a <;> rfl

theorem cver_le_of_not_refuses {l d : Doc} (h : ¬ Refuses l d) : ¬ vlt (cver d) (cver l) := by
  simp only [Refuses, vlt, cver] at *
  by_cases h1 : 0 < l.del <;> by_cases h2 : 0 < d.del <;> simp [h1, h2] <;> omega

theorem cver_ge_of_refuses {l d : Doc} (h : Refuses l d) : ¬ vlt (cver l) (cver d) := by
  simp only [Refuses, vlt, cver] at *
  by_cases h1 : 0 < l.del <;> by_cases h2 : 0 < d.del <;> simp [h1, h2] <;> omega

/-- the complete description of an accepting repair (stored newest document `l` is older than the incoming `d`). -/
theorem repair_accept_spec {s : Shard} (hf : FlagConsistent s) {d l : Doc} {t : Nat} (ht : 0 < t)
    (hl : topLast s d.key = some l) (h : ¬ Refuses l d) :
    let s' := batchUpdate s (repairBatch s d t)
    (∃ n, top s' d.key = some n ∧ cver n = cver d) ∧ FlagConsistent s' ∧
    topLast s' d.key = some d := by
  intro s'
  have hls := topLast_spec hl
  have hrev : l.rev ≤ d.rev := by simp only [Refuses] at h; omega
  -- documents of the key afterwards
  have hdocs : ∀ y ∈ s', y.key = d.key → y.rev ≤ d.rev ∧ (y.rev = d.rev → cver y = cver d) := by
    intro y hy hk
    rcases mem_batchUpdate.1 hy with ⟨hys, hz⟩ | hb
    · have h1 := hls.2.2 y hys hk
      refine ⟨by omega, ?_⟩
      intro e
      exact absurd (show d.id = y.id by simp [Doc.id, hk, e]) (hz d (d_mem_repairBatch s d t))
    · rcases mem_repairBatch hb with rfl | ⟨x, hx, hxk, rfl⟩
      · exact ⟨Nat.le_refl _, fun _ => rfl⟩
      · have h1 := hls.2.2 x hx hxk
        refine ⟨by simp [tomb]; omega, ?_⟩
        intro e
        simp only [tomb] at e
        -- a stored document of revision d.rev exists, so l.rev = d.rev and the incoming one is a later tombstone
        have : l.rev = d.rev := by omega
        have hd : l.del < d.del := by simp only [Refuses] at h; omega
        have hdpos : 0 < d.del := by omega
        simp [cver, tomb, e, ht, hdpos]
  have hdin : d ∈ s' := mem_batchUpdate.2 (Or.inr (d_mem_repairBatch s d t))
  refine ⟨?_, ?_, ?_⟩
  · obtain ⟨n, hn⟩ := top_isSome_of_mem hdin rfl
    have hns := top_spec hn
    have h1 := hdocs n hns.1 hns.2.1
    have h2 := hns.2.2 d hdin rfl
    exact ⟨n, hn, h1.2 (by omega)⟩
  · intro x hx y hy hk hr
    -- classify both
    by_cases hxk : x.key = d.key
    · have hyk : y.key = d.key := hk ▸ hxk
      rcases mem_batchUpdate.1 hx with ⟨hxs, hxz⟩ | hxb <;> rcases mem_batchUpdate.1 hy with ⟨hys, hyz⟩ | hyb
      · exact hf x hxs y hys hk hr
      · rcases mem_repairBatch hyb with rfl | ⟨w, hw, hwk, rfl⟩
        · exact absurd (show y.id = x.id by simp [Doc.id, hk, hr]) (hxz y (d_mem_repairBatch s y t))
        · exact absurd (show (tomb t w).id = x.id by simp [Doc.id, tomb] at hk hr ⊢; exact ⟨hk.symm, hr.symm⟩) (hxz _ hyb)
      · rcases mem_repairBatch hxb with rfl | ⟨w, hw, hwk, rfl⟩
        · exact absurd (show x.id = y.id by simp [Doc.id, hk, hr]) (hyz x (d_mem_repairBatch s x t))
        · exact absurd (show (tomb t w).id = y.id by simp [Doc.id, tomb] at hk hr ⊢; exact ⟨hk, hr⟩) (hyz _ hxb)
      · -- both from the batch: same revision ⇒ same flag
        have hx1 := hdocs x hx hxk
        have hy1 := hdocs y hy hyk
        rcases mem_repairBatch hxb with rfl | ⟨w, hw, hwk, rfl⟩ <;> rcases mem_repairBatch hyb with rfl | ⟨v, hv, hvk, rfl⟩
        · exact Iff.rfl
        · have := hy1.2 hr.symm
          simp only [cver, tomb] at this
          simp only [tomb]
          constructor
          · intro _; exact ht
          · intro _
            by_cases hp : 0 < x.del
            · exact hp
            · simp [ht, hp] at this
        · have := hx1.2 hr
          simp only [cver, tomb] at this
          simp only [tomb]
          constructor
          · intro _
            by_cases hp : 0 < y.del
            · exact hp
            · simp [ht, hp] at this
          · intro _; exact ht
        · simp [tomb, ht]
    · -- another key: both are untouched stored documents
      have hyk : y.key ≠ d.key := fun e => hxk (hk.trans e)
      have hxs : x ∈ s := by
        rcases mem_batchUpdate.1 hx with ⟨h1, _⟩ | hb
        · exact h1
        · exact absurd (repairBatch_key hb) hxk
      have hys : y ∈ s := by
        rcases mem_batchUpdate.1 hy with ⟨h1, _⟩ | hb
        · exact h1
        · exact absurd (repairBatch_key hb) hyk
      exact hf x hxs y hys hk hr
  · -- the incoming document is the last one of the shard and has the highest revision
    have : docsOf s' d.key = docsOf (s.filter (fun x => !((repairBatch s d t).any fun y => y.id == x.id)) ++
        (hits s (liveIds (docsOf s d.key))).map (tomb t)) d.key ++ [d] := by
      simp only [s', batchUpdate, repairBatch, ← List.append_assoc, docsOf_append]
      simp [docsOf]
    simp only [topLast, this]
    apply latestLast_append_last
    intro x hx
    have hx' : x ∈ s' ∧ x.key = d.key := by
      rw [mem_docsOf] at hx
      refine ⟨?_, hx.2⟩
      simp only [s', batchUpdate, repairBatch, ← List.append_assoc]
      exact List.mem_append_left _ hx.1
    exact (hdocs x hx'.1 hx'.2).1

theorem repair_empty_spec {s : Shard} (hf : FlagConsistent s) {d : Doc} (hl : topLast s d.key = none) :
    top (upsert s d) d.key = some d ∧ FlagConsistent (upsert s d) ∧ topLast (upsert s d) d.key = some d := by
  have hno := topLast_none.1 hl
  refine ⟨top_upsert_newest (fun x hx hk => absurd hk (hno x hx)), ?_, ?_⟩
  · intro x hx y hy hk hr
    rcases mem_upsert.1 hx with ⟨hxs, _⟩ | rfl <;> rcases mem_upsert.1 hy with ⟨hys, _⟩ | rfl
    · exact hf x hxs y hys hk hr
    · exact absurd hk (hno x hxs)
    · exact absurd hk.symm (hno y hys)
    · exact Iff.rfl
  · have : docsOf (upsert s d) d.key = docsOf (s.filter (fun x => x.id != d.id)) d.key ++ [d] := by
      simp [upsert, docsOf_append, docsOf]
    simp only [topLast, this]
    apply latestLast_append_last
    intro x hx
    rw [mem_docsOf] at hx
    exact absurd hx.2 (hno x (List.mem_filter.1 hx.1).1)

theorem vjoin_of_le {a b : Ver} (h : ¬ vlt b a) : vjoin (some a) (some b) = some b ∨ (a = b) := by
  by_cases h1 : vlt a b
  · left; simp [vjoin, h1]
  · right
    simp only [vlt] at h h1
    apply Prod.ext <;> omega

/-- `repair_join` at the level the property talks about: with flag-consistent storage, `shard.repair` moves the
    newest `(revision, deleted?)` of the key to the join with the incoming one, keeps storage flag-consistent, and
    leaves other keys alone. -/
theorem repair_ctopVer {s : Shard} (hf : FlagConsistent s) (d : Doc) {t : Nat} (ht : 0 < t) :
    ctopVer (repair s d t).1 d.key = vjoin (ctopVer s d.key) (some (cver d)) ∧ FlagConsistent (repair s d t).1 := by
  cases hl : topLast s d.key with
  | none =>
    have := repair_empty_spec hf hl
    rw [repair_empty_eq t hl]
    refine ⟨?_, this.2.1⟩
    have hn : top s d.key = none := top_none_iff_topLast_none.2 hl
    simp [ctopVer, this.1, hn, vjoin]
  | some l =>
    have hc := ctopVer_of_topLast hf hl
    by_cases h : Refuses l d
    · rw [repair_refuse t hl h]
      refine ⟨?_, hf⟩
      rw [hc]
      have := cver_ge_of_refuses h
      simp [vjoin, this]
    · rw [repair_accept_eq t hl h]
      obtain ⟨⟨n, hn, hcn⟩, hf', _⟩ := repair_accept_spec hf ht hl h
      refine ⟨?_, hf'⟩
      rw [hc]
      simp only [ctopVer, hn, Option.map_some, hcn]
      rcases vjoin_of_le (cver_le_of_not_refuses h) with e | e
      · exact e.symm
      · rw [e]; simp [vjoin, vlt]

theorem repair_ctopVer_other (s : Shard) (d : Doc) (t : Nat) {k : String} (hk : k ≠ d.key) :
    ctopVer (repair s d t).1 k = ctopVer s k := by
  simp only [ctopVer, top_congr (repair_other s d t hk)]

/-- content (everything but the delete time) is never invented: every document after a repair has the key,
    revision, create revision and tags of the incoming document or of a stored one. -/
def SameContent (x y : Doc) : Prop := x.key = y.key ∧ x.rev = y.rev ∧ x.created = y.created ∧ x.tags = y.tags

theorem repair_origin (s : Shard) (d : Doc) (t : Nat) {y : Doc} (hy : y ∈ (repair s d t).1) :
    SameContent d y ∨ ∃ x ∈ s, SameContent x y := by
  simp only [repair] at hy
  split at hy
  · rcases mem_upsert.1 hy with ⟨h, _⟩ | rfl
    · exact Or.inr ⟨y, h, rfl, rfl, rfl, rfl⟩
    · exact Or.inl ⟨rfl, rfl, rfl, rfl⟩
  · split at hy
    · exact Or.inr ⟨y, hy, rfl, rfl, rfl, rfl⟩
    · rcases mem_batchUpdate.1 hy with ⟨h, _⟩ | hb
      · exact Or.inr ⟨y, h, rfl, rfl, rfl, rfl⟩
      · rcases mem_repairBatch hb with rfl | ⟨x, hx, _, rfl⟩
        · exact Or.inl ⟨rfl, rfl, rfl, rfl⟩
        · exact Or.inr ⟨x, hx, rfl, rfl, rfl, rfl⟩

end Banyan.C18
