/-
C18 helper lemmas: versions, `latestOf`, `upsert`, `markDeleted`, `shard.repair` as a join.
-/
import Banyan.Model.C18
namespace Banyan.C18

abbrev Ver := Nat × Nat
def ver (d : Doc) : Ver := (d.rev, d.del)

/-- strict order of versions: revision first, then delete time (0 = live is lowest). -/
def vlt (a b : Ver) : Prop := a.1 < b.1 ∨ (a.1 = b.1 ∧ a.2 < b.2)
instance (a b : Ver) : Decidable (vlt a b) := by unfold vlt; infer_instance

theorem newer_iff (p q : Doc) : newer p q = true ↔ vlt (ver q) (ver p) := by
  simp [newer, vlt, ver]
  omega

theorem latestOf_none {l : List Doc} : latestOf l = none ↔ l = [] := by
  cases l with
  | nil => simp [latestOf]
  | cons d ds =>
    simp only [latestOf]
    split
    · simp
    · split <;> simp

theorem latestOf_spec {l : List Doc} {e : Doc} (h : latestOf l = some e) :
    e ∈ l ∧ ∀ x ∈ l, x.rev ≤ e.rev := by
  induction l generalizing e with
  | nil => simp [latestOf] at h
  | cons d ds ih =>
    simp only [latestOf] at h
    split at h
    · rename_i hn
      rw [latestOf_none] at hn
      subst hn
      simp at h; subst h; simp
    · rename_i e' he'
      have := ih he'
      split at h
      · simp at h; subst h
        refine ⟨by simp [this.1], ?_⟩
        intro x hx
        simp at hx
        rcases hx with rfl | hx
        · omega
        · exact this.2 x hx
      · simp at h; subst h
        refine ⟨by simp, ?_⟩
        intro x hx
        simp at hx
        rcases hx with rfl | hx
        · omega
        · have := this.2 x hx; omega

theorem latestOf_unique {l : List Doc} {e : Doc} (hm : e ∈ l)
    (hmax : ∀ x ∈ l, x.rev ≤ e.rev ∧ (x.rev = e.rev → x = e)) : latestOf l = some e := by
  cases h : latestOf l with
  | none => rw [latestOf_none] at h; subst h; simp at hm
  | some e' =>
    have ⟨h1, h2⟩ := latestOf_spec h
    have a := hmax e' h1
    have b := h2 e hm
    have : e'.rev = e.rev := by omega
    rw [a.2 this]

/-! ### docsOf / upsert / markDeleted -/

theorem mem_docsOf {s : Shard} {k : String} {x : Doc} : x ∈ docsOf s k ↔ x ∈ s ∧ x.key = k := by
  simp [docsOf]

theorem docsOf_append (a b : Shard) (k : String) : docsOf (a ++ b) k = docsOf a k ++ docsOf b k := by
  simp [docsOf]

theorem id_ne_iff {x d : Doc} : (x.id != d.id) = true ↔ ¬ (x.key = d.key ∧ x.rev = d.rev) := by
  simp [Doc.id, Prod.ext_iff]

theorem mem_upsert {s : Shard} {d x : Doc} :
    x ∈ upsert s d ↔ (x ∈ s ∧ ¬ (x.key = d.key ∧ x.rev = d.rev)) ∨ x = d := by
  simp only [upsert, List.mem_append, List.mem_filter, List.mem_singleton, id_ne_iff]

/-- `markDeleted` only changes delete times. -/
def sameButDel (x y : Doc) : Prop := x.key = y.key ∧ x.rev = y.rev ∧ x.created = y.created ∧ x.tags = y.tags

theorem mem_markDeleted {s : Shard} {ids : List DocId} {t : Nat} {y : Doc} :
    y ∈ markDeleted s ids t ↔
      ∃ x ∈ s, (x.id ∈ ids ∧ y = { x with del := t }) ∨ (x.id ∉ ids ∧ y = x) := by
  simp only [markDeleted, List.mem_map, List.contains_iff_mem]
  constructor
  · rintro ⟨x, hx, rfl⟩
    refine ⟨x, hx, ?_⟩
    by_cases h : x.id ∈ ids
    · left; simp [h]
    · right; simp [h]
  · rintro ⟨x, hx, h⟩
    refine ⟨x, hx, ?_⟩
    rcases h with ⟨h, rfl⟩ | ⟨h, rfl⟩
    · simp [h]
    · simp [h]

/-! ### `shard.repair` -/

def topVer (s : Shard) (k : String) : Option Ver := (top s k).map ver

def vjoin : Option Ver → Option Ver → Option Ver
  | none, b => b
  | some a, none => some a
  | some a, some b => if vlt a b then some b else some a

/-- the refusal test of the (fixed) `shard.repair` is "the incoming document is not newer". -/
theorem refuse_iff (l d : Doc) :
    (decide (l.rev > d.rev) || (l.rev == d.rev && decide (l.del ≥ d.del))) = true ↔ ¬ vlt (ver l) (ver d) := by
  simp [vlt, ver]
  omega

theorem repair_refuse {s : Shard} {d l : Doc} (t : Nat) (hl : top s d.key = some l)
    (h : ¬ vlt (ver l) (ver d)) : repair s d t = (s, false, some l) := by
  simp only [repair, hl]
  rw [if_pos ((refuse_iff l d).2 h)]

theorem docsOf_upsert_other {s : Shard} {d : Doc} {k : String} (hk : k ≠ d.key) :
    docsOf (upsert s d) k = docsOf s k := by
  simp only [upsert, docsOf_append]
  have : docsOf [d] k = [] := by simp [docsOf]; exact fun h => hk h.symm
  rw [this, List.append_nil]
  simp only [docsOf, List.filter_filter]
  apply List.filter_congr
  intro x _
  by_cases hx : x.key = k
  · simp [hx, Doc.id, hk]
  · simp [hx]

theorem docsOf_map_keep {s : Shard} {f : Doc → Doc} {k : String}
    (hf : ∀ x, (f x).key = x.key ∧ (x.key = k → f x = x)) : docsOf (s.map f) k = docsOf s k := by
  induction s with
  | nil => rfl
  | cons x xs ih =>
    have ih' : List.filter (fun d => d.key == k) (List.map f xs) = List.filter (fun d => d.key == k) xs := ih
    by_cases hx : x.key = k
    · simp [docsOf, hx, (hf x).2 hx, ih']
    · simp [docsOf, (hf x).1, hx, ih']

theorem docsOf_markDeleted_other {s : Shard} {ids : List DocId} {t : Nat} {k : String}
    (hids : ∀ i ∈ ids, i.1 ≠ k) : docsOf (markDeleted s ids t) k = docsOf s k := by
  apply docsOf_map_keep
  intro x
  constructor
  · split <;> rfl
  · intro hx
    have : x.id ∉ ids := fun h => hids _ h hx
    simp [this]

theorem liveIdsExcept_key {docs : List Doc} {id i : DocId} {k : String} (hd : ∀ x ∈ docs, x.key = k)
    (hi : i ∈ liveIdsExcept docs id) : i.1 = k := by
  simp only [liveIdsExcept, List.mem_map, List.mem_filter] at hi
  obtain ⟨x, ⟨hx, _⟩, rfl⟩ := hi
  exact hd x hx

theorem repair_other (s : Shard) (d : Doc) (t : Nat) {k : String} (hk : k ≠ d.key) :
    docsOf (repair s d t).1 k = docsOf s k := by
  simp only [repair]
  split
  · exact docsOf_upsert_other hk
  · split
    · rfl
    · rw [docsOf_upsert_other hk, docsOf_markDeleted_other]
      intro i hi
      have := liveIdsExcept_key (k := d.key) (fun x hx => (mem_docsOf.1 hx).2) hi
      rw [this]; exact fun h => hk h.symm


theorem top_upsert_newest {s : Shard} {d : Doc} (h : ∀ x ∈ s, x.key = d.key → x.rev ≤ d.rev) :
    top (upsert s d) d.key = some d := by
  apply latestOf_unique
  · rw [mem_docsOf, mem_upsert]; exact ⟨Or.inr rfl, rfl⟩
  · intro x hx
    rw [mem_docsOf, mem_upsert] at hx
    obtain ⟨hx | hx, hk⟩ := hx
    · have := h x hx.1 hk
      have h2 := hx.2
      constructor
      · exact this
      · intro e; exact absurd ⟨hk, e⟩ h2
    · subst hx; exact ⟨Nat.le_refl _, fun _ => rfl⟩

theorem top_spec {s : Shard} {k : String} {l : Doc} (h : top s k = some l) :
    l ∈ s ∧ l.key = k ∧ ∀ x ∈ s, x.key = k → x.rev ≤ l.rev := by
  have ⟨h1, h2⟩ := latestOf_spec h
  rw [mem_docsOf] at h1
  exact ⟨h1.1, h1.2, fun x hx hk => h2 x (mem_docsOf.2 ⟨hx, hk⟩)⟩

theorem top_none {s : Shard} {k : String} : top s k = none ↔ ∀ x ∈ s, x.key ≠ k := by
  simp only [top, latestOf_none, docsOf, List.filter_eq_nil_iff]
  simp

theorem repair_accept {s : Shard} {d l : Doc} (t : Nat) (hl : top s d.key = some l)
    (h : vlt (ver l) (ver d)) :
    top (repair s d t).1 d.key = some d ∧ (repair s d t).2 = (true, none) := by
  have hr : ¬ ((decide (l.rev > d.rev) || (l.rev == d.rev && decide (l.del ≥ d.del))) = true) := by
    rw [refuse_iff]; exact fun hn => hn h
  simp only [repair, hl, if_neg hr, and_true]
  apply top_upsert_newest
  intro y hy hk
  rw [mem_markDeleted] at hy
  obtain ⟨x, hx, hy⟩ := hy
  have hkx : x.key = d.key ∧ y.rev = x.rev := by
    rcases hy with ⟨_, rfl⟩ | ⟨_, rfl⟩
    · exact ⟨hk, rfl⟩
    · exact ⟨hk, rfl⟩
  have := (top_spec hl).2.2 x hx hkx.1
  have hv : l.rev ≤ d.rev := by
    simp only [vlt, ver] at h; omega
  omega

theorem repair_empty {s : Shard} {d : Doc} (t : Nat) (hl : top s d.key = none) :
    top (repair s d t).1 d.key = some d ∧ (repair s d t).2 = (true, none) := by
  simp only [repair, hl, and_true]
  apply top_upsert_newest
  intro x hx hk
  exact absurd hk (top_none.1 hl x hx)

theorem top_congr {s s' : Shard} {k : String} (h : docsOf s' k = docsOf s k) : top s' k = top s k := by
  simp only [top, h]

/-- `shard.repair` computes the join of the stored newest state and the incoming one. -/
theorem repair_topVer (s : Shard) (d : Doc) (t : Nat) :
    topVer (repair s d t).1 d.key = vjoin (topVer s d.key) (some (ver d)) := by
  cases hl : top s d.key with
  | none => simp [topVer, (repair_empty t hl).1, hl, vjoin]
  | some l =>
    by_cases h : vlt (ver l) (ver d)
    · simp [topVer, (repair_accept t hl h).1, hl, vjoin, h]
    · simp [topVer, repair_refuse t hl h, hl, vjoin, h]

theorem repair_topVer_other (s : Shard) (d : Doc) (t : Nat) {k : String} (hk : k ≠ d.key) :
    topVer (repair s d t).1 k = topVer s k := by
  simp only [topVer, top_congr (repair_other s d t hk)]

/-- the newest document after a repair is the incoming one or the one that was there. -/
theorem repair_top_cases (s : Shard) (d : Doc) (t : Nat) :
    top (repair s d t).1 d.key = some d ∨ top (repair s d t).1 d.key = top s d.key := by
  cases hl : top s d.key with
  | none => exact Or.inl (repair_empty t hl).1
  | some l =>
    by_cases h : vlt (ver l) (ver d)
    · exact Or.inl (repair_accept t hl h).1
    · right; rw [repair_refuse t hl h, hl]

end Banyan.C18
