/-
Lemmas for C19: the table protocol invariant `Table.WF` (every file part of a live snapshot has its complete
directory on disk; ids are unique and fresh) and its preservation by every transition.
-/
import Banyan.Model.C19

namespace Banyan.C19

/-- every file part of `s` has its (complete) directory in `disk`. -/
def Snap.onDisk (s : Snap) (disk : List DiskPart) : Prop :=
  ∀ pw ∈ s.parts, pw.mem = false → pw.toDisk ∈ disk

/-- protocol invariant of a table (the part that C19 relies on). -/
structure Table.WF (t : Table) : Prop where
  live_on_disk : ∀ s ∈ t.live, s.onDisk t.disk
  disk_nodup : (t.disk.map (·.id)).Nodup
  disk_le : ∀ d ∈ t.disk, d.id ≤ t.nextId
  cur_nodup : ∀ s, t.cur = some s → (s.parts.map (·.id)).Nodup
  cur_le : ∀ s, t.cur = some s → ∀ pw ∈ s.parts, pw.id ≤ t.nextId
  mem_fresh : ∀ s, t.cur = some s → ∀ pw ∈ s.parts, pw.mem = true → pw.id ∉ t.disk.map (·.id)

theorem holdsFile_of_mem {s : Snap} {pw : PW} (h : pw ∈ s.parts) (hm : pw.mem = false) :
    s.holdsFile pw.id = true := by
  unfold Snap.holdsFile
  rw [List.any_eq_true]
  exact ⟨pw, h, by simp [hm]⟩

theorem not_dead_of_live {t : Table} {s : Snap} {pw : PW} (hs : s ∈ t.live) (h : pw ∈ s.parts)
    (hm : pw.mem = false) : t.dead pw.id = false := by
  unfold Table.dead
  have : t.live.any (·.holdsFile pw.id) = true := by
    rw [List.any_eq_true]; exact ⟨s, hs, holdsFile_of_mem h hm⟩
  simp [this]

theorem gc_live (t : Table) : t.gc.live = t.live := rfl

theorem wf_gc {t : Table} (h : t.WF) : t.gc.WF := by
  refine ⟨?_, ?_, ?_, h.cur_nodup, h.cur_le, ?_⟩
  · intro s hs pw hp hm
    show pw.toDisk ∈ t.disk.filter _
    rw [List.mem_filter]
    refine ⟨h.live_on_disk s hs pw hp hm, ?_⟩
    have := not_dead_of_live (t := t) hs hp hm
    simpa [PW.toDisk] using this
  · show ((t.disk.filter _).map _).Nodup
    exact (h.disk_nodup).sublist ((List.filter_sublist).map _)
  · intro d hd
    exact h.disk_le d (List.mem_filter.mp hd).1
  · intro s hs pw hp hm hin
    apply h.mem_fresh s hs pw hp hm
    show pw.id ∈ t.disk.map _
    have : (t.gc.disk.map (·.id)).Sublist (t.disk.map (·.id)) := (List.filter_sublist).map _
    exact this.subset hin


theorem wf_replaceSnapshot {t : Table} {parts : List PW} {persist : Bool}
    (hpins : ∀ s ∈ t.pins, s.onDisk t.disk)
    (hparts : ∀ pw ∈ parts, pw.mem = false → pw.toDisk ∈ t.disk)
    (hnd : (t.disk.map (·.id)).Nodup)
    (hle : ∀ d ∈ t.disk, d.id ≤ t.nextId)
    (hpn : (parts.map (·.id)).Nodup)
    (hpl : ∀ pw ∈ parts, pw.id ≤ t.nextId)
    (hmf : ∀ pw ∈ parts, pw.mem = true → pw.id ∉ t.disk.map (·.id)) :
    (t.replaceSnapshot parts persist).WF := by
  unfold Table.replaceSnapshot
  apply wf_gc
  refine ⟨?_, hnd, hle, ?_, ?_, ?_⟩
  · intro s hs
    simp only [Table.live, Option.toList, List.cons_append, List.nil_append, List.mem_cons] at hs
    rcases hs with rfl | hs
    · exact hparts
    · exact hpins s hs
  · intro s hs; simp only [Option.some.injEq] at hs; subst hs; exact hpn
  · intro s hs; simp only [Option.some.injEq] at hs; subst hs; exact hpl
  · intro s hs; simp only [Option.some.injEq] at hs; subst hs; exact hmf

theorem pins_on_disk {t : Table} (h : t.WF) : ∀ s ∈ t.pins, s.onDisk t.disk := by
  intro s hs; exact h.live_on_disk s (by simp [Table.live, hs])

theorem cur_on_disk {t : Table} (h : t.WF) {s : Snap} (hc : t.cur = some s) : s.onDisk t.disk :=
  h.live_on_disk s (by simp [Table.live, hc])

theorem wf_introduce {t : Table} (h : t.WF) (k : Nat) : (t.introduce k).WF := by
  unfold Table.introduce
  apply wf_replaceSnapshot
  · exact pins_on_disk (t := t) h
  · intro pw hp hm
    rw [List.mem_append] at hp
    rcases hp with hp | hp
    · cases hc : t.cur with
      | none => simp [hc] at hp
      | some s => simp only [hc] at hp; exact cur_on_disk h hc pw hp hm
    · simp at hp; subst hp; simp at hm
  · exact h.disk_nodup
  · intro d hd; have := h.disk_le d hd; simp only; omega
  · rw [List.map_append, List.nodup_append]
    refine ⟨?_, by simp, ?_⟩
    · cases hc : t.cur with
      | none => simp
      | some s => exact h.cur_nodup s hc
    · intro a ha b hb
      simp at hb; subst hb
      cases hc : t.cur with
      | none => simp [hc] at ha
      | some s =>
        simp only [hc, List.mem_map] at ha
        obtain ⟨pw, hp, rfl⟩ := ha
        have := h.cur_le s hc pw hp; omega
  · intro pw hp
    rw [List.mem_append] at hp
    rcases hp with hp | hp
    · cases hc : t.cur with
      | none => simp [hc] at hp
      | some s => simp only [hc] at hp; have := h.cur_le s hc pw hp; simp only; omega
    · simp at hp; subst hp; simp
  · intro pw hp hm hin
    rw [List.mem_append] at hp
    rcases hp with hp | hp
    · cases hc : t.cur with
      | none => simp [hc] at hp
      | some s => simp only [hc] at hp; exact h.mem_fresh s hc pw hp hm hin
    · simp at hp; subst hp
      simp only [List.mem_map] at hin
      obtain ⟨d, hd, hid⟩ := hin
      have := h.disk_le d hd
      have h2 : d.id = t.nextId + 1 := hid
      omega

theorem wf_flush {t : Table} (h : t.WF) : t.flush.WF := by
  unfold Table.flush
  cases hc : t.cur with
  | none => simpa using h
  | some s =>
    simp only
    split
    · exact h
    · apply wf_replaceSnapshot
      · intro s' hs' pw hp hm
        exact List.mem_append_left _ (pins_on_disk (t := t) h s' hs' pw hp hm)
      · intro pw' hp' _
        rw [List.mem_map] at hp'
        obtain ⟨pw, hp, rfl⟩ := hp'
        show PW.toDisk { pw with mem := false } ∈ t.disk ++ s.memParts.map PW.toDisk
        have e : PW.toDisk { pw with mem := false } = pw.toDisk := rfl
        rw [e]
        cases hm : pw.mem with
        | true =>
          apply List.mem_append_right
          exact List.mem_map_of_mem (List.mem_filter.mpr ⟨hp, hm⟩)
        | false => exact List.mem_append_left _ (cur_on_disk h hc pw hp hm)
      · show ((t.disk ++ s.memParts.map PW.toDisk).map (·.id)).Nodup
        rw [List.map_append, List.nodup_append]
        refine ⟨h.disk_nodup, ?_, ?_⟩
        · rw [List.map_map]
          have : (s.memParts.map ((·.id) ∘ PW.toDisk)) = s.memParts.map (·.id) := rfl
          rw [this]
          exact (h.cur_nodup s hc).sublist ((List.filter_sublist).map _)
        · intro a ha b hb hab
          subst hab
          rw [List.map_map, List.mem_map] at hb
          obtain ⟨pw, hp, rfl⟩ := hb
          have hp' := List.mem_filter.mp hp
          exact h.mem_fresh s hc pw hp'.1 hp'.2 ha
      · intro d hd
        show d.id ≤ t.nextId
        rw [List.mem_append] at hd
        rcases hd with hd | hd
        · exact h.disk_le d hd
        · rw [List.mem_map] at hd
          obtain ⟨pw, hp, rfl⟩ := hd
          exact h.cur_le s hc pw (List.mem_filter.mp hp).1
      · rw [List.map_map]
        have : (s.parts.map ((·.id) ∘ fun pw => { pw with mem := false })) = s.parts.map (·.id) := rfl
        rw [this]; exact h.cur_nodup s hc
      · intro pw' hp'
        rw [List.mem_map] at hp'
        obtain ⟨pw, hp, rfl⟩ := hp'
        exact h.cur_le s hc pw hp
      · intro pw' hp' hm
        rw [List.mem_map] at hp'
        obtain ⟨pw, hp, rfl⟩ := hp'
        simp at hm

theorem wf_merge {t : Table} (h : t.WF) (pos : List Nat) : (t.merge pos).WF := by
  unfold Table.merge
  cases hc : t.cur with
  | none => simpa using h
  | some s =>
    simp only
    split
    · exact h
    · apply wf_replaceSnapshot
      · intro s' hs' pw hp hm
        exact List.mem_append_left _ (pins_on_disk (t := t) h s' hs' pw hp hm)
      · intro pw hp hm
        rw [List.mem_append] at hp
        rcases hp with hp | hp
        · exact List.mem_append_left _ (cur_on_disk h hc pw (List.mem_filter.mp hp).1 hm)
        · simp only [List.mem_singleton] at hp; subst hp
          exact List.mem_append_right _ (List.mem_singleton.mpr rfl)
      · show ((t.disk ++ [PW.toDisk _]).map (fun d : DiskPart => d.id)).Nodup
        rw [List.map_append, List.nodup_append]
        refine ⟨h.disk_nodup, by simp, ?_⟩
        intro a ha b hb hab
        subst hab
        simp only [List.map_cons, List.map_nil, List.mem_singleton] at hb
        rw [List.mem_map] at ha
        obtain ⟨d, hd, hid⟩ := ha
        have := h.disk_le d hd
        have h2 : d.id = t.nextId + 1 := hid.trans hb
        omega
      · intro d hd
        show d.id ≤ t.nextId + 1
        rw [List.mem_append] at hd
        rcases hd with hd | hd
        · have := h.disk_le d hd; omega
        · simp only [List.mem_singleton] at hd; subst hd; exact Nat.le_refl _
      · rw [List.map_append, List.nodup_append]
        refine ⟨(h.cur_nodup s hc).sublist ((List.filter_sublist).map _), by simp, ?_⟩
        intro a ha b hb hab
        subst hab
        simp only [List.map_cons, List.map_nil, List.mem_singleton] at hb
        rw [List.mem_map] at ha
        obtain ⟨pw, hp, hid⟩ := ha
        have := h.cur_le s hc pw (List.mem_filter.mp hp).1
        omega
      · intro pw hp
        show pw.id ≤ t.nextId + 1
        rw [List.mem_append] at hp
        rcases hp with hp | hp
        · have := h.cur_le s hc pw (List.mem_filter.mp hp).1; omega
        · simp only [List.mem_singleton] at hp; subst hp; exact Nat.le_refl _
      · intro pw hp hm hin
        rw [List.mem_append] at hp
        rcases hp with hp | hp
        · have hp' := (List.mem_filter.mp hp).1
          have hin' : pw.id ∈ (t.disk ++ [PW.toDisk ⟨t.nextId + 1, false, _⟩]).map (·.id) := hin
          rw [List.map_append, List.mem_append] at hin'
          rcases hin' with hin' | hin'
          · exact h.mem_fresh s hc pw hp' hm hin'
          · simp only [List.map_cons, List.map_nil, List.mem_singleton] at hin'
            have := h.cur_le s hc pw hp'
            have h2 : pw.id = t.nextId + 1 := hin'
            omega
        · simp only [List.mem_singleton] at hp; subst hp; simp at hm

theorem wf_step {t : Table} (h : t.WF) (op : MOp) : (t.step op).WF := by
  cases op with
  | introduce k => exact wf_introduce h k
  | flush => exact wf_flush h
  | merge pos => exact wf_merge h pos

theorem wf_run {t : Table} (h : t.WF) (ops : List MOp) : (t.run ops).WF := by
  induction ops generalizing t with
  | nil => exact h
  | cons op rest ih => exact ih (wf_step h op)

theorem wf_empty : ({} : Table).WF := by
  refine ⟨?_, by simp, by simp, by simp, by simp, by simp⟩
  intro s hs; simp [Table.live] at hs

theorem find_toDisk : ∀ {disk : List DiskPart}, (disk.map (·.id)).Nodup → ∀ {pw : PW}, pw.toDisk ∈ disk →
    disk.find? (fun d => d.id == pw.id) = some pw.toDisk
  | [], _, _, h => by simp at h
  | d :: rest, hnd, pw, h => by
    rw [List.map_cons, List.nodup_cons] at hnd
    rw [List.find?_cons]
    by_cases hd : d.id = pw.id
    · have : d = pw.toDisk := by
        rcases List.mem_cons.mp h with h | h
        · exact h.symm
        · exfalso; apply hnd.1
          rw [List.mem_map]; exact ⟨pw.toDisk, h, hd.symm⟩
      have hb : (d.id == pw.id) = true := by simpa using hd
      rw [hb, this]
    · have hne : (d.id == pw.id) = false := by simpa using hd
      rw [hne]
      rcases List.mem_cons.mp h with h | h
      · exfalso; apply hd; rw [← h]; rfl
      · exact find_toDisk hnd.2 h

/-- what `TakeFileSnapshot` relies on while it runs: the table invariant, and that its pin is still there. -/
def Holds {σ : Type} (L : Lens σ) (S : Snap) (st : σ) : Prop := (L.get st).WF ∧ S ∈ (L.get st).pins

theorem wf_pin {t : Table} (h : t.WF) {S : Snap} (hc : t.cur = some S) : (t.pin S).WF := by
  refine ⟨?_, h.disk_nodup, h.disk_le, h.cur_nodup, h.cur_le, h.mem_fresh⟩
  intro s hs
  have : s ∈ t.live := by
    simp only [Table.live, Table.pin, List.mem_append, List.mem_cons] at hs ⊢
    rcases hs with hs | hs | hs
    · exact Or.inl hs
    · subst hs; left; simp [hc]
    · exact Or.inr hs
  exact h.live_on_disk s this

theorem wf_unpin {t : Table} (h : t.WF) (S : Snap) : (t.unpin S).WF := by
  unfold Table.unpin
  apply wf_gc
  refine ⟨?_, h.disk_nodup, h.disk_le, h.cur_nodup, h.cur_le, h.mem_fresh⟩
  intro s hs
  have : s ∈ t.live := by
    simp only [Table.live, List.mem_append] at hs ⊢
    rcases hs with hs | hs
    · exact Or.inl hs
    · exact Or.inr (List.mem_of_mem_erase hs)
  exact h.live_on_disk s this

theorem linkLoop_ok {σ : Type} (L : Lens σ) (hook : Nat → σ → σ) (Env : σ → Prop) (S : Snap)
    (hhook : ∀ p st, Env st → Holds L S st → Env (hook p st) ∧ Holds L S (hook p st)) :
    ∀ (dps : List PW) (p : Nat) (st : σ) (acc : List DiskPart),
      (∀ pw ∈ dps, pw ∈ S.parts ∧ pw.mem = false) → Env st → Holds L S st →
      ∃ st', linkLoop L hook none dps p st acc = (st', acc ++ dps.map PW.toDisk, false, p + dps.length)
        ∧ Env st' ∧ Holds L S st'
  | [], p, st, acc, _, he, hh => ⟨st, by simp [linkLoop], he, hh⟩
  | pw :: rest, p, st, acc, hd, he, hh => by
    obtain ⟨he1, hh1⟩ := hhook p st he hh
    have hpw := hd pw (List.mem_cons_self)
    have hon : pw.toDisk ∈ (L.get (hook p st)).disk :=
      hh1.1.live_on_disk S (by simp [Table.live, hh1.2]) pw hpw.1 hpw.2
    have hf := find_toDisk hh1.1.disk_nodup hon
    obtain ⟨st', hl, he', hh'⟩ := linkLoop_ok L hook Env S hhook rest (p + 1) (hook p st) (acc ++ [pw.toDisk])
      (fun q hq => hd q (List.mem_cons_of_mem _ hq)) he1 hh1
    refine ⟨st', ?_, he', hh'⟩
    rw [linkLoop]
    simp only [reduceCtorEq, if_false, hf, hl]
    simp [Nat.add_assoc, Nat.add_comm 1]

theorem diskParts_spec {S : Snap} : ∀ pw ∈ S.diskParts, pw ∈ S.parts ∧ pw.mem = false := by
  intro pw h
  have := List.mem_filter.mp h
  exact ⟨this.1, by simpa using this.2⟩

/-- Rely/guarantee form of the table-level theorem: whatever the rest of the system does between the sub-steps
    (`hook`), as long as it keeps the table invariant and does not drop somebody else's pin (`Holds`), the
    procedure links exactly the file parts of the pinned snapshot and writes the manifest of that snapshot. -/
theorem takeFileSnapshot_ok {σ : Type} (L : Lens σ) (hook : Nat → σ → σ) (Env : σ → Prop) (S : Snap)
    (hgs : ∀ st t, Env st → L.get (L.set st t) = t)
    (hset : ∀ st t, Env st → t.WF → Env (L.set st t))
    (hhook : ∀ p st, Env st → Holds L S st → Env (hook p st) ∧ Holds L S (hook p st))
    (st : σ) (henv : Env st) (hwf : (L.get st).WF) (hcur : (L.get st).cur = some S) (hne : S.diskParts ≠ [])
    (dst0 : Option Dst) (p0 : Nat) :
    ∃ st', takeFileSnapshot L hook none dst0 p0 st =
        (st', ⟨.ok, some ⟨S.diskParts.map PW.toDisk, some S.ids⟩⟩, p0 + S.diskParts.length + 1)
      ∧ Env st' ∧ (L.get st').WF := by
  have e1 : Env (L.set st ((L.get st).pin S)) := hset _ _ henv (wf_pin hwf hcur)
  have g1 : L.get (L.set st ((L.get st).pin S)) = (L.get st).pin S := hgs _ _ henv
  have h1 : Holds L S (L.set st ((L.get st).pin S)) := by
    unfold Holds; rw [g1]; exact ⟨wf_pin hwf hcur, by simp [Table.pin]⟩
  obtain ⟨st2, hl, e2, h2⟩ := linkLoop_ok L hook Env S hhook S.diskParts p0 _ [] diskParts_spec e1 h1
  obtain ⟨e3, h3⟩ := hhook (p0 + S.diskParts.length) st2 e2 h2
  refine ⟨L.set (hook (p0 + S.diskParts.length) st2) ((L.get (hook (p0 + S.diskParts.length) st2)).unpin S), ?_,
    hset _ _ e3 (wf_unpin h3.1 S), ?_⟩
  · unfold takeFileSnapshot
    simp only [hcur]
    have : S.diskParts.isEmpty = false := by
      cases hd : S.diskParts with
      | nil => exact absurd hd hne
      | cons a b => rfl
    simp only [this, Bool.false_eq_true, if_false, hl, List.nil_append, manifestOf]
  · rw [hgs _ _ e3]; exact wf_unpin h3.1 S

theorem recover_linked (S : Snap) :
    recover ⟨S.diskParts.map PW.toDisk, some S.ids⟩ = S.diskParts.map PW.toDisk := by
  unfold recover
  simp only
  rw [List.filter_eq_self]
  intro d hd
  rw [List.mem_map] at hd
  obtain ⟨pw, hp, rfl⟩ := hd
  have := (diskParts_spec pw hp).1
  simp only [PW.toDisk, Bool.and_true]
  rw [List.contains_iff_mem]
  exact List.mem_map_of_mem (f := (·.id)) this

theorem content_linked (l : List PW) : content (l.map PW.toDisk) = l.flatMap (·.batches) := by
  unfold content
  rw [List.flatMap_map]
  rfl

theorem gc_pins (t : Table) : t.gc.pins = t.pins := rfl
theorem replaceSnapshot_pins (t : Table) (ps : List PW) (b : Bool) : (t.replaceSnapshot ps b).pins = t.pins := rfl

theorem step_pins (t : Table) (op : MOp) : (t.step op).pins = t.pins := by
  cases op with
  | introduce k => rfl
  | flush =>
    simp only [Table.step, Table.flush]
    split
    · rfl
    · split <;> rfl
  | merge pos =>
    simp only [Table.step, Table.merge]
    split
    · rfl
    · split <;> rfl

theorem run_pins (t : Table) (ops : List MOp) : (t.run ops).pins = t.pins := by
  induction ops generalizing t with
  | nil => rfl
  | cons op rest ih => show (Table.run (t.step op) rest).pins = _; rw [ih, step_pins]

/-! ### the flushed data is a prefix of the introduction log -/

structure Table.Hist (t : Table) : Prop where
  mark_le : t.mark ≤ t.log.length
  flushed_iff : ∀ b, b ∈ t.flushed ↔ b ∈ t.log.take t.mark
  unflushed_iff : ∀ b, b ∈ t.unflushed ↔ b ∈ t.log.drop t.mark

theorem replaceSnapshot_cur (t : Table) (ps : List PW) (b : Bool) :
    (t.replaceSnapshot ps b).cur = some ⟨t.epoch + 1, ps⟩ := rfl
theorem replaceSnapshot_log (t : Table) (ps : List PW) (b : Bool) : (t.replaceSnapshot ps b).log = t.log := rfl
theorem replaceSnapshot_mark (t : Table) (ps : List PW) (b : Bool) : (t.replaceSnapshot ps b).mark = t.mark := rfl

theorem hist_empty : ({} : Table).Hist := ⟨by simp, by simp [Table.flushed], by simp [Table.unflushed]⟩

theorem hist_introduce {t : Table} (h : t.Hist) (k : Nat) : (t.introduce k).Hist := by
  have hm := h.mark_le
  refine ⟨?_, ?_, ?_⟩
  · show t.mark ≤ (t.log ++ [k]).length
    simp; omega
  · intro b
    show b ∈ (t.introduce k).flushed ↔ b ∈ (t.log ++ [k]).take t.mark
    rw [List.take_append_of_le_length hm, ← h.flushed_iff]
    unfold Table.flushed Table.introduce
    rw [replaceSnapshot_cur]
    simp only [Snap.diskParts, List.filter_append]
    cases hc : t.cur <;> simp
  · intro b
    show b ∈ (t.introduce k).unflushed ↔ b ∈ (t.log ++ [k]).drop t.mark
    rw [List.drop_append_of_le_length hm, List.mem_append, ← h.unflushed_iff]
    unfold Table.unflushed Table.introduce
    rw [replaceSnapshot_cur]
    simp only [Snap.memParts, List.filter_append]
    cases hc : t.cur <;> simp

theorem mem_parts_split (s : Snap) (b : Nat) :
    b ∈ s.parts.flatMap (·.batches) ↔ b ∈ s.diskParts.flatMap (·.batches) ∨ b ∈ s.memParts.flatMap (·.batches) := by
  simp only [List.mem_flatMap, Snap.diskParts, Snap.memParts, List.mem_filter]
  constructor
  · rintro ⟨pw, hp, hb⟩
    cases hm : pw.mem
    · exact Or.inl ⟨pw, ⟨hp, by simp [hm]⟩, hb⟩
    · exact Or.inr ⟨pw, ⟨hp, hm⟩, hb⟩
  · rintro (⟨pw, ⟨hp, _⟩, hb⟩ | ⟨pw, ⟨hp, _⟩, hb⟩) <;> exact ⟨pw, hp, hb⟩

theorem hist_flush {t : Table} (h : t.Hist) : t.flush.Hist := by
  unfold Table.flush
  cases hc : t.cur with
  | none => simpa using h
  | some s =>
    simp only
    split
    · exact h
    · refine ⟨?_, ?_, ?_⟩
      · show t.log.length ≤ t.log.length; exact Nat.le_refl _
      · intro b
        show b ∈ Table.flushed _ ↔ b ∈ t.log.take t.log.length
        rw [List.take_length]
        unfold Table.flushed
        rw [replaceSnapshot_cur]
        simp only [Snap.diskParts]
        have e : (s.parts.map fun pw => { pw with mem := false }).filter (fun pw => !pw.mem)
            = s.parts.map fun pw => { pw with mem := false } := by
          rw [List.filter_eq_self]; intro a ha; rw [List.mem_map] at ha; obtain ⟨pw, _, rfl⟩ := ha; rfl
        rw [e, List.flatMap_map]
        have e2 : (s.parts.flatMap fun pw => ({ pw with mem := false } : PW).batches) = s.parts.flatMap (·.batches) := rfl
        rw [e2, mem_parts_split]
        have hf := h.flushed_iff b
        have hu := h.unflushed_iff b
        simp only [Table.flushed, Table.unflushed, hc] at hf hu
        rw [hf, hu, ← List.mem_append, List.take_append_drop]
      · intro b
        show b ∈ Table.unflushed _ ↔ b ∈ t.log.drop t.log.length
        rw [List.drop_length]
        unfold Table.unflushed
        rw [replaceSnapshot_cur]
        simp only [Snap.memParts]
        have e : (s.parts.map fun pw => { pw with mem := false }).filter (fun pw => pw.mem) = [] := by
          rw [List.filter_eq_nil_iff]; intro a ha; rw [List.mem_map] at ha; obtain ⟨pw, _, rfl⟩ := ha; simp
        rw [e]; simp

theorem eq_of_nodup_map {α β : Type} (f : α → β) : ∀ {l : List α}, (l.map f).Nodup →
    ∀ {x y : α}, x ∈ l → y ∈ l → f x = f y → x = y
  | [], _, _, _, hx, _, _ => by simp at hx
  | a :: rest, hnd, x, y, hx, hy, hxy => by
    rw [List.map_cons, List.nodup_cons] at hnd
    rcases List.mem_cons.mp hx with hx | hx <;> rcases List.mem_cons.mp hy with hy | hy
    · rw [hx, hy]
    · exfalso; apply hnd.1; rw [← hx, hxy]; exact List.mem_map_of_mem hy
    · exfalso; apply hnd.1; rw [← hy, ← hxy]; exact List.mem_map_of_mem hx
    · exact eq_of_nodup_map f hnd.2 hx hy hxy

theorem pickAux_subset {α : Type} (pos : List Nat) : ∀ (i : Nat) (l : List α), ∀ a ∈ pickAux pos i l, a ∈ l
  | _, [], a, h => by simp [pickAux] at h
  | i, b :: rest, a, h => by
    rw [pickAux] at h
    split at h
    · rcases List.mem_cons.mp h with h | h
      · rw [h]; exact List.mem_cons_self
      · exact List.mem_cons_of_mem _ (pickAux_subset pos (i + 1) rest a h)
    · exact List.mem_cons_of_mem _ (pickAux_subset pos (i + 1) rest a h)

theorem pick_subset {α : Type} (l : List α) (pos : List Nat) : ∀ a ∈ pick l pos, a ∈ l :=
  pickAux_subset pos 0 l

theorem hist_merge {t : Table} (hwf : t.WF) (h : t.Hist) (pos : List Nat) : (t.merge pos).Hist := by
  unfold Table.merge
  cases hc : t.cur with
  | none => simpa using h
  | some s =>
    simp only
    split
    · exact h
    · have hnd := hwf.cur_nodup s hc
      have hsel : ∀ pw ∈ pick s.diskParts pos, pw ∈ s.parts ∧ pw.mem = false :=
        fun pw hp => diskParts_spec pw (pick_subset _ _ pw hp)
      -- a part of the current snapshot whose id was merged away is one of the selected parts
      have hgone : ∀ pw ∈ s.parts, pw.id ∈ (pick s.diskParts pos).map (·.id) → pw ∈ pick s.diskParts pos := by
        intro pw hp hid
        rw [List.mem_map] at hid
        obtain ⟨pw', hp', hid'⟩ := hid
        have : pw' = pw := eq_of_nodup_map (·.id) hnd (hsel pw' hp').1 hp hid'
        rw [← this]; exact hp'
      generalize pick s.diskParts pos = sel at hsel hgone ⊢
      refine ⟨h.mark_le, ?_, ?_⟩
      · intro b
        show b ∈ Table.flushed _ ↔ b ∈ t.log.take t.mark
        rw [← h.flushed_iff]
        unfold Table.flushed
        rw [replaceSnapshot_cur, hc]
        simp only [Snap.diskParts, List.filter_append, List.flatMap_append, List.mem_append, List.mem_flatMap,
          List.mem_filter]
        constructor
        · rintro (⟨pw, ⟨⟨hp, _⟩, hm⟩, hb⟩ | ⟨pw, ⟨hp, _⟩, hb⟩)
          · exact ⟨pw, ⟨hp, hm⟩, hb⟩
          · simp only [List.mem_singleton] at hp; subst hp
            simp only [List.mem_flatMap] at hb
            obtain ⟨pw', hp', hb'⟩ := hb
            exact ⟨pw', ⟨(hsel pw' hp').1, by simp [(hsel pw' hp').2]⟩, hb'⟩
        · rintro ⟨pw, ⟨hp, hm⟩, hb⟩
          by_cases hg : pw.id ∈ sel.map (·.id)
          · right
            refine ⟨_, ⟨List.mem_singleton.mpr rfl, by simp⟩, ?_⟩
            simp only [List.mem_flatMap]
            exact ⟨pw, hgone pw hp hg, hb⟩
          · left
            refine ⟨pw, ⟨⟨hp, ?_⟩, hm⟩, hb⟩
            simpa [List.contains_iff_mem] using hg
      · intro b
        show b ∈ Table.unflushed _ ↔ b ∈ t.log.drop t.mark
        rw [← h.unflushed_iff]
        unfold Table.unflushed
        rw [replaceSnapshot_cur, hc]
        simp only [Snap.memParts, List.filter_append, List.flatMap_append, List.mem_append, List.mem_flatMap,
          List.mem_filter]
        constructor
        · rintro (⟨pw, ⟨⟨hp, _⟩, hm⟩, hb⟩ | ⟨pw, ⟨hp, hm⟩, hb⟩)
          · exact ⟨pw, ⟨hp, hm⟩, hb⟩
          · simp only [List.mem_singleton] at hp; subst hp; simp at hm
        · rintro ⟨pw, ⟨hp, hm⟩, hb⟩
          left
          refine ⟨pw, ⟨⟨hp, ?_⟩, hm⟩, hb⟩
          have : pw.id ∉ sel.map (·.id) := by
            intro hg
            have := (hsel pw (hgone pw hp hg)).2
            rw [hm] at this; cases this
          simpa [List.contains_iff_mem] using this

theorem hist_step {t : Table} (hwf : t.WF) (h : t.Hist) (op : MOp) : (t.step op).Hist := by
  cases op with
  | introduce k => exact hist_introduce h k
  | flush => exact hist_flush h
  | merge pos => exact hist_merge hwf h pos

theorem hist_run {t : Table} (hwf : t.WF) (h : t.Hist) (ops : List MOp) : (t.run ops).Hist := by
  induction ops generalizing t with
  | nil => exact h
  | cons op rest ih => exact ih (wf_step hwf op) (hist_step hwf h op)

/-- the batches introduced by a history, in order. -/
def introduced : List MOp → List Nat
  | [] => []
  | .introduce k :: rest => k :: introduced rest
  | _ :: rest => introduced rest

theorem step_log (t : Table) (op : MOp) : (t.step op).log = t.log ++ introduced [op] := by
  cases op with
  | introduce k => rfl
  | flush =>
    simp only [Table.step, Table.flush, introduced, List.append_nil]
    split
    · rfl
    · split <;> rfl
  | merge pos =>
    simp only [Table.step, Table.merge, introduced, List.append_nil]
    split
    · rfl
    · split <;> rfl

theorem introduced_cons (op : MOp) (rest : List MOp) : introduced (op :: rest) = introduced [op] ++ introduced rest := by
  cases op <;> simp [introduced]

theorem run_log (t : Table) (ops : List MOp) : (t.run ops).log = t.log ++ introduced ops := by
  induction ops generalizing t with
  | nil => simp [Table.run, introduced]
  | cons op rest ih =>
    show (Table.run (t.step op) rest).log = _
    rw [ih, step_log, List.append_assoc, ← introduced_cons]

/-! ### closing and reopening a table -/

theorem wf_close {t : Table} (h : t.WF) : t.close.WF := by
  unfold Table.close
  apply wf_gc
  refine ⟨?_, h.disk_nodup, h.disk_le, by simp, by simp, by simp⟩
  intro s hs
  exact h.live_on_disk s (by simp only [Table.live, Option.toList, List.nil_append] at hs; simp [Table.live, hs])

theorem le_maxId : ∀ (l : List DiskPart) (m : Nat), (m ≤ l.foldl (fun m d => max m d.id) m) ∧
    ∀ d ∈ l, d.id ≤ l.foldl (fun m d => max m d.id) m
  | [], m => ⟨Nat.le_refl _, by simp⟩
  | a :: r, m => by
    have ih := le_maxId r (max m a.id)
    simp only [List.foldl_cons]
    refine ⟨Nat.le_trans (Nat.le_max_left _ _) ih.1, ?_⟩
    intro d hd
    rcases List.mem_cons.mp hd with hd | hd
    · subst hd; exact Nat.le_trans (Nat.le_max_right _ _) ih.1
    · exact ih.2 d hd

theorem wf_fresh (l : List Nat) (m : Nat) : ({ log := l, mark := m } : Table).WF := by
  refine ⟨?_, by simp, by simp, by simp, by simp, by simp⟩
  intro s hs; simp [Table.live] at hs

theorem wf_reopen {t : Table} (h : t.WF) : t.reopen.WF := by
  unfold Table.reopen
  split
  · exact wf_fresh _ _
  · rename_i m _
    simp only
    split
    · exact wf_fresh _ _
    · have hsub : (t.disk.filter (fun d => m.contains d.id && d.complete)).Sublist t.disk := List.filter_sublist
      refine ⟨?_, ?_, ?_, ?_, ?_, ?_⟩
      · intro s hs pw hp _
        simp only [Table.live, Option.toList, List.append_nil, List.mem_singleton] at hs
        subst hs
        simp only [List.mem_map] at hp
        obtain ⟨d, hd, rfl⟩ := hp
        have hc : d.complete = true := by
          have := (List.mem_filter.mp hd).2
          simp only [Bool.and_eq_true] at this; exact this.2
        show PW.toDisk ⟨d.id, false, d.batches⟩ ∈ _
        have : PW.toDisk ⟨d.id, false, d.batches⟩ = d := by
          cases d; simp only [PW.toDisk] at *; simp [hc]
        rw [this]; exact hd
      · exact h.disk_nodup.sublist (hsub.map _)
      · intro d hd; exact (le_maxId _ 0).2 d hd
      · intro s hs; simp only [Option.some.injEq] at hs; subst hs
        simp only [List.map_map]
        exact h.disk_nodup.sublist (hsub.map _)
      · intro s hs pw hp; simp only [Option.some.injEq] at hs; subst hs
        simp only [List.mem_map] at hp
        obtain ⟨d, hd, rfl⟩ := hp
        exact (le_maxId _ 0).2 d hd
      · intro s hs pw hp hm; simp only [Option.some.injEq] at hs; subst hs
        simp only [List.mem_map] at hp
        obtain ⟨d, hd, rfl⟩ := hp
        simp at hm

/-- what a closed-segment snapshot copies of one table directory recovers to exactly what the source table
    itself shows when it is reopened. -/
theorem closed_copy_eq_reopen (t : Table) : content (recover ⟨t.disk, t.manifest⟩) = t.reopen.flushed := by
  cases hm : t.manifest with
  | none => simp [recover, Table.reopen, Table.flushed, hm, content]
  | some m =>
    by_cases he : (t.disk.filter (fun d => m.contains d.id && d.complete)).isEmpty = true
    · have h0 : t.disk.filter (fun d => m.contains d.id && d.complete) = [] := List.isEmpty_iff.mp he
      simp only [recover, Table.reopen, Table.flushed, hm, h0, content, List.isEmpty_nil, if_true, List.flatMap_nil]
    · simp only [recover, Table.reopen, Table.flushed, hm, he, content, Snap.diskParts, Bool.false_eq_true, if_false]
      generalize t.disk.filter (fun d => m.contains d.id && d.complete) = keep
      have e : (keep.map fun d => ({ id := d.id, mem := false, batches := d.batches } : PW)).filter (fun pw => !pw.mem)
          = keep.map fun d => ({ id := d.id, mem := false, batches := d.batches } : PW) :=
        List.filter_eq_self.mpr (by intro a ha; rw [List.mem_map] at ha; obtain ⟨d, _, rfl⟩ := ha; rfl)
      rw [e, List.flatMap_map]

/-! ### segments and the database -/

/-- segment invariant with `k` references held by an in-flight snapshot:
    every table satisfies the table invariant and `refCount = holders + k`. -/
structure Seg.Inv (k : Nat) (s : Seg) : Prop where
  tables : ∀ h t, s.tab h = some t → t.WF
  refs : s.ref = s.holders + k

/-- database invariant; `pin d` is the number of references an in-flight snapshot holds on segment `d`
    (a segment that does not exist cannot be pinned). -/
structure DB.Inv (pin : Nat → Nat) (db : DB) : Prop where
  segs : ∀ d s, db.seg d = some s → s.Inv (pin d)
  absent : ∀ d, db.seg d = none → pin d = 0

theorem Seg.Inv.mapTables {k : Nat} {s : Seg} (h : s.Inv k) {f : Table → Table} (hf : ∀ t : Table, t.WF → (f t).WF) :
    ∀ h' t, (s.mapTables f).tab h' = some t → t.WF := by
  intro h' t ht
  simp only [Seg.mapTables] at ht
  cases hs : s.tab h' with
  | none => simp [hs] at ht
  | some t0 => simp only [hs, Option.map_some, Option.some.injEq] at ht; subst ht; exact hf t0 (h.tables h' t0 hs)

theorem inv_reopen {k : Nat} {s : Seg} (h : s.Inv k) : s.reopen.Inv k := by
  unfold Seg.reopen
  split
  · exact h
  · exact ⟨h.mapTables (fun _ => wf_reopen), h.refs⟩

theorem inv_closeRes {k : Nat} {s : Seg} (h : s.Inv k) : s.closeRes.Inv k :=
  ⟨h.mapTables (fun _ => wf_close), h.refs⟩

theorem inv_closeIfIdle {k : Nat} {s : Seg} (h : s.Inv k) : s.closeIfIdle.Inv k := by
  unfold Seg.closeIfIdle
  split
  · exact inv_closeRes h
  · exact h

theorem inv_hold {k : Nat} {s : Seg} (h : s.Inv k) : s.hold.Inv k := by
  unfold Seg.hold Seg.incRef
  by_cases h1 : s.ref > 0
  · simp only [h1, if_true]
    exact ⟨h.tables, by have := h.refs; show s.ref + 1 = s.holders + 1 + k; omega⟩
  · simp only [h1, if_false]
    by_cases h2 : s.del = true
    · simp only [h2, if_true, Bool.false_eq_true, if_false]; exact h
    · simp only [h2, Bool.false_eq_true, if_false, if_true]
      have hr := inv_reopen h
      refine ⟨hr.tables, ?_⟩
      have e1 : s.reopen.holders = s.holders := by unfold Seg.reopen; split <;> rfl
      have := h.refs
      show 1 = s.reopen.holders + 1 + k
      omega

theorem inv_performDelete {k : Nat} {s : Seg} (h : s.Inv k) : s.performDelete.Inv k := by
  unfold Seg.performDelete
  split
  · exact h
  · exact ⟨by intro h' t ht; simp at ht, h.refs⟩

theorem inv_release {k : Nat} {s : Seg} (h : s.Inv k) : s.release.Inv k := by
  unfold Seg.release
  split
  · exact h
  · rename_i hh
    unfold Seg.decRef
    have hr := h.refs
    have hne : s.ref ≠ 0 := by omega
    simp only [hne, if_false]
    have base : Seg.Inv k { s with holders := s.holders - 1, ref := s.ref - 1 } :=
      ⟨h.tables, by show s.ref - 1 = s.holders - 1 + k; omega⟩
    split
    · exact inv_performDelete base
    · exact base

theorem inv_delete {k : Nat} {s : Seg} (h : s.Inv k) : s.delete.Inv k := by
  unfold Seg.delete
  have base : Seg.Inv k { s with del := true } := ⟨h.tables, h.refs⟩
  simp only
  split
  · exact inv_performDelete base
  · exact base

theorem inv_putTable {k : Nat} {s : Seg} (h : s.Inv k) (h' : Nat) {t : Table} (ht : t.WF) : (s.putTable h' t).Inv k := by
  refine ⟨?_, h.refs⟩
  intro h'' t' ht'
  simp only [Seg.putTable] at ht'
  split at ht'
  · simp only [Option.some.injEq] at ht'; subst ht'; exact ht
  · exact h.tables h'' t' ht'

theorem inv_put {pin : Nat → Nat} {db : DB} (h : db.Inv pin) {d : Nat} {s : Seg} (hs : s.Inv (pin d)) :
    (db.put d s).Inv pin := by
  refine ⟨?_, ?_⟩
  · intro d' s' hs'
    simp only [DB.put] at hs'
    split at hs'
    · rename_i e; subst e; simp only [Option.some.injEq] at hs'; subst hs'; exact hs
    · exact h.segs d' s' hs'
  · intro d' hd'
    simp only [DB.put] at hd'
    split at hd'
    · cases hd'
    · exact h.absent d' hd'

theorem inv_modify {pin : Nat → Nat} {db : DB} (h : db.Inv pin) (d : Nat) {f : Seg → Seg}
    (hf : ∀ s, s.Inv (pin d) → (f s).Inv (pin d)) : (db.modify d f).Inv pin := by
  unfold DB.modify
  cases hs : db.seg d with
  | none => exact h
  | some s => exact inv_put h (hf s (h.segs d s hs))

theorem inv_default (k : Nat) (hk : k = 0) : ({} : Seg).Inv k := ⟨by intro h t ht; simp at ht, by simp [hk]⟩

theorem inv_step {pin : Nat → Nat} {db : DB} (h : db.Inv pin) (op : DbOp) : (db.step op).Inv pin := by
  cases op with
  | write d h' k =>
    simp only [DB.step]
    have h0 : ((db.seg d).getD {}).Inv (pin d) := by
      cases hs : db.seg d with
      | none => exact inv_default _ (h.absent d hs)
      | some s => exact h.segs d s hs
    generalize (db.seg d).getD {} = s at h0
    split
    · exact h
    · have h1 := inv_hold h0
      apply inv_put h
      apply inv_release
      apply inv_putTable h1
      cases ht : s.hold.tab h' with
      | none => exact wf_introduce wf_empty k
      | some t => exact wf_introduce (h1.tables h' t ht) k
  | flush d h' =>
    apply inv_modify h
    intro s hs
    split
    · cases ht : s.tab h' with
      | none => exact hs
      | some t => exact inv_putTable hs h' (wf_flush (hs.tables h' t ht))
    · exact hs
  | mergeAll d h' =>
    apply inv_modify h
    intro s hs
    split
    · cases ht : s.tab h' with
      | none => exact hs
      | some t => exact inv_putTable hs h' (wf_merge (hs.tables h' t ht) _)
    · exact hs
  | closeIdle d => exact inv_modify h d (fun s hs => inv_closeIfIdle hs)
  | hold d => exact inv_modify h d (fun s hs => inv_hold hs)
  | release d => exact inv_modify h d (fun s hs => inv_release hs)
  | remove d =>
    apply inv_modify h
    intro s hs
    have := inv_delete hs
    exact ⟨this.tables, this.refs⟩
  | deleteFlag d => exact inv_modify h d (fun s hs => inv_delete hs)

/-! ### the environment cannot remove a pinned table: its segment is referenced by the snapshot -/

def Seg.Pinned (h : Nat) (S : Snap) (s : Seg) : Prop := ∃ t, s.tab h = some t ∧ S ∈ t.pins

def DB.Pinned (d h : Nat) (S : Snap) (db : DB) : Prop := ∃ s, db.seg d = some s ∧ s.Pinned h S

theorem pinned_hold {k : Nat} {s : Seg} (hi : s.Inv (k + 1)) {h : Nat} {S : Snap} (hp : s.Pinned h S) :
    s.hold.Pinned h S := by
  have : s.ref > 0 := by have := hi.refs; omega
  unfold Seg.hold Seg.incRef
  simp only [this, if_true]
  exact hp

theorem pinned_release {k : Nat} {s : Seg} (hi : s.Inv (k + 1)) {h : Nat} {S : Snap} (hp : s.Pinned h S) :
    s.release.Pinned h S := by
  unfold Seg.release
  split
  · exact hp
  · unfold Seg.decRef
    have hr := hi.refs
    have h0 : s.ref ≠ 0 := by omega
    have h1 : ¬ (s.ref = 1 ∧ s.del = true) := by intro hh; omega
    simp only [h0, if_false, h1]
    exact hp

theorem pinned_closeIfIdle {k : Nat} {s : Seg} (hi : s.Inv (k + 1)) {h : Nat} {S : Snap} (hp : s.Pinned h S) :
    s.closeIfIdle.Pinned h S := by
  unfold Seg.closeIfIdle
  have h0 : ¬ (s.isOpen = true ∧ s.ref = 0 ∧ ¬ s.del = true) := by intro hh; have := hi.refs; omega
  simp only [h0, if_false]
  exact hp

theorem pinned_delete {k : Nat} {s : Seg} (hi : s.Inv (k + 1)) {h : Nat} {S : Snap} (hp : s.Pinned h S) :
    s.delete.Pinned h S := by
  unfold Seg.delete
  have h0 : s.ref ≠ 0 := by have := hi.refs; omega
  simp only [h0, if_false]
  exact hp

theorem pinned_putTable {s : Seg} {h : Nat} {S : Snap} (hp : s.Pinned h S) (h' : Nat) (t' : Table)
    (hsame : h' = h → ∀ t, s.tab h = some t → t'.pins = t.pins) : (s.putTable h' t').Pinned h S := by
  obtain ⟨t, ht, hS⟩ := hp
  by_cases e : h = h'
  · subst e
    exact ⟨t', by simp [Seg.putTable], by rw [hsame rfl t ht]; exact hS⟩
  · exact ⟨t, by simp [Seg.putTable, e, ht], hS⟩

theorem pinned_put_other {db : DB} {d h : Nat} {S : Snap} (hp : db.Pinned d h S) {d' : Nat} (hne : d' ≠ d) (s' : Seg) :
    (db.put d' s').Pinned d h S := by
  obtain ⟨s, hs, hps⟩ := hp
  exact ⟨s, by simp [DB.put, Ne.symm hne, hs], hps⟩

theorem pinned_modify {db : DB} {d h : Nat} {S : Snap} (hp : db.Pinned d h S) (d' : Nat) {f : Seg → Seg}
    (hf : d' = d → ∀ s, db.seg d = some s → s.Pinned h S → (f s).Pinned h S) : (db.modify d' f).Pinned d h S := by
  unfold DB.modify
  cases hs' : db.seg d' with
  | none => exact hp
  | some s' =>
    by_cases e : d' = d
    · subst e
      obtain ⟨s, hs, hps⟩ := hp
      rw [hs'] at hs; cases hs
      exact ⟨f s', by simp [DB.put], hf rfl s' hs' hps⟩
    · exact pinned_put_other hp e _

theorem modifyTable_pins {s : Seg} {h : Nat} {S : Snap} (hp : s.Pinned h S) (h' : Nat) {f : Table → Table}
    (hf : ∀ t, (f t).pins = t.pins) :
    (if s.isOpen then (match s.tab h' with | some t => s.putTable h' (f t) | none => s) else s).Pinned h S := by
  split
  · cases ht : s.tab h' with
    | none => exact hp
    | some t =>
      apply pinned_putTable hp
      intro e t0 ht0
      subst e
      rw [ht] at ht0; cases ht0
      exact hf t
  · exact hp

theorem introduce_pins (t : Table) (k : Nat) : (t.introduce k).pins = t.pins := rfl
theorem flush_pins (t : Table) : t.flush.pins = t.pins := step_pins t .flush
theorem merge_pins (t : Table) (pos : List Nat) : (t.merge pos).pins = t.pins := step_pins t (.merge pos)

theorem pinned_step {pin : Nat → Nat} {db : DB} (hi : db.Inv pin) {d h : Nat} {S : Snap} (hpin : pin d ≥ 1)
    (hp : db.Pinned d h S) (op : DbOp) : (db.step op).Pinned d h S := by
  obtain ⟨k, hk⟩ : ∃ k, pin d = k + 1 := ⟨pin d - 1, by omega⟩
  have hinv : ∀ s, db.seg d = some s → s.Inv (k + 1) := fun s hs => hk ▸ hi.segs d s hs
  cases op with
  | write d' h' b =>
    simp only [DB.step]
    by_cases e : d' = d
    · subst e
      obtain ⟨s, hs, hps⟩ := hp
      simp only [hs, Option.getD_some]
      split
      · exact ⟨s, hs, hps⟩
      · have i1 := hinv s hs
        have p1 := pinned_hold i1 hps
        have i2 : s.hold.Inv (k + 1) := inv_hold i1
        have p2 : (s.hold.putTable h' (((s.hold.tab h').getD {}).introduce b)).Pinned h S := by
          apply pinned_putTable p1
          intro e t0 ht0
          subst e
          simp only [ht0, Option.getD_some]; rfl
        have i3 : (s.hold.putTable h' (((s.hold.tab h').getD {}).introduce b)).Inv (k + 1) := by
          apply inv_putTable i2
          cases ht : s.hold.tab h' with
          | none => exact wf_introduce wf_empty b
          | some t => exact wf_introduce (i2.tables h' t ht) b
        refine ⟨_, ?_, pinned_release i3 p2⟩
        show (if d' = d' then some _ else _) = some _
        rw [if_pos rfl]
    · split
      · exact hp
      · exact pinned_put_other hp e _
  | flush d' h' =>
    exact pinned_modify hp d' (fun _ s _ hps => modifyTable_pins hps h' flush_pins)
  | mergeAll d' h' =>
    exact pinned_modify hp d' (fun _ s _ hps => modifyTable_pins hps h' (fun t => merge_pins t _))
  | closeIdle d' => exact pinned_modify hp d' (fun e s hs hps => pinned_closeIfIdle (hinv s hs) hps)
  | hold d' => exact pinned_modify hp d' (fun e s hs hps => pinned_hold (hinv s hs) hps)
  | release d' => exact pinned_modify hp d' (fun e s hs hps => pinned_release (hinv s hs) hps)
  | remove d' =>
    apply pinned_modify hp d'
    intro e s hs hps
    have := pinned_delete (hinv s hs) hps
    exact this
  | deleteFlag d' => exact pinned_modify hp d' (fun e s hs hps => pinned_delete (hinv s hs) hps)

theorem inv_run {pin : Nat → Nat} {db : DB} (h : db.Inv pin) (ops : List DbOp) : (db.run ops).Inv pin := by
  induction ops generalizing db with
  | nil => exact h
  | cons op rest ih => exact ih (inv_step h op)

theorem pinned_run {pin : Nat → Nat} {db : DB} (hi : db.Inv pin) {d h : Nat} {S : Snap} (hpin : pin d ≥ 1)
    (hp : db.Pinned d h S) (ops : List DbOp) : (db.run ops).Pinned d h S := by
  induction ops generalizing db with
  | nil => exact hp
  | cons op rest ih => exact ih (inv_step hi op) (pinned_step hi hpin hp op)

/-! ### the snapshot procedures over a database -/

theorem takeFileSnapshot_noSnapshot {σ : Type} (L : Lens σ) (hook : Nat → σ → σ) (failAt : Option Nat)
    (dst0 : Option Dst) (p0 : Nat) (st : σ) (hc : (L.get st).cur = none) :
    takeFileSnapshot L hook failAt dst0 p0 st = (st, ⟨.noSnapshot, dst0⟩, p0) := by
  unfold takeFileSnapshot; simp only [hc]

theorem takeFileSnapshot_noDisk {σ : Type} (L : Lens σ) (hook : Nat → σ → σ) (failAt : Option Nat) (Env : σ → Prop)
    (S : Snap)
    (hgs : ∀ st t, Env st → L.get (L.set st t) = t)
    (hset : ∀ st t, Env st → t.WF → Env (L.set st t))
    (st : σ) (henv : Env st) (hwf : (L.get st).WF) (hcur : (L.get st).cur = some S) (he : S.diskParts = [])
    (dst0 : Option Dst) (p0 : Nat) :
    ∃ st', takeFileSnapshot L hook failAt dst0 p0 st = (st', ⟨.noDisk, dst0⟩, p0) ∧ Env st' := by
  have w1 := wf_pin hwf hcur
  have e1 : Env (L.set st ((L.get st).pin S)) := hset _ _ henv w1
  have w2 : ((L.get (L.set st ((L.get st).pin S))).unpin S).WF := by
    apply wf_unpin; rw [hgs _ _ henv]; exact w1
  refine ⟨L.set (L.set st ((L.get st).pin S)) ((L.get (L.set st ((L.get st).pin S))).unpin S), ?_, hset _ _ e1 w2⟩
  unfold takeFileSnapshot
  simp only [hcur, he, List.isEmpty_nil, if_true]

def pin0 : Nat → Nat := fun _ => 0
def pin1 (d : Nat) : Nat → Nat := fun d' => if d' = d then 1 else 0

/-- exact image of a snapshot in a table directory: every file part hard-linked, manifest of that snapshot. -/
def Snap.image (S : Snap) : Dst := ⟨S.diskParts.map PW.toDisk, some S.ids⟩

/-- environment of a database snapshot: before every file-system call an arbitrary list of operations runs. -/
def dbEnv (ops : Nat → List DbOp) : Nat → DB → DB := fun p db => db.run (ops p)

theorem tableLens_get {db : DB} {d h : Nat} {s : Seg} {t : Table} (hs : db.seg d = some s) (ht : s.tab h = some t) :
    (DLens.id.table d h).get db = t := by
  simp [DLens.table, DLens.id, hs, ht]

theorem tableLens_cur_some {db : DB} {d h : Nat} {S : Snap} (hc : ((DLens.id.table d h).get db).cur = some S) :
    ∃ s t, db.seg d = some s ∧ s.tab h = some t := by
  simp only [DLens.table, DLens.id] at hc
  cases hs : db.seg d with
  | none => simp [hs] at hc
  | some s =>
    cases ht : s.tab h with
    | none => simp [hs, ht] at hc
    | some t => exact ⟨s, t, rfl, ht⟩

def TEnv (d h : Nat) (db : DB) : Prop := db.Inv (pin1 d) ∧ ∃ s t, db.seg d = some s ∧ s.tab h = some t

theorem tenv_getset (d h : Nat) : ∀ (db : DB) (t : Table), TEnv d h db →
    (DLens.id.table d h).get ((DLens.id.table d h).set db t) = t := by
  intro db t ⟨_, s, t0, hs, _⟩
  simp [DLens.table, DLens.id, DB.modify, hs, DB.put, Seg.putTable]

theorem tenv_set (d h : Nat) : ∀ (db : DB) (t : Table), TEnv d h db → t.WF → TEnv d h ((DLens.id.table d h).set db t) := by
  intro db t ⟨hi, s, t0, hs, _⟩ hw
  refine ⟨?_, s.putTable h t, t, ?_, ?_⟩
  · show (db.modify d fun s => s.putTable h t).Inv _
    exact inv_modify hi d (fun s hs => inv_putTable hs h hw)
  · simp [DLens.table, DLens.id, DB.modify, hs, DB.put]
  · simp [Seg.putTable]

theorem tenv_wf (d h : Nat) (db : DB) (he : TEnv d h db) : ((DLens.id.table d h).get db).WF := by
  obtain ⟨hi, s, t, hs, ht⟩ := he
  rw [tableLens_get hs ht]
  exact (hi.segs d s hs).tables h t ht

theorem tenv_hook (d h : Nat) (ops : Nat → List DbOp) (S : Snap) : ∀ p db, TEnv d h db → Holds (DLens.id.table d h) S db →
    TEnv d h (dbEnv ops p db) ∧ Holds (DLens.id.table d h) S (dbEnv ops p db) := by
  intro p db ⟨hi, s, t, hs, ht⟩ ⟨_, hS⟩
  rw [tableLens_get hs ht] at hS
  have hp : db.Pinned d h S := ⟨s, hs, t, ht, hS⟩
  have hi' := inv_run hi (ops p)
  obtain ⟨s', hs', t', ht', hS'⟩ := pinned_run hi (by simp [pin1]) hp (ops p)
  refine ⟨⟨hi', s', t', hs', ht'⟩, ?_, ?_⟩
  · show ((DLens.id.table d h).get (db.run (ops p))).WF
    rw [tableLens_get hs' ht']; exact (hi'.segs d s' hs').tables h t' ht'
  · show S ∈ ((DLens.id.table d h).get (db.run (ops p))).pins
    rw [tableLens_get hs' ht']; exact hS'

/-- one table of an open, pinned segment: its snapshot never fails, whatever the environment does, and yields
    either nothing (no snapshot / no file parts) or the exact image of the snapshot it pinned. -/
theorem table_in_db (d h : Nat) (ops : Nat → List DbOp) (db : DB) (hI : db.Inv (pin1 d)) (hs : (db.seg d).isSome)
    (dst0 : Option Dst) (p0 : Nat) :
    ∃ db' r p', takeFileSnapshot (DLens.id.table d h) (dbEnv ops) none dst0 p0 db = (db', r, p')
      ∧ db'.Inv (pin1 d) ∧ (db'.seg d).isSome ∧ r.status ≠ .err
      ∧ (r.dst = dst0 ∨ ∃ S : Snap, S.diskParts ≠ [] ∧ r.dst = some S.image) := by
  cases hc : ((DLens.id.table d h).get db).cur with
  | none =>
    refine ⟨db, _, p0, takeFileSnapshot_noSnapshot _ _ _ _ _ _ hc, hI, hs, by simp, Or.inl rfl⟩
  | some S =>
    obtain ⟨s, t, hs', ht'⟩ := tableLens_cur_some hc
    have he : TEnv d h db := ⟨hI, s, t, hs', ht'⟩
    by_cases hd : S.diskParts = []
    · obtain ⟨db', hr, he'⟩ := takeFileSnapshot_noDisk (DLens.id.table d h) (dbEnv ops) none (TEnv d h) S
        (tenv_getset d h) (tenv_set d h) db he (tenv_wf d h db he) hc hd dst0 p0
      obtain ⟨hi', s', _, hs'', _⟩ := he'
      exact ⟨db', _, p0, hr, hi', by simp [hs''], by simp, Or.inl rfl⟩
    · obtain ⟨db', hr, he', _⟩ := takeFileSnapshot_ok (DLens.id.table d h) (dbEnv ops) (TEnv d h) S
        (tenv_getset d h) (tenv_set d h) (tenv_hook d h ops S) db he (tenv_wf d h db he) hc hd dst0 p0
      obtain ⟨hi', s', _, hs'', _⟩ := he'
      exact ⟨db', _, _, hr, hi', by simp [hs''], by simp, Or.inr ⟨S, hd, rfl⟩⟩

/-- a shard directory in a database snapshot: empty (table without snapshot or without file parts), the exact
    image of a snapshot the table pinned, or the hard-linked directory of a closed table. -/
inductive ShardOK : Dst → Prop
  | empty : ShardOK {}
  | image (S : Snap) : S.diskParts ≠ [] → ShardOK S.image
  | closed (t : Table) : t.WF → ShardOK ⟨t.disk, t.manifest⟩

theorem shardLoop_ok (d : Nat) (ops : Nat → List DbOp) : ∀ (hs : List Nat) (p : Nat) (db : DB) (acc : List (Nat × Dst)),
    db.Inv (pin1 d) → (db.seg d).isSome → (∀ x ∈ acc, ShardOK x.2) →
    ∃ db' sh p', shardLoop DLens.id (dbEnv ops) none d hs p db acc = (db', sh, false, p')
      ∧ db'.Inv (pin1 d) ∧ (db'.seg d).isSome ∧ (∀ x ∈ sh, ShardOK x.2)
  | [], p, db, acc, hi, hs, ha => ⟨db, acc, p, by simp [shardLoop], hi, hs, ha⟩
  | h :: rest, p, db, acc, hi, hs, ha => by
    obtain ⟨db1, r, p1, hr, hi1, hs1, hne, hshape⟩ := table_in_db d h ops db hi hs (some {}) p
    have hok : ShardOK (r.dst.getD {}) := by
      rcases hshape with e | ⟨S, hS, e⟩
      · rw [e]; exact ShardOK.empty
      · rw [e]; exact ShardOK.image S hS
    obtain ⟨db', sh, p', hl, hi', hs', ha'⟩ := shardLoop_ok d ops rest p1 db1 (acc ++ [(h, r.dst.getD {})]) hi1 hs1
      (by intro x hx; rcases List.mem_append.mp hx with hx | hx
          · exact ha x hx
          · simp only [List.mem_singleton] at hx; subst hx; exact hok)
    refine ⟨db', sh, p', ?_, hi', hs', ha'⟩
    rw [shardLoop, hr]
    obtain ⟨status, dst⟩ := r
    cases status <;> first | exact absurd rfl hne | exact hl

theorem inv_decRef_unpin {k : Nat} {s : Seg} (h : s.Inv (k + 1)) : s.decRef.Inv k := by
  unfold Seg.decRef
  have hr := h.refs
  have h0 : s.ref ≠ 0 := by omega
  simp only [h0, if_false]
  have base : Seg.Inv k { s with ref := s.ref - 1 } := ⟨h.tables, by show s.ref - 1 = s.holders + k; omega⟩
  split
  · exact inv_performDelete base
  · exact base

theorem inv_pin_seg {db : DB} (hi : db.Inv pin0) {d : Nat} {s : Seg} (hs : db.seg d = some s) :
    (db.put d { s with ref := s.ref + 1 }).Inv (pin1 d) := by
  refine ⟨?_, ?_⟩
  · intro d' s' hs'
    simp only [DB.put] at hs'
    split at hs'
    · rename_i e; subst e; simp only [Option.some.injEq] at hs'; subst hs'
      have := hi.segs d' s hs
      refine ⟨this.tables, ?_⟩
      have hr := this.refs
      simp only [pin0, pin1, if_true] at hr ⊢; omega
    · rename_i e
      have := hi.segs d' s' hs'
      simpa [pin0, pin1, e] using this
  · intro d' hd'
    simp only [DB.put] at hd'
    split at hd'
    · cases hd'
    · rename_i e; simp [pin1, e]

theorem inv_unpin_seg {db : DB} {d : Nat} (hi : db.Inv (pin1 d)) : (db.modify d Seg.decRef).Inv pin0 := by
  unfold DB.modify
  cases hs : db.seg d with
  | none =>
    refine ⟨?_, fun _ _ => rfl⟩
    intro d' s' hs'
    have := hi.segs d' s' hs'
    have e : d' ≠ d := by intro e; subst e; rw [hs] at hs'; cases hs'
    simpa [pin0, pin1, e] using this
  | some s =>
    refine ⟨?_, fun _ _ => rfl⟩
    intro d' s' hs'
    simp only [DB.put] at hs'
    split at hs'
    · rename_i e; subst e; simp only [Option.some.injEq] at hs'; subst hs'
      have := hi.segs d' s hs
      simp only [pin1, if_true] at this
      exact inv_decRef_unpin (k := 0) this
    · rename_i e
      have := hi.segs d' s' hs'
      simpa [pin0, pin1, e] using this

/-- `snapshotInto` never fails under any environment of database operations, restores the reference it took and
    writes only well-formed shard directories. -/
theorem snapshotInto_ok (ops : Nat → List DbOp) (d p : Nat) (db : DB) (hi : db.Inv pin0) :
    ∃ db' st sd p', snapshotInto DLens.id (dbEnv ops) none d p db = (db', st, sd, p')
      ∧ db'.Inv pin0 ∧ st ≠ .err ∧ (∀ x, sd = some x → ∀ y ∈ x.shards, ShardOK y.2) := by
  unfold snapshotInto
  cases hs : (DLens.id.get db).seg d with
  | none => exact ⟨db, _, _, _, rfl, hi, by simp, by simp⟩
  | some s =>
    simp only
    by_cases hdel : s.del = true
    · rw [if_pos hdel]; exact ⟨db, _, _, _, rfl, hi, by simp, by simp⟩
    · rw [if_neg hdel]
      by_cases hop : s.isOpen = true
      · rw [if_pos hop]
        have hi1 := inv_pin_seg hi hs
        obtain ⟨db', sh, p', hl, hi', _, ha'⟩ := shardLoop_ok d ops s.order p _ [] hi1 (by simp [DB.put]) (by simp)
        have hl' : shardLoop DLens.id (dbEnv ops) none d s.order p
            (DLens.id.set db ((DLens.id.get db).put d { s with ref := s.ref + 1 })) [] = (db', sh, false, p') := hl
        rw [hl']
        refine ⟨_, _, _, _, rfl, inv_unpin_seg hi', by simp, ?_⟩
        intro x hx; simp only [Option.some.injEq] at hx; subst hx; exact ha'
      · rw [if_neg hop]
        refine ⟨db, _, _, _, rfl, hi, by simp, ?_⟩
        intro x hx; simp only [Option.some.injEq] at hx; subst hx
        intro y hy
        simp only [List.mem_filterMap] at hy
        obtain ⟨h, _, hy⟩ := hy
        cases ht : s.tab h with
        | none => simp [ht] at hy
        | some t =>
          simp only [ht, Option.map_some, Option.some.injEq] at hy
          subst hy
          exact ShardOK.closed t ((hi.segs d s hs).tables h t ht)

theorem segLoop_ok (ops : Nat → List DbOp) : ∀ (days : List Nat) (p : Nat) (db : DB) (acc : List (Nat × SegDst)),
    db.Inv pin0 → (∀ x ∈ acc, ∀ y ∈ x.2.shards, ShardOK y.2) →
    ∃ db' segs, segLoop DLens.id (dbEnv ops) none days p db acc = (db', segs, false)
      ∧ db'.Inv pin0 ∧ (∀ x ∈ segs, ∀ y ∈ x.2.shards, ShardOK y.2)
  | [], p, db, acc, hi, ha => ⟨db, acc, by simp [segLoop], hi, ha⟩
  | d :: rest, p, db, acc, hi, ha => by
    obtain ⟨db1, st, sd, p1, hr, hi1, hne, hsd⟩ := snapshotInto_ok ops d p db hi
    rw [segLoop, hr]
    cases st with
    | err => exact absurd rfl hne
    | skipped => exact segLoop_ok ops rest p1 db1 acc hi1 ha
    | ok =>
      apply segLoop_ok ops rest p1 db1 _ hi1
      intro x hx
      rcases List.mem_append.mp hx with hx | hx
      · exact ha x hx
      · cases sd with
        | none => simp at hx
        | some v =>
          simp only [Option.map_some, Option.toList_some, List.mem_singleton] at hx
          subst hx
          exact hsd v rfl

/-! ### final state and failing links -/

theorem linkLoop_state {σ : Type} (L : Lens σ) (hook : Nat → σ → σ) (failAt : Option Nat) (Q : σ → Prop)
    (hQ : ∀ p st, Q st → Q (hook p st)) :
    ∀ (dps : List PW) (p : Nat) (st : σ) (acc : List DiskPart), Q st → Q (linkLoop L hook failAt dps p st acc).1
  | [], _, _, _, h => h
  | pw :: rest, p, st, acc, h => by
    rw [linkLoop]
    split
    · exact hQ p st h
    · split
      · exact hQ p st h
      · exact linkLoop_state L hook failAt Q hQ rest (p + 1) (hook p st) _ (hQ p st h)

/-- in every outcome the final state is `unpin S` applied to a state the hooks produced from the pinned one. -/
theorem takeFileSnapshot_final {σ : Type} (L : Lens σ) (hook : Nat → σ → σ) (failAt : Option Nat) (dst0 : Option Dst)
    (p0 : Nat) (st : σ) (S : Snap) (hcur : (L.get st).cur = some S) (Q : σ → Prop)
    (hQ : ∀ p st, Q st → Q (hook p st)) (h1 : Q (L.set st ((L.get st).pin S))) :
    ∃ st3, Q st3 ∧ (takeFileSnapshot L hook failAt dst0 p0 st).1 = L.set st3 ((L.get st3).unpin S) := by
  unfold takeFileSnapshot
  simp only [hcur]
  split
  · exact ⟨_, h1, rfl⟩
  · have h2 := linkLoop_state L hook failAt Q hQ S.diskParts p0 _ [] h1
    split
    · rename_i st2 _ _ heq
      rw [heq] at h2
      exact ⟨st2, h2, rfl⟩
    · rename_i st2 _ p heq
      rw [heq] at h2
      exact ⟨hook p st2, hQ p st2 h2, rfl⟩

theorem linkLoop_fail {σ : Type} (L : Lens σ) (hook : Nat → σ → σ) (Env : σ → Prop) (S : Snap)
    (hhook : ∀ p st, Env st → Holds L S st → Env (hook p st) ∧ Holds L S (hook p st)) :
    ∀ (dps : List PW) (p : Nat) (st : σ) (acc : List DiskPart) (f : Nat),
      (∀ pw ∈ dps, pw ∈ S.parts ∧ pw.mem = false) → Env st → Holds L S st → p ≤ f → f < p + dps.length →
      ∃ st' acc' q, linkLoop L hook (some f) dps p st acc = (st', acc', true, q)
  | [], p, st, acc, f, _, _, _, h1, h2 => by simp at h2; omega
  | pw :: rest, p, st, acc, f, hd, he, hh, h1, h2 => by
    rw [linkLoop]
    by_cases e : f = p
    · subst e; simp
    · obtain ⟨he1, hh1⟩ := hhook p st he hh
      have hpw := hd pw (List.mem_cons_self)
      have hon : pw.toDisk ∈ (L.get (hook p st)).disk :=
        hh1.1.live_on_disk S (by simp [Table.live, hh1.2]) pw hpw.1 hpw.2
      have hf := find_toDisk hh1.1.disk_nodup hon
      have : ¬ (some f = some p) := by simpa using e
      simp only [this, if_false, hf]
      exact linkLoop_fail L hook Env S hhook rest (p + 1) (hook p st) _ f
        (fun q hq => hd q (List.mem_cons_of_mem _ hq)) he1 hh1 (by omega) (by simp at h2; omega)

end Banyan.C19
