/-
Lemmas for C19: the table protocol invariant `Table.WF` (every file part of a live snapshot has its complete
directory on disk; ids are unique and fresh) and its preservation by every transition.
-/
import Banyan.Model.C19

namespace Banyan.C19

/-- every file part of `s` has its (complete) directory in `disk`. -/
def Snap.onDisk (s : Snap) (disk : List DiskPart) : Prop :=
  ∀ pw ∈ s.parts, pw.mem = false → pw.toDisk ∈ disk

/-- protocol invariant of a table (the part that C19 relies on). -/
structure Table.WF (t : Table) : Prop where
  live_on_disk : ∀ s ∈ t.live, s.onDisk t.disk
  disk_nodup : (t.disk.map (·.id)).Nodup
  disk_le : ∀ d ∈ t.disk, d.id ≤ t.nextId
  cur_nodup : ∀ s, t.cur = some s → (s.parts.map (·.id)).Nodup
  cur_le : ∀ s, t.cur = some s → ∀ pw ∈ s.parts, pw.id ≤ t.nextId
  mem_fresh : ∀ s, t.cur = some s → ∀ pw ∈ s.parts, pw.mem = true → pw.id ∉ t.disk.map (·.id)

theorem holdsFile_of_mem {s : Snap} {pw : PW} (h : pw ∈ s.parts) (hm : pw.mem = false) :
    s.holdsFile pw.id = true := by
  unfold Snap.holdsFile
  rw [List.any_eq_true]
  exact ⟨pw, h, by simp [hm]⟩

theorem not_dead_of_live {t : Table} {s : Snap} {pw : PW} (hs : s ∈ t.live) (h : pw ∈ s.parts)
    (hm : pw.mem = false) : t.dead pw.id = false := by
  unfold Table.dead
  have : t.live.any (·.holdsFile pw.id) = true := by
    rw [List.any_eq_true]; exact ⟨s, hs, holdsFile_of_mem h hm⟩
  simp [this]

theorem gc_live (t : Table) : t.gc.live = t.live := rfl

theorem wf_gc {t : Table} (h : t.WF) : t.gc.WF := by
  refine ⟨?_, ?_, ?_, h.cur_nodup, h.cur_le, ?_⟩
  · intro s hs pw hp hm
    show pw.toDisk ∈ t.disk.filter _
    rw [List.mem_filter]
    refine ⟨h.live_on_disk s hs pw hp hm, ?_⟩
    have := not_dead_of_live (t := t) hs hp hm
    simpa [PW.toDisk] using this
  · show ((t.disk.filter _).map _).Nodup
    exact (h.disk_nodup).sublist ((List.filter_sublist).map _)
  · intro d hd
    exact h.disk_le d (List.mem_filter.mp hd).1
  · intro s hs pw hp hm hin
    apply h.mem_fresh s hs pw hp hm
    show pw.id ∈ t.disk.map _
    have : (t.gc.disk.map (·.id)).Sublist (t.disk.map (·.id)) := (List.filter_sublist).map _
    exact this.subset hin


theorem wf_replaceSnapshot {t : Table} {parts : List PW} {persist : Bool}
    (hpins : ∀ s ∈ t.pins, s.onDisk t.disk)
    (hparts : ∀ pw ∈ parts, pw.mem = false → pw.toDisk ∈ t.disk)
    (hnd : (t.disk.map (·.id)).Nodup)
    (hle : ∀ d ∈ t.disk, d.id ≤ t.nextId)
    (hpn : (parts.map (·.id)).Nodup)
    (hpl : ∀ pw ∈ parts, pw.id ≤ t.nextId)
    (hmf : ∀ pw ∈ parts, pw.mem = true → pw.id ∉ t.disk.map (·.id)) :
    (t.replaceSnapshot parts persist).WF := by
  unfold Table.replaceSnapshot
  apply wf_gc
  refine ⟨?_, hnd, hle, ?_, ?_, ?_⟩
  · intro s hs
    simp only [Table.live, Option.toList, List.cons_append, List.nil_append, List.mem_cons] at hs
    rcases hs with rfl | hs
    · exact hparts
    · exact hpins s hs
  · intro s hs; simp only [Option.some.injEq] at hs; subst hs; exact hpn
  · intro s hs; simp only [Option.some.injEq] at hs; subst hs; exact hpl
  · intro s hs; simp only [Option.some.injEq] at hs; subst hs; exact hmf

theorem pins_on_disk {t : Table} (h : t.WF) : ∀ s ∈ t.pins, s.onDisk t.disk := by
  intro s hs; exact h.live_on_disk s (by simp [Table.live, hs])

theorem cur_on_disk {t : Table} (h : t.WF) {s : Snap} (hc : t.cur = some s) : s.onDisk t.disk :=
  h.live_on_disk s (by simp [Table.live, hc])

theorem wf_introduce {t : Table} (h : t.WF) (k : Nat) : (t.introduce k).WF := by
  unfold Table.introduce
  apply wf_replaceSnapshot
  · exact pins_on_disk (t := t) h
  · intro pw hp hm
    rw [List.mem_append] at hp
    rcases hp with hp | hp
    · cases hc : t.cur with
      | none => simp [hc] at hp
      | some s => simp only [hc] at hp; exact cur_on_disk h hc pw hp hm
    · simp at hp; subst hp; simp at hm
  · exact h.disk_nodup
  · intro d hd; have := h.disk_le d hd; simp only; omega
  · rw [List.map_append, List.nodup_append]
    refine ⟨?_, by simp, ?_⟩
    · cases hc : t.cur with
      | none => simp
      | some s => exact h.cur_nodup s hc
    · intro a ha b hb
      simp at hb; subst hb
      cases hc : t.cur with
      | none => simp [hc] at ha
      | some s =>
        simp only [hc, List.mem_map] at ha
        obtain ⟨pw, hp, rfl⟩ := ha
        have := h.cur_le s hc pw hp; omega
  · intro pw hp
    rw [List.mem_append] at hp
    rcases hp with hp | hp
    · cases hc : t.cur with
      | none => simp [hc] at hp
      | some s => simp only [hc] at hp; have := h.cur_le s hc pw hp; simp only; omega
    · simp at hp; subst hp; simp
  · intro pw hp hm hin
    rw [List.mem_append] at hp
    rcases hp with hp | hp
    · cases hc : t.cur with
      | none => simp [hc] at hp
      | some s => simp only [hc] at hp; exact h.mem_fresh s hc pw hp hm hin
    · simp at hp; subst hp
      simp only [List.mem_map] at hin
      obtain ⟨d, hd, hid⟩ := hin
      have := h.disk_le d hd
      have h2 : d.id = t.nextId + 1 := hid
      omega

theorem wf_flush {t : Table} (h : t.WF) : t.flush.WF := by
  unfold Table.flush
  cases hc : t.cur with
  | none => simpa using h
  | some s =>
    simp only
    split
    · exact h
    · apply wf_replaceSnapshot
      · intro s' hs' pw hp hm
        exact List.mem_append_left _ (pins_on_disk (t := t) h s' hs' pw hp hm)
      · intro pw' hp' _
        rw [List.mem_map] at hp'
        obtain ⟨pw, hp, rfl⟩ := hp'
        show PW.toDisk { pw with mem := false } ∈ t.disk ++ s.memParts.map PW.toDisk
        have e : PW.toDisk { pw with mem := false } = pw.toDisk := rfl
        rw [e]
        cases hm : pw.mem with
        | true =>
          apply List.mem_append_right
          exact List.mem_map_of_mem (List.mem_filter.mpr ⟨hp, hm⟩)
        | false => exact List.mem_append_left _ (cur_on_disk h hc pw hp hm)
      · show ((t.disk ++ s.memParts.map PW.toDisk).map (·.id)).Nodup
        rw [List.map_append, List.nodup_append]
        refine ⟨h.disk_nodup, ?_, ?_⟩
        · rw [List.map_map]
          have : (s.memParts.map ((·.id) ∘ PW.toDisk)) = s.memParts.map (·.id) := rfl
          rw [this]
          exact (h.cur_nodup s hc).sublist ((List.filter_sublist).map _)
        · intro a ha b hb hab
          subst hab
          rw [List.map_map, List.mem_map] at hb
          obtain ⟨pw, hp, rfl⟩ := hb
          have hp' := List.mem_filter.mp hp
          exact h.mem_fresh s hc pw hp'.1 hp'.2 ha
      · intro d hd
        show d.id ≤ t.nextId
        rw [List.mem_append] at hd
        rcases hd with hd | hd
        · exact h.disk_le d hd
        · rw [List.mem_map] at hd
          obtain ⟨pw, hp, rfl⟩ := hd
          exact h.cur_le s hc pw (List.mem_filter.mp hp).1
      · rw [List.map_map]
        have : (s.parts.map ((·.id) ∘ fun pw => { pw with mem := false })) = s.parts.map (·.id) := rfl
        rw [this]; exact h.cur_nodup s hc
      · intro pw' hp'
        rw [List.mem_map] at hp'
        obtain ⟨pw, hp, rfl⟩ := hp'
        exact h.cur_le s hc pw hp
      · intro pw' hp' hm
        rw [List.mem_map] at hp'
        obtain ⟨pw, hp, rfl⟩ := hp'
        simp at hm

theorem wf_merge {t : Table} (h : t.WF) (pos : List Nat) : (t.merge pos).WF := by
  unfold Table.merge
  cases hc : t.cur with
  | none => simpa using h
  | some s =>
    simp only
    split
    · exact h
    · apply wf_replaceSnapshot
      · intro s' hs' pw hp hm
        exact List.mem_append_left _ (pins_on_disk (t := t) h s' hs' pw hp hm)
      · intro pw hp hm
        rw [List.mem_append] at hp
        rcases hp with hp | hp
        · exact List.mem_append_left _ (cur_on_disk h hc pw (List.mem_filter.mp hp).1 hm)
        · simp only [List.mem_singleton] at hp; subst hp
          exact List.mem_append_right _ (List.mem_singleton.mpr rfl)
      · show ((t.disk ++ [PW.toDisk _]).map (fun d : DiskPart => d.id)).Nodup
        rw [List.map_append, List.nodup_append]
        refine ⟨h.disk_nodup, by simp, ?_⟩
        intro a ha b hb hab
        subst hab
        simp only [List.map_cons, List.map_nil, List.mem_singleton] at hb
        rw [List.mem_map] at ha
        obtain ⟨d, hd, hid⟩ := ha
        have := h.disk_le d hd
        have h2 : d.id = t.nextId + 1 := hid.trans hb
        omega
      · intro d hd
        show d.id ≤ t.nextId + 1
        rw [List.mem_append] at hd
        rcases hd with hd | hd
        · have := h.disk_le d hd; omega
        · simp only [List.mem_singleton] at hd; subst hd; exact Nat.le_refl _
      · rw [List.map_append, List.nodup_append]
        refine ⟨(h.cur_nodup s hc).sublist ((List.filter_sublist).map _), by simp, ?_⟩
        intro a ha b hb hab
        subst hab
        simp only [List.map_cons, List.map_nil, List.mem_singleton] at hb
        rw [List.mem_map] at ha
        obtain ⟨pw, hp, hid⟩ := ha
        have := h.cur_le s hc pw (List.mem_filter.mp hp).1
        omega
      · intro pw hp
        show pw.id ≤ t.nextId + 1
        rw [List.mem_append] at hp
        rcases hp with hp | hp
        · have := h.cur_le s hc pw (List.mem_filter.mp hp).1; omega
        · simp only [List.mem_singleton] at hp; subst hp; exact Nat.le_refl _
      · intro pw hp hm hin
        rw [List.mem_append] at hp
        rcases hp with hp | hp
        · have hp' := (List.mem_filter.mp hp).1
          have hin' : pw.id ∈ (t.disk ++ [PW.toDisk ⟨t.nextId + 1, false, _⟩]).map (·.id) := hin
          rw [List.map_append, List.mem_append] at hin'
          rcases hin' with hin' | hin'
          · exact h.mem_fresh s hc pw hp' hm hin'
          · simp only [List.map_cons, List.map_nil, List.mem_singleton] at hin'
            have := h.cur_le s hc pw hp'
            have h2 : pw.id = t.nextId + 1 := hin'
            omega
        · simp only [List.mem_singleton] at hp; subst hp; simp at hm

theorem wf_step {t : Table} (h : t.WF) (op : MOp) : (t.step op).WF := by
  cases op with
  | introduce k => exact wf_introduce h k
  | flush => exact wf_flush h
  | merge pos => exact wf_merge h pos

theorem wf_run {t : Table} (h : t.WF) (ops : List MOp) : (t.run ops).WF := by
  induction ops generalizing t with
  | nil => exact h
  | cons op rest ih => exact ih (wf_step h op)

theorem wf_empty : ({} : Table).WF := by
  refine ⟨?_, by simp, by simp, by simp, by simp, by simp⟩
  intro s hs; simp [Table.live] at hs

theorem find_toDisk : ∀ {disk : List DiskPart}, (disk.map (·.id)).Nodup → ∀ {pw : PW}, pw.toDisk ∈ disk →
    disk.find? (fun d => d.id == pw.id) = some pw.toDisk
  | [], _, _, h => by simp at h
  | d :: rest, hnd, pw, h => by
    rw [List.map_cons, List.nodup_cons] at hnd
    rw [List.find?_cons]
    by_cases hd : d.id = pw.id
    · have : d = pw.toDisk := by
        rcases List.mem_cons.mp h with h | h
        · exact h.symm
        · exfalso; apply hnd.1
          rw [List.mem_map]; exact ⟨pw.toDisk, h, hd.symm⟩
      have hb : (d.id == pw.id) = true := by simpa using hd
      rw [hb, this]
    · have hne : (d.id == pw.id) = false := by simpa using hd
      rw [hne]
      rcases List.mem_cons.mp h with h | h
      · exfalso; apply hd; rw [← h]; rfl
      · exact find_toDisk hnd.2 h

/-- what `TakeFileSnapshot` relies on while it runs: the table invariant, and that its pin is still there. -/
def Holds {σ : Type} (L : Lens σ) (S : Snap) (st : σ) : Prop := (L.get st).WF ∧ S ∈ (L.get st).pins

theorem wf_pin {t : Table} (h : t.WF) {S : Snap} (hc : t.cur = some S) : (t.pin S).WF := by
  refine ⟨?_, h.disk_nodup, h.disk_le, h.cur_nodup, h.cur_le, h.mem_fresh⟩
  intro s hs
  have : s ∈ t.live := by
    simp only [Table.live, Table.pin, List.mem_append, List.mem_cons] at hs ⊢
    rcases hs with hs | hs | hs
    · exact Or.inl hs
    · subst hs; left; simp [hc]
    · exact Or.inr hs
  exact h.live_on_disk s this

theorem wf_unpin {t : Table} (h : t.WF) (S : Snap) : (t.unpin S).WF := by
  unfold Table.unpin
  apply wf_gc
  refine ⟨?_, h.disk_nodup, h.disk_le, h.cur_nodup, h.cur_le, h.mem_fresh⟩
  intro s hs
  have : s ∈ t.live := by
    simp only [Table.live, List.mem_append] at hs ⊢
    rcases hs with hs | hs
    · exact Or.inl hs
    · exact Or.inr (List.mem_of_mem_erase hs)
  exact h.live_on_disk s this

theorem linkLoop_ok {σ : Type} (L : Lens σ) (hook : Nat → σ → σ) (Env : σ → Prop) (S : Snap)
    (hhook : ∀ p st, Env st → Holds L S st → Env (hook p st) ∧ Holds L S (hook p st)) :
    ∀ (dps : List PW) (p : Nat) (st : σ) (acc : List DiskPart),
      (∀ pw ∈ dps, pw ∈ S.parts ∧ pw.mem = false) → Env st → Holds L S st →
      ∃ st', linkLoop L hook none dps p st acc = (st', acc ++ dps.map PW.toDisk, false, p + dps.length)
        ∧ Env st' ∧ Holds L S st'
  | [], p, st, acc, _, he, hh => ⟨st, by simp [linkLoop], he, hh⟩
  | pw :: rest, p, st, acc, hd, he, hh => by
    obtain ⟨he1, hh1⟩ := hhook p st he hh
    have hpw := hd pw (List.mem_cons_self)
    have hon : pw.toDisk ∈ (L.get (hook p st)).disk :=
      hh1.1.live_on_disk S (by simp [Table.live, hh1.2]) pw hpw.1 hpw.2
    have hf := find_toDisk hh1.1.disk_nodup hon
    obtain ⟨st', hl, he', hh'⟩ := linkLoop_ok L hook Env S hhook rest (p + 1) (hook p st) (acc ++ [pw.toDisk])
      (fun q hq => hd q (List.mem_cons_of_mem _ hq)) he1 hh1
    refine ⟨st', ?_, he', hh'⟩
    rw [linkLoop]
    simp only [reduceCtorEq, if_false, hf, hl]
    simp [Nat.add_assoc, Nat.add_comm 1]

theorem diskParts_spec {S : Snap} : ∀ pw ∈ S.diskParts, pw ∈ S.parts ∧ pw.mem = false := by
  intro pw h
  have := List.mem_filter.mp h
  exact ⟨this.1, by simpa using this.2⟩

/-- Rely/guarantee form of the table-level theorem: whatever the rest of the system does between the sub-steps
    (`hook`), as long as it keeps the table invariant and does not drop somebody else's pin (`Holds`), the
    procedure links exactly the file parts of the pinned snapshot and writes the manifest of that snapshot. -/
theorem takeFileSnapshot_ok {σ : Type} (L : Lens σ) (hook : Nat → σ → σ) (Env : σ → Prop) (S : Snap)
    (hgs : ∀ st t, Env st → L.get (L.set st t) = t)
    (hset : ∀ st t, Env st → Env (L.set st t))
    (hhook : ∀ p st, Env st → Holds L S st → Env (hook p st) ∧ Holds L S (hook p st))
    (st : σ) (henv : Env st) (hwf : (L.get st).WF) (hcur : (L.get st).cur = some S) (hne : S.diskParts ≠ [])
    (dst0 : Option Dst) (p0 : Nat) :
    ∃ st', takeFileSnapshot L hook none dst0 p0 st =
        (st', ⟨.ok, some ⟨S.diskParts.map PW.toDisk, some S.ids⟩⟩, p0 + S.diskParts.length + 1)
      ∧ Env st' ∧ (L.get st').WF := by
  have e1 : Env (L.set st ((L.get st).pin S)) := hset _ _ henv
  have g1 : L.get (L.set st ((L.get st).pin S)) = (L.get st).pin S := hgs _ _ henv
  have h1 : Holds L S (L.set st ((L.get st).pin S)) := by
    unfold Holds; rw [g1]; exact ⟨wf_pin hwf hcur, by simp [Table.pin]⟩
  obtain ⟨st2, hl, e2, h2⟩ := linkLoop_ok L hook Env S hhook S.diskParts p0 _ [] diskParts_spec e1 h1
  obtain ⟨e3, h3⟩ := hhook (p0 + S.diskParts.length) st2 e2 h2
  refine ⟨L.set (hook (p0 + S.diskParts.length) st2) ((L.get (hook (p0 + S.diskParts.length) st2)).unpin S), ?_,
    hset _ _ e3, ?_⟩
  · unfold takeFileSnapshot
    simp only [hcur]
    have : S.diskParts.isEmpty = false := by
      cases hd : S.diskParts with
      | nil => exact absurd hd hne
      | cons a b => rfl
    simp only [this, Bool.false_eq_true, if_false, hl, List.nil_append, manifestOf]
  · rw [hgs _ _ e3]; exact wf_unpin h3.1 S

theorem recover_linked (S : Snap) :
    recover ⟨S.diskParts.map PW.toDisk, some S.ids⟩ = S.diskParts.map PW.toDisk := by
  unfold recover
  simp only
  rw [List.filter_eq_self]
  intro d hd
  rw [List.mem_map] at hd
  obtain ⟨pw, hp, rfl⟩ := hd
  have := (diskParts_spec pw hp).1
  simp only [PW.toDisk, Bool.and_true]
  rw [List.contains_iff_mem]
  exact List.mem_map_of_mem (f := (·.id)) this

theorem content_linked (l : List PW) : content (l.map PW.toDisk) = l.flatMap (·.batches) := by
  unfold content
  rw [List.flatMap_map]
  rfl

theorem gc_pins (t : Table) : t.gc.pins = t.pins := rfl
theorem replaceSnapshot_pins (t : Table) (ps : List PW) (b : Bool) : (t.replaceSnapshot ps b).pins = t.pins := rfl

theorem step_pins (t : Table) (op : MOp) : (t.step op).pins = t.pins := by
  cases op with
  | introduce k => rfl
  | flush =>
    simp only [Table.step, Table.flush]
    split
    · rfl
    · split <;> rfl
  | merge pos =>
    simp only [Table.step, Table.merge]
    split
    · rfl
    · split <;> rfl

theorem run_pins (t : Table) (ops : List MOp) : (t.run ops).pins = t.pins := by
  induction ops generalizing t with
  | nil => rfl
  | cons op rest ih => show (Table.run (t.step op) rest).pins = _; rw [ih, step_pins]

/-! ### the flushed data is a prefix of the introduction log -/

structure Table.Hist (t : Table) : Prop where
  mark_le : t.mark ≤ t.log.length
  flushed_iff : ∀ b, b ∈ t.flushed ↔ b ∈ t.log.take t.mark
  unflushed_iff : ∀ b, b ∈ t.unflushed ↔ b ∈ t.log.drop t.mark

theorem replaceSnapshot_cur (t : Table) (ps : List PW) (b : Bool) :
    (t.replaceSnapshot ps b).cur = some ⟨t.epoch + 1, ps⟩ := rfl
theorem replaceSnapshot_log (t : Table) (ps : List PW) (b : Bool) : (t.replaceSnapshot ps b).log = t.log := rfl
theorem replaceSnapshot_mark (t : Table) (ps : List PW) (b : Bool) : (t.replaceSnapshot ps b).mark = t.mark := rfl

theorem hist_empty : ({} : Table).Hist := ⟨by simp, by simp [Table.flushed], by simp [Table.unflushed]⟩

theorem hist_introduce {t : Table} (h : t.Hist) (k : Nat) : (t.introduce k).Hist := by
  have hm := h.mark_le
  refine ⟨?_, ?_, ?_⟩
  · show t.mark ≤ (t.log ++ [k]).length
    simp; omega
  · intro b
    show b ∈ (t.introduce k).flushed ↔ b ∈ (t.log ++ [k]).take t.mark
    rw [List.take_append_of_le_length hm, ← h.flushed_iff]
    unfold Table.flushed Table.introduce
    rw [replaceSnapshot_cur]
    simp only [Snap.diskParts, List.filter_append]
    cases hc : t.cur <;> simp
  · intro b
    show b ∈ (t.introduce k).unflushed ↔ b ∈ (t.log ++ [k]).drop t.mark
    rw [List.drop_append_of_le_length hm, List.mem_append, ← h.unflushed_iff]
    unfold Table.unflushed Table.introduce
    rw [replaceSnapshot_cur]
    simp only [Snap.memParts, List.filter_append]
    cases hc : t.cur <;> simp

theorem mem_parts_split (s : Snap) (b : Nat) :
    b ∈ s.parts.flatMap (·.batches) ↔ b ∈ s.diskParts.flatMap (·.batches) ∨ b ∈ s.memParts.flatMap (·.batches) := by
  simp only [List.mem_flatMap, Snap.diskParts, Snap.memParts, List.mem_filter]
  constructor
  · rintro ⟨pw, hp, hb⟩
    cases hm : pw.mem
    · exact Or.inl ⟨pw, ⟨hp, by simp [hm]⟩, hb⟩
    · exact Or.inr ⟨pw, ⟨hp, hm⟩, hb⟩
  · rintro (⟨pw, ⟨hp, _⟩, hb⟩ | ⟨pw, ⟨hp, _⟩, hb⟩) <;> exact ⟨pw, hp, hb⟩

theorem hist_flush {t : Table} (h : t.Hist) : t.flush.Hist := by
  unfold Table.flush
  cases hc : t.cur with
  | none => simpa using h
  | some s =>
    simp only
    split
    · exact h
    · refine ⟨?_, ?_, ?_⟩
      · show t.log.length ≤ t.log.length; exact Nat.le_refl _
      · intro b
        show b ∈ Table.flushed _ ↔ b ∈ t.log.take t.log.length
        rw [List.take_length]
        unfold Table.flushed
        rw [replaceSnapshot_cur]
        simp only [Snap.diskParts]
        have e : (s.parts.map fun pw => { pw with mem := false }).filter (fun pw => !pw.mem)
            = s.parts.map fun pw => { pw with mem := false } := by
          rw [List.filter_eq_self]; intro a ha; rw [List.mem_map] at ha; obtain ⟨pw, _, rfl⟩ := ha; rfl
        rw [e, List.flatMap_map]
        have e2 : (s.parts.flatMap fun pw => ({ pw with mem := false } : PW).batches) = s.parts.flatMap (·.batches) := rfl
        rw [e2, mem_parts_split]
        have hf := h.flushed_iff b
        have hu := h.unflushed_iff b
        simp only [Table.flushed, Table.unflushed, hc] at hf hu
        rw [hf, hu, ← List.mem_append, List.take_append_drop]
      · intro b
        show b ∈ Table.unflushed _ ↔ b ∈ t.log.drop t.log.length
        rw [List.drop_length]
        unfold Table.unflushed
        rw [replaceSnapshot_cur]
        simp only [Snap.memParts]
        have e : (s.parts.map fun pw => { pw with mem := false }).filter (fun pw => pw.mem) = [] := by
          rw [List.filter_eq_nil_iff]; intro a ha; rw [List.mem_map] at ha; obtain ⟨pw, _, rfl⟩ := ha; simp
        rw [e]; simp

theorem eq_of_nodup_map {α β : Type} (f : α → β) : ∀ {l : List α}, (l.map f).Nodup →
    ∀ {x y : α}, x ∈ l → y ∈ l → f x = f y → x = y
  | [], _, _, _, hx, _, _ => by simp at hx
  | a :: rest, hnd, x, y, hx, hy, hxy => by
    rw [List.map_cons, List.nodup_cons] at hnd
    rcases List.mem_cons.mp hx with hx | hx <;> rcases List.mem_cons.mp hy with hy | hy
    · rw [hx, hy]
    · exfalso; apply hnd.1; rw [← hx, hxy]; exact List.mem_map_of_mem hy
    · exfalso; apply hnd.1; rw [← hy, ← hxy]; exact List.mem_map_of_mem hx
    · exact eq_of_nodup_map f hnd.2 hx hy hxy

theorem pickAux_subset {α : Type} (pos : List Nat) : ∀ (i : Nat) (l : List α), ∀ a ∈ pickAux pos i l, a ∈ l
  | _, [], a, h => by simp [pickAux] at h
  | i, b :: rest, a, h => by
    rw [pickAux] at h
    split at h
    · rcases List.mem_cons.mp h with h | h
      · rw [h]; exact List.mem_cons_self
      · exact List.mem_cons_of_mem _ (pickAux_subset pos (i + 1) rest a h)
    · exact List.mem_cons_of_mem _ (pickAux_subset pos (i + 1) rest a h)

theorem pick_subset {α : Type} (l : List α) (pos : List Nat) : ∀ a ∈ pick l pos, a ∈ l :=
  pickAux_subset pos 0 l

theorem hist_merge {t : Table} (hwf : t.WF) (h : t.Hist) (pos : List Nat) : (t.merge pos).Hist := by
  unfold Table.merge
  cases hc : t.cur with
  | none => simpa using h
  | some s =>
    simp only
    split
    · exact h
    · have hnd := hwf.cur_nodup s hc
      have hsel : ∀ pw ∈ pick s.diskParts pos, pw ∈ s.parts ∧ pw.mem = false :=
        fun pw hp => diskParts_spec pw (pick_subset _ _ pw hp)
      -- a part of the current snapshot whose id was merged away is one of the selected parts
      have hgone : ∀ pw ∈ s.parts, pw.id ∈ (pick s.diskParts pos).map (·.id) → pw ∈ pick s.diskParts pos := by
        intro pw hp hid
        rw [List.mem_map] at hid
        obtain ⟨pw', hp', hid'⟩ := hid
        have : pw' = pw := eq_of_nodup_map (·.id) hnd (hsel pw' hp').1 hp hid'
        rw [← this]; exact hp'
      generalize pick s.diskParts pos = sel at hsel hgone ⊢
      refine ⟨h.mark_le, ?_, ?_⟩
      · intro b
        show b ∈ Table.flushed _ ↔ b ∈ t.log.take t.mark
        rw [← h.flushed_iff]
        unfold Table.flushed
        rw [replaceSnapshot_cur, hc]
        simp only [Snap.diskParts, List.filter_append, List.flatMap_append, List.mem_append, List.mem_flatMap,
          List.mem_filter]
        constructor
        · rintro (⟨pw, ⟨⟨hp, _⟩, hm⟩, hb⟩ | ⟨pw, ⟨hp, _⟩, hb⟩)
          · exact ⟨pw, ⟨hp, hm⟩, hb⟩
          · simp only [List.mem_singleton] at hp; subst hp
            simp only [List.mem_flatMap] at hb
            obtain ⟨pw', hp', hb'⟩ := hb
            exact ⟨pw', ⟨(hsel pw' hp').1, by simp [(hsel pw' hp').2]⟩, hb'⟩
        · rintro ⟨pw, ⟨hp, hm⟩, hb⟩
          by_cases hg : pw.id ∈ sel.map (·.id)
          · right
            refine ⟨_, ⟨List.mem_singleton.mpr rfl, by simp⟩, ?_⟩
            simp only [List.mem_flatMap]
            exact ⟨pw, hgone pw hp hg, hb⟩
          · left
            refine ⟨pw, ⟨⟨hp, ?_⟩, hm⟩, hb⟩
            simpa [List.contains_iff_mem] using hg
      · intro b
        show b ∈ Table.unflushed _ ↔ b ∈ t.log.drop t.mark
        rw [← h.unflushed_iff]
        unfold Table.unflushed
        rw [replaceSnapshot_cur, hc]
        simp only [Snap.memParts, List.filter_append, List.flatMap_append, List.mem_append, List.mem_flatMap,
          List.mem_filter]
        constructor
        · rintro (⟨pw, ⟨⟨hp, _⟩, hm⟩, hb⟩ | ⟨pw, ⟨hp, hm⟩, hb⟩)
          · exact ⟨pw, ⟨hp, hm⟩, hb⟩
          · simp only [List.mem_singleton] at hp; subst hp; simp at hm
        · rintro ⟨pw, ⟨hp, hm⟩, hb⟩
          left
          refine ⟨pw, ⟨⟨hp, ?_⟩, hm⟩, hb⟩
          have : pw.id ∉ sel.map (·.id) := by
            intro hg
            have := (hsel pw (hgone pw hp hg)).2
            rw [hm] at this; cases this
          simpa [List.contains_iff_mem] using this

theorem hist_step {t : Table} (hwf : t.WF) (h : t.Hist) (op : MOp) : (t.step op).Hist := by
  cases op with
  | introduce k => exact hist_introduce h k
  | flush => exact hist_flush h
  | merge pos => exact hist_merge hwf h pos

theorem hist_run {t : Table} (hwf : t.WF) (h : t.Hist) (ops : List MOp) : (t.run ops).Hist := by
  induction ops generalizing t with
  | nil => exact h
  | cons op rest ih => exact ih (wf_step hwf op) (hist_step hwf h op)

/-- the batches introduced by a history, in order. -/
def introduced : List MOp → List Nat
  | [] => []
  | .introduce k :: rest => k :: introduced rest
  | _ :: rest => introduced rest

theorem step_log (t : Table) (op : MOp) : (t.step op).log = t.log ++ introduced [op] := by
  cases op with
  | introduce k => rfl
  | flush =>
    simp only [Table.step, Table.flush, introduced, List.append_nil]
    split
    · rfl
    · split <;> rfl
  | merge pos =>
    simp only [Table.step, Table.merge, introduced, List.append_nil]
    split
    · rfl
    · split <;> rfl

theorem introduced_cons (op : MOp) (rest : List MOp) : introduced (op :: rest) = introduced [op] ++ introduced rest := by
  cases op <;> simp [introduced]

theorem run_log (t : Table) (ops : List MOp) : (t.run ops).log = t.log ++ introduced ops := by
  induction ops generalizing t with
  | nil => simp [Table.run, introduced]
  | cons op rest ih =>
    show (Table.run (t.step op) rest).log = _
    rw [ih, step_log, List.append_assoc, ← introduced_cons]

end Banyan.C19
