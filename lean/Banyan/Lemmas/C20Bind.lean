/-
C20 helper lemmas, part 2: list-level facts about resolving parameters and writing them into positions.
-/
import Banyan.Lemmas.C20Lens

namespace Banyan.C20

/-! ### resolveAll -/

theorem resolveAll_cons_ok {k : SlotKind} {ks : List SlotKind} {p : ParamVal} {ps : List ParamVal} {i : Nat}
    {rs : List Resolved} (h : resolveAll (k :: ks) (p :: ps) i = .ok rs) :
    ∃ r rs', resolveOne k p (i + 1) = .ok r ∧ resolveAll ks ps (i + 1) = .ok rs' ∧ rs = r :: rs' := by
  unfold resolveAll at h
  split at h
  · cases h
  · rename_i r hr
    split at h
    · cases h
    · rename_i rs' hrs
      injection h with h
      exact ⟨r, rs', hr, hrs, h.symm⟩

theorem resolveAll_cons_of {k : SlotKind} {ks : List SlotKind} {p : ParamVal} {ps : List ParamVal} {i : Nat}
    {r : Resolved} {rs : List Resolved} (h1 : resolveOne k p (i + 1) = .ok r) (h2 : resolveAll ks ps (i + 1) = .ok rs) :
    resolveAll (k :: ks) (p :: ps) i = .ok (r :: rs) := by
  unfold resolveAll; rw [h1]; simp only; rw [h2]

theorem resolveAll_length : ∀ (ks : List SlotKind) (ps : List ParamVal) (i : Nat) (rs : List Resolved),
    ks.length ≤ ps.length → resolveAll ks ps i = .ok rs → rs.length = ks.length
  | [], _, _, rs, _, h => by simp [resolveAll] at h; subst h; rfl
  | _ :: _, [], _, _, hl, _ => by simp at hl
  | k :: ks, p :: ps, i, rs, hl, h => by
    obtain ⟨r, rs', _, hrs, rfl⟩ := resolveAll_cons_ok h
    simp only [List.length_cons] at hl ⊢
    rw [resolveAll_length ks ps (i + 1) rs' (by omega) hrs]

/-- splitting the loop at a position boundary. -/
theorem resolveAll_append : ∀ (a b : List SlotKind) (ps : List ParamVal) (i : Nat) (rs : List Resolved),
    a.length ≤ ps.length → resolveAll (a ++ b) ps i = .ok rs →
    ∃ r1 r2, resolveAll a (ps.take a.length) i = .ok r1 ∧ resolveAll b (ps.drop a.length) (i + a.length) = .ok r2 ∧
      rs = r1 ++ r2 ∧ r1.length = a.length
  | [], b, ps, i, rs, _, h => ⟨[], rs, by simp [resolveAll], by simpa using h, rfl, rfl⟩
  | _ :: _, _, [], _, _, hl, _ => by simp at hl
  | k :: a, b, p :: ps, i, rs, hl, h => by
    simp only [List.cons_append] at h
    obtain ⟨r, rs', hr, hrs, rfl⟩ := resolveAll_cons_ok h
    simp only [List.length_cons] at hl
    obtain ⟨r1, r2, h1, h2, rfl, hlen⟩ := resolveAll_append a b ps (i + 1) rs' (by omega) hrs
    refine ⟨r :: r1, r2, ?_, ?_, rfl, by simp [hlen]⟩
    · simp only [List.length_cons, List.take_succ_cons]
      exact resolveAll_cons_of hr h1
    · simp only [List.length_cons, List.drop_succ_cons]
      rw [show i + (a.length + 1) = i + 1 + a.length by omega]
      exact h2

theorem resolveOne_ok {k : SlotKind} {p : ParamVal} {pos : Nat} {r : Resolved} (h : resolveOne k p pos = .ok r) :
    p ≠ .none_ ∧ resolve k p = .ok r := by
  unfold resolveOne at h
  split at h
  · cases h
  · rename_i hp
    split at h
    · cases h
    · rename_i r' hr
      injection h with h
      subst h
      exact ⟨fun e => hp e, hr⟩

/-- an accepted value-list parameter is spliced as the literal values of its own type. -/
theorem resolveList_lit {p : ParamVal} {ws : List Value} (h : resolveList p = .ok ws) : litVals p = some ws := by
  cases p <;> simp [resolveList, resolveArray, litVals] at h ⊢
  all_goals first
    | exact h
    | (rename_i l; cases l <;> simp at h ⊢ <;> exact h)

/-! ### in-place binding writes exactly the literal substitution -/

theorem fillVals_nonparam_cons (v : Value) (vs : List Value) (rs : List Resolved) (h : ∀ i, v ≠ .param i) :
    fillVals (v :: vs) rs = v :: fillVals vs rs := by
  cases v <;> simp [fillVals] at *

theorem substVals_nonparam_cons (v : Value) (vs : List Value) (ps : List ParamVal) (h : ∀ i, v ≠ .param i) :
    substVals (v :: vs) ps = v :: substVals vs ps := by
  cases v <;> simp [substVals] at *

theorem valSlots_nonparam_cons (k : SlotKind) (v : Value) (vs : List Value) (h : ∀ i, v ≠ .param i) :
    valSlots k (v :: vs) = valSlots k vs := by
  cases v <;> simp [valSlots] at *

theorem fillVals_eq_substVals : ∀ (vs : List Value) (ps : List ParamVal) (i : Nat) (rs : List Resolved),
    (valSlots .list vs).length = ps.length → resolveAll (valSlots .list vs) ps i = .ok rs →
    fillVals vs rs = substVals vs ps
  | [], _, _, _, _, _ => by simp [fillVals, substVals]
  | v :: vs, ps, i, rs, hl, h => by
    by_cases hv : ∃ j, v = .param j
    · obtain ⟨j, rfl⟩ := hv
      simp only [valSlots] at hl h
      match ps, hl with
      | p :: ps, hl =>
        obtain ⟨r, rs', hr, hrs, rfl⟩ := resolveAll_cons_ok h
        obtain ⟨_, hres⟩ := resolveOne_ok hr
        simp only [resolve] at hres
        cases hl' : resolveList p with
        | error e => rw [hl'] at hres; cases hres
        | ok ws =>
          rw [hl'] at hres
          injection hres with hres
          subst hres
          simp only [fillVals, substVals, resolveList_lit hl']
          rw [fillVals_eq_substVals vs ps (i + 1) rs' (by simpa using hl) hrs]
    · have hv' : ∀ j, v ≠ .param j := fun j e => hv ⟨j, e⟩
      rw [valSlots_nonparam_cons _ _ _ hv'] at hl h
      rw [fillVals_nonparam_cons _ _ _ hv', substVals_nonparam_cons _ _ _ hv',
        fillVals_eq_substVals vs ps i rs hl h]

theorem resolveAll_one {k : SlotKind} {ps : List ParamVal} {i : Nat} {rs : List Resolved}
    (hl : [k].length = ps.length) (h : resolveAll [k] ps i = .ok rs) :
    ∃ p r, ps = [p] ∧ rs = [r] ∧ p ≠ .none_ ∧ resolve k p = .ok r := by
  match ps, hl with
  | [p], _ =>
    obtain ⟨r, rs', hr, hrs, rfl⟩ := resolveAll_cons_ok h
    simp [resolveAll] at hrs
    subst hrs
    obtain ⟨hp, hres⟩ := resolveOne_ok hr
    exact ⟨p, r, rfl, rfl, hp, hres⟩

theorem resolveAll_nil {ps : List ParamVal} {i : Nat} {rs : List Resolved}
    (hl : ([] : List SlotKind).length = ps.length) (h : resolveAll [] ps i = .ok rs) : ps = [] ∧ rs = [] := by
  cases ps with
  | nil => simp [resolveAll] at h; subst h; exact ⟨rfl, rfl⟩
  | cons _ _ => simp at hl

theorem fillLeaf_eq_substLeaf (h : Leaf) (ps : List ParamVal) (i : Nat) (rs : List Resolved)
    (hl : h.slots.length = ps.length) (hr : resolveAll h.slots ps i = .ok rs) : fillLeaf h rs = substLeaf h ps := by
  cases h with
  | scalar v =>
    cases v with
    | param j =>
      simp only [Leaf.slots] at hl hr
      obtain ⟨p, r, rfl, rfl, _, hres⟩ := resolveAll_one hl hr
      cases p <;> simp [resolve, resolveScalar, Except.map] at hres <;> subst hres <;> rfl
    | str _ => obtain ⟨rfl, rfl⟩ := resolveAll_nil hl hr; rfl
    | int _ => obtain ⟨rfl, rfl⟩ := resolveAll_nil hl hr; rfl
    | null => obtain ⟨rfl, rfl⟩ := resolveAll_nil hl hr; rfl
  | vlist vs =>
    simp only [Leaf.slots] at hl hr
    simp only [fillLeaf, substLeaf, fillVals_eq_substVals vs ps i rs hl hr]
  | multi m =>
    cases m with
    | single v =>
      simp only [Leaf.slots, Multi.values] at hl hr
      simp only [fillLeaf, substLeaf, fillMulti, substMulti, fillVals_eq_substVals [v] ps i rs hl hr]
    | array vs =>
      simp only [Leaf.slots, Multi.values] at hl hr
      simp only [fillLeaf, substLeaf, fillMulti, substMulti, fillVals_eq_substVals vs ps i rs hl hr]
  | time t =>
    cases t with
    | param j =>
      simp only [Leaf.slots] at hl hr
      obtain ⟨p, r, rfl, rfl, _, hres⟩ := resolveAll_one hl hr
      cases p with
      | str s => simp [resolve, resolveTime, Except.map] at hres; subst hres; rfl
      | ts sec nanos =>
        by_cases hv : tsValid sec nanos = true
        · simp [resolve, resolveTime, Except.map, hv] at hres; subst hres; rfl
        · simp [resolve, resolveTime, Except.map, hv] at hres
      | _ => simp [resolve, resolveTime, Except.map] at hres
    | str _ => obtain ⟨rfl, rfl⟩ := resolveAll_nil hl hr; rfl
    | int _ => obtain ⟨rfl, rfl⟩ := resolveAll_nil hl hr; rfl
  | count m c =>
    cases c with
    | param j =>
      simp only [Leaf.slots] at hl hr
      obtain ⟨p, r, rfl, rfl, _, hres⟩ := resolveAll_one hl hr
      cases p with
      | int v =>
        by_cases hv : validateCount v m = true
        · simp [resolve, resolveCount, Except.map, hv] at hres; subst hres; rfl
        · simp [resolve, resolveCount, Except.map, hv] at hres
      | _ => simp [resolve, resolveCount, Except.map] at hres
    | lit _ => obtain ⟨rfl, rfl⟩ := resolveAll_nil hl hr; rfl

theorem slotsOf_cons (h : Leaf) (hs : List Leaf) : slotsOf (h :: hs) = h.slots ++ slotsOf hs := by
  simp [slotsOf]

theorem fillLeaves_eq_substLeaves : ∀ (hs : List Leaf) (ps : List ParamVal) (i : Nat) (rs : List Resolved),
    (slotsOf hs).length = ps.length → resolveAll (slotsOf hs) ps i = .ok rs → fillLeaves hs rs = substLeaves hs ps
  | [], _, _, _, _, _ => rfl
  | h :: hs, ps, i, rs, hl, hr => by
    rw [slotsOf_cons] at hl hr
    have hle : h.slots.length ≤ ps.length := by simp at hl; omega
    obtain ⟨r1, r2, h1, h2, rfl, hlen⟩ := resolveAll_append _ _ ps i rs hle hr
    simp only [fillLeaves, substLeaves]
    rw [List.take_left' hlen, List.drop_left' hlen]
    rw [fillLeaf_eq_substLeaf h _ i r1 (by simp; omega) h1,
      fillLeaves_eq_substLeaves hs _ _ r2 (by simp at hl ⊢; omega) h2]

/-! ### every write-back keeps the kind of the position -/

theorem fillLeaf_kind (h : Leaf) (rs : List Resolved) : (fillLeaf h rs).kind = h.kind := by
  unfold fillLeaf; split <;> rfl

theorem substLeaf_kind (h : Leaf) (ps : List ParamVal) : (substLeaf h ps).kind = h.kind := by
  unfold substLeaf; split <;> rfl

theorem expandLeaf_kind (h : Leaf) (ls : List (Option Nat)) : (expandLeaf h ls).kind = h.kind := by
  unfold expandLeaf; split <;> rfl

theorem numberLeaf_kind (h : Leaf) (k : Nat) : (numberLeaf h k).kind = h.kind := by
  unfold numberLeaf; split <;> rfl

theorem overlayLeaf_kind (ov : List Resolved) (h : Leaf) : (overlayLeaf ov h).kind = h.kind := by
  unfold overlayLeaf; split <;> (try split) <;> rfl

theorem fillLeaves_compat : ∀ (hs : List Leaf) (rs : List Resolved), Compat hs (fillLeaves hs rs)
  | [], _ => rfl
  | h :: hs, rs => by
    have ih := fillLeaves_compat hs (rs.drop h.slots.length)
    simp only [Compat, fillLeaves, List.map_cons, fillLeaf_kind] at *
    rw [ih]

theorem substLeaves_compat : ∀ (hs : List Leaf) (ps : List ParamVal), Compat hs (substLeaves hs ps)
  | [], _ => rfl
  | h :: hs, ps => by
    have ih := substLeaves_compat hs (ps.drop h.slots.length)
    simp only [Compat, substLeaves, List.map_cons, substLeaf_kind] at *
    rw [ih]

theorem expandLeaves_compat : ∀ (hs : List Leaf) (ls : List (Option Nat)), Compat hs (expandLeaves hs ls)
  | [], _ => rfl
  | h :: hs, ls => by
    have ih := expandLeaves_compat hs (ls.drop h.slots.length)
    simp only [Compat, expandLeaves, List.map_cons, expandLeaf_kind] at *
    rw [ih]

theorem numberLeaves_compat : ∀ (hs : List Leaf) (k : Nat), Compat hs (numberLeaves hs k)
  | [], _ => rfl
  | h :: hs, k => by
    have ih := numberLeaves_compat hs (k + h.slots.length)
    simp only [Compat, numberLeaves, List.map_cons, numberLeaf_kind] at *
    rw [ih]

theorem overlayLeaves_compat (ov : List Resolved) : ∀ (hs : List Leaf), Compat hs (hs.map (overlayLeaf ov))
  | [] => rfl
  | h :: hs => by
    have ih := overlayLeaves_compat ov hs
    simp only [Compat, List.map_cons, overlayLeaf_kind, List.map_map] at *
    rw [ih]

theorem Compat.trans {a b c : List Leaf} (h1 : Compat a b) (h2 : Compat b c) : Compat a c := by
  unfold Compat at *; rw [h1, h2]

/-! ### the shape of the literal substitution is the template's shape after the documented array expansion;
    only the *lengths* of array parameters enter -/

theorem litVals_length (p : ParamVal) :
    (match litVals p with
     | some ws => ws.length
     | none => 1) = (match p.arrLen with
                     | some n => n
                     | none => 1) := by
  cases p <;> simp [litVals, ParamVal.arrLen]

theorem substVals_length : ∀ (vs : List Value) (ps : List ParamVal),
    (substVals vs ps).length = (expandVals vs (ps.map ParamVal.arrLen)).length
  | [], _ => by simp [substVals, expandVals]
  | v :: vs, ps => by
    cases v with
    | param j =>
      cases ps with
      | nil => simp [substVals, expandVals]; exact substVals_length vs []
      | cons p ps =>
        have ih := substVals_length vs ps
        have hp := litVals_length p
        cases hlit : litVals p <;> cases harr : p.arrLen <;> rw [hlit, harr] at hp <;>
          simp [substVals, expandVals, hlit, harr, ih] at hp ⊢ <;> omega
    | str _ => simp [substVals, expandVals]; exact substVals_length vs ps
    | int _ => simp [substVals, expandVals]; exact substVals_length vs ps
    | null => simp [substVals, expandVals]; exact substVals_length vs ps

theorem regroup_shape (b : Bool) {ws ws' : List Value} (h : ws.length = ws'.length) :
    (Leaf.multi (regroup b ws)).shape = (Leaf.multi (regroup b ws')).shape := by
  cases b
  · simp [regroup, Leaf.shape, h]
  · match ws, ws', h with
    | [], [], _ => rfl
    | [_], [_], _ => rfl
    | _ :: _ :: _, _ :: _ :: _, h => simp [regroup, Leaf.shape] at h ⊢; exact h

theorem substLeaf_shape (h : Leaf) (ps : List ParamVal) :
    (substLeaf h ps).shape = (expandLeaf h (ps.map ParamVal.arrLen)).shape := by
  cases h with
  | scalar v =>
    obtain ⟨w, hw⟩ := Leaf.kind_scalar (substLeaf_kind (.scalar v) ps)
    obtain ⟨w', hw'⟩ := Leaf.kind_scalar (expandLeaf_kind (.scalar v) (ps.map ParamVal.arrLen))
    rw [hw, hw']; rfl
  | vlist vs => simp [substLeaf, expandLeaf, Leaf.shape, substVals_length]
  | multi m =>
    cases m with
    | single v => simp only [substLeaf, expandLeaf, substMulti]; exact regroup_shape _ (substVals_length _ _)
    | array vs => simp only [substLeaf, expandLeaf, substMulti]; exact regroup_shape _ (substVals_length _ _)
  | time t =>
    obtain ⟨w, hw⟩ := Leaf.kind_time (substLeaf_kind (.time t) ps)
    obtain ⟨w', hw'⟩ := Leaf.kind_time (expandLeaf_kind (.time t) (ps.map ParamVal.arrLen))
    rw [hw, hw']; rfl
  | count m c =>
    obtain ⟨w, hw⟩ := Leaf.kind_count (substLeaf_kind (.count m c) ps)
    obtain ⟨w', hw'⟩ := Leaf.kind_count (expandLeaf_kind (.count m c) (ps.map ParamVal.arrLen))
    rw [hw, hw']; rfl

theorem substLeaves_shape : ∀ (hs : List Leaf) (ps : List ParamVal),
    SameShape (substLeaves hs ps) (expandLeaves hs (ps.map ParamVal.arrLen))
  | [], _ => rfl
  | h :: hs, ps => by
    have ih := substLeaves_shape hs (ps.drop h.slots.length)
    simp only [SameShape, substLeaves, expandLeaves, List.map_cons, ← List.map_take, ← List.map_drop,
      substLeaf_shape] at *
    rw [ih]

/-! ### reading the numbered template through the overlay = writing the resolved values in place -/

theorem resolve_list_vals {p : ParamVal} {r : Resolved} (h : resolve .list p = .ok r) : ∃ ws, r = .vals ws := by
  simp only [resolve] at h
  cases hl : resolveList p with
  | error e => rw [hl] at h; cases h
  | ok ws => rw [hl] at h; injection h with h; exact ⟨ws, h.symm⟩

theorem getElem?_mid (pre : List Resolved) (r : Resolved) (rs tail : List Resolved) :
    (pre ++ (r :: rs) ++ tail)[pre.length]? = some r := by
  simp

theorem numberVals_nonparam_cons (v : Value) (vs : List Value) (k : Nat) (h : ∀ i, v ≠ .param i) :
    numberVals (v :: vs) k = v :: numberVals vs k := by
  cases v <;> simp [numberVals] at *

theorem overlayVals_nonparam_cons (ov : List Resolved) (v : Value) (vs : List Value) (h : ∀ i, v ≠ .param i) :
    overlayVals ov (v :: vs) = v :: overlayVals ov vs := by
  cases v <;> simp [overlayVals] at *

theorem overlayVals_number : ∀ (vs : List Value) (ps : List ParamVal) (i : Nat) (rs pre tail : List Resolved),
    (valSlots .list vs).length = ps.length → resolveAll (valSlots .list vs) ps i = .ok rs →
    overlayVals (pre ++ rs ++ tail) (numberVals vs pre.length) = fillVals vs rs
  | [], _, _, _, _, _, _, _ => by simp [numberVals, overlayVals, fillVals]
  | v :: vs, ps, i, rs, pre, tail, hl, h => by
    by_cases hv : ∃ j, v = .param j
    · obtain ⟨j, rfl⟩ := hv
      simp only [valSlots] at hl h
      match ps, hl with
      | p :: ps, hl =>
        obtain ⟨r, rs', hr, hrs, rfl⟩ := resolveAll_cons_ok h
        obtain ⟨_, hres⟩ := resolveOne_ok hr
        obtain ⟨ws, rfl⟩ := resolve_list_vals hres
        have ih := overlayVals_number vs ps (i + 1) rs' (pre ++ [.vals ws]) tail (by simpa using hl) hrs
        simp only [List.length_append, List.length_singleton, List.append_assoc, List.singleton_append] at ih
        simp only [numberVals, overlayVals, fillVals, getElem?_mid]
        simp only [List.append_assoc, List.cons_append] at ih ⊢
        rw [ih]
    · have hv' : ∀ j, v ≠ .param j := fun j e => hv ⟨j, e⟩
      rw [valSlots_nonparam_cons _ _ _ hv'] at hl h
      rw [numberVals_nonparam_cons _ _ _ hv', overlayVals_nonparam_cons _ _ _ hv', fillVals_nonparam_cons _ _ _ hv',
        overlayVals_number vs ps i rs pre tail hl h]

theorem overlayLeaf_number (h : Leaf) (ps : List ParamVal) (i : Nat) (rs pre tail : List Resolved)
    (hl : h.slots.length = ps.length) (hr : resolveAll h.slots ps i = .ok rs) :
    overlayLeaf (pre ++ rs ++ tail) (numberLeaf h pre.length) = fillLeaf h rs := by
  cases h with
  | scalar v =>
    cases v with
    | param j =>
      simp only [Leaf.slots] at hl hr
      obtain ⟨p, r, rfl, rfl, _, hres⟩ := resolveAll_one hl hr
      cases p <;> simp [resolve, resolveScalar, Except.map] at hres <;> subst hres <;>
        simp [numberLeaf, overlayLeaf, fillLeaf]
    | str _ => obtain ⟨rfl, rfl⟩ := resolveAll_nil hl hr; rfl
    | int _ => obtain ⟨rfl, rfl⟩ := resolveAll_nil hl hr; rfl
    | null => obtain ⟨rfl, rfl⟩ := resolveAll_nil hl hr; rfl
  | vlist vs =>
    simp only [Leaf.slots] at hl hr
    simp only [numberLeaf, overlayLeaf, fillLeaf, overlayVals_number vs ps i rs pre tail hl hr]
  | multi m =>
    cases m with
    | single v =>
      simp only [Leaf.slots, Multi.values] at hl hr
      have := overlayVals_number [v] ps i rs pre tail hl hr
      cases v with
      | param j => simp only [numberVals] at this; simp only [numberLeaf, overlayLeaf, fillLeaf, fillMulti, this]
      | str _ => simp only [numberVals] at this; simp only [numberLeaf, overlayLeaf, fillLeaf, fillMulti, this]
      | int _ => simp only [numberVals] at this; simp only [numberLeaf, overlayLeaf, fillLeaf, fillMulti, this]
      | null => simp only [numberVals] at this; simp only [numberLeaf, overlayLeaf, fillLeaf, fillMulti, this]
    | array vs =>
      simp only [Leaf.slots, Multi.values] at hl hr
      simp only [numberLeaf, overlayLeaf, fillLeaf, fillMulti, overlayVals_number vs ps i rs pre tail hl hr]
  | time t =>
    cases t with
    | param j =>
      simp only [Leaf.slots] at hl hr
      obtain ⟨p, r, rfl, rfl, _, hres⟩ := resolveAll_one hl hr
      cases p with
      | str s => simp [resolve, resolveTime, Except.map] at hres; subst hres; simp [numberLeaf, overlayLeaf, fillLeaf]
      | ts sec nanos =>
        by_cases hv : tsValid sec nanos = true
        · simp [resolve, resolveTime, Except.map, hv] at hres; subst hres; simp [numberLeaf, overlayLeaf, fillLeaf]
        · simp [resolve, resolveTime, Except.map, hv] at hres
      | _ => simp [resolve, resolveTime, Except.map] at hres
    | str _ => obtain ⟨rfl, rfl⟩ := resolveAll_nil hl hr; rfl
    | int _ => obtain ⟨rfl, rfl⟩ := resolveAll_nil hl hr; rfl
  | count m c =>
    cases c with
    | param j =>
      simp only [Leaf.slots] at hl hr
      obtain ⟨p, r, rfl, rfl, _, hres⟩ := resolveAll_one hl hr
      cases p with
      | int v =>
        by_cases hv : validateCount v m = true
        · simp [resolve, resolveCount, Except.map, hv] at hres; subst hres; simp [numberLeaf, overlayLeaf, fillLeaf]
        · simp [resolve, resolveCount, Except.map, hv] at hres
      | _ => simp [resolve, resolveCount, Except.map] at hres
    | lit _ => obtain ⟨rfl, rfl⟩ := resolveAll_nil hl hr; rfl

theorem overlayLeaves_number : ∀ (hs : List Leaf) (ps : List ParamVal) (i : Nat) (rs pre tail : List Resolved),
    (slotsOf hs).length = ps.length → resolveAll (slotsOf hs) ps i = .ok rs →
    (numberLeaves hs pre.length).map (overlayLeaf (pre ++ rs ++ tail)) = fillLeaves hs rs
  | [], _, _, _, _, _, _, _ => rfl
  | h :: hs, ps, i, rs, pre, tail, hl, hr => by
    rw [slotsOf_cons] at hl hr
    have hle : h.slots.length ≤ ps.length := by simp at hl; omega
    obtain ⟨r1, r2, h1, h2, rfl, hlen⟩ := resolveAll_append _ _ ps i rs hle hr
    simp only [numberLeaves, fillLeaves, List.map_cons]
    rw [List.take_left' hlen, List.drop_left' hlen]
    have e1 : pre ++ (r1 ++ r2) ++ tail = pre ++ r1 ++ (r2 ++ tail) := by simp
    have e2 : pre ++ (r1 ++ r2) ++ tail = (pre ++ r1) ++ r2 ++ tail := by simp
    have e3 : pre.length + h.slots.length = (pre ++ r1).length := by simp [hlen]
    congr 1
    · rw [e1]; exact overlayLeaf_number h _ i r1 pre (r2 ++ tail) (by simp; omega) h1
    · rw [e2, e3]
      exact overlayLeaves_number hs _ _ r2 (pre ++ r1) tail (by simp at hl ⊢; omega) h2

/-! ### a successfully bound statement holds no placeholder; binding nothing changes nothing -/

theorem fillVals_nil : ∀ (vs : List Value), fillVals vs [] = vs
  | [] => rfl
  | v :: vs => by cases v <;> simp [fillVals, fillVals_nil vs]

theorem fillLeaf_nil (h : Leaf) : fillLeaf h [] = h := by
  cases h with
  | scalar v => cases v <;> rfl
  | vlist vs => simp [fillLeaf, fillVals_nil]
  | multi m => cases m <;> simp [fillLeaf, fillMulti, fillVals_nil, regroup]
  | time t => cases t <;> rfl
  | count m c => cases c <;> rfl

theorem fillLeaves_nil : ∀ (hs : List Leaf), fillLeaves hs [] = hs
  | [] => rfl
  | h :: hs => by simp [fillLeaves, fillLeaf_nil, fillLeaves_nil hs]

def Value.isLit : Value → Bool
  | .param _ => false
  | _ => true

theorem valSlots_lits (k : SlotKind) : ∀ (ws : List Value), (∀ w ∈ ws, w.isLit = true) → valSlots k ws = []
  | [], _ => rfl
  | w :: ws, h => by
    have hw := h w (by simp)
    cases w <;> simp [Value.isLit] at hw <;> simp [valSlots] <;>
      exact valSlots_lits k ws (fun x hx => h x (by simp [hx]))

theorem valSlots_append (k : SlotKind) : ∀ (a b : List Value), valSlots k (a ++ b) = valSlots k a ++ valSlots k b
  | [], _ => rfl
  | v :: a, b => by cases v <;> simp [valSlots, valSlots_append k a b]

theorem resolveList_lits {p : ParamVal} {ws : List Value} (h : resolveList p = .ok ws) : ∀ w ∈ ws, w.isLit = true := by
  cases p <;> simp [resolveList, resolveArray] at h
  · subst h; simp [Value.isLit]
  · subst h; simp [Value.isLit]
  · subst h; simp [Value.isLit]
  · rename_i l; cases l <;> simp at h; subst h; intro w hw; simp at hw; rcases hw with rfl | ⟨a, _, rfl⟩ <;> rfl
  · rename_i l; cases l <;> simp at h; subst h; intro w hw; simp at hw; rcases hw with rfl | ⟨a, _, rfl⟩ <;> rfl

theorem fillVals_noSlots (k : SlotKind) : ∀ (vs : List Value) (ps : List ParamVal) (i : Nat) (rs : List Resolved),
    (valSlots .list vs).length = ps.length → resolveAll (valSlots .list vs) ps i = .ok rs →
    valSlots k (fillVals vs rs) = []
  | [], _, _, _, _, _ => by simp [fillVals, valSlots]
  | v :: vs, ps, i, rs, hl, h => by
    by_cases hv : ∃ j, v = .param j
    · obtain ⟨j, rfl⟩ := hv
      simp only [valSlots] at hl h
      match ps, hl with
      | p :: ps, hl =>
        obtain ⟨r, rs', hr, hrs, rfl⟩ := resolveAll_cons_ok h
        obtain ⟨_, hres⟩ := resolveOne_ok hr
        simp only [resolve] at hres
        cases hl' : resolveList p with
        | error e => rw [hl'] at hres; cases hres
        | ok ws =>
          rw [hl'] at hres
          injection hres with hres
          subst hres
          simp only [fillVals, valSlots_append, valSlots_lits k ws (resolveList_lits hl'), List.nil_append]
          exact fillVals_noSlots k vs ps (i + 1) rs' (by simpa using hl) hrs
    · have hv' : ∀ j, v ≠ .param j := fun j e => hv ⟨j, e⟩
      rw [valSlots_nonparam_cons _ _ _ hv'] at hl h
      rw [fillVals_nonparam_cons _ _ _ hv', valSlots_nonparam_cons _ _ _ hv']
      exact fillVals_noSlots k vs ps i rs hl h

theorem regroup_values (b : Bool) (ws : List Value) : (regroup b ws).values = ws := by
  cases b
  · rfl
  · match ws with
    | [] => rfl
    | [_] => rfl
    | _ :: _ :: _ => rfl

theorem fillLeaf_noSlots (h : Leaf) (ps : List ParamVal) (i : Nat) (rs : List Resolved)
    (hl : h.slots.length = ps.length) (hr : resolveAll h.slots ps i = .ok rs) : (fillLeaf h rs).slots = [] := by
  rw [fillLeaf_eq_substLeaf h ps i rs hl hr]
  cases h with
  | scalar v =>
    cases v with
    | param j =>
      simp only [Leaf.slots] at hl hr
      obtain ⟨p, r, rfl, rfl, _, hres⟩ := resolveAll_one hl hr
      cases p <;> simp [resolve, resolveScalar, Except.map] at hres <;> rfl
    | str _ => obtain ⟨rfl, rfl⟩ := resolveAll_nil hl hr; rfl
    | int _ => obtain ⟨rfl, rfl⟩ := resolveAll_nil hl hr; rfl
    | null => obtain ⟨rfl, rfl⟩ := resolveAll_nil hl hr; rfl
  | vlist vs =>
    simp only [Leaf.slots] at hl hr
    rw [← fillLeaf_eq_substLeaf (.vlist vs) ps i rs hl hr]
    simp only [fillLeaf, Leaf.slots]
    exact fillVals_noSlots _ vs ps i rs hl hr
  | multi m =>
    rw [← fillLeaf_eq_substLeaf (.multi m) ps i rs hl hr]
    cases m with
    | single v =>
      simp only [Leaf.slots, Multi.values] at hl hr
      simp only [fillLeaf, fillMulti, Leaf.slots, regroup_values]
      exact fillVals_noSlots _ [v] ps i rs hl hr
    | array vs =>
      simp only [Leaf.slots, Multi.values] at hl hr
      simp only [fillLeaf, fillMulti, Leaf.slots, regroup_values]
      exact fillVals_noSlots _ vs ps i rs hl hr
  | time t =>
    cases t with
    | param j =>
      simp only [Leaf.slots] at hl hr
      obtain ⟨p, r, rfl, rfl, _, hres⟩ := resolveAll_one hl hr
      cases p <;> simp [resolve, resolveTime, Except.map] at hres <;> rfl
    | str _ => obtain ⟨rfl, rfl⟩ := resolveAll_nil hl hr; rfl
    | int _ => obtain ⟨rfl, rfl⟩ := resolveAll_nil hl hr; rfl
  | count m c =>
    cases c with
    | param j =>
      simp only [Leaf.slots] at hl hr
      obtain ⟨p, r, rfl, rfl, _, hres⟩ := resolveAll_one hl hr
      cases p <;> simp [resolve, resolveCount, Except.map] at hres <;> rfl
    | lit _ => obtain ⟨rfl, rfl⟩ := resolveAll_nil hl hr; rfl

theorem fillLeaves_noSlots : ∀ (hs : List Leaf) (ps : List ParamVal) (i : Nat) (rs : List Resolved),
    (slotsOf hs).length = ps.length → resolveAll (slotsOf hs) ps i = .ok rs → slotsOf (fillLeaves hs rs) = []
  | [], _, _, _, _, _ => rfl
  | h :: hs, ps, i, rs, hl, hr => by
    rw [slotsOf_cons] at hl hr
    have hle : h.slots.length ≤ ps.length := by simp at hl; omega
    obtain ⟨r1, r2, h1, h2, rfl, hlen⟩ := resolveAll_append _ _ ps i rs hle hr
    simp only [fillLeaves, slotsOf_cons]
    rw [List.take_left' hlen, List.drop_left' hlen,
      fillLeaf_noSlots h _ i r1 (by simp; omega) h1, fillLeaves_noSlots hs _ _ r2 (by simp at hl ⊢; omega) h2]
    rfl

end Banyan.C20
